import MitmVerif.Model.C04
/-!
  C04 — theorems.  All statements quantify over EVERY handler `H` (every Python `_handle_event`
  generator function, as a resumption tree), every initial attribute state and EVERY schedule (list of
  plain events and command completions — matching, stale, foreign).  No bound on lengths.
-/
namespace MitmVerif.Props.C04
open MitmVerif.C04

section generic
variable {σ σp σc Ev Cmd Reply : Type}

/-! #### vocabulary over the ghost trace -/

/-- events passed to `_handle_event`, in call order -/
def handled : List (Entry Ev Cmd Reply) → List (Event Ev Cmd Reply)
  | [] => []
  | .handle ev :: t => ev :: handled t
  | .emit _ _ :: t => handled t
  | .pause _ :: t => handled t
  | .resume _ _ :: t => handled t

/-- completions consumed by resuming the paused generator, in order -/
def resumed : List (Entry Ev Cmd Reply) → List (Event Ev Cmd Reply)
  | [] => []
  | .resume c r :: t => .completed c r :: resumed t
  | .handle _ :: t => resumed t
  | .emit _ _ :: t => resumed t
  | .pause _ :: t => resumed t

/-- commands the layer paused on -/
def pausedOn : List (Entry Ev Cmd Reply) → List Cmd
  | [] => []
  | .pause c :: t => c :: pausedOn t
  | .handle _ :: t => pausedOn t
  | .emit _ _ :: t => pausedOn t
  | .resume _ _ :: t => pausedOn t

/-- `zs` is an interleaving of `xs` and `ys`: every element of `zs` goes to exactly one side, order kept -/
inductive Interleave {α : Type} : List α → List α → List α → Prop where
  | nil : Interleave [] [] []
  | left {x xs ys zs} : Interleave xs ys zs → Interleave (x :: xs) ys (x :: zs)
  | right {y xs ys zs} : Interleave xs ys zs → Interleave xs (y :: ys) (y :: zs)

/-- the pause/resume discipline as an automaton over the trace: state = command waited for -/
def scanStep [DecidableEq Cmd] : Option Cmd → Entry Ev Cmd Reply → Option (Option Cmd)
  | none, .handle _ => some none
  | none, .emit _ _ => some none
  | none, .pause c => some (some c)
  | none, .resume _ _ => none
  | some c, .resume c' _ => if c' = c then some none else none
  | some _, .handle _ => none
  | some _, .emit _ _ => none
  | some _, .pause _ => none

def scan [DecidableEq Cmd] : Option Cmd → List (Entry Ev Cmd Reply) → Option (Option Cmd)
  | p, [] => some p
  | p, e :: t => (scanStep p e).bind (fun p' => scan p' t)

/-! #### helper lemmas -/

private theorem handled_append (a b : List (Entry Ev Cmd Reply)) : handled (a ++ b) = handled a ++ handled b := by
  induction a with
  | nil => rfl
  | cons e t ih => cases e <;> simp [handled, ih]

private theorem resumed_append (a b : List (Entry Ev Cmd Reply)) : resumed (a ++ b) = resumed a ++ resumed b := by
  induction a with
  | nil => rfl
  | cons e t ih => cases e <;> simp [resumed, ih]

private theorem pausedOn_append (a b : List (Entry Ev Cmd Reply)) : pausedOn (a ++ b) = pausedOn a ++ pausedOn b := by
  induction a with
  | nil => rfl
  | cons e t ih => cases e <;> simp [pausedOn, ih]

private theorem scan_append [DecidableEq Cmd] (p : Option Cmd) (a b : List (Entry Ev Cmd Reply)) :
    scan p (a ++ b) = (scan p a).bind (fun p' => scan p' b) := by
  induction a generalizing p with
  | nil => simp [scan]
  | cons e t ih =>
    simp only [List.cons_append, scan]
    cases scanStep p e with
    | none => simp
    | some p' => simp [ih]

private theorem Interleave.snoc_left {α : Type} {xs ys zs : List α} (a : α) (h : Interleave xs ys zs) :
    Interleave (xs ++ [a]) ys (zs ++ [a]) := by
  induction h with
  | nil => exact .left .nil
  | left _ ih => exact .left ih
  | right _ ih => exact .right ih

private theorem Interleave.snoc_right {α : Type} {xs ys zs : List α} (a : α) (h : Interleave xs ys zs) :
    Interleave xs (ys ++ [a]) (zs ++ [a]) := by
  induction h with
  | nil => exact .right .nil
  | left _ ih => exact .left ih
  | right _ ih => exact .right ih

theorem Interleave.length {α : Type} {xs ys zs : List α} (h : Interleave xs ys zs) :
    zs.length = xs.length + ys.length := by
  induction h with
  | nil => rfl
  | left _ ih => simp [ih]; omega
  | right _ ih => simp [ih]; omega

theorem Interleave.sublist_left {α : Type} {xs ys zs : List α} (h : Interleave xs ys zs) : xs.Sublist zs := by
  induction h with
  | nil => exact .slnil
  | left _ ih => exact ih.cons_cons _
  | right _ ih => exact ih.cons _

theorem Interleave.sublist_right {α : Type} {xs ys zs : List α} (h : Interleave xs ys zs) : ys.Sublist zs := by
  induction h with
  | nil => exact .slnil
  | left _ ih => exact ih.cons _
  | right _ ih => exact ih.cons_cons _

/-- facts about one `__process` run, for every generator -/
private theorem run_facts [DecidableEq Cmd] (nil : Reply) (g : Gen σ Cmd Reply) :
    handled (run (Ev := Ev) nil g).ents = [] ∧ resumed (run (Ev := Ev) nil g).ents = [] ∧
    scan none (run (Ev := Ev) nil g).ents = some ((run (Ev := Ev) nil g).paused.map (·.1)) ∧
    (∀ x ∈ (run (Ev := Ev) nil g).out, x.2 ≠ Blk.yes) := by
  induction g with
  | done s => simp [run, handled, resumed, scan]
  | yield s c b k ih =>
    obtain ⟨h1, h2, h3, h4⟩ := ih nil
    cases b
    · refine ⟨by simp [run, handled, h1], by simp [run, resumed, h2], by simp [run, scan, scanStep, h3], ?_⟩
      intro x hx
      simp only [run, List.mem_cons] at hx
      rcases hx with rfl | hx
      · simp
      · exact h4 x hx
    · simp [run, handled, resumed, scan, scanStep]
    · refine ⟨by simp [run, handled, h1], by simp [run, resumed, h2], by simp [run, scan, scanStep, h3], ?_⟩
      intro x hx
      simp only [run, List.mem_cons] at hx
      rcases hx with rfl | hx
      · simp
      · exact h4 x hx


private theorem fresh_facts [DecidableEq Cmd] (H : Handler σ Ev Cmd Reply) (nil : Reply)
    (L : Layer σ Ev Cmd Reply) (ev : Event Ev Cmd Reply) (hd : scan none L.log = some none) :
    let L' := (handleFresh H nil L ev).1
    handled L'.log = handled L.log ++ [ev] ∧ resumed L'.log = resumed L.log ∧ L'.queue = L.queue ∧
    L'.arrived = L.arrived ∧ scan none L'.log = some (L'.paused.map (·.1)) ∧
    (∀ x ∈ (handleFresh H nil L ev).2, x.2 ≠ Blk.yes) := by
  obtain ⟨h1, h2, h3, h4⟩ := run_facts (Ev := Ev) nil (H L.st ev)
  refine ⟨?_, ?_, rfl, rfl, ?_, h4⟩
  · simp [handleFresh, handled_append, handled, h1]
  · simp [handleFresh, resumed_append, resumed, h2]
  · simp [handleFresh, scan_append, hd, scan, scanStep, h3]

private theorem drain_facts [DecidableEq Cmd] (H : Handler σ Ev Cmd Reply) (nil : Reply)
    (q : List (Event Ev Cmd Reply)) : ∀ (L : Layer σ Ev Cmd Reply),
    scan none L.log = some (L.paused.map (·.1)) →
    let L' := (drain H nil L q).1
    handled L'.log ++ L'.queue = handled L.log ++ q ∧ resumed L'.log = resumed L.log ∧
    L'.arrived = L.arrived ∧ (L'.paused = none → L'.queue = []) ∧
    scan none L'.log = some (L'.paused.map (·.1)) ∧
    (∀ x ∈ (drain H nil L q).2, x.2 ≠ Blk.yes) := by
  induction q with
  | nil => intro L hd; simp [drain, hd]
  | cons ev rest ih =>
    intro L hd
    cases hp : L.paused with
    | some pk => simp [drain, hp, hd]
    | none =>
      have hd' : scan none L.log = some none := by simpa [hp] using hd
      obtain ⟨f1, f2, f3, f4, f5, f6⟩ := fresh_facts H nil L ev hd'
      obtain ⟨d1, d2, d3, d4, d5, d6⟩ := ih (handleFresh H nil L ev).1 f5
      simp only [drain, hp]
      refine ⟨?_, ?_, ?_, d4, d5, ?_⟩
      · rw [d1, f1]; simp
      · rw [d2, f2]
      · rw [d3, f4]
      · intro x hx
        rcases List.mem_append.mp hx with hx | hx
        · exact f6 x hx
        · exact d6 x hx

/-- the invariant carried along every schedule -/
structure Inv [DecidableEq Cmd] (L : Layer σ Ev Cmd Reply) : Prop where
  part : Interleave (handled L.log ++ L.queue) (resumed L.log) L.arrived
  idle : L.paused = none → L.queue = []
  disc : scan none L.log = some (L.paused.map (·.1))

private theorem inv_init [DecidableEq Cmd] (s : σ) : Inv (Layer.init s : Layer σ Ev Cmd Reply) :=
  ⟨by simpa [Layer.init, handled, resumed] using Interleave.nil, by simp [Layer.init], by simp [Layer.init, scan]⟩

/-- the three cases of `Layer.handle_event` -/
private theorem he_idle [DecidableEq Cmd] (H : Handler σ Ev Cmd Reply) (nil : Reply)
    (L : Layer σ Ev Cmd Reply) (ev : Event Ev Cmd Reply) (hp : L.paused = none) :
    handleEvent H nil L ev = handleFresh H nil { L with arrived := L.arrived ++ [ev] } ev := by
  simp [handleEvent, hp]

private theorem he_match [DecidableEq Cmd] (H : Handler σ Ev Cmd Reply) (nil : Reply)
    (L : Layer σ Ev Cmd Reply) (c : Cmd) (k : Reply → Gen σ Cmd Reply) (r : Reply) (hp : L.paused = some (c, k)) :
    handleEvent H nil L (.completed c r) = resumeWith H nil { L with arrived := L.arrived ++ [.completed c r] } c k r := by
  simp [handleEvent, hp]

private theorem he_other [DecidableEq Cmd] (H : Handler σ Ev Cmd Reply) (nil : Reply)
    (L : Layer σ Ev Cmd Reply) (c : Cmd) (k : Reply → Gen σ Cmd Reply) (ev : Event Ev Cmd Reply)
    (hp : L.paused = some (c, k)) (hne : ∀ r, ev ≠ .completed c r) :
    handleEvent H nil L ev = enqueue { L with arrived := L.arrived ++ [ev] } ev := by
  cases ev with
  | plain e => simp [handleEvent, hp]
  | completed c' r =>
    have : c' ≠ c := fun h => hne r (by rw [h])
    simp [handleEvent, hp, this]

private theorem step_facts [DecidableEq Cmd] (H : Handler σ Ev Cmd Reply) (nil : Reply)
    (L : Layer σ Ev Cmd Reply) (ev : Event Ev Cmd Reply) (h : Inv L) :
    Inv (handleEvent H nil L ev).1 ∧ (handleEvent H nil L ev).1.arrived = L.arrived ++ [ev] ∧
    (∀ x ∈ (handleEvent H nil L ev).2, x.2 ≠ Blk.yes) := by
  obtain ⟨hpart, hidle, hdisc⟩ := h
  cases hp : L.paused with
  | none =>
    have hq := hidle hp
    have hd' : scan none L.log = some none := by simpa [hp] using hdisc
    obtain ⟨f1, f2, f3, f4, f5, f6⟩ :=
      fresh_facts H nil { L with arrived := L.arrived ++ [ev] } ev hd'
    rw [he_idle H nil L ev hp]
    refine ⟨⟨?_, ?_, f5⟩, f4, f6⟩
    · rw [f1, f2, f3, f4]
      simp only [hq, List.append_nil] at hpart ⊢
      exact hpart.snoc_left ev
    · intro _; rw [f3]; exact hq
  | some pk =>
    obtain ⟨c, k⟩ := pk
    have enq : Inv (enqueue { L with arrived := L.arrived ++ [ev] } ev).1 ∧
        (enqueue { L with arrived := L.arrived ++ [ev] } ev).1.arrived = L.arrived ++ [ev] ∧
        (∀ x ∈ (enqueue { L with arrived := L.arrived ++ [ev] } ev).2, x.2 ≠ Blk.yes) := by
      refine ⟨⟨?_, ?_, ?_⟩, rfl, by simp [enqueue]⟩
      · simp only [enqueue, ← List.append_assoc]
        exact hpart.snoc_left ev
      · simp [enqueue, hp]
      · simpa [enqueue] using hdisc
    cases ev with
    | plain e => rw [he_other H nil L c k _ hp (by simp)]; exact enq
    | completed c' r =>
      by_cases hc : c' = c
      · subst hc
        rw [he_match H nil L c' k r hp]
        simp only [resumeWith]
        obtain ⟨r1, r2, r3, r4⟩ := run_facts (Ev := Ev) nil (k r)
        have hd1 : scan none (L.log ++ Entry.resume c' r :: (run (Ev := Ev) nil (k r)).ents) =
            some ((run (Ev := Ev) nil (k r)).paused.map (·.1)) := by
          simp [scan_append, hdisc, hp, scan, scanStep, r3]
        obtain ⟨d1, d2, d3, d4, d5, d6⟩ := drain_facts H nil L.queue
          { L with arrived := L.arrived ++ [.completed c' r], st := (run (Ev := Ev) nil (k r)).st,
                   paused := (run (Ev := Ev) nil (k r)).paused,
                   log := L.log ++ Entry.resume c' r :: (run (Ev := Ev) nil (k r)).ents } hd1
        refine ⟨⟨?_, d4, d5⟩, d3, ?_⟩
        · rw [d1, d2, d3]
          simp only [handled_append, resumed_append, handled, resumed, r1, r2, List.append_nil]
          exact hpart.snoc_right _
        · intro x hx
          rcases List.mem_append.mp hx with hx | hx
          · exact r4 x hx
          · exact d6 x hx
      · rw [he_other H nil L c k _ hp (by simp [hc])]; exact enq

private theorem sched_facts [DecidableEq Cmd] (H : Handler σ Ev Cmd Reply) (nil : Reply)
    (evs : List (Event Ev Cmd Reply)) : ∀ (L : Layer σ Ev Cmd Reply), Inv L →
    Inv (runSched H nil L evs) ∧ (runSched H nil L evs).arrived = L.arrived ++ evs := by
  induction evs with
  | nil => intro L h; simpa [runSched] using h
  | cons ev rest ih =>
    intro L h
    obtain ⟨s1, s2, _⟩ := step_facts H nil L ev h
    obtain ⟨i1, i2⟩ := ih _ s1
    exact ⟨i1, by rw [runSched, i2, s2]; simp⟩


private theorem interleave_nil_right {α : Type} {xs zs : List α} (h : Interleave xs [] zs) : xs = zs := by
  generalize hy : ([] : List α) = ys at h
  induction h with
  | nil => rfl
  | left _ ih => rw [ih hy]
  | right _ _ => cases hy

/-! ### the single layer: Layer.handle_event / __process / __continue -/

/-- **Every incoming event is handled exactly once and in arrival order.**  For every handler, initial state
    and schedule: the arrivals are an interleaving (each arrival on exactly one side, order kept) of
    (a) the events passed to `_handle_event` so far followed by the events still queued, and
    (b) the completions that resumed the paused generator.  Nothing is queued in a layer that is not paused. -/
theorem handled_eq_arrivals [DecidableEq Cmd] (H : Handler σ Ev Cmd Reply) (nil : Reply) (s : σ)
    (evs : List (Event Ev Cmd Reply)) :
    let L := runSched H nil (Layer.init s) evs
    Interleave (handled L.log ++ L.queue) (resumed L.log) evs ∧ (L.paused = none → L.queue = []) := by
  obtain ⟨i, a⟩ := sched_facts H nil evs (Layer.init s) (inv_init s)
  have hp := i.part
  rw [a] at hp
  exact ⟨by simpa [Layer.init] using hp, i.idle⟩

/-- corollary: a schedule in which the layer never gets resumed (e.g. it never blocks) is handled
    verbatim: handled ++ queued = arrivals, as lists -/
theorem handled_eq_arrivals_verbatim [DecidableEq Cmd] (H : Handler σ Ev Cmd Reply) (nil : Reply) (s : σ)
    (evs : List (Event Ev Cmd Reply)) (h : resumed (runSched H nil (Layer.init s) evs).log = []) :
    handled (runSched H nil (Layer.init s) evs).log ++ (runSched H nil (Layer.init s) evs).queue = evs := by
  have := (handled_eq_arrivals H nil s evs).1
  simp only [h] at this
  exact interleave_nil_right this

/-- **A layer never starts handling a new event while it waits for a completion.**  The trace of every
    run is accepted by the pause/resume automaton `scan`: after `pause c` nothing happens in the layer
    (no `_handle_event` call, no command emitted) until `resume c _` for the same command; the automaton's
    final state is the layer's `_paused` slot. -/
theorem no_handle_while_paused [DecidableEq Cmd] (H : Handler σ Ev Cmd Reply) (nil : Reply) (s : σ)
    (evs : List (Event Ev Cmd Reply)) :
    let L := runSched H nil (Layer.init s) evs
    scan none L.log = some (L.paused.map (·.1)) :=
  (sched_facts H nil evs (Layer.init s) (inv_init s)).1.disc

/-- what acceptance by `scan` means: the entry right after a `pause c` is the `resume` of that same `c` -/
theorem scan_pause_then_resume [DecidableEq Cmd] (p q : Option Cmd) (pre post : List (Entry Ev Cmd Reply))
    (c : Cmd) (e : Entry Ev Cmd Reply) (h : scan p (pre ++ .pause c :: e :: post) = some q) :
    ∃ r, e = .resume c r := by
  rw [scan_append] at h
  cases h1 : scan p pre with
  | none => simp [h1] at h
  | some p' =>
    simp only [h1, Option.bind_some, scan] at h
    cases p' with
    | some _ => simp [scanStep] at h
    | none =>
      simp only [scanStep, Option.bind_some] at h
      cases e with
      | resume c' r =>
        by_cases hc : c' = c
        · exact ⟨r, by rw [hc]⟩
        · simp [hc] at h
      | handle _ => simp at h
      | emit _ _ => simp at h
      | pause _ => simp at h

private theorem drain_log [DecidableEq Cmd] (H : Handler σ Ev Cmd Reply) (nil : Reply)
    (q : List (Event Ev Cmd Reply)) : ∀ (L : Layer σ Ev Cmd Reply),
    ∃ more, (drain H nil L q).1.log = L.log ++ more := by
  induction q with
  | nil => intro L; exact ⟨[], by simp [drain]⟩
  | cons ev rest ih =>
    intro L
    cases hp : L.paused with
    | some pk => exact ⟨[], by simp [drain, hp]⟩
    | none =>
      obtain ⟨m, hm⟩ := ih (handleFresh H nil L ev).1
      refine ⟨Entry.handle ev :: (run (Ev := Ev) nil (H L.st ev)).ents ++ m, ?_⟩
      simp only [drain, hp]
      rw [hm]
      simp [handleFresh]

/-- **Each waiting operation is resumed with exactly its own completion.**  For a layer paused on command
    `c` with suspended generator `k` (any state whatsoever):
    * the completion of `c` with reply `r` sends exactly `r` into exactly `k` (trace and output continue with
      `run (k r)`), before anything else happens;
    * every other event — plain, or the completion of any other command — leaves the generator suspended
      on `c`, emits nothing, and is appended to the queue. -/
theorem resume_gets_own_reply [DecidableEq Cmd] (H : Handler σ Ev Cmd Reply) (nil : Reply)
    (L : Layer σ Ev Cmd Reply) (c : Cmd) (k : Reply → Gen σ Cmd Reply) (hp : L.paused = some (c, k)) :
    (∀ r, ∃ more moreOut,
        (handleEvent H nil L (.completed c r)).1.log
          = L.log ++ .resume c r :: (run (Ev := Ev) nil (k r)).ents ++ more ∧
        (handleEvent H nil L (.completed c r)).2 = (run (Ev := Ev) nil (k r)).out ++ moreOut) ∧
    (∀ ev, (∀ r, ev ≠ .completed c r) →
        (handleEvent H nil L ev).1.paused = some (c, k) ∧ (handleEvent H nil L ev).1.log = L.log ∧
        (handleEvent H nil L ev).1.queue = L.queue ++ [ev] ∧ (handleEvent H nil L ev).2 = []) := by
  constructor
  · intro r
    rw [he_match H nil L c k r hp]
    simp only [resumeWith]
    obtain ⟨m, hm⟩ := drain_log H nil L.queue
      { L with arrived := L.arrived ++ [.completed c r], st := (run (Ev := Ev) nil (k r)).st,
               paused := (run (Ev := Ev) nil (k r)).paused,
               log := L.log ++ Entry.resume c r :: (run (Ev := Ev) nil (k r)).ents }
    exact ⟨m, _, by rw [hm], rfl⟩
  -- second part
  · intro ev hne
    rw [he_other H nil L c k ev hp hne]
    simp [enqueue, hp]

/-- every resume in the trace consumed a distinct arrival `CommandCompleted(c, r)`, in order -/
theorem resumes_are_arrivals [DecidableEq Cmd] (H : Handler σ Ev Cmd Reply) (nil : Reply) (s : σ)
    (evs : List (Event Ev Cmd Reply)) :
    (resumed (runSched H nil (Layer.init s) evs).log).Sublist evs :=
  (handled_eq_arrivals H nil s evs).1.sublist_right

/-- commands that leave `handle_event` never carry `blocking is True` (outer layers test exactly that) -/
theorem emitted_never_blocking_true [DecidableEq Cmd] (H : Handler σ Ev Cmd Reply) (nil : Reply)
    (L : Layer σ Ev Cmd Reply) (ev : Event Ev Cmd Reply) :
    ∀ x ∈ (handleEvent H nil L ev).2, x.2 ≠ Blk.yes := by
  have fresh : ∀ (L : Layer σ Ev Cmd Reply) ev, ∀ x ∈ (handleFresh H nil L ev).2, x.2 ≠ Blk.yes :=
    fun L ev => (run_facts (Ev := Ev) nil (H L.st ev)).2.2.2
  have dr : ∀ (q : List (Event Ev Cmd Reply)) (L : Layer σ Ev Cmd Reply),
      ∀ x ∈ (drain H nil L q).2, x.2 ≠ Blk.yes := by
    intro q
    induction q with
    | nil => intro L; simp [drain]
    | cons e rest ih =>
      intro L
      cases hp : L.paused with
      | some pk => simp [drain, hp]
      | none =>
        simp only [drain, hp]
        intro x hx
        rcases List.mem_append.mp hx with hx | hx
        · exact fresh L e x hx
        · exact ih _ x hx
  cases hp : L.paused with
  | none => rw [he_idle H nil L ev hp]; exact fresh _ _
  | some pk =>
    obtain ⟨c, k⟩ := pk
    by_cases hm : ∃ r, ev = .completed c r
    · obtain ⟨r, rfl⟩ := hm
      rw [he_match H nil L c k r hp]
      simp only [resumeWith]
      intro x hx
      rcases List.mem_append.mp hx with hx | hx
      · exact (run_facts (Ev := Ev) nil (k r)).2.2.2 x hx
      · exact dr _ _ x hx
    · rw [he_other H nil L c k ev hp (fun r h => hm ⟨r, h⟩)]
      simp [enqueue]


/-! ### a parent layer relaying its child layers -/

private def emits (o : Out Cmd) : List (Entry Ev Cmd Reply) := o.map (fun x => .emit x.1 x.2)

private theorem emits_facts [DecidableEq Cmd] (o : Out Cmd) :
    handled (emits (Ev := Ev) (Reply := Reply) o) = [] ∧ resumed (emits (Ev := Ev) (Reply := Reply) o) = [] ∧
    pausedOn (emits (Ev := Ev) (Reply := Reply) o) = [] := by
  induction o with
  | nil => simp [emits, handled, resumed, pausedOn]
  | cons x t ih => simpa [emits, handled, resumed, pausedOn] using ih

/-- relayed commands (none of them `blocking is True`) pass through `__process` without pausing it -/
private theorem run_relay {τ : Type} (nil : Reply) (s : τ) (o : Out Cmd) (g : Gen τ Cmd Reply)
    (h : ∀ x ∈ o, x.2 ≠ Blk.yes) :
    run (Ev := Ev) nil (relay s o g) =
      ⟨(run (Ev := Ev) nil g).st, (run (Ev := Ev) nil g).paused, emits o ++ (run (Ev := Ev) nil g).ents,
       o ++ (run (Ev := Ev) nil g).out⟩ := by
  induction o with
  | nil => simp [relay, emits]
  | cons x t ih =>
    obtain ⟨c, b⟩ := x
    have hb : b ≠ Blk.yes := h (c, b) (by simp)
    have := ih (fun x hx => h x (by simp [hx]))
    cases b with
    | yes => exact absurd rfl hb
    | no => simp [relay, run, this, emits]
    | owned => simp [relay, run, this, emits]

/-- the parent's own `yield`s are never blocking (its relays of child commands are unconstrained) -/
inductive NoBlock : PGen σp Ev Cmd Reply → Prop where
  | done (s) : NoBlock (.done s)
  | yield (s c b k) : b ≠ Blk.yes → (∀ r, NoBlock (k r)) → NoBlock (.yield s c b k)
  | child (s i ev k) : NoBlock k → NoBlock (.child s i ev k)

/-- every command the parent itself yields satisfies `own` -/
inductive Owns (own : Cmd → Prop) : PGen σp Ev Cmd Reply → Prop where
  | done (s) : Owns own (.done s)
  | yield (s c b k) : own c → (∀ r, Owns own (k r)) → Owns own (.yield s c b k)
  | child (s i ev k) : Owns own k → Owns own (.child s i ev k)

private theorem lower_noblock [DecidableEq Cmd] (Hc : Nat → Handler σc Ev Cmd Reply) (nil : Reply)
    (g : PGen σp Ev Cmd Reply) (hg : NoBlock g) : ∀ chs : List (Layer σc Ev Cmd Reply),
    (run (Ev := Ev) nil (lower Hc nil g chs)).paused = none := by
  induction hg with
  | done s => intro chs; simp [lower, run]
  | yield s c b k hb _ ih =>
    intro chs
    cases b with
    | yes => exact absurd rfl hb
    | no => simpa [lower, run] using ih nil chs
    | owned => simpa [lower, run] using ih nil chs
  | child s i ev k _ ih =>
    intro chs
    cases hi : chs[i]? with
    | none => simpa [lower, hi] using ih chs
    | some ch =>
      simp only [lower, hi]
      rw [run_relay nil _ _ _ (emitted_never_blocking_true (Hc i) nil ch ev)]
      exact ih _

/-- **Blocking one layer never blocks the layers above it.**  A parent whose own yields are non-blocking,
    relaying any number of child layers with ARBITRARY handlers (which may block at will, in any state):
    for every schedule the parent is never paused, never queues, and has passed every arrival to its
    `_handle_event` immediately, in order. -/
theorem child_block_does_not_block_parent [DecidableEq Cmd]
    (PH : σp → Event Ev Cmd Reply → PGen σp Ev Cmd Reply) (hPH : ∀ s ev, NoBlock (PH s ev))
    (Hc : Nat → Handler σc Ev Cmd Reply) (nil : Reply) (s0 : σp) (chs0 : List (Layer σc Ev Cmd Reply))
    (evs : List (Event Ev Cmd Reply)) :
    let P := runSched (parentHandler PH Hc nil) nil (Layer.init (s0, chs0)) evs
    P.paused = none ∧ P.queue = [] ∧ handled P.log = evs := by
  have key : ∀ (evs : List (Event Ev Cmd Reply)) (P : Layer (σp × List (Layer σc Ev Cmd Reply)) Ev Cmd Reply),
      P.paused = none → P.queue = [] →
      (runSched (parentHandler PH Hc nil) nil P evs).paused = none ∧
      (runSched (parentHandler PH Hc nil) nil P evs).queue = [] ∧
      handled (runSched (parentHandler PH Hc nil) nil P evs).log = handled P.log ++ evs := by
    intro evs
    induction evs with
    | nil => intro P hp hq; simp [runSched, hp, hq]
    | cons ev rest ih =>
      intro P hp hq
      simp only [runSched]
      rw [he_idle _ nil P ev hp]
      have h1 : (handleFresh (parentHandler PH Hc nil) nil { P with arrived := P.arrived ++ [ev] } ev).1.paused = none := by
        simp only [handleFresh, parentHandler]
        exact lower_noblock Hc nil _ (hPH _ _) _
      obtain ⟨a, b, c⟩ := ih _ h1 (by simpa [handleFresh] using hq)
      refine ⟨a, b, ?_⟩
      rw [c]
      have := (run_facts (Ev := Ev) nil (parentHandler PH Hc nil P.st ev)).1
      simp [handleFresh, handled_append, handled, this]
  simpa [Layer.init, handled] using key evs (Layer.init (s0, chs0)) rfl rfl


/-- the suspended generator of a parent is always "the rest of a parent generator" -/
private def GoodK [DecidableEq Cmd] (own : Cmd → Prop) (Hc : Nat → Handler σc Ev Cmd Reply) (nil : Reply)
    (k : Reply → Gen (σp × List (Layer σc Ev Cmd Reply)) Cmd Reply) : Prop :=
  ∀ r, ∃ (g : PGen σp Ev Cmd Reply) (chs : List (Layer σc Ev Cmd Reply)), k r = lower Hc nil g chs ∧ Owns own g

private theorem lower_owns [DecidableEq Cmd] (own : Cmd → Prop) (Hc : Nat → Handler σc Ev Cmd Reply) (nil : Reply)
    (g : PGen σp Ev Cmd Reply) (hg : Owns own g) : ∀ chs : List (Layer σc Ev Cmd Reply),
    (∀ c ∈ pausedOn (run (Ev := Ev) nil (lower Hc nil g chs)).ents, own c) ∧
    (∀ c k, (run (Ev := Ev) nil (lower Hc nil g chs)).paused = some (c, k) → GoodK own Hc nil k) := by
  induction hg with
  | done s => intro chs; simp [lower, run, pausedOn]
  | yield s c b k hc hk ih =>
    intro chs
    cases b with
    | yes =>
      refine ⟨by simpa [lower, run, pausedOn] using hc, ?_⟩
      intro c' k' h
      simp only [lower, run, Option.some.injEq, Prod.mk.injEq] at h
      obtain ⟨_, rfl⟩ := h
      exact fun r => ⟨k r, chs, rfl, hk r⟩
    | no => simpa [lower, run, pausedOn] using ih nil chs
    | owned => simpa [lower, run, pausedOn] using ih nil chs
  | child s i ev k _ ih =>
    intro chs
    cases hi : chs[i]? with
    | none => simpa [lower, hi] using ih chs
    | some ch =>
      simp only [lower, hi]
      rw [run_relay nil _ _ _ (emitted_never_blocking_true (Hc i) nil ch ev)]
      simpa [pausedOn_append, (emits_facts _).2.2] using ih _

private structure PInv [DecidableEq Cmd] (own : Cmd → Prop) (Hc : Nat → Handler σc Ev Cmd Reply) (nil : Reply)
    (P : Layer (σp × List (Layer σc Ev Cmd Reply)) Ev Cmd Reply) : Prop where
  logs : ∀ c ∈ pausedOn P.log, own c
  cont : ∀ c k, P.paused = some (c, k) → GoodK own Hc nil k

private theorem pinv_fresh [DecidableEq Cmd] (own : Cmd → Prop)
    (PH : σp → Event Ev Cmd Reply → PGen σp Ev Cmd Reply) (hPH : ∀ s ev, Owns own (PH s ev))
    (Hc : Nat → Handler σc Ev Cmd Reply) (nil : Reply)
    (P : Layer (σp × List (Layer σc Ev Cmd Reply)) Ev Cmd Reply) (ev : Event Ev Cmd Reply)
    (h : PInv own Hc nil P) : PInv own Hc nil (handleFresh (parentHandler PH Hc nil) nil P ev).1 := by
  obtain ⟨a, b⟩ := lower_owns own Hc nil (PH P.st.1 ev) (hPH _ _) P.st.2
  constructor
  · intro c hc
    simp only [handleFresh, pausedOn_append, pausedOn, List.mem_append] at hc
    rcases hc with hc | hc
    · exact h.logs c hc
    · exact a c hc
  · intro c k hk
    exact b c k hk

private theorem pinv_drain [DecidableEq Cmd] (own : Cmd → Prop)
    (PH : σp → Event Ev Cmd Reply → PGen σp Ev Cmd Reply) (hPH : ∀ s ev, Owns own (PH s ev))
    (Hc : Nat → Handler σc Ev Cmd Reply) (nil : Reply) (q : List (Event Ev Cmd Reply)) :
    ∀ (P : Layer (σp × List (Layer σc Ev Cmd Reply)) Ev Cmd Reply), PInv own Hc nil P →
    PInv own Hc nil (drain (parentHandler PH Hc nil) nil P q).1 := by
  induction q with
  | nil => intro P h; exact ⟨h.logs, h.cont⟩
  | cons ev rest ih =>
    intro P h
    cases hp : P.paused with
    | some pk => simp only [drain, hp]; exact ⟨h.logs, fun c k a => h.cont c k (by simpa [hp] using a)⟩
    | none => simp only [drain, hp]; exact ih _ (pinv_fresh own PH hPH Hc nil P ev h)

private theorem pinv_step [DecidableEq Cmd] (own : Cmd → Prop)
    (PH : σp → Event Ev Cmd Reply → PGen σp Ev Cmd Reply) (hPH : ∀ s ev, Owns own (PH s ev))
    (Hc : Nat → Handler σc Ev Cmd Reply) (nil : Reply)
    (P : Layer (σp × List (Layer σc Ev Cmd Reply)) Ev Cmd Reply) (ev : Event Ev Cmd Reply)
    (h : PInv own Hc nil P) : PInv own Hc nil (handleEvent (parentHandler PH Hc nil) nil P ev).1 := by
  have h' : PInv own Hc nil { P with arrived := P.arrived ++ [ev] } := ⟨h.logs, h.cont⟩
  cases hp : P.paused with
  | none => rw [he_idle _ nil P ev hp]; exact pinv_fresh own PH hPH Hc nil _ ev h'
  | some pk =>
    obtain ⟨c, k⟩ := pk
    by_cases hm : ∃ r, ev = .completed c r
    · obtain ⟨r, rfl⟩ := hm
      rw [he_match _ nil P c k r hp]
      simp only [resumeWith]
      apply pinv_drain own PH hPH
      obtain ⟨g, chs, e, hg⟩ := h.cont c k hp r
      obtain ⟨a, b⟩ := lower_owns own Hc nil g hg chs
      rw [e]
      constructor
      · intro c' hc
        simp only [pausedOn_append, pausedOn, List.mem_append] at hc
        rcases hc with hc | hc
        · exact h.logs c' hc
        · exact a c' hc
      · intro c' k' hk
        exact b c' k' hk
    · rw [he_other _ nil P c k ev hp (fun r h => hm ⟨r, h⟩)]
      exact ⟨h.logs, fun c' k' a => h.cont c' k' (by simpa [enqueue] using a)⟩

/-- **A parent pauses only on its own commands.**  Whatever the children do (any handlers, any state, any
    blocking), for every schedule every `pause c` in the parent's trace is a command the parent's own
    generator yielded — never a relayed command of a child. -/
theorem parent_pauses_only_on_own_commands [DecidableEq Cmd] (own : Cmd → Prop)
    (PH : σp → Event Ev Cmd Reply → PGen σp Ev Cmd Reply) (hPH : ∀ s ev, Owns own (PH s ev))
    (Hc : Nat → Handler σc Ev Cmd Reply) (nil : Reply) (s0 : σp) (chs0 : List (Layer σc Ev Cmd Reply))
    (evs : List (Event Ev Cmd Reply)) :
    ∀ c ∈ pausedOn (runSched (parentHandler PH Hc nil) nil (Layer.init (s0, chs0)) evs).log, own c := by
  have key : ∀ (evs : List (Event Ev Cmd Reply)) (P : Layer (σp × List (Layer σc Ev Cmd Reply)) Ev Cmd Reply),
      PInv own Hc nil P → PInv own Hc nil (runSched (parentHandler PH Hc nil) nil P evs) := by
    intro evs
    induction evs with
    | nil => intro P h; exact h
    | cons ev rest ih => intro P h; exact ih _ (pinv_step own PH hPH Hc nil P ev h)
  exact (key evs _ ⟨by simp [Layer.init, pausedOn], by simp [Layer.init]⟩).logs

/-! ### NextLayer -/

private theorem drain_arrived [DecidableEq Cmd] (H : Handler σ Ev Cmd Reply) (nil : Reply)
    (q : List (Event Ev Cmd Reply)) : ∀ (L : Layer σ Ev Cmd Reply), (drain H nil L q).1.arrived = L.arrived := by
  induction q with
  | nil => intro L; simp [drain]
  | cons ev rest ih =>
    intro L
    cases hp : L.paused with
    | some pk => simp [drain, hp]
    | none => simp only [drain, hp]; rw [ih]; rfl

/-- `handle_event` is called with `ev`: the ghost `arrived` grows by exactly `ev` (any state) -/
private theorem he_arrived [DecidableEq Cmd] (H : Handler σ Ev Cmd Reply) (nil : Reply)
    (L : Layer σ Ev Cmd Reply) (ev : Event Ev Cmd Reply) : (handleEvent H nil L ev).1.arrived = L.arrived ++ [ev] := by
  cases hp : L.paused with
  | none => rw [he_idle H nil L ev hp]; rfl
  | some pk =>
    obtain ⟨c, k⟩ := pk
    by_cases hm : ∃ r, ev = .completed c r
    · obtain ⟨r, rfl⟩ := hm
      rw [he_match H nil L c k r hp]
      simp only [resumeWith]
      rw [drain_arrived]
    · rw [he_other H nil L c k ev hp (fun r h => hm ⟨r, h⟩)]
      rfl

private theorem replay_facts [DecidableEq Cmd] (Hc : Handler σc Ev Cmd Reply) (nil : Reply)
    (evs : List (Event Ev Cmd Reply)) : ∀ ch : Layer σc Ev Cmd Reply,
    (replay Hc nil ch evs).1.arrived = ch.arrived ++ evs ∧ (∀ x ∈ (replay Hc nil ch evs).2, x.2 ≠ Blk.yes) := by
  induction evs with
  | nil => intro ch; simp [replay]
  | cons e t ih =>
    intro ch
    obtain ⟨a, b⟩ := ih (handleEvent Hc nil ch e).1
    refine ⟨by simp only [replay]; rw [a, he_arrived]; simp, ?_⟩
    intro x hx
    simp only [replay] at hx
    rcases List.mem_append.mp hx with hx | hx
    · exact emitted_never_blocking_true Hc nil ch e x hx
    · exact b x hx

private theorem run_askcont_true [DecidableEq Cmd] (P : NLParams Ev Cmd Reply) (Hc : Handler σc Ev Cmd Reply) (nil : Reply)
    (s : NLState σc Ev Cmd Reply) (r : Reply) (hd : P.decide r = true) :
    run (Ev := Ev) nil (nlAskCont P Hc nil s r) =
      ⟨{ s with events := [], child := (replay Hc nil s.child s.events).1, handed := true }, none,
       emits (replay Hc nil s.child s.events).2, (replay Hc nil s.child s.events).2⟩ := by
  simp only [nlAskCont, hd, if_true]
  rw [run_relay nil _ _ _ (replay_facts Hc nil s.events s.child).2]
  simp [run]

private theorem run_handed [DecidableEq Cmd] (P : NLParams Ev Cmd Reply) (Hc : Handler σc Ev Cmd Reply) (nil : Reply)
    (s : NLState σc Ev Cmd Reply) (ev : Event Ev Cmd Reply) (hh : s.handed = true) :
    run (Ev := Ev) nil (nlHandler P Hc nil s ev) =
      ⟨{ s with child := (handleEvent Hc nil s.child ev).1 }, none,
       emits (handleEvent Hc nil s.child ev).2, (handleEvent Hc nil s.child ev).2⟩ := by
  simp only [nlHandler, hh, if_true]
  rw [run_relay nil _ _ _ (emitted_never_blocking_true Hc nil s.child ev)]
  simp [run]

/-- NextLayer-specific invariant (independent of the generic one) -/
private structure NLD [DecidableEq Cmd] (P : NLParams Ev Cmd Reply) (Hc : Handler σc Ev Cmd Reply) (nil : Reply)
    (ch0 : Layer σc Ev Cmd Reply) (L : Layer (NLState σc Ev Cmd Reply) Ev Cmd Reply) : Prop where
  pre : L.st.handed = false → L.st.child = ch0 ∧ L.st.events = handled L.log ∧
          ∀ c k, L.paused = some (c, k) → k = nlAskCont P Hc nil L.st
  post : L.st.handed = true → L.paused = none ∧ L.st.child.arrived = ch0.arrived ++ handled L.log ∧ L.st.events = []

private theorem nld_fresh [DecidableEq Cmd] (P : NLParams Ev Cmd Reply) (Hc : Handler σc Ev Cmd Reply) (nil : Reply)
    (ch0 : Layer σc Ev Cmd Reply) (L : Layer (NLState σc Ev Cmd Reply) Ev Cmd Reply) (ev : Event Ev Cmd Reply)
    (h : NLD P Hc nil ch0 L) : NLD P Hc nil ch0 (handleFresh (nlHandler P Hc nil) nil L ev).1 := by
  cases hh : L.st.handed with
  | false =>
    obtain ⟨h1, h2, _⟩ := h.pre hh
    cases hk : nlKind P ev with
    | start =>
      cases ha : P.askOnStart with
      | true =>
        constructor
        · intro _
          simp [handleFresh, nlHandler, hh, hk, ha, nlAsk, run, handled_append, handled, h1, h2]
        · intro hc; simp [handleFresh, nlHandler, hh, hk, ha, nlAsk, run] at hc
      | false =>
        constructor
        · intro _
          simp [handleFresh, nlHandler, hh, hk, ha, run, handled_append, handled, h1, h2]
        · intro hc; simp [handleFresh, nlHandler, hh, hk, ha, run] at hc
    | data =>
      constructor
      · intro _
        simp [handleFresh, nlHandler, hh, hk, nlAsk, run, handled_append, handled, h1, h2]
      · intro hc; simp [handleFresh, nlHandler, hh, hk, nlAsk, run] at hc
    | clientClosed =>
      constructor
      · intro _
        simp [handleFresh, nlHandler, hh, hk, run, handled_append, handled, h1, h2]
      · intro hc; simp [handleFresh, nlHandler, hh, hk, run] at hc
    | other =>
      constructor
      · intro _
        simp [handleFresh, nlHandler, hh, hk, run, handled_append, handled, h1, h2]
      · intro hc; simp [handleFresh, nlHandler, hh, hk, run] at hc
  | true =>
    obtain ⟨_, h2, h3⟩ := h.post hh
    have hr := run_handed P Hc nil L.st ev hh
    constructor
    · intro hc; simp only [handleFresh] at hc; rw [hr] at hc; simp [hh] at hc
    · intro _
      simp only [handleFresh]; rw [hr]
      simp [handled_append, handled, (emits_facts _).1, he_arrived, h2, h3]

private theorem nld_drain [DecidableEq Cmd] (P : NLParams Ev Cmd Reply) (Hc : Handler σc Ev Cmd Reply) (nil : Reply)
    (ch0 : Layer σc Ev Cmd Reply) (q : List (Event Ev Cmd Reply)) :
    ∀ (L : Layer (NLState σc Ev Cmd Reply) Ev Cmd Reply), NLD P Hc nil ch0 L →
      NLD P Hc nil ch0 (drain (nlHandler P Hc nil) nil L q).1 := by
  induction q with
  | nil => intro L h; exact ⟨h.pre, h.post⟩
  | cons ev rest ih =>
    intro L h
    cases hp : L.paused with
    | some pk => simp only [drain, hp]; exact ⟨fun a => by simpa [hp] using h.pre a, fun a => by simpa [hp] using h.post a⟩
    | none => simp only [drain, hp]; exact ih _ (nld_fresh P Hc nil ch0 L ev h)

private theorem nld_step [DecidableEq Cmd] (P : NLParams Ev Cmd Reply) (Hc : Handler σc Ev Cmd Reply) (nil : Reply)
    (ch0 : Layer σc Ev Cmd Reply)
    (L : Layer (NLState σc Ev Cmd Reply) Ev Cmd Reply) (ev : Event Ev Cmd Reply)
    (h : NLD P Hc nil ch0 L) : NLD P Hc nil ch0 (handleEvent (nlHandler P Hc nil) nil L ev).1 := by
  have h' : NLD P Hc nil ch0 { L with arrived := L.arrived ++ [ev] } := ⟨h.pre, h.post⟩
  cases hp : L.paused with
  | none => rw [he_idle _ nil L ev hp]; exact nld_fresh P Hc nil ch0 _ ev h'
  | some pk =>
    obtain ⟨c, k⟩ := pk
    by_cases hm : ∃ r, ev = .completed c r
    · obtain ⟨r, rfl⟩ := hm
      rw [he_match _ nil L c k r hp]
      simp only [resumeWith]
      apply nld_drain
      have hh : L.st.handed = false := by
        cases hh : L.st.handed with
        | false => rfl
        | true => have := (h.post hh).1; rw [hp] at this; cases this
      obtain ⟨h1, h2, h3⟩ := h.pre hh
      have hk : k = nlAskCont P Hc nil L.st := h3 c k hp
      subst hk
      cases hd : P.decide r with
      | false =>
        constructor
        · intro _
          simp [nlAskCont, hd, run, handled_append, handled, h1, h2]
        · intro hc; simp [nlAskCont, hd, run, hh] at hc
      | true =>
        obtain ⟨ra, rb⟩ := replay_facts Hc nil L.st.events L.st.child
        have hr := run_askcont_true P Hc nil L.st r hd
        constructor
        · intro hc; rw [hr] at hc; simp at hc
        · intro _
          rw [hr]
          rw [h1, h2] at ra
          simp [handled_append, handled, (emits_facts _).1, h1, h2, ra]
    · rw [he_other _ nil L c k ev hp (fun r h => hm ⟨r, h⟩)]
      exact ⟨fun a => by simpa [enqueue, hp] using h.pre a, fun a => by simpa [enqueue, hp] using h.post a⟩

/-- after the hand-over: NextLayer is transparent -/
private structure NLPost (ch0 : Layer σc Ev Cmd Reply) (L : Layer (NLState σc Ev Cmd Reply) Ev Cmd Reply) : Prop where
  handed : L.st.handed = true
  idle : L.paused = none
  noq : L.queue = []
  noev : L.st.events = []
  part : ∃ xs, L.st.child.arrived = ch0.arrived ++ xs ∧ Interleave xs (resumed L.log) L.arrived

private theorem nl_step [DecidableEq Cmd] (P : NLParams Ev Cmd Reply) (Hc : Handler σc Ev Cmd Reply) (nil : Reply)
    (ch0 : Layer σc Ev Cmd Reply)
    (L : Layer (NLState σc Ev Cmd Reply) Ev Cmd Reply) (ev : Event Ev Cmd Reply)
    (h : (L.st.handed = false ∧ Inv L ∧ NLD P Hc nil ch0 L) ∨ NLPost ch0 L) :
    ((nlHandleEvent P Hc nil L ev).1.st.handed = false ∧ Inv (nlHandleEvent P Hc nil L ev).1 ∧
        NLD P Hc nil ch0 (nlHandleEvent P Hc nil L ev).1) ∨ NLPost ch0 (nlHandleEvent P Hc nil L ev).1 := by
  rcases h with ⟨hh, hi, hd⟩ | hpost
  · have e : nlHandleEvent P Hc nil L ev = handleEvent (nlHandler P Hc nil) nil L ev := by
      simp [nlHandleEvent, hh]
    rw [e]
    obtain ⟨i', _, _⟩ := step_facts (nlHandler P Hc nil) nil L ev hi
    have d' := nld_step P Hc nil ch0 L ev hd
    cases hn : (handleEvent (nlHandler P Hc nil) nil L ev).1.st.handed with
    | false => exact Or.inl ⟨rfl, i', d'⟩
    | true =>
      obtain ⟨p1, p2, p3⟩ := d'.post hn
      have q := i'.idle p1
      have ip := i'.part
      rw [q, List.append_nil] at ip
      exact Or.inr ⟨hn, p1, q, p3, ⟨_, p2, ip⟩⟩
  · obtain ⟨a, b, c, d, e⟩ := hpost
    refine Or.inr ⟨?_, ?_, ?_, ?_, ?_⟩
    · simp [nlHandleEvent, a]
    · simp [nlHandleEvent, a, b]
    · simp [nlHandleEvent, a, c]
    · simp [nlHandleEvent, a, d]
    · obtain ⟨xs, hx, e'⟩ := e
      refine ⟨xs ++ [ev], ?_, ?_⟩
      · simp only [nlHandleEvent, a, if_true, he_arrived, hx, List.append_assoc]
      · simp only [nlHandleEvent, a, if_true]
        exact e'.snoc_left ev


private theorem nl_arrived [DecidableEq Cmd] (P : NLParams Ev Cmd Reply) (Hc : Handler σc Ev Cmd Reply) (nil : Reply)
    (L : Layer (NLState σc Ev Cmd Reply) Ev Cmd Reply) (ev : Event Ev Cmd Reply) :
    (nlHandleEvent P Hc nil L ev).1.arrived = L.arrived ++ [ev] := by
  cases hh : L.st.handed with
  | true => simp [nlHandleEvent, hh]
  | false => simp [nlHandleEvent, hh, he_arrived]

private theorem nl_sched [DecidableEq Cmd] (P : NLParams Ev Cmd Reply) (Hc : Handler σc Ev Cmd Reply) (nil : Reply)
    (ch0 : Layer σc Ev Cmd Reply) (evs : List (Event Ev Cmd Reply)) :
    ∀ (L : Layer (NLState σc Ev Cmd Reply) Ev Cmd Reply),
    ((L.st.handed = false ∧ Inv L ∧ NLD P Hc nil ch0 L) ∨ NLPost ch0 L) →
    (((nlRunSched P Hc nil L evs).st.handed = false ∧ Inv (nlRunSched P Hc nil L evs) ∧
        NLD P Hc nil ch0 (nlRunSched P Hc nil L evs)) ∨ NLPost ch0 (nlRunSched P Hc nil L evs)) ∧
    (nlRunSched P Hc nil L evs).arrived = L.arrived ++ evs := by
  induction evs with
  | nil => intro L h; simpa [nlRunSched] using h
  | cons ev rest ih =>
    intro L h
    obtain ⟨a, b⟩ := ih _ (nl_step P Hc nil ch0 L ev h)
    exact ⟨a, by rw [nlRunSched, b, nl_arrived]; simp⟩

/-- `nextlayer_replay_in_order` without any assumption on the candidate child: whatever `ch0` has already
    received stays a prefix; what it receives through NextLayer is the sequence `xs` -/
theorem nextlayer_replay_in_order_any [DecidableEq Cmd] (P : NLParams Ev Cmd Reply) (Hc : Handler σc Ev Cmd Reply)
    (nil : Reply) (ch0 : Layer σc Ev Cmd Reply) (evs : List (Event Ev Cmd Reply)) :
    let L := nlRunSched P Hc nil (nlInit ch0) evs
    (L.st.handed = false → L.st.child = ch0 ∧ Interleave (L.st.events ++ L.queue) (resumed L.log) evs) ∧
    (L.st.handed = true → (∃ xs, L.st.child.arrived = ch0.arrived ++ xs ∧ Interleave xs (resumed L.log) evs) ∧
        L.st.events = [] ∧ L.queue = [] ∧ L.paused = none) := by
  have hinit : (nlInit ch0 : Layer (NLState σc Ev Cmd Reply) Ev Cmd Reply).st.handed = false ∧
      Inv (nlInit ch0 : Layer (NLState σc Ev Cmd Reply) Ev Cmd Reply) ∧ NLD P Hc nil ch0 (nlInit ch0) :=
    ⟨rfl, inv_init _, ⟨fun _ => by simp [nlInit, Layer.init, handled], fun h => by simp [nlInit, Layer.init] at h⟩⟩
  obtain ⟨h, ha⟩ := nl_sched P Hc nil ch0 evs (nlInit ch0) (Or.inl hinit)
  have ha' : (nlRunSched P Hc nil (nlInit ch0) evs).arrived = evs := by simpa [nlInit, Layer.init] using ha
  rcases h with ⟨hh, hi, hd⟩ | hp
  · refine ⟨fun _ => ?_, fun c => (by rw [hh] at c; cases c)⟩
    obtain ⟨d1, d2, _⟩ := hd.pre hh
    have := hi.part
    rw [ha', ← d2] at this
    exact ⟨d1, this⟩
  · refine ⟨fun c => (by rw [hp.handed] at c; cases c), fun _ => ?_⟩
    obtain ⟨xs, hx, e⟩ := hp.part
    rw [ha'] at e
    exact ⟨⟨xs, hx, e⟩, hp.noev, hp.noq, hp.idle⟩

/-- **Events that arrive before a protocol has been chosen reach the chosen layer in arrival order.**
    For every child handler, every classification of events, every decision function and every schedule
    delivered to a fresh NextLayer (the candidate child `ch0` has received nothing yet):
    * as long as no layer is chosen the child is untouched, and the arrivals are an interleaving of
      `NextLayer.events ++ _paused_event_queue` (everything buffered, in arrival order) with the hook
      completions NextLayer consumed itself;
    * once a layer is chosen, the arrivals are an interleaving of *exactly the sequence of events passed to
      the child's `handle_event`* with those hook completions: buffered events first, then the events queued
      during the hook, then everything later — each once, in arrival order; nothing remains buffered. -/
theorem nextlayer_replay_in_order [DecidableEq Cmd] (P : NLParams Ev Cmd Reply) (Hc : Handler σc Ev Cmd Reply)
    (nil : Reply) (ch0 : Layer σc Ev Cmd Reply) (h0 : ch0.arrived = []) (evs : List (Event Ev Cmd Reply)) :
    let L := nlRunSched P Hc nil (nlInit ch0) evs
    (L.st.handed = false → L.st.child = ch0 ∧ Interleave (L.st.events ++ L.queue) (resumed L.log) evs) ∧
    (L.st.handed = true → Interleave L.st.child.arrived (resumed L.log) evs ∧ L.st.events = [] ∧
        L.queue = [] ∧ L.paused = none) := by
  have h := nextlayer_replay_in_order_any P Hc nil ch0 evs
  refine ⟨h.1, fun hh => ?_⟩
  obtain ⟨⟨xs, hx, e⟩, r⟩ := h.2 hh
  rw [h0, List.nil_append] at hx
  rw [hx]
  exact ⟨e, r⟩

/-! ### replay of buffered events, handler re-binding, arbitrary trees (round 3) -/

/-- handling one event when idle, as a step on (layer, commands emitted so far): the handler is applied to
    the layer's state AS IT IS NOW — if an earlier replayed event re-bound `_handle_event` (changed the state the
    handler dispatches on), this event is handled by the new handler -/
def replayStep [DecidableEq Cmd] (H : Handler σ Ev Cmd Reply) (nil : Reply)
    (acc : Layer σ Ev Cmd Reply × Out Cmd) (ev : Event Ev Cmd Reply) : Layer σ Ev Cmd Reply × Out Cmd :=
  ((handleFresh H nil acc.1 ev).1, acc.2 ++ (handleFresh H nil acc.1 ev).2)

private theorem replay_fold_out [DecidableEq Cmd] (H : Handler σ Ev Cmd Reply) (nil : Reply)
    (q : List (Event Ev Cmd Reply)) : ∀ (L : Layer σ Ev Cmd Reply) (o : Out Cmd),
    q.foldl (replayStep H nil) (L, o) =
      ((q.foldl (replayStep H nil) (L, [])).1, o ++ (q.foldl (replayStep H nil) (L, [])).2) := by
  induction q with
  | nil => intro L o; simp
  | cons ev rest ih =>
    intro L o
    simp only [List.foldl_cons, replayStep]
    rw [ih _ (o ++ _), ih _ ([] ++ _)]
    simp

/-- **Each buffered event is handled exactly once, in arrival order, by the handler current at ITS replay
    time.**  The `while not self._paused and self._paused_event_queue` loop of `__continue`, for every handler
    and every state: the queue splits as `q1 ++ q2`; the events of `q1` are handled one after the other, each by
    `H` applied to the state left by the previous one (a plain left fold of `replayStep`); `q2` stays queued
    in order, and is non-empty only if the layer paused again. -/
theorem replay_sequential [DecidableEq Cmd] (H : Handler σ Ev Cmd Reply) (nil : Reply)
    (q : List (Event Ev Cmd Reply)) : ∀ (L : Layer σ Ev Cmd Reply),
    ∃ q1 q2, q = q1 ++ q2 ∧
      drain H nil L q = ({ (q1.foldl (replayStep H nil) (L, [])).1 with queue := q2 },
                         (q1.foldl (replayStep H nil) (L, [])).2) ∧
      (q2 ≠ [] → ((q1.foldl (replayStep H nil) (L, [])).1.paused).isSome = true) := by
  induction q with
  | nil => intro L; exact ⟨[], [], rfl, by simp [drain], by simp⟩
  | cons ev rest ih =>
    intro L
    cases hp : L.paused with
    | some pk => exact ⟨[], ev :: rest, rfl, by simp [drain, hp], by simp [hp]⟩
    | none =>
      obtain ⟨q1, q2, e, hd, hq⟩ := ih (handleFresh H nil L ev).1
      refine ⟨ev :: q1, q2, by rw [e]; rfl, ?_, ?_⟩
      · simp only [drain, hp, hd, List.foldl_cons, replayStep, List.nil_append]
        rw [replay_fold_out H nil q1 _ (handleFresh H nil L ev).2]
      · intro h
        simp only [List.foldl_cons, replayStep, List.nil_append]
        rw [replay_fold_out H nil q1 _ (handleFresh H nil L ev).2]
        exact hq h

/-- a predicate on child layers that every `handle_event` call preserves is preserved, for all children of a
    parent (also the ones captured in the parent's suspended generator), by every step of the parent -/
structure CInv [DecidableEq Cmd] (Q : Layer σc Ev Cmd Reply → Prop) (Hc : Nat → Handler σc Ev Cmd Reply) (nil : Reply)
    (P : Layer (σp × List (Layer σc Ev Cmd Reply)) Ev Cmd Reply) : Prop where
  kids : ∀ ch ∈ P.st.2, Q ch
  cont : ∀ c k, P.paused = some (c, k) → ∀ r, ∃ (g : PGen σp Ev Cmd Reply) (chs : List (Layer σc Ev Cmd Reply)),
          k r = lower Hc nil g chs ∧ ∀ ch ∈ chs, Q ch

private theorem lower_children [DecidableEq Cmd] (Q : Layer σc Ev Cmd Reply → Prop)
    (Hc : Nat → Handler σc Ev Cmd Reply) (nil : Reply)
    (hQ : ∀ i ch ev, Q ch → Q (handleEvent (Hc i) nil ch ev).1)
    (g : PGen σp Ev Cmd Reply) : ∀ chs : List (Layer σc Ev Cmd Reply), (∀ ch ∈ chs, Q ch) →
    (∀ ch ∈ (run (Ev := Ev) nil (lower Hc nil g chs)).st.2, Q ch) ∧
    (∀ c k, (run (Ev := Ev) nil (lower Hc nil g chs)).paused = some (c, k) →
      ∀ r, ∃ (g' : PGen σp Ev Cmd Reply) (chs' : List (Layer σc Ev Cmd Reply)),
        k r = lower Hc nil g' chs' ∧ ∀ ch ∈ chs', Q ch) := by
  induction g with
  | done s => intro chs h; exact ⟨by simpa [lower, run] using h, by simp [lower, run]⟩
  | yield s c b k ih =>
    intro chs h
    cases b with
    | yes =>
      refine ⟨by simpa [lower, run] using h, ?_⟩
      intro c' k' hk
      simp only [lower, run, Option.some.injEq, Prod.mk.injEq] at hk
      obtain ⟨_, rfl⟩ := hk
      exact fun r => ⟨k r, chs, rfl, h⟩
    | no => simpa [lower, run] using ih nil chs h
    | owned => simpa [lower, run] using ih nil chs h
  | child s i ev k ih =>
    intro chs h
    cases hi : chs[i]? with
    | none => simpa [lower, hi] using ih chs h
    | some ch =>
      have hch : ch ∈ chs := List.mem_of_getElem? hi
      have h' : ∀ x ∈ chs.set i (handleEvent (Hc i) nil ch ev).1, Q x := by
        intro x hx
        rcases List.mem_or_eq_of_mem_set hx with hx | hx
        · exact h x hx
        · rw [hx]; exact hQ i ch ev (h ch hch)
      simp only [lower, hi]
      rw [run_relay nil _ _ _ (emitted_never_blocking_true (Hc i) nil ch ev)]
      exact ih _ h'

private theorem cinv_fresh [DecidableEq Cmd] (Q : Layer σc Ev Cmd Reply → Prop)
    (PH : σp → Event Ev Cmd Reply → PGen σp Ev Cmd Reply) (Hc : Nat → Handler σc Ev Cmd Reply) (nil : Reply)
    (hQ : ∀ i ch ev, Q ch → Q (handleEvent (Hc i) nil ch ev).1)
    (P : Layer (σp × List (Layer σc Ev Cmd Reply)) Ev Cmd Reply) (ev : Event Ev Cmd Reply)
    (h : CInv Q Hc nil P) : CInv Q Hc nil (handleFresh (parentHandler PH Hc nil) nil P ev).1 := by
  obtain ⟨a, b⟩ := lower_children Q Hc nil hQ (PH P.st.1 ev) P.st.2 h.kids
  exact ⟨a, b⟩

private theorem cinv_drain [DecidableEq Cmd] (Q : Layer σc Ev Cmd Reply → Prop)
    (PH : σp → Event Ev Cmd Reply → PGen σp Ev Cmd Reply) (Hc : Nat → Handler σc Ev Cmd Reply) (nil : Reply)
    (hQ : ∀ i ch ev, Q ch → Q (handleEvent (Hc i) nil ch ev).1) (q : List (Event Ev Cmd Reply)) :
    ∀ (P : Layer (σp × List (Layer σc Ev Cmd Reply)) Ev Cmd Reply), CInv Q Hc nil P →
    CInv Q Hc nil (drain (parentHandler PH Hc nil) nil P q).1 := by
  induction q with
  | nil => intro P h; exact ⟨h.kids, h.cont⟩
  | cons ev rest ih =>
    intro P h
    cases hp : P.paused with
    | some pk => simp only [drain, hp]; exact ⟨h.kids, fun c k a => h.cont c k (by simpa [hp] using a)⟩
    | none => simp only [drain, hp]; exact ih _ (cinv_fresh Q PH Hc nil hQ P ev h)

/-- one step of the parent preserves the children's invariant -/
theorem children_step [DecidableEq Cmd] (Q : Layer σc Ev Cmd Reply → Prop)
    (PH : σp → Event Ev Cmd Reply → PGen σp Ev Cmd Reply) (Hc : Nat → Handler σc Ev Cmd Reply) (nil : Reply)
    (hQ : ∀ i ch ev, Q ch → Q (handleEvent (Hc i) nil ch ev).1)
    (P : Layer (σp × List (Layer σc Ev Cmd Reply)) Ev Cmd Reply) (ev : Event Ev Cmd Reply)
    (h : CInv Q Hc nil P) : CInv Q Hc nil (handleEvent (parentHandler PH Hc nil) nil P ev).1 := by
  have h' : CInv Q Hc nil { P with arrived := P.arrived ++ [ev] } := ⟨h.kids, h.cont⟩
  cases hp : P.paused with
  | none => rw [he_idle _ nil P ev hp]; exact cinv_fresh Q PH Hc nil hQ _ ev h'
  | some pk =>
    obtain ⟨c, k⟩ := pk
    by_cases hm : ∃ r, ev = .completed c r
    · obtain ⟨r, rfl⟩ := hm
      rw [he_match _ nil P c k r hp]
      simp only [resumeWith]
      apply cinv_drain Q PH Hc nil hQ
      obtain ⟨g, chs, e, hg⟩ := h.cont c k hp r
      obtain ⟨a, b⟩ := lower_children Q Hc nil hQ g chs hg
      rw [e]
      exact ⟨a, b⟩
    · rw [he_other _ nil P c k ev hp (fun r h => hm ⟨r, h⟩)]
      exact ⟨h.kids, fun c' k' a => h.cont c' k' (by simpa [enqueue] using a)⟩

/-- **Whatever holds of a child layer and is preserved by its `handle_event` holds of every child of a
    parent, for every schedule delivered to the parent** (the parent touches its children only through
    `handle_event`, also when it resumes a suspended generator that captured them). -/
theorem children_invariant [DecidableEq Cmd] (Q : Layer σc Ev Cmd Reply → Prop)
    (PH : σp → Event Ev Cmd Reply → PGen σp Ev Cmd Reply) (Hc : Nat → Handler σc Ev Cmd Reply) (nil : Reply)
    (hQ : ∀ i ch ev, Q ch → Q (handleEvent (Hc i) nil ch ev).1)
    (s0 : σp) (chs0 : List (Layer σc Ev Cmd Reply)) (h0 : ∀ ch ∈ chs0, Q ch) (evs : List (Event Ev Cmd Reply)) :
    ∀ ch ∈ (runSched (parentHandler PH Hc nil) nil (Layer.init (s0, chs0)) evs).st.2, Q ch := by
  have key : ∀ (evs : List (Event Ev Cmd Reply)) (P : Layer (σp × List (Layer σc Ev Cmd Reply)) Ev Cmd Reply),
      CInv Q Hc nil P → CInv Q Hc nil (runSched (parentHandler PH Hc nil) nil P evs) := by
    intro evs
    induction evs with
    | nil => intro P h; exact h
    | cons ev rest ih => intro P h; exact ih _ (children_step Q PH Hc nil hQ P ev h)
  exact (key evs _ ⟨by simpa [Layer.init] using h0, by simp [Layer.init]⟩).kids


/-! #### whatever `handle_event` preserves of the chosen layer survives buffering, replay and hand-over -/

private theorem replay_Q [DecidableEq Cmd] (Q : Layer σc Ev Cmd Reply → Prop) (Hc : Handler σc Ev Cmd Reply) (nil : Reply)
    (hQ : ∀ ch ev, Q ch → Q (handleEvent Hc nil ch ev).1) (evs : List (Event Ev Cmd Reply)) :
    ∀ ch : Layer σc Ev Cmd Reply, Q ch → Q (replay Hc nil ch evs).1 := by
  induction evs with
  | nil => intro ch h; exact h
  | cons e t ih => intro ch h; exact ih _ (hQ ch e h)

private theorem nlq_fresh [DecidableEq Cmd] (Q : Layer σc Ev Cmd Reply → Prop) (P : NLParams Ev Cmd Reply)
    (Hc : Handler σc Ev Cmd Reply) (nil : Reply) (hQ : ∀ ch ev, Q ch → Q (handleEvent Hc nil ch ev).1)
    (L : Layer (NLState σc Ev Cmd Reply) Ev Cmd Reply) (ev : Event Ev Cmd Reply) (hq : Q L.st.child) :
    Q (handleFresh (nlHandler P Hc nil) nil L ev).1.st.child := by
  cases hh : L.st.handed with
  | false =>
    cases hk : nlKind P ev with
    | start =>
      cases ha : P.askOnStart with
      | true => simpa [handleFresh, nlHandler, hh, hk, ha, nlAsk, run] using hq
      | false => simpa [handleFresh, nlHandler, hh, hk, ha, run] using hq
    | data => simpa [handleFresh, nlHandler, hh, hk, nlAsk, run] using hq
    | clientClosed => simpa [handleFresh, nlHandler, hh, hk, run] using hq
    | other => simpa [handleFresh, nlHandler, hh, hk, run] using hq
  | true =>
    simp only [handleFresh]
    rw [run_handed P Hc nil L.st ev hh]
    exact hQ _ _ hq

private theorem nlq_drain [DecidableEq Cmd] (Q : Layer σc Ev Cmd Reply → Prop) (P : NLParams Ev Cmd Reply)
    (Hc : Handler σc Ev Cmd Reply) (nil : Reply) (hQ : ∀ ch ev, Q ch → Q (handleEvent Hc nil ch ev).1)
    (q : List (Event Ev Cmd Reply)) : ∀ (L : Layer (NLState σc Ev Cmd Reply) Ev Cmd Reply), Q L.st.child →
    Q (drain (nlHandler P Hc nil) nil L q).1.st.child := by
  induction q with
  | nil => intro L h; exact h
  | cons ev rest ih =>
    intro L h
    cases hp : L.paused with
    | some pk => simpa [drain, hp] using h
    | none => simp only [drain, hp]; exact ih _ (nlq_fresh Q P Hc nil hQ L ev h)

private theorem nlq_step [DecidableEq Cmd] (Q : Layer σc Ev Cmd Reply → Prop) (P : NLParams Ev Cmd Reply)
    (Hc : Handler σc Ev Cmd Reply) (nil : Reply) (hQ : ∀ ch ev, Q ch → Q (handleEvent Hc nil ch ev).1)
    (ch0 : Layer σc Ev Cmd Reply) (L : Layer (NLState σc Ev Cmd Reply) Ev Cmd Reply) (ev : Event Ev Cmd Reply)
    (hd : NLD P Hc nil ch0 L) (hq : Q L.st.child) : Q (handleEvent (nlHandler P Hc nil) nil L ev).1.st.child := by
  cases hp : L.paused with
  | none => rw [he_idle _ nil L ev hp]; exact nlq_fresh Q P Hc nil hQ _ ev hq
  | some pk =>
    obtain ⟨c, k⟩ := pk
    by_cases hm : ∃ r, ev = .completed c r
    · obtain ⟨r, rfl⟩ := hm
      rw [he_match _ nil L c k r hp]
      simp only [resumeWith]
      apply nlq_drain Q P Hc nil hQ
      have hh : L.st.handed = false := by
        cases hh : L.st.handed with
        | false => rfl
        | true => have := (hd.post hh).1; rw [hp] at this; cases this
      have hk : k = nlAskCont P Hc nil L.st := (hd.pre hh).2.2 c k hp
      subst hk
      cases hdec : P.decide r with
      | false => simpa [nlAskCont, hdec, run] using hq
      | true =>
        show Q (run (Ev := Ev) nil (nlAskCont P Hc nil L.st r)).st.child
        rw [run_askcont_true P Hc nil L.st r hdec]
        exact replay_Q Q Hc nil hQ _ _ hq
    · rw [he_other _ nil L c k ev hp (fun r h => hm ⟨r, h⟩)]
      exact hq

/-- **The layer chosen by NextLayer is only ever driven through its `handle_event`** — while buffered events
    are replayed, while the events queued during the hook are forwarded through the re-bound `_handle_event`,
    and after NextLayer has swapped itself out.  Hence every property `Q` of the child that `handle_event`
    preserves holds of it after every schedule delivered to the NextLayer. -/
theorem nextlayer_child_invariant_any [DecidableEq Cmd] (Q : Layer σc Ev Cmd Reply → Prop) (P : NLParams Ev Cmd Reply)
    (Hc : Handler σc Ev Cmd Reply) (nil : Reply) (hQ : ∀ ch ev, Q ch → Q (handleEvent Hc nil ch ev).1)
    (ch0 : Layer σc Ev Cmd Reply) (hq0 : Q ch0) (evs : List (Event Ev Cmd Reply)) :
    Q (nlRunSched P Hc nil (nlInit ch0) evs).st.child := by
  have key : ∀ (evs : List (Event Ev Cmd Reply)) (L : Layer (NLState σc Ev Cmd Reply) Ev Cmd Reply),
      Q L.st.child → (L.st.handed = false → NLD P Hc nil ch0 L) → Q (nlRunSched P Hc nil L evs).st.child := by
    intro evs
    induction evs with
    | nil => intro L h _; exact h
    | cons ev rest ih =>
      intro L hq hd
      simp only [nlRunSched]
      cases hh : L.st.handed with
      | true =>
        apply ih
        · simpa [nlHandleEvent, hh] using hQ _ ev hq
        · intro hc; simp [nlHandleEvent, hh] at hc
      | false =>
        have e : nlHandleEvent P Hc nil L ev = handleEvent (nlHandler P Hc nil) nil L ev := by
          simp [nlHandleEvent, hh]
        rw [e]
        exact ih _ (nlq_step Q P Hc nil hQ ch0 L ev (hd hh) hq) (fun _ => nld_step P Hc nil ch0 L ev (hd hh))
  exact key evs (nlInit ch0) (by simpa [nlInit, Layer.init] using hq0)
    (fun _ => ⟨fun _ => by simp [nlInit, Layer.init, handled], fun h => by simp [nlInit, Layer.init] at h⟩)

/-- the earlier form (kept): for a candidate child that has not received anything yet -/
theorem nextlayer_child_invariant [DecidableEq Cmd] (Q : Layer σc Ev Cmd Reply → Prop) (P : NLParams Ev Cmd Reply)
    (Hc : Handler σc Ev Cmd Reply) (nil : Reply) (hQ : ∀ ch ev, Q ch → Q (handleEvent Hc nil ch ev).1)
    (ch0 : Layer σc Ev Cmd Reply) (_h0 : ch0.arrived = []) (hq0 : Q ch0) (evs : List (Event Ev Cmd Reply)) :
    Q (nlRunSched P Hc nil (nlInit ch0) evs).st.child :=
  nextlayer_child_invariant_any Q P Hc nil hQ ch0 hq0 evs


/-! ### the layer behaves like a sequential blocking interpreter (round 4) -/

/-- the answers carried by a list of completions -/
def repliesOf : List (Event Ev Cmd Reply) → List Reply
  | [] => []
  | .completed _ r :: t => r :: repliesOf t
  | .plain _ :: t => repliesOf t

/-- the schedule runner that also collects everything `handle_event` emitted -/
def runSchedOut [DecidableEq Cmd] (H : Handler σ Ev Cmd Reply) (nil : Reply) :
    Layer σ Ev Cmd Reply → Out Cmd → List (Event Ev Cmd Reply) → Layer σ Ev Cmd Reply × Out Cmd
  | L, o, [] => (L, o)
  | L, o, ev :: evs => runSchedOut H nil (handleEvent H nil L ev).1 (o ++ (handleEvent H nil L ev).2) evs

theorem runSchedOut_fst [DecidableEq Cmd] (H : Handler σ Ev Cmd Reply) (nil : Reply)
    (evs : List (Event Ev Cmd Reply)) : ∀ (L : Layer σ Ev Cmd Reply) (o : Out Cmd),
    (runSchedOut H nil L o evs).1 = runSched H nil L evs := by
  induction evs with
  | nil => intro L o; rfl
  | cons ev rest ih => intro L o; simp only [runSchedOut, runSched]; exact ih _ _

private theorem repliesOf_append (a b : List (Event Ev Cmd Reply)) :
    repliesOf (a ++ b) = repliesOf a ++ repliesOf b := by
  induction a with
  | nil => rfl
  | cons e t ih => cases e <;> simp [repliesOf, ih]

/-- the interpreter is compositional: running it on longer inputs = running it on the shorter ones and
    continuing from where it stopped with what it had left plus the extra input -/
private theorem seq_append (H : Handler σ Ev Cmd Reply) (nil : Reply) (ys : List (Event Ev Cmd Reply)) (rs2 : List Reply) :
    ∀ (n : Nat) (st : σ) (w : Option (Cmd × (Reply → Gen σ Cmd Reply))) (log : List (Entry Ev Cmd Reply))
      (out : Out Cmd) (xs : List (Event Ev Cmd Reply)) (rs : List Reply), xs.length + rs.length = n →
    seq H nil st w log out (xs ++ ys) (rs ++ rs2) =
      seq H nil (seq H nil st w log out xs rs).st (seq H nil st w log out xs rs).waiting
        (seq H nil st w log out xs rs).log (seq H nil st w log out xs rs).out
        ((seq H nil st w log out xs rs).todo ++ ys) ((seq H nil st w log out xs rs).unused ++ rs2) := by
  intro n
  induction n with
  | zero =>
    intro st w log out xs rs hn
    have hx : xs = [] := List.eq_nil_of_length_eq_zero (by omega)
    have hr : rs = [] := List.eq_nil_of_length_eq_zero (by omega)
    subst hx; subst hr
    cases w with
    | none => rw [seq.eq_def (xs := []) (rs := [])]
    | some ck => obtain ⟨c, k⟩ := ck; rw [seq.eq_def (xs := []) (rs := [])]
  | succ n ih =>
    intro st w log out xs rs hn
    cases w with
    | some ck =>
      obtain ⟨c, k⟩ := ck
      cases rs with
      | nil => rw [seq.eq_def (xs := xs) (rs := [])]
      | cons r rs' =>
        rw [seq.eq_def (xs := xs ++ ys) (rs := (r :: rs') ++ rs2), seq.eq_def (xs := xs) (rs := r :: rs')]
        simp only [List.cons_append]
        exact ih _ _ _ _ xs rs' (by simp at hn; omega)
    | none =>
      cases xs with
      | nil => rw [seq.eq_def (xs := []) (rs := rs)]
      | cons ev xs' =>
        rw [seq.eq_def (xs := (ev :: xs') ++ ys) (rs := rs ++ rs2), seq.eq_def (xs := ev :: xs') (rs := rs)]
        simp only [List.cons_append]
        exact ih _ _ _ _ xs' rs (by simp at hn; omega)


/-- the replay loop of `__continue` is the reference interpreter run on the queue with no answers available -/
private theorem seq_drain [DecidableEq Cmd] (H : Handler σ Ev Cmd Reply) (nil : Reply)
    (q : List (Event Ev Cmd Reply)) : ∀ (L : Layer σ Ev Cmd Reply) (o : Out Cmd),
    seq H nil L.st L.paused L.log o q [] =
      ⟨(drain H nil L q).1.st, (drain H nil L q).1.paused, (drain H nil L q).1.log, o ++ (drain H nil L q).2,
       (drain H nil L q).1.queue, []⟩ := by
  induction q with
  | nil =>
    intro L o
    rw [seq.eq_def]
    cases hp : L.paused with
    | none => simp [drain, hp]
    | some ck => obtain ⟨c, k⟩ := ck; simp [drain, hp]
  | cons ev rest ih =>
    intro L o
    rw [seq.eq_def]
    cases hp : L.paused with
    | some ck => obtain ⟨c, k⟩ := ck; simp [drain, hp]
    | none =>
      simp only [drain, hp]
      have := ih (handleFresh H nil L ev).1 (o ++ (handleFresh H nil L ev).2)
      simp only [handleFresh] at this ⊢
      rw [this]
      simp

/-- the invariant: the reference interpreter, fed the events handled-or-queued so far and the answers consumed
    so far, is in exactly the layer's configuration -/
private def SeqInv (H : Handler σ Ev Cmd Reply) (nil : Reply) (s0 : σ) (L : Layer σ Ev Cmd Reply) (o : Out Cmd) : Prop :=
  seq H nil s0 none [] [] (handled L.log ++ L.queue) (repliesOf (resumed L.log)) =
    ⟨L.st, L.paused, L.log, o, L.queue, []⟩

private theorem seqinv_step [DecidableEq Cmd] (H : Handler σ Ev Cmd Reply) (nil : Reply) (s0 : σ)
    (L : Layer σ Ev Cmd Reply) (o : Out Cmd) (ev : Event Ev Cmd Reply) (hi : Inv L) (hs : SeqInv H nil s0 L o) :
    SeqInv H nil s0 (handleEvent H nil L ev).1 (o ++ (handleEvent H nil L ev).2) := by
  unfold SeqInv at hs ⊢
  obtain ⟨hpart, hidle, hdisc⟩ := hi
  cases hp : L.paused with
  | none =>
    have hq := hidle hp
    have hd' : scan none L.log = some none := by simpa [hp] using hdisc
    obtain ⟨f1, f2, f3, f4, f5, f6⟩ := fresh_facts H nil { L with arrived := L.arrived ++ [ev] } ev hd'
    rw [he_idle H nil L ev hp, f1, f2, f3]
    simp only [hq, List.append_nil] at hs ⊢
    have e := seq_append H nil [ev] [] _ s0 none [] [] (handled L.log) (repliesOf (resumed L.log)) rfl
    rw [List.append_nil] at e
    rw [e, hs]
    simp only [List.nil_append, hp]
    rw [seq.eq_def]
    simp only [handleFresh]
    rw [seq.eq_def]
    cases (run (Ev := Ev) nil (H L.st ev)).paused with
    | none => simp
    | some ck => obtain ⟨c, k⟩ := ck; simp
  | some pk =>
    obtain ⟨c, k⟩ := pk
    by_cases hm : ∃ r, ev = .completed c r
    · obtain ⟨r, rfl⟩ := hm
      rw [he_match H nil L c k r hp]
      simp only [resumeWith]
      obtain ⟨r1, r2, r3, r4⟩ := run_facts (Ev := Ev) nil (k r)
      have hd1 : scan none (L.log ++ Entry.resume c r :: (run (Ev := Ev) nil (k r)).ents) =
          some ((run (Ev := Ev) nil (k r)).paused.map (·.1)) := by
        simp [scan_append, hdisc, hp, scan, scanStep, r3]
      obtain ⟨d1, d2, d3, d4, d5, d6⟩ := drain_facts H nil L.queue
        { L with arrived := L.arrived ++ [.completed c r], st := (run (Ev := Ev) nil (k r)).st,
                 paused := (run (Ev := Ev) nil (k r)).paused,
                 log := L.log ++ Entry.resume c r :: (run (Ev := Ev) nil (k r)).ents } hd1
      rw [d1, d2]
      simp only [handled_append, resumed_append, handled, resumed, r1, r2, List.append_nil, repliesOf_append, repliesOf]
      have e := seq_append H nil [] [r] _ s0 none [] [] (handled L.log ++ L.queue) (repliesOf (resumed L.log)) rfl
      rw [List.append_nil] at e
      rw [e, hs]
      simp only [List.nil_append, List.append_nil, hp]
      rw [seq.eq_def]
      simp only
      have sd := seq_drain H nil L.queue
        { L with arrived := L.arrived ++ [.completed c r], st := (run (Ev := Ev) nil (k r)).st,
                 paused := (run (Ev := Ev) nil (k r)).paused,
                 log := L.log ++ Entry.resume c r :: (run (Ev := Ev) nil (k r)).ents }
        (o ++ (run (Ev := Ev) nil (k r)).out)
      simp only at sd
      rw [sd]
      simp
    · rw [he_other H nil L c k ev hp (fun r h => hm ⟨r, h⟩)]
      simp only [enqueue, List.append_nil]
      have e := seq_append H nil [ev] [] _ s0 none [] [] (handled L.log ++ L.queue) (repliesOf (resumed L.log)) rfl
      rw [List.append_nil] at e
      rw [← List.append_assoc, e, hs]
      simp only [hp]
      rw [seq.eq_def]
      simp

/-- **The layer behaves like a sequential blocking interpreter.**  For every handler, initial state and schedule
    of arrivals `evs` (plain events and completions, in any interleaving):
    the arrivals split, order kept, into the events `xs` (= passed to `_handle_event` so far ++ still queued)
    and the own completions (= those that resumed the generator), and the reference interpreter `seq` — blocking
    code: one handler at a time run to completion, each event's handler chosen in the state left by the previous
    one, the i-th blocking command answered by the i-th reply — fed `xs` and those replies ends in EXACTLY the
    layer's configuration: same attribute state, same suspended generator, same trace (every `_handle_event`
    call, every emitted command, every pause and every resume with its value, in the same order), same overall
    command output; the events it has not started are exactly `_paused_event_queue`, and no reply is left over. -/
theorem sequential_blocking_equivalence [DecidableEq Cmd] (H : Handler σ Ev Cmd Reply) (nil : Reply) (s : σ)
    (evs : List (Event Ev Cmd Reply)) :
    let L := runSched H nil (Layer.init s) evs
    let o := (runSchedOut H nil (Layer.init s) [] evs).2
    Interleave (handled L.log ++ L.queue) (resumed L.log) evs ∧
    seq H nil s none [] [] (handled L.log ++ L.queue) (repliesOf (resumed L.log)) =
      ⟨L.st, L.paused, L.log, o, L.queue, []⟩ := by
  have key : ∀ (evs : List (Event Ev Cmd Reply)) (L : Layer σ Ev Cmd Reply) (o : Out Cmd),
      Inv L → SeqInv H nil s L o →
      SeqInv H nil s (runSchedOut H nil L o evs).1 (runSchedOut H nil L o evs).2 := by
    intro evs
    induction evs with
    | nil => intro L o _ h; exact h
    | cons ev rest ih =>
      intro L o hi hs
      simp only [runSchedOut]
      exact ih _ _ (step_facts H nil L ev hi).1 (seqinv_step H nil s L o ev hi hs)
  have h0 : SeqInv H nil s (Layer.init s : Layer σ Ev Cmd Reply) [] := by
    unfold SeqInv
    simp only [Layer.init, handled, resumed, repliesOf, List.append_nil]
    rw [seq.eq_def]
  have := key evs (Layer.init s) [] (inv_init s) h0
  unfold SeqInv at this
  rw [runSchedOut_fst] at this
  exact ⟨(handled_eq_arrivals H nil s evs).1, this⟩


/-- whole-history form of `emitted_never_blocking_true`: nothing a layer ever emits, over a whole schedule,
    carries `blocking is True` (so no ancestor's `__process` can pause on it) -/
theorem all_output_never_blocking_true [DecidableEq Cmd] (H : Handler σ Ev Cmd Reply) (nil : Reply)
    (evs : List (Event Ev Cmd Reply)) : ∀ (L : Layer σ Ev Cmd Reply) (o : Out Cmd),
    (∀ x ∈ o, x.2 ≠ Blk.yes) → ∀ x ∈ (runSchedOut H nil L o evs).2, x.2 ≠ Blk.yes := by
  induction evs with
  | nil => intro L o h; exact h
  | cons ev rest ih =>
    intro L o h
    simp only [runSchedOut]
    apply ih
    intro x hx
    rcases List.mem_append.mp hx with hx | hx
    · exact h x hx
    · exact emitted_never_blocking_true H nil L ev x hx

/-- consequence: the configuration reached does not depend on how events and completions were interleaved —
    two schedules with the same event subsequence and the same reply subsequence end in the same state, with the
    same suspended generator, the same trace and the same output -/
theorem interleaving_irrelevant [DecidableEq Cmd] (H : Handler σ Ev Cmd Reply) (nil : Reply) (s : σ)
    (evs evs' : List (Event Ev Cmd Reply))
    (hx : handled (runSched H nil (Layer.init s) evs).log ++ (runSched H nil (Layer.init s) evs).queue =
          handled (runSched H nil (Layer.init s) evs').log ++ (runSched H nil (Layer.init s) evs').queue)
    (hr : repliesOf (resumed (runSched H nil (Layer.init s) evs).log) =
          repliesOf (resumed (runSched H nil (Layer.init s) evs').log)) :
    (runSched H nil (Layer.init s) evs).st = (runSched H nil (Layer.init s) evs').st ∧
    (runSched H nil (Layer.init s) evs).paused = (runSched H nil (Layer.init s) evs').paused ∧
    (runSched H nil (Layer.init s) evs).log = (runSched H nil (Layer.init s) evs').log ∧
    (runSched H nil (Layer.init s) evs).queue = (runSched H nil (Layer.init s) evs').queue ∧
    (runSchedOut H nil (Layer.init s) [] evs).2 = (runSchedOut H nil (Layer.init s) [] evs').2 := by
  have a := (sequential_blocking_equivalence H nil s evs).2
  have b := (sequential_blocking_equivalence H nil s evs').2
  rw [hx, hr, b] at a
  injection a with h1 h2 h3 h4 h5 _
  exact ⟨h1.symm, h2.symm, h3.symm, h5.symm, h4.symm⟩


private theorem runSched_snoc [DecidableEq Cmd] (H : Handler σ Ev Cmd Reply) (nil : Reply)
    (xs : List (Event Ev Cmd Reply)) (ev : Event Ev Cmd Reply) : ∀ (L : Layer σ Ev Cmd Reply),
    runSched H nil L (xs ++ [ev]) = (handleEvent H nil (runSched H nil L xs) ev).1 := by
  induction xs with
  | nil => intro L; rfl
  | cons x t ih => intro L; simp only [List.cons_append, runSched]; exact ih _

/-- **NextLayer is transparent for the chosen layer.**  After any schedule in which a layer was chosen, the
    child's whole configuration (attributes, suspended generator, queue, trace) is EXACTLY what it would be had
    it been driven directly, from its initial configuration, with the sequence `xs` of events it received — and
    `xs` is the arrivals minus the hook completions NextLayer consumed, order kept.  Buffering, replay, the
    re-bound `_handle_event` and the swap leave no trace in the child. -/
theorem nextlayer_transparent [DecidableEq Cmd] (P : NLParams Ev Cmd Reply) (Hc : Handler σc Ev Cmd Reply)
    (nil : Reply) (ch0 : Layer σc Ev Cmd Reply) (h0 : ch0.arrived = []) (evs : List (Event Ev Cmd Reply)) :
    let L := nlRunSched P Hc nil (nlInit ch0) evs
    L.st.child = runSched Hc nil ch0 L.st.child.arrived ∧
    (L.st.handed = true → Interleave L.st.child.arrived (resumed L.log) evs) ∧
    (L.st.handed = false → L.st.child = ch0) := by
  have hq := nextlayer_child_invariant
    (fun ch => ch = runSched Hc nil ch0 ch.arrived) P Hc nil
    (fun ch ev h => by
      have ha := he_arrived Hc nil ch ev
      rw [ha, runSched_snoc, ← h]) ch0 h0 (by rw [h0]; rfl) evs
  have hr := nextlayer_replay_in_order P Hc nil ch0 h0 evs
  exact ⟨hq, fun h => (hr.2 h).1, fun h => (hr.1 h).1⟩

/-- `nextlayer_transparent` without any assumption on the candidate child -/
theorem nextlayer_transparent_any [DecidableEq Cmd] (P : NLParams Ev Cmd Reply) (Hc : Handler σc Ev Cmd Reply)
    (nil : Reply) (ch0 : Layer σc Ev Cmd Reply) (evs : List (Event Ev Cmd Reply)) :
    let L := nlRunSched P Hc nil (nlInit ch0) evs
    ∃ xs, L.st.child.arrived = ch0.arrived ++ xs ∧ L.st.child = runSched Hc nil ch0 xs ∧
      (L.st.handed = true → Interleave xs (resumed L.log) evs) ∧ (L.st.handed = false → xs = []) := by
  have hq := nextlayer_child_invariant_any
    (fun ch => ∃ xs, ch.arrived = ch0.arrived ++ xs ∧ ch = runSched Hc nil ch0 xs) P Hc nil
    (fun ch ev h => by
      obtain ⟨xs, ha, he⟩ := h
      refine ⟨xs ++ [ev], ?_, ?_⟩
      · rw [he_arrived, ha, List.append_assoc]
      · rw [runSched_snoc, ← he]) ch0 ⟨[], by simp, rfl⟩ evs
  have hr := nextlayer_replay_in_order_any P Hc nil ch0 evs
  obtain ⟨xs, ha, he⟩ := hq
  refine ⟨xs, ha, he, fun h => ?_, fun h => ?_⟩
  · obtain ⟨⟨xs', hx', e⟩, _⟩ := hr.2 h
    have : xs = xs' := List.append_cancel_left (ha.symm.trans hx')
    rw [this]; exact e
  · have hc := (hr.1 h).1
    rw [hc] at ha
    have : ch0.arrived ++ [] = ch0.arrived ++ xs := by simpa using ha
    exact (List.append_cancel_left this).symm

/-- hence the layer chosen by NextLayer itself behaves like a sequential blocking interpreter over the
    events it was passed (instance of `sequential_blocking_equivalence` through `nextlayer_transparent`) -/
theorem nextlayer_child_sequential [DecidableEq Cmd] (P : NLParams Ev Cmd Reply) (Hc : Handler σc Ev Cmd Reply)
    (nil : Reply) (s : σc) (evs : List (Event Ev Cmd Reply)) :
    let ch := (nlRunSched P Hc nil (nlInit (Layer.init s)) evs).st.child
    seq Hc nil s none [] [] (handled ch.log ++ ch.queue) (repliesOf (resumed ch.log)) =
      ⟨ch.st, ch.paused, ch.log, (runSchedOut Hc nil (Layer.init s) [] ch.arrived).2, ch.queue, []⟩ := by
  have ht := (nextlayer_transparent P Hc nil (Layer.init s) rfl evs).1
  have hs := (sequential_blocking_equivalence Hc nil s
    (nlRunSched P Hc nil (nlInit (Layer.init s)) evs).st.child.arrived).2
  simp only at ht hs ⊢
  rw [← ht] at hs
  exact hs


/-! ### a layer pauses only on commands it issued as blocking itself — single layer, state-indexed (round 5) -/

/-- every blocking (`blocking is True`) yield of the generator is an `own` command, and every attribute state the
    generator passes through satisfies `inv` (e.g. "my index is i") -/
inductive BlocksOwn (own : Cmd → Prop) (inv : σ → Prop) : Gen σ Cmd Reply → Prop where
  | done (s) : inv s → BlocksOwn own inv (.done s)
  | yield (s c b k) : inv s → (b = Blk.yes → own c) → (∀ r, BlocksOwn own inv (k r)) → BlocksOwn own inv (.yield s c b k)

structure OInv (own : Cmd → Prop) (inv : σ → Prop) (L : Layer σ Ev Cmd Reply) : Prop where
  st : inv L.st
  logs : ∀ c ∈ pausedOn L.log, own c
  cont : ∀ c k, L.paused = some (c, k) → ∀ r, BlocksOwn own inv (k r)

private theorem run_blocksOwn (own : Cmd → Prop) (inv : σ → Prop) (nil : Reply) (g : Gen σ Cmd Reply)
    (hg : BlocksOwn own inv g) :
    inv (run (Ev := Ev) nil g).st ∧ (∀ c ∈ pausedOn (run (Ev := Ev) nil g).ents, own c) ∧
    (∀ c k, (run (Ev := Ev) nil g).paused = some (c, k) → ∀ r, BlocksOwn own inv (k r)) := by
  induction hg with
  | done s hs => simpa [run, pausedOn] using hs
  | yield s c b k hs hb hk ih =>
    cases b with
    | yes =>
      refine ⟨by simpa [run] using hs, by simpa [run, pausedOn] using hb rfl, ?_⟩
      intro c' k' h
      simp only [run, Option.some.injEq, Prod.mk.injEq] at h
      obtain ⟨_, rfl⟩ := h
      exact hk
    | no => simpa [run, pausedOn] using ih nil
    | owned => simpa [run, pausedOn] using ih nil

private theorem oinv_fresh (own : Cmd → Prop) (inv : σ → Prop) (H : Handler σ Ev Cmd Reply) (nil : Reply)
    (hH : ∀ s ev, inv s → BlocksOwn own inv (H s ev)) (L : Layer σ Ev Cmd Reply) (ev : Event Ev Cmd Reply)
    (h : OInv own inv L) : OInv own inv (handleFresh H nil L ev).1 := by
  obtain ⟨a, b, c⟩ := run_blocksOwn (Ev := Ev) own inv nil (H L.st ev) (hH _ _ h.st)
  refine ⟨a, ?_, c⟩
  intro x hx
  simp only [handleFresh, pausedOn_append, pausedOn, List.mem_append] at hx
  rcases hx with hx | hx
  · exact h.logs x hx
  · exact b x hx

private theorem oinv_drain (own : Cmd → Prop) (inv : σ → Prop) (H : Handler σ Ev Cmd Reply) (nil : Reply)
    (hH : ∀ s ev, inv s → BlocksOwn own inv (H s ev)) (q : List (Event Ev Cmd Reply)) :
    ∀ (L : Layer σ Ev Cmd Reply), OInv own inv L → OInv own inv (drain H nil L q).1 := by
  induction q with
  | nil => intro L h; exact ⟨h.st, h.logs, h.cont⟩
  | cons ev rest ih =>
    intro L h
    cases hp : L.paused with
    | some pk => simp only [drain, hp]; exact ⟨h.st, h.logs, fun c k a => h.cont c k (by simpa [hp] using a)⟩
    | none => simp only [drain, hp]; exact ih _ (oinv_fresh own inv H nil hH L ev h)

/-- one `handle_event` call preserves: the state invariant, "every pause so far was on an own command", and the
    same for whatever the suspended generator will do -/
theorem oinv_step [DecidableEq Cmd] (own : Cmd → Prop) (inv : σ → Prop) (H : Handler σ Ev Cmd Reply) (nil : Reply)
    (hH : ∀ s ev, inv s → BlocksOwn own inv (H s ev)) (L : Layer σ Ev Cmd Reply) (ev : Event Ev Cmd Reply)
    (h : OInv own inv L) : OInv own inv (handleEvent H nil L ev).1 := by
  have h' : OInv own inv { L with arrived := L.arrived ++ [ev] } := ⟨h.st, h.logs, h.cont⟩
  cases hp : L.paused with
  | none => rw [he_idle H nil L ev hp]; exact oinv_fresh own inv H nil hH _ ev h'
  | some pk =>
    obtain ⟨c, k⟩ := pk
    by_cases hm : ∃ r, ev = .completed c r
    · obtain ⟨r, rfl⟩ := hm
      rw [he_match H nil L c k r hp]
      simp only [resumeWith]
      apply oinv_drain own inv H nil hH
      obtain ⟨a, b, d⟩ := run_blocksOwn (Ev := Ev) own inv nil (k r) (h.cont c k hp r)
      refine ⟨a, ?_, d⟩
      intro x hx
      simp only [pausedOn_append, pausedOn, List.mem_append] at hx
      rcases hx with hx | hx
      · exact h.logs x hx
      · exact b x hx
    · rw [he_other H nil L c k ev hp (fun r h => hm ⟨r, h⟩)]
      exact ⟨h.st, h.logs, fun c' k' a => h.cont c' k' (by simpa [enqueue] using a)⟩

/-- **A layer pauses only on commands its own generator issued as blocking** — whole histories, any handler whose
    blocking yields are `own` (relayed commands of children never are `blocking is True`, see below), with the
    notion of "own" allowed to depend on an invariant of the layer's state -/
theorem pauses_only_on_own_blocking [DecidableEq Cmd] (own : Cmd → Prop) (inv : σ → Prop) (H : Handler σ Ev Cmd Reply)
    (nil : Reply) (hH : ∀ s ev, inv s → BlocksOwn own inv (H s ev)) (s0 : σ) (h0 : inv s0)
    (evs : List (Event Ev Cmd Reply)) :
    inv (runSched H nil (Layer.init s0) evs).st ∧ ∀ c ∈ pausedOn (runSched H nil (Layer.init s0) evs).log, own c := by
  have key : ∀ (evs : List (Event Ev Cmd Reply)) (L : Layer σ Ev Cmd Reply),
      OInv own inv L → OInv own inv (runSched H nil L evs) := by
    intro evs
    induction evs with
    | nil => intro L h; exact h
    | cons ev rest ih => intro L h; exact ih _ (oinv_step own inv H nil hH L ev h)
  have := key evs (Layer.init s0) ⟨h0, by simp [Layer.init, pausedOn], by simp [Layer.init]⟩
  exact ⟨this.st, this.logs⟩

/-- a parent generator whose own yields are `own` commands and whose states satisfy `invp` -/
inductive POwns (own : Cmd → Prop) (invp : σp → Prop) : PGen σp Ev Cmd Reply → Prop where
  | done (s) : invp s → POwns own invp (.done s)
  | yield (s c b k) : invp s → own c → (∀ r, POwns own invp (k r)) → POwns own invp (.yield s c b k)
  | child (s i ev k) : invp s → POwns own invp k → POwns own invp (.child s i ev k)

private theorem relay_blocksOwn {τ : Type} (own : Cmd → Prop) (inv : τ → Prop) (s : τ) (hs : inv s) (o : Out Cmd)
    (ho : ∀ x ∈ o, x.2 ≠ Blk.yes) (g : Gen τ Cmd Reply) (hg : BlocksOwn own inv g) :
    BlocksOwn own inv (relay s o g) := by
  induction o with
  | nil => exact hg
  | cons x t ih =>
    obtain ⟨c, b⟩ := x
    exact .yield _ _ _ _ hs (fun hb => absurd hb (ho (c, b) (by simp)))
      (fun _ => ih (fun x hx => ho x (by simp [hx])))

/-- lowering a parent generator over ANY children: the only `blocking is True` yields are the parent's own -/
theorem lower_blocksOwn [DecidableEq Cmd] (own : Cmd → Prop) (invp : σp → Prop)
    (Hc : Nat → Handler σc Ev Cmd Reply) (nil : Reply) (g : PGen σp Ev Cmd Reply) (hg : POwns own invp g) :
    ∀ chs : List (Layer σc Ev Cmd Reply),
      BlocksOwn own (fun st : σp × List (Layer σc Ev Cmd Reply) => invp st.1) (lower Hc nil g chs) := by
  induction hg with
  | done s hs => intro chs; exact .done _ hs
  | yield s c b k hs hc _ ih => intro chs; exact .yield _ _ _ _ hs (fun _ => hc) (fun r => ih r chs)
  | child s i ev k hs _ ih =>
    intro chs
    cases hi : chs[i]? with
    | none => simpa [lower, hi] using ih chs
    | some ch =>
      simp only [lower, hi]
      exact relay_blocksOwn own (fun st : σp × List (Layer σc Ev Cmd Reply) => invp st.1) _ hs _
        (emitted_never_blocking_true (Hc i) nil ch ev) _ (ih _)

theorem flat_blocksOwn (own : Cmd → Prop) (invp : σp → Prop) (g : PGen σp Ev Cmd Reply) (hg : POwns own invp g) :
    BlocksOwn own invp g.flat := by
  induction hg with
  | done s hs => exact .done _ hs
  | yield s c b k hs hc _ ih => exact .yield _ _ _ _ hs (fun _ => hc) ih
  | child s i ev k _ _ ih => exact ih



/-- a parent generator none of whose own yields is blocking, passing only through states satisfying `invp` -/
inductive PQuiet (invp : σp → Prop) : PGen σp Ev Cmd Reply → Prop where
  | done (s) : invp s → PQuiet invp (.done s)
  | yield (s c b k) : invp s → b ≠ Blk.yes → (∀ r, PQuiet invp (k r)) → PQuiet invp (.yield s c b k)
  | child (s i ev k) : invp s → PQuiet invp k → PQuiet invp (.child s i ev k)

/-- lowered over ANY children it has no `blocking is True` yield at all -/
theorem lower_quiet [DecidableEq Cmd] (invp : σp → Prop) (Hc : Nat → Handler σc Ev Cmd Reply) (nil : Reply)
    (g : PGen σp Ev Cmd Reply) (hg : PQuiet invp g) : ∀ chs : List (Layer σc Ev Cmd Reply),
      BlocksOwn (fun _ : Cmd => False) (fun st : σp × List (Layer σc Ev Cmd Reply) => invp st.1) (lower Hc nil g chs) := by
  induction hg with
  | done s hs => intro chs; exact .done _ hs
  | yield s c b k hs hb _ ih => intro chs; exact .yield _ _ _ _ hs (fun h => absurd h hb) (fun r => ih r chs)
  | child s i ev k hs _ ih =>
    intro chs
    cases hi : chs[i]? with
    | none => simpa [lower, hi] using ih chs
    | some ch =>
      simp only [lower, hi]
      exact relay_blocksOwn _ (fun st : σp × List (Layer σc Ev Cmd Reply) => invp st.1) _ hs _
        (emitted_never_blocking_true (Hc i) nil ch ev) _ (ih _)

/-! ### positional children invariant (round 6): the i-th child keeps ITS relation to a fixed i-th reference -/

/-- two lists related element by element, in order -/
inductive Pointwise {α β : Type} (R : α → β → Prop) : List α → List β → Prop where
  | nil : Pointwise R [] []
  | cons {a b l₁ l₂} : R a b → Pointwise R l₁ l₂ → Pointwise R (a :: l₁) (b :: l₂)

private theorem forall2_set {α β : Type} {R : α → β → Prop} {xs : List α} {ys : List β} (h : Pointwise R xs ys) :
    ∀ (i : Nat) (y y' : β), ys[i]? = some y → (∀ x, R x y → R x y') → Pointwise R xs (ys.set i y') := by
  induction h with
  | nil => intro i y y' hi; simp at hi
  | cons hab _ ih =>
    intro i y y' hi hr
    cases i with
    | zero =>
      simp only [List.getElem?_cons_zero, Option.some.injEq] at hi
      subst hi
      exact .cons (hr _ hab) (by assumption)
    | succ j =>
      simp only [List.getElem?_cons_succ] at hi
      exact .cons hab (ih j y y' hi hr)

private theorem forall2_mem_right {α β : Type} {R : α → β → Prop} {xs : List α} {ys : List β} (h : Pointwise R xs ys) :
    ∀ y ∈ ys, ∃ x ∈ xs, R x y := by
  induction h with
  | nil => intro y hy; simp at hy
  | cons hab _ ih =>
    intro y hy
    rcases List.mem_cons.mp hy with rfl | hy
    · exact ⟨_, by simp, hab⟩
    · obtain ⟨x, hx, hr⟩ := ih y hy
      exact ⟨x, by simp [hx], hr⟩

private theorem forall2_refl_of_mem {α : Type} {R : α → α → Prop} (l : List α) (h : ∀ a ∈ l, R a a) : Pointwise R l l := by
  induction l with
  | nil => exact .nil
  | cons a t ih => exact .cons (h a (by simp)) (ih (fun b hb => h b (by simp [hb])))

/-- like `CInv`, but positional: the children (also the ones captured by the suspended generator) are related, one
    by one and in order, to a fixed list of references `xs` -/
structure RInv [DecidableEq Cmd] {ι : Type} (R : ι → Layer σc Ev Cmd Reply → Prop) (xs : List ι)
    (Hc : Nat → Handler σc Ev Cmd Reply) (nil : Reply)
    (P : Layer (σp × List (Layer σc Ev Cmd Reply)) Ev Cmd Reply) : Prop where
  kids : Pointwise R xs P.st.2
  cont : ∀ c k, P.paused = some (c, k) → ∀ r, ∃ (g : PGen σp Ev Cmd Reply) (chs : List (Layer σc Ev Cmd Reply)),
          k r = lower Hc nil g chs ∧ Pointwise R xs chs

private theorem lower_rel [DecidableEq Cmd] {ι : Type} (R : ι → Layer σc Ev Cmd Reply → Prop) (xs : List ι)
    (Hc : Nat → Handler σc Ev Cmd Reply) (nil : Reply)
    (hR : ∀ i x ch ev, R x ch → R x (handleEvent (Hc i) nil ch ev).1)
    (g : PGen σp Ev Cmd Reply) : ∀ chs : List (Layer σc Ev Cmd Reply), Pointwise R xs chs →
    Pointwise R xs (run (Ev := Ev) nil (lower Hc nil g chs)).st.2 ∧
    (∀ c k, (run (Ev := Ev) nil (lower Hc nil g chs)).paused = some (c, k) →
      ∀ r, ∃ (g' : PGen σp Ev Cmd Reply) (chs' : List (Layer σc Ev Cmd Reply)),
        k r = lower Hc nil g' chs' ∧ Pointwise R xs chs') := by
  induction g with
  | done s => intro chs h; exact ⟨by simpa [lower, run] using h, by simp [lower, run]⟩
  | yield s c b k ih =>
    intro chs h
    cases b with
    | yes =>
      refine ⟨by simpa [lower, run] using h, ?_⟩
      intro c' k' hk
      simp only [lower, run, Option.some.injEq, Prod.mk.injEq] at hk
      obtain ⟨_, rfl⟩ := hk
      exact fun r => ⟨k r, chs, rfl, h⟩
    | no => simpa [lower, run] using ih nil chs h
    | owned => simpa [lower, run] using ih nil chs h
  | child s i ev k ih =>
    intro chs h
    cases hi : chs[i]? with
    | none => simpa [lower, hi] using ih chs h
    | some ch =>
      have h' := forall2_set h i ch (handleEvent (Hc i) nil ch ev).1 hi (fun x hx => hR i x ch ev hx)
      simp only [lower, hi]
      rw [run_relay nil _ _ _ (emitted_never_blocking_true (Hc i) nil ch ev)]
      exact ih _ h'

private theorem rinv_fresh [DecidableEq Cmd] {ι : Type} (R : ι → Layer σc Ev Cmd Reply → Prop) (xs : List ι)
    (PH : σp → Event Ev Cmd Reply → PGen σp Ev Cmd Reply) (Hc : Nat → Handler σc Ev Cmd Reply) (nil : Reply)
    (hR : ∀ i x ch ev, R x ch → R x (handleEvent (Hc i) nil ch ev).1)
    (P : Layer (σp × List (Layer σc Ev Cmd Reply)) Ev Cmd Reply) (ev : Event Ev Cmd Reply)
    (h : RInv R xs Hc nil P) : RInv R xs Hc nil (handleFresh (parentHandler PH Hc nil) nil P ev).1 := by
  obtain ⟨a, b⟩ := lower_rel R xs Hc nil hR (PH P.st.1 ev) P.st.2 h.kids
  exact ⟨a, b⟩

private theorem rinv_drain [DecidableEq Cmd] {ι : Type} (R : ι → Layer σc Ev Cmd Reply → Prop) (xs : List ι)
    (PH : σp → Event Ev Cmd Reply → PGen σp Ev Cmd Reply) (Hc : Nat → Handler σc Ev Cmd Reply) (nil : Reply)
    (hR : ∀ i x ch ev, R x ch → R x (handleEvent (Hc i) nil ch ev).1) (q : List (Event Ev Cmd Reply)) :
    ∀ (P : Layer (σp × List (Layer σc Ev Cmd Reply)) Ev Cmd Reply), RInv R xs Hc nil P →
    RInv R xs Hc nil (drain (parentHandler PH Hc nil) nil P q).1 := by
  induction q with
  | nil => intro P h; exact ⟨h.kids, h.cont⟩
  | cons ev rest ih =>
    intro P h
    cases hp : P.paused with
    | some pk => simp only [drain, hp]; exact ⟨h.kids, fun c k a => h.cont c k (by simpa [hp] using a)⟩
    | none => simp only [drain, hp]; exact ih _ (rinv_fresh R xs PH Hc nil hR P ev h)

/-- one step of the parent preserves the positional children invariant -/
theorem children_step_rel [DecidableEq Cmd] {ι : Type} (R : ι → Layer σc Ev Cmd Reply → Prop) (xs : List ι)
    (PH : σp → Event Ev Cmd Reply → PGen σp Ev Cmd Reply) (Hc : Nat → Handler σc Ev Cmd Reply) (nil : Reply)
    (hR : ∀ i x ch ev, R x ch → R x (handleEvent (Hc i) nil ch ev).1)
    (P : Layer (σp × List (Layer σc Ev Cmd Reply)) Ev Cmd Reply) (ev : Event Ev Cmd Reply)
    (h : RInv R xs Hc nil P) : RInv R xs Hc nil (handleEvent (parentHandler PH Hc nil) nil P ev).1 := by
  have h' : RInv R xs Hc nil { P with arrived := P.arrived ++ [ev] } := ⟨h.kids, h.cont⟩
  cases hp : P.paused with
  | none => rw [he_idle _ nil P ev hp]; exact rinv_fresh R xs PH Hc nil hR _ ev h'
  | some pk =>
    obtain ⟨c, k⟩ := pk
    by_cases hm : ∃ r, ev = .completed c r
    · obtain ⟨r, rfl⟩ := hm
      rw [he_match _ nil P c k r hp]
      simp only [resumeWith]
      apply rinv_drain R xs PH Hc nil hR
      obtain ⟨g, chs, e, hg⟩ := h.cont c k hp r
      obtain ⟨a, b⟩ := lower_rel R xs Hc nil hR g chs hg
      rw [e]
      exact ⟨a, b⟩
    · rw [he_other _ nil P c k ev hp (fun r h => hm ⟨r, h⟩)]
      exact ⟨h.kids, fun c' k' a => h.cont c' k' (by simpa [enqueue] using a)⟩

end generic

/-! ### the interpreted programs of the correspondence run satisfy the hypotheses above -/
section prog
open Prog

private theorem runActs_owns (idx : Nat) (ev : E) (acts : List Act) :
    ∀ s : S, Owns (fun c : Cmd => c.layer = idx) (runActs idx ev acts s) := by
  induction acts with
  | nil => intro s; exact .done s
  | cons a t ih =>
    intro s
    cases a with
    | y label b => exact .yield _ _ _ _ rfl (fun r => ih _)
    | ch i => exact .child _ _ _ _ (ih s)
    | sw m => exact ih s

/-- AUXILIARY (cross-audit round 6): about `Prog.interp`, the round-1 interpreter of the fixed tree 1-(2-(4),3-(5)),
    which the driver no longer runs (it runs `interpN`/`HT`); kept because the `exH`/`exParent` examples use it.  The tied
    counterpart is `interpN_owns`.  Every program run by that interpreter only yields commands stamped with its index. -/
theorem interp_owns (idx : Nat) (tab : Table) (s : S) (ev : E) :
    Owns (fun c : Cmd => c.layer = idx) (interp idx tab s ev) :=
  runActs_owns idx ev _ s

private theorem runActs_noblock (idx : Nat) (ev : E) (acts : List Act)
    (h : ∀ a ∈ acts, ∀ l, a ≠ Act.y l true) : ∀ s : S, NoBlock (runActs idx ev acts s) := by
  induction acts with
  | nil => intro s; exact .done s
  | cons a t ih =>
    intro s
    have ht := ih (fun a ha => h a (by simp [ha]))
    cases a with
    | y label b =>
      cases b with
      | true => exact absurd rfl (h _ (by simp) label)
      | false => exact .yield _ _ _ _ (by simp) (fun r => ht _)
    | ch i => exact .child _ _ _ _ (ht s)
    | sw m => exact ht s

/-- AUXILIARY (see `interp_owns`): a table without blocking yields gives a `NoBlock` parent, for the round-1
    interpreter.  The tied counterparts are `interpN_quiet` / `tree_node_without_blocking_never_pauses`. -/
theorem interp_noblock (idx : Nat) (tab : Table) (h : ∀ acts ∈ tab, ∀ a ∈ acts, ∀ l, a ≠ Act.y l true)
    (s : S) (ev : E) : NoBlock (interp idx tab s ev) := by
  apply runActs_noblock
  intro a ha
  by_cases hk : kindOf idx ev < tab.length
  · have : tab.getD (kindOf idx ev) [] ∈ tab := by
      rw [List.getD_eq_getElem?_getD, List.getElem?_eq_getElem hk]; simp
    exact h _ this a ha
  · rw [List.getD_eq_getElem?_getD, List.getElem?_eq_none (by omega)] at ha
    simp at ha


/-! #### trees of arbitrary depth and branching (`Prog.TS d`, `Prog.HT d`): induction over the tree -/

/-- every layer of the tree — at any depth — satisfies the single-layer invariant `Inv` with respect to ITS OWN
    arrivals (`part`: handled ++ queued and resumes partition the arrivals in order; `idle`: nothing queued
    unless paused; `disc`: pause/resume discipline), including the child layers captured by a suspended
    generator of any ancestor -/
def AllInv : (d : Nat) → Layer (TS d) Ev Cmd Reply → Prop
  | 0, L => Inv L
  | d + 1, L => Inv L ∧ CInv (σp := Node) (AllInv d) (fun _ => HT d) 0 L

theorem AllInv.root : ∀ {d : Nat} {L : Layer (TS d) Ev Cmd Reply}, AllInv d L → Inv L
  | 0, _, h => h
  | _ + 1, _, h => h.1

theorem AllInv.child {d : Nat} {L : Layer (TS (d + 1)) Ev Cmd Reply} (h : AllInv (d + 1) L) :
    ∀ ch ∈ L.st.2, AllInv d ch := h.2.kids

/-- one `handle_event` call on the root preserves the invariant of every layer of the tree -/
theorem tree_step : ∀ (d : Nat) (L : Layer (TS d) Ev Cmd Reply) (ev : E), AllInv d L →
    AllInv d (handleEvent (HT d) 0 L ev).1
  | 0, L, ev, h => (step_facts (HT 0) 0 L ev h).1
  | d + 1, L, ev, h =>
    ⟨(step_facts (HT (d + 1)) 0 L ev h.1).1,
     children_step (AllInv d) interpN (fun _ => HT d) 0 (fun _ ch ev' h' => tree_step d ch ev' h') L ev h.2⟩

/-- a tree in which no layer has received anything yet -/
def FreshTree : (d : Nat) → Layer (TS d) Ev Cmd Reply → Prop
  | 0, L => ∃ n : Node, L = Layer.init n
  | d + 1, L => ∃ (n : Node) (chs : List (Layer (TS d) Ev Cmd Reply)),
      L = Layer.init ((n, chs) : Node × List (Layer (TS d) Ev Cmd Reply)) ∧ ∀ ch ∈ chs, FreshTree d ch

private theorem allInv_fresh : ∀ (d : Nat) (L : Layer (TS d) Ev Cmd Reply), FreshTree d L → AllInv d L
  | 0, L, h => by obtain ⟨n, rfl⟩ := h; exact inv_init n
  | d + 1, L, h => by
    obtain ⟨n, chs, rfl, hk⟩ := h
    exact ⟨inv_init _, ⟨fun ch hc => allInv_fresh d ch (hk ch hc), by simp [Layer.init]⟩⟩

/-- **In a layer tree of ANY depth and branching, whose layers may re-bind their handlers at run time, every
    layer handles every event it receives exactly once and in arrival order, never while it waits, and is
    resumed only by its own completion** — for every schedule delivered to the root (induction over the
    schedule and over the tree). -/
theorem tree_every_layer_in_order (d : Nat) (L0 : Layer (TS d) Ev Cmd Reply) (h0 : FreshTree d L0)
    (evs : List E) : AllInv d (runSched (HT d) 0 L0 evs) := by
  have key : ∀ (evs : List E) (L : Layer (TS d) Ev Cmd Reply), AllInv d L → AllInv d (runSched (HT d) 0 L evs) := by
    intro evs
    induction evs with
    | nil => intro L h; exact h
    | cons ev rest ih => intro L h; exact ih _ (tree_step d L ev h)
  exact key evs L0 (allInv_fresh d L0 h0)


private theorem fresh_arrived : ∀ (d : Nat) (L : Layer (TS d) Ev Cmd Reply), FreshTree d L → L.arrived = []
  | 0, _, h => by obtain ⟨n, rfl⟩ := h; rfl
  | _ + 1, _, h => by obtain ⟨n, chs, rfl, _⟩ := h; rfl

/-- a whole layer tree behind a NextLayer: after any schedule (before, during and after the hand-over) every
    layer of the tree still satisfies the single-layer invariant w.r.t. its own arrivals -/
theorem nextlayer_tree_in_order (P : NLParams Ev Cmd Reply) (d : Nat) (L0 : Layer (TS d) Ev Cmd Reply)
    (h0 : FreshTree d L0) (evs : List E) : AllInv d (nlRunSched P (HT d) 0 (nlInit L0) evs).st.child :=
  nextlayer_child_invariant (AllInv d) P (HT d) 0 (fun ch ev h => tree_step d ch ev h) L0
    (fresh_arrived d L0 h0) (allInv_fresh d L0 h0) evs


/-! #### in a tree of any shape every layer pauses only on its own commands (clause "blocking one layer never
    blocks the layers above it", for whole trees and whole histories) -/

private theorem runActsN_powns (ev : E) (acts : List Act) (i : Nat) :
    ∀ n : Node, n.idx = i → POwns (fun c : Cmd => c.layer = i) (fun m : Node => m.idx = i) (runActsN ev acts n) := by
  induction acts with
  | nil => intro n hn; exact .done n hn
  | cons a t ih =>
    intro n hn
    cases a with
    | y label b => exact .yield _ _ _ _ hn hn (fun r => ih _ hn)
    | ch j => exact .child _ _ _ _ hn (ih n hn)
    | sw m => exact ih { n with mode := m } hn

/-- every layer of the tree, at any depth: its index never changes, every pause in its trace is on a command
    carrying its own index, and the same holds for the child layers captured by suspended generators -/
def TreeOwn : (d : Nat) → Layer (TS d) Ev Cmd Reply → Prop
  | 0, L => ∃ i, OInv (fun c : Cmd => c.layer = i) (fun m : Node => m.idx = i) L
  | d + 1, L => (∃ i, OInv (fun c : Cmd => c.layer = i)
        (fun st : Node × List (Layer (TS d) Ev Cmd Reply) => st.1.idx = i) L) ∧
      CInv (σp := Node) (TreeOwn d) (fun _ => HT d) 0 L

theorem tree_own_step : ∀ (d : Nat) (L : Layer (TS d) Ev Cmd Reply) (ev : E), TreeOwn d L →
    TreeOwn d (handleEvent (HT d) 0 L ev).1
  | 0, L, ev, ⟨i, h⟩ =>
    ⟨i, oinv_step _ _ (HT 0) 0
      (fun n e hn => flat_blocksOwn _ _ _ (runActsN_powns e _ i n hn)) L ev h⟩
  | d + 1, L, ev, ⟨⟨i, h⟩, hc⟩ =>
    ⟨⟨i, oinv_step _ _ (HT (d + 1)) 0
        (fun st e hn => lower_blocksOwn _ _ (fun _ => HT d) 0 _ (runActsN_powns e _ i st.1 hn) st.2) L ev h⟩,
     children_step (TreeOwn d) interpN (fun _ => HT d) 0 (fun _ ch ev' h' => tree_own_step d ch ev' h') L ev hc⟩

private theorem treeOwn_fresh : ∀ (d : Nat) (L : Layer (TS d) Ev Cmd Reply), FreshTree d L → TreeOwn d L
  | 0, L, h => by
    obtain ⟨n, rfl⟩ := h
    exact ⟨n.idx, ⟨rfl, by simp [Layer.init, pausedOn], by simp [Layer.init]⟩⟩
  | d + 1, L, h => by
    obtain ⟨n, chs, rfl, hk⟩ := h
    exact ⟨⟨n.idx, ⟨rfl, by simp [Layer.init, pausedOn], by simp [Layer.init]⟩⟩,
           ⟨fun ch hc => treeOwn_fresh d ch (hk ch hc), by simp [Layer.init]⟩⟩

/-- **Every layer of a tree pauses only on commands carrying its own index.**  In a layer tree of any depth and
    branching with re-bindable handlers, after any schedule delivered to the root, every layer has only ever
    paused on commands carrying its own index.  (Cross-audit round 6: this excludes "paused on a descendant's
    command" only when no descendant carries the same index; the reading in terms of descendants, under `Nodup` of the
    indices, is `tree_no_layer_paused_by_descendant` below.  The structural reason, independent of indices, is
    `lower_blocksOwn` / `emitted_never_blocking_true`: a relayed command never carries `blocking is True`.) -/
theorem tree_layers_pause_only_on_own (d : Nat) (L0 : Layer (TS d) Ev Cmd Reply) (h0 : FreshTree d L0)
    (evs : List E) : TreeOwn d (runSched (HT d) 0 L0 evs) := by
  have key : ∀ (evs : List E) (L : Layer (TS d) Ev Cmd Reply), TreeOwn d L → TreeOwn d (runSched (HT d) 0 L evs) := by
    intro evs
    induction evs with
    | nil => intro L h; exact h
    | cons ev rest ih => intro L h; exact ih _ (tree_own_step d L ev h)
  exact key evs L0 (treeOwn_fresh d L0 h0)

/-- the same behind a NextLayer (same remark: index-relative; see `nextlayer_tree_no_layer_paused_by_descendant`) -/
theorem nextlayer_tree_pause_only_on_own (P : NLParams Ev Cmd Reply) (d : Nat) (L0 : Layer (TS d) Ev Cmd Reply)
    (h0 : FreshTree d L0) (evs : List E) : TreeOwn d (nlRunSched P (HT d) 0 (nlInit L0) evs).st.child :=
  nextlayer_child_invariant_any (TreeOwn d) P (HT d) 0 (fun ch ev h => tree_own_step d ch ev h) L0
    (treeOwn_fresh d L0 h0) evs



/-! #### the tied form of "a parent whose own yields are non-blocking is never paused" (for `interpN`, what the driver runs) -/

private theorem runActsN_quiet (ev : E) (T : List Table) (acts : List Act) (h : ∀ a ∈ acts, ∀ l, a ≠ Act.y l true) :
    ∀ n : Node, n.tabs = T → PQuiet (fun m : Node => m.tabs = T) (runActsN ev acts n) := by
  induction acts with
  | nil => intro n hn; exact .done n hn
  | cons a t ih =>
    intro n hn
    have ht := ih (fun a ha => h a (by simp [ha]))
    cases a with
    | y label b =>
      cases b with
      | true => exact absurd rfl (h _ (by simp) label)
      | false => exact .yield _ _ _ _ hn (by simp) (fun r => ht _ hn)
    | ch j => exact .child _ _ _ _ hn (ht n hn)
    | sw m => exact ht { n with mode := m } hn

/-- a node none of whose handler tables contains a blocking yield: whichever handler is bound, whatever the event -/
theorem interpN_quiet (T : List Table) (hT : ∀ tab ∈ T, ∀ acts ∈ tab, ∀ a ∈ acts, ∀ l, a ≠ Act.y l true)
    (n : Node) (hn : n.tabs = T) (ev : E) : PQuiet (fun m : Node => m.tabs = T) (interpN n ev) := by
  apply runActsN_quiet ev T _ _ n hn
  intro a ha
  have hmem : ∀ (l : List (List Act)) (k : Nat), l.getD k [] = [] ∨ l.getD k [] ∈ l := by
    intro l k
    by_cases hk : k < l.length
    · right; rw [List.getD_eq_getElem?_getD, List.getElem?_eq_getElem hk]; simp
    · left; rw [List.getD_eq_getElem?_getD, List.getElem?_eq_none (by omega)]; rfl
  have hmemT : ∀ (k : Nat), T.getD k [] = [] ∨ T.getD k [] ∈ T := by
    intro k
    by_cases hk : k < T.length
    · right; rw [List.getD_eq_getElem?_getD, List.getElem?_eq_getElem hk]; simp
    · left; rw [List.getD_eq_getElem?_getD, List.getElem?_eq_none (by omega)]; rfl
  rw [hn] at ha
  rcases hmemT n.mode with h0 | h1
  · rw [h0] at ha; simp at ha
  · rcases hmem (T.getD n.mode []) (kindOfN n ev) with h2 | h2
    · rw [h2] at ha; simp at ha
    · exact hT _ h1 _ h2 a ha

/-- **Blocking children never pause a parent that does not block itself** — tied form: a tree node (any depth, any
    children in any state, handlers re-bound at will) none of whose tables has a blocking yield is never paused, over
    every schedule. -/
theorem tree_node_without_blocking_never_pauses (d : Nat) (n : Node) (chs : List (Layer (TS d) Ev Cmd Reply))
    (hT : ∀ tab ∈ n.tabs, ∀ acts ∈ tab, ∀ a ∈ acts, ∀ l, a ≠ Act.y l true) (evs : List E) :
    pausedOn (runSched (HT (d + 1)) 0 (Layer.init ((n, chs) : Node × List (Layer (TS d) Ev Cmd Reply))) evs).log = [] := by
  have h := pauses_only_on_own_blocking (fun _ : Cmd => False)
    (fun st : Node × List (Layer (TS d) Ev Cmd Reply) => st.1.tabs = n.tabs) (HT (d + 1)) 0
    (fun st e hn => lower_quiet _ (fun _ => HT d) 0 _ (interpN_quiet n.tabs hT st.1 hn e) st.2)
    ((n, chs) : Node × List (Layer (TS d) Ev Cmd Reply)) rfl evs
  exact List.eq_nil_iff_forall_not_mem.mpr (fun c hc => h.2 c hc)

/-! #### … and the reading "no layer is paused because a DESCENDANT blocks", for trees with pairwise distinct indices

  `TreeOwn` says: every pause of a layer is on a command carrying that layer's index.  That separates a layer's own
  commands from those of its descendants only if no descendant carries the same index (cross-audit round 6: with a
  repeated index the statement is true but says less than its former docstring).  `TI d A L` pins every layer of the
  running tree `L` to the layer at the same position of the INITIAL tree `A` (same index, own pauses only), so the
  indices never change (`ti_idxs`), and with `Nodup` of the initial indices every pause of every layer is on a command
  whose index occurs in NONE of its descendants (`PauseSep`). -/

/-- the indices of a tree, preorder -/
def idxs : (d : Nat) → Layer (TS d) Ev Cmd Reply → List Nat
  | 0, L => [L.st.idx]
  | d + 1, L => L.st.1.idx :: L.st.2.flatMap (idxs d)

/-- `L` is the tree `A` after some history: position by position the same index, every layer paused only on
    commands with ITS index, also in the children captured by suspended generators -/
def TI : (d : Nat) → Layer (TS d) Ev Cmd Reply → Layer (TS d) Ev Cmd Reply → Prop
  | 0, A, L => OInv (fun c : Cmd => c.layer = A.st.idx) (fun m : Node => m.idx = A.st.idx) L
  | d + 1, A, L =>
      OInv (fun c : Cmd => c.layer = A.st.1.idx)
        (fun st : Node × List (Layer (TS d) Ev Cmd Reply) => st.1.idx = A.st.1.idx) L ∧
      RInv (σp := Node) (TI d) A.st.2 (fun _ => HT d) 0 L

theorem ti_step : ∀ (d : Nat) (A L : Layer (TS d) Ev Cmd Reply) (ev : E), TI d A L →
    TI d A (handleEvent (HT d) 0 L ev).1
  | 0, A, L, ev, h =>
    oinv_step _ _ (HT 0) 0 (fun n e hn => flat_blocksOwn _ _ _ (runActsN_powns e _ A.st.idx n hn)) L ev h
  | d + 1, A, L, ev, ⟨h, hc⟩ =>
    ⟨oinv_step _ _ (HT (d + 1)) 0
        (fun st e hn => lower_blocksOwn _ _ (fun _ => HT d) 0 _ (runActsN_powns e _ A.st.1.idx st.1 hn) st.2) L ev h,
     children_step_rel (TI d) A.st.2 interpN (fun _ => HT d) 0 (fun _ x ch ev' h' => ti_step d x ch ev' h') L ev hc⟩

private theorem ti_fresh : ∀ (d : Nat) (L : Layer (TS d) Ev Cmd Reply), FreshTree d L → TI d L L
  | 0, L, h => by
    obtain ⟨n, rfl⟩ := h
    exact ⟨rfl, by simp [Layer.init, pausedOn], by simp [Layer.init]⟩
  | d + 1, L, h => by
    obtain ⟨n, chs, rfl, hk⟩ := h
    exact ⟨⟨rfl, by simp [Layer.init, pausedOn], by simp [Layer.init]⟩,
           ⟨forall2_refl_of_mem chs (fun ch hc => ti_fresh d ch (hk ch hc)), by simp [Layer.init]⟩⟩

/-- the indices of the tree never change -/
theorem ti_idxs : ∀ (d : Nat) (A L : Layer (TS d) Ev Cmd Reply), TI d A L → idxs d L = idxs d A
  | 0, A, L, h => by simp only [idxs]; rw [h.st]
  | d + 1, A, L, ⟨h, hc⟩ => by
    have hk : ∀ (xs ys : List (Layer (TS d) Ev Cmd Reply)), Pointwise (TI d) xs ys →
        ys.flatMap (idxs d) = xs.flatMap (idxs d) := by
      intro xs ys hf
      induction hf with
      | nil => rfl
      | cons hab _ ih => simp only [List.flatMap_cons]; rw [ti_idxs d _ _ hab, ih]
    simp only [idxs]
    rw [h.st, hk _ _ hc.kids]

/-- every pause of every layer (at every depth) is on a command whose index occurs in none of that layer's
    descendants -/
def PauseSep : (d : Nat) → Layer (TS d) Ev Cmd Reply → Prop
  | 0, _ => True
  | d + 1, L => (∀ c ∈ pausedOn L.log, ∀ ch ∈ L.st.2, c.layer ∉ idxs d ch) ∧ ∀ ch ∈ L.st.2, PauseSep d ch

theorem ti_pauseSep : ∀ (d : Nat) (A L : Layer (TS d) Ev Cmd Reply), TI d A L → (idxs d A).Nodup → PauseSep d L
  | 0, _, _, _, _ => trivial
  | d + 1, A, L, ⟨h, hc⟩, hn => by
    simp only [idxs, List.nodup_cons] at hn
    obtain ⟨hroot, hrest⟩ := hn
    refine ⟨?_, ?_⟩
    · intro c hcmd ch hch hin
      obtain ⟨a, ha, hta⟩ := forall2_mem_right hc.kids ch hch
      rw [ti_idxs d a ch hta, h.logs c hcmd] at hin
      exact hroot (List.mem_flatMap.mpr ⟨a, ha, hin⟩)
    · intro ch hch
      obtain ⟨a, ha, hta⟩ := forall2_mem_right hc.kids ch hch
      have hna : (idxs d a).Nodup := by
        rw [List.flatMap_def] at hrest
        exact List.Nodup.sublist (List.sublist_flatten_of_mem (List.mem_map.mpr ⟨a, ha, rfl⟩)) hrest
      exact ti_pauseSep d a ch hta hna

/-- **Blocking one layer never blocks the layers above it — whole trees, whole histories, in terms of descendants.**
    In a fresh layer tree of any depth and branching whose indices are pairwise distinct, after any schedule delivered
    to the root: the indices are what they were, and every pause of every layer is on a command whose index belongs to
    none of its descendants — no layer is ever paused on a command of a layer below it. -/
theorem tree_no_layer_paused_by_descendant (d : Nat) (L0 : Layer (TS d) Ev Cmd Reply) (h0 : FreshTree d L0)
    (hn : (idxs d L0).Nodup) (evs : List E) :
    idxs d (runSched (HT d) 0 L0 evs) = idxs d L0 ∧ PauseSep d (runSched (HT d) 0 L0 evs) := by
  have key : ∀ (evs : List E) (L : Layer (TS d) Ev Cmd Reply), TI d L0 L → TI d L0 (runSched (HT d) 0 L evs) := by
    intro evs
    induction evs with
    | nil => intro L h; exact h
    | cons ev rest ih => intro L h; exact ih _ (ti_step d L0 L ev h)
  have := key evs L0 (ti_fresh d L0 h0)
  exact ⟨ti_idxs d L0 _ this, ti_pauseSep d L0 _ this hn⟩

/-- the same for a tree behind a NextLayer -/
theorem nextlayer_tree_no_layer_paused_by_descendant (P : NLParams Ev Cmd Reply) (d : Nat)
    (L0 : Layer (TS d) Ev Cmd Reply) (h0 : FreshTree d L0) (hn : (idxs d L0).Nodup) (evs : List E) :
    PauseSep d (nlRunSched P (HT d) 0 (nlInit L0) evs).st.child :=
  ti_pauseSep d L0 _
    (nextlayer_child_invariant_any (TI d L0) P (HT d) 0 (fun ch ev h => ti_step d L0 ch ev h) L0 (ti_fresh d L0 h0) evs) hn

/-- a parent in the tree is never paused by a command of a descendant: it pauses only on commands carrying
    its own index (instance of `parent_pauses_only_on_own_commands`; the index is part of the node state) -/
private theorem runActsN_owns (ev : E) (acts : List Act) (i : Nat) :
    ∀ n : Node, n.idx = i → Owns (fun c : Cmd => c.layer = i) (runActsN ev acts n) := by
  induction acts with
  | nil => intro n _; exact .done n
  | cons a t ih =>
    intro n hn
    cases a with
    | y label b => exact .yield _ _ _ _ hn (fun r => ih _ hn)
    | ch j => exact .child _ _ _ _ (ih n hn)
    | sw m => exact ih { n with mode := m } hn

theorem interpN_owns (n : Node) (ev : E) : Owns (fun c : Cmd => c.layer = n.idx) (interpN n ev) :=
  runActsN_owns ev _ n.idx n rfl

/-! #### non-vacuity: concrete runs (evaluated by the kernel) -/

/-- leaf layer 4: on event kind 1 yield a blocking command then a non-blocking one -/
private def exTab : Table := [[], [.y 1 true, .y 2 false]]
private def exH : Handler S Ev Cmd Reply := fun s ev => (interp 4 exTab s ev).flat
private def exCmd : Cmd := ⟨4, 0, 1, 0⟩
private def exSched : List E := [.plain ⟨1, 0⟩, .plain ⟨5, 1⟩, .completed ⟨9, 9, 9, 9⟩ 3, .completed exCmd 7]

-- after two events the layer is paused on its own command and has queued the second event
example : ((runSched exH 0 (Layer.init ⟨0, 0⟩) (exSched.take 2)).paused.map (·.1)) = some exCmd := by decide
example : (runSched exH 0 (Layer.init ⟨0, 0⟩) (exSched.take 2)).queue = [.plain ⟨5, 1⟩] := by decide
-- a foreign completion does not resume it, the own one does; the queue is then drained in order
example : (runSched exH 0 (Layer.init ⟨0, 0⟩) (exSched.take 3)).queue.length = 2 := by decide
example : handled (runSched exH 0 (Layer.init ⟨0, 0⟩) exSched).log
    = [.plain ⟨1, 0⟩, .plain ⟨5, 1⟩, .completed ⟨9, 9, 9, 9⟩ 3] := by decide
example : resumed (runSched exH 0 (Layer.init ⟨0, 0⟩) exSched).log = [.completed exCmd 7] := by decide
-- the reply 7 reached the generator: the next command it yields carries seen = 7
example : (handleEvent exH 0 (runSched exH 0 (Layer.init ⟨0, 0⟩) (exSched.take 3)) (.completed exCmd 7)).2
    = [(⟨4, 1, 2, 7⟩, .no)] := by decide


-- the reference interpreter on the split of `exSched` (events / own replies): blocked code would emit the
-- blocking command, get 7, emit the follow-up carrying 7, then handle the two other events (which yield nothing)
example : (seq exH 0 ⟨0, 0⟩ none [] [] [.plain ⟨1, 0⟩, .plain ⟨5, 1⟩, .completed ⟨9, 9, 9, 9⟩ 3] [7]).out
    = [(exCmd, .owned), (⟨4, 1, 2, 7⟩, .no)] := by
  have h := (sequential_blocking_equivalence exH 0 ⟨0, 0⟩ exSched).2
  have hh : handled (runSched exH 0 (Layer.init ⟨0, 0⟩) exSched).log ++ (runSched exH 0 (Layer.init ⟨0, 0⟩) exSched).queue
      = [.plain ⟨1, 0⟩, .plain ⟨5, 1⟩, .completed ⟨9, 9, 9, 9⟩ 3] := by decide
  have hr : repliesOf (resumed (runSched exH 0 (Layer.init ⟨0, 0⟩) exSched).log) = [7] := by decide
  rw [hh, hr] at h
  rw [h]
  decide

/-- parent layer 2 relays to child 4 and never blocks itself -/
private def exPTab : Table := [[], [.y 0 false, .ch 0, .y 3 false]]
private def exParent : Handler (S × List (Layer S Ev Cmd Reply)) Ev Cmd Reply :=
  parentHandler (interp 2 exPTab) (fun _ => exH) 0
private def exP0 : Layer (S × List (Layer S Ev Cmd Reply)) Ev Cmd Reply := Layer.init (⟨0, 0⟩, [Layer.init ⟨0, 0⟩])

-- the child is paused, the parent is not, and the parent went on to emit its command after the relay
example : (runSched exParent 0 exP0 [.plain ⟨1, 0⟩]).paused.isNone = true := by decide
example : ((runSched exParent 0 exP0 [.plain ⟨1, 0⟩]).st.2.map (fun ch => ch.paused.map (·.1))) = [some exCmd] := by decide
example : (handleEvent exParent 0 exP0 (.plain ⟨1, 0⟩)).2
    = [(⟨2, 0, 0, 0⟩, .no), (exCmd, .owned), (⟨2, 1, 3, 0⟩, .no)] := by decide
example : ∀ s ev, NoBlock (interp 2 exPTab s ev) := interp_noblock 2 exPTab (by
  intro acts ha a h l
  simp only [exPTab, List.mem_cons, List.not_mem_nil, or_false] at ha
  rcases ha with rfl | rfl
  · simp at h
  · simp only [List.mem_cons, List.not_mem_nil, or_false] at h
    rcases h with rfl | rfl | rfl <;> simp)

private def exNL : NLParams Ev Cmd Reply where
  kind e := if e.label = 1 then .data else if e.label = 3 then .clientClosed else .other
  askOnStart := false
  hookCmd n := ⟨0, n, 0, 0⟩
  closeCmd n := ⟨0, n, 1, 0⟩
  decide r := r % 2 == 1

private def exNLSched : List E :=
  [.plain ⟨1, 0⟩, .plain ⟨5, 1⟩, .completed ⟨0, 0, 0, 0⟩ 0, .plain ⟨1, 3⟩, .plain ⟨6, 4⟩, .completed ⟨0, 1, 0, 0⟩ 1, .plain ⟨5, 6⟩]

-- first hook: nothing chosen, everything stays buffered; second hook chooses: the child gets all five
-- non-hook events in arrival order, then the later one
example : (nlRunSched exNL exH 0 (nlInit (Layer.init ⟨0, 0⟩)) (exNLSched.take 3)).st.handed = false := by decide
example : (nlRunSched exNL exH 0 (nlInit (Layer.init ⟨0, 0⟩)) (exNLSched.take 3)).st.events
    = [.plain ⟨1, 0⟩, .plain ⟨5, 1⟩] := by decide
example : (nlRunSched exNL exH 0 (nlInit (Layer.init ⟨0, 0⟩)) exNLSched).st.handed = true := by decide
example : (nlRunSched exNL exH 0 (nlInit (Layer.init ⟨0, 0⟩)) exNLSched).st.child.arrived
    = [.plain ⟨1, 0⟩, .plain ⟨5, 1⟩, .plain ⟨1, 3⟩, .plain ⟨6, 4⟩, .plain ⟨5, 6⟩] := by decide


/-- a tree of height 3: root 1 (two handlers) over children 2 and 3, child 2 over leaf 4 -/
private def exNodeTabs : List Table :=
  [[[], [.y 1 true, .ch 0, .ch 1], [], [], [], [.sw 1, .ch 0]], [[], [.y 2 false, .ch 0]]]
private def exLeaf (i : Nat) : Layer (TS 0) Ev Cmd Reply := Layer.init ⟨⟨0, 0⟩, 0, i, exNodeTabs, []⟩
private def exMid (i : Nat) (kids : List (Layer (TS 0) Ev Cmd Reply)) (rt : List (List Nat)) :
    Layer (TS 1) Ev Cmd Reply := Layer.init ((⟨⟨0, 0⟩, 0, i, exNodeTabs, rt⟩ : Node), kids)
private def exRoot : Layer (TS 2) Ev Cmd Reply :=
  Layer.init ((⟨⟨0, 0⟩, 0, 1, exNodeTabs, [[2, 4], [3]]⟩ : Node), [exMid 2 [exLeaf 4] [[4]], exMid 3 [] []])

example : FreshTree 2 exRoot :=
  ⟨_, _, rfl, by
    intro ch hc
    simp only [List.mem_cons, List.not_mem_nil, or_false] at hc
    rcases hc with rfl | rfl
    · exact ⟨_, _, rfl, by intro g hg; simp only [List.mem_cons, List.not_mem_nil, or_false] at hg; subst hg; exact ⟨_, rfl⟩⟩
    · exact ⟨_, _, rfl, by intro g hg; simp at hg⟩⟩
-- data: the root blocks; event 5 is queued; after the root's completion the relay reaches 2, 4 and 3, which
-- block in turn, and the queued event 5 re-binds the root's handler — the next data is handled by handler 1
example : ((runSched (HT 2) 0 exRoot [.plain ⟨1, 0⟩, .plain ⟨5, 1⟩]).queue) = [.plain ⟨5, 1⟩] := by decide
example : (runSched (HT 2) 0 exRoot [.plain ⟨1, 0⟩, .plain ⟨5, 1⟩, .completed ⟨1, 0, 1, 0⟩ 3]).st.1.mode = 1 := by decide
example : (handleEvent (HT 2) 0 (runSched (HT 2) 0 exRoot [.plain ⟨1, 0⟩, .plain ⟨5, 1⟩, .completed ⟨1, 0, 1, 0⟩ 3])
    (.plain ⟨1, 3⟩)).2 = [(⟨1, 1, 2, 3⟩, .no)] := by decide

/-! #### audit round 6 (cross-audit by b-c03): further non-vacuity witnesses -/

-- scan_pause_then_resume / no_handle_while_paused: the accepted trace really contains `pause c` directly followed by
-- `resume c 7` (so the hypothesis `scan p (pre ++ .pause c :: e :: post) = some q` is inhabited by a reachable log)
example : (runSched exH 0 (Layer.init ⟨0, 0⟩) exSched).log =
    [.handle (.plain ⟨1, 0⟩), .emit exCmd .owned, .pause exCmd, .resume exCmd 7, .emit ⟨4, 1, 2, 7⟩ .no,
     .handle (.plain ⟨5, 1⟩), .handle (.completed ⟨9, 9, 9, 9⟩ 3)] := rfl
example : scan none (runSched exH 0 (Layer.init ⟨0, 0⟩) exSched).log = some none ∧
    pausedOn (runSched exH 0 (Layer.init ⟨0, 0⟩) exSched).log = [exCmd] := by decide
-- ... and `scan` is not the constant acceptor: a trace that handles an event while paused is rejected
example : scan (Ev := Ev) (Reply := Reply) none [.pause exCmd, .handle (.plain ⟨5, 1⟩), .resume exCmd 7] = none := by decide
example : scan (Ev := Ev) (Reply := Reply) none [.pause exCmd, .resume ⟨9, 9, 9, 9⟩ 7] = none := by decide

-- handled_eq_arrivals_verbatim: its hypothesis (no resume so far) holds on a run that is paused with a non-empty queue
example : resumed (runSched exH 0 (Layer.init ⟨0, 0⟩) (exSched.take 3)).log = [] ∧
    handled (runSched exH 0 (Layer.init ⟨0, 0⟩) (exSched.take 3)).log ++ (runSched exH 0 (Layer.init ⟨0, 0⟩) (exSched.take 3)).queue
      = exSched.take 3 := by decide

-- interleaving_irrelevant: both hypotheses hold for two DIFFERENT schedules (completion before / after the second event)
example :
    handled (runSched exH 0 (Layer.init ⟨0, 0⟩) [.plain ⟨1, 0⟩, .plain ⟨5, 1⟩, .completed exCmd 7]).log ++
        (runSched exH 0 (Layer.init ⟨0, 0⟩) [.plain ⟨1, 0⟩, .plain ⟨5, 1⟩, .completed exCmd 7]).queue =
    handled (runSched exH 0 (Layer.init ⟨0, 0⟩) [.plain ⟨1, 0⟩, .completed exCmd 7, .plain ⟨5, 1⟩]).log ++
        (runSched exH 0 (Layer.init ⟨0, 0⟩) [.plain ⟨1, 0⟩, .completed exCmd 7, .plain ⟨5, 1⟩]).queue ∧
    repliesOf (resumed (runSched exH 0 (Layer.init ⟨0, 0⟩) [.plain ⟨1, 0⟩, .plain ⟨5, 1⟩, .completed exCmd 7]).log) =
    repliesOf (resumed (runSched exH 0 (Layer.init ⟨0, 0⟩) [.plain ⟨1, 0⟩, .completed exCmd 7, .plain ⟨5, 1⟩]).log) := by decide

-- "exactly its own completion": the completion of an EARLIER command of the same layer (stale) does not resume the
-- layer now waiting on its next command; it is queued behind
example : ((runSched exH 0 (Layer.init ⟨0, 0⟩)
      [.plain ⟨1, 0⟩, .completed exCmd 7, .plain ⟨1, 2⟩, .completed exCmd 9]).paused.map (·.1)) = some ⟨4, 2, 1, 0⟩ ∧
    (runSched exH 0 (Layer.init ⟨0, 0⟩)
      [.plain ⟨1, 0⟩, .completed exCmd 7, .plain ⟨1, 2⟩, .completed exCmd 9]).queue = [.completed exCmd 9] ∧
    resumed (runSched exH 0 (Layer.init ⟨0, 0⟩)
      [.plain ⟨1, 0⟩, .completed exCmd 7, .plain ⟨1, 2⟩, .completed exCmd 9]).log = [.completed exCmd 7] := by decide

-- child_block_does_not_block_parent: with the child paused AND queueing, the parent has handled both arrivals at once
example : handled (runSched exParent 0 exP0 [.plain ⟨1, 0⟩, .plain ⟨1, 1⟩]).log = [.plain ⟨1, 0⟩, .plain ⟨1, 1⟩] ∧
    (runSched exParent 0 exP0 [.plain ⟨1, 0⟩, .plain ⟨1, 1⟩]).queue = [] ∧
    ((runSched exParent 0 exP0 [.plain ⟨1, 0⟩, .plain ⟨1, 1⟩]).st.2.map (fun ch => ch.queue)) = [[.plain ⟨1, 1⟩]] := by decide

-- NextLayer: while its hook is pending the next event waits in NextLayer's own queue and the candidate child is untouched
example : (nlRunSched exNL exH 0 (nlInit (Layer.init ⟨0, 0⟩)) (exNLSched.take 2)).queue = [.plain ⟨5, 1⟩] ∧
    (nlRunSched exNL exH 0 (nlInit (Layer.init ⟨0, 0⟩)) (exNLSched.take 2)).st.child.arrived = [] ∧
    (nlRunSched exNL exH 0 (nlInit (Layer.init ⟨0, 0⟩)) (exNLSched.take 2)).st.events = [.plain ⟨1, 0⟩] := by decide
-- a STALE hook completion (hook 0 completed a second time) is not consumed by NextLayer: it is buffered like any
-- event and reaches the chosen layer at its place in arrival order
example : (nlRunSched exNL exH 0 (nlInit (Layer.init ⟨0, 0⟩))
      [.plain ⟨1, 0⟩, .completed ⟨0, 0, 0, 0⟩ 0, .completed ⟨0, 0, 0, 0⟩ 1, .plain ⟨1, 3⟩, .completed ⟨0, 1, 0, 0⟩ 1]).st.child.arrived
    = [.plain ⟨1, 0⟩, .completed ⟨0, 0, 0, 0⟩ 1, .plain ⟨1, 3⟩] ∧
    resumed (nlRunSched exNL exH 0 (nlInit (Layer.init ⟨0, 0⟩))
      [.plain ⟨1, 0⟩, .completed ⟨0, 0, 0, 0⟩ 0, .completed ⟨0, 0, 0, 0⟩ 1, .plain ⟨1, 3⟩, .completed ⟨0, 1, 0, 0⟩ 1]).log
    = [.completed ⟨0, 0, 0, 0⟩ 0, .completed ⟨0, 1, 0, 0⟩ 1] := by decide

-- tree_layers_pause_only_on_own on the example tree (distinct indices 1,2,3,4): after the root's completion the root is
-- idle again while both of its children are paused on their own commands
example : (runSched (HT 2) 0 exRoot [.plain ⟨1, 0⟩, .plain ⟨5, 1⟩, .completed ⟨1, 0, 1, 0⟩ 3]).paused.isNone = true ∧
    ((runSched (HT 2) 0 exRoot [.plain ⟨1, 0⟩, .plain ⟨5, 1⟩, .completed ⟨1, 0, 1, 0⟩ 3]).st.2.map
      (fun ch => ch.paused.map (·.1))) = [some ⟨2, 0, 1, 0⟩, some ⟨3, 0, 1, 0⟩] := by decide

-- round 6: distinct indices on exRoot, hence every pause is on a command of no descendant
example : (idxs 2 exRoot).Nodup ∧ idxs 2 exRoot = [1, 2, 4, 3] := by decide
example : PauseSep 2 (runSched (HT 2) 0 exRoot [.plain ⟨1, 0⟩, .completed ⟨1, 0, 1, 0⟩ 5]) :=
  (tree_no_layer_paused_by_descendant 2 exRoot
    ⟨_, _, rfl, by
      intro ch hc
      simp only [List.mem_cons, List.not_mem_nil, or_false] at hc
      rcases hc with rfl | rfl
      · exact ⟨_, _, rfl, by intro g hg; simp only [List.mem_cons, List.not_mem_nil, or_false] at hg; subst hg; exact ⟨_, rfl⟩⟩
      · exact ⟨_, _, rfl, by intro g hg; simp at hg⟩⟩ (by decide) _).2
/-- the auditor's counter-instance: with a REPEATED index the leaf's command satisfies the root's predicate, so
    `TreeOwn` alone does not tell them apart — `Nodup` fails here and `tree_no_layer_paused_by_descendant` does not apply -/
private def dupRoot : Layer (TS 1) Ev Cmd Reply :=
  Layer.init ((⟨⟨0, 0⟩, 0, 4, [[[], [.ch 0]]], [[4]]⟩ : Node), [Layer.init ⟨⟨0, 0⟩, 0, 4, [[[], [.y 1 true]]], []⟩])
example : ¬ (idxs 1 dupRoot).Nodup ∧
    ((runSched (HT 1) 0 dupRoot [.plain ⟨1, 0⟩]).st.2.map (fun ch => ch.paused.map (·.1))) = [some ⟨4, 0, 1, 0⟩] ∧
    (runSched (HT 1) 0 dupRoot [.plain ⟨1, 0⟩]).paused.isNone = true := by decide
-- a node without blocking yields over a blocking child: hypothesis of tree_node_without_blocking_never_pauses
example : pausedOn (runSched (HT 1) 0 dupRoot [.plain ⟨1, 0⟩, .plain ⟨1, 1⟩]).log = [] :=
  tree_node_without_blocking_never_pauses 0 _ _ (by
    intro tab ht acts ha a h l
    simp only [List.mem_cons, List.not_mem_nil, or_false] at ht; subst ht
    simp only [List.mem_cons, List.not_mem_nil, or_false] at ha
    rcases ha with rfl | rfl
    · simp at h
    · simp only [List.mem_cons, List.not_mem_nil, or_false] at h; subst h; simp) _

end prog

end MitmVerif.Props.C04
