import MitmVerif.Model.C05
namespace MitmVerif.Props.C05
open MitmVerif MitmVerif.C05

theorem placeholder : True := trivial

end MitmVerif.Props.C05
