/-
  C05 — HTTP/2 streams are isolated and correctly mapped: the property theorems.

  All of them are statements about EVERY state `σ` the model of `Http2Client` can reach (`Reach σ`): any interleaving
  of client events (per stream: the request head first and once, as `HttpStream` emits them — `Good`), of segments
  reported by hyper-h2 (any list of events: SETTINGS changing MAX_CONCURRENT_STREAMS / INITIAL_WINDOW_SIZE / the
  frame size, WINDOW_UPDATE, responses, RST_STREAM, GOAWAY, protocol errors) and of the connection closing.
  The invariant that carries them (`Inv`, `reach_inv`) is proved in Lemmas/C05_Map.lean by induction over the
  history, through every iteration of the resume loop.
-/
import MitmVerif.Lemmas.C05_Map
import MitmVerif.Lemmas.C05_Sub
import MitmVerif.Lemmas.C05_C03Run
import MitmVerif.Lemmas.C05_Bytes
import MitmVerif.Lemmas.C05_First
import MitmVerif.Lemmas.C05_Crash
namespace MitmVerif.Props.C05
open MitmVerif MitmVerif.C05

/-- `our_stream_id` and `their_stream_id` are inverse to each other -/
theorem id_maps_inverse (σ : St) (h : Reach σ) (t o : Nat) :
    alookup t σ.ours = some o ↔ alookup o σ.theirs = some t :=
  ⟨(reach_inv σ h).map.fwd t o, (reach_inv σ h).map.bwd o t⟩

/-- upstream ids are handed out once: two client streams never share one -/
theorem id_maps_injective (σ : St) (h : Reach σ) (t1 t2 o : Nat)
    (h1 : alookup t1 σ.ours = some o) (h2 : alookup t2 σ.ours = some o) : t1 = t2 := by
  have a := (reach_inv σ h).map.fwd t1 o h1
  have b := (reach_inv σ h).map.fwd t2 o h2
  rw [a] at b; exact Option.some.inj b

/-- Every event the HTTP layer handed over for a client stream is — in the order it was handed over — either passed on
    exactly once, or still waiting in the queue; and whatever was passed on went to the upstream stream that belongs
    to this client stream. -/
theorem no_stream_lost_or_duplicated (σ : St) (h : Reach σ) (hc : σ.closed = false) :
    (∀ t, fwOf t σ ++ qOf t σ = evsOf t σ.sub) ∧ (∀ e ∈ σ.fw, alookup e.1 σ.ours = some e.2.1) := by
  have q := (reach_inv σ h).live hc
  refine ⟨fun t => ?_, q.fw⟩
  have := q.cons t
  rw [q.st] at this
  simpa [evsOf] using this

/-- … and when the connection goes away, every stream still waiting for a slot is failed (not forgotten) -/
theorem no_stream_lost_on_close (σ : St) (hc : σ.closed = false) :
    ∀ t ∈ qkeys σ, (t, UpKind.err, none) ∈ (σ.step .connClosed).up := by
  intro t ht
  simp only [St.step]
  rw [if_neg (by rw [hc]; simp)]
  have hq : σ.closeConnection.queue = σ.queue := by
    have : ∀ (l : List (Nat × Bool)) (s : St), (l.foldl (fun σ p => σ.upward p.1 .err) s).queue = s.queue := by
      intro l
      induction l with
      | nil => intro s; rfl
      | cons p rest ih =>
        intro s
        simp only [List.foldl_cons]
        rw [ih]
        unfold St.upward; split <;> rfl
    simp only [St.closeConnection]
    exact this σ.ms σ
  simp only [St.failQueued, hq]
  apply List.mem_append_right
  simp only [qkeys, List.mem_map] at ht ⊢
  obtain ⟨p, hp, rfl⟩ := ht
  exact ⟨p, hp, rfl⟩

/-- Streams are opened in the order in which they arrived: the streams already opened, followed by the streams in
    the queue in queue order, are exactly the arrival order (`arr` records a client stream id when its first event is
    handed over). -/
theorem queue_fifo (σ : St) (h : Reach σ) (hc : σ.closed = false) : opened σ ++ qkeys σ = σ.arr :=
  ((reach_inv σ h).live hc).arr

/-- After every call the resume loop has run to completion, and a stream is left waiting only if there is no free
    slot (`open_outbound_streams >= limit`). -/
theorem queue_nonempty_implies_no_capacity (σ : St) (h : Reach σ) (hc : σ.closed = false) :
    σ.stack = [] ∧ (σ.queue ≠ [] → σ.noFree = true) := by
  have q := (reach_inv σ h).live hc
  refine ⟨q.st, fun hne => ?_⟩
  rcases q.cap with h1 | h1
  · exact absurd h1 hne
  · exact h1

/-- The capacity test counts what hyper-h2 — and hence the server — still considers open (`open_outbound_streams`),
    not the streams mitmproxy keeps book of (`Http2Connection.streams`, which is only pruned when the SERVER ends or
    resets a stream): a stream the proxy resets upstream itself (a forwarded client RST_STREAM) is closed at once and
    frees its slot, whatever the server does afterwards.  Together with `queue_nonempty_implies_no_capacity` (`noFree` is
    `limit ≤ conn.openCount`): a queued stream is left waiting only while the server's own count is at the limit.
    The second conjunct is true BY DEFINITION (`rfl`): it only spells out what `noFree` counts, it is no finding of its own. -/
theorem reset_frees_slot (σ : St) (o : Nat) :
    (σ.process o .err).conn.closedS o = true ∧
    (σ.noFree = decide (σ.limit ≤ (σ.conn.streams.filter (fun p => !p.2.closed)).length)) := by
  refine ⟨?_, rfl⟩
  simp only [St.process]
  by_cases hc : σ.conn.closedS o = true
  · simp [hc]
  · simp only [hc, Bool.not_false, if_true]
    unfold Conn.closedS at hc ⊢
    have hd : σ.conn.dead = false := by
      cases h : σ.conn.dead with
      | false => rfl
      | true => simp [h] at hc
    cases hg : σ.conn.getS o with
    | none => simp [hg] at hc
    | some st =>
      have hdead : (σ.conn.resetStream o).dead = σ.conn.dead := by
        unfold Conn.resetStream; exact dead_updS _ o _
      have hget : (σ.conn.resetStream o).getS o = some { st with rst := true } := by
        unfold Conn.resetStream
        show (Conn.updS _ o _).getS o = _
        rw [getS_updS]
        simp only [if_true]
        have : ({ σ.conn with bufs := aerase o σ.conn.bufs } : Conn).getS o = some st := hg
        rw [this]; rfl
      rw [hdead, hd, hget]
      simp [Stream.closed]

/-- An upstream stream is only ever opened while fewer streams are open than the limit in force at that moment
    (the server's MAX_CONCURRENT_STREAMS once its SETTINGS have arrived, the provisional 10 before). -/
theorem open_le_limit (σ : St) (h : Reach σ) (hc : σ.closed = false) :
    ∀ a ∈ σ.allocs, a.2.1 < a.2.2 :=
  ((reach_inv σ h).live hc).al

/-- Every response event and every reset passed up to the HTTP layer carries the client stream id whose upstream
    stream it arrived on. -/
theorem response_routed (σ : St) (h : Reach σ) :
    ∀ u ∈ σ.up, ∀ o, u.2.2 = some o → alookup u.1 σ.ours = some o ∧ alookup o σ.theirs = some u.1 := by
  intro u hu o ho
  have inv := reach_inv σ h
  have := inv.up u hu o ho
  exact ⟨this, inv.map.fwd _ _ this⟩

/-- `HttpLayer.streams`: an event is delivered to the stream object registered under its own id, or dropped.  By itself
    this is `alookup` membership; what makes it a statement about mitmproxy is the tie: the driver op `L route sid` runs
    `route` on the table built by `L make` / `L drop` and is compared with every lookup `self.streams[stream_id]` of the
    real HttpLayer (found stream's `stream_id`, or KeyError). -/
theorem route_own_stream {α : Type} (streams : List (Nat × α)) (sid : Nat) (s : α) (h : route streams sid = some s) :
    (sid, s) ∈ streams := alookup_mem sid s streams h

/-- BufferedH2Connection: for every stream, the bytes written to the wire followed by the bytes still buffered are
    exactly what was there before followed by the bytes submitted now (whatever the windows, the frame size and the
    state of the other streams); flushing a stream that may still send — after a WINDOW_UPDATE, a SETTINGS change or
    from the round robin over all buffers — moves bytes from the front of its buffer to the wire and changes nothing
    else. -/
theorem buffered_bytes_conserved (c : Conn) (s sid : Nat) (d : Bytes) (fin : Bool) :
    (c.sendData s d fin).held sid = c.held sid ++ (if s = sid then d else [])
    ∧ (∀ f w sent, (Conn.flushLoop f c s w sent).1.held sid = c.held sid)
    ∧ ((c.liveS s = true ∨ s ≠ sid) → (c.streamWindowUpdated s).1.held sid = c.held sid) :=
  ⟨held_sendData c s sid d fin, fun f w sent => held_flushLoop f c s sid w sent, held_streamWindowUpdated c s sid⟩

/-- … lifted to `connection_window_updated`, the last entry point: the round robin over all buffers (any number of
    rounds, any windows, any order of the dict) conserves, for every well-kept stream, the bytes on the wire followed by
    the bytes still buffered — and leaves the stream well kept.  `StreamOk`: nothing is buffered for a stream that cannot
    send any more, and an end of stream waits behind all its data. -/
theorem buffered_bytes_conserved_connection (c : Conn) (sid : Nat) (h : StreamOk c sid) :
    (∀ f, (Conn.connWindowUpdated f c).held sid = c.held sid ∧ StreamOk (Conn.connWindowUpdated f c) sid)
    ∧ c.connWindowUpdated'.held sid = c.held sid
    ∧ (∀ s, (c.streamWindowUpdated s).1.held sid = c.held sid ∧ StreamOk (c.streamWindowUpdated s).1 sid) :=
  ⟨fun f => connWindowUpdated_ok f c sid h, (connWindowUpdated_ok _ c sid h).1, fun s => streamWindowUpdated_ok c s sid h⟩

/-- `StreamOk` is what the callers keep up: it holds initially and `send_data` (of any size, split at the frame size or
    not) on a stream that may still send and has no end of stream pending keeps it for every stream -/
theorem stream_ok_invariant (c : Conn) (s sid : Nat) (d : Bytes) (fin : Bool) :
    StreamOk Conn.init sid ∧ (CanSubmit c s → StreamOk c sid → StreamOk (c.sendData s d fin) sid) :=
  ⟨⟨fun _ => rfl, trivial⟩, fun hc h => sendData_ok c s sid d fin hc h⟩

/-- `Http2Server` hands every event up with the stream id hyper-h2 reported it on (the identity; which frames belong
    to which stream is hyper-h2's demultiplexing).  `HttpLayer` then looks the id up in `streams`: after any sequence
    of `make_stream` / `DropStream`, the object found under an id is the `HttpStream` that was created FOR that id —
    so the events of a client stream reach exactly the HttpStream registered under its id, or nobody.
    The conclusion follows from the shape of `applyLayerOp` (`.make sid` stores `⟨sid⟩` under `sid`); that the real
    `make_stream` / `DropStream` handling has this shape is the tie: driver ops `L make` / `L drop` replay every
    assignment to and `pop` from the real `HttpLayer.streams` and the whole table (key ↦ `stream_id` of the stored
    HttpStream, in dict order) is compared after each.  Which frames belong to which stream on the client connection
    is hyper-h2's demultiplexing (trusted, exercised by the peer oracle). -/
theorem demux_own_stream (ops : List LayerOp) (sid : Nat) (s : HStream)
    (h : route (ops.foldl applyLayerOp []) sid = some s) : s.id = sid := by
  have inv : ∀ (ops : List LayerOp) (l : List (Nat × HStream)), (∀ p ∈ l, p.2.id = p.1) →
      ∀ p ∈ ops.foldl applyLayerOp l, p.2.id = p.1 := by
    intro ops
    induction ops with
    | nil => intro l hl; exact hl
    | cons op rest ih =>
      intro l hl
      simp only [List.foldl_cons]
      apply ih
      intro p hp
      cases op with
      | make k =>
        have hp' : p ∈ aset k (⟨k⟩ : HStream) l := hp
        rcases mem_aset k ⟨k⟩ l p hp' with h1 | h1
        · subst h1; rfl
        · exact hl p h1
      | drop k =>
        have hp' : p ∈ l.filter (fun q => q.1 != k) := hp
        exact hl p (List.mem_filter.mp hp').1
  have := inv ops [] (by intro p hp; simp at hp) (sid, s) (alookup_mem sid s _ h)
  exact this

/-- trailers wait for the buffered data of their stream, and the end of the stream is not requested twice -/
theorem trailers_after_data (c : Conn) (s : Nat) (hb : c.buf s ≠ []) :
    (c.sendTrailers s).out = c.out ∧ (c.sendTrailers s).trl.contains s = true
    ∧ (c.sendTrailers s).endStream s = c.sendTrailers s := by
  have hne : (c.buf s).isEmpty = false := by cases h : c.buf s <;> simp_all
  have h1 : c.sendTrailers s = { c with trl := if c.trl.contains s then c.trl else c.trl ++ [s] } := by
    simp [Conn.sendTrailers, hne]
  have h2 : (c.sendTrailers s).trl.contains s = true := by
    rw [h1]
    show (if c.trl.contains s = true then c.trl else c.trl ++ [s]).contains s = true
    split
    · assumption
    · simp
  refine ⟨by rw [h1], h2, ?_⟩
  unfold Conn.endStream
  rw [if_pos h2]

/-! ### the hypotheses are satisfiable, the model does queue, resume in order and fail queued streams -/

def ex1 : St := ((St.init.step (.client 1 (.hdr true))).step (.server [.settings (some 1) none none])).step (.client 3 (.hdr true))
def ex2 : St := (ex1.step (.client 5 (.hdr true))).step (.client 3 .eom)

example : Reach ex2 := by
  refine Reach.client _ _ _ (Reach.client _ _ _ (Reach.client _ _ _ (Reach.server _ _ (Reach.client _ _ _ Reach.init ?_)) ?_) ?_) ?_
  all_goals (unfold Good; decide)

example : ex2.ours = [(1, 1)] ∧ qkeys ex2 = [3, 5] ∧ ex2.noFree = true ∧ ex2.closed = false := by decide
/-- the response ends stream 1: both queued streams are opened, in arrival order, each on its own upstream id -/
example : (ex2.step (.server [.settings (some 5) none none, .respHdr 1 true true, .ended 1])).ours = [(1, 1), (3, 3), (5, 5)] := by
  decide
example : (ex2.step (.server [.settings (some 5) none none, .respHdr 1 true true, .ended 1])).conn.out =
    [.hdr 1 true, .hdr 3 true, .hdr 5 true] := by decide
/-- the connection closes: the open stream and both queued streams are failed -/
example : (ex2.step .connClosed).up = [(1, .err, some 1), (3, .err, none), (5, .err, none)] := by decide

/-! ### the callers' discipline, derived

  `CanSubmit` / `StreamOk` are hypotheses of the theorems above about `BufferedH2Connection` alone.  Below they are
  CONSEQUENCES: in every state `Http2Client` can reach (`Reach2`) when the HTTP layer hands over, per stream, the
  request head first and once (`Good`), then body data, at most one set of trailers and one end of message, in this
  order, or an error (`Good2` — the grammar of the `SendHttp` commands `HttpStream` addresses to the server, see
  `httpstream_hands_over_in_order` below for its derivation from the model of C03).  The guard `if self.h2_conn.streams[id].state_machine
  … is_open_for_us` in `Http2Connection._handle_event` is part of the model (`St.process`), not of the hypotheses. -/

/-- every stream is well kept in every reachable state — whatever the windows, the frame size, the other streams, the
    RST_STREAM / GOAWAY / SETTINGS / WINDOW_UPDATE the server sends, the queueing under MAX_CONCURRENT_STREAMS -/
theorem stream_ok_reachable (σ : St) (h : Reach2 σ) (sid : Nat) : StreamOk σ.conn sid :=
  (reach2_sub σ h).ok sid

/-- whenever `Http2Client` is about to submit body data for a stream (nothing but the head and data handed over so
    far, hyper-h2 still lets us send) `CanSubmit` holds; likewise when it is about to end the stream without trailers
    waiting -/
theorem can_submit_derived (σ : St) (h : Reach2 σ) (t o : Nat) (ho : alookup t σ.ours = some o)
    (hl : σ.conn.liveS o = true) :
    (E2 (fwOf t σ) = false → CanSubmit σ.conn o) ∧
    (E1 (fwOf t σ) = false → ¬ σ.conn.trl.contains o = true → CanSubmit σ.conn o) := by
  have k := (reach2_sub σ h).keeps t o ho
  refine ⟨fun h2 => ⟨hl, (k hl).2.1 (by rw [h2]; rfl)⟩, fun h1 hnt => ?_⟩
  exact can_of_keeps_end σ.conn o _ _ hl (fun ht => by rw [open_of_E1_hasT _ h1 ht]; rfl) k hnt

/-- `buffered_bytes_conserved_connection` without its hypothesis: in every reachable state, for every stream, the
    round robin and the per-stream flush conserve the bytes on the wire followed by the bytes still buffered -/
theorem buffered_bytes_conserved_reachable (σ : St) (h : Reach2 σ) (sid : Nat) :
    (∀ f, (Conn.connWindowUpdated f σ.conn).held sid = σ.conn.held sid)
    ∧ σ.conn.connWindowUpdated'.held sid = σ.conn.held sid
    ∧ (∀ s, (σ.conn.streamWindowUpdated s).1.held sid = σ.conn.held sid) :=
  have ok := stream_ok_reachable σ h sid
  ⟨fun f => (connWindowUpdated_ok f σ.conn sid ok).1, (connWindowUpdated_ok _ σ.conn sid ok).1,
   fun s => (streamWindowUpdated_ok σ.conn s sid ok).1⟩

/-- `Reach2` only restricts `Reach`: every theorem above about reachable states applies -/
theorem reach2_is_reach (σ : St) (h : Reach2 σ) : Reach σ := reach2_reach σ h

/-! ### … and the order itself, derived from the model of `HttpStream` (C03)

  `C03.srvEvents` reads the `SendHttp(…, context.server)` commands off the trace of the C03 model (`Out.send false`
  with the tags rh / rd / rt / re / rx) as the events `Http2Client` is handed (payloads dropped). -/

/-- in EVERY run of the model of `HttpStream` (any inputs in any order, any addon actions, any body-size verdicts, any
    interleaving with `_paused_event_queue`, with or without streaming) the events handed to the server connection
    keep the order `Reach2` assumes: every one of them is `allowed` after those before it (`GramOk`), and the first —
    and only the first — is the request head (`hdrFirst`) -/
theorem httpstream_hands_over_in_order (l t : Nat) (evs : List C03.Ev) :
    GramOk (C03.srvEvents (C03.run l t evs).trace) ∧
    (C03.srvEvents (C03.run l t evs).trace = [] ∨ hdrFirst (C03.srvEvents (C03.run l t evs).trace)) :=
  C03.srvEvents_grammar l t evs

/-- an event without its payload (the order does not depend on it) -/
def shape : Ev → Ev
  | .hdr _ => .hdr false
  | .data _ => .data []
  | e => e

private theorem any_shape (l : List Ev) (f : Ev → Bool) (hf : ∀ e, f (shape e) = f e) : (l.map shape).any f = l.any f := by
  induction l with
  | nil => rfl
  | cons a rest ih => simp [List.any_cons, hf a, ih]

private theorem allowed_shape (pre : List Ev) (ev : Ev) : allowed (pre.map shape) (shape ev) = allowed pre ev := by
  have h2 : E2 (pre.map shape) = E2 pre := any_shape pre _ (by intro e; cases e <;> rfl)
  have h1 : E1 (pre.map shape) = E1 pre := any_shape pre _ (by intro e; cases e <;> rfl)
  cases ev <;> simp [allowed, shape, h1, h2]

/-- `Good2` discharged: if what the client model was handed for stream `t`, followed by the next event, is — payloads
    aside — the beginning of what some run of the `HttpStream` model hands to the server connection, the next event
    is in order -/
theorem good2_from_httpstream (σ : St) (t : Nat) (ev : Ev) (l tt : Nat) (evs : List C03.Ev) (post : List Ev)
    (h : C03.srvEvents (C03.run l tt evs).trace = (evsOf t σ.sub ++ ev :: post).map shape) : Good2 σ t ev := by
  have g := (httpstream_hands_over_in_order l tt evs).1
  have := g ((evsOf t σ.sub).map shape) (shape ev) (post.map shape) (by rw [h]; simp)
  unfold Good2
  rw [← allowed_shape]; exact this

/-! ### whole-history form of the byte conservation -/

/-- In EVERY reachable state (`Reach`: any interleaving of client events, received segments with WINDOW_UPDATE / SETTINGS
    / RST_STREAM / GOAWAY, queueing, the resume loop), for every client stream `t` with upstream id `o`: the DATA bytes
    written to the wire on `o` (`dataOf o out` — what the server decodes on that stream) followed by the bytes still
    buffered for `o` are a prefix of the body data the HTTP layer handed over for `t` and `Http2Client` passed on —
    nothing of another stream, nothing twice, nothing out of order — and ALL of it as long as hyper-h2 still lets us
    send on `o`; and no DATA was ever written on an id not yet allocated. -/
theorem upstream_bytes_own_stream (σ : St) (h : Reach σ) (t o : Nat) (ho : alookup t σ.ours = some o) :
    σ.conn.held o <+: dataBytes (fwOf t σ)
    ∧ dataOf o σ.conn.out <+: dataBytes (fwOf t σ)
    ∧ (σ.conn.liveS o = true → σ.conn.held o = dataBytes (fwOf t σ))
    ∧ (∀ x, σ.nextId ≤ x → dataOf x σ.conn.out = []) := by
  have b := reach_b σ h
  have k := b.pb t o ho
  refine ⟨k.1, (List.prefix_append _ _).trans k.1, k.2, fun x hx => ?_⟩
  have := b.fresh x hx
  unfold Conn.held at this
  exact (List.append_eq_nil_iff.mp this).1

/-- … and that is a prefix of the body data submitted for `t` (the rest is still queued or being handled) -/
theorem upstream_bytes_prefix_of_submitted (σ : St) (h : Reach σ) (hc : σ.closed = false) (t o : Nat)
    (ho : alookup t σ.ours = some o) : dataOf o σ.conn.out <+: dataBytes (evsOf t σ.sub) := by
  have c := ((reach_inv σ h).live hc).cons t
  rw [← c, List.append_assoc, dataBytes_append]
  exact (upstream_bytes_own_stream σ h t o ho).2.1.trans (List.prefix_append _ _)

/-! ### `Good` discharged too -/

private theorem isHdr_shape (e : Ev) : (shape e).isHdr = e.isHdr := by cases e <;> rfl

/-- a client stream is unknown to `Http2Client` (no upstream id, not queued) exactly when nothing was handed over for it -/
theorem fresh_iff_nothing_handed_over (σ : St) (h : Reach σ) (hc : σ.closed = false) (t : Nat) :
    (alookup t σ.ours = none ∧ t ∉ qkeys σ) ↔ evsOf t σ.sub = [] :=
  fresh_iff_nothing_submitted σ h hc t

/-- `Good` discharged: if what the client model was handed for stream `t`, followed by the next event, is — payloads
    aside — the beginning of what some run of the `HttpStream` model hands to the server connection, the next event is
    the request head exactly when the stream is new.  Together with `good2_from_httpstream`: both hypotheses of `Reach2`
    are properties of the C03 model. -/
theorem good_from_httpstream (σ : St) (h : Reach σ) (hc : σ.closed = false) (t : Nat) (ev : Ev) (l tt : Nat)
    (evs : List C03.Ev) (post : List Ev)
    (hsrc : C03.srvEvents (C03.run l tt evs).trace = (evsOf t σ.sub ++ ev :: post).map shape) : Good σ t ev := by
  have hf := fresh_iff_nothing_submitted σ h hc t
  have hh := (httpstream_hands_over_in_order l tt evs).2
  rw [hsrc] at hh
  have hne : (evsOf t σ.sub ++ ev :: post).map shape ≠ [] := by simp
  rcases hh with hh | hh
  · exact absurd hh hne
  · obtain ⟨fin, rest, he, hr⟩ := hh
    unfold Good
    constructor
    · intro hfr
      have hpre := hf.mp hfr
      rw [hpre] at he
      simp only [List.nil_append, List.map_cons, List.cons.injEq] at he
      rw [← isHdr_shape, he.1]; rfl
    · intro hev
      apply hf.mpr
      cases hp : evsOf t σ.sub with
      | nil => rfl
      | cons p ps =>
        exfalso
        rw [hp] at he
        simp only [List.cons_append, List.map_cons, List.cons.injEq] at he
        have hmem : shape ev ∈ rest := by rw [← he.2]; simp
        have := hr _ hmem
        rw [isHdr_shape, hev] at this
        cases this

/-! ### audit round 6 (cross-audit by b-c04): non-vacuity witnesses on a state with BUFFERED data

  The server lowers INITIAL_WINDOW_SIZE to 3, stream 1 is opened and hands over 5 body bytes: 3 go out, 2 are buffered.
  This instantiates the hypotheses of the BufferedH2Connection theorems (`StreamOk`, `CanSubmit`, `c.buf s ≠ []`, `Reach2`,
  `liveS`, `E2 … = false`) and of the C03 glue theorems (`good2_from_httpstream`, `good_from_httpstream`) on concrete,
  non-initial values. -/

def au3 : St :=
  ((St.init.step (.server [.settings none (some 3) none])).step (.client 1 (.hdr false))).step (.client 1 (.data [1, 2, 3, 4, 5]))

private theorem au3_reach2 : Reach2 au3 := by
  refine Reach2.client _ _ _ (Reach2.client _ _ _ (Reach2.server _ _ Reach2.init) ?_ ?_) ?_ ?_
  all_goals first | (unfold Good; decide) | (unfold Good2; decide)

example : au3.conn.out = [.hdr 1 false, .data 1 [1, 2, 3] false] ∧ au3.conn.buf 1 = [⟨[4, 5], false⟩] ∧
    au3.conn.liveS 1 = true ∧ au3.closed = false ∧ alookup 1 au3.ours = some 1 := by decide
-- hypotheses of buffered_bytes_conserved_connection / stream_ok_invariant / trailers_after_data / can_submit_derived
example : StreamOk au3.conn 1 := stream_ok_reachable au3 au3_reach2 1
example : CanSubmit au3.conn 1 := (can_submit_derived au3 au3_reach2 1 1 (by decide) (by decide)).1 (by decide)
example : au3.conn.buf 1 ≠ [] := by decide
example : ((au3.conn.sendTrailers 1).out = au3.conn.out) := (trailers_after_data au3.conn 1 (by decide)).1
-- the conservation statements say something here: 5 bytes held, 3 of them on the wire; a WINDOW_UPDATE moves the rest
example : au3.conn.held 1 = [1, 2, 3, 4, 5] ∧ dataOf 1 au3.conn.out = [1, 2, 3] ∧ dataBytes (fwOf 1 au3) = [1, 2, 3, 4, 5] := by decide
example : dataOf 1 (au3.step (.server [.winUpd 1 10])).conn.out = [1, 2, 3, 4, 5] ∧
    (au3.step (.server [.winUpd 1 10])).conn.buf 1 = [] := by decide
-- … and the model does refuse: the same data on a stream the server has reset is not sent
example : ((au3.step (.server [.reset 1])).step (.client 1 (.data [9]))).conn.out = au3.conn.out := by decide

/-- a run of the C03 model of HttpStream that hands four events to the server connection (head, data, trailers, end) -/
def auH2 : List C03.Ev :=
  [.reqHeaders false 0 .norm false, .reqData 3, .hookDone .requestheaders .pass, .reqTrailers, .reqEOM,
   .hookDone .request .pass, .connDone true]

example : C03.srvEvents (C03.run 0 0 auH2).trace = [.hdr false, .data [], .trailers, .eom] := by decide
-- the hypothesis `hsrc` of good2_from_httpstream / good_from_httpstream holds for au3, next event = trailers
example : Good2 au3 1 .trailers := good2_from_httpstream au3 1 .trailers 0 0 auH2 [.eom] (by decide)
example : Good au3 1 .trailers :=
  good_from_httpstream au3 (reach2_is_reach au3 au3_reach2) (by decide) 1 .trailers 0 0 auH2 [.eom] (by decide)

-- audit note: the `crashed` flag (KeyError in `their_stream_id[...]`) IS reachable in the model under `Reach`, for a segment
-- hyper-h2 would never report (trailers on a stream id that was never opened); "cannot happen" rests on hyper-h2, not on a theorem
example : (St.init.step (.server [.respTrailers 7])).crashed = true ∧ Reach (St.init.step (.server [.respTrailers 7])) :=
  ⟨by decide, Reach.server _ _ Reach.init⟩

/-! ### owner fixes after the round-6 audit -/

/-- … and likewise when it is a RECEIVED SEGMENT that makes the connection go away (GOAWAY, a protocol error, a response
    head mitmproxy refuses): in every reachable state, if handling the segment closes the connection, every stream
    still waiting for a slot is failed.  With `no_stream_lost_on_close` (the transport closing) these are the only two
    inputs that close the connection: a client event never does (`step_client_inv`). -/
theorem no_stream_lost_on_segment_close (σ : St) (h : Reach σ) (hc : σ.closed = false) (evs : List SEv)
    (hcl : (σ.step (.server evs)).closed = true) :
    ∀ t ∈ qkeys σ, (t, UpKind.err, none) ∈ (σ.step (.server evs)).up := by
  have hI := reach_inv σ h
  have hq := hI.live hc
  let σa : St := { σ with conn := σ.conn.absorb evs,
                          maxc := evs.foldl (fun m e => match e with | .settings (some v) _ _ => v | _ => m) σ.maxc }
  have hsa : Same σ σa := ⟨rfl, rfl, rfl, rfl, rfl, rfl, rfl, rfl, rfl⟩
  have hb := handleAll_ok evs σa (mapInv_of_same hsa hI.map) hI.up
  have hsb : Same σ (St.handleAll σa evs) := hsa.trans hb.1
  have hstep : σ.step (.server evs) = (if (St.handleAll σa evs).closed = true then (St.handleAll σa evs).failQueued
      else St.drain ((St.handleAll σa evs).resume.pending + 1) (St.handleAll σa evs).resume) := by
    simp only [St.step]
    rw [if_neg (by rw [hc]; simp)]
    rfl
  rw [hstep] at hcl ⊢
  by_cases hcb : (St.handleAll σa evs).closed = true
  · simp only [hcb, if_true]
    intro t ht
    simp only [St.failQueued, hsb.queue]
    apply List.mem_append_right
    simp only [qkeys, List.mem_map] at ht ⊢
    obtain ⟨p, hp, rfl⟩ := ht
    exact ⟨p, hp, rfl⟩
  · exfalso
    have hcbf : (St.handleAll σa evs).closed = false := by simpa using hcb
    rw [if_neg hcb] at hcl
    have hmid := midInv_of_same hsb hb.2 hq
    have hdr := resume_inv _ hmid
    have hcl2 : (St.handleAll σa evs).resume.closed = false := by rw [(resume_pending _).2]; exact hcbf
    have := (drain_inv ((St.handleAll σa evs).resume.pending + 1) _ hdr hcl2 (by omega)).2
    rw [this] at hcl; cases hcl

/-- a client event never closes the connection -/
theorem client_event_never_closes (σ : St) (h : Reach σ) (hc : σ.closed = false) (t : Nat) (ev : Ev) (hg : Good σ t ev) :
    (σ.step (.client t ev)).closed = false :=
  (step_client_inv σ t ev ((reach_inv σ h).live hc) hc hg).2

/-- **crashed_only_by_unknown_trailers.** The `KeyError` branch of the stream-id translation (`crashed`) is never taken in
    any history in which hyper-h2 reports received trailers only for stream ids that were opened on this connection
    (`ReachT` = `Reach` + that one assumption, `TrOk`): every other lookup is guarded by `Http2Connection.streams`, whose
    keys all have a client stream id.  Without the assumption it IS reachable (the auditor's witness: `.respTrailers 7`
    on a fresh connection) — that hyper-h2 never reports such an event is trusted, and watched by the lock-step `X=` flag. -/
theorem crashed_only_by_unknown_trailers (σ : St) (h : ReachT σ) : σ.crashed = false ∧ Reach σ :=
  ⟨(reachT_c σ h).ok, reachT_reach σ h⟩

end MitmVerif.Props.C05
