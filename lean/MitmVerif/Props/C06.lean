import MitmVerif.Model.C06
namespace MitmVerif.Props.C06
open MitmVerif MitmVerif.C06

theorem placeholder : True := trivial

end MitmVerif.Props.C06
