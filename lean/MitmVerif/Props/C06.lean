/-
  C06 — translating between HTTP versions preserves message semantics: the property theorems.

  `h2_to_h1_single_message`  an HTTP/2 header block that hyper-h2's validator accepts (`h2ValidReq`), that
        `parse_h2_request_headers` and `validate_request` accept, with a buffered body obeying hyper-h2's
        content-length law, is written to an HTTP/1 server as bytes that the strict reference reader reads as
        EXACTLY ONE message with the same method, path, fields and body;
  `h2_to_h1_host`, `h2_to_h1_cookie`, `h2_to_h1_other_fields`  what the field list of that message is: Host from
        :authority, Cookie fields joined with "; ", every other end-to-end field unchanged and in order;
  `h1_to_h2`  the HTTP/2 header block written for an HTTP/1 request decodes to the same request (Host moved to
        :authority, names lower-cased, connection-specific fields dropped, nothing else);
  `h2_to_h2`  parse followed by format is the identity on the message;
  `status_preserved`  the status code survives every conversion of a response.
-/
import MitmVerif.Lemmas.C06
namespace MitmVerif.Props.C06
open MitmVerif MitmVerif.C06

/-! ### what the hypotheses give -/

private theorem valid_values (b : Block) (hv : h2ValidReq b = true) :
    ∀ f ∈ b, ∀ c ∈ f.2, c ≠ 0 ∧ c ≠ 10 ∧ c ≠ 13 := by
  intro f hf c hc
  simp only [h2ValidReq, Bool.and_eq_true] at hv
  have h1 := (List.all_eq_true.mp hv.1.1.1.1) f hf
  simp only [fieldOk, Bool.and_eq_true, h2ValueOk] at h1
  have := (List.all_eq_true.mp h1.1.1.1.2.1.1) c hc
  simp at this
  exact ⟨this.1.1, this.1.2, this.2⟩

private theorem parse_parts (authOk : Bool) (b : Block) (r : Req) (hp : parseH2Request authOk b = some r) :
    (pMethod, r.method) ∈ b ∧ (pPath, r.path) ∈ b ∧ (r.authority = [] ∨ (pAuthority, r.authority) ∈ b)
      ∧ ∀ f ∈ r.fields, f ∈ b := by
  unfold parseH2Request at hp
  cases hs : splitPseudo b [] with
  | none => simp [hs] at hp
  | some pf =>
    obtain ⟨ps, fs⟩ := pf
    have hmem := splitPseudo_mem b [] ps fs hs
    have hps : ∀ f ∈ ps, f ∈ b := fun f hf => by
      rcases hmem.1 f hf with h | h
      · simp at h
      · exact h
    simp only [hs] at hp
    cases hm : lookup pMethod ps with
    | none => simp [hm] at hp
    | some m =>
      cases hsc : lookup pScheme ps with
      | none => simp [hm, hsc] at hp
      | some sc =>
        cases hpa : lookup pPath ps with
        | none => simp [hm, hsc, hpa] at hp
        | some pa =>
          simp only [hm, hsc, hpa] at hp
          split at hp
          · simp at hp
          · split at hp
            · simp at hp
            · simp at hp
              subst hp
              refine ⟨hps _ (lookup_mem _ _ _ hm), hps _ (lookup_mem _ _ _ hpa), ?_, hmem.2⟩
              cases ha : lookup pAuthority ps with
              | none => left; simp
              | some a => right; simpa using hps _ (lookup_mem _ _ _ ha)

private theorem validate_parts (r : Req) (hval : validateRequest r false = true) :
    r.method ≠ [] ∧ (∀ c ∈ r.method, isLineWs c = false) ∧ (∀ c ∈ r.path, isLineWs c = false)
      ∧ (∀ f ∈ r.fields, isToken f.1 = true)
      ∧ r.fields.filter (nameIs sTE) = []
      ∧ ((r.fields.filter (nameIs sCL)) = [] ∨ ∃ g, r.fields.filter (nameIs sCL) = [g] ∧ clStrict g.2 = true) := by
  simp only [validateRequest, Bool.and_eq_true] at hval
  obtain ⟨⟨⟨⟨⟨_, _⟩, hm1⟩, hm2⟩, hp⟩, hh⟩ := hval
  simp only [validateHeaders, Bool.and_eq_true] at hh
  obtain ⟨hall, hfr⟩ := hh
  refine ⟨?_, ?_, ?_, ?_, ?_, ?_⟩
  · intro e; rw [e] at hm1; simp at hm1
  · intro c hc
    cases h : isLineWs c with
    | false => rfl
    | true => exact absurd (List.any_eq_true.mpr ⟨c, hc, h⟩) (by simpa using hm2)
  · intro c hc
    cases h : isLineWs c with
    | false => rfl
    | true => exact absurd (List.any_eq_true.mpr ⟨c, hc, h⟩) (by simpa using hp)
  · intro f hf
    have := (List.all_eq_true.mp hall) f hf
    simp only [Bool.and_eq_true] at this
    exact this.1
  · cases hte : r.fields.filter (nameIs sTE) with
    | nil => rfl
    | cons t ts =>
      exfalso
      simp only [hte, List.map_cons] at hfr
      cases ts <;> simp at hfr
  · cases hte : r.fields.filter (nameIs sTE) with
    | cons t ts =>
      exfalso
      simp only [hte, List.map_cons] at hfr
      cases ts <;> simp at hfr
    | nil =>
      simp only [hte, List.map_nil] at hfr
      cases hcl : r.fields.filter (nameIs sCL) with
      | nil => left; rfl
      | cons g gs =>
        right
        cases gs with
        | nil => exact ⟨g, rfl, by simpa [hcl] using hfr⟩
        | cons g2 gs2 => simp [hcl] at hfr

/-! ### the field list written to the HTTP/1 server -/

private theorem cookie_ne (n : Bytes) (hn : n ≠ sCookieL) (f : Field) (h : (lower f.1 == lower sCookieL) = true) :
    nameIs n f = false := by
  have e : lower sCookieL = sCookieL := by decide
  rw [e] at h
  have : lower f.1 = sCookieL := by simpa using h
  simp [nameIs, this]
  exact fun h2 => hn h2.symm

private theorem filter_joinCookies (n : Bytes) (hn : n ≠ sCookieL) (fs : List Field) :
    (joinCookies fs).filter (nameIs n) = fs.filter (nameIs n) := by
  rw [joinCookies_def]
  split
  · apply setAll_filter
    · intro f hf v; exact cookie_ne n hn (f.1, v) hf
    · have : nameIs n (sCookieL, joinWith sSemiSp (cookieValues fs)) = false := by
        have e : lower sCookieL = sCookieL := by decide
        simp [nameIs, e]; exact fun h => hn h.symm
      exact this
    · intro f hf; exact cookie_ne n hn f hf
  · rfl

private theorem filter_insertHost (n : Bytes) (hn : n ≠ sHostL) (r : Req) :
    (insertHost r).filter (nameIs n) = r.fields.filter (nameIs n) := by
  unfold insertHost
  split
  · have : nameIs n (sHost, r.authority) = false := by
      have e : lower sHost = sHostL := by decide
      simp [nameIs, e]; exact fun h => hn h.symm
    simp [List.filter_cons, this]
  · rfl

private theorem hasName_iff (n : Bytes) (fs : List Field) : hasName n fs = !(fs.filter (nameIs n)).isEmpty := by
  induction fs with
  | nil => rfl
  | cons f rest ih =>
    simp only [hasName, List.any_cons, List.filter_cons] at ih ⊢
    cases h : nameIs n f <;> simp [h, ih]

/-- the Content-Length / Transfer-Encoding fields of the converted request -/
private theorem framing_fields (r : Req) (body : Bytes) (hte : r.fields.filter (nameIs sTE) = []) :
    (toH1Fields r body).filter (nameIs sTE) = [] ∧
    (toH1Fields r body).filter (nameIs sCL) =
      (if r.fields.filter (nameIs sCL) = [] ∧ body ≠ [] then [(sCL, natDec body.length)]
       else r.fields.filter (nameIs sCL)) := by
  have hte' : (joinCookies (insertHost r)).filter (nameIs sTE) = [] := by
    rw [filter_joinCookies sTE (by decide), filter_insertHost sTE (by decide), hte]
  have hcl' : (joinCookies (insertHost r)).filter (nameIs sCL) = r.fields.filter (nameIs sCL) := by
    rw [filter_joinCookies sCL (by decide), filter_insertHost sCL (by decide)]
  unfold toH1Fields addFraming
  rw [hasName_iff, hasName_iff, hte', hcl']
  by_cases hb : body = []
  · subst hb
    simp [hte', hcl']
  · have hbe : body.isEmpty = false := by cases body <;> simp_all
    cases hc : r.fields.filter (nameIs sCL) with
    | nil =>
      have h1 : nameIs sTE (sCL, natDec body.length) = false := by
        have : lower sCL = sCL := by decide
        simp [nameIs, this]; decide
      have h2 : nameIs sCL (sCL, natDec body.length) = true := by
        have : lower sCL = sCL := by decide
        simp [nameIs, this]
      simp [hbe, hb, List.filter_append, hte', hcl', hc, h1, h2]
    | cons g gs => simp [hbe, hte', hcl', hc]

private theorem joined_clean (authOk : Bool) (b : Block) (r : Req)
    (hv : h2ValidReq b = true) (hp : parseH2Request authOk b = some r) (hval : validateRequest r false = true) :
    ∀ f ∈ joinCookies (insertHost r), fieldClean f := by
  have vv := valid_values b hv
  have pp := parse_parts authOk b r hp
  have tok := (validate_parts r hval).2.2.2.1
  have hfields : ∀ f ∈ r.fields, fieldClean f := fun f hf => ⟨tok f hf, vv f (pp.2.2.2 f hf)⟩
  have hins : ∀ f ∈ insertHost r, fieldClean f := by
    intro f hf
    unfold insertHost at hf
    split at hf
    · rcases List.mem_cons.mp hf with h | h
      · subst h
        refine ⟨(by decide : isToken sHost = true), ?_⟩
        rcases pp.2.2.1 with ha | ha
        · intro c hc; rw [ha] at hc; simp at hc
        · exact vv (pAuthority, r.authority) ha
      · exact hfields f h
    · exact hfields f hf
  have hjoinval : ∀ (vs : List Bytes), (∀ v ∈ vs, ∀ c ∈ v, c ≠ 0 ∧ c ≠ 10 ∧ c ≠ 13) →
      ∀ c ∈ joinWith sSemiSp vs, c ≠ 0 ∧ c ≠ 10 ∧ c ≠ 13 := by
    intro vs
    induction vs with
    | nil => intro _ c hc; simp [joinWith] at hc
    | cons v rest ih =>
      intro h c hc
      cases rest with
      | nil => simp [joinWith] at hc; exact h v (by simp) c hc
      | cons w ws =>
        simp only [joinWith] at hc
        rcases List.mem_append.mp hc with h1 | h1
        · rcases List.mem_append.mp h1 with h2 | h2
          · exact h v (by simp) c h2
          · have : c = 59 ∨ c = 32 := by simpa [sSemiSp] using h2
            rcases this with e | e <;> (subst e; decide)
        · exact ih (fun x hx => h x (by simp [hx])) c h1
  have hjoin : ∀ f ∈ joinCookies (insertHost r), fieldClean f := by
    intro f hf
    rw [joinCookies_def] at hf
    split at hf
    · rcases setAll_mem _ _ _ _ f hf with h | ⟨h1, h2⟩
      · exact hins f h
      · refine ⟨?_, ?_⟩
        · rcases h2 with h2 | ⟨g, hg, hg2⟩
          · rw [h2]; decide
          · rw [← hg2]; exact (hins g hg).1
        · rw [h1]
          apply hjoinval
          intro v hv'
          simp only [cookieValues, List.mem_map, List.mem_filter] at hv'
          obtain ⟨g, ⟨hg, _⟩, rfl⟩ := hv'
          exact (hins g hg).2
    · exact hins f hf
  exact hjoin

private theorem toH1_clean (authOk : Bool) (b : Block) (r : Req) (body : Bytes)
    (hv : h2ValidReq b = true) (hp : parseH2Request authOk b = some r) (hval : validateRequest r false = true) :
    ∀ f ∈ toH1Fields r body, fieldClean f := by
  have hjoin := joined_clean authOk b r hv hp hval
  intro f hf
  unfold toH1Fields addFraming at hf
  split at hf
  · rcases List.mem_append.mp hf with h | h
    · exact hjoin f h
    · simp at h; subst h
      refine ⟨(by decide : isToken sCL = true), ?_⟩
      intro c hc
      have := (natDigits_foldl (body.length + 1) body.length (by omega)).2.2 c hc
      have hd := this.1
      refine ⟨?_, ?_, ?_⟩ <;> (intro e; subst e; revert hd; decide)
  · exact hjoin f hf

/-! ### the theorems -/

/-- hyper-h2's content-length law for a buffered body (`_track_content_length`): a content-length field that came
    with DATA frames equals the number of body bytes. -/
def ClLaw (r : Req) (body : Bytes) : Prop :=
  ∀ g, r.fields.filter (nameIs sCL) = [g] → Ref.parseDec g.2 = some body.length

theorem h2_to_h1_single_message (authOk : Bool) (b : Block) (body : Bytes) (r : Req)
    (hv : h2ValidReq b = true) (hp : parseH2Request authOk b = some r)
    (hval : validateRequest r false = true) (hcl : ClLaw r body) :
    h2ToH1 authOk b body = some (assembleRequestHead r.method r.path sHttp11 (toH1Fields r body) ++ body) ∧
    Ref.parse (assembleRequestHead r.method r.path sHttp11 (toH1Fields r body) ++ body)
      = some [⟨r.method, r.path, sHttp11, (toH1Fields r body).map readBack, body⟩] := by
  refine ⟨by simp [h2ToH1, hp, hval], ?_⟩
  have vp := validate_parts r hval
  have pp := parse_parts authOk b r hp
  have hpath : r.path ≠ [] := by
    simp only [h2ValidReq, Bool.and_eq_true] at hv
    have := (List.all_eq_true.mp hv.2) r.path (by
      simp only [valuesOf, List.mem_map, List.mem_filter]
      exact ⟨(pPath, r.path), ⟨pp.2.1, by simp⟩, rfl⟩)
    intro e; rw [e] at this; simp at this
  have hclean := toH1_clean authOk b r body hv hp hval
  have ff := framing_fields r body vp.2.2.2.2.1
  have hte : ((toH1Fields r body).map readBack).filter (nameIs sTE) = [] := by
    rw [filter_readBack, ff.1]; rfl
  have hclf : ((toH1Fields r body).map readBack).filter (nameIs sCL)
      = ((toH1Fields r body).filter (nameIs sCL)).map readBack := filter_readBack _ _
  -- the framing the reference reader derives, by cases on the client's content-length field
  have key : ∃ fr, Ref.framing sHttp11 ((toH1Fields r body).map readBack) = some fr ∧
      ((fr = .none ∧ body = []) ∨ fr = .cl body.length) := by
    rcases vp.2.2.2.2.2 with hnone | ⟨g, hg, hstrict⟩
    · by_cases hb : body = []
      · refine ⟨.none, ?_, Or.inl ⟨rfl, hb⟩⟩
        apply framing_none _ hte
        rw [hclf, ff.2]; simp [hnone, hb]
      · refine ⟨.cl body.length, ?_, Or.inr rfl⟩
        have hd := (natDigits_foldl (body.length + 1) body.length (by omega)).2.2
        have hdig : ∀ c ∈ natDec body.length, isDigit c = true := fun c hc => (hd c hc).1
        apply framing_cl _ (natDec body.length) body.length hte _ hdig (parseDec_natDec _)
        rw [hclf, ff.2]
        simp [hnone, hb, readBack, (digits_item _ hdig).2]
    · refine ⟨.cl body.length, ?_, Or.inr rfl⟩
      have hdig : ∀ c ∈ g.2, isDigit c = true := clStrict_digits g.2 hstrict
      apply framing_cl _ g.2 body.length hte _ hdig (hcl g hg)
      rw [hclf, ff.2]
      simp [hg, readBack, (digits_item _ hdig).2]
  obtain ⟨fr, hfr, hb⟩ := key
  exact ref_parse_assembled r.method r.path (toH1Fields r body) body fr vp.2.1 vp.2.2.1 vp.1 hpath hclean hfr hb

/-! ### the streamed conversion (flow.request.stream) -/

/-- The full statement for the STREAMED conversion: whatever the DATA frames, the HTTP/1 bytes are one message with
    the body that was sent.  It is FALSE for the code as it is (finding F-C06a) — see `_counterexample` — and holds
    exactly where the head carries a content-length or there is no body (`_partial`). -/
def h2_to_h1_streamed_single_message : Prop :=
  ∀ (authOk : Bool) (b : Block) (chunks : List Bytes) (r : Req),
    h2ValidReq b = true → parseH2Request authOk b = some r → validateRequest r false = true → ClLaw r chunks.flatten →
    Ref.parse (assembleRequestHead r.method r.path sHttp11 (toH1FieldsStreamed r) ++ chunks.flatten)
      = some [⟨r.method, r.path, sHttp11, (toH1FieldsStreamed r).map readBack, chunks.flatten⟩]

/-- the decidable guard that excludes exactly the defect class F-C06a: a streamed body without content-length -/
def streamedFramed (r : Req) (chunks : List Bytes) : Bool := hasName sCL r.fields || chunks.flatten.isEmpty

theorem h2_to_h1_streamed_single_message_partial (authOk : Bool) (b : Block) (chunks : List Bytes) (r : Req)
    (hv : h2ValidReq b = true) (hp : parseH2Request authOk b = some r)
    (hval : validateRequest r false = true) (hcl : ClLaw r chunks.flatten)
    (hg : streamedFramed r chunks = true) :
    h2ToH1Streamed authOk b chunks
      = some (assembleRequestHead r.method r.path sHttp11 (toH1FieldsStreamed r) ++ chunks.flatten) ∧
    Ref.parse (assembleRequestHead r.method r.path sHttp11 (toH1FieldsStreamed r) ++ chunks.flatten)
      = some [⟨r.method, r.path, sHttp11, (toH1FieldsStreamed r).map readBack, chunks.flatten⟩] := by
  refine ⟨by simp [h2ToH1Streamed, hp, hval], ?_⟩
  have vp := validate_parts r hval
  have pp := parse_parts authOk b r hp
  have hpath : r.path ≠ [] := by
    simp only [h2ValidReq, Bool.and_eq_true] at hv
    have := (List.all_eq_true.mp hv.2) r.path (by
      simp only [valuesOf, List.mem_map, List.mem_filter]
      exact ⟨(pPath, r.path), ⟨pp.2.1, by simp⟩, rfl⟩)
    intro e; rw [e] at this; simp at this
  have hclean : ∀ f ∈ toH1FieldsStreamed r, fieldClean f := joined_clean authOk b r hv hp hval
  have hte : ((toH1FieldsStreamed r).map readBack).filter (nameIs sTE) = [] := by
    rw [filter_readBack]
    show ((joinCookies (insertHost r)).filter (nameIs sTE)).map readBack = []
    rw [filter_joinCookies sTE (by decide), filter_insertHost sTE (by decide), vp.2.2.2.2.1]; rfl
  have hclf : ((toH1FieldsStreamed r).map readBack).filter (nameIs sCL)
      = (r.fields.filter (nameIs sCL)).map readBack := by
    rw [filter_readBack]
    show ((joinCookies (insertHost r)).filter (nameIs sCL)).map readBack = _
    rw [filter_joinCookies sCL (by decide), filter_insertHost sCL (by decide)]
  have key : ∃ fr, Ref.framing sHttp11 ((toH1FieldsStreamed r).map readBack) = some fr ∧
      ((fr = .none ∧ chunks.flatten = []) ∨ fr = .cl chunks.flatten.length) := by
    rcases vp.2.2.2.2.2 with hnone | ⟨g, hg', hstrict⟩
    · -- no content-length: the guard says there is no body
      have hb : chunks.flatten = [] := by
        simp only [streamedFramed, Bool.or_eq_true] at hg
        rcases hg with h1 | h1
        · rw [hasName_iff, hnone] at h1; simp at h1
        · simpa using h1
      refine ⟨.none, ?_, Or.inl ⟨rfl, hb⟩⟩
      apply framing_none _ hte
      rw [hclf, hnone]; rfl
    · refine ⟨.cl chunks.flatten.length, ?_, Or.inr rfl⟩
      have hdig : ∀ c ∈ g.2, isDigit c = true := clStrict_digits g.2 hstrict
      apply framing_cl _ g.2 chunks.flatten.length hte _ hdig (hcl g hg')
      rw [hclf, hg']
      simp [readBack, (digits_item _ hdig).2]
  obtain ⟨fr, hfr, hb⟩ := key
  exact ref_parse_assembled r.method r.path (toH1FieldsStreamed r) chunks.flatten fr vp.2.1 vp.2.2.1 vp.1 hpath hclean hfr hb

/-- the witness of finding F-C06a: POST / with `:authority: a`, no content-length, streamed body
    `GET /x HTTP/1.1 CRLF CRLF` — every hypothesis holds, yet the reference reader sees TWO requests -/
def exStreamBlock : Block := [(pMethod, [80, 79, 83, 84]), (pScheme, sHttp), (pPath, [47]), (pAuthority, [97])]
def exStreamBody : List Bytes := [[71, 69, 84, 32, 47, 120, 32], sHttp11 ++ crlf ++ crlf]

theorem h2_to_h1_streamed_single_message_counterexample : ¬ h2_to_h1_streamed_single_message := by
  intro h
  have := h true exStreamBlock exStreamBody ⟨[80, 79, 83, 84], sHttp, [97], [47], []⟩
    (by decide) (by decide) (by decide) (by intro g hg; simp at hg)
  revert this
  decide

/-- what the next hop reads instead: the POST without a body, and the smuggled GET -/
example : (h2ToH1Streamed true exStreamBlock exStreamBody).map Ref.parse =
    some (some [⟨[80, 79, 83, 84], [47], sHttp11, [(sHost, [97])], []⟩,
                ⟨[71, 69, 84], [47, 120], sHttp11, [], []⟩]) := by decide
example : streamedFramed ⟨[80, 79, 83, 84], sHttp, [97], [47], []⟩ exStreamBody = false := by decide

/-- Host: the client's own host field if it sent one, else the :authority, else none -/
theorem h2_to_h1_host (r : Req) (body : Bytes) :
    ((toH1Fields r body).filter (nameIs sHostL)).map (·.2) =
      (if hasName sHostL r.fields then (r.fields.filter (nameIs sHostL)).map (·.2)
       else if r.authority.isEmpty then [] else [r.authority]) := by
  have h1 : (toH1Fields r body).filter (nameIs sHostL) = (insertHost r).filter (nameIs sHostL) := by
    unfold toH1Fields addFraming
    split
    · have : nameIs sHostL (sCL, natDec body.length) = false := by rw [nameIs_mk]; decide
      rw [List.filter_append, filter_joinCookies sHostL (by decide)]
      simp [this]
    · exact filter_joinCookies sHostL (by decide) _
  rw [h1]
  unfold insertHost
  cases hh : hasName sHostL r.fields with
  | true => simp
  | false =>
    have hnil : r.fields.filter (nameIs sHostL) = [] := by
      have := hasName_iff sHostL r.fields
      rw [hh] at this
      cases hf : r.fields.filter (nameIs sHostL) with
      | nil => rfl
      | cons a as => simp [hf] at this
    cases ha : r.authority.isEmpty with
    | true => simp [hnil]
    | false =>
      have : nameIs sHostL (sHost, r.authority) = true := by rw [nameIs_mk]; decide
      simp [List.filter_cons, this, hnil]

/-- Cookie: several cookie fields are joined with "; " into one, a single one is kept -/
theorem h2_to_h1_cookie (r : Req) (body : Bytes) :
    cookieValues (toH1Fields r body) =
      (if (cookieValues r.fields).length > 1 then [joinWith sSemiSp (cookieValues r.fields)]
       else cookieValues r.fields) := by
  have hins : cookieValues (insertHost r) = cookieValues r.fields := by
    unfold cookieValues; rw [filter_insertHost sCookieL (by decide)]
  have hadd : cookieValues (toH1Fields r body) = cookieValues (joinCookies (insertHost r)) := by
    unfold toH1Fields addFraming cookieValues
    split
    · have : nameIs sCookieL (sCL, natDec body.length) = false := by rw [nameIs_mk]; decide
      simp [List.filter_append, this]
    · rfl
  rw [hadd, joinCookies_def, hins]
  split
  · have e : lower sCookieL = sCookieL := by decide
    have := setAll_values sCookieL (joinWith sSemiSp (cookieValues r.fields)) (insertHost r) false (by decide)
    rw [e] at this
    simpa [cookieValues] using this
  · exact hins

/-- every other field reaches the HTTP/1 server unchanged and in order -/
theorem h2_to_h1_other_fields (r : Req) (body : Bytes) :
    (toH1Fields r body).filter (fun f => !nameIs sCookieL f && !nameIs sHostL f && !nameIs sCL f) =
      r.fields.filter (fun f => !nameIs sCookieL f && !nameIs sHostL f && !nameIs sCL f) := by
  let q : Field → Bool := fun f => !nameIs sCookieL f && !nameIs sHostL f && !nameIs sCL f
  have e : lower sCookieL = sCookieL := by decide
  have hq : ∀ f : Field, (lower f.1 == lower sCookieL) = true → ∀ v, q (f.1, v) = false := by
    intro f hf v
    rw [e] at hf
    simp [q, nameIs, hf]
  have hjoin : (joinCookies (insertHost r)).filter q = (insertHost r).filter q := by
    rw [joinCookies_def]
    split
    · apply setAll_filter
      · exact hq
      · simp [q, nameIs, e]
      · intro f hf; exact hq f hf f.2
    · rfl
  have hins : (insertHost r).filter q = r.fields.filter q := by
    unfold insertHost
    split
    · have : q (sHost, r.authority) = false := by
        have : nameIs sHostL (sHost, r.authority) = true := by rw [nameIs_mk]; decide
        simp [q, this]
      simp [List.filter_cons, this]
    · rfl
  show (toH1Fields r body).filter q = r.fields.filter q
  unfold toH1Fields addFraming
  split
  · have : q (sCL, natDec body.length) = false := by
      have : nameIs sCL (sCL, natDec body.length) = true := by rw [nameIs_mk]; decide
      simp [q, this]
    rw [List.filter_append, hjoin, hins]
    simp [this]
  · rw [hjoin, hins]

/-! ### HTTP/1 → HTTP/2 -/

private theorem splitPseudo_regular (fs acc : List Field) (h : ∀ f ∈ fs, isPseudo f = false) :
    splitPseudo fs acc = some (acc, fs) := by
  cases fs with
  | nil => rfl
  | cons f rest => simp [splitPseudo, h f (by simp)]

private theorem byte_forall (P : UInt8 → Prop) (h : ∀ n : Fin 256, P (UInt8.ofNat n.val)) (c : UInt8) : P c := by
  have := h ⟨c.toNat, UInt8.toNat_lt c⟩
  simpa using this

private theorem lower_token_byte : ∀ c : UInt8, isTokenByte c = true → isPyWs (asciiLowerB c) = false ∧ asciiLowerB c ≠ 58 :=
  byte_forall _ (by decide +kernel)

private theorem lower_not_upper : ∀ d : UInt8, ¬(65 ≤ (asciiLowerB d).toNat ∧ (asciiLowerB d).toNat ≤ 90) :=
  byte_forall _ (by decide +kernel)

private theorem normalizeH1_regular (fs : List Field) (h : ∀ f ∈ fs, isToken f.1 = true) :
    ∀ f ∈ normalizeH1 fs, isPseudo f = false := by
  intro f hf
  simp only [normalizeH1, List.mem_filter, List.mem_map] at hf
  obtain ⟨⟨g, hg, rfl⟩, _⟩ := hf
  have htok := h g hg
  simp only [isToken, Bool.and_eq_true] at htok
  cases hn : g.1 with
  | nil => rw [hn] at htok; simp at htok
  | cons c cs =>
    rw [hn] at htok
    have hc : isTokenByte c = true := (List.all_eq_true.mp htok.2) c (by simp)
    have hlow : isPyWs (asciiLowerB c) = false ∧ asciiLowerB c ≠ 58 := lower_token_byte c hc
    simp [isPseudo, lower, asciiLower, pyStrip, List.dropWhile, hlow.1]
    -- the first byte survives both strips
    have : ∃ t, dropEndWhile isPyWs (asciiLowerB c :: cs.map asciiLowerB) = asciiLowerB c :: t := by
      unfold dropEndWhile
      simp only [List.reverse_cons]
      generalize (cs.map asciiLowerB).reverse = rv
      induction rv with
      | nil => simp [List.dropWhile, hlow.1]
      | cons x xs ih =>
        simp only [List.cons_append, List.dropWhile]
        split
        · exact ih
        · simp
    obtain ⟨t, ht⟩ := this
    rw [ht]
    simpa using hlow.2

/-- The header block written for an HTTP/1 request (origin-form, so no authority of its own) decodes to the same
    method, scheme and path, the Host field(s) as :authority, and the other fields lower-cased, stripped and
    without the connection-specific ones — in the original order. -/
theorem h1_to_h2 (r : Req) (hauth : r.authority = []) (htok : ∀ f ∈ r.fields, isToken f.1 = true) :
    parseH2Request true (formatH2Request r false) =
      some (if hasName sHostL r.fields then
              ⟨r.method, r.scheme, joinWith sCommaSp ((r.fields.filter (nameIs sHostL)).map (·.2)), r.path,
                normalizeH1 (r.fields.filter (fun f => !nameIs sHostL f))⟩
            else ⟨r.method, r.scheme, [], r.path, normalizeH1 r.fields⟩) := by
  have e1 : isPseudo (pMethod, r.method) = true := (by decide : (pMethod.head? == some 58) = true)
  have e2 : isPseudo (pScheme, r.scheme) = true := (by decide : (pScheme.head? == some 58) = true)
  have e3 : isPseudo (pPath, r.path) = true := (by decide : (pPath.head? == some 58) = true)
  cases hh : hasName sHostL r.fields with
  | false =>
    have hreg := normalizeH1_regular r.fields htok
    have hs := splitPseudo_regular (normalizeH1 r.fields) [(pMethod, r.method), (pScheme, r.scheme), (pPath, r.path)] hreg
    have : splitPseudo (formatH2Request r false) [] =
        some ([(pMethod, r.method), (pScheme, r.scheme), (pPath, r.path)], normalizeH1 r.fields) := by
      simp [formatH2Request, hauth, hh, splitPseudo, e1, e2, e3, hs,
        show (pScheme == pMethod) = false by decide, show (pPath == pMethod) = false by decide,
        show (pPath == pScheme) = false by decide]
      try decide
    simp [parseH2Request, this, lookup, without,
      show (pMethod == pScheme) = false by decide, show (pMethod == pPath) = false by decide,
      show (pScheme == pMethod) = false by decide, show (pScheme == pPath) = false by decide,
      show (pPath == pMethod) = false by decide, show (pPath == pScheme) = false by decide,
      show (pMethod == pAuthority) = false by decide, show (pScheme == pAuthority) = false by decide,
      show (pPath == pAuthority) = false by decide]
  | true =>
    have e4 : ∀ v, isPseudo (pAuthority, v) = true := fun v => by simp [isPseudo, pAuthority]
    have htok' : ∀ f ∈ r.fields.filter (fun f => !nameIs sHostL f), isToken f.1 = true :=
      fun f hf => htok f (List.mem_filter.mp hf).1
    have hreg := normalizeH1_regular _ htok'
    let a := joinWith sCommaSp ((r.fields.filter (nameIs sHostL)).map (·.2))
    have hs := splitPseudo_regular (normalizeH1 (r.fields.filter (fun f => !nameIs sHostL f)))
      [(pMethod, r.method), (pScheme, r.scheme), (pPath, r.path), (pAuthority, a)] hreg
    have : splitPseudo (formatH2Request r false) [] =
        some ([(pMethod, r.method), (pScheme, r.scheme), (pPath, r.path), (pAuthority, a)],
          normalizeH1 (r.fields.filter (fun f => !nameIs sHostL f))) := by
      simp [formatH2Request, hauth, hh, splitPseudo, e1, e2, e3, e4, hs, a,
        show (pScheme == pMethod) = false by decide, show (pPath == pMethod) = false by decide,
        show (pPath == pScheme) = false by decide, show (pAuthority == pMethod) = false by decide,
        show (pAuthority == pScheme) = false by decide, show (pAuthority == pPath) = false by decide]
      try decide
    simp [parseH2Request, this, lookup, without, a,
      show (pMethod == pScheme) = false by decide, show (pMethod == pPath) = false by decide,
      show (pScheme == pMethod) = false by decide, show (pScheme == pPath) = false by decide,
      show (pPath == pMethod) = false by decide, show (pPath == pScheme) = false by decide,
      show (pMethod == pAuthority) = false by decide, show (pScheme == pAuthority) = false by decide,
      show (pPath == pAuthority) = false by decide, show (pAuthority == pMethod) = false by decide,
      show (pAuthority == pScheme) = false by decide, show (pAuthority == pPath) = false by decide]

/-- names written over HTTP/2 for an HTTP/1 message carry no upper-case letter and no connection-specific field -/
theorem h1_to_h2_names (fs : List Field) :
    ∀ f ∈ normalizeH1 fs, (∀ c ∈ f.1, ¬(65 ≤ c.toNat ∧ c.toNat ≤ 90)) ∧ Gen.C06.connectionHeaders.contains f.1 = false := by
  intro f hf
  simp only [normalizeH1, List.mem_filter, List.mem_map] at hf
  obtain ⟨⟨g, _, rfl⟩, hc⟩ := hf
  refine ⟨?_, by simpa using hc⟩
  intro c hc
  have hsub : ∀ (p : UInt8 → Bool) (l : Bytes), ∀ x ∈ dropEndWhile p (l.dropWhile p), x ∈ l := by
    intro p l x hx
    unfold dropEndWhile at hx
    have h1 : x ∈ (l.dropWhile p).reverse.dropWhile p := by simpa using hx
    have h2 := (List.dropWhile_sublist p).subset h1
    have h3 : x ∈ l.dropWhile p := by simpa using h2
    exact (List.dropWhile_sublist p).subset h3
  have := hsub isPyWs (lower g.1) c hc
  simp only [lower, asciiLower, List.mem_map] at this
  obtain ⟨d, _, rfl⟩ := this
  exact lower_not_upper d

/-! ### HTTP/2 → HTTP/2 -/

private theorem pseudoSeq_tail (b : Block) (seen : List Bytes) (h : pseudoSeqOk seen true b = true) :
    ∀ f ∈ b, isPseudo f = false := by
  induction b generalizing seen with
  | nil => intro f hf; simp at hf
  | cons g rest ih =>
    unfold pseudoSeqOk at h
    cases hg : isPseudo g with
    | true => simp [hg] at h
    | false =>
      simp only [hg] at h
      intro f hf
      rcases List.mem_cons.mp hf with h1 | h1
      · subst h1; exact hg
      · exact ih seen (by simpa using h) f h1

private theorem split_fields_regular (b : Block) (seen : List Bytes) (acc ps fs : List Field)
    (hseq : pseudoSeqOk seen false b = true) (hs : splitPseudo b acc = some (ps, fs)) :
    ∀ f ∈ fs, isPseudo f = false := by
  induction b generalizing seen acc with
  | nil =>
    simp [splitPseudo] at hs
    obtain ⟨_, h2⟩ := hs
    subst h2
    intro f hf; simp at hf
  | cons g rest ih =>
    unfold pseudoSeqOk at hseq
    unfold splitPseudo at hs
    cases hg : isPseudo g with
    | true =>
      simp only [hg, if_true, Bool.and_eq_true] at hseq hs
      split at hs
      · simp at hs
      · exact ih (g.1 :: seen) (acc ++ [g]) hseq.2 hs
    | false =>
      simp only [hg] at hseq hs
      simp at hs
      rw [← hs.2]
      exact pseudoSeq_tail (g :: rest) seen (by unfold pseudoSeqOk; simpa [hg] using hseq)

/-- Forwarding an HTTP/2 request over HTTP/2: the block written is the pseudo-headers followed by the fields as
    received, and it decodes to the very same request.  (The differential run drives transparent mode, where the scheme
    comes from the transport: the driver prints `formatH2Request { r with scheme := sHttp } true`, so the instances
    exercised against the code are those with `r.scheme = http`; the theorem holds for every scheme.) -/
theorem h2_to_h2 (authOk : Bool) (b : Block) (r : Req)
    (hv : h2ValidReq b = true) (hp : parseH2Request authOk b = some r) :
    formatH2Request r true =
      [(pMethod, r.method), (pScheme, r.scheme), (pPath, r.path)]
        ++ (if r.authority.isEmpty then [] else [(pAuthority, r.authority)]) ++ r.fields
    ∧ parseH2Request authOk (formatH2Request r true) = some r := by
  -- the fields are regular fields with valid HTTP/2 names: normalize_h2_headers leaves them alone
  have hfields : (∀ f ∈ r.fields, f ∈ b) ∧ (∀ f ∈ r.fields, isPseudo f = false) ∧ (r.authority.isEmpty = false → authOk = true) := by
    unfold parseH2Request at hp
    cases hs : splitPseudo b [] with
    | none => simp [hs] at hp
    | some pf =>
      obtain ⟨ps, fs⟩ := pf
      simp only [hs] at hp
      have hreg : ∀ f ∈ fs, isPseudo f = false := by
        simp only [h2ValidReq, Bool.and_eq_true] at hv
        exact split_fields_regular b [] [] ps fs hv.1.1.1.2 hs
      have hmem := (splitPseudo_mem b [] ps fs hs).2
      cases hm : lookup pMethod ps with
      | none => simp [hm] at hp
      | some m =>
        cases hsc : lookup pScheme ps with
        | none => simp [hm, hsc] at hp
        | some sc =>
          cases hpa : lookup pPath ps with
          | none => simp [hm, hsc, hpa] at hp
          | some pa =>
            simp only [hm, hsc, hpa] at hp
            split at hp
            · simp at hp
            · split at hp
              · simp at hp
              · rename_i h1 h2
                simp at hp; subst hp
                refine ⟨hmem, hreg, ?_⟩
                intro ha
                simp only [Bool.and_eq_true, Bool.not_eq_true'] at h2
                cases authOk with
                | true => rfl
                | false => simp [ha] at h2
  have hnorm : normalizeH2 r.fields = r.fields := by
    unfold normalizeH2
    have : ∀ f ∈ r.fields, (if pyIsLower f.1 then f else (lower f.1, f.2)) = f := by
      intro f hf
      split
      · rfl
      · have hb := hfields.1 f hf
        simp only [h2ValidReq, Bool.and_eq_true] at hv
        have hok := (List.all_eq_true.mp hv.1.1.1.1) f hb
        simp only [fieldOk, Bool.and_eq_true, h2NameOk] at hok
        have hname := hok.1.1.1.1.1
        have : lower f.1 = f.1 := by
          unfold lower asciiLower
          conv => rhs; rw [← List.map_id f.1]
          apply List.map_congr_left
          intro c hc
          have := (List.all_eq_true.mp hname) c hc
          simp only [Bool.and_eq_true, Bool.not_eq_true', decide_eq_true_eq] at this
          unfold asciiLowerB
          have h1 : ¬(65 ≤ c.toNat ∧ c.toNat ≤ 90) := by
            intro h; have := this.1.1; simp [h.1, h.2] at this
          simp [h1]
        rw [this]
    conv => rhs; rw [← List.map_id r.fields]
    exact List.map_congr_left this
  obtain ⟨m, sc, a, p, fs⟩ := r
  simp only at hfields hnorm ⊢
  have e1 : isPseudo (pMethod, m) = true := (by decide : (pMethod.head? == some 58) = true)
  have e2 : isPseudo (pScheme, sc) = true := (by decide : (pScheme.head? == some 58) = true)
  have e3 : isPseudo (pPath, p) = true := (by decide : (pPath.head? == some 58) = true)
  have e4 : isPseudo (pAuthority, a) = true := (by decide : (pAuthority.head? == some 58) = true)
  cases ha : a.isEmpty with
  | true =>
    have hnil : a = [] := by cases a <;> simp_all
    subst hnil
    have hfmt : formatH2Request ⟨m, sc, [], p, fs⟩ true = (pMethod, m) :: (pScheme, sc) :: (pPath, p) :: fs := by
      simp [formatH2Request, hnorm]
    have hs := splitPseudo_regular fs [(pMethod, m), (pScheme, sc), (pPath, p)] hfields.2.1
    have hsp : splitPseudo ((pMethod, m) :: (pScheme, sc) :: (pPath, p) :: fs) [] =
        some ([(pMethod, m), (pScheme, sc), (pPath, p)], fs) := by
      simp [splitPseudo, e1, e2, e3, hs,
        show (pScheme == pMethod) = false by decide, show (pPath == pMethod) = false by decide,
        show (pPath == pScheme) = false by decide]
      try decide
    refine ⟨by rw [hfmt]; simp, ?_⟩
    rw [hfmt]
    simp [parseH2Request, hsp, lookup, without,
      show (pMethod == pScheme) = false by decide, show (pMethod == pPath) = false by decide,
      show (pScheme == pMethod) = false by decide, show (pScheme == pPath) = false by decide,
      show (pPath == pMethod) = false by decide, show (pPath == pScheme) = false by decide,
      show (pMethod == pAuthority) = false by decide, show (pScheme == pAuthority) = false by decide,
      show (pPath == pAuthority) = false by decide]
  | false =>
    have hfmt : formatH2Request ⟨m, sc, a, p, fs⟩ true =
        (pMethod, m) :: (pScheme, sc) :: (pPath, p) :: (pAuthority, a) :: fs := by
      simp [formatH2Request, hnorm, ha]
    have hs := splitPseudo_regular fs [(pMethod, m), (pScheme, sc), (pPath, p), (pAuthority, a)] hfields.2.1
    have hok := hfields.2.2 ha
    have hsp : splitPseudo ((pMethod, m) :: (pScheme, sc) :: (pPath, p) :: (pAuthority, a) :: fs) [] =
        some ([(pMethod, m), (pScheme, sc), (pPath, p), (pAuthority, a)], fs) := by
      simp [splitPseudo, e1, e2, e3, e4, hs,
        show (pScheme == pMethod) = false by decide, show (pPath == pMethod) = false by decide,
        show (pPath == pScheme) = false by decide, show (pAuthority == pMethod) = false by decide,
        show (pAuthority == pScheme) = false by decide, show (pAuthority == pPath) = false by decide]
      try decide
    refine ⟨by rw [hfmt]; simp [ha], ?_⟩
    rw [hfmt]
    simp [parseH2Request, hsp, lookup, without, ha, hok,
      show (pMethod == pScheme) = false by decide, show (pMethod == pPath) = false by decide,
      show (pScheme == pMethod) = false by decide, show (pScheme == pPath) = false by decide,
      show (pPath == pMethod) = false by decide, show (pPath == pScheme) = false by decide,
      show (pMethod == pAuthority) = false by decide, show (pScheme == pAuthority) = false by decide,
      show (pPath == pAuthority) = false by decide, show (pAuthority == pMethod) = false by decide,
      show (pAuthority == pScheme) = false by decide, show (pAuthority == pPath) = false by decide]

/-! ### non-interference: sending does not change the recorded message -/

/-! ### the content-length law, derived from what hyper-h2 checks -/

private theorem splitPseudo_shape (b : Block) (acc ps fs : List Field) (h : splitPseudo b acc = some (ps, fs)) :
    ∃ pre, b = pre ++ fs ∧ ∀ f ∈ pre, isPseudo f = true := by
  induction b generalizing acc with
  | nil =>
    simp [splitPseudo] at h
    exact ⟨[], by simp [h.2], by intro f hf; simp at hf⟩
  | cons g rest ih =>
    unfold splitPseudo at h
    cases hg : isPseudo g with
    | true =>
      simp only [hg, if_true] at h
      split at h
      · simp at h
      · obtain ⟨pre, e, hp⟩ := ih _ h
        refine ⟨g :: pre, by rw [e]; rfl, ?_⟩
        intro f hf
        rcases List.mem_cons.mp hf with h1 | h1
        · rw [h1]; exact hg
        · exact hp f h1
    | false =>
      simp only [hg] at h
      simp at h
      exact ⟨[], by rw [← h.2]; rfl, by intro f hf; simp at hf⟩

private theorem pseudo_not_cl (f : Field) (h : isPseudo f = true) : (f.1 == sCL) = false := by
  cases hq : f.1 == sCL with
  | false => rfl
  | true =>
    have e : f.1 = sCL := by simpa using hq
    unfold isPseudo at h
    rw [e] at h
    revert h; decide

private theorem parse_fields (authOk : Bool) (b : Block) (r : Req) (hp : parseH2Request authOk b = some r) :
    ∃ ps, splitPseudo b [] = some (ps, r.fields) := by
  unfold parseH2Request at hp
  cases hs : splitPseudo b [] with
  | none => simp [hs] at hp
  | some pf =>
    obtain ⟨ps, fs⟩ := pf
    simp only [hs] at hp
    cases hm : lookup pMethod ps with
    | none => simp [hm] at hp
    | some m =>
      cases hsc : lookup pScheme ps with
      | none => simp [hm, hsc] at hp
      | some sc =>
        cases hpa : lookup pPath ps with
        | none => simp [hm, hsc, hpa] at hp
        | some pa =>
          simp only [hm, hsc, hpa] at hp
          split at hp
          · simp at hp
          · split at hp
            · simp at hp
            · simp at hp; subst hp
              exact ⟨ps, rfl⟩

private theorem cl_law_core (b : Block) (ps fs : List Field) (body : Bytes)
    (hall : b.all fieldOk = true) (hs : splitPseudo b [] = some (ps, fs))
    (hck : h2ClOk false b body.length (endOnTrailers := false) = true)
    (hguard : body = [] → ∀ v ∈ valuesOf sCL b, Ref.parseDec v = some 0) :
    ∀ g, fs.filter (nameIs sCL) = [g] → Ref.parseDec g.2 = some body.length := by
  obtain ⟨pre, hb, hpre⟩ := splitPseudo_shape b [] ps fs hs
  have hpreNil : valuesOf sCL pre = [] := by
    unfold valuesOf
    have : pre.filter (fun f => f.1 == sCL) = [] := by
      rw [List.filter_eq_nil_iff]
      intro f hf; rw [pseudo_not_cl f (hpre f hf)]; simp
    rw [this]; rfl
  have hlow : ∀ f ∈ fs, nameIs sCL f = (f.1 == sCL) := by
    intro f hf
    have hfb : f ∈ b := by rw [hb]; exact List.mem_append_right _ hf
    have hok := (List.all_eq_true.mp hall) f hfb
    simp only [fieldOk, Bool.and_eq_true, h2NameOk] at hok
    have hname := hok.1.1.1.1.1
    have : lower f.1 = f.1 := by
      unfold lower asciiLower
      conv => rhs; rw [← List.map_id f.1]
      apply List.map_congr_left
      intro c hc
      have := (List.all_eq_true.mp hname) c hc
      simp only [Bool.and_eq_true, Bool.not_eq_true', decide_eq_true_eq] at this
      unfold asciiLowerB
      have h1 : ¬(65 ≤ c.toNat ∧ c.toNat ≤ 90) := by
        intro h; have := this.1.1; simp [h.1, h.2] at this
      simp [h1]
    unfold nameIs; rw [this]
  have hvals : valuesOf sCL b = (fs.filter (nameIs sCL)).map (·.2) := by
    have e1 : valuesOf sCL b = valuesOf sCL pre ++ valuesOf sCL fs := by
      rw [hb]; simp [valuesOf]
    rw [e1, hpreNil, List.nil_append]
    unfold valuesOf
    rw [List.filter_congr (fun f hf => (hlow f hf).symm)]
  intro g hg
  rw [hg] at hvals
  simp only [List.map_cons, List.map_nil] at hvals
  have hck' := hck
  simp only [h2ClOk, hvals] at hck'
  cases hd : Ref.parseDec g.2 with
  | none => simp [hd] at hck'
  | some n =>
    simp [hd] at hck'
    rcases hck'.2 with h0 | h1
    · have hbn : body = [] := by cases body <;> simp_all
      have := hguard hbn g.2 (by rw [hvals]; simp)
      rw [hd] at this
      rw [hbn]; exact this
    · rw [h1]

/-- The hypothesis `ClLaw` of `h2_to_h1_single_message` follows from the check hyper-h2 really makes (`h2ClOk`, the
    transcription of `_track_content_length` the differential run ties to the library on every case) — except for
    the one input class where hyper-h2 makes no check at all: no DATA frame (END_STREAM on the HEADERS frame) with a
    non-zero content-length, finding F-C06c, excluded by `hguard`.  `endOnTrailers := false`: the stream is ended by a DATA
    frame.  For a stream ended by a TRAILERS frame hyper-h2 only checks "not more than announced" and the law is false —
    findings F-C06d/e, see `cl_law_trailers_counterexample`. -/
theorem cl_law_from_h2_check (authOk : Bool) (b : Block) (body : Bytes) (r : Req)
    (hv : h2ValidReq b = true) (hp : parseH2Request authOk b = some r)
    (hck : h2ClOk false b body.length (endOnTrailers := false) = true)
    (hguard : body = [] → ∀ v ∈ valuesOf sCL b, Ref.parseDec v = some 0) : ClLaw r body := by
  obtain ⟨ps, hs⟩ := parse_fields authOk b r hp
  simp only [h2ValidReq, Bool.and_eq_true] at hv
  exact cl_law_core b ps r.fields body hv.1.1.1.1 hs hck hguard

/-- … and `RespClLaw` of `h2_to_h1_response_single_message` likewise (the excluded classes are findings F-C06b — `hguard` —
    and F-C06d — `endOnTrailers := false`) -/
theorem resp_cl_law_from_h2_check (b : Block) (body : Bytes) (st : Nat) (fs : List Field)
    (hv : h2ValidResp b = true) (hp : parseH2Response b = some (st, fs))
    (hck : h2ClOk false b body.length (endOnTrailers := false) = true)
    (hguard : body = [] → ∀ v ∈ valuesOf sCL b, Ref.parseDec v = some 0) :
    ∀ g, fs.filter (nameIs sCL) = [g] → Ref.parseDec g.2 = some body.length := by
  have hs : ∃ ps, splitPseudo b [] = some (ps, fs) := by
    unfold parseH2Response at hp
    cases hsp : splitPseudo b [] with
    | none => simp [hsp] at hp
    | some pf =>
      obtain ⟨ps, fs'⟩ := pf
      simp only [hsp] at hp
      split at hp
      · split at hp
        · simp at hp; exact ⟨ps, by rw [hp.2]⟩
        · simp at hp
      · simp at hp
  obtain ⟨ps, hs⟩ := hs
  simp only [h2ValidResp, Bool.and_eq_true] at hv
  exact cl_law_core b ps fs body hv.1.1 hs hck hguard

/-- `h2_to_h1_single_message` with the content-length law replaced by hyper-h2's own (transcribed, tied) check, for a
    stream ended by a DATA frame (`endOnTrailers := false`; not for F-C06c — `hguard` — nor F-C06e — ended by trailers) -/
theorem h2_to_h1_single_message_checked (authOk : Bool) (b : Block) (body : Bytes) (r : Req)
    (hv : h2ValidReq b = true) (hp : parseH2Request authOk b = some r)
    (hval : validateRequest r false = true) (hck : h2ClOk false b body.length (endOnTrailers := false) = true)
    (hguard : body = [] → ∀ v ∈ valuesOf sCL b, Ref.parseDec v = some 0) :
    h2ToH1 authOk b body = some (assembleRequestHead r.method r.path sHttp11 (toH1Fields r body) ++ body) ∧
    Ref.parse (assembleRequestHead r.method r.path sHttp11 (toH1Fields r body) ++ body)
      = some [⟨r.method, r.path, sHttp11, (toH1Fields r body).map readBack, body⟩] :=
  h2_to_h1_single_message authOk b body r hv hp hval (cl_law_from_h2_check authOk b body r hv hp hck hguard)

/-- Trailers (request or response) forwarded HTTP/2 → HTTP/2, the only pair of versions that can carry them in
    mitmproxy: `send_trailers([*event.trailers.fields])` — hyper-h2's outbound normalization leaves a block that passed
    the inbound validator exactly as it is (names, values, order), and the next hop's validator accepts it again. -/
theorem h2_to_h2_trailers (t : Block) (hv : h2ValidTrailers t = true) :
    normalizeH2 t = t ∧ h2ValidTrailers (normalizeH2 t) = true := by
  have hnorm : normalizeH2 t = t := by
    unfold normalizeH2
    have : ∀ f ∈ t, (if pyIsLower f.1 then f else (lower f.1, f.2)) = f := by
      intro f hf
      split
      · rfl
      · simp only [h2ValidTrailers, Bool.and_eq_true] at hv
        have hok := (List.all_eq_true.mp hv.1) f hf
        simp only [fieldOk, Bool.and_eq_true, h2NameOk] at hok
        have hname := hok.1.1.1.1.1
        have : lower f.1 = f.1 := by
          unfold lower asciiLower
          conv => rhs; rw [← List.map_id f.1]
          apply List.map_congr_left
          intro c hc
          have := (List.all_eq_true.mp hname) c hc
          simp only [Bool.and_eq_true, Bool.not_eq_true', decide_eq_true_eq] at this
          unfold asciiLowerB
          have h1 : ¬(65 ≤ c.toNat ∧ c.toNat ≤ 90) := by
            intro h; have := this.1.1; simp [h.1, h.2] at this
          simp [h1]
        rw [this]
    conv => rhs; rw [← List.map_id t]
    exact List.map_congr_left this
  exact ⟨hnorm, by rw [hnorm]; exact hv⟩

/-- Converting / sending a recorded request to an HTTP/1 or HTTP/2 hop leaves the stored request unchanged, and — over
    any history of sends of the same flow (live exchange, then any number of replays to any hops) — every send emits
    exactly what the first send to that hop would have emitted: the conversion is a function of the message alone.
    RESTATEMENT OF A MODELLING DECISION, not a proof about the code: `sendRequest` returns its argument `r` literally (the
    model has no mutation that could change it) and `sendRequest` / `sendAll` / `Hop` are not run by the driver (only their
    components `h2ToH1`-style assembly and `formatH2Request` are).  That the CODE converts copies (`request.copy()`,
    `headers.copy()`) is carried by the oracle's stored-before/after clause and by the replay passes, which compare every
    later send of the real flow with the model's first send. -/
theorem conversion_keeps_message (r : Req) (fromH2 : Bool) (body : Bytes) (hops : List Hop) :
    (∀ h, (sendRequest r fromH2 body h).1 = r)
    ∧ (sendAll r fromH2 body hops).1 = r
    ∧ (sendAll r fromH2 body hops).2 = hops.map (fun h => (sendRequest r fromH2 body h).2) := by
  refine ⟨fun h => by cases h <;> rfl, ?_, ?_⟩
  · induction hops with
    | nil => rfl
    | cons h rest ih => cases h <;> simpa [sendAll, sendRequest] using ih
  · induction hops with
    | nil => rfl
    | cons h rest ih => cases h <;> simp [sendAll, sendRequest] at ih ⊢ <;> exact ih

/-- e.g. the recorded HTTP/1 request still has its Host field for the second translation: the replayed block carries
    the same :authority as the first one -/
example : (sendAll ⟨[71, 69, 84], sHttp, [], [47], [(sHost, [97, 46, 98])]⟩ false [] [.h2, .h2]).2 =
    [.inr [(pMethod, [71, 69, 84]), (pScheme, sHttp), (pPath, [47]), (pAuthority, [97, 46, 98])],
     .inr [(pMethod, [71, 69, 84]), (pScheme, sHttp), (pPath, [47]), (pAuthority, [97, 46, 98])]] := by decide

/-! ### status codes -/

private theorem dec3 : ∀ x : Fin 10, ∀ y : Fin 10, ∀ z : Fin 10, x.val ≠ 0 →
    natDec (x.val * 100 + y.val * 10 + z.val) =
      [UInt8.ofNat (48 + x.val), UInt8.ofNat (48 + y.val), UInt8.ofNat (48 + z.val)] := by decide +kernel

private theorem strip3 : ∀ x y z : Fin 10,
    pyStrip [UInt8.ofNat (48 + x.val), UInt8.ofNat (48 + y.val), UInt8.ofNat (48 + z.val)] =
      [UInt8.ofNat (48 + x.val), UInt8.ofNat (48 + y.val), UInt8.ofNat (48 + z.val)] := by decide +kernel

private theorem digit_fin (c : UInt8) (h : isDigit c = true) : ∃ x : Fin 10, c = UInt8.ofNat (48 + x.val) ∧ decVal c = x.val := by
  have : ∀ c : UInt8, isDigit c = true → c.toNat - 48 < 10 ∧ c = UInt8.ofNat (48 + (c.toNat - 48)) :=
    byte_forall _ (by decide +kernel)
  exact ⟨⟨c.toNat - 48, (this c h).1⟩, (this c h).2, rfl⟩

private theorem parseH2Response_some (b : Block) (st : Nat) (fs : List Field) (hp : parseH2Response b = some (st, fs)) :
    ∃ ps a b' c, splitPseudo b [] = some (ps, fs) ∧ lookup pStatus ps = some [a, b', c] ∧
      ((((isDigit a = true ∧ isDigit b' = true) ∧ isDigit c = true) ∧ a ≠ 48) ∧ (without pStatus ps).isEmpty = true) ∧
      decVal a * 100 + decVal b' * 10 + decVal c = st := by
  unfold parseH2Response at hp
  cases hs : splitPseudo b [] with
  | none => simp [hs] at hp
  | some pf =>
    obtain ⟨ps, fs'⟩ := pf
    simp only [hs] at hp
    cases hl : lookup pStatus ps with
    | none => simp [hl] at hp
    | some d =>
      simp only [hl] at hp
      match d, hl, hp with
      | [], _, hp => simp at hp
      | [_], _, hp => simp at hp
      | [_, _], _, hp => simp at hp
      | _ :: _ :: _ :: _ :: _, _, hp => simp at hp
      | [a, b', c], hl, hp =>
        by_cases hcond : (isDigit a && isDigit b' && isDigit c && a != 48 && (without pStatus ps).isEmpty) = true
        · simp only [hcond, if_true] at hp
          simp at hp
          obtain ⟨hst, hfs⟩ := hp
          subst hfs
          refine ⟨ps, a, b', c, rfl, hl, ?_, hst⟩
          simpa [Bool.and_eq_true] using hcond
        · simp [hcond] at hp

/-- A status accepted from an HTTP/2 server (`parse_h2_response_headers`) is written to an HTTP/1 client as the
    same three digits, and over HTTP/2 (whatever the source version) as a `:status` with the same three digits,
    first in the block. -/
theorem status_preserved (b : Block) (st : Nat) (fs : List Field) (hp : parseH2Response b = some (st, fs)) :
    (pStatus, natDec st) ∈ b
    ∧ Ref.parseStatusLine (sHttp11 ++ [32] ++ natDec st ++ [32] ++ reason st)
        = some (sHttp11, st, joinWith [32] (splitOn 32 (reason st)))
    ∧ (formatH2Response st fs true).head? = some (pStatus, natDec st)
    ∧ (formatH2Response st fs false).head? = some (pStatus, natDec st) := by
  obtain ⟨ps, a, b', c, hs, hl, hcond, hst⟩ := parseH2Response_some b st fs hp
  obtain ⟨x, hx, hxv⟩ := digit_fin a hcond.1.1.1.1
  obtain ⟨y, hy, hyv⟩ := digit_fin b' hcond.1.1.1.2
  obtain ⟨z, hz, hzv⟩ := digit_fin c hcond.1.1.2
  have hx0 : x.val ≠ 0 := by
    intro h0; apply hcond.1.2; rw [hx, h0]; rfl
  have hdec : natDec st = [a, b', c] := by
    rw [← hst, hxv, hyv, hzv, dec3 x y z hx0, ← hx, ← hy, ← hz]
  refine ⟨?_, ?_, ?_, ?_⟩
  · -- the :status entry the server sent is what natDec writes
    rw [hdec]
    have hm := lookup_mem _ _ _ hl
    rcases (splitPseudo_mem b [] ps fs hs).1 _ hm with h | h
    · simp at h
    · exact h
  · have hno32 : ∀ c ∈ sHttp11, c ≠ 32 := by decide
    have hd32 : ∀ q ∈ [a, b', c], q ≠ 32 := by
      intro q hq
      have hqd : isDigit q = true := by
        simp at hq
        rcases hq with h | h | h <;> subst h
        · exact hcond.1.1.1.1
        · exact hcond.1.1.1.2
        · exact hcond.1.1.2
      intro e; subst e; revert hqd; decide
    have e : sHttp11 ++ [32] ++ natDec st ++ [32] ++ reason st = sHttp11 ++ 32 :: ([a, b', c] ++ 32 :: reason st) := by
      rw [hdec]; simp
    unfold Ref.parseStatusLine
    rw [e, splitOn_append 32 sHttp11 _ hno32, splitOn_append 32 [a, b', c] _ hd32]
    cases hr : splitOn 32 (reason st) with
    | nil =>
      have : ∀ l : Bytes, splitOn 32 l ≠ [] := by
        intro l; induction l with
        | nil => simp [splitOn]
        | cons q qs ih => unfold splitOn; split; simp; split <;> simp
      exact absurd hr (this _)
    | cons p1 prest =>
      have hv : Ref.isVersion sHttp11 = true := by decide
      simp [hv, hcond.1.1.1.1, hcond.1.1.1.2, hcond.1.1.2, ← hst]
  · simp [formatH2Response, normalizeH2, show pyIsLower pStatus = true by decide]
  · have h1 : pyStrip (lower pStatus) = pStatus := by decide
    have h2 : pyStrip (natDec st) = natDec st := by
      rw [hdec, hx, hy, hz]
      exact strip3 x y z
    have h3 : Gen.C06.connectionHeaders.contains pStatus = false := by decide
    unfold formatH2Response normalizeH1
    simp only [Bool.false_eq_true, if_false, List.map_cons, h1, h2, List.filter_cons, h3, Bool.not_false, if_true,
      List.head?_cons]

/-! ### responses towards an HTTP/1 client: the response-stream side of the reference reader -/

/-! ### responses written over HTTP/2 decode to the same status and fields (audit round 6) -/

private theorem digit_facts : ∀ x : Fin 10,
    isDigit (UInt8.ofNat (48 + x.val)) = true ∧ decVal (UInt8.ofNat (48 + x.val)) = x.val ∧
    (x.val ≠ 0 → UInt8.ofNat (48 + x.val) ≠ 48) := by decide +kernel

private theorem parse_status_block (a b' c : UInt8) (ha : isDigit a = true) (hb : isDigit b' = true)
    (hc : isDigit c = true) (hne : a ≠ 48) (fs : List Field) (hreg : ∀ f ∈ fs, isPseudo f = false) :
    parseH2Response ((pStatus, [a, b', c]) :: fs) = some (decVal a * 100 + decVal b' * 10 + decVal c, fs) := by
  have hs := splitPseudo_regular fs [(pStatus, [a, b', c])] hreg
  have hps : ∀ v, isPseudo (pStatus, v) = true := fun v => by simp [isPseudo, pStatus]
  have hsp : splitPseudo ((pStatus, [a, b', c]) :: fs) [] = some ([(pStatus, [a, b', c])], fs) := by
    simp [splitPseudo, hps, hs]
  have hne' : (a != 48) = true := by simpa using hne
  simp [parseH2Response, hsp, lookup, without, ha, hb, hc, hne']

/-- **h2_to_h2_response.** Forwarding an HTTP/2 response over HTTP/2: the block written is `:status` with the same three
    digits followed by the fields exactly as received, and it decodes to the very same status and field list. -/
theorem h2_to_h2_response (b : Block) (st : Nat) (fs : List Field)
    (hv : h2ValidResp b = true) (hp : parseH2Response b = some (st, fs)) :
    formatH2Response st fs true = (pStatus, natDec st) :: fs ∧
    parseH2Response (formatH2Response st fs true) = some (st, fs) := by
  obtain ⟨ps, a, b', c, hs, hl, hcond, hst⟩ := parseH2Response_some b st fs hp
  obtain ⟨x, hx, hxv⟩ := digit_fin a hcond.1.1.1.1
  obtain ⟨y, hy, hyv⟩ := digit_fin b' hcond.1.1.1.2
  obtain ⟨z, hz, hzv⟩ := digit_fin c hcond.1.1.2
  have hx0 : x.val ≠ 0 := by
    intro h0; apply hcond.1.2; rw [hx, h0]; rfl
  have hdec : natDec st = [UInt8.ofNat (48 + x.val), UInt8.ofNat (48 + y.val), UInt8.ofNat (48 + z.val)] := by
    rw [← hst, hxv, hyv, hzv, dec3 x y z hx0]
  simp only [h2ValidResp, Bool.and_eq_true] at hv
  have hreg : ∀ f ∈ fs, isPseudo f = false := split_fields_regular b [] [] ps fs hv.1.2 hs
  have hmem := (splitPseudo_mem b [] ps fs hs).2
  have hnormfs : normalizeH2 fs = fs := by
    unfold normalizeH2
    have : ∀ f ∈ fs, (if pyIsLower f.1 then f else (lower f.1, f.2)) = f := by
      intro f hf
      split
      · rfl
      · have hok := (List.all_eq_true.mp hv.1.1) f (hmem f hf)
        simp only [fieldOk, Bool.and_eq_true, h2NameOk] at hok
        have hname := hok.1.1.1.1.1
        have : lower f.1 = f.1 := by
          unfold lower asciiLower
          conv => rhs; rw [← List.map_id f.1]
          apply List.map_congr_left
          intro c hc
          have := (List.all_eq_true.mp hname) c hc
          simp only [Bool.and_eq_true, Bool.not_eq_true', decide_eq_true_eq] at this
          unfold asciiLowerB
          have h1 : ¬(65 ≤ c.toNat ∧ c.toNat ≤ 90) := by
            intro h; have := this.1.1; simp [h.1, h.2] at this
          simp [h1]
        rw [this]
    conv => rhs; rw [← List.map_id fs]
    exact List.map_congr_left this
  have hfmt : formatH2Response st fs true = (pStatus, natDec st) :: fs := by
    have hl' : pyIsLower pStatus = true := by decide
    have : normalizeH2 ((pStatus, natDec st) :: fs) = (pStatus, natDec st) :: normalizeH2 fs := by
      simp [normalizeH2, hl']
    simp only [formatH2Response, if_true]
    rw [this, hnormfs]
  refine ⟨hfmt, ?_⟩
  have hdec' : natDec st = [a, b', c] := by rw [hdec, ← hx, ← hy, ← hz]
  rw [hfmt, hdec', parse_status_block a b' c hcond.1.1.1.1 hcond.1.1.1.2 hcond.1.1.2 hcond.1.2 fs hreg, hst]

/-- **h1_to_h2_response.** The header block written over HTTP/2 for an HTTP/1 response (any three-digit status, field
    names that are tokens) decodes to the same status and to the fields lower-cased, stripped and without the
    connection-specific ones — in the original order. -/
theorem h1_to_h2_response (st : Nat) (fs : List Field) (hst : 100 ≤ st ∧ st ≤ 999)
    (htok : ∀ f ∈ fs, isToken f.1 = true) :
    formatH2Response st fs false = (pStatus, natDec st) :: normalizeH1 fs ∧
    parseH2Response (formatH2Response st fs false) = some (st, normalizeH1 fs) := by
  let x : Fin 10 := ⟨st / 100, by omega⟩
  let y : Fin 10 := ⟨st / 10 % 10, by omega⟩
  let z : Fin 10 := ⟨st % 10, by omega⟩
  have hx0 : x.val ≠ 0 := by show st / 100 ≠ 0; omega
  have hsum : x.val * 100 + y.val * 10 + z.val = st := by show st / 100 * 100 + st / 10 % 10 * 10 + st % 10 = st; omega
  have hdec : natDec st = [UInt8.ofNat (48 + x.val), UInt8.ofNat (48 + y.val), UInt8.ofNat (48 + z.val)] := by
    rw [← hsum]; exact dec3 x y z hx0
  have hname : pyStrip (lower pStatus) = pStatus := by decide
  have hfmt : formatH2Response st fs false = (pStatus, natDec st) :: normalizeH1 fs := by
    simp only [formatH2Response, Bool.false_eq_true, if_false, normalizeH1, List.map_cons, List.filter_cons]
    rw [hname, hdec, strip3 x y z]
    have hnm : pStatus ∉ Gen.C06.connectionHeaders := by decide
    simp [hnm]
  refine ⟨hfmt, ?_⟩
  obtain ⟨dx, vx, nx⟩ := digit_facts x
  obtain ⟨dy, vy, _⟩ := digit_facts y
  obtain ⟨dz, vz, _⟩ := digit_facts z
  rw [hfmt, hdec, parse_status_block _ _ _ dx dy dz (nx hx0) _ (normalizeH1_regular fs htok), vx, vy, vz, hsum]

private theorem valid_values_resp (b : Block) (hv : h2ValidResp b = true) :
    ∀ f ∈ b, ∀ c ∈ f.2, c ≠ 0 ∧ c ≠ 10 ∧ c ≠ 13 := by
  intro f hf c hc
  simp only [h2ValidResp, Bool.and_eq_true] at hv
  have h1 := (List.all_eq_true.mp hv.1.1) f hf
  simp only [fieldOk, Bool.and_eq_true, h2ValueOk] at h1
  have := (List.all_eq_true.mp h1.1.1.1.2.1.1) c hc
  simp at this
  exact ⟨this.1.1, this.1.2, this.2⟩

private theorem validateHeaders_parts (fs : List Field) (isReq noTe : Bool)
    (hh : validateHeaders fs false isReq noTe = true) :
    (∀ f ∈ fs, isToken f.1 = true) ∧ fs.filter (nameIs sTE) = []
      ∧ (fs.filter (nameIs sCL) = [] ∨ ∃ g, fs.filter (nameIs sCL) = [g] ∧ clStrict g.2 = true) := by
  simp only [validateHeaders, Bool.and_eq_true] at hh
  obtain ⟨hall, hfr⟩ := hh
  have hte : fs.filter (nameIs sTE) = [] := by
    cases hte : fs.filter (nameIs sTE) with
    | nil => rfl
    | cons t ts =>
      exfalso
      simp only [hte, List.map_cons] at hfr
      cases ts <;> simp at hfr
  refine ⟨?_, hte, ?_⟩
  · intro f hf
    have := (List.all_eq_true.mp hall) f hf
    simp only [Bool.and_eq_true] at this
    exact this.1
  · simp only [hte, List.map_nil] at hfr
    cases hcl : fs.filter (nameIs sCL) with
    | nil => left; rfl
    | cons g gs =>
      right
      cases gs with
      | nil => exact ⟨g, rfl, by simpa [hcl] using hfr⟩
      | cons g2 gs2 => simp [hcl] at hfr

/-- hyper-h2's content-length law for a buffered response body -/
def RespClLaw (fs : List Field) (body : Bytes) : Prop :=
  ∀ g, fs.filter (nameIs sCL) = [g] → Ref.parseDec g.2 = some body.length

/-- mitmproxy closes the client connection after a response whose end only the close can mark
    (`expected_http_body_size == -1`: a body is allowed and no content-length is given) -/
def closeAfter (method : Bytes) (st : Nat) (fs : List Field) : Bool := !bodiless method st && !hasName sCL fs

/-- A final response received over HTTP/2 that hyper-h2's validator, `parse_h2_response_headers` and
    `validate_headers` accept, with a buffered body obeying the content-length law, is written to an HTTP/1 client as
    bytes that the response-stream reference reader — told whether mitmproxy closes the connection afterwards — reads as
    EXACTLY ONE response with the same status, fields and body (no body for HEAD/204/304): framed by Content-Length, by
    the close of the connection, or not at all, never ambiguously. -/
theorem h2_to_h1_response_single_message (method : Bytes) (b : Block) (body : Bytes) (st : Nat) (fs : List Field)
    (hv : h2ValidResp b = true) (hp : parseH2Response b = some (st, fs))
    (hval : validateHeaders fs false false (decide (100 ≤ st ∧ st ≤ 199) || st = 204) = true)
    (hfinal : 200 ≤ st) (hconn : (asciiUpper method == sConnect) = false) (hcl : RespClLaw fs body) :
    h2RespToH1 method b body
      = some (assembleResponseHead sHttp11 st (reason st) fs ++ (if bodiless method st then [] else body)) ∧
    Ref.parseResp (closeAfter method st fs) [method]
        (assembleResponseHead sHttp11 st (reason st) fs ++ (if bodiless method st then [] else body))
      = some [⟨sHttp11, st, joinWith [32] (splitOn 32 (reason st)), fs.map readBack,
               if bodiless method st then [] else body⟩] := by
  refine ⟨by unfold h2RespToH1; rw [hp]; simp only []; rw [if_pos hval], ?_⟩
  obtain ⟨ps, a, b', c, hs, hl, hcond, hst⟩ := parseH2Response_some b st fs hp
  have sp := status_preserved b st fs hp
  have vv := valid_values_resp b hv
  have vp := validateHeaders_parts fs false _ hval
  have hmem := (splitPseudo_mem b [] ps fs hs).2
  have hclean : ∀ f ∈ fs, fieldClean f := fun f hf => ⟨vp.1 f hf, vv f (hmem f hf)⟩
  -- the status line
  let line := sHttp11 ++ [32] ++ natDec st ++ [32] ++ reason st
  have hdig : ∀ q ∈ natDec st, isDigit q = true :=
    fun q hq => ((natDigits_foldl (st + 1) st (by omega)).2.2 q hq).1
  have hline : clean line := by
    have h32 : clean ([32] : Bytes) := by intro q hq; simp at hq; subst hq; decide
    have hv11 : clean sHttp11 := by intro q hq; revert q; decide
    have hnd : clean (natDec st) := by
      intro q hq
      have := hdig q hq
      constructor <;> (intro e; subst e; revert this; decide)
    exact clean_append (clean_append (clean_append (clean_append hv11 h32) hnd) h32) (reason_clean st)
  have hlne : line ≠ [] := by simp [line, sHttp11]
  have hbytes : assembleResponseHead sHttp11 st (reason st) fs ++ (if bodiless method st then [] else body)
      = line ++ crlf ++ fieldLines fs ++ crlf ++ (if bodiless method st then [] else body) := by
    simp [assembleResponseHead, line, List.append_assoc]
  have hte : ((fs.map readBack).filter (nameIs sTE)) = [] := by rw [filter_readBack, vp.2.1]; rfl
  have hclf : ((fs.map readBack).filter (nameIs sCL)) = (fs.filter (nameIs sCL)).map readBack := filter_readBack _ _
  have hst2 : ¬(100 ≤ st ∧ st ≤ 199) := by omega
  -- what the reference reader takes as the framing
  have key : ∃ fr, Ref.framingResp sHttp11 st method (fs.map readBack) = some fr ∧
      ((fr = .none ∧ (if bodiless method st then [] else body) = []) ∨
       fr = .cl (if bodiless method st then [] else body).length ∨
       (fr = .eof ∧ closeAfter method st fs = true)) := by
    have hbl : bodilessR st method = bodiless method st := by
      have h1 : (decide (100 ≤ st) && decide (st ≤ 199)) = false := by simp; omega
      simp [bodilessR, bodiless, h1, hconn]
    rcases vp.2.2 with hnone | ⟨g, hg, hstrict⟩
    · have hf := framingResp_nocl st method (fs.map readBack) hte (by rw [hclf, hnone]; rfl)
      rw [hbl] at hf
      by_cases hB : bodiless method st = true
      · exact ⟨.none, by rw [hf]; simp [hB], Or.inl ⟨rfl, by simp [hB]⟩⟩
      · have hBf : bodiless method st = false := by simpa using hB
        refine ⟨.eof, by rw [hf]; simp [hBf], Or.inr (Or.inr ⟨rfl, ?_⟩)⟩
        have : hasName sCL fs = false := by rw [hasName_iff, hnone]; rfl
        simp [closeAfter, hBf, this]
    · have hdg : ∀ q ∈ g.2, isDigit q = true := clStrict_digits g.2 hstrict
      have hf := framingResp_cl st method (fs.map readBack) g.2 body.length hte
        (by rw [hclf, hg]; simp [readBack, (digits_item _ hdg).2]) hdg (hcl g hg)
      rw [hbl] at hf
      by_cases hB : bodiless method st = true
      · exact ⟨.none, by rw [hf]; simp [hB], Or.inl ⟨rfl, by simp [hB]⟩⟩
      · have hBf : bodiless method st = false := by simpa using hB
        exact ⟨.cl body.length, by rw [hf]; simp [hBf], Or.inr (Or.inl (by simp [hBf]))⟩
  obtain ⟨fr, hfr, hb⟩ := key
  rw [hbytes]
  exact ref_parse_resp_assembled line st _ method fs _ fr _ hline hlne sp.2.1 hfinal hconn hclean hfr hb

/-- `h2_to_h1_response_single_message` with the content-length law replaced by hyper-h2's own (transcribed, tied)
    check, for a stream ended by a DATA frame (`endOnTrailers := false`); the excluded input classes are findings F-C06b
    (`hguard`) and F-C06d (ended by trailers) -/
theorem h2_to_h1_response_single_message_checked (method : Bytes) (b : Block) (body : Bytes) (st : Nat) (fs : List Field)
    (hv : h2ValidResp b = true) (hp : parseH2Response b = some (st, fs))
    (hval : validateHeaders fs false false (decide (100 ≤ st ∧ st ≤ 199) || st = 204) = true)
    (hfinal : 200 ≤ st) (hconn : (asciiUpper method == sConnect) = false)
    (hck : h2ClOk false b body.length (endOnTrailers := false) = true)
    (hguard : body = [] → ∀ v ∈ valuesOf sCL b, Ref.parseDec v = some 0) :
    h2RespToH1 method b body
      = some (assembleResponseHead sHttp11 st (reason st) fs ++ (if bodiless method st then [] else body)) ∧
    Ref.parseResp (closeAfter method st fs) [method]
        (assembleResponseHead sHttp11 st (reason st) fs ++ (if bodiless method st then [] else body))
      = some [⟨sHttp11, st, joinWith [32] (splitOn 32 (reason st)), fs.map readBack,
               if bodiless method st then [] else body⟩] :=
  h2_to_h1_response_single_message method b body st fs hv hp hval hfinal hconn
    (resp_cl_law_from_h2_check b body st fs hv hp hck hguard)

/-- e.g. a 200 without content-length is delimited by the close; a 204 carries no body whatever the server sent -/
example : (h2RespToH1 [71, 69, 84] [(pStatus, [50, 48, 48]), ([120], [49])] [97, 98]).map (Ref.parseResp true [[71, 69, 84]]) =
    some (some [⟨sHttp11, 200, [79, 75], [([120], [49])], [97, 98]⟩]) := by decide
example : (h2RespToH1 [71, 69, 84] [(pStatus, [50, 48, 48]), ([120], [49])] [97, 98]).map (Ref.parseResp false [[71, 69, 84]]) =
    some none := by decide
example : (h2RespToH1 [71, 69, 84] [(pStatus, [50, 48, 52])] [97, 98]).map (Ref.parseResp false [[71, 69, 84]]) =
    some (some [⟨sHttp11, 204, [78, 111, 32, 67, 111, 110, 116, 101, 110, 116], [], []⟩]) := by decide

/-! ### the hypotheses are satisfiable and the model rejects what it must -/

def exBlock : Block :=
  [(pMethod, [80, 79, 83, 84]), (pScheme, sHttp), (pPath, [47]), (pAuthority, [97, 46, 98]),
   (sCookieL, [97, 61, 98]), ([120, 45, 97], [49]), (sCookieL, [99, 61, 100])]

example : h2ValidReq exBlock = true := by decide
example : (parseH2Request true exBlock).map (fun r => validateRequest r false) = some true := by decide
/-- the example of the fixed defect: a body without content-length gets one, cookies are joined, Host is inserted -/
example : (h2ToH1 true exBlock [71, 69, 84]).map Ref.parse =
    some (some [⟨[80, 79, 83, 84], [47], sHttp11,
      [(sHost, [97, 46, 98]), (sCookieL, [97, 61, 98, 59, 32, 99, 61, 100]), ([120, 45, 97], [49]), (sCL, [51])],
      [71, 69, 84]⟩]) := by decide
/-- whitespace in :path is refused (the request line would be split differently) -/
example : (parseH2Request true [(pMethod, [71, 69, 84]), (pScheme, sHttp), (pPath, [47, 97, 32, 98]), (pAuthority, [97])]).map
    (fun r => validateRequest r false) = some false := by decide
/-- duplicate pseudo-header -/
example : parseH2Request true [(pMethod, [71]), (pMethod, [72]), (pScheme, sHttp), (pPath, [47])] = none := by decide
/-- the reference reader does refuse an unframed body: two messages / malformed -/
example : Ref.parse ([71, 69, 84, 32, 47, 32] ++ sHttp11 ++ crlf ++ crlf ++ [120]) = none := by decide
example : parseH2Response [(pStatus, [50, 48, 48])] = some (200, []) := by decide
example : parseH2Response [(pStatus, [45, 50, 48, 48])] = none := by decide
example : parseH2Response [(pStatus, [48, 50, 48, 48])] = none := by decide

/-! ### audit round 6 (cross-audit by b-c04): non-vacuity witnesses where the hypotheses are NOT trivially true

  `exBlock` above carries no content-length, so `ClLaw` / `hguard` hold there for the empty reason.  Below: a request
  and a response WITH a content-length field and a body, the streamed guard with a non-empty body, an HTTP/1-sourced
  request with Host + a connection-specific field, trailers, and the one place where a default argument matters. -/

def auBlockCL : Block :=
  [(pMethod, [80, 79, 83, 84]), (pScheme, sHttp), (pPath, [47]), (pAuthority, [97, 46, 98]), (sCL, [51])]
def auReqCL : Req := ⟨[80, 79, 83, 84], sHttp, [97, 46, 98], [47], [(sCL, [51])]⟩

example : h2ValidReq auBlockCL = true ∧ parseH2Request true auBlockCL = some auReqCL ∧
    validateRequest auReqCL false = true ∧ h2ClOk false auBlockCL 3 = true := by decide
-- the content-length law is derived, not vacuous: the filter is `[(content-length, "3")]` and the body has 3 bytes
example : ClLaw auReqCL [71, 69, 84] :=
  cl_law_from_h2_check true auBlockCL [71, 69, 84] auReqCL (by decide) (by decide) (by decide) (by intro h; cases h)
example : auReqCL.fields.filter (nameIs sCL) = [(sCL, [51])] := by decide
example : (h2ToH1 true auBlockCL [71, 69, 84]).map Ref.parse =
    some (some [⟨[80, 79, 83, 84], [47], sHttp11, [(sHost, [97, 46, 98]), (sCL, [51])], [71, 69, 84]⟩]) := by decide
-- … and the check does reject a wrong length (so `hck` is a real hypothesis)
example : h2ClOk false auBlockCL 2 = false := by decide
-- streamed conversion: the guard of the `_partial` theorem with a NON-empty body (content-length present)
example : streamedFramed auReqCL [[71], [69, 84]] = true ∧
    (h2ToH1Streamed true auBlockCL [[71], [69, 84]]).map Ref.parse =
      some (some [⟨[80, 79, 83, 84], [47], sHttp11, [(sHost, [97, 46, 98]), (sCL, [51])], [71, 69, 84]⟩]) := by decide

/-- DEFAULT ARGUMENT: `h2ClOk … (endOnTrailers := false)`.  The `_checked` theorems take `hck` with the default, i.e. for
    a stream ended by a DATA frame.  For a stream ended by trailers hyper-h2 only checks "not more than announced": the
    check passes with 2 of 3 announced bytes, and the content-length law is FALSE there (findings F-C06d/e) — this class
    is outside the `_checked` theorems although their guard `hguard` does not mention it. -/
example : h2ClOk false auBlockCL 2 true = true ∧ ¬ ClLaw auReqCL [71, 69] := by
  refine ⟨by decide, fun h => ?_⟩
  have := h (sCL, [51]) (by decide)
  revert this; decide

-- HTTP/1 -> HTTP/2: hypotheses of `h1_to_h2` on a request with Host, a connection-specific field and an upper-case name
def auH1 : Req := ⟨[71, 69, 84], sHttp, [], [47], [(sHost, [97, 46, 98]), ([67, 111, 110, 110, 101, 99, 116, 105, 111, 110], [120]), ([88, 45, 65], [32, 49, 32])]⟩
example : auH1.authority = [] ∧ (auH1.fields.all fun f => isToken f.1) = true := by decide
example : parseH2Request true (formatH2Request auH1 false) =
    some ⟨[71, 69, 84], sHttp, [97, 46, 98], [47], [([120, 45, 97], [49])]⟩ := by decide
-- HTTP/2 -> HTTP/2: the parse-back of `h2_to_h2` on the block with cookies
example : (parseH2Request true exBlock).map (fun r => parseH2Request true (formatH2Request r true) == some r) = some true := by decide
-- trailers: the hypothesis of `h2_to_h2_trailers`, and a block it rejects (pseudo-header / upper-case name)
example : h2ValidTrailers [([120, 45, 116], [49]), ([121], [])] = true := by decide
example : h2ValidTrailers [(pStatus, [50, 48, 48])] = false ∧ h2ValidTrailers [([88], [49])] = false := by decide

-- responses: every hypothesis of `h2_to_h1_response_single_message(_checked)` with a content-length and a body
def auResp : Block := [(pStatus, [50, 48, 48]), (sCL, [50]), ([120], [49])]
example : h2ValidResp auResp = true ∧ parseH2Response auResp = some (200, [(sCL, [50]), ([120], [49])]) ∧
    validateHeaders [(sCL, [50]), ([120], [49])] false false (decide (100 ≤ 200 ∧ 200 ≤ 199) || (200 : Nat) = 204) = true ∧
    h2ClOk false auResp 2 = true ∧ (asciiUpper [71, 69, 84] == sConnect) = false := by decide
example : RespClLaw [(sCL, [50]), ([120], [49])] [97, 98] :=
  resp_cl_law_from_h2_check auResp [97, 98] 200 _ (by decide) (by decide) (by decide) (by intro h; cases h)
-- kept-alive (closeAfter = false): framed by content-length, exactly one response
example : closeAfter [71, 69, 84] 200 [(sCL, [50]), ([120], [49])] = false ∧
    (h2RespToH1 [71, 69, 84] auResp [97, 98]).map (Ref.parseResp false [[71, 69, 84]]) =
      some (some [⟨sHttp11, 200, [79, 75], [(sCL, [50]), ([120], [49])], [97, 98]⟩]) := by decide

/-! ### owner fixes after the round-6 audit -/

/-- The full statement one would like — "whatever ends the stream, hyper-h2's content-length check implies the
    content-length law" — with `endOnTrailers` universally quantified. -/
def cl_law_from_h2_check_any_end : Prop :=
  ∀ (authOk : Bool) (b : Block) (body : Bytes) (r : Req) (endOnTrailers : Bool),
    h2ValidReq b = true → parseH2Request authOk b = some r → h2ClOk false b body.length endOnTrailers = true →
    (body = [] → ∀ v ∈ valuesOf sCL b, Ref.parseDec v = some 0) → ClLaw r body

/-- **cl_law_trailers_counterexample** (findings F-C06d/e): it is FALSE.  A request that announces 3 bytes, sends 2 and
    ends the stream with a trailers frame passes hyper-h2's check (`_track_content_length` only compares at the DATA
    frame carrying END_STREAM) — `cl_law_from_h2_check` and the `_checked` theorems therefore need
    `endOnTrailers := false`. -/
theorem cl_law_trailers_counterexample : ¬ cl_law_from_h2_check_any_end := by
  intro h
  have hl := h true auBlockCL [71, 69] auReqCL true (by decide) (by decide) (by decide) (by intro e; cases e)
  have := hl (sCL, [51]) (by decide)
  revert this; decide

/-- … and the conversion theorem itself fails on that class: the HTTP/1 bytes written announce 3 body bytes and carry 2,
    the strict reader does not read them as the one message that was sent (it waits for the third byte). -/
theorem h2_to_h1_trailers_counterexample :
    h2ClOk false auBlockCL 2 true = true ∧
    (h2ToH1 true auBlockCL [71, 69]).map Ref.parse
      ≠ some (some [⟨auReqCL.method, auReqCL.path, sHttp11, (toH1Fields auReqCL [71, 69]).map readBack, [71, 69]⟩]) := by
  decide

end MitmVerif.Props.C06
