/-
  C07 — property theorems about the body state machine of HttpStream and about parse_size.

  * `over_limit_errors`            : a body known to exceed body_size_limit (Content-Length at the headers, or the bytes
                                     buffered so far) ⇒ error hook, error to the client (and to the server for a response),
                                     state errored for ever, and no byte of the body and no head was forwarded.
  * `BufferBound` (full statement) : at all times buf.length ≤ limit + (one received chunk).
    `buffer_bound_partial`         : proved whenever not (store_streamed_bodies ∧ streaming);
    `buffer_bound_counterexample`  : the full statement fails for store_streamed_bodies while streaming (finding F-C07a).
  * `streamed_exact`               : a body streamed from the headers on is delivered as
                                     chunks.flatMap (norm ∘ f) ++ normEnd (f []), in order, chunk by chunk.
  * `relayed_exact_any_chunking`   : without a callable the delivered bytes are exactly the received bytes, whichever
                                     way the body was chunked and whether it was buffered, streamed or switched late.
  * `stored_iff_option`            : a streamed message keeps exactly the delivered bytes iff store_streamed_bodies.
  * `unstored_stream_holds_nothing`: streaming without store_streamed_bodies holds no byte at any time.
  * `sizeUnits_table`, `parseSize_decimal`, `parseSize_suffix`.
-/
import MitmVerif.Model.C07
import MitmVerif.Model.C07_Reader
import MitmVerif.Model.C07_Exchange
import MitmVerif.Lemmas.C01_Roundtrip
import MitmVerif.Model.C07_Writer
namespace MitmVerif.Props.C07
open MitmVerif MitmVerif.C07

variable (o : Opts) (resp : Bool) (pol : Policy) (f : Bytes → Ret)

/-! ### generalities -/

private theorem run_append (st : St) (a b : List Ev) :
    run o resp pol f st (a ++ b) =
      ((run o resp pol f (run o resp pol f st a).1 b).1,
       (run o resp pol f st a).2 ++ (run o resp pol f (run o resp pol f st a).1 b).2) := by
  induction a generalizing st with
  | nil => simp [run]
  | cons e es ih => simp [run, ih, List.append_assoc]

private theorem step_errored (st : St) (h : st.phase = .errored) (e : Ev) :
    step o resp pol f st e = (st, []) := by
  cases e <;> simp [step, h]

private theorem step_done (st : St) (h : st.phase = .done) (e : Ev) :
    step o resp pol f st e = (st, []) := by
  cases e <;> simp [step, h]

private theorem run_errored (st : St) (h : st.phase = .errored) (es : List Ev) :
    run o resp pol f st es = (st, []) := by
  induction es with
  | nil => simp [run]
  | cons e es ih => simp [run, step_errored o resp pol f st h, ih]

private theorem run_done (st : St) (h : st.phase = .done) (es : List Ev) :
    run o resp pol f st es = (st, []) := by
  induction es with
  | nil => simp [run]
  | cons e es ih => simp [run, step_done o resp pol f st h, ih]

private theorem dataOf_append (a b : List Out) : dataOf (a ++ b) = dataOf a ++ dataOf b := by
  induction a with
  | nil => simp [dataOf]
  | cons x xs ih => cases x <;> simp [dataOf, ih]

private theorem dataOf_map (l : List Bytes) : dataOf (l.map Out.sendData) = l := by
  induction l with
  | nil => simp [dataOf]
  | cons x xs ih => simp [dataOf, ih]

/-! ### over_limit_errors -/

/-- only the headers hook: nothing reached the peer -/
def Quiet (outs : List Out) : Prop := ∀ x ∈ outs, x = Out.hookHeaders

private theorem quiet_dataOf {outs : List Out} (h : Quiet outs) : dataOf outs = [] := by
  induction outs with
  | nil => simp [dataOf]
  | cons x xs ih =>
    have hx := h x (by simp)
    subst hx
    simp only [dataOf]
    exact ih (fun y hy => h y (by simp [hy]))

private theorem quiet_noHead {outs : List Out} (h : Quiet outs) : Out.sendHead ∉ outs := by
  intro hm; have := h _ hm; cases this

def Early (p : Phase) : Prop := p = .waitHeaders ∨ p = .consume

/-- a step that ends before anything is sent started there too and emitted at most the headers hook -/
private theorem step_early (st : St) (e : Ev) (h : Early (step o resp pol f st e).1.phase) :
    Early st.phase ∧ Quiet (step o resp pol f st e).2 := by
  unfold Early at *
  cases e with
  | headers exp endS =>
    cases hp : st.phase <;> cases endS <;> cases pol <;> cases hc : check o exp [] <;>
      simp [step, hp, hc, Quiet] at h ⊢
  | data b =>
    cases hp : st.phase
    case consume =>
      cases hc : check o st.exp (st.buf ++ b)
      · simp [step, hp, hc, Quiet]
      · simp [step, hp, hc] at h
      · by_cases hb : st.buf ++ b = []
        · rw [hb] at hc
          simp [step, hp, hc, hb, Quiet]
        · simp [step, hp, hc, hb, relay] at h
    case stream => simp [step, hp, relay] at h
    all_goals simp [step, hp, Quiet] at h ⊢
  | eom =>
    cases hp : st.phase <;> simp [step, hp, Quiet, relay] at h ⊢

private theorem run_early (st : St) (es : List Ev) (h : Early (run o resp pol f st es).1.phase) :
    Early st.phase ∧ Quiet (run o resp pol f st es).2 := by
  induction es generalizing st with
  | nil => simp [run, Quiet] at h ⊢; exact h
  | cons e es ih =>
    simp only [run] at h ⊢
    have h2 := ih _ h
    have h1 := step_early o resp pol f st e h2.1
    refine ⟨h1.1, ?_⟩
    intro x hx
    rcases List.mem_append.mp hx with hx | hx
    · exact h1.2 x hx
    · exact h2.2 x hx

/-- the body is known to exceed the limit when `ev` arrives in state `s`: from Content-Length at the headers, or
    from the bytes buffered so far -/
def KnownTooLarge (o : Opts) (s : St) (ev : Ev) : Prop :=
  ∃ L, o.limit = some L ∧
    ((s.phase = .waitHeaders ∧ ∃ n : Nat, ev = .headers (.known n) false ∧ 0 < n ∧ (n : Int) > L) ∨
     (s.phase = .consume ∧ ∃ b, ev = .data b ∧ s.buf ++ b ≠ [] ∧ ((s.buf ++ b).length : Int) > L))

private theorem abortOuts_spec (r e : Bool) :
    Out.hookError ∈ abortOuts r e ∧ Out.errClient ∈ abortOuts r e ∧ (r = true → Out.errServer ∈ abortOuts r e) ∧
    dataOf (abortOuts r e) = [] ∧ Out.sendHead ∉ abortOuts r e := by
  cases r <;> cases e <;> simp [abortOuts, dataOf]

private theorem expectedSize_late (exp : ExpSize) (buf : Bytes) (h : buf ≠ []) :
    expectedSize exp buf = some (buf.length : Int) := by
  simp [expectedSize, h]

private theorem check_abort (exp : ExpSize) (buf : Bytes) (L n : Int) (hL : o.limit = some L)
    (he : expectedSize exp buf = some n) (hpos : 0 < n) (hgt : n > L) : check o exp buf = .abort := by
  have h1 : ¬ n ≤ 0 := by omega
  simp [check, he, hL, exceeds, h1, hgt]

private theorem step_tooLarge (s : St) (ev : Ev) (h : KnownTooLarge o s ev) :
    (step o resp pol f s ev).1.phase = .errored ∧
    ∃ e, (step o resp pol f s ev).2 = abortOuts resp e := by
  obtain ⟨L, hL, h⟩ := h
  rcases h with ⟨hp, n, rfl, hn, hgt⟩ | ⟨hp, b, rfl, hne, hgt⟩
  · have hc : check o (.known n) [] = .abort :=
      check_abort o _ _ L n hL (by simp [expectedSize]) (by omega) hgt
    simp [step, hp, hc]
  · have hc : check o s.exp (s.buf ++ b) = .abort := by
      have : 0 < (s.buf ++ b).length := List.length_pos_iff.mpr hne
      exact check_abort o _ _ L _ hL (expectedSize_late _ _ hne) (by omega) hgt
    refine ⟨by simp [step, hp, hc], (s.buf ++ b).isEmpty, by simp [step, hp, hc]⟩

/-- **over_limit_errors.** Whatever happened before (`pre`) and whatever follows (`post`): if at event `ev` the body is
    known to exceed body_size_limit, the run ends errored, the error hook fired, the client (and for a response the
    server) got the error, and neither the head nor a single body byte was ever forwarded. -/
theorem over_limit_errors (pre post : List Ev) (ev : Ev)
    (h : KnownTooLarge o (run o resp pol f init pre).1 ev) :
    (run o resp pol f init (pre ++ ev :: post)).1.phase = .errored ∧
    Out.hookError ∈ (run o resp pol f init (pre ++ ev :: post)).2 ∧
    Out.errClient ∈ (run o resp pol f init (pre ++ ev :: post)).2 ∧
    (resp = true → Out.errServer ∈ (run o resp pol f init (pre ++ ev :: post)).2) ∧
    dataOf (run o resp pol f init (pre ++ ev :: post)).2 = [] ∧
    Out.sendHead ∉ (run o resp pol f init (pre ++ ev :: post)).2 := by
  have hearly : Early (run o resp pol f init pre).1.phase := by
    obtain ⟨L, _, h'⟩ := h
    rcases h' with ⟨hp, _⟩ | ⟨hp, _⟩
    · exact Or.inl hp
    · exact Or.inr hp
  have hq := (run_early o resp pol f init pre hearly).2
  obtain ⟨herr, e, houts⟩ := step_tooLarge o resp pol f _ ev h
  obtain ⟨a1, a2, a3, a4, a5⟩ := abortOuts_spec resp e
  rw [run_append]
  simp only [run]
  rw [run_errored o resp pol f _ herr post, houts]
  simp only [List.append_nil]
  refine ⟨herr, ?_, ?_, ?_, ?_, ?_⟩
  · exact List.mem_append.mpr (Or.inr a1)
  · exact List.mem_append.mpr (Or.inr a2)
  · intro hr; exact List.mem_append.mpr (Or.inr (a3 hr))
  · rw [dataOf_append, quiet_dataOf hq, a4]; rfl
  · intro hm
    rcases List.mem_append.mp hm with hm | hm
    · exact quiet_noHead hq hm
    · exact a5 hm

/-! ### buffer_bound -/

/-- **Full statement** (DESIGN §5 C07 `buffer_bound`): at all times the buffer holds at most the limit plus one chunk
    that was received.  It does NOT hold for the current code (see `buffer_bound_counterexample`, finding F-C07a). -/
def BufferBound (o : Opts) (resp : Bool) (pol : Policy) (f : Bytes → Ret) : Prop :=
  ∀ L, o.limit = some L → ∀ evs : List Ev,
    ∃ c, (c = [] ∨ Ev.data c ∈ evs) ∧ (run o resp pol f init evs).1.buf.length ≤ L.toNat + c.length

/-- invariant behind the bound; `seen` = the events so far -/
private def J (o : Opts) (L : Int) (s : St) (seen : List Ev) : Prop :=
  (s.phase = .waitHeaders → s.buf = []) ∧
  (s.phase = .consume → s.buf.length ≤ L.toNat) ∧
  (s.phase = .done → s.buf = []) ∧
  (s.phase = .stream → o.store = false → s.buf = []) ∧
  (s.phase = .errored → ∃ c, (c = [] ∨ Ev.data c ∈ seen) ∧ s.buf.length ≤ L.toNat + c.length)

private theorem J_mono (L : Int) (s : St) (seen : List Ev) (e : Ev) (h : J o L s seen) : J o L s (seen ++ [e]) := by
  obtain ⟨h1, h2, h3, h4, h5⟩ := h
  refine ⟨h1, h2, h3, h4, ?_⟩
  intro hp
  obtain ⟨c, hc, hl⟩ := h5 hp
  refine ⟨c, ?_, hl⟩
  rcases hc with hc | hc
  · exact Or.inl hc
  · exact Or.inr (List.mem_append.mpr (Or.inl hc))

private theorem check_pass_le (exp : ExpSize) (buf : Bytes) (L : Int) (hL : o.limit = some L)
    (hc : check o exp buf ≠ .abort) : buf.length ≤ L.toNat := by
  by_cases hb : buf = []
  · simp [hb]
  · have hpos : 0 < buf.length := List.length_pos_iff.mpr hb
    have h1 : ¬ ((buf.length : Int) ≤ 0) := by omega
    by_cases hgt : (buf.length : Int) > L
    · exact absurd (check_abort o exp buf L _ hL (expectedSize_late _ _ hb) (by omega) hgt) hc
    · omega

private theorem J_step (L : Int) (hL : o.limit = some L) (s : St) (seen : List Ev) (e : Ev) (h : J o L s seen) :
    J o L (step o resp pol f s e).1 (seen ++ [e]) := by
  have hm := J_mono o L s seen e h
  obtain ⟨h1, h2, h3, h4, h5⟩ := h
  cases e with
  | headers exp endS =>
    cases hp : s.phase
    case waitHeaders =>
      have hb := h1 hp
      cases endS <;> cases pol <;> cases hc : check o exp [] <;>
        simp [step, hp, hc, J, hb] <;> exact ⟨[], Or.inl rfl, by simp⟩
    all_goals simpa [step, hp] using hm
  | data b =>
    cases hp : s.phase
    case consume =>
      have hb := h2 hp
      cases hc : check o s.exp (s.buf ++ b)
      · -- pass
        have := check_pass_le o s.exp (s.buf ++ b) L hL (by simp [hc])
        simp [step, hp, hc, J]
        simpa using this
      · -- abort
        simp [step, hp, hc, J]
        exact Or.inr (Or.inr hb)
      · by_cases hbb : s.buf ++ b = []
        · have hbb' := hbb
          rw [hbb] at hc
          simp at hbb'
          simp [step, hp, hc, J, hbb'.1, hbb'.2]
        · simp [step, hp, hc, hbb, relay, J]
    case stream =>
      have hb := h4 hp
      simp only [step, hp, relay, J]
      refine ⟨by simp, by simp, by simp, ?_, by simp⟩
      intro _ hs
      simp [hs, hb hs]
    all_goals simpa [step, hp] using hm
  | eom =>
    cases hp : s.phase
    case consume => simp [step, hp, J]
    case stream =>
      have hb := h4 hp
      simp only [step, relay, hp, J]
      refine ⟨by simp, by simp, ?_, by simp, by simp⟩
      intro _
      cases hs : o.store
      · simp [hb hs]
      · simp
    all_goals simpa [step, hp] using hm

private theorem J_run (L : Int) (hL : o.limit = some L) (s : St) (seen evs : List Ev) (h : J o L s seen) :
    J o L (run o resp pol f s evs).1 (seen ++ evs) := by
  induction evs generalizing s seen with
  | nil => simpa [run] using h
  | cons e es ih =>
    have := ih _ _ (J_step o resp pol f L hL s seen e h)
    simpa [run, List.append_assoc] using this

private theorem J_init (L : Int) : J o L init [] := by
  simp [J, init]

/-- **buffer_bound_partial.** With body_size_limit = L, after every history the buffer holds at most L plus one received
    chunk — unless the flow is streaming with store_streamed_bodies (the guard excludes exactly the states in which the
    stream states append to the buffer; that class is finding F-C07a). -/
theorem buffer_bound_partial (L : Int) (hL : o.limit = some L) (evs : List Ev)
    (guard : ¬ (o.store = true ∧ (run o resp pol f init evs).1.phase = .stream)) :
    ∃ c, (c = [] ∨ Ev.data c ∈ evs) ∧ (run o resp pol f init evs).1.buf.length ≤ L.toNat + c.length := by
  have hJ := J_run o resp pol f L hL init [] evs (J_init o L)
  simp only [List.nil_append] at hJ
  obtain ⟨h1, h2, h3, h4, h5⟩ := hJ
  cases hp : (run o resp pol f init evs).1.phase
  · exact ⟨[], Or.inl rfl, by simp [h1 hp]⟩
  · exact ⟨[], Or.inl rfl, by have := h2 hp; simpa using this⟩
  · have hs : o.store = false := by
      cases hs : o.store
      · rfl
      · exact absurd ⟨hs, hp⟩ guard
    exact ⟨[], Or.inl rfl, by simp [h4 hp hs]⟩
  · exact ⟨[], Or.inl rfl, by simp [h3 hp]⟩
  · exact h5 hp

/-- while the body is being buffered the bound is even `buf.length ≤ L` before each chunk is added -/
theorem consume_buffer_le_limit (L : Int) (hL : o.limit = some L) (evs : List Ev)
    (hp : (run o resp pol f init evs).1.phase = .consume) :
    (run o resp pol f init evs).1.buf.length ≤ L.toNat := by
  have hJ := J_run o resp pol f L hL init [] evs (J_init o L)
  exact hJ.2.1 hp

/-- **buffer_bound_counterexample** (F-C07a): body_size_limit=2, stream_large_bodies=1, store_streamed_bodies: a chunked
    body of three 2-byte chunks is switched to streaming at the first chunk and the buffer grows to 6 > 2 + 2. -/
theorem buffer_bound_counterexample :
    ¬ BufferBound { limit := some 2, thr := some 1, store := true } false .none (fun d => .one d) := by
  intro h
  obtain ⟨c, hc, hl⟩ := h 2 rfl
    [.headers .unknown false, .data [1, 2], .data [3, 4], .data [5, 6]]
  have hrun : (run { limit := some 2, thr := some 1, store := true } false .none (fun d => .one d) init
      [.headers .unknown false, .data [1, 2], .data [3, 4], .data [5, 6]]).1.buf.length = 6 := by decide
  rw [hrun] at hl
  rcases hc with rfl | hc
  · simp at hl
  · simp at hc
    rcases hc with rfl | rfl | rfl <;> simp at hl

example : BufferBound { limit := none, thr := none, store := false } false .none (fun d => .one d) := by
  intro L hL; simp at hL

/-! ### streamed_exact, stored_iff_option -/

/-- what the callable (or its absence) makes of one received chunk / of the end of the message -/
def onData (useF : Bool) (f : Bytes → Ret) (c : Bytes) : List Bytes := if useF then normData (f c) else [c]
def onEnd (useF : Bool) (f : Bytes → Ret) : List Bytes := if useF then normEnd (f []) else []

/-- a body in the stream state: chunk by chunk, in order, then the end chunks; the flow keeps them iff store -/
private theorem stream_run (st : St) (hp : st.phase = .stream) (chunks : List Bytes) :
    let r := run o resp pol f st (chunks.map Ev.data ++ [Ev.eom])
    dataOf r.2 = chunks.flatMap (onData st.useF f) ++ onEnd st.useF f ∧
    r.1.phase = .done ∧
    r.1.content = (if o.store then some (st.buf ++ (dataOf r.2).flatten) else st.content) ∧
    r.1.buf = (if o.store then [] else st.buf) := by
  induction chunks generalizing st with
  | nil =>
    simp only [List.map_nil, List.nil_append, run, step, hp, relay, List.flatMap_nil]
    simp only [List.append_nil, dataOf_append, dataOf_map, onEnd]
    cases o.store <;> simp [dataOf]
  | cons c cs ih =>
    have hstep : step o resp pol f st (Ev.data c) =
        ({ st with buf := if o.store then st.buf ++ (onData st.useF f c).flatten else st.buf },
         (onData st.useF f c).map Out.sendData) := by
      simp [step, hp, relay, onData]
    have := ih { st with buf := if o.store then st.buf ++ (onData st.useF f c).flatten else st.buf } hp
    simp only [List.map_cons, List.cons_append, run, hstep, dataOf_append, dataOf_map, List.flatMap_cons]
    obtain ⟨i1, i2, i3, i4⟩ := this
    refine ⟨by rw [i1]; simp [List.append_assoc], i2, ?_, ?_⟩
    · rw [i3]; cases o.store <;> simp [List.append_assoc]
    · rw [i4]; cases o.store <;> simp

/-- **streamed_exact.** If the headers put the flow into the stream state (threshold exceeded by Content-Length, or the
    addon enabled streaming), then for EVERY chunk list the peer is sent, in order, exactly `f`'s output for each chunk
    followed by `f b""`'s output (or the chunks themselves when `.stream` is not a callable), and the flow ends done. -/
theorem streamed_exact (exp : ExpSize) (chunks : List Bytes)
    (hs : (step o resp pol f init (.headers exp false)).1.phase = .stream) :
    let s1 := (step o resp pol f init (.headers exp false)).1
    let r := run o resp pol f s1 (chunks.map Ev.data ++ [Ev.eom])
    dataOf r.2 = (if s1.useF then chunks.flatMap (fun c => normData (f c)) ++ normEnd (f []) else chunks) ∧
    r.1.phase = .done := by
  intro s1 r
  obtain ⟨h1, h2, _, _⟩ := stream_run o resp pol f s1 hs chunks
  refine ⟨?_, h2⟩
  show dataOf r.2 = _
  rw [show dataOf r.2 = _ from h1]
  have e0 : onData false f = fun c => [c] := by funext c; simp [onData]
  have e1 : onData true f = fun c => normData (f c) := by funext c; simp [onData]
  cases hu : s1.useF
  · simp [e0, onEnd]
  · simp [e1, onEnd]

/-- **stored_iff_option.** A message streamed from the headers on keeps exactly the bytes that were delivered when
    store_streamed_bodies is on, keeps nothing otherwise, and its buffer is empty afterwards. -/
theorem stored_iff_option (exp : ExpSize) (chunks : List Bytes)
    (hs : (step o resp pol f init (.headers exp false)).1.phase = .stream) :
    let s1 := (step o resp pol f init (.headers exp false)).1
    let r := run o resp pol f s1 (chunks.map Ev.data ++ [Ev.eom])
    r.1.content = (if o.store then some (dataOf r.2).flatten else none) ∧ r.1.buf = [] := by
  intro s1 r
  obtain ⟨_, _, h3, h4⟩ := stream_run o resp pol f s1 hs chunks
  have hb : s1.buf = [] ∧ s1.content = none := by
    have : init.phase = .waitHeaders := rfl
    cases pol <;> cases hc : check o exp [] <;> simp [s1, step, this, hc, init]
  refine ⟨?_, ?_⟩
  · show r.1.content = _
    rw [show r.1.content = _ from h3, hb.1, hb.2]; simp [r]
  · show r.1.buf = _
    rw [show r.1.buf = _ from h4, hb.1]; simp

/-- **unstored_stream_holds_nothing.** "relayed without buffering": without store_streamed_bodies a flow in the stream
    state never holds a byte, whatever arrives. -/
theorem unstored_stream_holds_nothing (hstore : o.store = false) (st : St)
    (hp : st.phase = .stream ∨ st.phase = .done) (hb : st.buf = []) (evs : List Ev) :
    ∀ n ∈ samples o resp pol f st evs, n = 0 := by
  induction evs generalizing st with
  | nil => simp [samples]
  | cons e es ih =>
    have hnext : ((step o resp pol f st e).1.phase = .stream ∨ (step o resp pol f st e).1.phase = .done) ∧
        (step o resp pol f st e).1.buf = [] := by
      rcases hp with hp | hp
      · cases e <;> simp [step, hp, relay, hstore, hb]
      · rw [step_done o resp pol f st hp]; exact ⟨Or.inr hp, hb⟩
    intro n hn
    simp only [samples, List.mem_cons] at hn
    rcases hn with rfl | hn
    · simp [hnext.2]
    · exact ih _ hnext.1 hnext.2 n hn

/-! ### relayed_exact_any_chunking -/

private theorem relay_noF (st : St) (hu : st.useF = false) (hp : st.phase = .consume ∨ st.phase = .stream)
    (chunks : List Bytes) :
    let r := run o resp pol f st (chunks.map Ev.data ++ [Ev.eom])
    r.1.phase = .done →
    (dataOf r.2).flatten = (if st.phase = .consume then st.buf else []) ++ chunks.flatten := by
  induction chunks generalizing st with
  | nil =>
    rcases hp with hp | hp
    · intro r _
      simp only [r, List.map_nil, List.nil_append, run, step, hp]
      by_cases hb : st.buf = [] <;> simp [hb, dataOf]
    · intro r _
      simp [r, run, step, hp, hu, relay, dataOf]
  | cons c cs ih =>
    rcases hp with hp | hp
    · intro r hdone
      simp only [r, List.map_cons, List.cons_append, run] at hdone ⊢
      cases hc : check o st.exp (st.buf ++ c)
      · -- pass
        have hstep : step o resp pol f st (Ev.data c) = ({ st with buf := st.buf ++ c }, []) := by
          simp [step, hp, hc]
        rw [hstep] at hdone ⊢
        have := ih { st with buf := st.buf ++ c } hu (Or.inl hp) hdone
        simp only [List.nil_append]
        rw [this]; simp [hp, List.append_assoc]
      · -- abort: the run cannot end done
        have hstep : (step o resp pol f st (Ev.data c)).1.phase = .errored := by simp [step, hp, hc]
        rw [run_errored o resp pol f _ hstep] at hdone
        rw [hstep] at hdone; cases hdone
      · by_cases hb : st.buf ++ c = []
        · have hb' := hb
          simp at hb'
          have hstep : step o resp pol f st (Ev.data c) = ({ st with buf := st.buf ++ c }, []) := by
            rw [hb] at hc
            simp [step, hp, hc, hb'.1, hb'.2]
          rw [hstep] at hdone ⊢
          have := ih { st with buf := st.buf ++ c } hu (Or.inl hp) hdone
          simp only [List.nil_append]
          rw [this]; simp [hp, List.append_assoc]
        · have hstep : step o resp pol f st (Ev.data c) =
              ({ st with buf := if o.store then st.buf ++ c else [], phase := .stream, useF := false },
               [Out.sendHead, Out.sendData (st.buf ++ c)]) := by
            simp [step, hp, hc, hb, relay]
          rw [hstep] at hdone ⊢
          have := ih { st with buf := if o.store then st.buf ++ c else [], phase := .stream, useF := false }
            rfl (Or.inr rfl) hdone
          rw [dataOf_append]
          simp only [List.flatten_append]
          rw [this]; simp [hp, dataOf, List.append_assoc]
    · intro r hdone
      simp only [r, List.map_cons, List.cons_append, run] at hdone ⊢
      have hstep : step o resp pol f st (Ev.data c) =
          ({ st with buf := if o.store then st.buf ++ c else st.buf }, [Out.sendData c]) := by
        simp [step, hp, hu, relay]
      rw [hstep] at hdone ⊢
      have := ih { st with buf := if o.store then st.buf ++ c else st.buf } hu (Or.inr hp) hdone
      rw [dataOf_append]
      simp only [List.flatten_append]
      rw [this]; simp [hp, dataOf]

/-- **relayed_exact_any_chunking.** When `.stream` is not a callable, every complete message that ends `done` delivers
    exactly the received bytes — whether it was buffered to the end, streamed from the headers on, or switched to
    streaming in the middle, and for every way of cutting the body into chunks. -/
theorem relayed_exact_any_chunking (hpol : pol ≠ .callable) (exp : ExpSize) (endS : Bool) (chunks : List Bytes)
    (hdone : (run o resp pol f init (.headers exp endS :: (chunks.map Ev.data ++ [Ev.eom]))).1.phase = .done) :
    (dataOf (run o resp pol f init (.headers exp endS :: (chunks.map Ev.data ++ [Ev.eom]))).2).flatten
      = chunks.flatten := by
  simp only [run] at hdone ⊢
  have hi : init.phase = .waitHeaders := rfl
  -- the state after the headers
  have hcases : (step o resp pol f init (.headers exp endS)).1.phase = .errored ∨
      ((step o resp pol f init (.headers exp endS)).1.useF = false ∧
       (step o resp pol f init (.headers exp endS)).1.buf = [] ∧
       ((step o resp pol f init (.headers exp endS)).1.phase = .consume ∨
        (step o resp pol f init (.headers exp endS)).1.phase = .stream) ∧
       dataOf (step o resp pol f init (.headers exp endS)).2 = []) := by
    cases endS <;> cases pol <;> cases hc : check o exp [] <;>
      simp [step, hi, hc, init, dataOf, abortOuts] at hpol ⊢
  rcases hcases with herr | ⟨hu, hb, hp, hd⟩
  · rw [run_errored o resp pol f _ herr] at hdone
    rw [herr] at hdone; cases hdone
  · have := relay_noF o resp pol f _ hu hp chunks hdone
    rw [dataOf_append, hd]
    simp only [List.nil_append]
    rw [this, hb]; simp

/-- two chunkings of the same body deliver the same bytes -/
theorem chunking_independent (hpol : pol ≠ .callable) (exp : ExpSize) (endS : Bool) (c1 c2 : List Bytes)
    (hsame : c1.flatten = c2.flatten)
    (h1 : (run o resp pol f init (.headers exp endS :: (c1.map Ev.data ++ [Ev.eom]))).1.phase = .done)
    (h2 : (run o resp pol f init (.headers exp endS :: (c2.map Ev.data ++ [Ev.eom]))).1.phase = .done) :
    (dataOf (run o resp pol f init (.headers exp endS :: (c1.map Ev.data ++ [Ev.eom]))).2).flatten =
    (dataOf (run o resp pol f init (.headers exp endS :: (c2.map Ev.data ++ [Ev.eom]))).2).flatten := by
  rw [relayed_exact_any_chunking o resp pol f hpol exp endS c1 h1,
      relayed_exact_any_chunking o resp pol f hpol exp endS c2 h2, hsame]

/-! ### non-vacuity -/

-- streamed_exact / stored_iff_option: the hypothesis holds e.g. for an addon that installs a callable
example : (step { limit := none, thr := none, store := true } false .callable (fun d => .many [d, d]) init
    (.headers .unknown false)).1.phase = .stream := by decide
-- ... and for Content-Length above stream_large_bodies
example : (step { limit := some 10, thr := some 3, store := false } true .none (fun d => .one d) init
    (.headers (.known 5) false)).1.phase = .stream := by decide
-- the model is not constant: duplicated chunks + end marker are delivered in order
example : dataOf (run { limit := none, thr := none, store := true } false .callable
    (fun d => .many [d, d]) init [.headers .unknown false, .data [1], .data [2, 3], .eom]).2
    = [[1], [1], [2, 3], [2, 3], [], []] := by decide
-- over_limit_errors: the hypothesis is satisfiable (late case), and the model does error
example : KnownTooLarge { limit := some 3, thr := none, store := false }
    (run { limit := some 3, thr := none, store := false } false .none (fun d => .one d) init
      [.headers .unknown false, .data [1, 2]]).1 (.data [3, 4]) :=
  ⟨3, rfl, Or.inr ⟨by decide, [3, 4], rfl, by decide, by decide⟩⟩
-- relayed_exact_any_chunking: a late switch that ends done
example : (run { limit := none, thr := some 2, store := false } false .none (fun d => .one d) init
    (.headers .unknown false :: ([[1, 2], [3], [4]].map Ev.data ++ [Ev.eom]))).1.phase = .done := by decide

/-! ### the body readers: segmentation independence (deepening round 3) -/

private theorem feed_append (s : RSt) (a b : Bytes) :
    feed s (a ++ b) = ((feed (feed s a).1 b).1, (feed s a).2 ++ (feed (feed s a).1 b).2) := by
  induction a generalizing s with
  | nil => simp [feed]
  | cons c cs ih => simp only [List.cons_append, feed, ih, List.append_assoc]

theorem reader_lawful : readerInc.Lawful := ⟨fun _ => rfl, feed_append⟩

/-- **reader_segmentation_independent.** However the wire bytes are cut into segments, the body readers end in the same
    state and emit the same items (body bytes, chunk boundaries, end of message / protocol error) in the same order. -/
theorem reader_segmentation_independent (s : RSt) (a b : List Bytes) (h : a.flatten = b.flatten) :
    readerInc.feedAll s a = readerInc.feedAll s b :=
  Incremental.seg_independent' readerInc reader_lawful s a b h

/-- the bytes HttpStream is meant to receive: everything before the end of the message (or a reader failure) -/
def bodyOf : List Item → Bytes
  | [] => []
  | .byte b :: r => b :: bodyOf r
  | .cut :: r => bodyOf r
  | _ :: _ => []

def hasEnd : List Item → Bool
  | [] => false
  | .byte _ :: r => hasEnd r
  | .cut :: r => hasEnd r
  | _ :: _ => true

/-- the bytes a list of events carries up to the end of the message -/
def recvd : List Ev → Bytes
  | [] => []
  | .data b :: r => b ++ recvd r
  | .eom :: _ => []
  | .headers _ _ :: r => recvd r

/-- events of feeding the segments one by one (what read_body hands to HttpStream, delivery after delivery) -/
def segEvents (s : RSt) : List Bytes → List Ev
  | [] => []
  | seg :: rest => (eventsOf (feed s seg).2).1 ++ segEvents (feed s seg).1 rest

private theorem feed_stop (seg : Bytes) : feed .stop seg = (.stop, []) := by
  induction seg with
  | nil => rfl
  | cons c cs ih => simp [feed, stepByte, ih]

private theorem step_end (s : RSt) (c : UInt8) (h : hasEnd (stepByte s c).2 = true) : (stepByte s c).1 = .stop := by
  cases s with
  | cl rem => simp only [stepByte] at h ⊢; split <;> simp_all [hasEnd]
  | untilEof => simp [stepByte, hasEnd] at h
  | data rem => simp only [stepByte] at h ⊢; split <;> simp_all [hasEnd]
  | dataEnd k => simp only [stepByte] at h ⊢; split <;> split <;> simp_all [hasEnd]
  | size l =>
    simp only [stepByte] at h ⊢
    split
    · split
      · rfl
      · split <;> simp_all [hasEnd]
    · split <;> simp_all [hasEnd]
  | trailer cr => simp only [stepByte] at h ⊢; split <;> (try split) <;> (try split) <;> simp_all [hasEnd]
  | stop => rfl

private theorem hasEnd_append (a b : List Item) : hasEnd (a ++ b) = (hasEnd a || hasEnd b) := by
  induction a with
  | nil => simp [hasEnd]
  | cons x xs ih => cases x <;> simp [hasEnd, ih]

private theorem feed_end (s : RSt) (seg : Bytes) (h : hasEnd (feed s seg).2 = true) : (feed s seg).1 = .stop := by
  induction seg generalizing s with
  | nil => simp [feed, hasEnd] at h
  | cons c cs ih =>
    simp only [feed] at h ⊢
    rw [hasEnd_append] at h
    by_cases h1 : hasEnd (stepByte s c).2 = true
    · rw [step_end s c h1, feed_stop]
    · simp only [h1, Bool.false_or] at h
      exact ih _ h

private theorem bodyOf_append_end (a b : List Item) (h : hasEnd a = true) : bodyOf (a ++ b) = bodyOf a := by
  induction a with
  | nil => simp [hasEnd] at h
  | cons x xs ih =>
    cases x with
    | byte c => simp only [hasEnd] at h; simp [bodyOf, ih h]
    | cut => simp only [hasEnd] at h; simp [bodyOf, ih h]
    | eom => simp [bodyOf]
    | err => simp [bodyOf]
    | trailer => simp [bodyOf]

private theorem bodyOf_append_open (a b : List Item) (h : hasEnd a = false) : bodyOf (a ++ b) = bodyOf a ++ bodyOf b := by
  induction a with
  | nil => simp [bodyOf]
  | cons x xs ih =>
    cases x with
    | byte c => simp only [hasEnd] at h; simp [bodyOf, ih h]
    | cut => simp only [hasEnd] at h; simp [bodyOf, ih h]
    | eom => simp [hasEnd] at h
    | err => simp [hasEnd] at h
    | trailer => simp [hasEnd] at h

/-- one read_body call: its events carry exactly the body bytes of its items -/
private theorem eventsGo_recvd (acc : Bytes) (items : List Item) :
    recvd (eventsGo acc items).1 = acc ++ bodyOf items := by
  induction items generalizing acc with
  | nil => by_cases ha : acc = [] <;> simp [eventsGo, ha, recvd, bodyOf]
  | cons x xs ih =>
    cases x with
    | byte b => simp only [eventsGo, bodyOf]; rw [ih]; simp
    | cut =>
      by_cases ha : acc = []
      · simp only [eventsGo, bodyOf, ha, if_true, List.nil_append]; rw [ih]; simp
      · simp only [eventsGo, bodyOf, ha, if_false, List.cons_append, List.nil_append, recvd]; rw [ih]; simp
    | eom => by_cases ha : acc = [] <;> simp [eventsGo, bodyOf, ha, recvd]
    | err => by_cases ha : acc = [] <;> simp [eventsGo, bodyOf, ha, recvd]
    | trailer => by_cases ha : acc = [] <;> simp [eventsGo, bodyOf, ha, recvd]

/-- ... and as long as the message has not ended, the following deliveries continue it -/
private theorem eventsGo_recvd_open (acc : Bytes) (items : List Item) (rest : List Ev) (h : hasEnd items = false) :
    recvd ((eventsGo acc items).1 ++ rest) = acc ++ bodyOf items ++ recvd rest := by
  induction items generalizing acc with
  | nil => by_cases ha : acc = [] <;> simp [eventsGo, ha, recvd, bodyOf]
  | cons x xs ih =>
    cases x with
    | byte b => simp only [eventsGo, bodyOf]; simp only [hasEnd] at h; rw [ih _ h]; simp
    | cut =>
      simp only [hasEnd] at h
      by_cases ha : acc = []
      · simp only [eventsGo, bodyOf, ha, if_true, List.nil_append]; rw [ih _ h]; simp
      · simp only [eventsGo, bodyOf, ha, if_false, List.cons_append, List.nil_append, recvd]; rw [ih _ h]; simp
    | eom => simp [hasEnd] at h
    | err => simp [hasEnd] at h
    | trailer => simp [hasEnd] at h

private theorem segEvents_stop (segs : List Bytes) : segEvents .stop segs = [] := by
  induction segs with
  | nil => rfl
  | cons seg rest ih => simp [segEvents, feed_stop, eventsOf, eventsGo, ih]

/-- **wire_events_carry_body.** Whatever the segmentation, the events HttpStream is handed delivery after delivery
    carry exactly the body bytes the readers extract from the concatenated wire bytes. -/
theorem wire_events_carry_body (s : RSt) (segs : List Bytes) :
    recvd (segEvents s segs) = bodyOf (feed s segs.flatten).2 := by
  induction segs generalizing s with
  | nil => simp [segEvents, recvd, feed, bodyOf]
  | cons seg rest ih =>
    simp only [segEvents, List.flatten_cons, feed_append]
    cases he : hasEnd (feed s seg).2
    · rw [bodyOf_append_open _ _ he]
      rw [show (eventsOf (feed s seg).2).1 = (eventsGo [] (feed s seg).2).1 from rfl,
        eventsGo_recvd_open [] _ _ he, ih]
      simp
    · rw [bodyOf_append_end _ _ he]
      rw [feed_end s seg he, segEvents_stop, List.append_nil,
        show (eventsOf (feed s seg).2).1 = (eventsGo [] (feed s seg).2).1 from rfl, eventsGo_recvd]
      simp

/-- **wire_body_segmentation_independent.** Two segmentations of the same wire bytes hand HttpStream the same body. -/
theorem wire_body_segmentation_independent (s : RSt) (a b : List Bytes) (h : a.flatten = b.flatten) :
    recvd (segEvents s a) = recvd (segEvents s b) := by
  rw [wire_events_carry_body, wire_events_carry_body, h]

/-- relay for an arbitrary event list (the shape read_body really produces: data events, the end of the message,
    possibly more after it) -/
private theorem relay_events (st : St) (hu : st.useF = false) (hp : st.phase = .consume ∨ st.phase = .stream)
    (evs : List Ev) :
    (run o resp pol f st evs).1.phase = .done →
    (dataOf (run o resp pol f st evs).2).flatten = (if st.phase = .consume then st.buf else []) ++ recvd evs := by
  induction evs generalizing st with
  | nil =>
    intro hd
    simp only [run] at hd
    rcases hp with hp | hp <;> rw [hp] at hd <;> cases hd
  | cons e es ih =>
    intro hdone
    simp only [run] at hdone ⊢
    cases e with
    | headers exp endS =>
      have hstep : step o resp pol f st (Ev.headers exp endS) = (st, []) := by
        rcases hp with hp | hp <;> simp [step, hp]
      rw [hstep] at hdone ⊢
      simpa [recvd] using ih st hu hp hdone
    | eom =>
      rcases hp with hp | hp
      · have hph : (step o resp pol f st Ev.eom).1.phase = .done := by simp [step, hp]
        rw [run_done o resp pol f _ hph]
        by_cases hb : st.buf = [] <;> simp [step, hp, hb, dataOf, recvd]
      · have hph : (step o resp pol f st Ev.eom).1.phase = .done := by simp [step, hp, relay]
        rw [run_done o resp pol f _ hph]
        simp [step, hp, hu, relay, dataOf, recvd]
    | data c =>
      rcases hp with hp | hp
      · cases hc : check o st.exp (st.buf ++ c)
        · have hstep : step o resp pol f st (Ev.data c) = ({ st with buf := st.buf ++ c }, []) := by
            simp [step, hp, hc]
          rw [hstep] at hdone ⊢
          have := ih { st with buf := st.buf ++ c } hu (Or.inl hp) hdone
          simp only [List.nil_append]
          rw [this]; simp [hp, recvd, List.append_assoc]
        · have hstep : (step o resp pol f st (Ev.data c)).1.phase = .errored := by simp [step, hp, hc]
          rw [run_errored o resp pol f _ hstep] at hdone
          rw [hstep] at hdone; cases hdone
        · by_cases hb : st.buf ++ c = []
          · have hb' := hb
            simp at hb'
            have hstep : step o resp pol f st (Ev.data c) = ({ st with buf := st.buf ++ c }, []) := by
              rw [hb] at hc
              simp [step, hp, hc, hb'.1, hb'.2]
            rw [hstep] at hdone ⊢
            have := ih { st with buf := st.buf ++ c } hu (Or.inl hp) hdone
            simp only [List.nil_append]
            rw [this]; simp [hp, recvd, List.append_assoc]
          · have hstep : step o resp pol f st (Ev.data c) =
                ({ st with buf := if o.store then st.buf ++ c else [], phase := .stream, useF := false },
                 [Out.sendHead, Out.sendData (st.buf ++ c)]) := by
              simp [step, hp, hc, hb, relay]
            rw [hstep] at hdone ⊢
            have := ih { st with buf := if o.store then st.buf ++ c else [], phase := .stream, useF := false }
              rfl (Or.inr rfl) hdone
            rw [dataOf_append]
            simp only [List.flatten_append]
            rw [this]; simp [hp, dataOf, recvd, List.append_assoc]
      · have hstep : step o resp pol f st (Ev.data c) =
            ({ st with buf := if o.store then st.buf ++ c else st.buf }, [Out.sendData c]) := by
          simp [step, hp, hu, relay]
        rw [hstep] at hdone ⊢
        have := ih { st with buf := if o.store then st.buf ++ c else st.buf } hu (Or.inr hp) hdone
        rw [dataOf_append]
        simp only [List.flatten_append]
        rw [this]; simp [hp, dataOf, recvd]

/-- **relayed_exact_events.** When `.stream` is not a callable: for ANY list of events after the headers — whatever way
    the connection layer grouped the body into data events — a message that ends `done` delivered exactly the bytes
    the events carried up to the end of the message. -/
theorem relayed_exact_events (hpol : pol ≠ .callable) (exp : ExpSize) (endS : Bool) (evs : List Ev)
    (hdone : (run o resp pol f init (.headers exp endS :: evs)).1.phase = .done) :
    (dataOf (run o resp pol f init (.headers exp endS :: evs)).2).flatten = recvd evs := by
  simp only [run] at hdone ⊢
  have hi : init.phase = .waitHeaders := rfl
  have hcases : (step o resp pol f init (.headers exp endS)).1.phase = .errored ∨
      ((step o resp pol f init (.headers exp endS)).1.useF = false ∧
       (step o resp pol f init (.headers exp endS)).1.buf = [] ∧
       ((step o resp pol f init (.headers exp endS)).1.phase = .consume ∨
        (step o resp pol f init (.headers exp endS)).1.phase = .stream) ∧
       dataOf (step o resp pol f init (.headers exp endS)).2 = []) := by
    cases endS <;> cases pol <;> cases hc : check o exp [] <;>
      simp [step, hi, hc, init, dataOf, abortOuts] at hpol ⊢
  rcases hcases with herr | ⟨hu, hb, hp, hd⟩
  · rw [run_errored o resp pol f _ herr] at hdone
    rw [herr] at hdone; cases hdone
  · have := relay_events o resp pol f _ hu hp evs hdone
    rw [dataOf_append, hd]
    simp only [List.nil_append]
    rw [this, hb]; simp

/-- **wire_relay_segmentation_independent.** The same wire bytes cut into segments in two different ways (`a`, `b`),
    read by the body readers from state `s` and handed to HttpStream delivery after delivery: if both messages end
    `done` (no callable), the peer was sent exactly the same bytes — the body the readers extract from the wire. -/
theorem wire_relay_segmentation_independent (hpol : pol ≠ .callable) (exp : ExpSize) (endS : Bool) (s : RSt)
    (a b : List Bytes) (hsame : a.flatten = b.flatten)
    (ha : (run o resp pol f init (.headers exp endS :: segEvents s a)).1.phase = .done)
    (hb : (run o resp pol f init (.headers exp endS :: segEvents s b)).1.phase = .done) :
    (dataOf (run o resp pol f init (.headers exp endS :: segEvents s a)).2).flatten =
      (dataOf (run o resp pol f init (.headers exp endS :: segEvents s b)).2).flatten ∧
    (dataOf (run o resp pol f init (.headers exp endS :: segEvents s a)).2).flatten = bodyOf (feed s a.flatten).2 := by
  rw [relayed_exact_events o resp pol f hpol exp endS _ ha, relayed_exact_events o resp pol f hpol exp endS _ hb,
    wire_body_segmentation_independent s a b hsame, wire_events_carry_body, hsame]
  exact ⟨rfl, rfl⟩

-- non-vacuity: a chunked body cut in the middle of a size line and of the data; both runs end done, late switch
example : (run { limit := none, thr := some 2, store := false } false .none (fun d => .one d) init
    (.headers .unknown false :: segEvents (.size {}) [[0x33, 0x0d], [0x0a, 0x61], [0x62, 0x63, 0x0d, 0x0a, 0x30, 0x0d, 0x0a, 0x0d, 0x0a]])).1.phase
    = .done := by decide
example : segEvents (.size {}) [[0x33, 0x0d], [0x0a, 0x61], [0x62, 0x63, 0x0d, 0x0a, 0x30, 0x0d, 0x0a, 0x0d, 0x0a]]
    = [.data [0x61], .data [0x62, 0x63], .eom] := by decide
-- the reader does refuse: a chunk footer that is not CRLF
example : (feed (.size {}) [0x31, 0x0d, 0x0a, 0x61, 0x58]).2 = [.byte 0x61, .cut, .err] := by decide

/-! ### one exchange, two directions (seed c07-4: a request-side verdict must never reach the response side) -/

/-- the request side has not been refused before any event of the history (after a refused request mitmproxy answers
    with the error itself and nothing of a response is handled) -/
def ReqAlive (o : Opts) (rq rs : Side) : XSt → List (Bool × Ev) → Prop
  | _, [] => True
  | x, e :: es => x.req.phase ≠ .errored ∧ ReqAlive o rq rs (stepX o rq rs x e).1 es

def RespAlive (o : Opts) (rq rs : Side) : XSt → List (Bool × Ev) → Prop
  | _, [] => True
  | x, e :: es => x.resp.phase ≠ .errored ∧ RespAlive o rq rs (stepX o rq rs x e).1 es

private theorem outsOf_append (d : Bool) (a b : List (Bool × Out)) : outsOf d (a ++ b) = outsOf d a ++ outsOf d b := by
  induction a with
  | nil => simp [outsOf]
  | cons x xs ih => obtain ⟨d', out⟩ := x; by_cases h : d' = d <;> simp [outsOf, h, ih]

private theorem outsOf_map_same (d : Bool) (l : List Out) : outsOf d (l.map (fun out => (d, out))) = l := by
  induction l with
  | nil => simp [outsOf]
  | cons x xs ih => simp [outsOf, ih]

private theorem outsOf_map_other (d d' : Bool) (h : d' ≠ d) (l : List Out) : outsOf d (l.map (fun out => (d', out))) = [] := by
  induction l with
  | nil => simp [outsOf]
  | cons x xs ih => simp [outsOf, h, ih]

/-- **response_side_independent.** In every history of an exchange in which the request is not refused, the response
    side — its state (buffer, phase, stored content), every hook, error and byte it emits — is exactly what the response
    events alone produce: no verdict, flag or buffer of the request side takes part in it. -/
theorem response_side_independent (rq rs : Side) (x : XSt) (evs : List (Bool × Ev)) (h : ReqAlive o rq rs x evs) :
    (runX o rq rs x evs).1.resp = (run o true rs.pol rs.f x.resp (evsOf true evs)).1 ∧
    outsOf true (runX o rq rs x evs).2 = (run o true rs.pol rs.f x.resp (evsOf true evs)).2 := by
  induction evs generalizing x with
  | nil => simp [runX, evsOf, run, outsOf]
  | cons e es ih =>
    obtain ⟨d, ev⟩ := e
    obtain ⟨h1, h2⟩ := h
    cases d
    · -- a request-side event: the response side is untouched
      have hresp : (stepX o rq rs x (false, ev)).1.resp = x.resp := by
        simp only [stepX]; split <;> rfl
      have houts : outsOf true (stepX o rq rs x (false, ev)).2 = [] := by
        simp only [stepX]; split
        · rfl
        · exact outsOf_map_other true false (by decide) _
      have := ih _ h2
      simp only [runX, evsOf, outsOf_append, houts, List.nil_append]
      rw [hresp] at this
      simpa using this
    · have hstep : stepX o rq rs x (true, ev) =
          ({ x with resp := (step o true rs.pol rs.f x.resp ev).1 },
           (step o true rs.pol rs.f x.resp ev).2.map (fun out => (true, out))) := by
        simp [stepX, h1]
      have := ih _ h2
      rw [hstep] at this
      simp only [runX, evsOf, hstep, outsOf_append, outsOf_map_same, run, if_true]
      exact ⟨this.1, by rw [this.2]⟩

/-- **request_side_independent**: the mirror image (as long as the response has not been refused). -/
theorem request_side_independent (rq rs : Side) (x : XSt) (evs : List (Bool × Ev)) (h : RespAlive o rq rs x evs) :
    (runX o rq rs x evs).1.req = (run o false rq.pol rq.f x.req (evsOf false evs)).1 ∧
    outsOf false (runX o rq rs x evs).2 = (run o false rq.pol rq.f x.req (evsOf false evs)).2 := by
  induction evs generalizing x with
  | nil => simp [runX, evsOf, run, outsOf]
  | cons e es ih =>
    obtain ⟨d, ev⟩ := e
    obtain ⟨h1, h2⟩ := h
    cases d
    · have hstep : stepX o rq rs x (false, ev) =
          ({ x with req := (step o false rq.pol rq.f x.req ev).1 },
           (step o false rq.pol rq.f x.req ev).2.map (fun out => (false, out))) := by
        simp [stepX, h1]
      have := ih _ h2
      rw [hstep] at this
      simp only [runX, evsOf, hstep, outsOf_append, outsOf_map_same, run, if_true]
      exact ⟨this.1, by rw [this.2]⟩
    · have hreq : (stepX o rq rs x (true, ev)).1.req = x.req := by
        simp only [stepX]; split <;> rfl
      have houts : outsOf false (stepX o rq rs x (true, ev)).2 = [] := by
        simp only [stepX]; split
        · rfl
        · exact outsOf_map_other false true (by decide) _
      have := ih _ h2
      simp only [runX, evsOf, outsOf_append, houts, List.nil_append]
      rw [hreq] at this
      simpa using this

/-- **request_verdict_never_reaches_response.** Two exchanges with arbitrary, different request sides (other bodies,
    framings, policies, verdicts) but the same response events produce the same response-side outputs and state. -/
theorem request_verdict_never_reaches_response (rq rq' rs : Side) (evs evs' : List (Bool × Ev))
    (hsame : evsOf true evs = evsOf true evs')
    (h : ReqAlive o rq rs {} evs) (h' : ReqAlive o rq' rs {} evs') :
    outsOf true (runX o rq rs {} evs).2 = outsOf true (runX o rq' rs {} evs').2 ∧
    (runX o rq rs {} evs).1.resp = (runX o rq' rs {} evs').1.resp := by
  obtain ⟨a1, a2⟩ := response_side_independent o rq rs {} evs h
  obtain ⟨b1, b2⟩ := response_side_independent o rq' rs {} evs' h'
  rw [a1, a2, b1, b2, hsame]
  exact ⟨rfl, rfl⟩

-- non-vacuity: a small Content-Length request (within all limits), then a response over the limit: refused
example : outsOf true (runX { limit := some 6, thr := some 3, store := false } ⟨.none, fun d => .one d⟩ ⟨.none, fun d => .one d⟩ {}
    [(false, .headers (.known 1) false), (false, .data [0x61]), (false, .eom), (true, .headers (.known 8) false)]).2
    = [.hookHeaders, .hookError, .errClient, .errServer] := by decide
example : ReqAlive { limit := some 6, thr := some 3, store := false } ⟨.none, fun d => .one d⟩ ⟨.none, fun d => .one d⟩ {}
    [(false, .headers (.known 1) false), (false, .data [0x61]), (false, .eom), (true, .headers (.known 8) false)] := by
  simp [ReqAlive, stepX, step, check, expectedSize, exceeds]

/-- **upload_unaffected_by_response_timing.** Two histories of an exchange with the same request events, in which the
    (same or different) response arrives at different moments — before, in the middle of, or after the request body — and
    is not refused: the request side delivers exactly the same outputs (every streamed chunk, the end of the message)
    and ends in the same state.  In particular a response that completes early does not cut the upload short. -/
theorem upload_unaffected_by_response_timing (rq rs rs' : Side) (evs evs' : List (Bool × Ev))
    (hsame : evsOf false evs = evsOf false evs')
    (h : RespAlive o rq rs {} evs) (h' : RespAlive o rq rs' {} evs') :
    outsOf false (runX o rq rs {} evs).2 = outsOf false (runX o rq rs' {} evs').2 ∧
    (runX o rq rs {} evs).1.req = (runX o rq rs' {} evs').1.req := by
  obtain ⟨a1, a2⟩ := request_side_independent o rq rs {} evs h
  obtain ⟨b1, b2⟩ := request_side_independent o rq rs' {} evs' h'
  rw [a1, a2, b1, b2, hsame]
  exact ⟨rfl, rfl⟩

-- non-vacuity: a streamed upload with the complete response arriving after the first chunk
example : outsOf false (runX { limit := none, thr := some 1, store := false } ⟨.none, fun d => .one d⟩ ⟨.none, fun d => .one d⟩ {}
    [(false, .headers .unknown false), (false, .data [1, 2]), (true, .headers (.known 1) false), (true, .data [9]), (true, .eom),
     (false, .data [3]), (false, .eom)]).2
    = [.hookHeaders, .sendHead, .sendData [1, 2], .sendData [3], .hookMsg, .sendEnd] := by decide

/-! ### Transfer-Encoding: the writer frames exactly what the reader de-frames (seed c07-6) -/

/-- how the HTTP/1 writers decide to chunk-frame a body: `"chunked" in headers.get("transfer-encoding", "").lower()` -/
def writesChunked (v : Bytes) : Bool := C01.containsSub C01.sChunked (asciiLower v)

/-- how the reader decides that the body arrives chunked: parse_transfer_encoding (C01's transcription over the
    regenerated whitelist) classifies the value as "chunked is the final coding" -/
def readsChunked (v : Bytes) : Option Bool :=
  match C01.parseTE v with
  | some (.chunkedFinal, _) => some true
  | some (.other, _) => some false
  | none => none

/-- **writer_agrees_with_reader.** For EVERY Transfer-Encoding value the reader accepts — any case, any whitespace or
    tabs around the commas of a coding list — the writers' test gives the reader's answer: a body that was de-chunked
    on input is chunk-framed on output, and one that was not is not. -/
theorem writer_agrees_with_reader (v : Bytes) (b : Bool) (h : readsChunked v = some b) : writesChunked v = b := by
  unfold readsChunked at h
  cases hp : C01.parseTE v with
  | none => rw [hp] at h; cases h
  | some r =>
    obtain ⟨cls, w⟩ := r
    rw [hp] at h
    cases cls with
    | chunkedFinal =>
      simp at h; subst h
      exact C01.sendsChunked_of_parseTE hp
    | other =>
      simp at h; subst h
      exact C01.not_sendsChunked_of_parseTE_other hp

-- "GZip ,\t Chunked", "gzip", "chunked, gzip"
example : readsChunked [71, 90, 105, 112, 32, 44, 9, 32, 67, 104, 117, 110, 107, 101, 100] = some true := by decide +kernel
example : readsChunked [103, 122, 105, 112] = some false := by decide +kernel
example : readsChunked [99, 104, 117, 110, 107, 101, 100, 44, 32, 103, 122, 105, 112] = none := by decide +kernel

/-! ### the peer's reader inverts the writer -/

/-- all body bytes among the items -/
def bodyItems : List Item → Bytes
  | [] => []
  | .byte b :: r => b :: bodyItems r
  | _ :: r => bodyItems r

private theorem bodyItems_append (a b : List Item) : bodyItems (a ++ b) = bodyItems a ++ bodyItems b := by
  induction a with
  | nil => rfl
  | cons x xs ih => cases x <;> simp [bodyItems, ih]

private theorem bodyItems_bytes (d : Bytes) : bodyItems (d.map Item.byte) = d := by
  induction d with
  | nil => rfl
  | cons c cs ih => simp [bodyItems, ih]


private theorem hex_facts : ∀ n : Fin 256, C01.Ref.isHex (UInt8.ofNat n.val) = true →
    hexVal (UInt8.ofNat n.val) = some (C01.Ref.hexVal (UInt8.ofNat n.val)) ∧ UInt8.ofNat n.val ≠ 0x0d := by
  decide +kernel

private theorem hex_facts' (c : UInt8) (h : C01.Ref.isHex c = true) :
    hexVal c = some (C01.Ref.hexVal c) ∧ c ≠ 0x0d := by
  have := hex_facts ⟨c.toNat, UInt8.toNat_lt c⟩
  simpa [h] using this

/-- hex digits fed into a fresh-or-running size line only accumulate -/
private theorem feed_size_digits (ds : Bytes) (hd : ds.all C01.Ref.isHex = true) (k v : Nat) (rest : Bytes)
    (hk : k + ds.length ≤ 20) :
    feed (.size { digits := k, value := v, mode := 0, bad := false, cr := false }) (ds ++ rest) =
    feed (.size { digits := k + ds.length, value := ds.foldl C01.hexStep v, mode := 0, bad := false, cr := false }) rest := by
  induction ds generalizing k v with
  | nil => simp
  | cons c cs ih =>
    simp only [List.all_cons, Bool.and_eq_true] at hd
    obtain ⟨h1, h2⟩ := hex_facts' c hd.1
    have hk' : k + 1 + cs.length ≤ 20 := by simp only [List.length_cons] at hk; omega
    have hnb : decide (k + 1 > 20) = false := by simp; omega
    simp only [List.cons_append, feed, stepByte]
    simp only [Bool.false_eq_true, false_and, if_false, h2, sizeContent, if_true, h1, hnb, Bool.or_false]
    rw [List.nil_append]
    have := ih hd.2 (k + 1) (v * 16 + C01.Ref.hexVal c) hk'
    simp only [List.foldl_cons, C01.hexStep, List.length_cons]
    rw [this, show k + 1 + cs.length = k + (cs.length + 1) by omega]

/-- a complete chunk header `hexDigits n CRLF` (n > 0, at most 20 digits) puts the reader inside a chunk of n bytes -/
private theorem feed_size_line (n : Nat) (hn : 0 < n) (h20 : (C01.hexDigits n).length ≤ 20) (rest : Bytes) :
    feed (.size {}) (C01.hexDigits n ++ crlf ++ rest) = feed (.data n) rest := by
  obtain ⟨hv, hall, hne⟩ := C01.hexDigits_spec n
  rw [List.append_assoc]
  have := feed_size_digits (C01.hexDigits n) hall 0 0 (crlf ++ rest) (by omega)
  simp only [Nat.zero_add] at this
  rw [show ({} : SizeLine) = { digits := 0, value := 0, mode := 0, bad := false, cr := false } from rfl, this]
  have hval : (C01.hexDigits n).foldl C01.hexStep 0 = n := hv
  have hlen : 0 < (C01.hexDigits n).length := List.length_pos_iff.mpr hne
  rw [hval]
  simp only [crlf, List.cons_append, List.nil_append, feed, stepByte, sizeContent]
  have h1 : ¬ (C01.hexDigits n).length = 0 := by omega
  have h2 : ¬ n = 0 := by omega
  simp [h1, h2]

/-- the last-chunk `0 CRLF CRLF` ends the message -/
private theorem feed_last_chunk : feed (.size {}) [48, 13, 10, 13, 10] = (.stop, [.eom]) := by decide

/-- inside a chunk: exactly its bytes, then the chunk boundary -/
private theorem feed_data (d : Bytes) (hd : d ≠ []) (rest : Bytes) :
    feed (.data d.length) (d ++ rest) =
      ((feed (.dataEnd 0) rest).1, d.map Item.byte ++ [Item.cut] ++ (feed (.dataEnd 0) rest).2) := by
  induction d with
  | nil => exact absurd rfl hd
  | cons c cs ih =>
    by_cases hcs : cs = []
    · subst hcs; simp [feed, stepByte]
    · have hl : ¬ (cs.length + 1 ≤ 1) := by
        have : 0 < cs.length := List.length_pos_iff.mpr hcs
        omega
      simp only [List.length_cons, List.cons_append, feed, stepByte, hl, if_false, Nat.add_sub_cancel]
      rw [ih hcs]
      simp

private theorem feed_data_end (rest : Bytes) : feed (.dataEnd 0) (crlf ++ rest) = feed (.size {}) rest := by
  simp [crlf, feed, stepByte]

/-- chunks whose size line h11 accepts (1–20 hex digits; any body shorter than 16^20 bytes) -/
def SizesOk (chunks : List Bytes) : Prop := ∀ c ∈ chunks, (C01.hexDigits c.length).length ≤ 20

/-- the chunked framing of the data events, read back by the chunked reader -/
private theorem read_frames (chunks : List Bytes) (hok : SizesOk chunks) :
    (feed (.size {}) (chunks.flatMap (frameData true) ++ frameEnd true)).1 = .stop ∧
    bodyItems (feed (.size {}) (chunks.flatMap (frameData true) ++ frameEnd true)).2 = chunks.flatten ∧
    (feed (.size {}) (chunks.flatMap (frameData true) ++ frameEnd true)).2.getLast? = some Item.eom ∧
    Item.err ∉ (feed (.size {}) (chunks.flatMap (frameData true) ++ frameEnd true)).2 ∧
    Item.trailer ∉ (feed (.size {}) (chunks.flatMap (frameData true) ++ frameEnd true)).2 := by
  induction chunks with
  | nil => simp only [List.flatMap_nil, List.nil_append, frameEnd, if_true]; rw [feed_last_chunk]; simp [bodyItems]
  | cons c cs ih =>
    have hcs : SizesOk cs := fun x hx => hok x (by simp [hx])
    obtain ⟨i1, i2, i3, i4, i5⟩ := ih hcs
    by_cases hc : c = []
    · subst hc
      simpa [frameData] using ih hcs
    · have hpos : 0 < c.length := List.length_pos_iff.mpr hc
      have h20 := hok c (by simp)
      simp only [List.flatMap_cons, frameData, hc, if_false, if_true, List.append_assoc]
      rw [show C01.hexDigits c.length ++ (crlf ++ (c ++ (crlf ++ (cs.flatMap (frameData true) ++ frameEnd true)))) =
            C01.hexDigits c.length ++ crlf ++ (c ++ (crlf ++ (cs.flatMap (frameData true) ++ frameEnd true))) by simp]
      rw [feed_size_line c.length hpos h20, feed_data c hc, feed_data_end]
      simp only [frameData] at i1 i2 i3 i4 i5 ⊢
      refine ⟨i1, ?_, ?_, ?_, ?_⟩
      · simp [bodyItems_append, bodyItems_bytes, bodyItems, i2]
      · rw [List.getLast?_append, i3]; simp
      · simp [i4]
      · simp [i5]



private theorem wireOf_append (c : Bool) (a b : List Out) : wireOf c (a ++ b) = wireOf c a ++ wireOf c b := by
  induction a with
  | nil => rfl
  | cons x xs ih => cases x <;> simp [wireOf, ih, List.append_assoc]

private theorem wireOf_data (c : Bool) (l : List Bytes) : wireOf c (l.map Out.sendData) = l.flatMap (frameData c) := by
  induction l with
  | nil => rfl
  | cons x xs ih => simp [wireOf, ih]

/-- **writer_identity_exact.** Without chunked framing the writers put the data events' bytes on the wire unchanged. -/
theorem writer_identity_exact (chunks : List Bytes) :
    wireOf false (chunks.map Out.sendData ++ [Out.sendEnd]) = chunks.flatten := by
  have key : ∀ l : List Bytes, l.flatMap (frameData false) = l.flatten := by
    intro l
    induction l with
    | nil => rfl
    | cons c cs ih => by_cases hc : c = [] <;> simp [frameData, hc, ih]
  rw [wireOf_append, wireOf_data, key]
  simp [wireOf, frameEnd]

/-- **reader_inverts_writer.** What the HTTP/1 writers put on the wire for a list of data events and the end of the
    message under chunked framing is, for the chunked body reader, exactly one complete message: it ends in `stop` with
    `eom` as the last item, raises no protocol error, meets no trailer, and its body bytes are the data events' bytes in
    order (empty pieces write nothing).  `SizesOk`: every piece's size fits h11's 20 hex digits (< 16^20 bytes). -/
theorem reader_inverts_writer (chunks : List Bytes) (hok : SizesOk chunks) :
    (feed (.size {}) (wireOf true (chunks.map Out.sendData ++ [Out.sendEnd]))).1 = .stop ∧
    bodyItems (feed (.size {}) (wireOf true (chunks.map Out.sendData ++ [Out.sendEnd]))).2 = chunks.flatten ∧
    (feed (.size {}) (wireOf true (chunks.map Out.sendData ++ [Out.sendEnd]))).2.getLast? = some Item.eom ∧
    Item.err ∉ (feed (.size {}) (wireOf true (chunks.map Out.sendData ++ [Out.sendEnd]))).2 ∧
    Item.trailer ∉ (feed (.size {}) (wireOf true (chunks.map Out.sendData ++ [Out.sendEnd]))).2 := by
  have e : wireOf true (chunks.map Out.sendData ++ [Out.sendEnd]) = chunks.flatMap (frameData true) ++ frameEnd true := by
    rw [wireOf_append, wireOf_data]; simp [wireOf]
  rw [e]
  exact read_frames chunks hok

/-- everything a flow in the stream state emits for `data* eom` is its data events, then the message hook and the end -/
private theorem stream_outs_shape (st : St) (hp : st.phase = .stream) (chunks : List Bytes) :
    (run o resp pol f st (chunks.map Ev.data ++ [Ev.eom])).2 =
      (dataOf (run o resp pol f st (chunks.map Ev.data ++ [Ev.eom])).2).map Out.sendData ++ [Out.hookMsg, Out.sendEnd] := by
  induction chunks generalizing st with
  | nil =>
    simp only [List.map_nil, List.nil_append, run, step, hp, relay, List.append_nil]
    simp [dataOf_append, dataOf_map, dataOf]
  | cons c cs ih =>
    have hstep : step o resp pol f st (Ev.data c) =
        ({ st with buf := if o.store then st.buf ++ (onData st.useF f c).flatten else st.buf },
         (onData st.useF f c).map Out.sendData) := by
      simp [step, hp, relay, onData]
    have := ih { st with buf := if o.store then st.buf ++ (onData st.useF f c).flatten else st.buf } hp
    simp only [List.map_cons, List.cons_append, run, hstep]
    rw [this]
    simp [dataOf_append, dataOf_map, dataOf, List.append_assoc]

/-- **streamed_wire_exact.** End to end for a body streamed from the headers on, under chunked framing towards the peer:
    the bytes the writers put on the wire for everything HttpStream emits are, for the peer's chunked reader, one complete
    well-framed message whose body is exactly the transformed bytes `f` made of the received chunks (in order). -/
theorem streamed_wire_exact (exp : ExpSize) (chunks : List Bytes)
    (hs : (step o resp pol f init (.headers exp false)).1.phase = .stream)
    (hok : SizesOk (dataOf (run o resp pol f (step o resp pol f init (.headers exp false)).1 (chunks.map Ev.data ++ [Ev.eom])).2)) :
    let s1 := (step o resp pol f init (.headers exp false)).1
    let r := run o resp pol f s1 (chunks.map Ev.data ++ [Ev.eom])
    let rd := feed (.size {}) (wireOf true r.2)
    rd.1 = .stop ∧ rd.2.getLast? = some Item.eom ∧ Item.err ∉ rd.2 ∧
    bodyItems rd.2 = (if s1.useF then chunks.flatMap (fun c => normData (f c)) ++ normEnd (f []) else chunks).flatten := by
  intro s1 r rd
  have hshape := stream_outs_shape o resp pol f s1 hs chunks
  have hex := (streamed_exact o resp pol f exp chunks hs).1
  have hw : wireOf true r.2 = wireOf true ((dataOf r.2).map Out.sendData ++ [Out.sendEnd]) :=
    (congrArg (wireOf true) hshape).trans (by simp [wireOf_append, wireOf] <;> rfl)
  obtain ⟨a1, a2, a3, a4, _⟩ := reader_inverts_writer (dataOf r.2) hok
  refine ⟨?_, ?_, ?_, ?_⟩
  · show (feed (.size {}) (wireOf true r.2)).1 = _; rw [hw]; exact a1
  · show (feed (.size {}) (wireOf true r.2)).2.getLast? = _; rw [hw]; exact a3
  · show Item.err ∉ (feed (.size {}) (wireOf true r.2)).2; rw [hw]; exact a4
  · show bodyItems (feed (.size {}) (wireOf true r.2)).2 = _; rw [hw, a2]
    show (dataOf r.2).flatten = _
    rw [show dataOf r.2 = _ from hex]

example : SizesOk [[1, 2, 3], [], [4]] := by intro c hc; simp at hc; rcases hc with rfl | rfl | rfl <;> decide
example : wireOf true ([[0x61, 0x62], [], [0x63]].map Out.sendData ++ [Out.sendEnd]) =
    [0x32, 13, 10, 0x61, 0x62, 13, 10, 0x31, 13, 10, 0x63, 13, 10, 48, 13, 10, 13, 10] := by decide

/-! ### when streaming is due (clause "stream_large_bodies threshold exceeded, or an addon enables streaming") -/

/-- **stream_starts_when_due.** At the headers of a message with a body: if the addon enables streaming (`.stream = True`
    or a callable), or the announced length exceeds stream_large_bodies (and the addon does not switch it off) — and the
    announced length does not exceed body_size_limit — the flow is in the stream state at once and the head has been
    relayed; nothing is buffered. -/
theorem stream_starts_when_due (exp : ExpSize)
    (hdue : pol = .setTrue ∨ pol = .callable ∨ (pol = .none ∧ check o exp [] = .stream))
    (hnot : check o exp [] ≠ .abort) :
    (step o resp pol f init (.headers exp false)).1.phase = .stream ∧
    Out.sendHead ∈ (step o resp pol f init (.headers exp false)).2 ∧
    (step o resp pol f init (.headers exp false)).1.buf = [] := by
  have hi : init.phase = .waitHeaders := rfl
  rcases hdue with rfl | rfl | ⟨rfl, hc⟩
  · cases hc : check o exp [] <;> simp [step, hi, hc, init] at hnot ⊢
  · cases hc : check o exp [] <;> simp [step, hi, hc, init] at hnot ⊢
  · simp [step, hi, hc, init]

/-- **late_switch_when_due.** While a body is being buffered: the chunk that makes the buffered bytes exceed
    stream_large_bodies (without exceeding body_size_limit) switches the flow to streaming — the head is relayed and
    everything buffered so far, including that chunk, is sent as one piece; without store_streamed_bodies nothing stays
    buffered. -/
theorem late_switch_when_due (st : St) (b : Bytes) (hp : st.phase = .consume) (hne : st.buf ++ b ≠ [])
    (hc : check o st.exp (st.buf ++ b) = .stream) :
    (step o resp pol f st (.data b)).1.phase = .stream ∧
    (step o resp pol f st (.data b)).2 = [Out.sendHead, Out.sendData (st.buf ++ b)] ∧
    (o.store = false → (step o resp pol f st (.data b)).1.buf = []) := by
  simp [step, hp, hc, hne, relay]

-- non-vacuity: Content-Length 5 > stream_large_bodies 3, within body_size_limit 10
example : check { limit := some 10, thr := some 3, store := false } (.known 5) [] = .stream := by decide

/-- **response_over_limit_errors_in_exchange.** Whatever the request side of the exchange did (any body, framing, policy,
    verdict — as long as the request itself was not refused): a response that is known to exceed body_size_limit ends
    with the error hook and the error to client and server, and not one byte of it is forwarded.  (Seed c07-4's class:
    no request-side "already checked" state can switch the response-side check off.) -/
theorem response_over_limit_errors_in_exchange (rq rs : Side) (evs : List (Bool × Ev)) (h : ReqAlive o rq rs {} evs)
    (pre post : List Ev) (ev : Ev) (hsplit : evsOf true evs = pre ++ ev :: post)
    (hk : KnownTooLarge o (run o true rs.pol rs.f init pre).1 ev) :
    (runX o rq rs {} evs).1.resp.phase = .errored ∧
    Out.hookError ∈ outsOf true (runX o rq rs {} evs).2 ∧
    Out.errClient ∈ outsOf true (runX o rq rs {} evs).2 ∧
    Out.errServer ∈ outsOf true (runX o rq rs {} evs).2 ∧
    dataOf (outsOf true (runX o rq rs {} evs).2) = [] ∧
    Out.sendHead ∉ outsOf true (runX o rq rs {} evs).2 := by
  obtain ⟨a1, a2⟩ := response_side_independent o rq rs {} evs h
  have hx : ({} : XSt).resp = init := rfl
  rw [a1, a2, hx, hsplit]
  obtain ⟨b1, b2, b3, b4, b5, b6⟩ := over_limit_errors o true rs.pol rs.f pre post ev hk
  exact ⟨b1, b2, b3, b4 rfl, b5, b6⟩

/-! ### the tied receive path (`wireRun`, driver op `wire`) is `run` over `segEvents` -/

/-- no delivery makes the readers raise (no protocol error, no trailer section) -/
def CleanSegs : RSt → List Bytes → Prop
  | _, [] => True
  | s, seg :: rest => (eventsOf (feed s seg).2).2 = false ∧ CleanSegs (feed s seg).1 rest

private theorem wire_fold (w : Wire) (segs : List Bytes) (hdead : w.dead = true → w.st.phase = .errored)
    (hclean : w.dead = false → CleanSegs w.rs segs) :
    (segs.foldl (fun w seg => w.recv o resp pol f seg) w).outs = w.outs ++ (run o resp pol f w.st (segEvents w.rs segs)).2 ∧
    (segs.foldl (fun w seg => w.recv o resp pol f seg) w).st = (run o resp pol f w.st (segEvents w.rs segs)).1 := by
  induction segs generalizing w with
  | nil => simp [segEvents, run]
  | cons seg rest ih =>
    simp only [List.foldl_cons]
    cases hd : w.dead
    · -- alive: the delivery's events go through HttpStream
      obtain ⟨hc1, hc2⟩ := hclean hd
      have hrecv : w.recv o resp pol f seg =
          { rs := (feed w.rs seg).1, st := (run o resp pol f w.st (eventsOf (feed w.rs seg).2).1).1,
            dead := (eventsOf (feed w.rs seg).2).2 || decide ((run o resp pol f w.st (eventsOf (feed w.rs seg).2).1).1.phase = .errored),
            protoErr := (eventsOf (feed w.rs seg).2).2 && !decide ((run o resp pol f w.st (eventsOf (feed w.rs seg).2).1).1.phase = .errored),
            sawTrailer := (feed w.rs seg).2.contains .trailer,
            errBlocked := w.errBlocked || ((eventsOf (feed w.rs seg).2).2 && decide ((run o resp pol f w.st (eventsOf (feed w.rs seg).2).1).1.phase = .errored)),
            outs := w.outs ++ (run o resp pol f w.st (eventsOf (feed w.rs seg).2).1).2,
            smp := w.smp ++ [(run o resp pol f w.st (eventsOf (feed w.rs seg).2).1).1.buf.length] } := by
        simp [Wire.recv, Wire.deliverItems, hd]
      have h1 : (w.recv o resp pol f seg).dead = true → (w.recv o resp pol f seg).st.phase = .errored := by
        rw [hrecv]; simp [hc1]
      have h2 : (w.recv o resp pol f seg).dead = false → CleanSegs (w.recv o resp pol f seg).rs rest := by
        rw [hrecv]; intro _; exact hc2
      have := ih (w.recv o resp pol f seg) h1 h2
      rw [this.1, this.2, hrecv]
      simp only [segEvents, run_append, List.append_assoc]
      constructor <;> simp [List.append_assoc]
    · -- the connection is closed (HttpStream refused the body): nothing more is read, and nothing more would be handled
      have herr := hdead hd
      have hrecv : w.recv o resp pol f seg = { w with smp := w.smp ++ [w.st.buf.length] } := by
        simp [Wire.recv, Wire.deliverItems, hd]
      have h1 : (w.recv o resp pol f seg).dead = true → (w.recv o resp pol f seg).st.phase = .errored := by
        rw [hrecv]; intro _; exact herr
      have h2 : (w.recv o resp pol f seg).dead = false → CleanSegs (w.recv o resp pol f seg).rs rest := by
        rw [hrecv]; intro h; simp [hd] at h
      have := ih (w.recv o resp pol f seg) h1 h2
      rw [this.1, this.2, hrecv]
      simp only
      rw [run_errored o resp pol f w.st herr, run_errored o resp pol f w.st herr]
      exact ⟨rfl, rfl⟩

/-- **wireRun_is_run_over_segEvents.** The receive path the `wire` driver op runs (and the correspondence ties to the real
    Http1 connection layer + HttpStream) is, as long as the readers do not raise, nothing but HttpStream's `run` over the
    headers followed by `segEvents` of the deliveries — so the segmentation theorems speak about the tied function. -/
theorem wireRun_is_run_over_segEvents (fr : Framing) (segs : List Bytes) (hclean : CleanSegs (startReader fr).1 segs) :
    (wireRun o resp pol f fr segs false).outs =
      (run o resp pol f init
        (Ev.headers fr.exp
          (decide (fr = .cl 0)) :: ((eventsOf (startReader fr).2).1 ++ segEvents (startReader fr).1 segs))).2 ∧
    (wireRun o resp pol f fr segs false).st =
      (run o resp pol f init
        (Ev.headers fr.exp
          (decide (fr = .cl 0)) :: ((eventsOf (startReader fr).2).1 ++ segEvents (startReader fr).1 segs))).1 := by
  unfold wireRun
  simp only [Bool.false_eq_true, if_false]
  have := wire_fold o resp pol f
    { rs := (startReader fr).1,
      st := (run o resp pol f init (Ev.headers fr.exp
        (decide (fr = .cl 0)) :: (eventsOf (startReader fr).2).1)).1,
      dead := decide ((run o resp pol f init (Ev.headers fr.exp
        (decide (fr = .cl 0)) :: (eventsOf (startReader fr).2).1)).1.phase = .errored),
      outs := (run o resp pol f init (Ev.headers fr.exp
        (decide (fr = .cl 0)) :: (eventsOf (startReader fr).2).1)).2,
      smp := [(run o resp pol f init (Ev.headers fr.exp
        (decide (fr = .cl 0)) :: (eventsOf (startReader fr).2).1)).1.buf.length] }
    segs (by simp) (by intro _; exact hclean)
  simp only at this
  rw [this.1, this.2]
  rw [show (Ev.headers fr.exp
        (decide (fr = .cl 0)) :: ((eventsOf (startReader fr).2).1 ++ segEvents (startReader fr).1 segs)) =
      (Ev.headers fr.exp
        (decide (fr = .cl 0)) :: (eventsOf (startReader fr).2).1) ++ segEvents (startReader fr).1 segs by simp]
  rw [run_append]
  exact ⟨rfl, rfl⟩

/-- **wireRun_segmentation_independent.** For the tied receive path itself: the same wire bytes of a message with a body
    (`fr ≠ cl 0`), delivered in two different segmentations on which the readers do not raise, both runs ending `done`
    without a callable — the peer was sent the same bytes, namely the body the readers extract from the wire. -/
theorem wireRun_segmentation_independent (hpol : pol ≠ .callable) (fr : Framing) (hfr : fr ≠ .cl 0)
    (a b : List Bytes) (hsame : a.flatten = b.flatten)
    (ca : CleanSegs (startReader fr).1 a) (cb : CleanSegs (startReader fr).1 b)
    (ha : (wireRun o resp pol f fr a false).st.phase = .done) (hb : (wireRun o resp pol f fr b false).st.phase = .done) :
    (dataOf (wireRun o resp pol f fr a false).outs).flatten = (dataOf (wireRun o resp pol f fr b false).outs).flatten ∧
    (dataOf (wireRun o resp pol f fr a false).outs).flatten = bodyOf (feed (startReader fr).1 a.flatten).2 := by
  have hs : (eventsOf (startReader fr).2).1 = [] := by
    cases fr with
    | cl n => cases n with
      | zero => exact absurd rfl hfr
      | succ k => simp [startReader, eventsOf, eventsGo]
    | chunked => simp [startReader, eventsOf, eventsGo]
    | untilEof => simp [startReader, eventsOf, eventsGo]
  obtain ⟨a1, a2⟩ := wireRun_is_run_over_segEvents o resp pol f fr a ca
  obtain ⟨b1, b2⟩ := wireRun_is_run_over_segEvents o resp pol f fr b cb
  rw [a2, hs, List.nil_append] at ha
  rw [b2, hs, List.nil_append] at hb
  rw [a1, b1, hs, List.nil_append]
  exact wire_relay_segmentation_independent o resp pol f hpol fr.exp (decide (fr = .cl 0)) (startReader fr).1 a b hsame ha hb

example : CleanSegs (.size {}) [[0x33, 0x0d], [0x0a, 0x61], [0x62, 0x63, 0x0d, 0x0a, 0x30, 0x0d, 0x0a, 0x0d, 0x0a]] := by
  simp only [CleanSegs]; decide

/-! ### parse_size -/

/-- the regenerated SIZE_UNITS table is b,k,m,g,t = 1024^0..4 -/
theorem sizeUnits_table :
    Gen.C07.sizeUnits = [([0x62], 1024 ^ 0), ([0x6b], 1024 ^ 1), ([0x6d], 1024 ^ 2), ([0x67], 1024 ^ 3), ([0x74], 1024 ^ 4)] := by
  decide +kernel

/-- decimal value of a digit string, most significant first -/
def decVal (acc : Nat) (ds : Bytes) : Nat := ds.foldl (fun a c => a * 10 + digitVal c) acc

private theorem digitsTail_digits (acc : Nat) (ds rest : Bytes) (hd : ∀ c ∈ ds, isDigit c = true)
    (hr : ∀ c r, rest = c :: r → isDigit c = false ∧ c ≠ 0x5f) :
    digitsTail acc false (ds ++ rest) = some (decVal acc ds, rest) := by
  induction ds generalizing acc with
  | nil =>
    cases rest with
    | nil => simp [digitsTail, decVal]
    | cons c r =>
      obtain ⟨h1, h2⟩ := hr c r rfl
      simp [digitsTail, decVal, h1, h2]
  | cons d ds ih =>
    have hdd : isDigit d = true := hd d (by simp)
    simp only [List.cons_append, digitsTail, hdd, if_true, decVal]
    exact ih _ (fun c hc => hd c (by simp [hc]))

private theorem digit_facts : ∀ n : Fin 256, isDigit (UInt8.ofNat n.val) = true →
    isSpace (UInt8.ofNat n.val) = false ∧ UInt8.ofNat n.val ≠ 0x2d ∧ UInt8.ofNat n.val ≠ 0x2b := by
  decide +kernel

private theorem digit_facts' (c : UInt8) (h : isDigit c = true) : isSpace c = false ∧ c ≠ 0x2d ∧ c ≠ 0x2b := by
  have := digit_facts ⟨c.toNat, UInt8.toNat_lt c⟩
  simpa [h] using this

private theorem pyInt_digits_then (d : UInt8) (ds rest : Bytes) (hd : isDigit d = true)
    (hds : ∀ c ∈ ds, isDigit c = true) (hr : ∀ c r, rest = c :: r → isDigit c = false ∧ c ≠ 0x5f) :
    pyInt (d :: (ds ++ rest)) =
      (if (rest.dropWhile isSpace).isEmpty then some ((decVal 0 (d :: ds) : Nat) : Int) else none) := by
  obtain ⟨h1, h2, h3⟩ := digit_facts' d hd
  have hdt := digitsTail_digits (digitVal d) ds rest hds hr
  simp [pyInt, List.dropWhile, h1, h2, h3, hd, hdt, decVal]

/-- **parseSize_decimal.** A non-empty string of decimal digits parses to its value. -/
theorem parseSize_decimal (d : UInt8) (ds : Bytes) (hd : isDigit d = true) (hds : ∀ c ∈ ds, isDigit c = true) :
    parseSize (d :: ds) = some ((decVal 0 (d :: ds) : Nat) : Int) := by
  have := pyInt_digits_then d ds [] hd hds (by intro c r h; cases h)
  simp at this
  simp [parseSize, parseSizeWith, this]

/-- **parseSize_suffix.** Digits followed by one unit letter of the table parse to value × multiplier. -/
theorem parseSize_suffix (d : UInt8) (ds : Bytes) (hd : isDigit d = true) (hds : ∀ c ∈ ds, isDigit c = true)
    (u : UInt8) (mult : Nat) (hu : ([u], mult) ∈ Gen.C07.sizeUnits) :
    parseSize (d :: (ds ++ [u])) = some (((decVal 0 (d :: ds) : Nat) : Int) * (mult : Int)) := by
  have hwhole : ∀ u : UInt8, (u = 0x62 ∨ u = 0x6b ∨ u = 0x6d ∨ u = 0x67 ∨ u = 0x74) →
      pyInt (d :: (ds ++ [u])) = none := by
    intro u hu
    have := pyInt_digits_then d ds [u] hd hds (by
      intro c r h; simp at h; obtain ⟨rfl, _⟩ := h
      rcases hu with rfl | rfl | rfl | rfl | rfl <;> decide)
    rw [this]
    have : isSpace u = false := by rcases hu with rfl | rfl | rfl | rfl | rfl <;> decide
    simp [List.dropWhile, this]
  have hdrop : (d :: (ds ++ [u])).dropLast = d :: ds := by
    rw [show d :: (ds ++ [u]) = (d :: ds) ++ [u] by simp, List.dropLast_concat]
  have hnum := pyInt_digits_then d ds [] hd hds (by intro c r h; cases h)
  simp at hnum
  rw [sizeUnits_table] at hu
  simp at hu
  have hsuf : ∀ k : UInt8, ([k] : Bytes).isSuffixOf (d :: (ds ++ [u])) = (k == u) := by
    intro k
    rw [show d :: (ds ++ [u]) = (d :: ds) ++ [u] by simp]
    simp [List.isSuffixOf, List.reverse_append, List.isPrefixOf]
  rcases hu with ⟨rfl, rfl⟩ | ⟨rfl, rfl⟩ | ⟨rfl, rfl⟩ | ⟨rfl, rfl⟩ | ⟨rfl, rfl⟩ <;>
    simp [parseSize, parseSizeWith, hwhole, sizeUnits_table, unitLoop, hsuf, hdrop, hnum]

example : parseSize [0x31, 0x6b] = some 1024 := by decide
example : parseSize [0x31, 0x4b] = none := by decide
example : parseSize [] = none := by decide

/-! ### what the flow keeps after a LATE switch to streaming (round-6 audit: the clause "keeps those bytes only if
    store_streamed_bodies" for a body that was first buffered) -/

/-- **stored_after_late_switch.** A buffering flow whose next chunk `b` makes it switch to streaming, followed by any
    further chunks and the end of the message: with store_streamed_bodies the flow keeps exactly the bytes that were
    relayed (everything buffered so far, `b`, and the later chunks, in order); without it the flow keeps nothing of the
    body (its content stays what it was — `none` for every flow that has not ended, see `content_none_until_done`) and
    its buffer is empty. -/
theorem stored_after_late_switch (st : St) (b : Bytes) (chunks : List Bytes) (hp : st.phase = .consume)
    (hne : st.buf ++ b ≠ []) (hc : check o st.exp (st.buf ++ b) = .stream) :
    let s1 := step o resp pol f st (.data b)
    let r := run o resp pol f s1.1 (chunks.map Ev.data ++ [Ev.eom])
    r.1.phase = .done ∧
    r.1.content = (if o.store then some (dataOf (s1.2 ++ r.2)).flatten else st.content) ∧
    (dataOf (s1.2 ++ r.2)).flatten = st.buf ++ b ++ chunks.flatten ∧
    r.1.buf = [] := by
  intro s1 r
  have hstep : step o resp pol f st (Ev.data b) =
      ({ st with buf := if o.store then st.buf ++ b else [], phase := .stream, useF := false },
       [Out.sendHead, Out.sendData (st.buf ++ b)]) := by
    simp [step, hp, hc, hne, relay]
  obtain ⟨h1, h2, h3, h4⟩ := stream_run o resp pol f s1.1 (by simp [s1, hstep]) chunks
  have hu : s1.1.useF = false := by simp [s1, hstep]
  have hd : dataOf r.2 = chunks := by
    show dataOf (run o resp pol f s1.1 (chunks.map Ev.data ++ [Ev.eom])).2 = chunks
    rw [h1, hu]
    have e0 : onData false f = fun c => [c] := by funext c; simp [onData]
    simp [e0, onEnd]
  have hs2 : dataOf s1.2 = [st.buf ++ b] := by simp [s1, hstep, dataOf]
  refine ⟨h2, ?_, ?_, ?_⟩
  · show (run o resp pol f s1.1 (chunks.map Ev.data ++ [Ev.eom])).1.content = _
    rw [h3, dataOf_append, hs2]
    cases hs : o.store
    · simp [s1, hstep]
    · have hb : s1.1.buf = st.buf ++ b := by simp [s1, hstep, hs]
      simp [hb]
      rfl
  · rw [dataOf_append, hs2, hd]; simp
  · show (run o resp pol f s1.1 (chunks.map Ev.data ++ [Ev.eom])).1.buf = _
    rw [h4]
    cases hs : o.store <;> simp [s1, hstep, hs]

/-- a flow that has not reached `done` carries no content yet: in every history from `init` -/
theorem content_none_until_done (evs : List Ev) (h : (run o resp pol f init evs).1.phase ≠ .done) :
    (run o resp pol f init evs).1.content = none := by
  have key : ∀ (st : St) (evs : List Ev), st.content = none → st.phase ≠ .done →
      (run o resp pol f st evs).1.phase ≠ .done → (run o resp pol f st evs).1.content = none := by
    intro st evs
    induction evs generalizing st with
    | nil => intro hc _ _; simpa [run] using hc
    | cons e es ih =>
      intro hc hp hfin
      simp only [run] at hfin ⊢
      by_cases hd : (step o resp pol f st e).1.phase = .done
      · rw [run_done o resp pol f _ hd] at hfin; exact absurd hd hfin
      · refine ih _ ?_ hd hfin
        cases e with
        | headers exp endS =>
          cases hph : st.phase <;> cases endS <;> cases pol <;> cases hck : check o exp [] <;>
            simp [step, hph, hck, hc]
        | data c =>
          cases hph : st.phase
          case consume =>
            cases hck : check o st.exp (st.buf ++ c)
            · simp [step, hph, hck, hc]
            · simp [step, hph, hck, hc]
            · by_cases hb : st.buf ++ c = []
              · rw [hb] at hck
                have hb' := hb
                simp at hb'
                simp [step, hph, hck, hb'.1, hb'.2, hc]
              · simp [step, hph, hck, hb, relay, hc]
          case stream => simp [step, hph, relay, hc]
          all_goals simp [step, hph, hc]
        | eom =>
          cases hph : st.phase
          case consume => simp [step, hph] at hd
          case stream => simp [step, hph, relay] at hd
          all_goals simp [step, hph, hc]
  exact key init evs rfl (by decide) h

/-- **stored_iff_option_late.** From the headers on, for a body that is buffered first (any prefix history `pre` that ends in
    the consume state) and switched to streaming by the chunk `b`: at the end the flow keeps exactly what was relayed from
    the switch on iff store_streamed_bodies is on, and nothing otherwise. -/
theorem stored_iff_option_late (pre : List Ev) (b : Bytes) (chunks : List Bytes)
    (hp : (run o resp pol f init pre).1.phase = .consume)
    (hne : (run o resp pol f init pre).1.buf ++ b ≠ [])
    (hc : check o (run o resp pol f init pre).1.exp ((run o resp pol f init pre).1.buf ++ b) = .stream) :
    let st := (run o resp pol f init pre).1
    let s1 := step o resp pol f st (.data b)
    let r := run o resp pol f s1.1 (chunks.map Ev.data ++ [Ev.eom])
    r.1.content = (if o.store then some (st.buf ++ b ++ chunks.flatten) else none) ∧ r.1.buf = [] := by
  intro st s1 r
  obtain ⟨_, h2, h3, h4⟩ := stored_after_late_switch o resp pol f st b chunks hp hne hc
  have hn : st.content = none := content_none_until_done o resp pol f pre (by rw [hp]; decide)
  refine ⟨?_, h4⟩
  show r.1.content = _
  rw [show r.1.content = _ from h2, show (dataOf (s1.2 ++ r.2)).flatten = _ from h3, hn]

-- non-vacuity: threshold 3, two bytes buffered, two more switch; store on: the flow keeps all six bytes that were relayed
example : (run { limit := none, thr := some 3, store := true } false .none (fun d => .one d) init
    [.headers .unknown false, .data [1, 2], .data [3, 4], .data [5, 6], .eom]).1.content = some [1, 2, 3, 4, 5, 6] := by decide
example : (run { limit := none, thr := some 3, store := false } false .none (fun d => .one d) init
    [.headers .unknown false, .data [1, 2], .data [3, 4], .data [5, 6], .eom]).1.content = none := by decide

/-! ### non-vacuity witnesses added by the round-6 cross-audit (b-c05) -/

-- late_switch_when_due: a buffering flow (2 bytes held, threshold 3, limit 10) receives 2 more bytes
example : (run { limit := some 10, thr := some 3, store := false } false .none (fun d => .one d) init
      [.headers .unknown false, .data [1, 2]]).1.phase = .consume ∧
    check { limit := some 10, thr := some 3, store := false } .unknown ([1, 2] ++ [3, 4]) = .stream := by decide
-- unstored_stream_holds_nothing: the state right after that late switch satisfies `hp` and `hb`
example : (run { limit := some 10, thr := some 3, store := false } false .none (fun d => .one d) init
      [.headers .unknown false, .data [1, 2], .data [3, 4]]).1.phase = .stream ∧
    (run { limit := some 10, thr := some 3, store := false } false .none (fun d => .one d) init
      [.headers .unknown false, .data [1, 2], .data [3, 4]]).1.buf = [] := by decide
-- buffer_bound_partial / consume_buffer_le_limit: guard and `hp` hold on a non-empty buffering history (3 ≤ 5 held)
example : (run { limit := some 5, thr := none, store := true } true .none (fun d => .one d) init
      [.headers .unknown false, .data [1, 2], .data [3]]).1.phase = .consume ∧
    (run { limit := some 5, thr := none, store := true } true .none (fun d => .one d) init
      [.headers .unknown false, .data [1, 2], .data [3]]).1.buf.length = 3 := by decide
-- request_side_independent / upload_unaffected_by_response_timing: the response in the middle of a streamed upload is not refused
example : RespAlive { limit := none, thr := some 1, store := false } ⟨.none, fun d => .one d⟩ ⟨.none, fun d => .one d⟩ {}
    [(false, .headers .unknown false), (false, .data [1, 2]), (true, .headers (.known 1) false), (true, .data [9]), (true, .eom),
     (false, .data [3]), (false, .eom)] := by
  simp [RespAlive, stepX, step, check, expectedSize, exceeds, relay]
-- response_over_limit_errors_in_exchange: `hk` for the exchange of the example above (Content-Length 8 > limit 6)
example : KnownTooLarge { limit := some 6, thr := some 3, store := false }
    (run { limit := some 6, thr := some 3, store := false } true .none (fun d => .one d) init []).1
    (.headers (.known 8) false) :=
  ⟨6, rfl, Or.inl ⟨rfl, 8, rfl, by decide, by decide⟩⟩
-- wireRun_segmentation_independent: the tied receive path ends `done` on a chunked body cut inside the size line
example : (wireRun { limit := none, thr := some 2, store := false } false .none (fun d => .one d) .chunked
    [[0x33, 0x0d], [0x0a, 0x61], [0x62, 0x63, 0x0d, 0x0a, 0x30, 0x0d, 0x0a, 0x0d, 0x0a]] false).st.phase = .done := by decide
example : (dataOf (wireRun { limit := none, thr := some 2, store := false } false .none (fun d => .one d) .chunked
    [[0x33, 0x0d, 0x0a, 0x61, 0x62, 0x63, 0x0d, 0x0a, 0x30, 0x0d, 0x0a, 0x0d, 0x0a]] false).outs).flatten = [0x61, 0x62, 0x63] := by decide
-- streamed_wire_exact: `hok` for a duplicating callable
example : SizesOk (dataOf (run { limit := none, thr := none, store := false } false .callable (fun d => .many [d, d])
    (step { limit := none, thr := none, store := false } false .callable (fun d => .many [d, d]) init (.headers .unknown false)).1
    ([[1], [2, 3]].map Ev.data ++ [Ev.eom])).2) := by
  intro c hc
  have : c ∈ [[1], [1], [2, 3], [2, 3], [], []] := by
    have e : dataOf (run { limit := none, thr := none, store := false } false .callable (fun d => .many [d, d])
      (step { limit := none, thr := none, store := false } false .callable (fun d => .many [d, d]) init (.headers .unknown false)).1
      ([[1], [2, 3]].map Ev.data ++ [Ev.eom])).2 = [[1], [1], [2, 3], [2, 3], [], []] := by decide
    rw [e] at hc; exact hc
  simp at this
  rcases this with rfl | rfl | rfl <;> decide
-- parseSize_suffix: `hu`
example : (([0x6b], 1024) : Bytes × Nat) ∈ Gen.C07.sizeUnits := by decide
-- stream_starts_when_due: `hdue` (third alternative) together with `hnot`
example : check { limit := some 10, thr := some 3, store := false } (.known 5) [] = .stream ∧
    check { limit := some 10, thr := some 3, store := false } (.known 5) [] ≠ .abort := by decide

end MitmVerif.Props.C07
