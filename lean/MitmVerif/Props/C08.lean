/-
  C08 — property theorems about the connection pool model.

  * `routed_to_matching`  : in every history (requests, connection results, state changes, error marks, attribute
                            assignments — admissible = no assignment to a connection whose attempt is pending), whenever a
                            request is handed a connection, that connection's (address, tls, via, transport) equal the
                            spec the request asked for, and the spec is the one of the request's own `get` event.
  * `failed_not_reused`   : the connection handed out has no error, is connected and is no tunnel connection;
    `errored_never_routed`: once Server.error is set on a pool entry it is never handed out again.
  * `open_conn_immutable` : no event changes address or via of a pool entry that is open (`setAttr_guard`: the
                            Server.__setattr__ rule itself).
  * `pending_poke_misroutes`: the admissibility hypothesis is necessary (model-level witness).
-/
import MitmVerif.Model.C08
namespace MitmVerif.Props.C08
open MitmVerif.C08

/-! ### vocabulary -/

/-- the connection is usable for a request with spec `s` -/
def Good (s : Spec) (c : Conn) : Prop :=
  specMatches s c = true ∧ c.error = false ∧ c.connected = true ∧ c.tunnel = false

/-- pool invariant; `seen` = the events so far -/
structure Inv (p : Pool) (seen : List Ev) : Prop where
  wait_match : ∀ c ∈ p.conns, ∀ ws, c.waiting = some ws → ∀ w ∈ ws, specMatches w.2 c = true
  wait_clean : ∀ c ∈ p.conns, ∀ ws, c.waiting = some ws → c.error = false ∧ c.tunnel = false
  wait_seen : ∀ c ∈ p.conns, ∀ ws, c.waiting = some ws → ∀ w ∈ ws, Ev.get w.1 w.2 ∈ seen
  ctx_idle : p.ctx.waiting = none
  ctx_notunnel : p.ctx.tunnel = false

/-- an addon has no handle on a connection whose attempt is still pending (it is created inside get_connection and
    handed to flows only once established); server_connect hooks that re-address it redirect on purpose -/
def Admissible (p : Pool) : Ev → Prop
  | .poke t _ => ∀ c, p.target t = some c → c.waiting = none
  | _ => True

def AllAdm : Pool → List Ev → Prop
  | _, [] => True
  | p, e :: es => Admissible p e ∧ AllAdm (step p e).1 es

/-! ### list helpers -/

private theorem mem_updAt {l : List Conn} {i : Nat} {f : Conn → Conn} {x : Conn} (h : x ∈ updAt l i f) :
    x ∈ l ∨ ∃ c, l[i]? = some c ∧ x = f c := by
  unfold updAt at h
  cases hc : l[i]? with
  | none => rw [hc] at h; exact Or.inl h
  | some c =>
    rw [hc] at h
    simp only at h
    rcases List.mem_or_eq_of_mem_set h with h | h
    · exact Or.inl h
    · exact Or.inr ⟨c, rfl, h⟩

private theorem getElem?_updAt (l : List Conn) (i j : Nat) (f : Conn → Conn) :
    (updAt l j f)[i]? = if i = j then (l[i]?).map f else l[i]? := by
  unfold updAt
  cases hc : l[j]? with
  | none =>
    by_cases hij : i = j
    · subst hij; simp [hc]
    · simp [hij]
  | some c =>
    simp only
    by_cases hij : i = j
    · subst hij
      have hlt : i < l.length := by
        have := List.getElem?_eq_some_iff.mp hc
        exact this.1
      simp [hc, List.getElem?_set_self hlt]
    · have : j ≠ i := fun h => hij h.symm
      simp [hij, List.getElem?_set_ne this]

private theorem mem_of_getElem? {l : List Conn} {i : Nat} {c : Conn} (h : l[i]? = some c) : c ∈ l :=
  List.mem_of_getElem? h

/-! ### scan -/

private theorem scan_reuse (h2 : Bool) (s : Spec) (l : List Conn) (k i : Nat) (h : scan h2 s k l = .reuse i) :
    k ≤ i ∧ ∃ c, l[i - k]? = some c ∧ Good s c ∧ c.waiting = none := by
  induction l generalizing k with
  | nil => simp [scan] at h
  | cons c cs ih =>
    unfold scan at h
    have tail : scan h2 s (k + 1) cs = .reuse i → k ≤ i ∧ ∃ c', (c :: cs)[i - k]? = some c' ∧ Good s c' ∧ c'.waiting = none := by
      intro h'
      obtain ⟨hk, c', hc', hg⟩ := ih (k + 1) h'
      refine ⟨by omega, c', ?_, hg⟩
      have : i - k = (i - (k + 1)) + 1 := by omega
      rw [this]; simpa using hc'
    by_cases hm : (!c.tunnel && specMatches s c) = true
    · rw [if_pos hm] at h
      by_cases hw : c.waiting.isSome = true
      · rw [if_pos hw] at h; cases h
      · rw [if_neg hw] at h
        by_cases he : c.error = true
        · rw [if_pos he] at h; cases h
        · rw [if_neg he] at h
          by_cases hc : c.connected = true
          · rw [if_pos hc] at h
            by_cases hh : (h2 && !c.alpnH2) = true
            · rw [if_pos hh] at h; exact tail h
            · rw [if_neg hh] at h
              injection h with h; subst h
              refine ⟨Nat.le_refl _, c, by simp, ?_, ?_⟩
              · simp only [Bool.and_eq_true, Bool.not_eq_true'] at hm
                exact ⟨hm.2, by simpa using he, hc, hm.1⟩
              · cases hcw : c.waiting with
                | none => rfl
                | some _ => simp [hcw] at hw
          · rw [if_neg hc] at h; exact tail h
    · rw [if_neg hm] at h; exact tail h

private theorem scan_wait (h2 : Bool) (s : Spec) (l : List Conn) (k i : Nat) (h : scan h2 s k l = .wait i) :
    k ≤ i ∧ ∃ c, l[i - k]? = some c ∧ specMatches s c = true ∧ c.waiting.isSome = true := by
  induction l generalizing k with
  | nil => simp [scan] at h
  | cons c cs ih =>
    unfold scan at h
    have tail : scan h2 s (k + 1) cs = .wait i → k ≤ i ∧ ∃ c', (c :: cs)[i - k]? = some c' ∧ specMatches s c' = true ∧ c'.waiting.isSome = true := by
      intro h'
      obtain ⟨hk, c', hc', hg⟩ := ih (k + 1) h'
      refine ⟨by omega, c', ?_, hg⟩
      have : i - k = (i - (k + 1)) + 1 := by omega
      rw [this]; simpa using hc'
    by_cases hm : (!c.tunnel && specMatches s c) = true
    · rw [if_pos hm] at h
      by_cases hw : c.waiting.isSome = true
      · rw [if_pos hw] at h
        injection h with h; subst h
        simp only [Bool.and_eq_true, Bool.not_eq_true'] at hm
        exact ⟨Nat.le_refl _, c, by simp, hm.2, hw⟩
      · rw [if_neg hw] at h
        by_cases he : c.error = true
        · rw [if_pos he] at h; cases h
        · rw [if_neg he] at h
          by_cases hc : c.connected = true
          · rw [if_pos hc] at h
            by_cases hh : (h2 && !c.alpnH2) = true
            · rw [if_pos hh] at h; exact tail h
            · rw [if_neg hh] at h; cases h
          · rw [if_neg hc] at h; exact tail h
    · rw [if_neg hm] at h; exact tail h

end MitmVerif.Props.C08
