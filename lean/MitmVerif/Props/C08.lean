/-
  C08 — property theorems about the connection pool model.

  * `routed_to_matching`  : in every history (requests, connection results, state changes, error marks, attribute
                            assignments — admissible = no assignment to a connection whose attempt is pending), whenever a
                            request is handed a connection, that connection's (address, tls, via, transport) equal the
                            spec the request asked for, and the spec is the one of the request's own `get` event.
  * `failed_not_reused`   : the connection handed out has no error, is connected and is no tunnel connection;
    `errored_never_routed`: once Server.error is set on a pool entry it is never handed out again.
  * `open_conn_immutable` : no event changes address or via of a pool entry that is open (`setAttr_guard`: the
                            Server.__setattr__ rule itself).
  * `pending_poke_misroutes`: the admissibility hypothesis is necessary (model-level witness).
-/
import MitmVerif.Model.C08
namespace MitmVerif.Props.C08
open MitmVerif.C08

/-! ### vocabulary -/

/-- the connection is usable for a request with spec `s` -/
def Good (s : Spec) (c : Conn) : Prop :=
  specMatches s c = true ∧ c.error = false ∧ c.connected = true ∧ c.tunnel = false

/-- pool invariant; `seen` = the events so far -/
structure Inv (p : Pool) (seen : List Ev) : Prop where
  wait_match : ∀ c ∈ p.conns, ∀ ws, c.waiting = some ws → ∀ w ∈ ws, specMatches w.2 c = true
  wait_clean : ∀ c ∈ p.conns, ∀ ws, c.waiting = some ws → c.error = false ∧ c.tunnel = false
  wait_seen : ∀ c ∈ p.conns, ∀ ws, c.waiting = some ws → ∀ w ∈ ws, Ev.get w.1 w.2 ∈ seen
  ctx_idle : p.ctx.waiting = none
  ctx_notunnel : p.ctx.tunnel = false

/-- an addon has no handle on a connection whose attempt is still pending (it is created inside get_connection and
    handed to flows only once established); server_connect hooks that re-address it redirect on purpose -/
def Admissible (p : Pool) : Ev → Prop
  | .poke t _ => (match p.target t with | some c => c.waiting = none | none => True)
  | _ => True

def AllAdm : Pool → List Ev → Prop
  | _, [] => True
  | p, e :: es => Admissible p e ∧ AllAdm (step p e).1 es

instance (p : Pool) (e : Ev) : Decidable (Admissible p e) := by
  cases e <;> simp only [Admissible] <;> (try infer_instance)
  split <;> infer_instance

def decAllAdm : (p : Pool) → (evs : List Ev) → Decidable (AllAdm p evs)
  | _, [] => isTrue trivial
  | p, e :: es =>
    match (inferInstance : Decidable (Admissible p e)), decAllAdm (step p e).1 es with
    | isTrue h1, isTrue h2 => isTrue ⟨h1, h2⟩
    | isFalse h1, _ => isFalse (fun h => h1 h.1)
    | _, isFalse h2 => isFalse (fun h => h2 h.2)

instance (p : Pool) (evs : List Ev) : Decidable (AllAdm p evs) := decAllAdm p evs

/-! ### list helpers -/

private theorem mem_updAt {l : List Conn} {i : Nat} {f : Conn → Conn} {x : Conn} (h : x ∈ updAt l i f) :
    x ∈ l ∨ ∃ c, l[i]? = some c ∧ x = f c := by
  unfold updAt at h
  cases hc : l[i]? with
  | none => rw [hc] at h; exact Or.inl h
  | some c =>
    rw [hc] at h
    simp only at h
    rcases List.mem_or_eq_of_mem_set h with h | h
    · exact Or.inl h
    · exact Or.inr ⟨c, rfl, h⟩

private theorem getElem?_updAt (l : List Conn) (i j : Nat) (f : Conn → Conn) :
    (updAt l j f)[i]? = if i = j then (l[i]?).map f else l[i]? := by
  unfold updAt
  cases hc : l[j]? with
  | none =>
    by_cases hij : i = j
    · subst hij; simp [hc]
    · simp [hij]
  | some c =>
    simp only
    by_cases hij : i = j
    · subst hij
      have hlt : i < l.length := by
        have := List.getElem?_eq_some_iff.mp hc
        exact this.1
      simp [hc, List.getElem?_set_self hlt]
    · have : j ≠ i := fun h => hij h.symm
      simp [hij, List.getElem?_set_ne this]

private theorem mem_of_getElem? {l : List Conn} {i : Nat} {c : Conn} (h : l[i]? = some c) : c ∈ l :=
  List.mem_of_getElem? h

/-! ### scan -/

private theorem scan_reuse (h2 : Bool) (s : Spec) (l : List Conn) (k i : Nat) (h : scan h2 s k l = .reuse i) :
    k ≤ i ∧ ∃ c, l[i - k]? = some c ∧ Good s c ∧ c.waiting = none := by
  induction l generalizing k with
  | nil => simp [scan] at h
  | cons c cs ih =>
    unfold scan at h
    have tail : scan h2 s (k + 1) cs = .reuse i → k ≤ i ∧ ∃ c', (c :: cs)[i - k]? = some c' ∧ Good s c' ∧ c'.waiting = none := by
      intro h'
      obtain ⟨hk, c', hc', hg⟩ := ih (k + 1) h'
      refine ⟨by omega, c', ?_, hg⟩
      have : i - k = (i - (k + 1)) + 1 := by omega
      rw [this]; simpa using hc'
    by_cases hm : (!c.tunnel && specMatches s c) = true
    · rw [if_pos hm] at h
      by_cases hw : c.waiting.isSome = true
      · rw [if_pos hw] at h; cases h
      · rw [if_neg hw] at h
        by_cases he : c.error = true
        · rw [if_pos he] at h; cases h
        · rw [if_neg he] at h
          by_cases hc : c.connected = true
          · rw [if_pos hc] at h
            by_cases hh : (h2 && !c.alpnH2) = true
            · rw [if_pos hh] at h; exact tail h
            · rw [if_neg hh] at h
              injection h with h; subst h
              refine ⟨Nat.le_refl _, c, by simp, ?_, ?_⟩
              · simp only [Bool.and_eq_true, Bool.not_eq_true'] at hm
                exact ⟨hm.2, by simpa using he, hc, hm.1⟩
              · cases hcw : c.waiting with
                | none => rfl
                | some _ => simp [hcw] at hw
          · rw [if_neg hc] at h; exact tail h
    · rw [if_neg hm] at h; exact tail h

private theorem scan_wait (h2 : Bool) (s : Spec) (l : List Conn) (k i : Nat) (h : scan h2 s k l = .wait i) :
    k ≤ i ∧ ∃ c, l[i - k]? = some c ∧ specMatches s c = true ∧ c.waiting.isSome = true := by
  induction l generalizing k with
  | nil => simp [scan] at h
  | cons c cs ih =>
    unfold scan at h
    have tail : scan h2 s (k + 1) cs = .wait i → k ≤ i ∧ ∃ c', (c :: cs)[i - k]? = some c' ∧ specMatches s c' = true ∧ c'.waiting.isSome = true := by
      intro h'
      obtain ⟨hk, c', hc', hg⟩ := ih (k + 1) h'
      refine ⟨by omega, c', ?_, hg⟩
      have : i - k = (i - (k + 1)) + 1 := by omega
      rw [this]; simpa using hc'
    by_cases hm : (!c.tunnel && specMatches s c) = true
    · rw [if_pos hm] at h
      by_cases hw : c.waiting.isSome = true
      · rw [if_pos hw] at h
        injection h with h; subst h
        simp only [Bool.and_eq_true, Bool.not_eq_true'] at hm
        exact ⟨Nat.le_refl _, c, by simp, hm.2, hw⟩
      · rw [if_neg hw] at h
        by_cases he : c.error = true
        · rw [if_pos he] at h; cases h
        · rw [if_neg he] at h
          by_cases hc : c.connected = true
          · rw [if_pos hc] at h
            by_cases hh : (h2 && !c.alpnH2) = true
            · rw [if_pos hh] at h; exact tail h
            · rw [if_neg hh] at h; cases h
          · rw [if_neg hc] at h; exact tail h
    · rw [if_neg hm] at h; exact tail h

/-! ### get_connection -/

private theorem specMatches_newConn (s : Spec) : specMatches s (newConn s) = true := by
  simp [specMatches, newConn]

private theorem Inv.mono {p : Pool} {seen : List Ev} (h : Inv p seen) (more : List Ev) : Inv p (seen ++ more) :=
  ⟨h.wait_match, h.wait_clean,
   fun c hc ws hw w hwm => List.mem_append.mpr (Or.inl (h.wait_seen c hc ws hw w hwm)), h.ctx_idle, h.ctx_notunnel⟩

private theorem getFresh_spec (p : Pool) (seen : List Ev) (rid : Nat) (s : Spec)
    (hinv : Inv p seen) (hseen : Ev.get rid s ∈ seen) :
    Inv (getFresh p rid s).1 seen ∧
    (∀ (rid' : Nat) (s' : Spec) (cid : Nat), Out.routed rid' s' cid ∈ (getFresh p rid s).2 →
      rid' = rid ∧ s' = s ∧ ∃ c, (getFresh p rid s).1.conns[cid]? = some c ∧ Good s c) ∧
    (∀ (i : Nat) (c : Conn), p.conns[i]? = some c → (getFresh p rid s).1.conns[i]? = some c) := by
    unfold getFresh
    simp only
    by_cases h1 : ((p.ctxIn.isNone && specMatches s p.ctx) && p.ctx.error) = true
    · rw [if_pos h1]
      exact ⟨hinv, by simp, fun i c h => h⟩
    · rw [if_neg h1]
      by_cases h2 : ((p.ctxIn.isNone && specMatches s p.ctx) && p.ctx.connected) = true
      · rw [if_pos h2]
        simp only [Bool.and_eq_true] at h2
        have herr : p.ctx.error = false := by
          cases he : p.ctx.error
          · rfl
          · simp [h2.1.1, h2.1.2, he] at h1
        refine ⟨⟨?_, ?_, ?_, hinv.ctx_idle, hinv.ctx_notunnel⟩, ?_, ?_⟩
        · intro c hc ws hw
          rcases List.mem_append.mp hc with hc | hc
          · exact hinv.wait_match c hc ws hw
          · simp at hc; subst hc; simp at hw
        · intro c hc ws hw
          rcases List.mem_append.mp hc with hc | hc
          · exact hinv.wait_clean c hc ws hw
          · simp at hc; subst hc; simp at hw
        · intro c hc ws hw
          rcases List.mem_append.mp hc with hc | hc
          · exact hinv.wait_seen c hc ws hw
          · simp at hc; subst hc; simp at hw
        · intro rid' s' cid hm
          simp at hm
          obtain ⟨rfl, rfl, rfl⟩ := hm
          refine ⟨rfl, rfl, { p.ctx with waiting := none }, by simp, ?_⟩
          exact ⟨by simpa [specMatches] using h2.1.2, herr, by simpa [Conn.connected] using h2.2, hinv.ctx_notunnel⟩
        · intro i c h
          have hlt : i < p.conns.length := (List.getElem?_eq_some_iff.mp h).1
          simp [List.getElem?_append_left hlt, h]
      · rw [if_neg h2]
        refine ⟨⟨?_, ?_, ?_, hinv.ctx_idle, hinv.ctx_notunnel⟩, by simp, ?_⟩
        · intro c hc ws hw
          rcases List.mem_append.mp hc with hc | hc
          · rcases List.mem_append.mp hc with hc | hc
            · exact hinv.wait_match c hc ws hw
            · simp at hc; subst hc
              simp at hw; subst hw
              intro w hwm; simp at hwm; subst hwm
              simpa [specMatches] using specMatches_newConn s
          · cases hv : s.via <;> simp [hv] at hc
            subst hc; simp [tunnelConn] at hw
        · intro c hc ws hw
          rcases List.mem_append.mp hc with hc | hc
          · rcases List.mem_append.mp hc with hc | hc
            · exact hinv.wait_clean c hc ws hw
            · simp at hc; subst hc; simp [newConn]
          · cases hv : s.via <;> simp [hv] at hc
            subst hc; simp [tunnelConn] at hw
        · intro c hc ws hw
          rcases List.mem_append.mp hc with hc | hc
          · rcases List.mem_append.mp hc with hc | hc
            · exact hinv.wait_seen c hc ws hw
            · simp at hc; subst hc
              simp at hw; subst hw
              intro w hwm; simp at hwm; subst hwm; exact hseen
          · cases hv : s.via <;> simp [hv] at hc
            subst hc; simp [tunnelConn] at hw
        · intro i c h
          have hlt : i < p.conns.length := (List.getElem?_eq_some_iff.mp h).1
          rw [List.append_assoc, List.getElem?_append_left hlt]; exact h

/-- get_connection keeps the invariant (the request's `get` event is among the events seen), every connection it
    hands out is good for the spec, and with `reuse = false` it only appends -/
private theorem getConn_spec (p : Pool) (seen : List Ev) (reuse : Bool) (rid : Nat) (s : Spec)
    (hinv : Inv p seen) (hseen : Ev.get rid s ∈ seen) :
    Inv (getConn p reuse rid s).1 seen ∧
    (∀ (rid' : Nat) (s' : Spec) (cid : Nat), Out.routed rid' s' cid ∈ (getConn p reuse rid s).2 →
      rid' = rid ∧ s' = s ∧ ∃ c, (getConn p reuse rid s).1.conns[cid]? = some c ∧ Good s c) ∧
    (reuse = false → ∀ (i : Nat) (c : Conn), p.conns[i]? = some c → (getConn p reuse rid s).1.conns[i]? = some c) := by
  have none_case := getFresh_spec p seen rid s hinv hseen
  unfold getConn
  cases reuse
  · -- reuse = false
    simp only [Bool.false_eq_true, if_false]
    exact ⟨none_case.1, none_case.2.1, fun _ => none_case.2.2⟩
  · simp only [if_true]
    cases hs : scan p.clientH2 s 0 p.conns with
    | none => exact ⟨none_case.1, none_case.2.1, fun h => by cases h⟩
    | fail i => exact ⟨hinv, by simp, fun h => by cases h⟩
    | reuse i =>
      obtain ⟨_, c, hc, hg, _⟩ := scan_reuse _ _ _ _ _ hs
      refine ⟨hinv, ?_, fun h => by cases h⟩
      intro rid' s' cid hm
      simp at hm
      obtain ⟨rfl, rfl, rfl⟩ := hm
      exact ⟨rfl, rfl, c, by simpa using hc, hg⟩
    | wait i =>
      obtain ⟨_, c0, hc0, hm0, hw0⟩ := scan_wait _ _ _ _ _ hs
      simp only [Nat.sub_zero] at hc0
      have hc0mem := mem_of_getElem? hc0
      obtain ⟨ws0, hws0⟩ : ∃ ws0, c0.waiting = some ws0 := by
        cases h : c0.waiting with
        | none => simp [h] at hw0
        | some ws0 => exact ⟨ws0, rfl⟩
      refine ⟨⟨?_, ?_, ?_, hinv.ctx_idle, hinv.ctx_notunnel⟩, by simp, fun h => by cases h⟩
      · intro c hc ws hw
        rcases mem_updAt hc with hc | ⟨c1, hc1, rfl⟩
        · exact hinv.wait_match c hc ws hw
        · rw [hc0] at hc1; injection hc1 with hc1; subst hc1
          simp [addWaiting, hws0] at hw; subst hw
          intro w hwm
          rcases List.mem_append.mp hwm with hwm | hwm
          · simpa [specMatches, addWaiting] using hinv.wait_match c0 hc0mem ws0 hws0 w hwm
          · simp at hwm; subst hwm; simpa [specMatches, addWaiting] using hm0
      · intro c hc ws hw
        rcases mem_updAt hc with hc | ⟨c1, hc1, rfl⟩
        · exact hinv.wait_clean c hc ws hw
        · rw [hc0] at hc1; injection hc1 with hc1; subst hc1
          simpa [addWaiting] using hinv.wait_clean c0 hc0mem ws0 hws0
      · intro c hc ws hw
        rcases mem_updAt hc with hc | ⟨c1, hc1, rfl⟩
        · exact hinv.wait_seen c hc ws hw
        · rw [hc0] at hc1; injection hc1 with hc1; subst hc1
          simp [addWaiting, hws0] at hw; subst hw
          intro w hwm
          rcases List.mem_append.mp hwm with hwm | hwm
          · exact hinv.wait_seen c0 hc0mem ws0 hws0 w hwm
          · simp at hwm; subst hwm; exact hseen

/-! ### register_connection -/

private theorem regetAll_spec (p : Pool) (seen : List Ev) (ws : List (Nat × Spec))
    (hinv : Inv p seen) (hseen : ∀ w ∈ ws, Ev.get w.1 w.2 ∈ seen) :
    Inv (regetAll p ws).1 seen ∧
    (∀ (rid : Nat) (s : Spec) (cid : Nat), Out.routed rid s cid ∈ (regetAll p ws).2 →
      (rid, s) ∈ ws ∧ ∃ c, (regetAll p ws).1.conns[cid]? = some c ∧ Good s c) ∧
    (∀ (i : Nat) (c : Conn), p.conns[i]? = some c → (regetAll p ws).1.conns[i]? = some c) := by
  induction ws generalizing p with
  | nil => exact ⟨hinv, by simp [regetAll], fun i c h => h⟩
  | cons w ws ih =>
    obtain ⟨g1, g2, g3⟩ := getConn_spec p seen false w.1 w.2 hinv (hseen w (by simp))
    obtain ⟨r1, r2, r3⟩ := ih (getConn p false w.1 w.2).1 g1 (fun x hx => hseen x (by simp [hx]))
    simp only [regetAll]
    refine ⟨r1, ?_, fun i c h => r3 i c (g3 rfl i c h)⟩
    intro rid s cid hm
    rcases List.mem_append.mp hm with hm | hm
    · obtain ⟨e1, e2, c, hc, hg⟩ := g2 rid s cid hm
      subst e1; subst e2
      exact ⟨by simp, c, r3 cid c hc, hg⟩
    · obtain ⟨hmem, c, hc, hg⟩ := r2 rid s cid hm
      exact ⟨by simp [hmem], c, hc, hg⟩

private theorem good_of_waiting (c : Conn) (h2 : Bool) (s : Spec) (hm : specMatches s c = true)
    (he : c.error = false) (ht : c.tunnel = false) :
    Good s { c with waiting := none, canRead := true, canWrite := true, alpnH2 := h2 } :=
  ⟨by simpa [specMatches] using hm, he, by simp [Conn.connected], ht⟩

private theorem inv_set (p : Pool) (seen : List Ev) (cid : Nat) (c' : Conn) (hinv : Inv p seen)
    (hw : c'.waiting = none) : Inv { p with conns := p.conns.set cid c' } seen := by
  refine ⟨?_, ?_, ?_, hinv.ctx_idle, hinv.ctx_notunnel⟩
  · intro c hc ws hws
    rcases List.mem_or_eq_of_mem_set hc with hc | hc
    · exact hinv.wait_match c hc ws hws
    · subst hc; rw [hw] at hws; cases hws
  · intro c hc ws hws
    rcases List.mem_or_eq_of_mem_set hc with hc | hc
    · exact hinv.wait_clean c hc ws hws
    · subst hc; rw [hw] at hws; cases hws
  · intro c hc ws hws
    rcases List.mem_or_eq_of_mem_set hc with hc | hc
    · exact hinv.wait_seen c hc ws hws
    · subst hc; rw [hw] at hws; cases hws

private theorem register_spec (p : Pool) (seen : List Ev) (cid : Nat) (res : Res) (hinv : Inv p seen) :
    Inv (register p cid res).1 seen ∧
    (∀ (rid : Nat) (s : Spec) (k : Nat), Out.routed rid s k ∈ (register p cid res).2 →
      Ev.get rid s ∈ seen ∧ ∃ c, (register p cid res).1.conns[k]? = some c ∧ Good s c) := by
  unfold register
  cases hc : p.conns[cid]? with
  | none => exact ⟨hinv, by simp⟩
  | some c =>
    have hmem := mem_of_getElem? hc
    have hlt : cid < p.conns.length := (List.getElem?_eq_some_iff.mp hc).1
    simp only
    cases hw : c.waiting with
    | none => exact ⟨hinv, by simp⟩
    | some ws =>
      have hmatch := hinv.wait_match c hmem ws hw
      have hclean := hinv.wait_clean c hmem ws hw
      have hsn := hinv.wait_seen c hmem ws hw
      simp only
      cases res with
      | fail e =>
        refine ⟨inv_set p seen cid _ hinv rfl, ?_⟩
        intro rid s k hm; simp at hm
      | ok h2 =>
        simp only
        have hinv' := inv_set p seen cid { c with waiting := none, canRead := true, canWrite := true, alpnH2 := h2 } hinv rfl
        have hself : (p.conns.set cid { c with waiting := none, canRead := true, canWrite := true, alpnH2 := h2 })[cid]? =
            some { c with waiting := none, canRead := true, canWrite := true, alpnH2 := h2 } := by
          simp [List.getElem?_set_self hlt]
        by_cases hh : (p.clientH2 && !h2) = true
        · rw [if_pos hh]
          cases ws with
          | nil => exact ⟨hinv', by simp⟩
          | cons w rest =>
            simp only
            obtain ⟨r1, r2, r3⟩ := regetAll_spec _ seen rest hinv' (fun x hx => hsn x (by simp [hx]))
            refine ⟨r1, ?_⟩
            intro rid s k hm
            rcases List.mem_cons.mp hm with hm | hm
            · injection hm with e1 e2 e3
              subst e1; subst e2; rw [e3]
              exact ⟨hsn w (by simp), _, r3 cid _ hself,
                good_of_waiting c h2 w.2 (hmatch w (by simp)) hclean.1 hclean.2⟩
            · obtain ⟨hmem', c', hc', hg⟩ := r2 rid s k hm
              exact ⟨hsn (rid, s) (by simp [hmem']), c', hc', hg⟩
        · rw [if_neg hh]
          refine ⟨hinv', ?_⟩
          intro rid s k hm
          simp only [List.mem_map] at hm
          obtain ⟨w, hwm, hweq⟩ := hm
          injection hweq with e1 e2 e3
          subst e1; subst e2; rw [← e3]
          exact ⟨hsn w hwm, _, hself, good_of_waiting c h2 w.2 (hmatch w hwm) hclean.1 hclean.2⟩

/-! ### one step -/

private theorem inv_updTarget (p : Pool) (seen : List Ev) (t : Target) (f : Conn → Conn) (hinv : Inv p seen)
    (hf : ∀ c, (p.target t = some c) → ((f c).waiting = none ∧ c.waiting = none) ∨
      ((f c).waiting = c.waiting ∧ (f c).error = c.error ∧ (f c).tunnel = c.tunnel ∧
        ∀ s, specMatches s (f c) = specMatches s c))
    (hctx : (f p.ctx).tunnel = p.ctx.tunnel ∧ (f p.ctx).waiting = p.ctx.waiting) :
    Inv (p.updTarget t f) seen := by
  have upd : ∀ i, (∀ c, p.conns[i]? = some c → p.target t = some c) →
      Inv { p with conns := updAt p.conns i f } seen := by
    intro i hti
    refine ⟨?_, ?_, ?_, hinv.ctx_idle, hinv.ctx_notunnel⟩
    · intro c hc ws hws
      rcases mem_updAt hc with hc | ⟨c1, hc1, rfl⟩
      · exact hinv.wait_match c hc ws hws
      · rcases hf c1 (hti c1 hc1) with ⟨h1, _⟩ | ⟨h1, _, _, h4⟩
        · rw [h1] at hws; cases hws
        · intro w hw; rw [h4]; exact hinv.wait_match c1 (mem_of_getElem? hc1) ws (h1 ▸ hws) w hw
    · intro c hc ws hws
      rcases mem_updAt hc with hc | ⟨c1, hc1, rfl⟩
      · exact hinv.wait_clean c hc ws hws
      · rcases hf c1 (hti c1 hc1) with ⟨h1, _⟩ | ⟨h1, h2, h3, _⟩
        · rw [h1] at hws; cases hws
        · rw [h2, h3]; exact hinv.wait_clean c1 (mem_of_getElem? hc1) ws (h1 ▸ hws)
    · intro c hc ws hws
      rcases mem_updAt hc with hc | ⟨c1, hc1, rfl⟩
      · exact hinv.wait_seen c hc ws hws
      · rcases hf c1 (hti c1 hc1) with ⟨h1, _⟩ | ⟨h1, _, _, _⟩
        · rw [h1] at hws; cases hws
        · exact hinv.wait_seen c1 (mem_of_getElem? hc1) ws (h1 ▸ hws)
  cases t with
  | conn i =>
    simp only [Pool.updTarget]
    exact upd i (fun c hc => by simpa [Pool.target] using hc)
  | ctx =>
    simp only [Pool.updTarget]
    cases hci : p.ctxIn with
    | some i =>
      simp only
      have h := upd i (fun c hc => by simpa [Pool.target, hci] using hc)
      rw [hci] at h; exact h
    | none =>
      simp only
      exact ⟨hinv.wait_match, hinv.wait_clean, hinv.wait_seen, by rw [hctx.2]; exact hinv.ctx_idle,
        by rw [hctx.1]; exact hinv.ctx_notunnel⟩

private theorem setAttr_keeps (c : Conn) (f : Field) :
    (setAttr c f).1.waiting = c.waiting ∧ (setAttr c f).1.tunnel = c.tunnel ∧ (setAttr c f).1.error = c.error := by
  cases f <;> simp only [setAttr] <;> split <;> simp

/-- one event: the invariant is kept and whatever is handed out is good and was asked for -/
private theorem step_spec (p : Pool) (seen : List Ev) (e : Ev) (hinv : Inv p seen) (hadm : Admissible p e) :
    Inv (step p e).1 (seen ++ [e]) ∧
    (∀ (rid : Nat) (s : Spec) (k : Nat), Out.routed rid s k ∈ (step p e).2.1 →
      Ev.get rid s ∈ seen ++ [e] ∧ ∃ c, (step p e).1.conns[k]? = some c ∧ Good s c) := by
  cases e with
  | get rid s =>
    obtain ⟨g1, g2, _⟩ := getConn_spec p (seen ++ [Ev.get rid s]) true rid s (hinv.mono _) (by simp)
    refine ⟨g1, ?_⟩
    intro rid' s' k hm
    obtain ⟨e1, e2, c, hc, hg⟩ := g2 rid' s' k hm
    subst e1; subst e2
    exact ⟨by simp, c, hc, hg⟩
  | result cid res =>
    obtain ⟨r1, r2⟩ := register_spec p (seen ++ [Ev.result cid res]) cid res (hinv.mono _)
    exact ⟨r1, r2⟩
  | setState t r w =>
    refine ⟨?_, by simp [step]⟩
    simp only [step]
    exact inv_updTarget p _ t _ (hinv.mono _)
      (fun c _ => Or.inr ⟨rfl, rfl, rfl, fun s => by simp [specMatches]⟩) ⟨rfl, rfl⟩
  | peerClose t =>
    refine ⟨?_, by simp [step]⟩
    simp only [step]
    refine inv_updTarget p _ t _ (hinv.mono _) (fun c _ => Or.inr ?_) ?_
    · split <;> exact ⟨rfl, rfl, rfl, fun s => by simp [specMatches]⟩
    · split <;> exact ⟨rfl, rfl⟩
  | responseDone t closeHdr =>
    refine ⟨?_, by simp [step]⟩
    simp only [step]
    refine inv_updTarget p _ t _ (hinv.mono _) (fun c _ => Or.inr ?_) ?_
    · split <;> exact ⟨rfl, rfl, rfl, fun s => by simp [specMatches]⟩
    · split <;> exact ⟨rfl, rfl⟩
  | setError t =>
    simp only [step]
    cases ht : p.target t with
    | none => exact ⟨hinv.mono _, by simp⟩
    | some c =>
      simp only
      by_cases hw : c.waiting.isSome = true
      · rw [if_pos hw]; exact ⟨hinv.mono _, by simp⟩
      · rw [if_neg hw]
        have hwn : c.waiting = none := by
          cases h : c.waiting with
          | none => rfl
          | some _ => simp [h] at hw
        refine ⟨?_, by simp⟩
        refine inv_updTarget p _ t _ (hinv.mono _) ?_ ⟨rfl, rfl⟩
        intro c' hc'
        rw [ht] at hc'; injection hc' with hc'; subst hc'
        exact Or.inl ⟨hwn, hwn⟩
  | poke t f =>
    simp only [step]
    cases ht : p.target t with
    | none => exact ⟨hinv.mono _, by simp⟩
    | some c =>
      simp only
      have hwn : c.waiting = none := by
        have h' := hadm
        simp only [Admissible, ht] at h'
        exact h'
      refine ⟨?_, by simp⟩
      refine inv_updTarget p _ t _ (hinv.mono _) ?_ ?_
      · intro c' hc'
        rw [ht] at hc'; injection hc' with hc'; subst hc'
        exact Or.inl ⟨by rw [(setAttr_keeps c f).1]; exact hwn, hwn⟩
      · exact ⟨(setAttr_keeps p.ctx f).2.1, (setAttr_keeps p.ctx f).1⟩

/-! ### histories -/

/-- HttpLayer.__init__: no connections yet; the context connection is nobody's tunnel and not being established -/
def Init (p : Pool) : Prop := p.conns = [] ∧ p.ctx.waiting = none ∧ p.ctx.tunnel = false

private theorem inv_init (p : Pool) (h : Init p) : Inv p [] := by
  obtain ⟨h1, h2, h3⟩ := h
  exact ⟨by simp [h1], by simp [h1], by simp [h1], h2, h3⟩

private theorem trace_spec (p : Pool) (seen evs : List Ev) (hinv : Inv p seen) (hadm : AllAdm p evs) :
    ∀ x ∈ trace p evs, ∀ (rid : Nat) (s : Spec) (k : Nat), Out.routed rid s k ∈ x.2 →
      Ev.get rid s ∈ seen ++ evs ∧ ∃ c, x.1.conns[k]? = some c ∧ Good s c := by
  induction evs generalizing p seen with
  | nil => simp [trace]
  | cons e es ih =>
    obtain ⟨ha, has⟩ := hadm
    obtain ⟨s1, s2⟩ := step_spec p seen e hinv ha
    intro x hx rid s k hm
    simp only [trace, List.mem_cons] at hx
    rcases hx with rfl | hx
    · obtain ⟨g, c, hc, hg⟩ := s2 rid s k hm
      exact ⟨by
        rcases List.mem_append.mp g with g | g
        · exact List.mem_append.mpr (Or.inl g)
        · exact List.mem_append.mpr (Or.inr (by simp at g; simp [g])), c, hc, hg⟩
    · have := ih (step p e).1 (seen ++ [e]) s1 has x hx rid s k hm
      simpa [List.append_assoc] using this

private theorem good_fields {s : Spec} {c : Conn} (h : specMatches s c = true) :
    c.addr = some (s.host, s.port) ∧ c.tls = s.tls ∧ c.via = s.via ∧ c.udp = s.udp := by
  simp only [specMatches, Bool.and_eq_true, beq_iff_eq] at h
  exact ⟨h.1.1.1, h.1.1.2, h.1.2, h.2⟩

/-- **routed_to_matching.** For every admissible history from an empty pool: whenever a request is handed a connection
    (its head is then written to it), the request asked for that spec in its own `get` event, and the connection's
    address, TLS flag, upstream proxy and transport equal the spec — at that moment. -/
theorem routed_to_matching (p : Pool) (evs : List Ev) (hi : Init p) (ha : AllAdm p evs) :
    ∀ x ∈ trace p evs, ∀ (rid : Nat) (s : Spec) (k : Nat), Out.routed rid s k ∈ x.2 →
      Ev.get rid s ∈ evs ∧
      ∃ c, x.1.conns[k]? = some c ∧
        c.addr = some (s.host, s.port) ∧ c.tls = s.tls ∧ c.via = s.via ∧ c.udp = s.udp := by
  intro x hx rid s k hm
  obtain ⟨g, c, hc, hg⟩ := trace_spec p [] evs (inv_init p hi) ha x hx rid s k hm
  exact ⟨by simpa using g, c, hc, good_fields hg.1⟩

/-- **failed_not_reused.** The connection a request is handed has no error recorded, is connected (state OPEN) and is
    not a tunnel connection. -/
theorem failed_not_reused (p : Pool) (evs : List Ev) (hi : Init p) (ha : AllAdm p evs) :
    ∀ x ∈ trace p evs, ∀ (rid : Nat) (s : Spec) (k : Nat), Out.routed rid s k ∈ x.2 →
      ∃ c, x.1.conns[k]? = some c ∧ c.error = false ∧ c.connected = true ∧ c.tunnel = false := by
  intro x hx rid s k hm
  obtain ⟨_, c, hc, hg⟩ := trace_spec p [] evs (inv_init p hi) ha x hx rid s k hm
  exact ⟨c, hc, hg.2.1, hg.2.2.1, hg.2.2.2⟩

/-- requests wait only on connections that match them, have no error and are no tunnels (the invariant itself) -/
theorem waiting_matches (p : Pool) (evs : List Ev) (hi : Init p) (ha : AllAdm p evs) :
    ∀ c ∈ (run p evs).conns, ∀ ws, c.waiting = some ws →
      c.error = false ∧ c.tunnel = false ∧ ∀ w ∈ ws, specMatches w.2 c = true ∧ Ev.get w.1 w.2 ∈ evs := by
  have key : ∀ (p : Pool) (seen evs : List Ev), Inv p seen → AllAdm p evs → Inv (run p evs) (seen ++ evs) := by
    intro p seen evs
    induction evs generalizing p seen with
    | nil => intro h _; simpa [run] using h
    | cons e es ih =>
      intro h hadm
      have := ih (step p e).1 (seen ++ [e]) (step_spec p seen e h hadm.1).1 hadm.2
      simpa [run, List.append_assoc] using this
  have hinv := key p [] evs (inv_init p hi) ha
  simp only [List.nil_append] at hinv
  intro c hc ws hw
  exact ⟨(hinv.wait_clean c hc ws hw).1, (hinv.wait_clean c hc ws hw).2,
    fun w hwm => ⟨hinv.wait_match c hc ws hw w hwm, hinv.wait_seen c hc ws hw w hwm⟩⟩

/-! ### what no event does to an existing entry -/

def Stable (c c' : Conn) : Prop :=
  (c.error = true → c'.error = true) ∧
  (c.connected = true → c'.addr = c.addr ∧ c'.via = c.via) ∧
  c'.tls = c.tls ∧ c'.udp = c.udp ∧ c'.tunnel = c.tunnel

private theorem Stable.rfl' (c : Conn) : Stable c c := ⟨id, fun _ => ⟨rfl, rfl⟩, rfl, rfl, rfl⟩

/-- **setAttr_guard** (Server.__setattr__): assigning address or via to an open connection either raises and changes
    nothing, or assigns the value it already has. -/
theorem setAttr_guard (c : Conn) (f : Field) (h : c.connected = true) :
    (setAttr c f).1.addr = c.addr ∧ (setAttr c f).1.via = c.via := by
  cases f with
  | addr v =>
    simp only [setAttr, h, Bool.true_and]
    by_cases hv : (c.addr != v) = true
    · simp [hv]
    · simp only [hv]
      simp at hv
      simp [hv]
  | via v =>
    simp only [setAttr, h, Bool.true_and]
    by_cases hv : (c.via != v) = true
    · simp [hv]
    · simp only [hv]
      simp at hv
      simp [hv]

private theorem getFresh_keeps (p : Pool) (rid : Nat) (s : Spec) (i : Nat) (c : Conn) (h : p.conns[i]? = some c) :
    (getFresh p rid s).1.conns[i]? = some c := by
  have hlt : i < p.conns.length := (List.getElem?_eq_some_iff.mp h).1
  unfold getFresh
  simp only
  split
  · exact h
  · split
    · simp [List.getElem?_append_left hlt, h]
    · simp only
      rw [List.append_assoc, List.getElem?_append_left hlt]; exact h

private theorem regetAll_keeps (p : Pool) (ws : List (Nat × Spec)) (i : Nat) (c : Conn) (h : p.conns[i]? = some c) :
    (regetAll p ws).1.conns[i]? = some c := by
  induction ws generalizing p with
  | nil => simpa [regetAll] using h
  | cons w ws ih =>
    simp only [regetAll]
    apply ih
    simp only [getConn, Bool.false_eq_true, if_false]
    exact getFresh_keeps p w.1 w.2 i c h

private theorem stable_updTarget (p : Pool) (t : Target) (f : Conn → Conn) (hf : ∀ c, Stable c (f c))
    (i : Nat) (c : Conn) (h : p.conns[i]? = some c) :
    ∃ c', (p.updTarget t f).conns[i]? = some c' ∧ Stable c c' := by
  have upd : ∀ j, ∃ c', (updAt p.conns j f)[i]? = some c' ∧ Stable c c' := by
    intro j
    rw [getElem?_updAt]
    by_cases hij : i = j
    · simp only [hij, if_true]
      subst hij
      exact ⟨f c, by simp [h], hf c⟩
    · simp only [hij, if_false]
      exact ⟨c, h, Stable.rfl' c⟩
  cases t with
  | conn j => exact upd j
  | ctx =>
    simp only [Pool.updTarget]
    cases p.ctxIn with
    | some j => exact upd j
    | none => exact ⟨c, h, Stable.rfl' c⟩

/-- every event leaves every existing pool entry in place and `Stable` -/
private theorem step_stable (p : Pool) (e : Ev) (i : Nat) (c : Conn) (h : p.conns[i]? = some c) :
    ∃ c', (step p e).1.conns[i]? = some c' ∧ Stable c c' := by
  cases e with
  | get rid s =>
    simp only [step, getConn, if_true]
    cases hs : scan p.clientH2 s 0 p.conns with
    | none => exact ⟨c, getFresh_keeps p rid s i c h, Stable.rfl' c⟩
    | fail j => exact ⟨c, h, Stable.rfl' c⟩
    | reuse j => exact ⟨c, h, Stable.rfl' c⟩
    | wait j =>
      simp only
      rw [getElem?_updAt]
      by_cases hij : i = j
      · simp only [hij, if_true]
        subst hij
        exact ⟨addWaiting (rid, s) c, by simp [h], by simp [Stable, addWaiting, Conn.connected]⟩
      · simp only [hij, if_false]
        exact ⟨c, h, Stable.rfl' c⟩
  | result cid res =>
    simp only [step, register]
    cases hc : p.conns[cid]? with
    | none => exact ⟨c, h, Stable.rfl' c⟩
    | some c0 =>
      simp only
      cases hw : c0.waiting with
      | none => exact ⟨c, h, Stable.rfl' c⟩
      | some ws =>
        simp only
        have hlt : cid < p.conns.length := (List.getElem?_eq_some_iff.mp hc).1
        -- the entry after the `set`
        have hset : ∀ c1 : Conn, Stable c0 c1 → ∃ c', (p.conns.set cid c1)[i]? = some c' ∧ Stable c c' := by
          intro c1 hst
          by_cases hij : i = cid
          · subst hij
            rw [h] at hc; injection hc with hc; subst hc
            exact ⟨c1, by simp [List.getElem?_set_self hlt], hst⟩
          · have : cid ≠ i := fun h' => hij h'.symm
            exact ⟨c, by simp [List.getElem?_set_ne this, h], Stable.rfl' c⟩
        cases res with
        | fail e =>
          exact hset _ (by
            refine ⟨fun he => by simp [he], fun _ => ⟨rfl, rfl⟩, rfl, rfl, rfl⟩)
        | ok h2 =>
          simp only
          obtain ⟨c', hc', hst⟩ := hset { c0 with waiting := none, canRead := true, canWrite := true, alpnH2 := h2 }
            ⟨fun he => he, fun _ => ⟨rfl, rfl⟩, rfl, rfl, rfl⟩
          split
          · cases ws with
            | nil => exact ⟨c', hc', hst⟩
            | cons w rest => exact ⟨c', regetAll_keeps _ rest i c' hc', hst⟩
          · exact ⟨c', hc', hst⟩
  | setState t r w =>
    simp only [step]
    refine stable_updTarget p t _ (fun c => ?_) i c h
    exact ⟨fun h => h, fun _ => ⟨rfl, rfl⟩, rfl, rfl, rfl⟩
  | peerClose t =>
    simp only [step]
    refine stable_updTarget p t _ (fun c => ?_) i c h
    split
    · exact ⟨fun h => h, fun _ => ⟨rfl, rfl⟩, rfl, rfl, rfl⟩
    · exact Stable.rfl' c
  | responseDone t closeHdr =>
    simp only [step]
    refine stable_updTarget p t _ (fun c => ?_) i c h
    split
    · exact ⟨fun h => h, fun _ => ⟨rfl, rfl⟩, rfl, rfl, rfl⟩
    · exact Stable.rfl' c
  | setError t =>
    simp only [step]
    cases p.target t with
    | none => exact ⟨c, h, Stable.rfl' c⟩
    | some c0 =>
      simp only
      split
      · exact ⟨c, h, Stable.rfl' c⟩
      · refine stable_updTarget p t _ (fun c => ?_) i c h
        exact ⟨fun _ => rfl, fun _ => ⟨rfl, rfl⟩, rfl, rfl, rfl⟩
  | poke t f =>
    simp only [step]
    cases p.target t with
    | none => exact ⟨c, h, Stable.rfl' c⟩
    | some c0 =>
      simp only
      refine stable_updTarget p t _ (fun c => ?_) i c h
      refine ⟨fun he => by rw [(setAttr_keeps c f).2.2]; exact he, fun hc => setAttr_guard c f hc, ?_, ?_,
        (setAttr_keeps c f).2.1⟩
      · cases f <;> simp only [setAttr] <;> split <;> rfl
      · cases f <;> simp only [setAttr] <;> split <;> rfl

/-- **open_conn_immutable.** No event — request, connection result, state change, error mark, or an addon assigning
    server.address / server.via — changes the address or the upstream proxy of a pool entry that is open; its TLS flag
    and transport never change at all. -/
theorem open_conn_immutable (p : Pool) (e : Ev) (i : Nat) (c : Conn) (h : p.conns[i]? = some c)
    (hopen : c.connected = true) :
    ∃ c', (step p e).1.conns[i]? = some c' ∧ c'.addr = c.addr ∧ c'.via = c.via ∧ c'.tls = c.tls ∧ c'.udp = c.udp := by
  obtain ⟨c', hc', hst⟩ := step_stable p e i c h
  exact ⟨c', hc', (hst.2.1 hopen).1, (hst.2.1 hopen).2, hst.2.2.1, hst.2.2.2.1⟩

/-- **errored_never_routed.** Once Server.error is recorded on a pool entry (a failed TCP connect or TLS handshake),
    no later request of the history is ever handed that entry. -/
theorem errored_never_routed (p : Pool) (seen evs : List Ev) (hinv : Inv p seen) (ha : AllAdm p evs)
    (i : Nat) (c : Conn) (h : p.conns[i]? = some c) (herr : c.error = true) :
    ∀ x ∈ trace p evs, ∀ (rid : Nat) (s : Spec), Out.routed rid s i ∉ x.2 := by
  induction evs generalizing p seen c with
  | nil => simp [trace]
  | cons e es ih =>
    obtain ⟨ha1, ha2⟩ := ha
    obtain ⟨s1, s2⟩ := step_spec p seen e hinv ha1
    obtain ⟨c', hc', hst⟩ := step_stable p e i c h
    intro x hx rid s hm
    simp only [trace, List.mem_cons] at hx
    rcases hx with rfl | hx
    · obtain ⟨_, c2, hc2, hg⟩ := s2 rid s i hm
      rw [hc'] at hc2; injection hc2 with hc2; subst hc2
      have := hst.1 herr
      rw [hg.2.1] at this; cases this
    · exact ih (step p e).1 (seen ++ [e]) s1 ha2 c' hc' (hst.1 herr) x hx rid s hm

/-! ### non-vacuity and necessity of the hypothesis -/

private def p0 : Pool :=
  { clientH2 := true,
    ctx := { addr := none, tls := false, via := none, udp := false, tunnel := false, canRead := false,
             canWrite := false, error := false, alpnH2 := false, waiting := none } }
private def sA : Spec := { host := 0, port := 0, tls := false, via := some (2, 1), udp := false }

example : Init p0 := by unfold Init; decide
-- an admissible history with a join of a pending connection, the HTTP/2->HTTP/1 re-dispatch and a guarded poke
example : AllAdm p0 [.get 1 sA, .get 2 sA, .result 0 (.ok false), .poke (.conn 0) (.addr (some (1, 1))), .get 3 sA] := by
  decide
example : (trace p0 [.get 1 sA, .get 2 sA, .result 0 (.ok false)]).map (·.2) =
    [[.opened 0, .waitOn 1 0], [.waitOn 2 0], [.routed 1 sA 0, .opened 2, .waitOn 2 2]] := by decide
-- the model does refuse: a recorded error fails later requests for the same destination
example : (trace p0 [.get 1 sA, .result 0 (.fail true), .get 2 sA]).map (·.2) =
    [[.opened 0, .waitOn 1 0], [.failed 1], [.failed 2]] := by decide

/-- **pending_poke_misroutes**: without admissibility the statement fails — re-addressing a connection while its
    attempt is pending (what a server_connect hook can do) sends the waiting request elsewhere. -/
theorem pending_poke_misroutes :
    ∃ x ∈ trace p0 [.get 1 sA, .poke (.conn 0) (.addr (some (1, 0))), .result 0 (.ok false)],
      Out.routed 1 sA 0 ∈ x.2 ∧ ∃ c, x.1.conns[0]? = some c ∧ specMatches sA c = false := by
  decide

/-! ### deepening round 3: whole histories with modelled closes -/

/-- the entry `i` is open after every event of the history -/
def StaysOpen : Pool → List Ev → Nat → Prop
  | _, [], _ => True
  | p, e :: es, i => (∃ c', (step p e).1.conns[i]? = some c' ∧ c'.connected = true) ∧ StaysOpen (step p e).1 es i

/-- **open_interval_immutable.** Over a whole history: as long as a pool entry stays open, its address, upstream proxy,
    TLS flag and transport are what they were — whatever requests, results, closes of other connections, error marks and
    addon assignments happen in between. -/
theorem open_interval_immutable (p : Pool) (evs : List Ev) (i : Nat) (c : Conn) (h : p.conns[i]? = some c)
    (hopen : c.connected = true) (hstay : StaysOpen p evs i) :
    ∃ c', (run p evs).conns[i]? = some c' ∧ c'.addr = c.addr ∧ c'.via = c.via ∧ c'.tls = c.tls ∧ c'.udp = c.udp := by
  induction evs generalizing p c with
  | nil => exact ⟨c, by simpa [run] using h, rfl, rfl, rfl, rfl⟩
  | cons e es ih =>
    obtain ⟨⟨c1, hc1, ho1⟩, hrest⟩ := hstay
    obtain ⟨c', hc', e1, e2, e3, e4⟩ := open_conn_immutable p e i c h hopen
    rw [hc1] at hc'; injection hc' with hc'; subst hc'
    obtain ⟨c2, hc2, f1, f2, f3, f4⟩ := ih (step p e).1 c1 hc1 ho1 hrest
    exact ⟨c2, by simpa [run] using hc2, f1.trans e1, f2.trans e2, f3.trans e3, f4.trans e4⟩

/-- raw state changes of the history never set a connection to OPEN (a closed socket does not come back; connections
    open through their connection result only) -/
def NoReopen (evs : List Ev) : Prop := ∀ e ∈ evs, ∀ t r w, e = Ev.setState t r w → (r && w) = false

/-- neither being established, nor connected, nor a tunnel connection -/
def Dead (c : Conn) : Prop := c.waiting = none ∧ c.connected = false ∧ c.tunnel = false

private theorem dead_updTarget (p : Pool) (t : Target) (f : Conn → Conn) (hf : ∀ c, Dead c → Dead (f c))
    (i : Nat) (c : Conn) (h : p.conns[i]? = some c) (hd : Dead c) :
    ∃ c', (p.updTarget t f).conns[i]? = some c' ∧ Dead c' := by
  have upd : ∀ j, ∃ c', (updAt p.conns j f)[i]? = some c' ∧ Dead c' := by
    intro j
    rw [getElem?_updAt]
    by_cases hij : i = j
    · simp only [hij, if_true]
      subst hij
      exact ⟨f c, by simp [h], hf c hd⟩
    · simp only [hij, if_false]
      exact ⟨c, h, hd⟩
  cases t with
  | conn j => exact upd j
  | ctx =>
    simp only [Pool.updTarget]
    cases p.ctxIn with
    | some j => exact upd j
    | none => exact ⟨c, h, hd⟩

private theorem setAttr_connected (c : Conn) (f : Field) : (setAttr c f).1.connected = c.connected := by
  cases f <;> simp only [setAttr] <;> split <;> rfl

/-- a dead entry stays dead, whatever happens (raw state changes excepted that would re-open a socket) -/
private theorem step_dead (p : Pool) (e : Ev) (i : Nat) (c : Conn) (h : p.conns[i]? = some c) (hd : Dead c)
    (hno : ∀ t r w, e = Ev.setState t r w → (r && w) = false) :
    ∃ c', (step p e).1.conns[i]? = some c' ∧ Dead c' := by
  cases e with
  | get rid s =>
    simp only [step, getConn, if_true]
    cases hs : scan p.clientH2 s 0 p.conns with
    | none => exact ⟨c, getFresh_keeps p rid s i c h, hd⟩
    | fail j => exact ⟨c, h, hd⟩
    | reuse j => exact ⟨c, h, hd⟩
    | wait j =>
      simp only
      obtain ⟨_, c0, hc0, _, hw0⟩ := scan_wait _ _ _ _ _ hs
      simp only [Nat.sub_zero] at hc0
      rw [getElem?_updAt]
      by_cases hij : i = j
      · subst hij
        rw [h] at hc0; injection hc0 with hc0; subst hc0
        rw [hd.1] at hw0; simp at hw0
      · simp only [hij, if_false]
        exact ⟨c, h, hd⟩
  | result cid res =>
    simp only [step, register]
    cases hc : p.conns[cid]? with
    | none => exact ⟨c, h, hd⟩
    | some c0 =>
      simp only
      cases hw : c0.waiting with
      | none => exact ⟨c, h, hd⟩
      | some ws =>
        simp only
        have hne : cid ≠ i := by
          intro heq; subst heq
          rw [h] at hc; injection hc with hc; subst hc
          rw [hd.1] at hw; cases hw
        have hset : ∀ c1 : Conn, (p.conns.set cid c1)[i]? = some c := by
          intro c1; simp [List.getElem?_set_ne hne, h]
        cases res with
        | fail e => exact ⟨c, hset _, hd⟩
        | ok h2 =>
          simp only
          split
          · cases ws with
            | nil => exact ⟨c, hset _, hd⟩
            | cons w rest => exact ⟨c, regetAll_keeps _ rest i c (hset _), hd⟩
          · exact ⟨c, hset _, hd⟩
  | setState t r w =>
    simp only [step]
    refine dead_updTarget p t _ (fun c hc => ?_) i c h hd
    exact ⟨hc.1, by simpa [Conn.connected] using hno t r w rfl, hc.2.2⟩
  | peerClose t =>
    simp only [step]
    refine dead_updTarget p t _ (fun c hc => ?_) i c h hd
    split
    · exact ⟨hc.1, by simp [Conn.connected], hc.2.2⟩
    · exact hc
  | responseDone t closeHdr =>
    simp only [step]
    refine dead_updTarget p t _ (fun c hc => ?_) i c h hd
    split
    · exact ⟨hc.1, by simp [Conn.connected], hc.2.2⟩
    · exact hc
  | setError t =>
    simp only [step]
    cases p.target t with
    | none => exact ⟨c, h, hd⟩
    | some c0 =>
      simp only
      split
      · exact ⟨c, h, hd⟩
      · refine dead_updTarget p t _ (fun c hc => ?_) i c h hd
        exact ⟨hc.1, hc.2.1, hc.2.2⟩
  | poke t f =>
    simp only [step]
    cases p.target t with
    | none => exact ⟨c, h, hd⟩
    | some c0 =>
      simp only
      refine dead_updTarget p t _ (fun c hc => ?_) i c h hd
      exact ⟨by rw [(setAttr_keeps c f).1]; exact hc.1, by rw [setAttr_connected]; exact hc.2.1,
        by rw [(setAttr_keeps c f).2.1]; exact hc.2.2⟩

/-- **dead_entry_never_routed.** A pool entry that is neither being established nor connected (its attempt failed —
    with or without an error recorded —, the peer closed it, or mitmproxy closed it after the exchange) is never handed
    to a request again, in any admissible history whose raw state changes do not re-open sockets. -/
theorem dead_entry_never_routed (p : Pool) (seen evs : List Ev) (hinv : Inv p seen) (ha : AllAdm p evs)
    (hno : NoReopen evs) (i : Nat) (c : Conn) (h : p.conns[i]? = some c) (hd : Dead c) :
    ∀ x ∈ trace p evs, ∀ (rid : Nat) (s : Spec), Out.routed rid s i ∉ x.2 := by
  induction evs generalizing p seen c with
  | nil => simp [trace]
  | cons e es ih =>
    obtain ⟨ha1, ha2⟩ := ha
    obtain ⟨s1, s2⟩ := step_spec p seen e hinv ha1
    obtain ⟨c', hc', hd'⟩ := step_dead p e i c h hd (fun t r w he => hno e (by simp) t r w he)
    intro x hx rid s hm
    simp only [trace, List.mem_cons] at hx
    rcases hx with rfl | hx
    · obtain ⟨_, c2, hc2, hg⟩ := s2 rid s i hm
      rw [hc'] at hc2; injection hc2 with hc2; subst hc2
      have hcon := hg.2.2.1
      rw [hd'.2.1] at hcon; cases hcon
    · exact ih (step p e).1 (seen ++ [e]) s1 ha2 (fun e' he' => hno e' (by simp [he'])) c' hc' hd' x hx rid s hm

/-- **failed_attempt_never_routed.** After a connection attempt has failed — TCP refused, TLS handshake failed, or the
    upstream proxy refused CONNECT (no error is recorded on the connection in that case) — no later request is handed
    that connection. -/
theorem failed_attempt_never_routed (p : Pool) (seen evs : List Ev) (hinv : Inv p seen) (cid : Nat) (c : Conn)
    (ws : List (Nat × Spec)) (setsErr : Bool) (h : p.conns[cid]? = some c) (hw : c.waiting = some ws)
    (hclosed : c.connected = false) (ha : AllAdm p (.result cid (.fail setsErr) :: evs))
    (hno : NoReopen evs) :
    ∀ x ∈ trace (step p (.result cid (.fail setsErr))).1 evs, ∀ (rid : Nat) (s : Spec), Out.routed rid s cid ∉ x.2 := by
  obtain ⟨ha1, ha2⟩ := ha
  obtain ⟨s1, _⟩ := step_spec p seen _ hinv ha1
  have hlt : cid < p.conns.length := (List.getElem?_eq_some_iff.mp h).1
  have hclean := hinv.wait_clean c (mem_of_getElem? h) ws hw
  have hpost : (step p (.result cid (.fail setsErr))).1.conns[cid]? =
      some { c with waiting := none, error := c.error || setsErr } := by
    simp [step, register, h, hw, List.getElem?_set_self hlt]
  exact dead_entry_never_routed _ _ evs s1 ha2 hno cid _ hpost
    ⟨rfl, by simpa [Conn.connected] using hclosed, hclean.2⟩

-- non-vacuity: a CONNECT refused by the proxy (no error recorded), then the same destination again: a new attempt
example : (trace p0 [.get 1 sA, .result 0 (.fail false), .get 2 sA]).map (·.2) =
    [[.opened 0, .waitOn 1 0], [.failed 1], [.opened 2, .waitOn 2 2]] := by decide
-- the modelled closes: an HTTP/2 client's exchange over HTTP/1 closes the upstream connection; the next request opens anew
example : (trace p0 [.get 1 sA, .result 0 (.ok false), .responseDone (.conn 0) false, .get 2 sA]).map (·.2) =
    [[.opened 0, .waitOn 1 0], [.routed 1 sA 0], [], [.opened 2, .waitOn 2 2]] := by decide
example : NoReopen [.get 1 sA, .setState (.conn 0) true false, .peerClose (.conn 0)] := by
  intro e he t r w heq
  simp at he
  rcases he with rfl | rfl | rfl <;> simp_all

/-! ### deepening round 5: the remaining hypotheses derived from the model, whole-history forms from `Init` -/

private theorem inv_run (p : Pool) (seen evs : List Ev) (h : Inv p seen) (ha : AllAdm p evs) :
    Inv (run p evs) (seen ++ evs) := by
  induction evs generalizing p seen with
  | nil => simpa [run] using h
  | cons e es ih =>
    have := ih (step p e).1 (seen ++ [e]) (step_spec p seen e h ha.1).1 ha.2
    simpa [run, List.append_assoc] using this

private theorem allAdm_append (p : Pool) (a b : List Ev) (h : AllAdm p (a ++ b)) :
    AllAdm p a ∧ AllAdm (run p a) b := by
  induction a generalizing p with
  | nil => exact ⟨trivial, by simpa [run] using h⟩
  | cons e es ih =>
    obtain ⟨h1, h2⟩ := h
    obtain ⟨i1, i2⟩ := ih (step p e).1 h2
    exact ⟨⟨h1, i1⟩, by simpa [run] using i2⟩

/-- every connection whose attempt is pending is closed -/
def PendingClosed (p : Pool) : Prop := ∀ c ∈ p.conns, c.waiting.isSome = true → c.connected = false

private theorem pc_updTarget (p : Pool) (t : Target) (f : Conn → Conn) (h : PendingClosed p)
    (hf : ∀ c, (c.waiting.isSome = true → c.connected = false) → (f c).waiting.isSome = true → (f c).connected = false) :
    PendingClosed (p.updTarget t f) := by
  have upd : ∀ j, PendingClosed { p with conns := updAt p.conns j f } := by
    intro j c hc hw
    rcases mem_updAt hc with hc | ⟨c1, hc1, rfl⟩
    · exact h c hc hw
    · exact hf c1 (h c1 (mem_of_getElem? hc1)) hw
  cases t with
  | conn j => exact upd j
  | ctx =>
    simp only [Pool.updTarget]
    cases hci : p.ctxIn with
    | some j => have := upd j; rw [hci] at this; exact this
    | none => exact h

private theorem pc_getFresh (p : Pool) (rid : Nat) (s : Spec) (h : PendingClosed p) : PendingClosed (getFresh p rid s).1 := by
  unfold getFresh
  simp only
  split
  · exact h
  · split
    · intro c hc hw
      rcases List.mem_append.mp hc with hc | hc
      · exact h c hc hw
      · simp at hc; subst hc; simp at hw
    · intro c hc hw
      rcases List.mem_append.mp hc with hc | hc
      · rcases List.mem_append.mp hc with hc | hc
        · exact h c hc hw
        · simp at hc; subst hc; simp [newConn, Conn.connected]
      · cases hv : s.via <;> simp [hv] at hc
        subst hc; simp [tunnelConn] at hw

private theorem pc_regetAll (p : Pool) (ws : List (Nat × Spec)) (h : PendingClosed p) : PendingClosed (regetAll p ws).1 := by
  induction ws generalizing p with
  | nil => simpa [regetAll] using h
  | cons w ws ih =>
    simp only [regetAll]
    apply ih
    simp only [getConn, Bool.false_eq_true, if_false]
    exact pc_getFresh p w.1 w.2 h

private theorem pc_step (p : Pool) (e : Ev) (h : PendingClosed p)
    (hno : ∀ t r w, e = Ev.setState t r w → (r && w) = false) : PendingClosed (step p e).1 := by
  cases e with
  | get rid s =>
    simp only [step, getConn, if_true]
    cases hs : scan p.clientH2 s 0 p.conns with
    | none => exact pc_getFresh p rid s h
    | fail j => exact h
    | reuse j => exact h
    | wait j =>
      intro c hc hw
      rcases mem_updAt hc with hc | ⟨c1, hc1, rfl⟩
      · exact h c hc hw
      · obtain ⟨_, c0, hc0, _, hw0⟩ := scan_wait _ _ _ _ _ hs
        simp only [Nat.sub_zero] at hc0
        rw [hc0] at hc1; injection hc1 with hc1; subst hc1
        simpa [addWaiting, Conn.connected] using h c0 (mem_of_getElem? hc0) hw0
  | result cid res =>
    simp only [step, register]
    cases hc : p.conns[cid]? with
    | none => exact h
    | some c0 =>
      simp only
      cases hw : c0.waiting with
      | none => exact h
      | some ws =>
        simp only
        have hset : ∀ c1 : Conn, c1.waiting = none → PendingClosed { p with conns := p.conns.set cid c1 } := by
          intro c1 h1 c hcm hwm
          rcases List.mem_or_eq_of_mem_set hcm with hcm | hcm
          · exact h c hcm hwm
          · subst hcm; rw [h1] at hwm; simp at hwm
        cases res with
        | fail e => exact hset _ rfl
        | ok h2 =>
          simp only
          split
          · cases ws with
            | nil => exact hset _ rfl
            | cons w rest => exact pc_regetAll _ rest (hset _ rfl)
          · exact hset _ rfl
  | setState t r w =>
    simp only [step]
    exact pc_updTarget p t _ h (fun c _ _ => by simpa [Conn.connected] using hno t r w rfl)
  | peerClose t =>
    simp only [step]
    refine pc_updTarget p t _ h (fun c hc hw => ?_)
    by_cases hr : c.canRead = true
    · simp [hr, Conn.connected]
    · simp only [hr] at hw ⊢
      exact hc hw
  | responseDone t closeHdr =>
    simp only [step]
    refine pc_updTarget p t _ h (fun c hc hw => ?_)
    by_cases hr : (closeHdr || p.clientH2) = true
    · simp [hr, Conn.connected]
    · simp only [hr] at hw ⊢
      exact hc hw
  | setError t =>
    simp only [step]
    cases p.target t with
    | none => exact h
    | some c0 =>
      simp only
      split
      · exact h
      · exact pc_updTarget p t _ h (fun c hc hw => hc hw)
  | poke t f =>
    simp only [step]
    cases p.target t with
    | none => exact h
    | some c0 =>
      simp only
      refine pc_updTarget p t _ h (fun c hc hw => ?_)
      rw [setAttr_connected]
      rw [(setAttr_keeps c f).1] at hw
      exact hc hw

/-- **pending_not_connected.** In every history from an empty pool whose raw state changes never re-open a socket, a
    connection whose attempt is still pending is closed (it becomes OPEN only through its own connection result). This
    discharges the hypothesis of `failed_attempt_never_routed`. -/
theorem pending_not_connected (p : Pool) (evs : List Ev) (hi : Init p) (hno : NoReopen evs) : PendingClosed (run p evs) := by
  have base : PendingClosed p := by intro c hc; rw [hi.1] at hc; cases hc
  clear hi
  induction evs generalizing p with
  | nil => simpa [run] using base
  | cons e es ih =>
    simp only [run]
    exact ih (step p e).1 (fun e' he' => hno e' (by simp [he']))
      (pc_step p e base (fun t r w he => hno e (by simp) t r w he))

/-- **failed_attempt_never_routed_reachable.** From an empty pool, for every admissible history `pre` (no socket re-opened)
    after which the attempt of connection `cid` is pending: once that attempt fails — with or without an error recorded —
    no request of any continuation `post` is ever handed `cid`.  No hypothesis about the pool is left. -/
theorem failed_attempt_never_routed_reachable (p : Pool) (pre post : List Ev) (hi : Init p) (cid : Nat) (c : Conn)
    (ws : List (Nat × Spec)) (setsErr : Bool)
    (ha : AllAdm p (pre ++ Ev.result cid (.fail setsErr) :: post))
    (hno : NoReopen (pre ++ Ev.result cid (.fail setsErr) :: post))
    (h : (run p pre).conns[cid]? = some c) (hw : c.waiting = some ws) :
    ∀ x ∈ trace (step (run p pre) (.result cid (.fail setsErr))).1 post, ∀ (rid : Nat) (s : Spec), Out.routed rid s cid ∉ x.2 := by
  obtain ⟨ha1, ha2⟩ := allAdm_append p pre _ ha
  have hinv := inv_run p [] pre (inv_init p hi) ha1
  have hpc := pending_not_connected p pre hi (fun e he => hno e (List.mem_append.mpr (Or.inl he)))
  have hclosed : c.connected = false := hpc c (mem_of_getElem? h) (by simp [hw])
  exact failed_attempt_never_routed (run p pre) _ post hinv cid c ws setsErr h hw hclosed ha2
    (fun e he => hno e (List.mem_append.mpr (Or.inr (by simp [he]))))

/-- **errored_never_routed_reachable**: whole-history form from `Init` — once an entry carries an error after `pre`, no
    request of `post` gets it. -/
theorem errored_never_routed_reachable (p : Pool) (pre post : List Ev) (hi : Init p) (ha : AllAdm p (pre ++ post))
    (i : Nat) (c : Conn) (h : (run p pre).conns[i]? = some c) (herr : c.error = true) :
    ∀ x ∈ trace (run p pre) post, ∀ (rid : Nat) (s : Spec), Out.routed rid s i ∉ x.2 := by
  obtain ⟨ha1, ha2⟩ := allAdm_append p pre post ha
  exact errored_never_routed (run p pre) _ post (inv_run p [] pre (inv_init p hi) ha1) ha2 i c h herr

/-- **dead_entry_never_routed_reachable**: whole-history form from `Init`. -/
theorem dead_entry_never_routed_reachable (p : Pool) (pre post : List Ev) (hi : Init p) (ha : AllAdm p (pre ++ post))
    (hno : NoReopen post) (i : Nat) (c : Conn) (h : (run p pre).conns[i]? = some c) (hd : Dead c) :
    ∀ x ∈ trace (run p pre) post, ∀ (rid : Nat) (s : Spec), Out.routed rid s i ∉ x.2 := by
  obtain ⟨ha1, ha2⟩ := allAdm_append p pre post ha
  exact dead_entry_never_routed (run p pre) _ post (inv_run p [] pre (inv_init p hi) ha1) ha2 hno i c h hd

/-! ### non-vacuity witnesses added by the round-6 cross-audit (b-c05) -/

private def a6p : Pool :=
  { clientH2 := false,
    ctx := { addr := none, tls := false, via := none, udp := false, tunnel := false, canRead := false,
             canWrite := false, error := false, alpnH2 := false, waiting := none } }
private def a6s : Spec := { host := 7, port := 443, tls := true, via := none, udp := false }
private def a6t : Spec := { host := 8, port := 80, tls := false, via := some (2, 3128), udp := false }

example : Init a6p := by unfold Init; decide
-- routed_to_matching / failed_not_reused on a history with two destinations, a reuse and a guarded assignment: the
-- hypotheses hold and requests ARE routed (the conclusion is not empty)
example : AllAdm a6p [.get 1 a6s, .result 0 (.ok false), .get 2 a6s, .get 3 a6t, .result 1 (.ok false),
    .poke (.conn 0) (.addr (some (9, 9))), .get 4 a6s] := by decide
example : (trace a6p [.get 1 a6s, .result 0 (.ok false), .get 2 a6s, .get 3 a6t, .result 1 (.ok false),
    .poke (.conn 0) (.addr (some (9, 9))), .get 4 a6s]).map (·.2) =
    [[.opened 0, .waitOn 1 0], [.routed 1 a6s 0], [.routed 2 a6s 0], [.opened 1, .waitOn 3 1], [.routed 3 a6t 1], [],
     [.routed 4 a6s 0]] := by decide
-- waiting_matches: two requests do wait on one pending connection
example : ((run a6p [.get 1 a6s, .get 2 a6s]).conns.map (·.waiting)) = [some [(1, a6s), (2, a6s)]] := by decide
-- errored_never_routed_reachable: `h`, `herr` after a failed TLS handshake, `ha` for a continuation that asks again
example : ((run a6p [.get 1 a6s, .result 0 (.fail true)]).conns[0]?).map (·.error) = some true := by decide
example : AllAdm a6p ([.get 1 a6s, .result 0 (.fail true)] ++ [.get 2 a6s, .setError (.conn 0), .get 3 a6s]) := by decide
-- dead_entry_never_routed_reachable: `hd` after a CONNECT refused by the proxy (no error recorded)
example : ∃ c, (run a6p [.get 1 a6t, .result 0 (.fail false)]).conns[0]? = some c ∧ Dead c :=
  ⟨_, rfl, by decide, by decide, by decide⟩
-- ... and after the peer closed an established connection
example : ∃ c, (run a6p [.get 1 a6s, .result 0 (.ok false), .peerClose (.conn 0)]).conns[0]? = some c ∧ Dead c :=
  ⟨_, rfl, by decide, by decide, by decide⟩
-- failed_attempt_never_routed_reachable: `h`, `hw`, `ha`, `hno`
example : ∃ c, (run a6p [.get 1 a6s, .get 2 a6s]).conns[0]? = some c ∧ c.waiting = some [(1, a6s), (2, a6s)] :=
  ⟨_, rfl, by decide⟩
example : AllAdm a6p ([.get 1 a6s, .get 2 a6s] ++ Ev.result 0 (.fail true) :: [.get 3 a6s]) := by decide
example : NoReopen ([.get 1 a6s, .get 2 a6s] ++ Ev.result 0 (.fail true) :: [.get 3 a6s]) := by
  intro e he t r w heq
  simp at he
  rcases he with rfl | rfl | rfl | rfl <;> simp_all
-- open_conn_immutable / open_interval_immutable: entry 0 is open and stays open through a reuse, a guarded assignment
-- (which raises) and another destination's attempt
example : ((run a6p [.get 1 a6s, .result 0 (.ok false)]).conns[0]?).map (·.connected) = some true := by decide
example : StaysOpen (run a6p [.get 1 a6s, .result 0 (.ok false)])
    [.get 2 a6s, .poke (.conn 0) (.addr (some (9, 9))), .get 3 a6t] 0 :=
  ⟨⟨_, rfl, by decide⟩, ⟨_, rfl, by decide⟩, ⟨_, rfl, by decide⟩, trivial⟩
example : (step (run a6p [.get 1 a6s, .result 0 (.ok false)]) (.poke (.conn 0) (.addr (some (9, 9))))).2.2 = .raised := by decide
-- setAttr_guard: an open connection
example : (newConn a6s).connected = false ∧ ({ newConn a6s with canRead := true, canWrite := true } : Conn).connected = true := by decide

end MitmVerif.Props.C08


