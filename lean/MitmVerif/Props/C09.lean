/-
  C09 — connection lifecycle events pair up and per-destination concurrency is bounded.
  Theorems about the task-system model `MitmVerif.C09` (Model/C09.lean) for EVERY schedule:
  `Reach n s` = `s` is reached from the initial state by some list of labels, i.e. by any interleaving
  of task actions and done-callbacks (any choice of the next runnable), any await outcome (normal /
  failure / cancellation) and any commands from the layer.  asyncio.wait and the done-callbacks are an
  explicit part of the model (per-task callback lists, wait counter); see also `wait_counts_callbacks`.
  The hook counters are ghost state counting the `hook` labels of the schedule, so an inequality that
  holds in every reachable state is a statement about every prefix of every trace (hence about order).
-/
import MitmVerif.Lemmas.C09
import MitmVerif.Lemmas.C09Sem
import MitmVerif.Lemmas.C09Late
import MitmVerif.Gen.C09
namespace MitmVerif.Props.C09
open MitmVerif.C09

/-- client_connected fires at most once, client_disconnected never before it and at most once;
    when handle_client has returned both have fired exactly once. -/
theorem client_hooks_paired {n : Nat} {s : St} (h : Reach n s) :
    s.nCC ≤ 1 ∧ s.nCD ≤ s.nCC ∧ (s.hpc = .returned → s.nCC = 1 ∧ s.nCD = 1) := by
  have hh := (Reach.inv h).1.h
  unfold HInv at hh
  obtain ⟨_, h2⟩ := hh
  split at h2 <;> simp_all

/-- every connection attempt fires server_connect at most once; server_connected/server_connect_error
    only after it and together at most once; once the attempt's task is done — or its transports entry
    is gone — a fired server_connect has exactly one outcome. -/
theorem connect_outcome_exactly_one {n : Nat} {s : St} (h : Reach n s) :
    ∀ c ∈ s.conns, c.nSC ≤ 1 ∧ c.nSD + c.nSE ≤ c.nSC ∧
      ((c.pc = .done ∨ c.entry = false) → c.nSD + c.nSE = c.nSC) := by
  intro c hc
  have hi := (Reach.inv h).1.conn c hc
  refine ⟨hi.bounds.1, hi.bounds.2.1, ?_⟩
  rintro (hd | he)
  · exact (hi.settled_of_done hd).2.1
  · exact (hi.settled_of_noentry he).2.1

/-- server_disconnected fires only after server_connected and at most once; once the attempt's task is
    done — or its transports entry is gone — every server_connected has its server_disconnected. -/
theorem connected_then_disconnected_once {n : Nat} {s : St} (h : Reach n s) :
    ∀ c ∈ s.conns, c.nSD ≤ 1 ∧ c.nSX ≤ c.nSD ∧ ((c.pc = .done ∨ c.entry = false) → c.nSX = c.nSD) := by
  intro c hc
  have hi := (Reach.inv h).1.conn c hc
  have hb := hi.bounds
  refine ⟨by omega, hb.2.2, ?_⟩
  rintro (hd | he)
  · exact (hi.settled_of_done hd).2.2
  · exact (hi.settled_of_noentry he).2.2

/-- with the semaphore size read from the source (Gen/C09.lean: 5), at most five upstream sockets to one
    address exist at any time, in every reachable state of every schedule. -/
theorem at_most_five_per_address {s : St} (h : Reach MitmVerif.Gen.C09.semSize s) (a : Nat) :
    s.conns.countP (openAt a) ≤ 5 := by
  have hs := (Reach.inv h).2
  have h1 : s.conns.countP (openAt a) ≤ s.conns.countP (holdsAt a) := by
    apply List.countP_mono_left
    intro c _ hc
    simp only [openAt, Bool.and_eq_true] at hc
    simp only [holdsAt, Bool.and_eq_true]
    exact ⟨wopen_holding _ hc.1, hc.2⟩
  have h2 := (Reach.sem h).cnt a
  have h3 : MitmVerif.Gen.C09.semSize = 5 := rfl
  omega

/-- the semaphore (asyncio.Semaphore transcribed: counter, FIFO of waiters, hand-off on release, cancellation of
    queued waiters) keeps its accounts for every schedule: free slots + tasks inside `async with` + waiters that
    have been handed a slot but have not resumed yet = N, for every address, in every reachable state. -/
theorem semaphore_accounts_balanced {n : Nat} {s : St} (h : Reach n s) (a : Nat) :
    s.semv a + s.conns.countP (holdsAt a) + s.conns.countP (wokenAt a) = n := by
  have := (Reach.sem h).cnt a
  rw [(Reach.inv h).2] at this; exact this

/-- hence, for any configured limit N: at most N upstream sockets to one address are open at any time, in every
    reachable state of every schedule, cancellations of queued and of already-woken waiters included. -/
theorem at_most_n_per_address {n : Nat} {s : St} (h : Reach n s) (a : Nat) :
    s.conns.countP (openAt a) ≤ n := by
  have h1 : s.conns.countP (openAt a) ≤ s.conns.countP (holdsAt a) := by
    apply List.countP_mono_left
    intro c _ hc
    simp only [openAt, Bool.and_eq_true] at hc
    simp only [holdsAt, Bool.and_eq_true]
    exact ⟨wopen_holding _ hc.1, hc.2⟩
  have := semaphore_accounts_balanced h a
  omega

/-- every queued waiter is an open_connection task for that address (the queue never holds foreign tasks) -/
theorem waiters_are_tasks_of_the_address {n : Nat} {s : St} (h : Reach n s) (a : Nat) :
    ∀ j ∈ s.waiters a, ∃ d, s.conns[j]? = some d ∧ d.addr = some a :=
  (Reach.sem h).wl a

/-- the slot is taken for the address that is DIALLED: the key of `max_conns[...]` is fixed when the server_connect
    hook returns — the address an addon wrote there if it wrote one, otherwise the address the layer asked for —
    and all the per-address theorems above count by this address -/
theorem slot_keyed_on_dialled_address {c c' : Conn} {ok : Bool} {cmds : List Cmd}
    (hpc : c.pc = .inSC) (h0 : c.addr = none) (h : stepS c (.hookret .ok false) ok = some (c', cmds)) :
    c'.addr = (match c.want with | some a => some a | none => c.req) ∧ c'.pc = .preSem := by
  simp only [stepS, hpc, Option.some.injEq, Prod.mk.injEq] at h
  obtain ⟨rfl, _⟩ := h
  refine ⟨?_, rfl⟩
  simp only [h0, Option.isNone_none, if_true]
  cases c.want <;> rfl

/-- a task that is cancelled while it is still queued for a slot leaves the queue without touching the counter
    of any address (it never held a slot, so it must not release one) -/
theorem cancelled_waiter_keeps_count {s s' : St} {i : Nat} {c : Conn}
    (hc : s.conns[i]? = some c) (hpc : c.pc = .semCancelled)
    (h : step s (.act (.S i) .semcancel) = some s') : s'.semv = s.semv := by
  simp only [step, hc, stepS, hpc] at h
  simp only [applyCmds, Option.some.injEq] at h
  subst h
  unfold semEffect
  split
  · rfl
  · simp [hpc]

/-- when handle_client has returned (and the layer did not open a connection after handle_client had
    collected the transports to wait for), nothing is left: no transports entry, no open upstream or
    client socket, and every attempt has its outcome and its server_disconnected. -/
theorem no_transports_after_return {n : Nat} {s : St} (h : Reach n s)
    (hr : s.hpc = .returned) (hq : s.lateOpen = false) :
    s.centry = false ∧ s.cwopen = false ∧
    ∀ c ∈ s.conns, c.entry = false ∧ wopen c.pc = false ∧ c.nSD + c.nSE = c.nSC ∧ c.nSX = c.nSD := by
  obtain ⟨hi, _⟩ := Reach.inv h
  have hh := hi.h
  unfold HInv at hh
  rw [hr] at hh
  refine ⟨hh.2.2.2, hh.1 hh.2.2.2, ?_⟩
  intro c hc
  have he := hi.ret hr hq c hc
  have hci := hi.conn c hc
  exact ⟨he, hci.noopen_of_noentry he, (hci.settled_of_noentry he).2.1, (hci.settled_of_noentry he).2.2⟩

/-- the explicit scheduler state is consistent in every reachable state: asyncio.wait's counter equals the number
    of pending completion callbacks, a task's callbacks are release_transport first and the completion callback
    behind it, and an entry is in transports only while its task's release_transport has not run -/
theorem wait_counts_callbacks {n : Nat} {s : St} (h : Reach n s) :
    s.hcount = s.conns.countP hasWait + cwait s ∧
    ∀ c ∈ s.conns, (c.cbs = [.release] ∨ c.cbs = [.release, .waitH] ∨ c.cbs = [.waitH] ∨ c.cbs = []) ∧
      (c.entry = true → c.cbs = [.release] ∨ c.cbs = [.release, .waitH]) :=
  ⟨(Reach.inv h).1.wait, (Reach.inv h).1.cb⟩

/-- handle_client passes its final `asyncio.wait` only when no awaited task has a pending callback, and while it
    waits every entry still in transports belongs to a task it waits for (no late open) -/
theorem final_wait_covers_transports {n : Nat} {s : St} (h : Reach n s) (hf : s.hpc = .final)
    (hq : s.lateOpen = false) : ∀ c ∈ s.conns, c.entry = true → hasWait c = true ∧ 0 < s.hcount := by
  intro c hc he
  have hi := (Reach.inv h).1
  have hw := hi.fin hf hq c hc he
  have : 0 < s.conns.countP hasWait := List.countP_pos_iff.mpr ⟨c, hc, hw⟩
  have := hi.wait
  exact ⟨hw, by omega⟩

/-- NO hypothesis about the layer: when handle_client has returned, the client's entry and socket are gone, and every
    upstream entry still in transports belongs to a connection the layer asked for AFTER handle_client had collected
    the transports to wait for (`late`); everything opened before that is gone, for every schedule.  (This is what the
    oracle asks of the real code: only what a late OpenConnection created may remain.) -/
theorem only_late_opens_remain {n : Nat} {s : St} (h : Reach n s) (hr : s.hpc = .returned) :
    s.centry = false ∧ s.cwopen = false ∧ ∀ c ∈ s.conns, c.entry = true → c.late = true := by
  obtain ⟨hi, _⟩ := Reach.inv h
  have hh := hi.h
  unfold HInv at hh
  rw [hr] at hh
  exact ⟨hh.2.2.2, hh.1 hh.2.2.2, (Reach.late h).ret2 hr⟩

/-- the ghost flag of `no_transports_after_return` is the disjunction of the marks: if no late open happened
    (`lateOpen = false`) no connection is marked late — so that theorem is the special case of
    `only_late_opens_remain` in which nothing may remain -/
theorem late_marks_imply_lateOpen {n : Nat} {s : St} (h : Reach n s) :
    ∀ c ∈ s.conns, c.late = true → s.lateOpen = true :=
  (Reach.late h).flag

/-- and every connection that was opened in time is settled at return: no entry, socket closed, one outcome per
    server_connect, one server_disconnected per server_connected — again without any hypothesis -/
theorem early_connections_settled_at_return {n : Nat} {s : St} (h : Reach n s) (hr : s.hpc = .returned) :
    ∀ c ∈ s.conns, c.late = false →
      c.entry = false ∧ wopen c.pc = false ∧ c.nSD + c.nSE = c.nSC ∧ c.nSX = c.nSD := by
  intro c hc hl
  have hci := (Reach.inv h).1.conn c hc
  have he : c.entry = false := by
    cases he : c.entry with
    | false => rfl
    | true => have := (Reach.late h).ret2 hr c hc he; rw [hl] at this; simp at this
  exact ⟨he, hci.noopen_of_noentry he, (hci.settled_of_noentry he).2.1, (hci.settled_of_noentry he).2.2⟩

/-- while handle_client waits, every entry of a connection opened in time belongs to a task it waits for -/
theorem final_wait_covers_early_transports {n : Nat} {s : St} (h : Reach n s) (hf : s.hpc = .final) :
    ∀ c ∈ s.conns, c.entry = true → c.late = false → hasWait c = true ∧ 0 < s.hcount := by
  intro c hc he hl
  have hw := (Reach.late h).fin2 hf c hc he hl
  have : 0 < s.conns.countP hasWait := List.countP_pos_iff.mpr ⟨c, hc, hw⟩
  have := (Reach.inv h).1.wait
  exact ⟨hw, by omega⟩

/-! ### non-vacuity -/

/-- a complete run: connect, serve, peer closes, client closes, handle_client returns -/
def happy : List Label :=
  [.act .H (.hook .cc), .act .H (.hookret .ok false), .act .H (.ev .start []), .act .C .start,
   .act .C (.readret .data), .act .C (.ev .data [.opn 0 (some 0)]),
   .act (.S 0) .start, .act (.S 0) (.hook .sc), .act (.S 0) (.hookret .ok false), .act (.S 0) .semacq,
   .act (.S 0) (.connret .ok), .act (.S 0) (.hook .sd), .act (.S 0) (.hookret .ok false),
   .act (.S 0) (.ev .cok []), .act (.S 0) (.readret .eof), .act (.S 0) (.ev .closed []),
   .act (.S 0) .wclose, .act (.S 0) (.hook .sx), .act (.S 0) (.hookret .ok false), .act (.S 0) .semrel,
   .act (.S 0) .fin,
   .act .C (.readret .eof), .act .C (.ev .closed []), .act .C .wclose, .act .C .fin, .cb .C, .cb .C,
   .act .H (.hook .cd), .act .H (.hookret .ok false), .act .H .fin]

example : ∃ s, Reach 5 s ∧ s.hpc = .returned ∧ s.lateOpen = false ∧ s.nCC = 1 ∧ s.nCD = 1 ∧
    (s.conns.map (fun c => (c.nSC, c.nSD, c.nSE, c.nSX))) = [(1, 1, 0, 1)] :=
  ⟨_, ⟨happy, rfl⟩, by decide⟩

/-- cancellation during the server_connect hook (client gone): the error hook is the outcome -/
example : ∃ s, Reach 5 s ∧ s.hpc = .returned ∧ (s.conns.map (fun c => (c.nSC, c.nSD, c.nSE, c.nSX))) = [(1, 0, 1, 0)] :=
  ⟨_, ⟨[.act .H (.hook .cc), .act .H (.hookret .ok false), .act .H (.ev .start [.opn 0 (some 0)]),
        .act .C .start, .act (.S 0) .start, .act (.S 0) (.hook .sc),
        .act .C (.readret .eof), .act .C (.ev .closed []), .act .C .wclose, .act .C .fin, .cb .C, .cb .C,
        .act .H (.hook .cd), .act .H (.hookret .ok false),
        .act (.S 0) (.hookret .cancel false), .act (.S 0) (.hook .se), .act (.S 0) (.hookret .ok false),
        .act (.S 0) (.ev .cerr []), .act (.S 0) .fin, .cb (.S 0), .cb (.S 0), .act .H .fin], rfl⟩, by decide⟩

/-- the model is not constant: the semaphore refuses a sixth holder, handle_client cannot return while a
    collected transport is still there, and a second OpenConnection for a live entry is refused -/
example : (run (init 1) [.act .H (.hook .cc), .act .H (.hookret .ok false),
    .act .H (.ev .start [.opn 0 (some 0), .opn 1 (some 0)]),
    .act (.S 0) .start, .act (.S 0) (.hook .sc), .act (.S 0) (.hookret .ok false), .act (.S 0) .semacq,
    .act (.S 1) .start, .act (.S 1) (.hook .sc), .act (.S 1) (.hookret .ok false), .act (.S 1) .semacq]).isNone = true := by
  decide

example : (run (init 5) [.act .H (.hook .cc), .act .H (.hookret .ok false),
    .act .H (.ev .start [.opn 0 (some 0), .opn 0 (some 0)])]).isNone = true := by decide

example : (run (init 5) [.act .H (.hook .cc), .act .H (.hookret .ok true), .act .H .wclose,
    .act .H (.hook .cd), .act .H (.hookret .ok false), .act .H .fin]).isSome = true := by decide

/-- the scheduler rules are not vacuous: handle_client cannot pass `asyncio.wait([handler])` before the client
    handler's callbacks have run, a callback cannot run before its task has finished, and the completion callback
    cannot overtake release_transport (the second `cb` is the one that counts the wait down) -/
example : (run (init 5) [.act .H (.hook .cc), .act .H (.hookret .ok false), .act .H (.ev .start []), .act .C .start,
    .act .C (.readret .eof), .act .C (.ev .closed []), .act .C .wclose, .act .C .fin, .cb .C,
    .act .H (.hook .cd)]).isNone = true := by decide

example : (run (init 5) [.act .H (.hook .cc), .act .H (.hookret .ok false), .act .H (.ev .start []), .act .C .start,
    .cb .C]).isNone = true := by decide

/-- handle_client's final wait cannot end while an awaited task's callbacks are pending -/
example : (run (init 5) [.act .H (.hook .cc), .act .H (.hookret .ok false), .act .H (.ev .start [.opn 0 (some 0)]),
    .act .C .start, .act .C (.readret .eof), .act .C (.ev .closed []), .act .C .wclose, .act .C .fin, .cb .C, .cb .C,
    .act .H (.hook .cd), .act .H (.hookret .ok false), .act (.S 0) .fin, .cb (.S 0), .act .H .fin]).isNone = true := by decide

/-- the semaphore with one slot and three openers: the second and third queue; the queued second one is cancelled —
    the counter stays 0, the third is NOT woken, and a `release` by the cancelled task is not a behaviour of the code -/
def queued3 : List Label :=
  [.act .H (.hook .cc), .act .H (.hookret .ok false),
   .act .H (.ev .start [.opn 0 (some 0), .opn 1 (some 0), .opn 2 (some 0)]),
   .act (.S 0) .start, .act (.S 0) (.hook .sc), .act (.S 0) (.hookret .ok false), .act (.S 0) .semacq,
   .act (.S 1) .start, .act (.S 1) (.hook .sc), .act (.S 1) (.hookret .ok false), .act (.S 1) .semwait,
   .act (.S 2) .start, .act (.S 2) (.hook .sc), .act (.S 2) (.hookret .ok false), .act (.S 2) .semwait]

example : ∃ s, run (init 1) (queued3 ++ [.act (.S 1) .creq, .act (.S 1) .semcancel]) = some s ∧
    s.semv 0 = 0 ∧ s.waiters 0 = [2] ∧ (s.conns.map (·.pc)) = [.inConn, .preSE .canc, .inSem] :=
  ⟨_, rfl, by decide⟩

example : (run (init 1) (queued3 ++ [.act (.S 1) .creq, .act (.S 1) .semcancel, .act (.S 1) .semrel])).isNone = true := by
  decide

/-- hand-off: the holder's connect fails, its release hands the slot to the first waiter; that waiter is cancelled
    after the hand-off and passes the slot on to the next one — the counter never exceeds what is free -/
example : ∃ s, run (init 1) (queued3 ++ [.act (.S 0) (.connret .err), .act (.S 0) (.hook .se),
      .act (.S 0) (.hookret .ok false), .act (.S 0) (.ev .cerr []), .act (.S 0) .semrel,
      .act (.S 1) .creq, .act (.S 1) .semcancel]) = some s ∧
    s.semv 0 = 0 ∧ s.waiters 0 = [2] ∧ (s.conns.map (·.pc)) = [.finishing, .preSE .canc, .semWoken] :=
  ⟨_, rfl, by decide⟩

/-- two connections the layer asked for at DIFFERENT addresses, both redirected to address 0 by the server_connect hook,
    one slot: the second one cannot take a slot at once (it would, if the semaphore were keyed on the requested
    address) — it has to queue -/
def redirected : List Label :=
  [.act .H (.hook .cc), .act .H (.hookret .ok false),
   .act .H (.ev .start [.opn 0 (some 1), .opn 1 (some 2)]),
   .act (.S 0) .start, .act (.S 0) (.hook .sc), .act (.S 0) (.dial 0), .act (.S 0) (.hookret .ok false), .act (.S 0) .semacq,
   .act (.S 1) .start, .act (.S 1) (.hook .sc), .act (.S 1) (.dial 0), .act (.S 1) (.hookret .ok false)]

example : (run (init 1) (redirected ++ [.act (.S 1) .semacq])).isNone = true := by decide
example : ∃ s, run (init 1) (redirected ++ [.act (.S 1) .semwait]) = some s ∧ s.waiters 0 = [1] ∧ s.semv 0 = 0 ∧
    s.semv 1 = 1 ∧ s.semv 2 = 1 := ⟨_, rfl, by decide⟩

/-- a queued task cannot take a slot it has not been handed, and the fast path is closed while somebody queues -/
example : (run (init 1) (queued3 ++ [.act (.S 1) .semacq])).isNone = true := by decide

/-- the hypothesis of `no_transports_after_return` is needed in this model: a layer that opens a connection
    while handle_client waits leaves an entry behind -/
example : ∃ s, Reach 5 s ∧ s.hpc = .returned ∧ s.lateOpen = true ∧ (s.conns.map (·.entry)) = [true] ∧
    (s.conns.map (·.late)) = [true] :=
  ⟨_, ⟨[.act .H (.hook .cc), .act .H (.hookret .ok false), .act .H (.ev .start [.spawn]),
        .act .C .start, .act (.K 0) .start, .act (.K 0) (.hook .hk),
        .act .C (.readret .eof), .act .C (.ev .closed []), .act .C .wclose, .act .C .fin, .cb .C, .cb .C,
        .act .H (.hook .cd), .act .H (.hookret .ok false),
        .act (.K 0) (.hookret .ok false), .act (.K 0) (.ev .hookdone [.opn 0 (some 0)]),
        .act .H .fin], rfl⟩, by decide⟩

/-! ### cross-audit round 6: further non-vacuity witnesses (appended by the auditor, examples only) -/

/-- the bound of `at_most_five_per_address` / `at_most_n_per_address` is attained with the size read from the source:
    five upstream sockets to address 0 are open, a sixth attempt for the same address has passed server_connect -/
def fiveOpen : List Label :=
  [.act .H (.hook .cc),
   .act .H (.hookret .ok false),
   .act .H (.ev .start [.opn 0 (some 0), .opn 1 (some 0), .opn 2 (some 0), .opn 3 (some 0), .opn 4 (some 0), .opn 5 (some 0)]),
   .act (.S 0) .start,
   .act (.S 0) (.hook .sc),
   .act (.S 0) (.hookret .ok false),
   .act (.S 0) .semacq,
   .act (.S 0) (.connret .ok),
   .act (.S 1) .start,
   .act (.S 1) (.hook .sc),
   .act (.S 1) (.hookret .ok false),
   .act (.S 1) .semacq,
   .act (.S 1) (.connret .ok),
   .act (.S 2) .start,
   .act (.S 2) (.hook .sc),
   .act (.S 2) (.hookret .ok false),
   .act (.S 2) .semacq,
   .act (.S 2) (.connret .ok),
   .act (.S 3) .start,
   .act (.S 3) (.hook .sc),
   .act (.S 3) (.hookret .ok false),
   .act (.S 3) .semacq,
   .act (.S 3) (.connret .ok),
   .act (.S 4) .start,
   .act (.S 4) (.hook .sc),
   .act (.S 4) (.hookret .ok false),
   .act (.S 4) .semacq,
   .act (.S 4) (.connret .ok),
   .act (.S 5) .start,
   .act (.S 5) (.hook .sc),
   .act (.S 5) (.hookret .ok false)]

example : ∃ s, Reach MitmVerif.Gen.C09.semSize s ∧ s.conns.countP (openAt 0) = 5 ∧ s.semv 0 = 0 ∧
    s.conns.countP (holdsAt 0) = 5 ∧ s.conns.countP (wokenAt 0) = 0 :=
  ⟨_, ⟨fiveOpen, rfl⟩, by decide⟩

/-- ... and the sixth cannot take a slot: it has to queue (`waiters_are_tasks_of_the_address` on a non-empty queue) -/
example : (run (init MitmVerif.Gen.C09.semSize) (fiveOpen ++ [.act (.S 5) .semacq])).isNone = true := by decide
example : ∃ s, run (init MitmVerif.Gen.C09.semSize) (fiveOpen ++ [.act (.S 5) .semwait]) = some s ∧ s.waiters 0 = [5] ∧
    s.conns.countP (openAt 0) = 5 := ⟨_, rfl, by decide⟩

/-- `final_wait_covers_transports` / `final_wait_covers_early_transports`: their hypotheses hold in a reachable state with
    an entry still in transports — handle_client is in its final wait, the open_connection task has not finished yet -/
example : ∃ s, Reach 5 s ∧ s.hpc = .final ∧ s.lateOpen = false ∧ (s.conns.map (·.entry)) = [true] ∧
    (s.conns.map (·.late)) = [false] ∧ s.hcount = 1 :=
  ⟨_, ⟨[.act .H (.hook .cc), .act .H (.hookret .ok false), .act .H (.ev .start [.opn 0 (some 0)]),
        .act .C .start, .act (.S 0) .start, .act (.S 0) (.hook .sc),
        .act .C (.readret .eof), .act .C (.ev .closed []), .act .C .wclose, .act .C .fin, .cb .C, .cb .C,
        .act .H (.hook .cd), .act .H (.hookret .ok false)], rfl⟩, by decide⟩

/-- `connect_outcome_exactly_one` / `connected_then_disconnected_once` with the premise `entry = false` while the task is
    NOT yet done (entry popped when server_disconnected fires, semaphore still held): the counters are already settled -/
example : ∃ s, Reach 5 s ∧ (s.conns.map (fun c => (decide (c.pc = .done), c.entry, c.nSC, c.nSD, c.nSE, c.nSX))) =
    [(false, false, 1, 1, 0, 1)] :=
  ⟨_, ⟨happy.take 18, rfl⟩, by decide⟩

/-- `client_hooks_paired` on the kill path (client_connected sets client.error): both hooks exactly once at return -/
example : ∃ s, Reach 5 s ∧ s.hpc = .returned ∧ s.nCC = 1 ∧ s.nCD = 1 ∧ s.centry = false ∧ s.cwopen = false :=
  ⟨_, ⟨[.act .H (.hook .cc), .act .H (.hookret .ok true), .act .H .wclose,
        .act .H (.hook .cd), .act .H (.hookret .ok false), .act .H .fin], rfl⟩, by decide⟩

end MitmVerif.Props.C09
