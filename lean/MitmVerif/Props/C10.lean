/-
  C10 — property theorems about the TimeoutWatchdog model, for every schedule of activity,
  nested/overlapping hooks and time passing (induction over the operation list).
-/
import MitmVerif.Model.C10
namespace MitmVerif.Props.C10
open MitmVerif.C10

private theorem env_pc (s : St) (o : Op) : (env s o).pc = s.pc := by
  cases o with
  | exit => simp only [env]; split; · rfl
            split <;> rfl
  | _ => rfl

private theorem env_timeout (s : St) (o : Op) : (env s o).timeout = s.timeout := by
  cases o with
  | exit => simp only [env]; split; · rfl
            split <;> rfl
  | _ => rfl

private theorem env_last_le (s : St) (o : Op) (hl : s.last ≤ s.now) : (env s o).last ≤ (env s o).now := by
  cases o with
  | exit => simp only [env]; split; · exact hl
            split
            · simp
            · exact hl
  | activity => simp [env]
  | enter => simpa [env] using hl
  | tick d => simp only [env]; omega

private theorem env_last_mono (s : St) (o : Op) (hl : s.last ≤ s.now) : s.last ≤ (env s o).last := by
  cases o with
  | exit => simp only [env]; split; · exact Nat.le_refl _
            split
            · exact hl
            · exact Nat.le_refl _
  | activity => simpa [env] using hl
  | enter => simp [env]
  | tick d => simp [env]

private theorem env_flag (s : St) (o : Op) (hinv : s.can = true ↔ s.blocker = 0) :
    (env s o).can = true ↔ (env s o).blocker = 0 := by
  cases o with
  | activity => simpa [env] using hinv
  | tick d => simpa [env] using hinv
  | enter => simp [env]
  | exit =>
    simp only [env]
    split
    · exact hinv
    · split
      · simp
      · rename_i h0 h1
        have hc : s.can = false := by
          cases hc : s.can with
          | false => rfl
          | true => exact absurd (hinv.mp hc) h0
        simp only [hc]
        constructor
        · intro h; cases h
        · intro h; omega

/-- what `run` does to a state, by cases -/
private theorem run_cases (s : St) (hto : 0 < s.timeout) (hl : s.last ≤ s.now) :
    (run s).timeout = s.timeout ∧ (run s).now = s.now ∧ (run s).last = s.last ∧
    (run s).blocker = s.blocker ∧ (run s).can = s.can ∧
    ( ((run s).pc = .fired ∧ (s.pc = .fired ∨ (s.can = true ∧ s.last + s.timeout ≤ s.now)))
    ∨ ((run s).pc = .wait ∧ s.can = false)
    ∨ (∃ w, (run s).pc = .sleep w ∧ s.now < w ∧
        (s.pc = .sleep w ∨ (s.can = true ∧ w = s.last + s.timeout))) ) := by
  obtain ⟨to, now, last, bl, can, pc⟩ := s
  simp only at hto hl
  cases pc with
  | fired => simp [run, runStep]
  | wait =>
    cases can
    · simp [run, runStep]
    · by_cases h : last + to ≤ now
      · have h0 : now + (last + to - now) ≤ now := by omega
        simp [run, runStep, h0, h]
      · have h1 : ¬ (now + (last + to - now) ≤ now) := by omega
        have h2 : now + (last + to - now) = last + to := by omega
        simp [run, runStep, h2, h]
        omega
  | sleep w =>
    by_cases hw : w ≤ now
    · cases can
      · simp [run, runStep, hw]
      · by_cases h : last + to ≤ now
        · simp [run, runStep, hw, h]
        · have h1 : ¬ (now + (last + to - now) ≤ now) := by omega
          have h2 : now + (last + to - now) = last + to := by omega
          simp [run, runStep, hw, h, h2]
          omega
    · have : now < w := by omega
      simp [run, runStep, hw, this]

/-- **never_fires_while_blocked.** A step that turns a not-yet-fired watchdog into a fired one ends
    with `blocker = 0`: no hook is pending at the moment the connection is closed for inactivity. -/
theorem never_fires_while_blocked (s : St) (o : Op)
    (hinv : s.can = true ↔ s.blocker = 0) (hto : 0 < s.timeout) (hl : s.last ≤ s.now)
    (hnf : s.pc ≠ .fired) (hf : (step s o).pc = .fired) : (step s o).blocker = 0 := by
  have hr := run_cases (env s o) (by rw [env_timeout]; exact hto) (env_last_le s o hl)
  obtain ⟨_, _, _, hb, hc, hpc⟩ := hr
  simp only [step] at hf ⊢
  rcases hpc with ⟨_, h | ⟨hcan, _⟩⟩ | ⟨h, _⟩ | ⟨w, h, _⟩
  · rw [env_pc] at h; exact absurd h hnf
  · rw [hb]; exact (env_flag s o hinv).mp hcan
  · rw [h] at hf; cases hf
  · rw [h] at hf; cases hf

/-- **active_not_closed.** When the watchdog fires, at least `timeout` ticks have passed since the
    last registered activity / last hook completion: a connection with activity within the timeout
    is not closed. -/
theorem active_not_closed (s : St) (o : Op) (hto : 0 < s.timeout) (hl : s.last ≤ s.now)
    (hnf : s.pc ≠ .fired) (hf : (step s o).pc = .fired) :
    (step s o).last + (step s o).timeout ≤ (step s o).now := by
  obtain ⟨h1, h2, h3, _, _, hpc⟩ :=
    run_cases (env s o) (by rw [env_timeout]; exact hto) (env_last_le s o hl)
  simp only [step] at hf ⊢
  rw [h1, h2, h3]
  rcases hpc with ⟨_, h | ⟨_, h⟩⟩ | ⟨h, _⟩ | ⟨w, h, _⟩
  · rw [env_pc] at h; exact absurd h hnf
  · exact h
  · rw [h] at hf; cases hf
  · rw [h] at hf; cases hf

/-- the invariant of reachable states -/
structure Good (to : Nat) (s : St) : Prop where
  flag   : s.can = true ↔ s.blocker = 0
  clock  : s.last ≤ s.now
  tmo    : s.timeout = to
  timer  : ∀ w, s.pc = .sleep w → w ≤ s.last + s.timeout          -- a pending timer is never late
  armed  : s.can = true → s.pc = .fired ∨ ∃ w, s.pc = .sleep w ∧ s.now < w

private theorem good_start (to : Nat) (hto : 0 < to) : Good to (start to) := by
  have h : ¬ (to ≤ 0) := by omega
  constructor <;> simp [start, run, runStep, init, h]
  omega

private theorem good_step (to : Nat) (hto : 0 < to) (s : St) (o : Op) (g : Good to s) :
    Good to (step s o) := by
  obtain ⟨h1, h2, h3, h4, h5, hpc⟩ :=
    run_cases (env s o) (by rw [env_timeout, g.tmo]; exact hto) (env_last_le s o g.clock)
  have hmono := env_last_mono s o g.clock
  simp only [step]
  constructor
  · rw [h5, h4]; exact env_flag s o g.flag
  · rw [h3, h2]; exact env_last_le s o g.clock
  · rw [h1, env_timeout]; exact g.tmo
  · intro w hw
    rw [h3, h1]
    rcases hpc with ⟨h, _⟩ | ⟨h, _⟩ | ⟨w', h, _, hsrc⟩
    · rw [h] at hw; cases hw
    · rw [h] at hw; cases hw
    · rw [h] at hw; cases hw
      rcases hsrc with hs | ⟨_, hs⟩
      · rw [env_pc] at hs
        have := g.timer w hs
        rw [env_timeout]; omega
      · omega
  · intro hcan
    rw [h5] at hcan
    rcases hpc with ⟨h, _⟩ | ⟨_, h⟩ | ⟨w', h, hlt, _⟩
    · left; exact h
    · rw [h] at hcan; cases hcan
    · right; exact ⟨w', h, by rw [h2]; exact hlt⟩

/-- every state reachable by any schedule satisfies the invariant -/
theorem reachable_good (to : Nat) (hto : 0 < to) (ops : List Op) : Good to (exec (start to) ops) := by
  suffices ∀ s, Good to s → Good to (exec s ops) from this _ (good_start to hto)
  induction ops with
  | nil => intro s g; simpa [exec] using g
  | cons o ops ih => intro s g; simp only [exec, List.foldl_cons]; exact ih _ (good_step to hto s o g)

/-- **never_fires_while_blocked, for whole schedules.** Along every schedule from the initial state,
    the step at which the watchdog fires (if any) ends with no hook pending. -/
theorem never_fires_while_blocked_reach (to : Nat) (hto : 0 < to) (ops : List Op) (o : Op)
    (hnf : (exec (start to) ops).pc ≠ .fired)
    (hf : (step (exec (start to) ops) o).pc = .fired) :
    (step (exec (start to) ops) o).blocker = 0 := by
  have g := reachable_good to hto ops
  exact never_fires_while_blocked _ o g.flag (by rw [g.tmo]; exact hto) g.clock hnf hf

/-- **idle_closes.** In every reachable state with no hook pending, once `timeout` ticks have passed
    since the last activity the watchdog has fired (the connection is closed). -/
theorem idle_closes (to : Nat) (hto : 0 < to) (ops : List Op)
    (hb : (exec (start to) ops).blocker = 0)
    (hidle : (exec (start to) ops).last + (exec (start to) ops).timeout ≤ (exec (start to) ops).now) :
    (exec (start to) ops).pc = .fired := by
  have g := reachable_good to hto ops
  rcases g.armed (g.flag.mpr hb) with h | ⟨w, hw, hlt⟩
  · exact h
  · have := g.timer w hw; omega

/-- **restart_after_last_hook.** When the last pending hook completes the idle period restarts: the
    completion itself never fires the watchdog, and `last_activity` is the completion time. -/
theorem restart_after_last_hook (s : St) (hto : 0 < s.timeout) (hb : s.blocker = 1)
    (hc : s.can = false) (hnf : s.pc ≠ .fired) :
    (step s .exit).last = s.now ∧ (step s .exit).blocker = 0 ∧ (step s .exit).pc ≠ .fired := by
  obtain ⟨to, now, last, bl, can, pc⟩ := s
  simp only at hto hb hc hnf
  subst hb hc
  have h1 : ¬ (now + to ≤ now) := by omega
  cases pc with
  | fired => exact absurd rfl hnf
  | wait => simp [step, env, run, runStep, h1]
  | sleep w =>
    by_cases hw : w ≤ now
    · simp [step, env, run, runStep, hw, h1]
    · simp [step, env, run, runStep, hw]

-- non-vacuity: concrete schedules on which the guards hold and the conclusions are informative
example : (exec (start 4) [.tick 3, .enter, .tick 2]).pc = .wait ∧
          (exec (start 4) [.tick 3, .enter, .tick 2]).blocker = 1 := by decide   -- hook spans the deadline: not fired
example : (exec (start 4) [.tick 3, .enter, .tick 2, .exit, .tick 3]).pc ≠ .fired := by decide
example : (exec (start 4) [.tick 3, .enter, .tick 2, .exit, .tick 4]).pc = .fired := by decide
example : (exec (start 4) [.tick 3, .activity, .tick 3]).pc ≠ .fired ∧
          (exec (start 4) [.tick 3, .activity, .tick 4]).pc = .fired := by decide

end MitmVerif.Props.C10
