/-
  C10 — property theorems about the TimeoutWatchdog model, for every schedule of activity,
  nested/overlapping hooks and time passing (induction over the operation list).
-/
import MitmVerif.Model.C10
namespace MitmVerif.Props.C10
open MitmVerif.C10

private theorem env_pc (s : St) (o : Op) : (env s o).pc = s.pc := by
  cases o with
  | exit => simp only [env]; split; · rfl
            split <;> rfl
  | _ => rfl

private theorem env_timeout (s : St) (o : Op) : (env s o).timeout = s.timeout := by
  cases o with
  | exit => simp only [env]; split; · rfl
            split <;> rfl
  | _ => rfl

private theorem env_last_le (s : St) (o : Op) (hl : s.last ≤ s.now) : (env s o).last ≤ (env s o).now := by
  cases o with
  | exit => simp only [env]; split; · exact hl
            split
            · simp
            · exact hl
  | activity => simp [env]
  | enter => simpa [env] using hl
  | tick d => simp only [env]; omega

private theorem env_last_mono (s : St) (o : Op) (hl : s.last ≤ s.now) : s.last ≤ (env s o).last := by
  cases o with
  | exit => simp only [env]; split; · exact Nat.le_refl _
            split
            · exact hl
            · exact Nat.le_refl _
  | activity => simpa [env] using hl
  | enter => simp [env]
  | tick d => simp [env]

private theorem env_flag (s : St) (o : Op) (hinv : s.can = true ↔ s.blocker = 0) :
    (env s o).can = true ↔ (env s o).blocker = 0 := by
  cases o with
  | activity => simpa [env] using hinv
  | tick d => simpa [env] using hinv
  | enter => simp [env]
  | exit =>
    simp only [env]
    split
    · exact hinv
    · split
      · simp
      · rename_i h0 h1
        have hc : s.can = false := by
          cases hc : s.can with
          | false => rfl
          | true => exact absurd (hinv.mp hc) h0
        simp only [hc]
        constructor
        · intro h; cases h
        · intro h; omega

/-- what `run` does to a state, by cases -/
private theorem run_cases (s : St) (hto : 0 < s.timeout) (hl : s.last ≤ s.now) :
    (run s).timeout = s.timeout ∧ (run s).now = s.now ∧ (run s).last = s.last ∧
    (run s).blocker = s.blocker ∧ (run s).can = s.can ∧
    ( ((run s).pc = .fired ∧ (s.pc = .fired ∨ (s.can = true ∧ s.last + s.timeout ≤ s.now)))
    ∨ ((run s).pc = .wait ∧ s.can = false)
    ∨ (∃ w, (run s).pc = .sleep w ∧ s.now < w ∧
        (s.pc = .sleep w ∨ (s.can = true ∧ w = s.last + s.timeout))) ) := by
  obtain ⟨to, now, last, bl, can, pc⟩ := s
  simp only at hto hl
  cases pc with
  | fired => simp [run, runStep]
  | wait =>
    cases can
    · simp [run, runStep]
    · by_cases h : last + to ≤ now
      · have h0 : now + (last + to - now) ≤ now := by omega
        simp [run, runStep, h0, h]
      · have h1 : ¬ (now + (last + to - now) ≤ now) := by omega
        have h2 : now + (last + to - now) = last + to := by omega
        simp [run, runStep, h2, h]
        omega
  | sleep w =>
    by_cases hw : w ≤ now
    · cases can
      · simp [run, runStep, hw]
      · by_cases h : last + to ≤ now
        · simp [run, runStep, hw, h]
        · have h1 : ¬ (now + (last + to - now) ≤ now) := by omega
          have h2 : now + (last + to - now) = last + to := by omega
          simp [run, runStep, hw, h, h2]
          omega
    · have : now < w := by omega
      simp [run, runStep, hw, this]

/-- **never_fires_while_blocked.** A step that turns a not-yet-fired watchdog into a fired one ends
    with `blocker = 0`: no hook is pending at the moment the connection is closed for inactivity. -/
theorem never_fires_while_blocked (s : St) (o : Op)
    (hinv : s.can = true ↔ s.blocker = 0) (hto : 0 < s.timeout) (hl : s.last ≤ s.now)
    (hnf : s.pc ≠ .fired) (hf : (step s o).pc = .fired) : (step s o).blocker = 0 := by
  have hr := run_cases (env s o) (by rw [env_timeout]; exact hto) (env_last_le s o hl)
  obtain ⟨_, _, _, hb, hc, hpc⟩ := hr
  simp only [step] at hf ⊢
  rcases hpc with ⟨_, h | ⟨hcan, _⟩⟩ | ⟨h, _⟩ | ⟨w, h, _⟩
  · rw [env_pc] at h; exact absurd h hnf
  · rw [hb]; exact (env_flag s o hinv).mp hcan
  · rw [h] at hf; cases hf
  · rw [h] at hf; cases hf

/-- **active_not_closed.** When the watchdog fires, at least `timeout` ticks have passed since the
    last registered activity / last hook completion: a connection with activity within the timeout
    is not closed. -/
theorem active_not_closed (s : St) (o : Op) (hto : 0 < s.timeout) (hl : s.last ≤ s.now)
    (hnf : s.pc ≠ .fired) (hf : (step s o).pc = .fired) :
    (step s o).last + (step s o).timeout ≤ (step s o).now := by
  obtain ⟨h1, h2, h3, _, _, hpc⟩ :=
    run_cases (env s o) (by rw [env_timeout]; exact hto) (env_last_le s o hl)
  simp only [step] at hf ⊢
  rw [h1, h2, h3]
  rcases hpc with ⟨_, h | ⟨_, h⟩⟩ | ⟨h, _⟩ | ⟨w, h, _⟩
  · rw [env_pc] at h; exact absurd h hnf
  · exact h
  · rw [h] at hf; cases hf
  · rw [h] at hf; cases hf

/-- the invariant of reachable states -/
structure Good (to : Nat) (s : St) : Prop where
  flag   : s.can = true ↔ s.blocker = 0
  clock  : s.last ≤ s.now
  tmo    : s.timeout = to
  timer  : ∀ w, s.pc = .sleep w → w ≤ s.last + s.timeout          -- a pending timer is never late
  armed  : s.can = true → s.pc = .fired ∨ ∃ w, s.pc = .sleep w ∧ s.now < w

private theorem good_start (to : Nat) (hto : 0 < to) : Good to (start to) := by
  have h : ¬ (to ≤ 0) := by omega
  constructor <;> simp [start, run, runStep, init, h]
  omega

private theorem good_step (to : Nat) (hto : 0 < to) (s : St) (o : Op) (g : Good to s) :
    Good to (step s o) := by
  obtain ⟨h1, h2, h3, h4, h5, hpc⟩ :=
    run_cases (env s o) (by rw [env_timeout, g.tmo]; exact hto) (env_last_le s o g.clock)
  have hmono := env_last_mono s o g.clock
  simp only [step]
  constructor
  · rw [h5, h4]; exact env_flag s o g.flag
  · rw [h3, h2]; exact env_last_le s o g.clock
  · rw [h1, env_timeout]; exact g.tmo
  · intro w hw
    rw [h3, h1]
    rcases hpc with ⟨h, _⟩ | ⟨h, _⟩ | ⟨w', h, _, hsrc⟩
    · rw [h] at hw; cases hw
    · rw [h] at hw; cases hw
    · rw [h] at hw; cases hw
      rcases hsrc with hs | ⟨_, hs⟩
      · rw [env_pc] at hs
        have := g.timer w hs
        rw [env_timeout]; omega
      · omega
  · intro hcan
    rw [h5] at hcan
    rcases hpc with ⟨h, _⟩ | ⟨_, h⟩ | ⟨w', h, hlt, _⟩
    · left; exact h
    · rw [h] at hcan; cases hcan
    · right; exact ⟨w', h, by rw [h2]; exact hlt⟩

/-- every state reachable by any schedule satisfies the invariant -/
theorem reachable_good (to : Nat) (hto : 0 < to) (ops : List Op) : Good to (exec (start to) ops) := by
  suffices ∀ s, Good to s → Good to (exec s ops) from this _ (good_start to hto)
  induction ops with
  | nil => intro s g; simpa [exec] using g
  | cons o ops ih => intro s g; simp only [exec, List.foldl_cons]; exact ih _ (good_step to hto s o g)

/-- **never_fires_while_blocked, for whole schedules.** Along every schedule from the initial state,
    the step at which the watchdog fires (if any) ends with no hook pending. -/
theorem never_fires_while_blocked_reach (to : Nat) (hto : 0 < to) (ops : List Op) (o : Op)
    (hnf : (exec (start to) ops).pc ≠ .fired)
    (hf : (step (exec (start to) ops) o).pc = .fired) :
    (step (exec (start to) ops) o).blocker = 0 := by
  have g := reachable_good to hto ops
  exact never_fires_while_blocked _ o g.flag (by rw [g.tmo]; exact hto) g.clock hnf hf

/-- **idle_closes.** In every reachable state with no hook pending, once `timeout` ticks have passed
    since the last activity the watchdog has fired (the connection is closed). -/
theorem idle_closes (to : Nat) (hto : 0 < to) (ops : List Op)
    (hb : (exec (start to) ops).blocker = 0)
    (hidle : (exec (start to) ops).last + (exec (start to) ops).timeout ≤ (exec (start to) ops).now) :
    (exec (start to) ops).pc = .fired := by
  have g := reachable_good to hto ops
  rcases g.armed (g.flag.mpr hb) with h | ⟨w, hw, hlt⟩
  · exact h
  · have := g.timer w hw; omega

/-- **restart_after_last_hook.** When the last pending hook completes the idle period restarts: the
    completion itself never fires the watchdog, and `last_activity` is the completion time. -/
theorem restart_after_last_hook (s : St) (hto : 0 < s.timeout) (hb : s.blocker = 1)
    (hc : s.can = false) (hnf : s.pc ≠ .fired) :
    (step s .exit).last = s.now ∧ (step s .exit).blocker = 0 ∧ (step s .exit).pc ≠ .fired := by
  obtain ⟨to, now, last, bl, can, pc⟩ := s
  simp only at hto hb hc hnf
  subst hb hc
  have h1 : ¬ (now + to ≤ now) := by omega
  cases pc with
  | fired => exact absurd rfl hnf
  | wait => simp [step, env, run, runStep, h1]
  | sleep w =>
    by_cases hw : w ≤ now
    · simp [step, env, run, runStep, hw, h1]
    · simp [step, env, run, runStep, hw]


/-! ### the history-level specification: closed exactly when some prefix of the history is idle -/

/-- what a history of environment events says by itself (no watcher): the clock, the time of the last activity or
    last-hook completion, and the number of hooks in progress -/
structure Hist where
  now : Nat
  last : Nat
  pending : Nat
  deriving DecidableEq, Repr

def Hist.step (h : Hist) : Op → Hist
  | .activity => { h with last := h.now }
  | .enter => { h with pending := h.pending + 1 }
  | .exit =>
    if h.pending = 0 then h
    else if h.pending = 1 then { h with pending := 0, last := h.now }
    else { h with pending := h.pending - 1 }
  | .tick d => { h with now := h.now + d }

def hist (ops : List Op) : Hist := ops.foldl Hist.step ⟨0, 0, 0⟩

/-- the connection is idle after `ops`: no hook in progress and at least `to` ticks since the last event -/
def IdleAt (to : Nat) (ops : List Op) : Prop := (hist ops).pending = 0 ∧ (hist ops).last + to ≤ (hist ops).now

private theorem rev_ind {α : Type} {motive : List α → Prop} (nil : motive [])
    (append_singleton : ∀ l a, motive l → motive (l ++ [a])) : ∀ l, motive l := by
  intro l
  rw [← List.reverse_reverse l]
  induction l.reverse with
  | nil => exact nil
  | cons a t ih => rw [List.reverse_cons]; exact append_singleton _ _ ih

private def absH (s : St) : Hist := ⟨s.now, s.last, s.blocker⟩

private theorem absH_step (s : St) (o : Op) (hto : 0 < s.timeout) (hl : s.last ≤ s.now) :
    absH (step s o) = (absH s).step o := by
  obtain ⟨_, h2, h3, h4, _, _⟩ := run_cases (env s o) (by rw [env_timeout]; exact hto) (env_last_le s o hl)
  simp only [absH, step, h2, h3, h4]
  cases o with
  | activity => rfl
  | enter => rfl
  | tick d => rfl
  | exit =>
    simp only [env, Hist.step]
    split
    · rfl
    · split <;> rfl

/-- **exec_hist.** The watcher never disturbs the bookkeeping: clock, last event and pending count of every reachable
    state are those the history alone determines. -/
theorem exec_hist (to : Nat) (hto : 0 < to) (ops : List Op) :
    (exec (start to) ops).now = (hist ops).now ∧ (exec (start to) ops).last = (hist ops).last ∧
    (exec (start to) ops).blocker = (hist ops).pending := by
  have key : absH (exec (start to) ops) = hist ops := by
    induction ops using rev_ind with
    | nil =>
      have h : ¬ (to ≤ 0) := by omega
      simp [exec, hist, absH, start, run, runStep, init, h]
    | append_singleton ops o ih =>
      have g := reachable_good to hto ops
      have e : exec (start to) (ops ++ [o]) = step (exec (start to) ops) o := by
        simp only [exec, List.foldl_append, List.foldl_cons, List.foldl_nil]
      have e' : hist (ops ++ [o]) = (hist ops).step o := by
        simp only [hist, List.foldl_append, List.foldl_cons, List.foldl_nil]
      rw [e, e', ← ih]
      exact absH_step _ o (by rw [g.tmo]; exact hto) g.clock
  simp only [absH] at key
  rw [← key]
  exact ⟨rfl, rfl, rfl⟩

private theorem run_fired (s : St) (h : s.pc = .fired) : (run s).pc = .fired := by
  obtain ⟨to, now, last, bl, can, pc⟩ := s
  simp only at h
  subst h
  simp [run, runStep]

private theorem exec_fired (s : St) (ops : List Op) (h : s.pc = .fired) : (exec s ops).pc = .fired := by
  induction ops generalizing s with
  | nil => simpa [exec] using h
  | cons o ops ih =>
    simp only [exec, List.foldl_cons]
    exact ih _ (run_fired _ (by rw [env_pc]; exact h))

/-- **closed_iff_idle_prefix.** For every schedule: the connection has been closed for inactivity exactly when, at some
    point of the history, no hook was in progress and `timeout` ticks had passed since the last activity or the last
    hook completion.  Both directions of the property's first two sentences, and its third, in one statement. -/
theorem closed_iff_idle_prefix (to : Nat) (hto : 0 < to) (ops : List Op) :
    (exec (start to) ops).pc = .fired ↔ ∃ k, k ≤ ops.length ∧ IdleAt to (ops.take k) := by
  constructor
  · intro hf
    induction ops using rev_ind with
    | nil =>
      have h : ¬ (to ≤ 0) := by omega
      simp [exec, start, run, runStep, init, h] at hf
    | append_singleton ops o ih =>
      by_cases hp : (exec (start to) ops).pc = .fired
      · obtain ⟨k, hk, hi⟩ := ih hp
        refine ⟨k, by simp only [List.length_append, List.length_singleton]; omega, ?_⟩
        rwa [List.take_append_of_le_length hk]
      · have e : exec (start to) (ops ++ [o]) = step (exec (start to) ops) o := by
          simp only [exec, List.foldl_append, List.foldl_cons, List.foldl_nil]
        rw [e] at hf
        have g := reachable_good to hto ops
        have hb := never_fires_while_blocked _ o g.flag (by rw [g.tmo]; exact hto) g.clock hp hf
        have ha := active_not_closed _ o (by rw [g.tmo]; exact hto) g.clock hp hf
        have g' := reachable_good to hto (ops ++ [o])
        obtain ⟨h1, h2, h3⟩ := exec_hist to hto (ops ++ [o])
        rw [← e] at hb ha
        refine ⟨(ops ++ [o]).length, Nat.le_refl _, ?_⟩
        rw [List.take_length]
        have ht := g'.tmo
        refine ⟨by rw [← h3]; exact hb, ?_⟩
        rw [← h2, ← h1]
        rw [ht] at ha
        exact ha
  · rintro ⟨k, hk, hi⟩
    obtain ⟨h1, h2, h3⟩ := exec_hist to hto (ops.take k)
    have g := reachable_good to hto (ops.take k)
    have hf := idle_closes to hto (ops.take k) (by rw [h3]; exact hi.1) (by rw [h2, h1, g.tmo]; exact hi.2)
    have e : exec (start to) ops = exec (exec (start to) (ops.take k)) (ops.drop k) := by
      simp only [exec, ← List.foldl_append, List.take_append_drop]
    rw [e]
    exact exec_fired _ _ hf

/-- **not_closed_while_never_idle.** A connection whose history was never idle — every gap shorter than the timeout or
    bridged by a pending hook — is still open. -/
theorem not_closed_while_never_idle (to : Nat) (hto : 0 < to) (ops : List Op)
    (h : ∀ k, k ≤ ops.length → ¬ IdleAt to (ops.take k)) : (exec (start to) ops).pc ≠ .fired := by
  intro hf
  obtain ⟨k, hk, hi⟩ := (closed_iff_idle_prefix to hto ops).mp hf
  exact h k hk hi

instance (to : Nat) (ops : List Op) : Decidable (IdleAt to ops) := by unfold IdleAt; infer_instance

-- non-vacuity: a hook bridging the deadline keeps every prefix non-idle; one more idle period closes
example : ∀ k, k ≤ 5 → ¬ IdleAt 4 ([Op.tick 3, .enter, .tick 2, .exit, .tick 3].take k) := by decide
example : IdleAt 4 [Op.tick 3, .enter, .tick 2, .exit, .tick 4] := by decide

-- non-vacuity: concrete schedules on which the guards hold and the conclusions are informative
example : (exec (start 4) [.tick 3, .enter, .tick 2]).pc = .wait ∧
          (exec (start 4) [.tick 3, .enter, .tick 2]).blocker = 1 := by decide   -- hook spans the deadline: not fired
example : (exec (start 4) [.tick 3, .enter, .tick 2, .exit, .tick 3]).pc ≠ .fired := by decide
example : (exec (start 4) [.tick 3, .enter, .tick 2, .exit, .tick 4]).pc = .fired := by decide
example : (exec (start 4) [.tick 3, .activity, .tick 3]).pc ≠ .fired ∧
          (exec (start 4) [.tick 3, .activity, .tick 4]).pc = .fired := by decide

-- audit round 6 (cross-audit by b-c03): the guards of the step-local theorems are jointly satisfiable on reachable states
-- never_fires_while_blocked / active_not_closed: a reachable non-fired state and a step that fires
example : ∃ (s : St) (o : Op), (s.can = true ↔ s.blocker = 0) ∧ 0 < s.timeout ∧ s.last ≤ s.now ∧ s.pc ≠ .fired ∧
    (step s o).pc = .fired :=
  ⟨exec (start 4) [.tick 3, .activity, .tick 3], .tick 1, by decide⟩
-- ... also right after hooks were pending (the firing step is a tick after the last exit)
example : ∃ (s : St) (o : Op), (s.can = true ↔ s.blocker = 0) ∧ s.pc ≠ .fired ∧ (step s o).pc = .fired ∧ s.last = 5 :=
  ⟨exec (start 4) [.tick 3, .enter, .enter, .tick 2, .exit, .exit], .tick 4, by decide⟩
-- restart_after_last_hook: its guards hold on a reachable state whose `last` is stale, so `last = now` is informative
example : ∃ s : St, 0 < s.timeout ∧ s.blocker = 1 ∧ s.can = false ∧ s.pc ≠ .fired ∧ s.last + s.timeout ≤ s.now ∧
    (step s .exit).last = s.now ∧ (step s .exit).pc ≠ .fired :=
  ⟨exec (start 4) [.tick 3, .enter, .tick 2], by decide⟩
-- idle_closes: both guards hold on a reachable state
example : (exec (start 4) [.tick 3, .enter, .tick 2, .exit, .tick 4]).blocker = 0 ∧
    (exec (start 4) [.tick 3, .enter, .tick 2, .exit, .tick 4]).last + (exec (start 4) [.tick 3, .enter, .tick 2, .exit, .tick 4]).timeout
      ≤ (exec (start 4) [.tick 3, .enter, .tick 2, .exit, .tick 4]).now := by decide
-- only the LAST exit restarts the idle period: with two hooks pending, one exit leaves the watchdog blocked past any deadline
example : (exec (start 4) [.enter, .enter, .tick 5, .exit, .tick 5]).pc ≠ .fired ∧
    (exec (start 4) [.enter, .enter, .tick 5, .exit, .tick 5]).blocker = 1 ∧
    (exec (start 4) [.enter, .enter, .tick 5, .exit, .tick 5, .exit]).pc ≠ .fired ∧
    (exec (start 4) [.enter, .enter, .tick 5, .exit, .tick 5, .exit, .tick 4]).pc = .fired := by decide
-- activity while a hook is pending does not re-arm the watchdog, and a tick of 0 never fires an open connection early
example : (exec (start 4) [.enter, .tick 9, .activity, .tick 9]).pc ≠ .fired ∧
    (exec (start 4) [.tick 3, .tick 0]).pc ≠ .fired := by decide

end MitmVerif.Props.C10
