/-
  C11 — intercepted flows are held until resumed, killed flows are never forwarded.
  Theorems about `Model/C11.lean`, for ALL schedules of message arrivals and hook completions (any number of
  messages, any verdicts), all protocol kinds, and all sequences of intercept/resume/kill/hook operations; and about
  their product (`prun`), in which a hook completion reaches the layer only after the hook task has returned from
  `wait_for_resume`: `intercepted_message_held` is the clause "while a flow is intercepted nothing of it is sent".
-/
import MitmVerif.Model.C11
namespace MitmVerif.Props.C11
open MitmVerif.C11

/-- the ids of the messages a layer still holds: the one whose hook is pending, then the queued ones -/
def held (s : L) : List Nat :=
  (match s.paused with | some m => [m.id] | none => []) ++ s.queue.map (·.id)

/-- `Layer` only queues while it is paused -/
def WF (s : L) : Prop := s.paused = none → s.queue = []

private theorem afterHook_cases (k : Kind) (s : L) (m : Msg) (v : Verdict) (o : Out) (ho : o ∈ afterHook k s m v) :
    o = .error m.id ∨ o = .send m.id v.content := by
  unfold afterHook at ho
  split at ho
  · simp at ho; exact Or.inl ho
  · split at ho
    · simp at ho
    · split at ho
      · simp at ho
      · simp at ho; exact Or.inr ho

private theorem wf_step (k : Kind) (s : L) (i : In) (h : WF s) : WF (step k s i).1 := by
  cases i with
  | arrive m =>
    simp only [step]
    cases hp : s.paused with
    | none => intro h'; simp at h'
    | some n => intro h'; simp at h'
  | complete v =>
    simp only [step]
    cases hp : s.paused with
    | none => simpa [hp] using h
    | some m =>
      cases hq : s.queue with
      | nil => intro _; rfl
      | cons n q => intro h'; simp at h'
  | close kl gn => simpa [step, WF] using h

/-- **held while intercepted** (step form): whatever the state and the input, a `send` is only ever emitted for the
    message whose hook was pending, in the very step that completes that hook, and with the content the verdict
    carries.  In particular nothing is sent for a message between the start of its hook and its completion, and
    nothing is sent for the messages queued behind it. -/
theorem held_while_intercepted (k : Kind) (s : L) (i : In) (id c : Nat) (h : Out.send id c ∈ (step k s i).2) :
    ∃ m v, s.paused = some m ∧ m.id = id ∧ i = .complete v ∧ c = v.content := by
  cases i with
  | arrive m =>
    simp only [step] at h
    split at h <;> simp at h
  | complete v =>
    simp only [step] at h
    split at h
    · simp at h
    · rename_i m hm
      have key : ∀ o, o ∈ afterHook k s m v → o = Out.send id c → m.id = id ∧ c = v.content := by
        intro o ho hoe
        rcases afterHook_cases k s m v o ho with h' | h'
        · rw [h'] at hoe; cases hoe
        · rw [h'] at hoe; injection hoe with h1 h2; exact ⟨h1, h2.symm⟩
      split at h
      · obtain ⟨h1, h2⟩ := key _ h rfl
        exact ⟨m, v, hm, h1, rfl, h2⟩
      · simp only [List.mem_append, List.mem_cons, List.mem_nil_iff, or_false] at h
        rcases h with h | h
        · obtain ⟨h1, h2⟩ := key _ h rfl
          exact ⟨m, v, hm, h1, rfl, h2⟩
        · cases h
  | close kl gn => simp [step] at h

/-- an arrival never changes which message is pending: the intercepted message stays held until its completion -/
theorem arrival_keeps_pending (k : Kind) (s : L) (m n : Msg) (h : s.paused = some m) :
    (step k s (.arrive n)).1.paused = some m ∧ (step k s (.arrive n)).2 = [] := by
  simp [step, h]

private theorem held_step (k : Kind) (s : L) (i : In) (hw : WF s) :
    held (step k s i).1 = match i with
      | .arrive m => held s ++ [m.id]
      | .complete _ => (held s).tail
      | .close _ _ => held s := by
  cases i with
  | arrive m =>
    simp only [step]
    cases hp : s.paused with
    | none => simp [held, hw hp, hp]
    | some n => simp [held, hp]
  | complete v =>
    simp only [step]
    cases hp : s.paused with
    | none => simp [held, hp, hw hp]
    | some m => cases hq : s.queue <;> simp [held, hp, hq]
  | close kl gn => simp [step, held]

private theorem held_head (s : L) (m : Msg) (h : s.paused = some m) : ∃ t, held s = m.id :: t := by
  simp [held, h]

/-- no message that is neither held nor still to arrive is ever sent; and a message still held at the end was
    never sent -/
private theorem run_sends (k : Kind) : ∀ (ins : List In) (s : L), WF s → (held s ++ arrivals ins).Nodup →
    (∀ id c, Out.send id c ∈ (run k s ins).2 → id ∈ held s ++ arrivals ins) ∧
    (∀ id, id ∈ held (run k s ins).1 → (id ∈ held s ++ arrivals ins) ∧ ∀ c, Out.send id c ∉ (run k s ins).2)
  | [], s, _, _ => by simp [run, arrivals]
  | i :: is, s, hw, hn => by
    have hw1 := wf_step k s i hw
    have hh := held_step k s i hw
    -- what is held after the step followed by the rest of the arrivals is a sub-list of before
    have hsub : ∀ x, x ∈ held (step k s i).1 ++ arrivals is → x ∈ held s ++ arrivals (i :: is) := by
      intro x hx
      cases i with
      | arrive m =>
        simp only [hh, arrivals, List.mem_append, List.mem_cons, List.mem_nil_iff, or_false] at hx ⊢
        rcases hx with (hx | hx) | hx
        · exact Or.inl hx
        · exact Or.inr (Or.inl hx)
        · exact Or.inr (Or.inr hx)
      | complete v =>
        simp only [hh, arrivals, List.mem_append] at hx ⊢
        rcases hx with hx | hx
        · exact Or.inl (List.mem_of_mem_tail hx)
        · exact Or.inr hx
      | close kl gn => simpa only [hh, arrivals] using hx
    have hn1 : (held (step k s i).1 ++ arrivals is).Nodup := by
      cases i with
      | arrive m =>
        simp only [hh, arrivals] at hn ⊢
        simpa [List.append_assoc] using hn
      | complete v =>
        simp only [hh, arrivals] at hn ⊢
        cases hhs : held s with
        | nil => simpa [hhs] using hn
        | cons a t =>
          rw [hhs] at hn
          simp only [List.tail_cons]
          simp only [List.cons_append, List.nodup_cons] at hn
          exact hn.2
      | close kl gn => simpa only [hh, arrivals] using hn
    obtain ⟨ih1, ih2⟩ := run_sends k is (step k s i).1 hw1 hn1
    simp only [run]
    constructor
    · intro id c hmem
      simp only [List.mem_append] at hmem
      rcases hmem with hmem | hmem
      · obtain ⟨m, v, hp, hid, _, _⟩ := held_while_intercepted k s i id c hmem
        obtain ⟨t, ht⟩ := held_head s m hp
        simp [ht, hid]
      · exact hsub _ (ih1 id c hmem)
    · intro id hid
      obtain ⟨hin, hns⟩ := ih2 id hid
      refine ⟨hsub _ hin, ?_⟩
      intro c hmem
      simp only [List.mem_append] at hmem
      rcases hmem with hmem | hmem
      · -- sent in this step: then it was the pending message, which is gone afterwards and never arrives again
        obtain ⟨m, v, hp, hmid, hi, _⟩ := held_while_intercepted k s i id c hmem
        subst hi
        obtain ⟨t, ht⟩ := held_head s m hp
        simp only [hh, ht, List.tail_cons, arrivals] at hin hn
        rw [hmid] at hn
        simp only [List.cons_append, List.nodup_cons] at hn
        exact hn.1 hin
      · exact hns c hmem

/-- **held while intercepted** (run form): in every schedule with distinct message ids, a message that is still held
    when the schedule ends (its hook is pending or it is queued behind a pending hook) has never been sent. -/
theorem held_never_sent (k : Kind) (ins : List In) (hn : (arrivals ins).Nodup) (id : Nat)
    (hh : id ∈ held (run k {} ins).1) (c : Nat) : Out.send id c ∉ (run k {} ins).2 := by
  have := (run_sends k ins {} (by intro _; rfl) (by simpa [held] using hn)).2 id hh
  exact this.2 c


-- ------------------------------------------------------------------------------------------------
-- resume forwards once

/-- **resume forwards once** (step form): completing the hook of a message that was not killed (or whose layer does
    not consult the kill) and not dropped forwards exactly that message, once, with the content it has at
    completion time (i.e. including the user's edits). -/
theorem resume_forwards_edited (k : Kind) (s : L) (m : Msg) (v : Verdict)
    (hk : (k.honoursKill && (v.killed || (k == .http && s.remoteKill))) = false) (hg : s.gone = false)
    (hd : (k == .ws && v.dropped) = false) :
    afterHook k s m v = [.send m.id v.content] := by
  simp only [afterHook, hk, hg, hd]; rfl

private theorem step_count (k : Kind) (s : L) (i : In) (id : Nat) :
    ((step k s i).2.filter (Out.isSendOf id)).length ≤ 1 := by
  cases i with
  | arrive m => simp only [step]; split <;> simp [Out.isSendOf]
  | complete v =>
    simp only [step]
    split
    · simp
    · split <;> (simp only [afterHook]; split <;> (try split) <;> (try split) <;> simp [Out.isSendOf, List.filter_cons] <;> (try split) <;> simp)
  | close kl gn => simp [step]

private theorem filter_eq_nil_of_not_mem (l : List Out) (id : Nat) (h : ∀ c, Out.send id c ∉ l) :
    l.filter (Out.isSendOf id) = [] := by
  rw [List.filter_eq_nil_iff]
  intro o ho
  cases o with
  | send i c =>
    simp only [Out.isSendOf, beq_iff_eq]
    intro hi; subst hi; exact h c ho
  | hook _ => simp [Out.isSendOf]
  | error _ => simp [Out.isSendOf]

private theorem run_count (k : Kind) : ∀ (ins : List In) (s : L), WF s → (held s ++ arrivals ins).Nodup →
    ∀ id, ((run k s ins).2.filter (Out.isSendOf id)).length ≤ 1
  | [], s, _, _, id => by simp [run]
  | i :: is, s, hw, hn, id => by
    have hw1 := wf_step k s i hw
    have hh := held_step k s i hw
    have hn1 : (held (step k s i).1 ++ arrivals is).Nodup := by
      cases i with
      | arrive m =>
        simp only [hh, arrivals] at hn ⊢
        simpa [List.append_assoc] using hn
      | complete v =>
        simp only [hh, arrivals] at hn ⊢
        cases hhs : held s with
        | nil => simpa [hhs] using hn
        | cons a t =>
          rw [hhs] at hn
          simp only [List.tail_cons]
          simp only [List.cons_append, List.nodup_cons] at hn
          exact hn.2
      | close kl gn => simpa only [hh, arrivals] using hn
    simp only [run, List.filter_append, List.length_append]
    by_cases hs : ∃ c, Out.send id c ∈ (step k s i).2
    · -- sent in this step: it was pending, it is gone afterwards, so it is never sent again
      obtain ⟨c, hc⟩ := hs
      obtain ⟨m, v, hp, hmid, hi, _⟩ := held_while_intercepted k s i id c hc
      subst hi
      obtain ⟨t, ht⟩ := held_head s m hp
      have hnot : id ∉ held (step k s (.complete v)).1 ++ arrivals is := by
        simp only [hh, ht, List.tail_cons, arrivals] at hn ⊢
        rw [hmid] at hn
        simp only [List.cons_append, List.nodup_cons] at hn
        exact hn.1
      have h2 : (run k (step k s (.complete v)).1 is).2.filter (Out.isSendOf id) = [] :=
        filter_eq_nil_of_not_mem _ _ (fun c' hc' => hnot ((run_sends k is _ hw1 hn1).1 id c' hc'))
      rw [h2]
      simpa using step_count k s (.complete v) id
    · have h1 : (step k s i).2.filter (Out.isSendOf id) = [] :=
        filter_eq_nil_of_not_mem _ _ (fun c hc => hs ⟨c, hc⟩)
      rw [h1]
      simpa using run_count k is _ hw1 hn1 id

/-- **resume forwards once** (run form): in every schedule with distinct message ids, every message is forwarded
    at most once. -/
theorem resume_forwards_once (k : Kind) (ins : List In) (hn : (arrivals ins).Nodup) (id : Nat) :
    ((run k {} ins).2.filter (Out.isSendOf id)).length ≤ 1 :=
  run_count k ins {} (by intro _; rfl) (by simpa [held] using hn) id

-- ------------------------------------------------------------------------------------------------
-- kill

/- The full statement — "killing the flow sends nothing further for it and ends it with an error" — for EVERY kind:
     ∀ k s m v ins, s.paused = some m → v.killed →
       (∀ c, send m.id c ∉ (run k s (.complete v :: ins)).2) ∧ error m.id ∈ (run k s (.complete v :: ins)).2
   holds for the layers whose send-after-hook step consults the kill (HTTP, DNS queries) and is FALSE for TCP, UDP,
   WebSocket and DNS answers in the current code (findings F-C11a–d): see the counterexample below. -/

/-- **kill forwards nothing and errors** for the layers that consult the kill: from ANY state in which the message's
    hook is pending, once the flow is killed and the hook completes, the message is never sent — not at completion,
    not later, whatever else arrives — and the flow ends with an error. -/
theorem kill_forwards_nothing_and_errors_partial (k : Kind) (hk : k.honoursKill = true) (s : L) (hw : WF s) (m : Msg)
    (hp : s.paused = some m) (v : Verdict) (hv : v.killed = true) (ins : List In)
    (hn : (held s ++ arrivals ins).Nodup) :
    (∀ c, Out.send m.id c ∉ (run k s (.complete v :: ins)).2) ∧ Out.error m.id ∈ (run k s (.complete v :: ins)).2 := by
  have hstep : ∀ o, o ∈ (step k s (.complete v)).2 → o = Out.error m.id ∨ ∃ n, o = Out.hook n := by
    intro o ho
    simp only [step, hp] at ho
    split at ho
    · simp [afterHook, hk, hv] at ho; exact Or.inl ho
    · simp [afterHook, hk, hv] at ho
      rcases ho with ho | ho
      · exact Or.inl ho
      · exact Or.inr ⟨_, ho⟩
  have herr : Out.error m.id ∈ (step k s (.complete v)).2 := by
    simp only [step, hp]
    split <;> simp [afterHook, hk, hv]
  obtain ⟨t, ht⟩ := held_head s m hp
  have hw1 := wf_step k s (.complete v) hw
  have hh := held_step k s (.complete v) hw
  have hn1 : (held (step k s (.complete v)).1 ++ arrivals ins).Nodup := by
    simp only [hh, ht, List.tail_cons]
    rw [ht] at hn
    simp only [List.cons_append, List.nodup_cons] at hn
    exact hn.2
  have hnot : m.id ∉ held (step k s (.complete v)).1 ++ arrivals ins := by
    simp only [hh, ht, List.tail_cons]
    rw [ht] at hn
    simp only [List.cons_append, List.nodup_cons] at hn
    exact hn.1
  simp only [run]
  constructor
  · intro c hc
    simp only [List.mem_append] at hc
    rcases hc with hc | hc
    · rcases hstep _ hc with h | ⟨n, h⟩ <;> cases h
    · exact hnot ((run_sends k ins _ hw1 hn1).1 _ c hc)
  · exact List.mem_append_left _ herr

/-- a close of the source that the layer treats as a kill (HTTP requests: `check_killed` finds the
    RequestProtocolError in the paused-event queue) marks the held message, and changes nothing else -/
theorem remote_close_marks_held (s : L) (hw : WF s) (m : Msg) (hp : s.paused = some m) (gone : Bool) :
    (step .http s (.close true gone)).1.paused = some m ∧ (step .http s (.close true gone)).1.remoteKill = true ∧
    WF (step .http s (.close true gone)).1 ∧ held (step .http s (.close true gone)).1 = held s ∧
    (step .http s (.close true gone)).2 = [] :=
  ⟨by simp [step, hp], by simp [step, hp], wf_step _ _ _ hw, held_step _ _ _ hw, by simp [step]⟩

/-- …and a message so marked is never forwarded: its flow ends with an error when the hook completes, whatever the
    user's verdict (resume, edit) was. -/
theorem remote_close_kills_held (s : L) (hw : WF s) (m : Msg) (hp : s.paused = some m) (hr : s.remoteKill = true)
    (v : Verdict) (ins : List In) (hn : (held s ++ arrivals ins).Nodup) :
    (∀ c, Out.send m.id c ∉ (run .http s (.complete v :: ins)).2) ∧ Out.error m.id ∈ (run .http s (.complete v :: ins)).2 := by
  have hstep : ∀ o, o ∈ (step .http s (.complete v)).2 → o = Out.error m.id ∨ ∃ n, o = Out.hook n := by
    intro o ho
    simp only [step, hp] at ho
    split at ho
    · simp [afterHook, Kind.honoursKill, hr] at ho; exact Or.inl ho
    · simp [afterHook, Kind.honoursKill, hr] at ho
      rcases ho with ho | ho
      · exact Or.inl ho
      · exact Or.inr ⟨_, ho⟩
  have herr : Out.error m.id ∈ (step .http s (.complete v)).2 := by
    simp only [step, hp]
    split <;> simp [afterHook, Kind.honoursKill, hr]
  obtain ⟨t, ht⟩ := held_head s m hp
  have hw1 := wf_step .http s (.complete v) hw
  have hh := held_step .http s (.complete v) hw
  have hn1 : (held (step .http s (.complete v)).1 ++ arrivals ins).Nodup := by
    simp only [hh, ht, List.tail_cons]
    rw [ht] at hn
    simp only [List.cons_append, List.nodup_cons] at hn
    exact hn.2
  have hnot : m.id ∉ held (step .http s (.complete v)).1 ++ arrivals ins := by
    simp only [hh, ht, List.tail_cons]
    rw [ht] at hn
    simp only [List.cons_append, List.nodup_cons] at hn
    exact hn.1
  simp only [run]
  constructor
  · intro c hc
    simp only [List.mem_append] at hc
    rcases hc with hc | hc
    · rcases hstep _ hc with h | ⟨n, h⟩ <;> cases h
    · exact hnot ((run_sends .http ins _ hw1 hn1).1 _ c hc)
  · exact List.mem_append_left _ herr

-- whole histories: the well-formedness and distinctness hypotheses derived from the history itself ------------

private theorem run_append (k : Kind) : ∀ (a b : List In) (s : L),
    run k s (a ++ b) = ((run k (run k s a).1 b).1, (run k s a).2 ++ (run k (run k s a).1 b).2)
  | [], b, s => by simp [run]
  | i :: a, b, s => by
    simp only [List.cons_append, run]
    rw [run_append k a b (step k s i).1]
    simp [List.append_assoc]

private theorem arrivals_append : ∀ (a b : List In), arrivals (a ++ b) = arrivals a ++ arrivals b
  | [], b => rfl
  | .arrive m :: a, b => by simp [arrivals, arrivals_append a b]
  | .complete _ :: a, b => by simp [arrivals, arrivals_append a b]
  | .close _ _ :: a, b => by simp [arrivals, arrivals_append a b]

/-- every reachable layer state is well-formed, and what it holds is distinct from what is still to arrive -/
private theorem run_wf (k : Kind) : ∀ (ins : List In) (s : L) (rest : List Nat), WF s →
    (held s ++ (arrivals ins ++ rest)).Nodup → WF (run k s ins).1 ∧ (held (run k s ins).1 ++ rest).Nodup
  | [], s, rest, hw, hn => by simpa [run, arrivals] using ⟨hw, hn⟩
  | i :: is, s, rest, hw, hn => by
    have hw1 := wf_step k s i hw
    have hh := held_step k s i hw
    have hn1 : (held (step k s i).1 ++ (arrivals is ++ rest)).Nodup := by
      cases i with
      | arrive m =>
        simp only [hh, arrivals] at hn ⊢
        simpa [List.append_assoc] using hn
      | complete v =>
        simp only [hh, arrivals] at hn ⊢
        cases hhs : held s with
        | nil => simpa [hhs] using hn
        | cons a t =>
          rw [hhs] at hn
          simp only [List.tail_cons]
          simp only [List.cons_append, List.nodup_cons] at hn
          exact hn.2
      | close kl gn => simpa only [hh, arrivals] using hn
    simpa [run] using run_wf k is (step k s i).1 rest hw1 hn1

/-- **kill forwards nothing and errors** — whole-history form, PARTIAL: only for the layers whose send-after-hook step
    consults the kill (HTTP, DNS queries; 2 of the 6 kinds — for the other four the clause is false, see `_iff` and
    `_counterexample`).  (Named `kill_forwards_nothing_and_errors` before round 6; renamed, statement unchanged.) in EVERY history from the initial state with distinct message ids, if the flow is killed
    while the hook of message `m` is pending, then `m` is never sent — not before (it was held), not when the hook
    completes, not afterwards, whatever else arrives — and the flow ends with an error.  No hypothesis on the state:
    well-formedness and distinctness of what is held are derived from the history. -/
theorem kill_forwards_nothing_and_errors_history_partial (k : Kind) (hk : k.honoursKill = true) (ins1 ins2 : List In) (m : Msg)
    (v : Verdict) (hv : v.killed = true) (hp : (run k {} ins1).1.paused = some m)
    (hn : (arrivals (ins1 ++ .complete v :: ins2)).Nodup) :
    (∀ c, Out.send m.id c ∉ (run k {} (ins1 ++ .complete v :: ins2)).2) ∧
    Out.error m.id ∈ (run k {} (ins1 ++ .complete v :: ins2)).2 := by
  have hn' : (held ({} : L) ++ (arrivals ins1 ++ arrivals ins2)).Nodup := by
    simpa [held, arrivals_append, arrivals] using hn
  obtain ⟨hw1, hn1⟩ := run_wf k ins1 {} (arrivals ins2) (by intro _; rfl) hn'
  obtain ⟨h1, h2⟩ := kill_forwards_nothing_and_errors_partial k hk (run k {} ins1).1 hw1 m hp v hv ins2 hn1
  rw [run_append]
  constructor
  · intro c hc
    simp only [List.mem_append] at hc
    rcases hc with hc | hc
    · -- before the completion the message was held, hence never sent
      have hheld : m.id ∈ held (run k {} ins1).1 := by
        obtain ⟨t, ht⟩ := held_head _ m hp; simp [ht]
      have hn0 : (held ({} : L) ++ arrivals ins1).Nodup := by
        have : (arrivals ins1 ++ arrivals ins2).Nodup := by simpa [held] using hn'
        simpa [held] using (List.nodup_append.1 this).1
      exact ((run_sends k ins1 {} (by intro _; rfl) hn0).2 m.id hheld).2 c hc
    · exact h1 c hc
  · exact List.mem_append_right _ h2

/-- **the kill clause at full strength, exactly where the code allows it**: a layer kind satisfies the whole-history
    kill statement if and only if its send-after-hook step consults the kill.  (HTTP and DNS queries do; TCP, UDP,
    WebSocket and DNS answers do not — findings F-C11a–d.) -/
theorem kill_forwards_nothing_and_errors_iff (k : Kind) :
    (∀ (ins1 ins2 : List In) (m : Msg) (v : Verdict), v.killed = true → (run k {} ins1).1.paused = some m →
        (arrivals (ins1 ++ .complete v :: ins2)).Nodup →
        (∀ c, Out.send m.id c ∉ (run k {} (ins1 ++ .complete v :: ins2)).2) ∧
          Out.error m.id ∈ (run k {} (ins1 ++ .complete v :: ins2)).2)
    ↔ k.honoursKill = true := by
  constructor
  · intro h
    cases hk : k.honoursKill
    · exfalso
      have := (h [.arrive ⟨1, 7⟩] [] ⟨1, 7⟩ ⟨true, false, 7⟩ rfl (by cases k <;> rfl) (by decide)).1 7
      cases k <;> simp [Kind.honoursKill] at hk <;> exact this (by decide)
    · rfl
  · intro hk ins1 ins2 m v hv hp hn
    exact kill_forwards_nothing_and_errors_history_partial k hk ins1 ins2 m v hv hp hn

/-- TCP, UDP, WebSocket messages and DNS answers are forwarded although the flow was killed while intercepted -/
theorem kill_forwards_nothing_and_errors_counterexample :
    ∀ k ∈ [Kind.tcp, Kind.udp, Kind.ws, Kind.dnsResp],
      Out.send 1 7 ∈ (run k {} [.arrive ⟨1, 7⟩, .complete ⟨true, false, 7⟩]).2 := by decide

-- ------------------------------------------------------------------------------------------------
-- siblings

private theorem get_set_same (p : P) (key : Nat) (l : L) : (p.set key l).get key = l := by
  simp [P.get, P.set]

private theorem find_filter (key key' : Nat) (h : key' ≠ key) (l : List (Nat × L)) :
    List.find? (fun x => x.1 == key') (List.filter (fun x => x.1 != key) l) = List.find? (fun x => x.1 == key') l := by
  induction l with
  | nil => rfl
  | cons a t ih =>
    by_cases ha : a.1 = key
    · have h1 : (a.1 != key) = false := by simp [ha]
      have h2 : (a.1 == key') = false := by simp [ha, Ne.symm h]
      rw [List.filter_cons_of_neg (by simp [h1]), List.find?_cons_of_neg (by simp [h2])]
      exact ih
    · have h1 : (a.1 != key) = true := by simp [ha]
      rw [List.filter_cons_of_pos (p := fun x : Nat × L => x.1 != key) h1]
      by_cases hb : a.1 = key'
      · have h2 : (a.1 == key') = true := by simp [hb]
        rw [List.find?_cons_of_pos (by exact h2), List.find?_cons_of_pos (by exact h2)]
      · have h2 : (a.1 == key') = false := by simp [hb]
        rw [List.find?_cons_of_neg (by simp [h2]), List.find?_cons_of_neg (by simp [h2])]
        exact ih

private theorem get_set_other (p : P) (key key' : Nat) (l : L) (h : key' ≠ key) : (p.set key l).get key' = p.get key' := by
  simp only [P.get, P.set]
  rw [List.find?_cons_of_neg (by simp [Ne.symm h]), find_filter key key' h]

/-- **siblings progress**: an event for one child is handled by that child alone — its outputs are exactly the
    child's own, and every other child (in particular one that is paused on an intercepted message) is untouched. -/
theorem siblings_progress (k : Kind) (p : P) (j : Nat) (i : In) :
    (stepP k p j i).2 = (step k (p.get j) i).2 ∧
    ((stepP k p j i).1.get j = (step k (p.get j) i).1) ∧
    ∀ j', j' ≠ j → (stepP k p j i).1.get j' = p.get j' :=
  ⟨rfl, get_set_same _ _ _, fun j' h => get_set_other _ _ _ _ h⟩

/-- …hence while child `i` holds an intercepted message, an idle sibling `j` does a complete exchange: its hook
    fires at once, its message is forwarded when its own hook completes, and `i` is still holding its message. -/
theorem sibling_exchange_while_held (k : Kind) (p : P) (i j : Nat) (hij : i ≠ j) (m n : Msg) (v : Verdict)
    (hi : (p.get i).paused = some m) (hj : p.get j = {}) :
    (runP k p [(j, .arrive n), (j, .complete v)]).2 = [.hook n.id] ++ afterHook k {} n v ∧
    ((runP k p [(j, .arrive n), (j, .complete v)]).1.get i).paused = some m := by
  have s1 := siblings_progress k p j (.arrive n)
  have s2 := siblings_progress k (stepP k p j (.arrive n)).1 j (.complete v)
  simp only [runP, List.append_nil]
  refine ⟨?_, ?_⟩
  · rw [s1.1, s2.1, s1.2.1, hj]; simp [step, afterHook]
  · rw [s2.2.2 i hij, s1.2.2 i hij]; exact hi

-- ------------------------------------------------------------------------------------------------
-- Flow.intercept / resume / kill / wait_for_resume

/-- the state of the flow explains every blocked hook: a hook task waits only while the flow is intercepted and its
    resume event exists and is not set; and an intercepted flow never has its event set -/
def J (a : A) : Prop :=
  (a.f.intercepted = true → a.f.event ≠ some true) ∧
  (∀ t ∈ a.tasks, t = Task.waiting → a.f.intercepted = true ∧ a.f.event = some false)

private theorem J_init : J {} := by simp [J]

private theorem J_step (a : A) (op : Op) (h : J a) : J (stepA a op) := by
  obtain ⟨h1, h2⟩ := h
  cases op with
  | hook ai =>
    cases ai <;> cases hi : a.f.intercepted <;> cases he : a.f.event <;>
      simp_all [stepA, F.wait, F.intercept, J] <;> (try (rename_i b; cases b <;> simp_all)) <;> grind
  | intercept =>
    cases hi : a.f.intercepted <;> cases he : a.f.event <;> simp_all [stepA, F.intercept, J] <;> grind
  | resume =>
    cases hi : a.f.intercepted <;> cases he : a.f.event <;> simp_all [stepA, F.resume, wake, J] <;> grind
  | kill =>
    cases hk : a.f.killable <;> cases he : a.f.event <;> simp_all [stepA, F.kill, wake, J] <;> grind

/-- **a hook only blocks while the flow is intercepted**: after any sequence of operations -/
theorem waiting_only_while_intercepted (ops : List Op) : J (runA {} ops) := by
  unfold runA
  suffices h : ∀ a, J a → J (ops.foldl stepA a) from h _ J_init
  induction ops with
  | nil => intro a h; exact h
  | cons o os ih => intro a h; exact ih _ (J_step a o h)

/-- **an intercepted flow holds its hook**: a hook task started for a flow that the addon intercepts does not complete -/
theorem intercepted_hook_waits (ops : List Op) :
    (runA {} (ops ++ [.hook true])).tasks.getLast? = some Task.waiting := by
  have hJ := waiting_only_while_intercepted ops
  simp only [runA, List.foldl_append, List.foldl_cons, List.foldl_nil] at hJ ⊢
  obtain ⟨h1, _⟩ := hJ
  generalize ops.foldl stepA {} = a at h1 ⊢
  cases hi : a.f.intercepted <;> cases he : a.f.event <;> simp_all [stepA, F.wait, F.intercept] <;>
    (try (rename_i b; cases b <;> simp_all))

/-- **resume and kill release every pending hook** (kill: whenever the flow is killable) -/
theorem resume_or_kill_releases (ops : List Op) :
    (∀ t ∈ (runA {} (ops ++ [.resume])).tasks, t = Task.done) ∧
    ((runA {} ops).f.killable = true → ∀ t ∈ (runA {} (ops ++ [.kill])).tasks, t = Task.done) := by
  have hJ := waiting_only_while_intercepted ops
  simp only [runA, List.foldl_append, List.foldl_cons, List.foldl_nil] at hJ ⊢
  obtain ⟨h1, h2⟩ := hJ
  generalize ops.foldl stepA {} = a at h1 h2 ⊢
  constructor
  · intro t ht
    cases t with
    | done => rfl
    | waiting =>
      exfalso
      cases hi : a.f.intercepted with
      | false =>
        have hev : a.f.event ≠ some true ∨ a.f.event = some true := by
          cases a.f.event <;> simp
        simp only [stepA, F.resume, hi, Bool.not_false, ↓reduceIte, wake] at ht
        split at ht
        · simp at ht
        · have := (h2 _ ht rfl).1; rw [hi] at this; cases this
      | true =>
        cases he : a.f.event with
        | none =>
          simp [stepA, F.resume, hi, he, wake] at ht
          have := (h2 _ ht rfl).2; rw [he] at this; cases this
        | some b => simp [stepA, F.resume, hi, he, wake] at ht
  · intro hk t ht
    cases t with
    | done => rfl
    | waiting =>
      exfalso
      cases he : a.f.event with
      | none =>
        simp [stepA, hk, F.kill, he, wake] at ht
        have := (h2 _ ht rfl).2; rw [he] at this; cases this
      | some b => simp [stepA, hk, F.kill, he, wake] at ht

-- ------------------------------------------------------------------------------------------------
-- the product L × A: `complete` only when the hook task is done

/-- the layer component of a product step is a layer step on the input `lin` lets through (or no step) -/
theorem pstep_layer (k : Kind) (pol : Nat → Bool) (s : S) (i : PIn) :
    ((pstep k pol s i).1.l, (pstep k pol s i).2) =
      (match lin s i with | none => (s.l, []) | some x => step k s.l x) := by
  unfold pstep
  cases hl : lin s i with
  | none => cases i <;> simp_all [userStep, lin]
  | some x =>
    simp only
    cases newHook s.l x <;> simp [startHook]

private theorem parrivals_cons (i : PIn) (is : List PIn) :
    parrivals (i :: is) = (match i with | .arrive m => [m.id] | _ => []) ++ parrivals is := by
  cases i <;> simp [parrivals]

/-- **the product refines the layer model**: the layer component and the outputs of every product run are those of a
    layer run over the inputs the product let through — same arrivals, and a `complete` only where `deliver` was
    enabled.  Hence every theorem about `run` holds of product runs. -/
theorem prun_refines_run (k : Kind) (pol : Nat → Bool) : ∀ (ins : List PIn) (s : S),
    ∃ ins' : List In, arrivals ins' = parrivals ins ∧
      run k s.l ins' = ((prun k pol s ins).1.l, (prun k pol s ins).2) := by
  intro ins
  induction ins with
  | nil => intro s; exact ⟨[], rfl, rfl⟩
  | cons i is ih =>
    intro s
    obtain ⟨ins', ha, hr⟩ := ih (pstep k pol s i).1
    have hp := pstep_layer k pol s i
    cases hl : lin s i with
    | none =>
      rw [hl] at hp
      simp only [Prod.mk.injEq] at hp
      refine ⟨ins', ?_, ?_⟩
      · rw [ha, parrivals_cons]
        cases i <;> simp_all [lin]
      · simp only [prun]
        rw [← hp.1, hr, hp.2]; rfl
    | some x =>
      rw [hl] at hp
      simp only at hp
      refine ⟨x :: ins', ?_, ?_⟩
      · rw [parrivals_cons]
        cases i <;> simp only [lin] at hl
        · cases hl; simp [arrivals, ha]
        · split at hl
          · cases hl; simp [arrivals, ha]
          · cases hl
        · cases hl; simp [arrivals, ha]
        all_goals cases hl
      · simp only [run, prun]
        have h1 : (step k s.l x).1 = (pstep k pol s i).1.l := by rw [← hp]
        have h2 : (step k s.l x).2 = (pstep k pol s i).2 := by rw [← hp]
        rw [h1, hr, h2]


/-- the flow component of a product step is at most one flow operation (a hook start or a user action) -/
theorem pstep_flow (k : Kind) (pol : Nat → Bool) (s : S) (i : PIn) :
    (pstep k pol s i).1.a = s.a ∨ ∃ op, (pstep k pol s i).1.a = stepA s.a op := by
  unfold pstep
  cases hl : lin s i with
  | none => cases i <;> simp [userStep] <;> exact Or.inr ⟨_, rfl⟩
  | some x =>
    simp only
    cases newHook s.l x with
    | none => exact Or.inl rfl
    | some n => exact Or.inr ⟨.hook (pol n.id), rfl⟩

/-- **the product refines the flow model**: the flow component of every product run is reached by a sequence of
    `Flow` operations.  Hence every theorem about `runA` holds of product runs. -/
theorem prun_refines_runA (k : Kind) (pol : Nat → Bool) : ∀ (ins : List PIn) (s : S),
    ∃ ops : List Op, (prun k pol s ins).1.a = runA s.a ops := by
  intro ins
  induction ins with
  | nil => intro s; exact ⟨[], rfl⟩
  | cons i is ih =>
    intro s
    obtain ⟨ops, h⟩ := ih (pstep k pol s i).1
    simp only [prun]
    rcases pstep_flow k pol s i with he | ⟨op, he⟩
    · exact ⟨ops, by rw [h, he]⟩
    · exact ⟨op :: ops, by rw [h, he]; rfl⟩

/-- every reachable product state: the flow explains every blocked hook (`J`) -/
theorem prun_J (k : Kind) (pol : Nat → Bool) (ins : List PIn) : J (prun k pol {} ins).1.a := by
  obtain ⟨ops, h⟩ := prun_refines_runA k pol ins {}
  rw [h]; exact waiting_only_while_intercepted ops


/-- **nothing is sent unless the hook task has completed** (step form of the composition): in every product state
    and for every input, a `send` is emitted only by a `deliver` that was ENABLED — the hook task of the pending message
    had returned from `wait_for_resume` — for exactly that message, with the content the flow object holds then. -/
theorem send_requires_released_hook (k : Kind) (pol : Nat → Bool) (s : S) (i : PIn) (id c : Nat)
    (h : Out.send id c ∈ (pstep k pol s i).2) :
    i = .deliver ∧ s.a.tasks.getLast? = some Task.done ∧ (∃ m, s.l.paused = some m ∧ m.id = id) ∧ c = s.cur := by
  have hp := pstep_layer k pol s i
  cases hl : lin s i with
  | none =>
    rw [hl] at hp; simp only [Prod.mk.injEq] at hp
    rw [hp.2] at h; cases h
  | some x =>
    rw [hl] at hp; simp only at hp
    have h2 : (step k s.l x).2 = (pstep k pol s i).2 := by rw [← hp]
    rw [← h2] at h
    obtain ⟨m, v, hm, hid, hx, hc⟩ := held_while_intercepted k s.l x id c h
    subst hx
    cases i <;> simp only [lin] at hl
    · cases hl
    · split at hl
      · rename_i hc'
        cases hl
        simp only [Bool.and_eq_true, beq_iff_eq] at hc'
        exact ⟨rfl, hc'.2, ⟨m, hm, hid⟩, hc⟩
      · cases hl
    all_goals cases hl

/-- a hook task that starts while the addon intercepts the flow, or while the flow is intercepted already, blocks -/
theorem intercepting_hook_blocks (a : A) (hJ : J a) (ai : Bool) (h : ai = true ∨ a.f.intercepted = true) :
    (stepA a (.hook ai)).tasks.getLast? = some Task.waiting ∧ (stepA a (.hook ai)).f.intercepted = true := by
  obtain ⟨h1, _⟩ := hJ
  cases ai <;> cases hi : a.f.intercepted <;> cases he : a.f.event <;> simp_all [stepA, F.wait, F.intercept] <;>
    (try (rename_i b; cases b <;> simp_all))

/-- while the pending hook's task is blocked, every input except `resume`/`kill` leaves the message pending, the task
    blocked, and emits nothing at all -/
theorem blocked_step (k : Kind) (pol : Nat → Bool) (s : S) (m : Msg) (hp : s.l.paused = some m)
    (hw : s.a.tasks.getLast? = some Task.waiting) (i : PIn) (hr : i ≠ .resume) (hk : i ≠ .kill) :
    (pstep k pol s i).1.l.paused = some m ∧ (pstep k pol s i).1.a.tasks.getLast? = some Task.waiting ∧
    (pstep k pol s i).2 = [] := by
  cases i with
  | resume => exact absurd rfl hr
  | kill => exact absurd rfl hk
  | arrive n => simp [pstep, lin, newHook, step, hp, hw]
  | deliver => simp [pstep, lin, hw, userStep, hp]
  | close kl gn => simp [pstep, lin, newHook, step, hp, hw]
  | intercept => simp [pstep, lin, userStep, hp, stepA, hw]
  | edit c => simp [pstep, lin, userStep, hp, hw]
  | drop => simp [pstep, lin, userStep, hp, hw]


private theorem prun_append (k : Kind) (pol : Nat → Bool) : ∀ (a b : List PIn) (s : S),
    prun k pol s (a ++ b) = ((prun k pol (prun k pol s a).1 b).1, (prun k pol s a).2 ++ (prun k pol (prun k pol s a).1 b).2)
  | [], b, s => by simp [prun]
  | i :: a, b, s => by
    simp only [List.cons_append, prun]
    rw [prun_append k pol a b]
    simp [List.append_assoc]

private theorem blocked_run (k : Kind) (pol : Nat → Bool) (m : Msg) : ∀ (ins : List PIn) (s : S),
    s.l.paused = some m → s.a.tasks.getLast? = some Task.waiting → (∀ i ∈ ins, i ≠ .resume ∧ i ≠ .kill) →
    (prun k pol s ins).1.l.paused = some m ∧ (prun k pol s ins).1.a.tasks.getLast? = some Task.waiting ∧
    (prun k pol s ins).2 = [] := by
  intro ins
  induction ins with
  | nil => intro s hp hw _; exact ⟨hp, hw, rfl⟩
  | cons i is ih =>
    intro s hp hw hu
    obtain ⟨a, b, c⟩ := blocked_step k pol s m hp hw i (hu i (by simp)).1 (hu i (by simp)).2
    obtain ⟨a', b', c'⟩ := ih _ a b (fun j hj => hu j (by simp [hj]))
    simp only [prun]
    exact ⟨a', b', by rw [c, c']; rfl⟩

/-- **While a flow is intercepted, nothing of the intercepted message is sent** — over histories of the composed
    system.  Take ANY history `ins1` (arrivals with distinct ids, deliveries, closes, user actions, edits) after which
    message `m`'s hook is pending and its hook task is blocked in `wait_for_resume`, and continue with ANY inputs `ins2`
    that contain no `resume` and no `kill` (more arrivals, delivery attempts, closes, edits, further `intercept`s): then
    `m` is still pending, its task still blocked, the flow is (still) intercepted, `m` has never been sent — neither
    during `ins1` nor during `ins2` — and `ins2` produced no output whatsoever for this flow's layer. -/
theorem intercepted_message_held (k : Kind) (pol : Nat → Bool) (ins1 ins2 : List PIn) (m : Msg)
    (hn : (parrivals ins1).Nodup)
    (hp : (prun k pol {} ins1).1.l.paused = some m)
    (hw : (prun k pol {} ins1).1.a.tasks.getLast? = some Task.waiting)
    (hu : ∀ i ∈ ins2, i ≠ .resume ∧ i ≠ .kill) :
    (prun k pol {} (ins1 ++ ins2)).1.l.paused = some m ∧
    (prun k pol {} (ins1 ++ ins2)).1.a.tasks.getLast? = some Task.waiting ∧
    (prun k pol {} (ins1 ++ ins2)).1.a.f.intercepted = true ∧
    (∀ c, Out.send m.id c ∉ (prun k pol {} (ins1 ++ ins2)).2) ∧
    (prun k pol {} (ins1 ++ ins2)).2 = (prun k pol {} ins1).2 := by
  obtain ⟨a, b, c⟩ := blocked_run k pol m ins2 _ hp hw hu
  have hJ := prun_J k pol (ins1 ++ ins2)
  rw [prun_append] at hJ ⊢
  simp only [c, List.append_nil]
  refine ⟨a, b, ?_, ?_, trivial⟩
  · have hmem : Task.waiting ∈ (prun k pol (prun k pol {} ins1).1 ins2).1.a.tasks :=
      List.mem_of_getLast? b
    exact (hJ.2 _ hmem rfl).1
  · intro cc hc
    obtain ⟨ins', ha, hr⟩ := prun_refines_run k pol ins1 {}
    have hr1 : (run k {} ins').1 = (prun k pol {} ins1).1.l := by rw [hr]
    have hr2 : (run k {} ins').2 = (prun k pol {} ins1).2 := by rw [hr]
    have hheld : m.id ∈ held (run k {} ins').1 := by rw [hr1]; simp [held, hp]
    exact held_never_sent k ins' (by rw [ha]; exact hn) m.id hheld cc (by rw [hr2]; exact hc)

/-- the same in the shape "intercepted at the end ⇒ never sent": after ANY history with distinct message ids, if a
    message's hook is pending and its task blocked, then the flow is intercepted and the message has not been sent -/
theorem intercepted_at_end_not_sent (k : Kind) (pol : Nat → Bool) (ins : List PIn) (m : Msg)
    (hn : (parrivals ins).Nodup) (hp : (prun k pol {} ins).1.l.paused = some m)
    (hw : (prun k pol {} ins).1.a.tasks.getLast? = some Task.waiting) :
    (prun k pol {} ins).1.a.f.intercepted = true ∧ ∀ c, Out.send m.id c ∉ (prun k pol {} ins).2 := by
  have h := intercepted_message_held k pol ins [] m hn hp hw (by simp)
  simp only [List.append_nil] at h
  exact ⟨h.2.2.1, h.2.2.2.1⟩


private theorem newHook_paused (k : Kind) (l : L) (x : In) (n : Msg) (h : newHook l x = some n) :
    (step k l x).1.paused = some n ∧ Out.hook n.id ∈ (step k l x).2 := by
  cases x with
  | arrive m =>
    cases hp : l.paused <;> simp [newHook, hp] at h
    subst h; simp [step, hp]
  | complete v =>
    cases hp : l.paused with
    | none => simp [newHook, hp] at h
    | some m =>
      cases hq : l.queue with
      | nil => simp [newHook, hp, hq] at h
      | cons a q =>
        simp [newHook, hp, hq] at h
        subst h; simp [step, hp, hq]
  | close a b => simp [newHook] at h

/-- **an intercepted message is held**: in every reachable state of the composed system, whenever the hook of a message
    `n` fires (on arrival, or when the previous hook's completion releases it from the queue) while the Intercept addon
    intercepts it or the flow is already intercepted, then after that step `n` is the pending message, its hook task is
    blocked and the flow is intercepted — the premise of `intercepted_message_held`. -/
theorem intercepted_hook_is_held (k : Kind) (pol : Nat → Bool) (ins : List PIn) (i : PIn) (x : In) (n : Msg)
    (hx : lin (prun k pol {} ins).1 i = some x) (hh : newHook (prun k pol {} ins).1.l x = some n)
    (hi : pol n.id = true ∨ (prun k pol {} ins).1.a.f.intercepted = true) :
    (pstep k pol (prun k pol {} ins).1 i).1.l.paused = some n ∧
    (pstep k pol (prun k pol {} ins).1 i).1.a.tasks.getLast? = some Task.waiting ∧
    (pstep k pol (prun k pol {} ins).1 i).1.a.f.intercepted = true ∧
    Out.hook n.id ∈ (pstep k pol (prun k pol {} ins).1 i).2 := by
  have hJ := prun_J k pol ins
  generalize (prun k pol {} ins).1 = s at *
  obtain ⟨b1, b2⟩ := intercepting_hook_blocks s.a hJ (pol n.id) hi
  obtain ⟨c1, c2⟩ := newHook_paused k s.l x n hh
  simp only [pstep, hx, hh, startHook]
  exact ⟨c1, b1, b2, c2⟩

/-- the readable special case: a message arriving at an idle layer while the flow is (or gets) intercepted -/
theorem intercepted_arrival_is_held (k : Kind) (pol : Nat → Bool) (ins : List PIn) (m : Msg)
    (hp : (prun k pol {} ins).1.l.paused = none)
    (hi : pol m.id = true ∨ (prun k pol {} ins).1.a.f.intercepted = true) :
    (prun k pol {} (ins ++ [.arrive m])).1.l.paused = some m ∧
    (prun k pol {} (ins ++ [.arrive m])).1.a.tasks.getLast? = some Task.waiting ∧
    (prun k pol {} (ins ++ [.arrive m])).1.a.f.intercepted = true := by
  have h := intercepted_hook_is_held k pol ins (.arrive m) (.arrive m) m rfl (by simp [newHook, hp]) hi
  rw [prun_append]
  simp only [prun]
  exact ⟨h.1, h.2.1, h.2.2.1⟩

private theorem stepA_tasks_ne (a : A) (op : Op) (h : a.tasks ≠ []) : (stepA a op).tasks ≠ [] := by
  cases op with
  | hook ai => simp [stepA]
  | intercept => simpa [stepA] using h
  | resume => simp only [stepA, wake]; split <;> simpa using h
  | kill =>
    simp only [stepA]
    split
    · simp only [wake]; split <;> simpa using h
    · exact h

private theorem tasks_step (k : Kind) (pol : Nat → Bool) (s : S) (i : PIn)
    (h : s.l.paused.isSome = true → s.a.tasks ≠ []) :
    (pstep k pol s i).1.l.paused.isSome = true → (pstep k pol s i).1.a.tasks ≠ [] := by
  unfold pstep
  cases hl : lin s i with
  | none =>
    cases i <;> simp only [userStep] <;> intro hp <;> first | exact h hp | exact stepA_tasks_ne _ _ (h hp)
  | some x =>
    simp only
    cases hh : newHook s.l x with
    | some n => intro _; simp [startHook, stepA]
    | none =>
      simp only
      intro hp
      apply h
      cases x with
      | arrive m =>
        cases hq : s.l.paused with
        | none => simp [newHook, hq] at hh
        | some _ => rfl
      | complete v =>
        cases hq : s.l.paused with
        | none => simp [step, hq] at hp
        | some m =>
          cases hq2 : s.l.queue with
          | nil => simp [step, hq, hq2] at hp
          | cons a q => simp [newHook, hq, hq2] at hh
      | close a b => simpa [step] using hp

/-- in every reachable state a pending hook has a task -/
theorem prun_tasks (k : Kind) (pol : Nat → Bool) : ∀ (ins : List PIn) (s : S),
    (s.l.paused.isSome = true → s.a.tasks ≠ []) →
    (prun k pol s ins).1.l.paused.isSome = true → (prun k pol s ins).1.a.tasks ≠ [] := by
  intro ins
  induction ins with
  | nil => intro s h; exact h
  | cons i is ih => intro s h; simp only [prun]; exact ih _ (tasks_step k pol s i h)

private theorem getLast_done (ts : List Task) (hne : ts ≠ []) (h : ∀ t ∈ ts, t = Task.done) :
    ts.getLast? = some Task.done := by
  cases hl : ts.getLast? with
  | none => simp [List.getLast?_eq_none_iff] at hl; exact absurd hl hne
  | some t => rw [h t (List.mem_of_getLast? hl)]

/-- **resume and kill enable exactly the delivery of the pending hook's completion.**  In every reachable state with a
    message `m` pending (blocked or not): after `resume`, `deliver` is enabled and hands the layer the completion with
    the verdict read off the flow and the message NOW — not killed unless the flow has an error, the content the flow
    object holds (the user's edits), the drop flag; after `kill` (flow killable) the same with `killed = true`.  What
    the layer then does is `step … (.complete v)`: `resume_forwards_edited`, `kill_forwards_nothing_and_errors_partial`. -/
theorem resume_or_kill_enables_delivery (k : Kind) (pol : Nat → Bool) (ins : List PIn) (m : Msg)
    (hp : (prun k pol {} ins).1.l.paused = some m) :
    let s := (prun k pol {} ins).1
    (lin (pstep k pol s .resume).1 .deliver = some (.complete ⟨s.a.f.error, s.dropped, s.cur⟩) ∧
      (pstep k pol (pstep k pol s .resume).1 .deliver).2 = (step k s.l (.complete ⟨s.a.f.error, s.dropped, s.cur⟩)).2) ∧
    (s.a.f.killable = true →
      lin (pstep k pol s .kill).1 .deliver = some (.complete ⟨true, s.dropped, s.cur⟩) ∧
      (pstep k pol (pstep k pol s .kill).1 .deliver).2 = (step k s.l (.complete ⟨true, s.dropped, s.cur⟩)).2) := by
  intro s
  obtain ⟨ops, ho⟩ := prun_refines_runA k pol ins {}
  have hne : s.a.tasks ≠ [] := prun_tasks k pol ins {} (by simp) (by simp [hp])
  have hrel := resume_or_kill_releases ops
  have hs : s.a = runA {} ops := ho
  have hp' : s.l.paused = some m := hp
  have e1 : (pstep k pol s .resume).1 = { s with a := stepA s.a .resume } := by simp [pstep, lin, userStep]
  have e2 : (pstep k pol s .kill).1 = { s with a := stepA s.a .kill } := by simp [pstep, lin, userStep]
  have r1 : stepA s.a .resume = runA {} (ops ++ [.resume]) := by
    rw [hs]; simp [runA, List.foldl_append]
  have r2 : stepA s.a .kill = runA {} (ops ++ [.kill]) := by
    rw [hs]; simp [runA, List.foldl_append]
  constructor
  · have hd : (stepA s.a .resume).tasks.getLast? = some Task.done :=
      getLast_done _ (stepA_tasks_ne _ _ hne) (by rw [r1]; exact hrel.1)
    have hf : (stepA s.a .resume).f.error = s.a.f.error := by
      simp only [stepA, F.resume]; split <;> rfl
    have hl : lin { s with a := stepA s.a .resume } .deliver = some (.complete ⟨s.a.f.error, s.dropped, s.cur⟩) := by
      simp [lin, hp', hd, hf]
    rw [e1]
    refine ⟨hl, ?_⟩
    have := pstep_layer k pol { s with a := stepA s.a .resume } .deliver
    rw [hl] at this
    simp only at this
    rw [← this]
  · intro hk
    have hd : (stepA s.a .kill).tasks.getLast? = some Task.done :=
      getLast_done _ (stepA_tasks_ne _ _ hne) (by rw [r2]; exact hrel.2 (by rw [← hs]; exact hk))
    have hf : (stepA s.a .kill).f.error = true := by
      simp [stepA, hk, F.kill]
    have hl : lin { s with a := stepA s.a .kill } .deliver = some (.complete ⟨true, s.dropped, s.cur⟩) := by
      simp [lin, hp', hd, hf]
    rw [e2]
    refine ⟨hl, ?_⟩
    have := pstep_layer k pol { s with a := stepA s.a .kill } .deliver
    rw [hl] at this
    simp only at this
    rw [← this]

/-- **resume forwards the held message once** in the composed system: every message is forwarded at most once in
    every history with distinct ids (lifted from `resume_forwards_once` through `prun_refines_run`) -/
theorem product_forwards_once (k : Kind) (pol : Nat → Bool) (ins : List PIn) (hn : (parrivals ins).Nodup) (id : Nat) :
    ((prun k pol {} ins).2.filter (Out.isSendOf id)).length ≤ 1 := by
  obtain ⟨ins', ha, hr⟩ := prun_refines_run k pol ins {}
  have hr2 : (run k {} ins').2 = (prun k pol {} ins).2 := by rw [hr]
  rw [← hr2]
  exact resume_forwards_once k ins' (by rw [ha]; exact hn) id

-- non-vacuity / the model is not constant ---------------------------------------------------------
example : (run .http {} [.arrive ⟨1, 5⟩, .arrive ⟨2, 6⟩, .complete ⟨false, false, 9⟩]).2
    = [.hook 1, .send 1 9, .hook 2] := by decide
example : (run .http {} [.arrive ⟨1, 5⟩, .complete ⟨true, false, 5⟩]).2 = [.hook 1, .error 1] := by decide
example : (runA {} [.hook true, .hook false]).tasks = [.waiting, .waiting] := by decide
example : (runA {} [.hook true, .kill]).tasks = [.done] := by decide

end MitmVerif.Props.C11

-- ------------------------------------------------------------------------------------------------
-- audit round 6 (added by the C01/C02 builder): the hypotheses of the theorems above instantiated on concrete,
-- reachable states
namespace MitmVerif.Props.C11
open MitmVerif.C11

/-- `held_never_sent` / `resume_forwards_once`: distinct ids, message 1 forwarded exactly once (edited), 2 pending and 3
    queued at the end -/
private def exHeld : List In := [.arrive ⟨1, 5⟩, .arrive ⟨2, 6⟩, .complete ⟨false, false, 9⟩, .arrive ⟨3, 7⟩]

example : (arrivals exHeld).Nodup ∧ held (run .http {} exHeld).1 = [2, 3] ∧
    (run .http {} exHeld).2 = [.hook 1, .send 1 9, .hook 2] ∧
    ((run .http {} exHeld).2.filter (Out.isSendOf 1)).length = 1 ∧
    ((run .http {} exHeld).2.filter (Out.isSendOf 2)).length = 0 := by decide

/-- `resume_forwards_edited`: its three hypotheses hold in the state reached by one arrival, for a WebSocket message
    that was neither killed-and-honoured nor dropped (and for an HTTP message with no remote close) -/
example : (run .ws {} [.arrive ⟨1, 5⟩]).1.paused = some ⟨1, 5⟩ ∧
    (Kind.ws.honoursKill && (true || (Kind.ws == .http && (run .ws {} [.arrive ⟨1, 5⟩]).1.remoteKill))) = false ∧
    (run .ws {} [.arrive ⟨1, 5⟩]).1.gone = false ∧ (Kind.ws == .ws && false) = false ∧
    afterHook .ws (run .ws {} [.arrive ⟨1, 5⟩]).1 ⟨1, 5⟩ ⟨true, false, 9⟩ = [.send 1 9] := by decide
example : (Kind.http.honoursKill && (false || (Kind.http == .http && (run .http {} [.arrive ⟨1, 5⟩]).1.remoteKill))) = false ∧
    (run .http {} [.arrive ⟨1, 5⟩]).1.gone = false ∧
    afterHook .http (run .http {} [.arrive ⟨1, 5⟩]).1 ⟨1, 5⟩ ⟨false, false, 9⟩ = [.send 1 9] := by decide
/-- …and each hypothesis is needed: dropped WebSocket message, UDP association gone -/
example : afterHook .ws {} ⟨1, 5⟩ ⟨false, true, 5⟩ = [] ∧
    (run .udp {} [.arrive ⟨1, 5⟩, .close false true, .complete ⟨false, false, 5⟩]).2 = [.hook 1] := by decide

/-- `kill_forwards_nothing_and_errors_partial`: a reachable state (1 pending, 2 queued) satisfying WF / paused / Nodup -/
example : Kind.dnsReq.honoursKill = true ∧
    ((run .dnsReq {} [.arrive ⟨1, 5⟩, .arrive ⟨2, 6⟩]).1.paused = none → (run .dnsReq {} [.arrive ⟨1, 5⟩, .arrive ⟨2, 6⟩]).1.queue = []) ∧
    (run .dnsReq {} [.arrive ⟨1, 5⟩, .arrive ⟨2, 6⟩]).1.paused = some ⟨1, 5⟩ ∧
    (held (run .dnsReq {} [.arrive ⟨1, 5⟩, .arrive ⟨2, 6⟩]).1 ++ arrivals [.arrive ⟨3, 7⟩, .complete ⟨false, false, 6⟩]).Nodup := by decide

/-- `kill_forwards_nothing_and_errors_history_partial` (whole history): hypotheses and conclusion on a history with traffic before and
    after the kill -/
example : (run .http {} [.arrive ⟨1, 5⟩, .arrive ⟨2, 6⟩]).1.paused = some ⟨1, 5⟩ ∧
    (arrivals ([.arrive ⟨1, 5⟩, .arrive ⟨2, 6⟩] ++ In.complete ⟨true, false, 5⟩ :: [.arrive ⟨3, 7⟩, .complete ⟨false, false, 6⟩])).Nodup ∧
    (run .http {} ([.arrive ⟨1, 5⟩, .arrive ⟨2, 6⟩] ++ In.complete ⟨true, false, 5⟩ :: [.arrive ⟨3, 7⟩, .complete ⟨false, false, 6⟩])).2
      = [.hook 1, .error 1, .hook 2, .send 2 6, .hook 3] := by decide

/-- `remote_close_marks_held` / `remote_close_kills_held`: the state after arrival + remote close satisfies WF, paused,
    remoteKill, and a plain resume then yields the error, not the message -/
example : ((run .http {} [.arrive ⟨1, 5⟩]).1.paused = none → (run .http {} [.arrive ⟨1, 5⟩]).1.queue = []) ∧
    (run .http {} [.arrive ⟨1, 5⟩, .close true false]).1.paused = some ⟨1, 5⟩ ∧
    (run .http {} [.arrive ⟨1, 5⟩, .close true false]).1.remoteKill = true ∧
    (run .http {} [.arrive ⟨1, 5⟩, .close true false, .complete ⟨false, false, 9⟩]).2 = [.hook 1, .error 1] := by decide

/-- `sibling_exchange_while_held`: child 0 holds message 1, the idle child 4 does a whole exchange meanwhile -/
example : ((runP .http {} [(0, .arrive ⟨1, 5⟩)]).1.get 0).paused = some ⟨1, 5⟩ ∧
    (runP .http {} [(0, .arrive ⟨1, 5⟩)]).1.get 4 = {} ∧
    (runP .http (runP .http {} [(0, .arrive ⟨1, 5⟩)]).1 [(4, .arrive ⟨4, 7⟩), (4, .complete ⟨false, false, 7⟩)]).2
      = [.hook 4, .send 4 7] ∧
    ((runP .http (runP .http {} [(0, .arrive ⟨1, 5⟩)]).1 [(4, .arrive ⟨4, 7⟩), (4, .complete ⟨false, false, 7⟩)]).1.get 0).paused
      = some ⟨1, 5⟩ := by decide

/-- `resume_or_kill_releases`: the `killable` hypothesis holds with two hooks waiting, and fails after a kill (a second
    kill is a no-op); `intercepted_hook_waits` after a non-trivial prefix (a killed flow intercepted again) -/
example : (runA {} [.hook true, .hook false]).f.killable = true ∧
    (runA {} ([.hook true, .hook false] ++ [.kill])).tasks = [.done, .done] ∧
    (runA {} [.hook true, .hook false, .kill]).f.killable = false ∧
    (runA {} ([.hook true, .resume] ++ [.resume])).tasks = [.done] ∧
    (runA {} ([.hook true, .kill] ++ [.hook true])).tasks = [.done, .waiting] := by decide

-- the composed system (round 6): non-vacuity ----------------------------------------------------------------------
-- an intercepted message: delivery attempts, further arrivals and edits produce nothing
example : (prun .http (fun _ => true) {} [.arrive ⟨1, 5⟩, .deliver, .arrive ⟨2, 6⟩, .edit 9, .deliver]).2 = [.hook 1] := by decide
-- the hypotheses of `intercepted_message_held` hold after that history (pending, task blocked, flow intercepted)
example : (prun .http (fun _ => true) {} [.arrive ⟨1, 5⟩, .deliver, .arrive ⟨2, 6⟩]).1.l.paused = some ⟨1, 5⟩ ∧
    (prun .http (fun _ => true) {} [.arrive ⟨1, 5⟩, .deliver, .arrive ⟨2, 6⟩]).1.a.tasks.getLast? = some Task.waiting ∧
    (prun .http (fun _ => true) {} [.arrive ⟨1, 5⟩, .deliver, .arrive ⟨2, 6⟩]).1.a.f.intercepted = true := by decide
-- resume: the edited content is forwarded, once, and the queued message's hook fires (and blocks in turn)
example : (prun .tcp (fun _ => true) {} [.arrive ⟨1, 5⟩, .arrive ⟨2, 6⟩, .edit 9, .resume, .deliver, .deliver]).2
    = [.hook 1, .send 1 9, .hook 2] := by decide
-- kill: HTTP ends with an error and sends nothing; TCP forwards the message (finding F-C11a, as in the layer model)
example : (prun .http (fun _ => true) {} [.arrive ⟨1, 5⟩, .kill, .deliver]).2 = [.hook 1, .error 1] := by decide
example : (prun .tcp (fun _ => true) {} [.arrive ⟨1, 5⟩, .kill, .deliver]).2 = [.hook 1, .send 1 5] := by decide
-- not intercepted: the hook task is done at once, the first `deliver` forwards
example : (prun .tcp (fun _ => false) {} [.arrive ⟨1, 5⟩, .deliver]).2 = [.hook 1, .send 1 5] := by decide
-- the hypothesis "task blocked" matters: an `intercept` AFTER wait_for_resume returned does not hold the message
example : (prun .tcp (fun _ => false) {} [.arrive ⟨1, 5⟩, .intercept, .deliver]).2 = [.hook 1, .send 1 5] ∧
    (prun .tcp (fun _ => false) {} [.arrive ⟨1, 5⟩, .intercept]).1.a.f.intercepted = true ∧
    (prun .tcp (fun _ => false) {} [.arrive ⟨1, 5⟩, .intercept]).1.a.tasks.getLast? = some Task.done := by decide
-- a user `intercept` before the message arrives holds it although the addon would not intercept
example : (prun .udp (fun _ => false) {} [.intercept, .arrive ⟨1, 5⟩, .deliver]).2 = [.hook 1] := by decide

end MitmVerif.Props.C11
