/-
  C11 — intercepted flows are held until resumed, killed flows are never forwarded.
  Theorems about `Model/C11.lean`, for ALL schedules of message arrivals and hook completions (any number of
  messages, any verdicts), all protocol kinds, and all sequences of intercept/resume/kill/hook operations.
-/
import MitmVerif.Model.C11
namespace MitmVerif.Props.C11
open MitmVerif.C11

/-- the ids of the messages a layer still holds: the one whose hook is pending, then the queued ones -/
def held (s : L) : List Nat :=
  (match s.paused with | some m => [m.id] | none => []) ++ s.queue.map (·.id)

/-- `Layer` only queues while it is paused -/
def WF (s : L) : Prop := s.paused = none → s.queue = []

private theorem afterHook_cases (k : Kind) (s : L) (m : Msg) (v : Verdict) (o : Out) (ho : o ∈ afterHook k s m v) :
    o = .error m.id ∨ o = .send m.id v.content := by
  unfold afterHook at ho
  split at ho
  · simp at ho; exact Or.inl ho
  · split at ho
    · simp at ho
    · split at ho
      · simp at ho
      · simp at ho; exact Or.inr ho

private theorem wf_step (k : Kind) (s : L) (i : In) (h : WF s) : WF (step k s i).1 := by
  cases i with
  | arrive m =>
    simp only [step]
    cases hp : s.paused with
    | none => intro h'; simp at h'
    | some n => intro h'; simp at h'
  | complete v =>
    simp only [step]
    cases hp : s.paused with
    | none => simpa [hp] using h
    | some m =>
      cases hq : s.queue with
      | nil => intro _; rfl
      | cons n q => intro h'; simp at h'
  | close kl gn => simpa [step, WF] using h

/-- **held while intercepted** (step form): whatever the state and the input, a `send` is only ever emitted for the
    message whose hook was pending, in the very step that completes that hook, and with the content the verdict
    carries.  In particular nothing is sent for a message between the start of its hook and its completion, and
    nothing is sent for the messages queued behind it. -/
theorem held_while_intercepted (k : Kind) (s : L) (i : In) (id c : Nat) (h : Out.send id c ∈ (step k s i).2) :
    ∃ m v, s.paused = some m ∧ m.id = id ∧ i = .complete v ∧ c = v.content := by
  cases i with
  | arrive m =>
    simp only [step] at h
    split at h <;> simp at h
  | complete v =>
    simp only [step] at h
    split at h
    · simp at h
    · rename_i m hm
      have key : ∀ o, o ∈ afterHook k s m v → o = Out.send id c → m.id = id ∧ c = v.content := by
        intro o ho hoe
        rcases afterHook_cases k s m v o ho with h' | h'
        · rw [h'] at hoe; cases hoe
        · rw [h'] at hoe; injection hoe with h1 h2; exact ⟨h1, h2.symm⟩
      split at h
      · obtain ⟨h1, h2⟩ := key _ h rfl
        exact ⟨m, v, hm, h1, rfl, h2⟩
      · simp only [List.mem_append, List.mem_cons, List.mem_nil_iff, or_false] at h
        rcases h with h | h
        · obtain ⟨h1, h2⟩ := key _ h rfl
          exact ⟨m, v, hm, h1, rfl, h2⟩
        · cases h
  | close kl gn => simp [step] at h

/-- an arrival never changes which message is pending: the intercepted message stays held until its completion -/
theorem arrival_keeps_pending (k : Kind) (s : L) (m n : Msg) (h : s.paused = some m) :
    (step k s (.arrive n)).1.paused = some m ∧ (step k s (.arrive n)).2 = [] := by
  simp [step, h]

private theorem held_step (k : Kind) (s : L) (i : In) (hw : WF s) :
    held (step k s i).1 = match i with
      | .arrive m => held s ++ [m.id]
      | .complete _ => (held s).tail
      | .close _ _ => held s := by
  cases i with
  | arrive m =>
    simp only [step]
    cases hp : s.paused with
    | none => simp [held, hw hp, hp]
    | some n => simp [held, hp]
  | complete v =>
    simp only [step]
    cases hp : s.paused with
    | none => simp [held, hp, hw hp]
    | some m => cases hq : s.queue <;> simp [held, hp, hq]
  | close kl gn => simp [step, held]

private theorem held_head (s : L) (m : Msg) (h : s.paused = some m) : ∃ t, held s = m.id :: t := by
  simp [held, h]

/-- no message that is neither held nor still to arrive is ever sent; and a message still held at the end was
    never sent -/
private theorem run_sends (k : Kind) : ∀ (ins : List In) (s : L), WF s → (held s ++ arrivals ins).Nodup →
    (∀ id c, Out.send id c ∈ (run k s ins).2 → id ∈ held s ++ arrivals ins) ∧
    (∀ id, id ∈ held (run k s ins).1 → (id ∈ held s ++ arrivals ins) ∧ ∀ c, Out.send id c ∉ (run k s ins).2)
  | [], s, _, _ => by simp [run, arrivals]
  | i :: is, s, hw, hn => by
    have hw1 := wf_step k s i hw
    have hh := held_step k s i hw
    -- what is held after the step followed by the rest of the arrivals is a sub-list of before
    have hsub : ∀ x, x ∈ held (step k s i).1 ++ arrivals is → x ∈ held s ++ arrivals (i :: is) := by
      intro x hx
      cases i with
      | arrive m =>
        simp only [hh, arrivals, List.mem_append, List.mem_cons, List.mem_nil_iff, or_false] at hx ⊢
        rcases hx with (hx | hx) | hx
        · exact Or.inl hx
        · exact Or.inr (Or.inl hx)
        · exact Or.inr (Or.inr hx)
      | complete v =>
        simp only [hh, arrivals, List.mem_append] at hx ⊢
        rcases hx with hx | hx
        · exact Or.inl (List.mem_of_mem_tail hx)
        · exact Or.inr hx
      | close kl gn => simpa only [hh, arrivals] using hx
    have hn1 : (held (step k s i).1 ++ arrivals is).Nodup := by
      cases i with
      | arrive m =>
        simp only [hh, arrivals] at hn ⊢
        simpa [List.append_assoc] using hn
      | complete v =>
        simp only [hh, arrivals] at hn ⊢
        cases hhs : held s with
        | nil => simpa [hhs] using hn
        | cons a t =>
          rw [hhs] at hn
          simp only [List.tail_cons]
          simp only [List.cons_append, List.nodup_cons] at hn
          exact hn.2
      | close kl gn => simpa only [hh, arrivals] using hn
    obtain ⟨ih1, ih2⟩ := run_sends k is (step k s i).1 hw1 hn1
    simp only [run]
    constructor
    · intro id c hmem
      simp only [List.mem_append] at hmem
      rcases hmem with hmem | hmem
      · obtain ⟨m, v, hp, hid, _, _⟩ := held_while_intercepted k s i id c hmem
        obtain ⟨t, ht⟩ := held_head s m hp
        simp [ht, hid]
      · exact hsub _ (ih1 id c hmem)
    · intro id hid
      obtain ⟨hin, hns⟩ := ih2 id hid
      refine ⟨hsub _ hin, ?_⟩
      intro c hmem
      simp only [List.mem_append] at hmem
      rcases hmem with hmem | hmem
      · -- sent in this step: then it was the pending message, which is gone afterwards and never arrives again
        obtain ⟨m, v, hp, hmid, hi, _⟩ := held_while_intercepted k s i id c hmem
        subst hi
        obtain ⟨t, ht⟩ := held_head s m hp
        simp only [hh, ht, List.tail_cons, arrivals] at hin hn
        rw [hmid] at hn
        simp only [List.cons_append, List.nodup_cons] at hn
        exact hn.1 hin
      · exact hns c hmem

/-- **held while intercepted** (run form): in every schedule with distinct message ids, a message that is still held
    when the schedule ends (its hook is pending or it is queued behind a pending hook) has never been sent. -/
theorem held_never_sent (k : Kind) (ins : List In) (hn : (arrivals ins).Nodup) (id : Nat)
    (hh : id ∈ held (run k {} ins).1) (c : Nat) : Out.send id c ∉ (run k {} ins).2 := by
  have := (run_sends k ins {} (by intro _; rfl) (by simpa [held] using hn)).2 id hh
  exact this.2 c


-- ------------------------------------------------------------------------------------------------
-- resume forwards once

/-- **resume forwards once** (step form): completing the hook of a message that was not killed (or whose layer does
    not consult the kill) and not dropped forwards exactly that message, once, with the content it has at
    completion time (i.e. including the user's edits). -/
theorem resume_forwards_edited (k : Kind) (s : L) (m : Msg) (v : Verdict)
    (hk : (k.honoursKill && (v.killed || (k == .http && s.remoteKill))) = false) (hg : s.gone = false)
    (hd : (k == .ws && v.dropped) = false) :
    afterHook k s m v = [.send m.id v.content] := by
  simp only [afterHook, hk, hg, hd]; rfl

private theorem step_count (k : Kind) (s : L) (i : In) (id : Nat) :
    ((step k s i).2.filter (Out.isSendOf id)).length ≤ 1 := by
  cases i with
  | arrive m => simp only [step]; split <;> simp [Out.isSendOf]
  | complete v =>
    simp only [step]
    split
    · simp
    · split <;> (simp only [afterHook]; split <;> (try split) <;> (try split) <;> simp [Out.isSendOf, List.filter_cons] <;> (try split) <;> simp)
  | close kl gn => simp [step]

private theorem filter_eq_nil_of_not_mem (l : List Out) (id : Nat) (h : ∀ c, Out.send id c ∉ l) :
    l.filter (Out.isSendOf id) = [] := by
  rw [List.filter_eq_nil_iff]
  intro o ho
  cases o with
  | send i c =>
    simp only [Out.isSendOf, beq_iff_eq]
    intro hi; subst hi; exact h c ho
  | hook _ => simp [Out.isSendOf]
  | error _ => simp [Out.isSendOf]

private theorem run_count (k : Kind) : ∀ (ins : List In) (s : L), WF s → (held s ++ arrivals ins).Nodup →
    ∀ id, ((run k s ins).2.filter (Out.isSendOf id)).length ≤ 1
  | [], s, _, _, id => by simp [run]
  | i :: is, s, hw, hn, id => by
    have hw1 := wf_step k s i hw
    have hh := held_step k s i hw
    have hn1 : (held (step k s i).1 ++ arrivals is).Nodup := by
      cases i with
      | arrive m =>
        simp only [hh, arrivals] at hn ⊢
        simpa [List.append_assoc] using hn
      | complete v =>
        simp only [hh, arrivals] at hn ⊢
        cases hhs : held s with
        | nil => simpa [hhs] using hn
        | cons a t =>
          rw [hhs] at hn
          simp only [List.tail_cons]
          simp only [List.cons_append, List.nodup_cons] at hn
          exact hn.2
      | close kl gn => simpa only [hh, arrivals] using hn
    simp only [run, List.filter_append, List.length_append]
    by_cases hs : ∃ c, Out.send id c ∈ (step k s i).2
    · -- sent in this step: it was pending, it is gone afterwards, so it is never sent again
      obtain ⟨c, hc⟩ := hs
      obtain ⟨m, v, hp, hmid, hi, _⟩ := held_while_intercepted k s i id c hc
      subst hi
      obtain ⟨t, ht⟩ := held_head s m hp
      have hnot : id ∉ held (step k s (.complete v)).1 ++ arrivals is := by
        simp only [hh, ht, List.tail_cons, arrivals] at hn ⊢
        rw [hmid] at hn
        simp only [List.cons_append, List.nodup_cons] at hn
        exact hn.1
      have h2 : (run k (step k s (.complete v)).1 is).2.filter (Out.isSendOf id) = [] :=
        filter_eq_nil_of_not_mem _ _ (fun c' hc' => hnot ((run_sends k is _ hw1 hn1).1 id c' hc'))
      rw [h2]
      simpa using step_count k s (.complete v) id
    · have h1 : (step k s i).2.filter (Out.isSendOf id) = [] :=
        filter_eq_nil_of_not_mem _ _ (fun c hc => hs ⟨c, hc⟩)
      rw [h1]
      simpa using run_count k is _ hw1 hn1 id

/-- **resume forwards once** (run form): in every schedule with distinct message ids, every message is forwarded
    at most once. -/
theorem resume_forwards_once (k : Kind) (ins : List In) (hn : (arrivals ins).Nodup) (id : Nat) :
    ((run k {} ins).2.filter (Out.isSendOf id)).length ≤ 1 :=
  run_count k ins {} (by intro _; rfl) (by simpa [held] using hn) id

-- ------------------------------------------------------------------------------------------------
-- kill

/- The full statement — "killing the flow sends nothing further for it and ends it with an error" — for EVERY kind:
     ∀ k s m v ins, s.paused = some m → v.killed →
       (∀ c, send m.id c ∉ (run k s (.complete v :: ins)).2) ∧ error m.id ∈ (run k s (.complete v :: ins)).2
   holds for the layers whose send-after-hook step consults the kill (HTTP, DNS queries) and is FALSE for TCP, UDP,
   WebSocket and DNS answers in the current code (findings F-C11a–d): see the counterexample below. -/

/-- **kill forwards nothing and errors** for the layers that consult the kill: from ANY state in which the message's
    hook is pending, once the flow is killed and the hook completes, the message is never sent — not at completion,
    not later, whatever else arrives — and the flow ends with an error. -/
theorem kill_forwards_nothing_and_errors_partial (k : Kind) (hk : k.honoursKill = true) (s : L) (hw : WF s) (m : Msg)
    (hp : s.paused = some m) (v : Verdict) (hv : v.killed = true) (ins : List In)
    (hn : (held s ++ arrivals ins).Nodup) :
    (∀ c, Out.send m.id c ∉ (run k s (.complete v :: ins)).2) ∧ Out.error m.id ∈ (run k s (.complete v :: ins)).2 := by
  have hstep : ∀ o, o ∈ (step k s (.complete v)).2 → o = Out.error m.id ∨ ∃ n, o = Out.hook n := by
    intro o ho
    simp only [step, hp] at ho
    split at ho
    · simp [afterHook, hk, hv] at ho; exact Or.inl ho
    · simp [afterHook, hk, hv] at ho
      rcases ho with ho | ho
      · exact Or.inl ho
      · exact Or.inr ⟨_, ho⟩
  have herr : Out.error m.id ∈ (step k s (.complete v)).2 := by
    simp only [step, hp]
    split <;> simp [afterHook, hk, hv]
  obtain ⟨t, ht⟩ := held_head s m hp
  have hw1 := wf_step k s (.complete v) hw
  have hh := held_step k s (.complete v) hw
  have hn1 : (held (step k s (.complete v)).1 ++ arrivals ins).Nodup := by
    simp only [hh, ht, List.tail_cons]
    rw [ht] at hn
    simp only [List.cons_append, List.nodup_cons] at hn
    exact hn.2
  have hnot : m.id ∉ held (step k s (.complete v)).1 ++ arrivals ins := by
    simp only [hh, ht, List.tail_cons]
    rw [ht] at hn
    simp only [List.cons_append, List.nodup_cons] at hn
    exact hn.1
  simp only [run]
  constructor
  · intro c hc
    simp only [List.mem_append] at hc
    rcases hc with hc | hc
    · rcases hstep _ hc with h | ⟨n, h⟩ <;> cases h
    · exact hnot ((run_sends k ins _ hw1 hn1).1 _ c hc)
  · exact List.mem_append_left _ herr

/-- a close of the source that the layer treats as a kill (HTTP requests: `check_killed` finds the
    RequestProtocolError in the paused-event queue) marks the held message, and changes nothing else -/
theorem remote_close_marks_held (s : L) (hw : WF s) (m : Msg) (hp : s.paused = some m) (gone : Bool) :
    (step .http s (.close true gone)).1.paused = some m ∧ (step .http s (.close true gone)).1.remoteKill = true ∧
    WF (step .http s (.close true gone)).1 ∧ held (step .http s (.close true gone)).1 = held s ∧
    (step .http s (.close true gone)).2 = [] :=
  ⟨by simp [step, hp], by simp [step, hp], wf_step _ _ _ hw, held_step _ _ _ hw, by simp [step]⟩

/-- …and a message so marked is never forwarded: its flow ends with an error when the hook completes, whatever the
    user's verdict (resume, edit) was. -/
theorem remote_close_kills_held (s : L) (hw : WF s) (m : Msg) (hp : s.paused = some m) (hr : s.remoteKill = true)
    (v : Verdict) (ins : List In) (hn : (held s ++ arrivals ins).Nodup) :
    (∀ c, Out.send m.id c ∉ (run .http s (.complete v :: ins)).2) ∧ Out.error m.id ∈ (run .http s (.complete v :: ins)).2 := by
  have hstep : ∀ o, o ∈ (step .http s (.complete v)).2 → o = Out.error m.id ∨ ∃ n, o = Out.hook n := by
    intro o ho
    simp only [step, hp] at ho
    split at ho
    · simp [afterHook, Kind.honoursKill, hr] at ho; exact Or.inl ho
    · simp [afterHook, Kind.honoursKill, hr] at ho
      rcases ho with ho | ho
      · exact Or.inl ho
      · exact Or.inr ⟨_, ho⟩
  have herr : Out.error m.id ∈ (step .http s (.complete v)).2 := by
    simp only [step, hp]
    split <;> simp [afterHook, Kind.honoursKill, hr]
  obtain ⟨t, ht⟩ := held_head s m hp
  have hw1 := wf_step .http s (.complete v) hw
  have hh := held_step .http s (.complete v) hw
  have hn1 : (held (step .http s (.complete v)).1 ++ arrivals ins).Nodup := by
    simp only [hh, ht, List.tail_cons]
    rw [ht] at hn
    simp only [List.cons_append, List.nodup_cons] at hn
    exact hn.2
  have hnot : m.id ∉ held (step .http s (.complete v)).1 ++ arrivals ins := by
    simp only [hh, ht, List.tail_cons]
    rw [ht] at hn
    simp only [List.cons_append, List.nodup_cons] at hn
    exact hn.1
  simp only [run]
  constructor
  · intro c hc
    simp only [List.mem_append] at hc
    rcases hc with hc | hc
    · rcases hstep _ hc with h | ⟨n, h⟩ <;> cases h
    · exact hnot ((run_sends .http ins _ hw1 hn1).1 _ c hc)
  · exact List.mem_append_left _ herr

-- whole histories: the well-formedness and distinctness hypotheses derived from the history itself ------------

private theorem run_append (k : Kind) : ∀ (a b : List In) (s : L),
    run k s (a ++ b) = ((run k (run k s a).1 b).1, (run k s a).2 ++ (run k (run k s a).1 b).2)
  | [], b, s => by simp [run]
  | i :: a, b, s => by
    simp only [List.cons_append, run]
    rw [run_append k a b (step k s i).1]
    simp [List.append_assoc]

private theorem arrivals_append : ∀ (a b : List In), arrivals (a ++ b) = arrivals a ++ arrivals b
  | [], b => rfl
  | .arrive m :: a, b => by simp [arrivals, arrivals_append a b]
  | .complete _ :: a, b => by simp [arrivals, arrivals_append a b]
  | .close _ _ :: a, b => by simp [arrivals, arrivals_append a b]

/-- every reachable layer state is well-formed, and what it holds is distinct from what is still to arrive -/
private theorem run_wf (k : Kind) : ∀ (ins : List In) (s : L) (rest : List Nat), WF s →
    (held s ++ (arrivals ins ++ rest)).Nodup → WF (run k s ins).1 ∧ (held (run k s ins).1 ++ rest).Nodup
  | [], s, rest, hw, hn => by simpa [run, arrivals] using ⟨hw, hn⟩
  | i :: is, s, rest, hw, hn => by
    have hw1 := wf_step k s i hw
    have hh := held_step k s i hw
    have hn1 : (held (step k s i).1 ++ (arrivals is ++ rest)).Nodup := by
      cases i with
      | arrive m =>
        simp only [hh, arrivals] at hn ⊢
        simpa [List.append_assoc] using hn
      | complete v =>
        simp only [hh, arrivals] at hn ⊢
        cases hhs : held s with
        | nil => simpa [hhs] using hn
        | cons a t =>
          rw [hhs] at hn
          simp only [List.tail_cons]
          simp only [List.cons_append, List.nodup_cons] at hn
          exact hn.2
      | close kl gn => simpa only [hh, arrivals] using hn
    simpa [run] using run_wf k is (step k s i).1 rest hw1 hn1

/-- **kill forwards nothing and errors** — whole-history form, for the layers whose send-after-hook step consults the
    kill (HTTP, DNS queries): in EVERY history from the initial state with distinct message ids, if the flow is killed
    while the hook of message `m` is pending, then `m` is never sent — not before (it was held), not when the hook
    completes, not afterwards, whatever else arrives — and the flow ends with an error.  No hypothesis on the state:
    well-formedness and distinctness of what is held are derived from the history. -/
theorem kill_forwards_nothing_and_errors (k : Kind) (hk : k.honoursKill = true) (ins1 ins2 : List In) (m : Msg)
    (v : Verdict) (hv : v.killed = true) (hp : (run k {} ins1).1.paused = some m)
    (hn : (arrivals (ins1 ++ .complete v :: ins2)).Nodup) :
    (∀ c, Out.send m.id c ∉ (run k {} (ins1 ++ .complete v :: ins2)).2) ∧
    Out.error m.id ∈ (run k {} (ins1 ++ .complete v :: ins2)).2 := by
  have hn' : (held ({} : L) ++ (arrivals ins1 ++ arrivals ins2)).Nodup := by
    simpa [held, arrivals_append, arrivals] using hn
  obtain ⟨hw1, hn1⟩ := run_wf k ins1 {} (arrivals ins2) (by intro _; rfl) hn'
  obtain ⟨h1, h2⟩ := kill_forwards_nothing_and_errors_partial k hk (run k {} ins1).1 hw1 m hp v hv ins2 hn1
  rw [run_append]
  constructor
  · intro c hc
    simp only [List.mem_append] at hc
    rcases hc with hc | hc
    · -- before the completion the message was held, hence never sent
      have hheld : m.id ∈ held (run k {} ins1).1 := by
        obtain ⟨t, ht⟩ := held_head _ m hp; simp [ht]
      have hn0 : (held ({} : L) ++ arrivals ins1).Nodup := by
        have : (arrivals ins1 ++ arrivals ins2).Nodup := by simpa [held] using hn'
        simpa [held] using (List.nodup_append.1 this).1
      exact ((run_sends k ins1 {} (by intro _; rfl) hn0).2 m.id hheld).2 c hc
    · exact h1 c hc
  · exact List.mem_append_right _ h2

/-- **the kill clause at full strength, exactly where the code allows it**: a layer kind satisfies the whole-history
    kill statement if and only if its send-after-hook step consults the kill.  (HTTP and DNS queries do; TCP, UDP,
    WebSocket and DNS answers do not — findings F-C11a–d.) -/
theorem kill_forwards_nothing_and_errors_iff (k : Kind) :
    (∀ (ins1 ins2 : List In) (m : Msg) (v : Verdict), v.killed = true → (run k {} ins1).1.paused = some m →
        (arrivals (ins1 ++ .complete v :: ins2)).Nodup →
        (∀ c, Out.send m.id c ∉ (run k {} (ins1 ++ .complete v :: ins2)).2) ∧
          Out.error m.id ∈ (run k {} (ins1 ++ .complete v :: ins2)).2)
    ↔ k.honoursKill = true := by
  constructor
  · intro h
    cases hk : k.honoursKill
    · exfalso
      have := (h [.arrive ⟨1, 7⟩] [] ⟨1, 7⟩ ⟨true, false, 7⟩ rfl (by cases k <;> rfl) (by decide)).1 7
      cases k <;> simp [Kind.honoursKill] at hk <;> exact this (by decide)
    · rfl
  · intro hk ins1 ins2 m v hv hp hn
    exact kill_forwards_nothing_and_errors k hk ins1 ins2 m v hv hp hn

/-- TCP, UDP, WebSocket messages and DNS answers are forwarded although the flow was killed while intercepted -/
theorem kill_forwards_nothing_and_errors_counterexample :
    ∀ k ∈ [Kind.tcp, Kind.udp, Kind.ws, Kind.dnsResp],
      Out.send 1 7 ∈ (run k {} [.arrive ⟨1, 7⟩, .complete ⟨true, false, 7⟩]).2 := by decide

-- ------------------------------------------------------------------------------------------------
-- siblings

private theorem get_set_same (p : P) (key : Nat) (l : L) : (p.set key l).get key = l := by
  simp [P.get, P.set]

private theorem find_filter (key key' : Nat) (h : key' ≠ key) (l : List (Nat × L)) :
    List.find? (fun x => x.1 == key') (List.filter (fun x => x.1 != key) l) = List.find? (fun x => x.1 == key') l := by
  induction l with
  | nil => rfl
  | cons a t ih =>
    by_cases ha : a.1 = key
    · have h1 : (a.1 != key) = false := by simp [ha]
      have h2 : (a.1 == key') = false := by simp [ha, Ne.symm h]
      rw [List.filter_cons_of_neg (by simp [h1]), List.find?_cons_of_neg (by simp [h2])]
      exact ih
    · have h1 : (a.1 != key) = true := by simp [ha]
      rw [List.filter_cons_of_pos (p := fun x : Nat × L => x.1 != key) h1]
      by_cases hb : a.1 = key'
      · have h2 : (a.1 == key') = true := by simp [hb]
        rw [List.find?_cons_of_pos (by exact h2), List.find?_cons_of_pos (by exact h2)]
      · have h2 : (a.1 == key') = false := by simp [hb]
        rw [List.find?_cons_of_neg (by simp [h2]), List.find?_cons_of_neg (by simp [h2])]
        exact ih

private theorem get_set_other (p : P) (key key' : Nat) (l : L) (h : key' ≠ key) : (p.set key l).get key' = p.get key' := by
  simp only [P.get, P.set]
  rw [List.find?_cons_of_neg (by simp [Ne.symm h]), find_filter key key' h]

/-- **siblings progress**: an event for one child is handled by that child alone — its outputs are exactly the
    child's own, and every other child (in particular one that is paused on an intercepted message) is untouched. -/
theorem siblings_progress (k : Kind) (p : P) (j : Nat) (i : In) :
    (stepP k p j i).2 = (step k (p.get j) i).2 ∧
    ((stepP k p j i).1.get j = (step k (p.get j) i).1) ∧
    ∀ j', j' ≠ j → (stepP k p j i).1.get j' = p.get j' :=
  ⟨rfl, get_set_same _ _ _, fun j' h => get_set_other _ _ _ _ h⟩

/-- …hence while child `i` holds an intercepted message, an idle sibling `j` does a complete exchange: its hook
    fires at once, its message is forwarded when its own hook completes, and `i` is still holding its message. -/
theorem sibling_exchange_while_held (k : Kind) (p : P) (i j : Nat) (hij : i ≠ j) (m n : Msg) (v : Verdict)
    (hi : (p.get i).paused = some m) (hj : p.get j = {}) :
    (runP k p [(j, .arrive n), (j, .complete v)]).2 = [.hook n.id] ++ afterHook k {} n v ∧
    ((runP k p [(j, .arrive n), (j, .complete v)]).1.get i).paused = some m := by
  have s1 := siblings_progress k p j (.arrive n)
  have s2 := siblings_progress k (stepP k p j (.arrive n)).1 j (.complete v)
  simp only [runP, List.append_nil]
  refine ⟨?_, ?_⟩
  · rw [s1.1, s2.1, s1.2.1, hj]; simp [step, afterHook]
  · rw [s2.2.2 i hij, s1.2.2 i hij]; exact hi

-- ------------------------------------------------------------------------------------------------
-- Flow.intercept / resume / kill / wait_for_resume

/-- the state of the flow explains every blocked hook: a hook task waits only while the flow is intercepted and its
    resume event exists and is not set; and an intercepted flow never has its event set -/
def J (a : A) : Prop :=
  (a.f.intercepted = true → a.f.event ≠ some true) ∧
  (∀ t ∈ a.tasks, t = Task.waiting → a.f.intercepted = true ∧ a.f.event = some false)

private theorem J_init : J {} := by simp [J]

private theorem J_step (a : A) (op : Op) (h : J a) : J (stepA a op) := by
  obtain ⟨h1, h2⟩ := h
  cases op with
  | hook ai =>
    cases ai <;> cases hi : a.f.intercepted <;> cases he : a.f.event <;>
      simp_all [stepA, F.wait, F.intercept, J] <;> (try (rename_i b; cases b <;> simp_all)) <;> grind
  | intercept =>
    cases hi : a.f.intercepted <;> cases he : a.f.event <;> simp_all [stepA, F.intercept, J] <;> grind
  | resume =>
    cases hi : a.f.intercepted <;> cases he : a.f.event <;> simp_all [stepA, F.resume, wake, J] <;> grind
  | kill =>
    cases hk : a.f.killable <;> cases he : a.f.event <;> simp_all [stepA, F.kill, wake, J] <;> grind

/-- **a hook only blocks while the flow is intercepted**: after any sequence of operations -/
theorem waiting_only_while_intercepted (ops : List Op) : J (runA {} ops) := by
  unfold runA
  suffices h : ∀ a, J a → J (ops.foldl stepA a) from h _ J_init
  induction ops with
  | nil => intro a h; exact h
  | cons o os ih => intro a h; exact ih _ (J_step a o h)

/-- **an intercepted flow holds its hook**: a hook task started for a flow that the addon intercepts does not complete -/
theorem intercepted_hook_waits (ops : List Op) :
    (runA {} (ops ++ [.hook true])).tasks.getLast? = some Task.waiting := by
  have hJ := waiting_only_while_intercepted ops
  simp only [runA, List.foldl_append, List.foldl_cons, List.foldl_nil] at hJ ⊢
  obtain ⟨h1, _⟩ := hJ
  generalize ops.foldl stepA {} = a at h1 ⊢
  cases hi : a.f.intercepted <;> cases he : a.f.event <;> simp_all [stepA, F.wait, F.intercept] <;>
    (try (rename_i b; cases b <;> simp_all))

/-- **resume and kill release every pending hook** (kill: whenever the flow is killable) -/
theorem resume_or_kill_releases (ops : List Op) :
    (∀ t ∈ (runA {} (ops ++ [.resume])).tasks, t = Task.done) ∧
    ((runA {} ops).f.killable = true → ∀ t ∈ (runA {} (ops ++ [.kill])).tasks, t = Task.done) := by
  have hJ := waiting_only_while_intercepted ops
  simp only [runA, List.foldl_append, List.foldl_cons, List.foldl_nil] at hJ ⊢
  obtain ⟨h1, h2⟩ := hJ
  generalize ops.foldl stepA {} = a at h1 h2 ⊢
  constructor
  · intro t ht
    cases t with
    | done => rfl
    | waiting =>
      exfalso
      cases hi : a.f.intercepted with
      | false =>
        have hev : a.f.event ≠ some true ∨ a.f.event = some true := by
          cases a.f.event <;> simp
        simp only [stepA, F.resume, hi, Bool.not_false, ↓reduceIte, wake] at ht
        split at ht
        · simp at ht
        · have := (h2 _ ht rfl).1; rw [hi] at this; cases this
      | true =>
        cases he : a.f.event with
        | none =>
          simp [stepA, F.resume, hi, he, wake] at ht
          have := (h2 _ ht rfl).2; rw [he] at this; cases this
        | some b => simp [stepA, F.resume, hi, he, wake] at ht
  · intro hk t ht
    cases t with
    | done => rfl
    | waiting =>
      exfalso
      cases he : a.f.event with
      | none =>
        simp [stepA, hk, F.kill, he, wake] at ht
        have := (h2 _ ht rfl).2; rw [he] at this; cases this
      | some b => simp [stepA, hk, F.kill, he, wake] at ht

-- non-vacuity / the model is not constant ---------------------------------------------------------
example : (run .http {} [.arrive ⟨1, 5⟩, .arrive ⟨2, 6⟩, .complete ⟨false, false, 9⟩]).2
    = [.hook 1, .send 1 9, .hook 2] := by decide
example : (run .http {} [.arrive ⟨1, 5⟩, .complete ⟨true, false, 5⟩]).2 = [.hook 1, .error 1] := by decide
example : (runA {} [.hook true, .hook false]).tasks = [.waiting, .waiting] := by decide
example : (runA {} [.hook true, .kill]).tasks = [.done] := by decide

end MitmVerif.Props.C11

-- ------------------------------------------------------------------------------------------------
-- audit round 6 (added by the C01/C02 builder): the hypotheses of the theorems above instantiated on concrete,
-- reachable states
namespace MitmVerif.Props.C11
open MitmVerif.C11

/-- `held_never_sent` / `resume_forwards_once`: distinct ids, message 1 forwarded exactly once (edited), 2 pending and 3
    queued at the end -/
private def exHeld : List In := [.arrive ⟨1, 5⟩, .arrive ⟨2, 6⟩, .complete ⟨false, false, 9⟩, .arrive ⟨3, 7⟩]

example : (arrivals exHeld).Nodup ∧ held (run .http {} exHeld).1 = [2, 3] ∧
    (run .http {} exHeld).2 = [.hook 1, .send 1 9, .hook 2] ∧
    ((run .http {} exHeld).2.filter (Out.isSendOf 1)).length = 1 ∧
    ((run .http {} exHeld).2.filter (Out.isSendOf 2)).length = 0 := by decide

/-- `resume_forwards_edited`: its three hypotheses hold in the state reached by one arrival, for a WebSocket message
    that was neither killed-and-honoured nor dropped (and for an HTTP message with no remote close) -/
example : (run .ws {} [.arrive ⟨1, 5⟩]).1.paused = some ⟨1, 5⟩ ∧
    (Kind.ws.honoursKill && (true || (Kind.ws == .http && (run .ws {} [.arrive ⟨1, 5⟩]).1.remoteKill))) = false ∧
    (run .ws {} [.arrive ⟨1, 5⟩]).1.gone = false ∧ (Kind.ws == .ws && false) = false ∧
    afterHook .ws (run .ws {} [.arrive ⟨1, 5⟩]).1 ⟨1, 5⟩ ⟨true, false, 9⟩ = [.send 1 9] := by decide
example : (Kind.http.honoursKill && (false || (Kind.http == .http && (run .http {} [.arrive ⟨1, 5⟩]).1.remoteKill))) = false ∧
    (run .http {} [.arrive ⟨1, 5⟩]).1.gone = false ∧
    afterHook .http (run .http {} [.arrive ⟨1, 5⟩]).1 ⟨1, 5⟩ ⟨false, false, 9⟩ = [.send 1 9] := by decide
/-- …and each hypothesis is needed: dropped WebSocket message, UDP association gone -/
example : afterHook .ws {} ⟨1, 5⟩ ⟨false, true, 5⟩ = [] ∧
    (run .udp {} [.arrive ⟨1, 5⟩, .close false true, .complete ⟨false, false, 5⟩]).2 = [.hook 1] := by decide

/-- `kill_forwards_nothing_and_errors_partial`: a reachable state (1 pending, 2 queued) satisfying WF / paused / Nodup -/
example : Kind.dnsReq.honoursKill = true ∧
    ((run .dnsReq {} [.arrive ⟨1, 5⟩, .arrive ⟨2, 6⟩]).1.paused = none → (run .dnsReq {} [.arrive ⟨1, 5⟩, .arrive ⟨2, 6⟩]).1.queue = []) ∧
    (run .dnsReq {} [.arrive ⟨1, 5⟩, .arrive ⟨2, 6⟩]).1.paused = some ⟨1, 5⟩ ∧
    (held (run .dnsReq {} [.arrive ⟨1, 5⟩, .arrive ⟨2, 6⟩]).1 ++ arrivals [.arrive ⟨3, 7⟩, .complete ⟨false, false, 6⟩]).Nodup := by decide

/-- `kill_forwards_nothing_and_errors` (whole history): hypotheses and conclusion on a history with traffic before and
    after the kill -/
example : (run .http {} [.arrive ⟨1, 5⟩, .arrive ⟨2, 6⟩]).1.paused = some ⟨1, 5⟩ ∧
    (arrivals ([.arrive ⟨1, 5⟩, .arrive ⟨2, 6⟩] ++ In.complete ⟨true, false, 5⟩ :: [.arrive ⟨3, 7⟩, .complete ⟨false, false, 6⟩])).Nodup ∧
    (run .http {} ([.arrive ⟨1, 5⟩, .arrive ⟨2, 6⟩] ++ In.complete ⟨true, false, 5⟩ :: [.arrive ⟨3, 7⟩, .complete ⟨false, false, 6⟩])).2
      = [.hook 1, .error 1, .hook 2, .send 2 6, .hook 3] := by decide

/-- `remote_close_marks_held` / `remote_close_kills_held`: the state after arrival + remote close satisfies WF, paused,
    remoteKill, and a plain resume then yields the error, not the message -/
example : ((run .http {} [.arrive ⟨1, 5⟩]).1.paused = none → (run .http {} [.arrive ⟨1, 5⟩]).1.queue = []) ∧
    (run .http {} [.arrive ⟨1, 5⟩, .close true false]).1.paused = some ⟨1, 5⟩ ∧
    (run .http {} [.arrive ⟨1, 5⟩, .close true false]).1.remoteKill = true ∧
    (run .http {} [.arrive ⟨1, 5⟩, .close true false, .complete ⟨false, false, 9⟩]).2 = [.hook 1, .error 1] := by decide

/-- `sibling_exchange_while_held`: child 0 holds message 1, the idle child 4 does a whole exchange meanwhile -/
example : ((runP .http {} [(0, .arrive ⟨1, 5⟩)]).1.get 0).paused = some ⟨1, 5⟩ ∧
    (runP .http {} [(0, .arrive ⟨1, 5⟩)]).1.get 4 = {} ∧
    (runP .http (runP .http {} [(0, .arrive ⟨1, 5⟩)]).1 [(4, .arrive ⟨4, 7⟩), (4, .complete ⟨false, false, 7⟩)]).2
      = [.hook 4, .send 4 7] ∧
    ((runP .http (runP .http {} [(0, .arrive ⟨1, 5⟩)]).1 [(4, .arrive ⟨4, 7⟩), (4, .complete ⟨false, false, 7⟩)]).1.get 0).paused
      = some ⟨1, 5⟩ := by decide

/-- `resume_or_kill_releases`: the `killable` hypothesis holds with two hooks waiting, and fails after a kill (a second
    kill is a no-op); `intercepted_hook_waits` after a non-trivial prefix (a killed flow intercepted again) -/
example : (runA {} [.hook true, .hook false]).f.killable = true ∧
    (runA {} ([.hook true, .hook false] ++ [.kill])).tasks = [.done, .done] ∧
    (runA {} [.hook true, .hook false, .kill]).f.killable = false ∧
    (runA {} ([.hook true, .resume] ++ [.resume])).tasks = [.done] ∧
    (runA {} ([.hook true, .kill] ++ [.hook true])).tasks = [.done, .waiting] := by decide

end MitmVerif.Props.C11
