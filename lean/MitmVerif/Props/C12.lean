/-
  C12 — property theorems (for EVERY message `m : Bytes` and every status 100..999).
  * `escaped_has_no_markup`   : html.escape output has none of < > " ' and every & starts one of the 5 entities
  * `unescape_escape`         : decoding the entities gives the message back (it is shown, only escaped)
  * `page_is_template`        : format_error = the fixed template around the escaped message, minus white space only
  * `page_markup_independent` : the < > " ' characters of the page are those of the template, whatever the message
  * `page_amps_ok`            : every & of the page starts an entity
  * `page_wellformed`         : an independent HTTP/1.1 reader accepts make_error_response: status, reason, the four
                                fields (Server, Connection: close, Content-Type: text/html, content-length) and a body of
                                exactly content-length bytes which is the page
  * `h2_declares_html`, `error_status_in_domain` : HTTP/2 header list; every status ErrorCode maps to is in 100..999
-/
import MitmVerif.Lemmas.C12
namespace MitmVerif.Props.C12
open MitmVerif MitmVerif.C12

/-! ### the escape -/

private theorem escByte_cases (b : UInt8) :
    (b = 0x26 ∧ escByte b = eAmp) ∨ (b = 0x3c ∧ escByte b = eLt) ∨ (b = 0x3e ∧ escByte b = eGt) ∨
    (b = 0x22 ∧ escByte b = eQuot) ∨ (b = 0x27 ∧ escByte b = eApos) ∨
    (b ≠ 0x26 ∧ b ≠ 0x3c ∧ b ≠ 0x3e ∧ b ≠ 0x22 ∧ b ≠ 0x27 ∧ escByte b = [b]) := by
  unfold escByte
  by_cases h1 : b = 0x26
  · subst h1; simp
  by_cases h2 : b = 0x3c
  · subst h2; simp
  by_cases h3 : b = 0x3e
  · subst h3; simp
  by_cases h4 : b = 0x22
  · subst h4; simp
  by_cases h5 : b = 0x27
  · subst h5; simp
  simp [h1, h2, h3, h4, h5]

private theorem escByte_noMarkup (b : UInt8) : ∀ c ∈ escByte b, isMarkup c = false := by
  rcases escByte_cases b with ⟨_, h⟩ | ⟨_, h⟩ | ⟨_, h⟩ | ⟨_, h⟩ | ⟨_, h⟩ | ⟨_, h2, h3, h4, h5, h⟩ <;> rw [h]
  · decide
  · decide
  · decide
  · decide
  · decide
  · intro c hc
    simp only [List.mem_singleton] at hc; subst hc
    simp [isMarkup, h2, h3, h4, h5]

private theorem escByte_ampsOk (b : UInt8) : ampsOk (escByte b) = true := by
  rcases escByte_cases b with ⟨_, h⟩ | ⟨_, h⟩ | ⟨_, h⟩ | ⟨_, h⟩ | ⟨_, h⟩ | ⟨h1, _, _, _, _, h⟩ <;> rw [h]
  · decide
  · decide
  · decide
  · decide
  · decide
  · simp [ampsOk, h1]

private theorem escape_noMarkup (m : Bytes) : ∀ c ∈ htmlEscape m, isMarkup c = false := by
  intro c hc
  simp only [htmlEscape, List.mem_flatMap] at hc
  obtain ⟨b, _, hcb⟩ := hc
  exact escByte_noMarkup b c hcb

private theorem escape_ampsOk : ∀ m : Bytes, ampsOk (htmlEscape m) = true
  | [] => rfl
  | b :: m => by
    have : htmlEscape (b :: m) = escByte b ++ htmlEscape m := by simp [htmlEscape]
    rw [this]
    exact ampsOk_append _ _ (escByte_ampsOk b) (escape_ampsOk m)

/-- **C12 (escape).** For every message, the escaped text contains none of `<` `>` `"` `'`, and every
    `&` in it starts one of `&amp;` `&lt;` `&gt;` `&quot;` `&#x27;`. -/
theorem escaped_has_no_markup (m : Bytes) :
    (∀ c ∈ htmlEscape m, c ≠ 0x3c ∧ c ≠ 0x3e ∧ c ≠ 0x22 ∧ c ≠ 0x27) ∧ ampsOk (htmlEscape m) = true := by
  refine ⟨?_, escape_ampsOk m⟩
  intro c hc
  have := escape_noMarkup m c hc
  simp only [isMarkup, Bool.or_eq_false_iff, decide_eq_false_iff_not] at this
  exact ⟨this.1.1.1, this.1.1.2, this.1.2, this.2⟩

example : htmlEscape [0x3c, 0x61, 0x3e, 0x26, 0x22, 0x27] =
    [0x26,0x6c,0x74,0x3b, 0x61, 0x26,0x67,0x74,0x3b, 0x26,0x61,0x6d,0x70,0x3b, 0x26,0x71,0x75,0x6f,0x74,0x3b,
     0x26,0x23,0x78,0x32,0x37,0x3b] := by decide
-- `ampsOk` does reject something: "&x", "&amp" (no semicolon)
example : ampsOk [0x26, 0x78] = false ∧ ampsOk [0x26, 0x61, 0x6d, 0x70] = false := by decide

private theorem escByte_pos (b : UInt8) : 1 ≤ (escByte b).length := by
  rcases escByte_cases b with ⟨_, h⟩ | ⟨_, h⟩ | ⟨_, h⟩ | ⟨_, h⟩ | ⟨_, h⟩ | ⟨_, _, _, _, _, h⟩ <;> rw [h] <;> simp [eAmp, eLt, eGt, eQuot, eApos]

private theorem unesc_token (b : UInt8) (rest : Bytes) (f : Nat) :
    unescF (f + 1) (escByte b ++ rest) = b :: unescF f rest := by
  rcases escByte_cases b with ⟨hb, h⟩ | ⟨hb, h⟩ | ⟨hb, h⟩ | ⟨hb, h⟩ | ⟨hb, h⟩ | ⟨h1, _, _, _, _, h⟩ <;> rw [h]
  · subst hb; simp [unescF, eAmp, matchEntity, entities]
  · subst hb; simp [unescF, eLt, matchEntity, entities]
  · subst hb; simp [unescF, eGt, matchEntity, entities]
  · subst hb; simp [unescF, eQuot, matchEntity, entities]
  · subst hb; simp [unescF, eApos, matchEntity, entities]
  · simp [unescF, h1]

private theorem unescF_escape : ∀ (m : Bytes) (f : Nat), (htmlEscape m).length ≤ f → unescF f (htmlEscape m) = m
  | [], f, _ => by cases f <;> simp [htmlEscape, unescF]
  | b :: m, f, hf => by
    have he : htmlEscape (b :: m) = escByte b ++ htmlEscape m := by simp [htmlEscape]
    rw [he] at hf ⊢
    have hpos := escByte_pos b
    simp only [List.length_append] at hf
    cases f with
    | zero => omega
    | succ f =>
      rw [unesc_token, unescF_escape m f (by omega)]

/-- **C12 (nothing lost).** Decoding the five entities of the escaped text gives the message back: the
    page shows exactly the message, in escaped form. -/
theorem unescape_escape (m : Bytes) : unescape (htmlEscape m) = m :=
  unescF_escape m _ (Nat.le_refl _)

example : unescape [0x26,0x6c,0x74,0x3b, 0x26, 0x78] = [0x3c, 0x26, 0x78] := by decide

/-! ### the page -/

/-- **C12 (page = template).** `format_error(status, m)` is the fixed template with the *escaped*
    message in its `<p>` element, from which only white-space bytes have been deleted (dedent, strip). -/
theorem page_is_template (s : Nat) (m : Bytes) :
    Del isSpace (template s (htmlEscape m)) (formatError s m) :=
  Del.trans (Del.dedent _) (Del.pyStrip _)

private theorem space_not_markup (c : UInt8) (h : isSpace c = true) : isMarkup c = false := by
  have : ∀ n : Fin 256, isSpace (UInt8.ofNat n.val) = true → isMarkup (UInt8.ofNat n.val) = false := by
    decide +kernel
  have h2 := this ⟨c.toNat, UInt8.toNat_lt c⟩
  simp only [UInt8.ofNat_toNat] at h2
  exact h2 h

private theorem escape_filter_markup (m : Bytes) : (htmlEscape m).filter isMarkup = [] := by
  rw [List.filter_eq_nil_iff]
  intro c hc
  simp [escape_noMarkup m c hc]

/-- **C12 (no markup from the message).** The `<` `>` `"` `'` characters of the page are exactly those
    of the template (the twelve tags, and whatever the constant reason phrase has): the message
    contributes none, whatever it is. -/
theorem page_markup_independent (s : Nat) (m : Bytes) :
    (formatError s m).filter isMarkup = (template s []).filter isMarkup := by
  rw [Del.filter_eq isMarkup space_not_markup (page_is_template s m)]
  simp [template, List.filter_append, escape_filter_markup]

-- the skeleton for a status whose reason has no quote: 12 tags
example : (formatError 502 [0x3c, 0x27]).filter isMarkup =
    [0x3c,0x3e,0x3c,0x3e,0x3c,0x3e,0x3c,0x3e,0x3c,0x3e,0x3c,0x3e,0x3c,0x3e,0x3c,0x3e,0x3c,0x3e,0x3c,0x3e,0x3c,0x3e,0x3c,0x3e] := by
  decide +kernel

private theorem reasons_noAmp : ∀ e ∈ Gen.C12.responses, ∀ c ∈ e.2, c ≠ 0x26 ∧ c ≠ 0x0d := by decide +kernel

private theorem lookupReason_mem {s : Nat} {r : Bytes} (h : lookupReason s = some r) :
    ∃ e ∈ Gen.C12.responses, e.2 = r := by
  unfold lookupReason at h
  cases hf : Gen.C12.responses.find? (fun e => e.1 == s) with
  | none => rw [hf] at h; simp at h
  | some e =>
    rw [hf] at h
    simp only [Option.map_some, Option.some.injEq] at h
    exact ⟨e, List.mem_of_find?_eq_some hf, h⟩

private theorem reasonPage_ok (s : Nat) : ∀ c ∈ reasonPage s, c ≠ 0x26 := by
  unfold reasonPage
  cases h : lookupReason s with
  | none => simp only [Option.getD_none]; decide
  | some r =>
    obtain ⟨e, he, hr⟩ := lookupReason_mem h
    subst hr
    intro c hc
    exact (reasons_noAmp e he c hc).1

private theorem reasonLine_noCR (s : Nat) : ∀ c ∈ reasonLine s, c ≠ 0x0d := by
  unfold reasonLine
  cases h : lookupReason s with
  | none => simp
  | some r =>
    obtain ⟨e, he, hr⟩ := lookupReason_mem h
    subst hr
    intro c hc
    exact (reasons_noAmp e he c hc).2

private theorem digit_facts : ∀ k : Fin 10, UInt8.ofNat (48 + k.val) ≠ 0x26 ∧ UInt8.ofNat (48 + k.val) ≠ 0x0d ∧
    isDigit (UInt8.ofNat (48 + k.val)) = true ∧ isOws (UInt8.ofNat (48 + k.val)) = false ∧
    (UInt8.ofNat (48 + k.val)).toNat - 48 = k.val := by decide

private theorem digit_ok (n : Nat) : digit n ≠ 0x26 ∧ digit n ≠ 0x0d ∧ isDigit (digit n) = true ∧
    isOws (digit n) = false ∧ (digit n).toNat - 48 = n % 10 :=
  digit_facts ⟨n % 10, Nat.mod_lt _ (by decide)⟩

private theorem statusText_noAmp (s : Nat) : ∀ c ∈ statusText s, c ≠ 0x26 := by
  intro c hc
  simp only [statusText, dec3, List.mem_append, List.mem_cons, List.not_mem_nil, or_false] at hc
  rcases hc with (rfl | rfl | rfl) | rfl | hc
  · exact (digit_ok _).1
  · exact (digit_ok _).1
  · exact (digit_ok _).1
  · decide
  · exact reasonPage_ok s c hc

/-- **C12 (ampersands).** Every `&` of the whole page starts one of the five entities. -/
theorem page_amps_ok (s : Nat) (m : Bytes) : ampsOk (formatError s m) = true := by
  apply Del.ampsOk (page_is_template s m)
  unfold template
  have hst := ampsOk_of_noAmp _ (statusText_noAmp s)
  have hA : ampsOk tplA = true := by decide
  have hB : ampsOk tplB = true := by decide
  have hC : ampsOk tplC = true := by decide
  have hD : ampsOk tplD = true := by decide
  exact ampsOk_append _ _ (ampsOk_append _ _ (ampsOk_append _ _ (ampsOk_append _ _ (ampsOk_append _ _
    (ampsOk_append _ _ hA hst) hB) hst) hC) (escape_ampsOk m)) hD

-- the model is the real page: format_error(502, "<'") computed by the kernel
example : formatError 502 [0x3c, 0x27] = strBytes
    "<html>\n<head>\n    <title>502 Bad Gateway</title>\n</head>\n<body>\n    <h1>502 Bad Gateway</h1>\n    <p>&lt;&#x27;</p>\n</body>\n</html>" := by
  decide +kernel
-- a message line without indentation makes the common margin empty: nothing is dedented (as CPython does)
example : formatError 502 [0x61, 0x0a, 0x62] = strBytes
    "<html>\n    <head>\n        <title>502 Bad Gateway</title>\n    </head>\n    <body>\n        <h1>502 Bad Gateway</h1>\n        <p>a\nb</p>\n    </body>\n    </html>" := by
  decide +kernel

/-! ### the HTTP/1 response -/

private theorem takeLine_append : ∀ (l rest : Bytes), (∀ c ∈ l, c ≠ 0x0d) →
    takeLine (l ++ 0x0d :: 0x0a :: rest) = some (l, rest)
  | [], rest, _ => by simp [takeLine]
  | c :: l, rest, h => by
    have hc : c ≠ 0x0d := h c (by simp)
    have ih := takeLine_append l rest (fun d hd => h d (by simp [hd]))
    simp [takeLine, hc, ih]

private theorem splitColon_append : ∀ (name v : Bytes), (∀ c ∈ name, c ≠ 0x3a) →
    splitColon (name ++ 0x3a :: v) = some (name, v)
  | [], v, _ => by simp [splitColon]
  | c :: name, v, h => by
    have hc : c ≠ 0x3a := h c (by simp)
    have ih := splitColon_append name v (fun d hd => h d (by simp [hd]))
    simp [splitColon, hc, ih]

private theorem dropWhile_self {q : UInt8 → Bool} : ∀ (l : Bytes), (∀ c ∈ l, q c = false) → l.dropWhile q = l
  | [], _ => rfl
  | c :: l, h => by simp [h c (by simp)]

private theorem mem_decRev : ∀ (f n : Nat) (c : UInt8), c ∈ decRev f n → ∃ k, c = digit k
  | 0, _, c, h => by simp [decRev] at h
  | f + 1, n, c, h => by
    simp only [decRev, List.mem_cons] at h
    rcases h with h | h
    · exact ⟨n, h⟩
    · split at h
      · simp at h
      · exact mem_decRev f _ c h

private theorem mem_natDec (n : Nat) (c : UInt8) (h : c ∈ natDec n) : ∃ k, c = digit k := by
  simp only [natDec, List.mem_reverse] at h
  exact mem_decRev _ _ c h

private theorem natDec_ne_nil (n : Nat) : natDec n ≠ [] := by
  simp [natDec, decRev]

private def valLE (l : Bytes) : Option Nat := l.foldr (fun c acc => parseDecStep acc c) (some 0)

private theorem valLE_decRev : ∀ (f n : Nat), n < f → valLE (decRev f n) = some n
  | 0, n, h => by omega
  | f + 1, n, h => by
    simp only [decRev]
    split
    · next hn =>
      have hd := digit_ok n
      simp only [valLE, List.foldr_cons, List.foldr_nil, parseDecStep, hd.2.2.1, if_true, hd.2.2.2.2]
      congr 1; omega
    · next hn =>
      have ih := valLE_decRev f (n / 10) (by omega)
      have hd := digit_ok n
      simp only [valLE, List.foldr_cons] at ih ⊢
      rw [ih]
      simp only [parseDecStep, hd.2.2.1, if_true, hd.2.2.2.2]
      congr 1; omega

private theorem parseDec_natDec (n : Nat) : parseDec (natDec n) = some n := by
  unfold parseDec
  rw [if_neg (natDec_ne_nil n)]
  have := valLE_decRev (n + 1) n (by omega)
  simpa [natDec, valLE, List.foldl_reverse] using this

private theorem trimOws_sp_natDec (n : Nat) : trimOws (0x20 :: natDec n) = natDec n := by
  have hno : ∀ c ∈ natDec n, isOws c = false := by
    intro c hc; obtain ⟨k, rfl⟩ := mem_natDec n c hc; exact (digit_ok k).2.2.2.1
  have hno' : ∀ c ∈ (natDec n).reverse, isOws c = false := by
    intro c hc; exact hno c (List.mem_reverse.mp hc)
  unfold trimOws
  have h1 : (0x20 :: natDec n).dropWhile isOws = natDec n := by
    rw [List.dropWhile_cons]
    simp only [show isOws 0x20 = true from by decide, if_true]
    exact dropWhile_self _ hno
  rw [h1, dropWhile_self _ hno', List.reverse_reverse]

private theorem statusLine_ok (s : Nat) (hs : 100 ≤ s ∧ s ≤ 999) :
    parseStatusLine (httpVer ++ dec3 s ++ 0x20 :: reasonLine s) = some (s, reasonLine s) := by
  have h1 := digit_ok (s / 100)
  have h2 := digit_ok (s / 10)
  have h3 := digit_ok s
  simp only [parseStatusLine, httpVer, dec3, List.cons_append, List.nil_append, List.isPrefixOf_cons_cons,
    List.isPrefixOf_nil_left, beq_self_eq_true, Bool.and_self, if_true, List.length_cons, List.length_nil,
    List.drop_succ_cons, List.drop_zero, h1.2.2.1, h2.2.2.1, h3.2.2.1, h1.2.2.2.2, h2.2.2.2.2, h3.2.2.2.2,
    decide_true, Nat.reduceAdd]
  congr 2
  omega

private theorem headerLines_consts :
    splitField (hServer ++ Gen.C12.serverHeader) = some (nServer, Gen.C12.serverHeader) ∧
    splitField hConn = some (nConn, vClose) ∧ splitField hCT = some (nCT, vHtml) ∧
    (∀ c ∈ hServer ++ Gen.C12.serverHeader, c ≠ 0x0d) ∧ (∀ c ∈ hConn, c ≠ 0x0d) ∧ (∀ c ∈ hCT, c ≠ 0x0d) ∧
    (∀ c ∈ httpVer, c ≠ 0x0d) ∧ (∀ c ∈ hCL, c ≠ 0x0d) ∧ asciiLower nCL = nCL ∧ (∀ c ∈ nCL, c ≠ 0x3a) := by
  decide +kernel

private theorem clLine_ok (n : Nat) : splitField (hCL ++ natDec n) = some (nCL, natDec n) := by
  have : hCL ++ natDec n = nCL ++ 0x3a :: 0x20 :: natDec n := by simp [hCL, nCL]
  rw [this]
  unfold splitField
  rw [splitColon_append _ _ headerLines_consts.2.2.2.2.2.2.2.2.2]
  have hne : nCL ≠ [] := by decide
  simp only [if_neg hne, headerLines_consts.2.2.2.2.2.2.2.2.1, trimOws_sp_natDec]

private theorem parseHeaders_line (f : Nat) (l rest : Bytes) (h : Bytes × Bytes) (hl : ∀ c ∈ l, c ≠ 0x0d)
    (hne : l ≠ []) (hs : splitField l = some h) :
    parseHeaders (f + 1) (l ++ 0x0d :: 0x0a :: rest) = (parseHeaders f rest).map fun p => (h :: p.1, p.2) := by
  rw [parseHeaders, takeLine_append l rest hl]
  cases l with
  | nil => exact absurd rfl hne
  | cons c l => simp only [hs]

private theorem parseHeaders_end (f : Nat) (body : Bytes) :
    parseHeaders (f + 1) (0x0d :: 0x0a :: body) = some ([], body) := by
  simp [parseHeaders, takeLine]

private theorem refParse_assemble (s : Nat) (body : Bytes) (hs : 100 ≤ s ∧ s ≤ 999) :
    refParse (assembleError s body) = some (expected s body) := by
  obtain ⟨cS, cConn, cCT, crS, crConn, crCT, crVer, crCL, _, _⟩ := headerLines_consts
  have hsl : ∀ c ∈ httpVer ++ dec3 s ++ 0x20 :: reasonLine s, c ≠ 0x0d := by
    intro c hc
    simp only [dec3, List.mem_append, List.mem_cons, List.not_mem_nil, or_false] at hc
    rcases hc with (hc | rfl | rfl | rfl) | rfl | hc
    · exact crVer c hc
    · exact (digit_ok _).2.1
    · exact (digit_ok _).2.1
    · exact (digit_ok _).2.1
    · decide
    · exact reasonLine_noCR s c hc
  have hcl : ∀ c ∈ hCL ++ natDec body.length, c ≠ 0x0d := by
    intro c hc
    simp only [List.mem_append] at hc
    rcases hc with hc | hc
    · exact crCL c hc
    · obtain ⟨k, rfl⟩ := mem_natDec _ c hc; exact (digit_ok k).2.1
  have hshape : assembleError s body =
      (httpVer ++ dec3 s ++ 0x20 :: reasonLine s) ++ 0x0d :: 0x0a ::
      ((hServer ++ Gen.C12.serverHeader) ++ 0x0d :: 0x0a :: (hConn ++ 0x0d :: 0x0a :: (hCT ++ 0x0d :: 0x0a ::
      ((hCL ++ natDec body.length) ++ 0x0d :: 0x0a :: (0x0d :: 0x0a :: body))))) := by
    simp [assembleError, crlf, List.append_assoc]
  have hlen : ∃ k, (assembleError s body).length = k + 5 := by
    refine ⟨(assembleError s body).length - 5, ?_⟩
    have : 5 ≤ (assembleError s body).length := by
      rw [hshape]; simp only [List.length_append, List.length_cons]; omega
    omega
  obtain ⟨k, hk⟩ := hlen
  unfold refParse
  rw [hk]
  rw [hshape, takeLine_append _ _ hsl]
  simp only [statusLine_ok s hs]
  rw [parseHeaders_line _ _ _ _ crS (by simp [hServer]) cS,
      parseHeaders_line _ _ _ _ crConn (by decide) cConn,
      parseHeaders_line _ _ _ _ crCT (by decide) cCT,
      parseHeaders_line _ _ _ _ hcl (by simp [hCL]) (clLine_ok _),
      parseHeaders_end]
  have hf : List.filter (fun h : Bytes × Bytes => h.1 == nCL)
      [(nServer, Gen.C12.serverHeader), (nConn, vClose), (nCT, vHtml), (nCL, natDec body.length)]
      = [(nCL, natDec body.length)] := by
    simp [List.filter, show (nServer == nCL) = false from by decide, show (nConn == nCL) = false from by decide,
      show (nCT == nCL) = false from by decide]
  simp only [Option.map_some, hf, parseDec_natDec, if_true, expected]

/-- **C12 (HTTP/1 framing).** For every message and every status 100..999 the bytes of
    `make_error_response` are one complete HTTP/1.1 response for an independent reader: status line
    with that status, the fields `Server`, `Connection: close`, `Content-Type: text/html` and one
    `content-length` whose value is the exact length of the body, the body is the page, and nothing
    follows it. -/
theorem page_wellformed (s : Nat) (m : Bytes) (hs : 100 ≤ s ∧ s ≤ 999) :
    refParse (makeErrorResponse s m) = some (expected s (formatError s m)) :=
  refParse_assemble s _ hs

example : (expected 400 [0x61]).headers.lookup nCT = some vHtml ∧ (expected 400 [0x61]).headers.lookup nConn = some vClose := by
  decide +kernel
-- the reader does reject: truncated body, surplus bytes, bare LF line ends
example : refParse (makeErrorResponse 400 [0x3c] ++ [0x61]) = none ∧
          refParse ((makeErrorResponse 400 [0x3c]).dropLast) = none ∧
          refParse (strBytes "HTTP/1.1 400 Bad Request\ncontent-length: 0\n\n") = none := by
  decide +kernel

/-- **C12 (HTTP/1 declares HTML).** The response the reference reader extracts from `make_error_response` declares
    `Content-Type: text/html` and `Connection: close`, for every status and page. -/
theorem h1_declares_html (s : Nat) (body : Bytes) :
    (expected s body).headers.lookup nCT = some vHtml ∧ (expected s body).headers.lookup nConn = some vClose := by
  have a1 : (nCT == nServer) = false := by decide
  have a2 : (nCT == nConn) = false := by decide
  have a3 : (nConn == nServer) = false := by decide
  simp [expected, List.lookup, a1, a2, a3]

/-- **C12 (HTTP/2, HTTP/3).** The header list of the error page sent over HTTP/2 declares `text/html`
    and carries the three-digit status. -/
theorem h2_declares_html (s : Nat) :
    (h2ErrorHeaders s).lookup nCT = some vHtml ∧ (h2ErrorHeaders s).lookup nStatus = some (dec3 s) := by
  have h1 : (nCT == nStatus) = false := by decide
  have h2 : (nCT == nServer) = false := by decide
  simp [h2ErrorHeaders, List.lookup, h1, h2]

/-- every status an `ErrorCode` maps to (regenerated from /repo) lies in the domain 100..999 of the
    theorems above, or no page is sent (0) -/
theorem error_status_in_domain :
    ∀ e ∈ Gen.C12.errorStatus, e.2 = 0 ∨ (100 ≤ e.2 ∧ e.2 ≤ 999) := by decide +kernel

private theorem errorStatus_domain (code s : Nat) (h : errorStatus code = some s) : 100 ≤ s ∧ s ≤ 999 := by
  unfold errorStatus at h
  cases hf : Gen.C12.errorStatus.find? (fun e => e.1 == code) with
  | none => rw [hf] at h; simp at h
  | some e =>
    rw [hf] at h
    have hm := error_status_in_domain e (List.mem_of_find?_eq_some hf)
    obtain ⟨c, v⟩ := e
    cases v with
    | zero => simp at h
    | succ v =>
      simp only [Option.some.injEq] at h
      subst h
      rcases hm with hm | hm
      · simp at hm
      · exact hm

/-- **C12 (the HTTP/1 send site).** Whatever the error code, message and connection state: if
    `Http1Server.send(ResponseProtocolError)` writes anything to the client, it is one complete, correctly framed
    response whose status is the one the code maps to (100..999), with the page for exactly this message as body,
    and the connection is closed right after it; and it never writes into a response that has already started. -/
theorem h1_error_reply_wellformed (canWrite started : Bool) (code : Nat) (m b : Bytes)
    (h : (h1ErrorReply canWrite started code m).1 = some b) :
    ∃ s, errorStatus code = some s ∧ 100 ≤ s ∧ s ≤ 999 ∧ started = false ∧
      refParse b = some (expected s (formatError s m)) ∧ (h1ErrorReply canWrite started code m).2 = true := by
  unfold h1ErrorReply at h ⊢
  cases canWrite with
  | false => simp at h
  | true =>
    simp only [Bool.not_true, Bool.false_eq_true, if_false] at h ⊢
    cases hs : errorStatus code with
    | none => rw [hs] at h; simp at h
    | some s =>
      rw [hs] at h
      simp only at h ⊢
      cases started with
      | true => simp at h
      | false =>
        simp only [Bool.false_eq_true, if_false, Option.some.injEq] at h ⊢
        subst h
        have hd := errorStatus_domain code s hs
        exact ⟨s, rfl, hd.1, hd.2, trivial, page_wellformed s m hd, trivial⟩

/-- **C12 (declares HTML, stated on the response itself).** Whatever the reference reader extracts from
    `make_error_response(status, m)` declares `Content-Type: text/html` and `Connection: close`, has that status, and
    its body is the page. -/
theorem make_error_response_declares_html (s : Nat) (m : Bytes) (hs : 100 ≤ s ∧ s ≤ 999) (r : Resp)
    (h : refParse (makeErrorResponse s m) = some r) :
    r.headers.lookup nCT = some vHtml ∧ r.headers.lookup nConn = some vClose ∧ r.body = formatError s m ∧ r.status = s := by
  rw [page_wellformed s m hs] at h
  injection h with h
  subst h
  exact ⟨(h1_declares_html s _).1, (h1_declares_html s _).2, by simp only [expected], by simp only [expected]⟩

/-- the same for whatever `Http1Server.send(ResponseProtocolError)` writes: it parses, and declares `text/html` -/
theorem h1_error_reply_declares_html (canWrite started : Bool) (code : Nat) (m b : Bytes)
    (h : (h1ErrorReply canWrite started code m).1 = some b) :
    ∃ r, refParse b = some r ∧ r.headers.lookup nCT = some vHtml := by
  obtain ⟨s, _, _, _, _, hp, _⟩ := h1_error_reply_wellformed canWrite started code m b h
  exact ⟨_, hp, (h1_declares_html s _).1⟩

example : ∃ r, refParse (makeErrorResponse 413 [0x26]) = some r ∧ r.headers.lookup nCT = some vHtml :=
  ⟨_, page_wellformed 413 [0x26] (by decide), (h1_declares_html 413 _).1⟩

/-- **C12 (no page into a started or upgraded exchange).** An error page is written only when NO response head has
    gone out to this client yet: never after a `101 Switching Protocols` (the connection speaks another protocol),
    never after a final head (2xx–5xx, with or without part of its body) — there the error path only closes — and,
    as the code stands, not after an interim head either.  When it is written, the client's wire is exactly that one
    complete, correctly framed response. -/
theorem error_page_only_before_any_head (canWrite : Bool) (relayed : Option Nat) (code : Nat) (m b : Bytes)
    (h : (h1ErrorReplyAfter canWrite relayed code m).1 = some b) :
    relayed = none ∧ ∃ s, errorStatus code = some s ∧ clientWire [] canWrite relayed code m = b ∧
      refParse b = some (expected s (formatError s m)) := by
  unfold h1ErrorReplyAfter at h
  obtain ⟨s, hs, _, _, hst, hp, _⟩ := h1_error_reply_wellformed canWrite relayed.isSome code m b h
  refine ⟨by cases relayed <;> simp_all, s, hs, ?_, hp⟩
  simp [clientWire, h1ErrorReplyAfter, h]

/-- after a `101` or a final head the client's wire is what was relayed and nothing else, whatever the error -/
theorem wire_unchanged_after_101_or_final (relayedBytes : Bytes) (canWrite : Bool) (st code : Nat) (m : Bytes)
    (_ : st = 101 ∨ 200 ≤ st) : clientWire relayedBytes canWrite (some st) code m = relayedBytes := by
  have : (h1ErrorReplyAfter canWrite (some st) code m).1 = none := by
    cases hr : (h1ErrorReplyAfter canWrite (some st) code m).1 with
    | none => rfl
    | some b => have := (error_page_only_before_any_head canWrite (some st) code m b hr).1; simp at this
  simp [clientWire, this]

example : (h1ErrorReplyAfter true none 2 [0x3c]).1.isSome = true ∧ (h1ErrorReplyAfter true (some 101) 2 [0x3c]) = (none, true) ∧
          (h1ErrorReplyAfter true (some 200) 2 [0x3c]) = (none, true) ∧ (h1ErrorReplyAfter true (some 100) 2 [0x3c]) = (none, true) := by
  decide +kernel

private theorem h1_reply_some (cw : Bool) (rel : Option Nat) (code : Nat) (m b : Bytes)
    (h : (h1ErrorReplyAfter cw rel code m).1 = some b) :
    cw = true ∧ rel = none ∧ (h1ErrorReplyAfter cw rel code m).2 = true ∧ ∃ s, errorStatus code = some s ∧ b = makeErrorResponse s m := by
  have hrel := (error_page_only_before_any_head cw rel code m b h).1
  subst hrel
  unfold h1ErrorReplyAfter h1ErrorReply at h ⊢
  cases cw with
  | false => simp at h
  | true =>
    simp only [Option.isSome_none, Bool.not_true, Bool.false_eq_true, if_false] at h ⊢
    cases hs : errorStatus code with
    | none => rw [hs] at h; simp at h
    | some s =>
      rw [hs] at h
      simp only [Option.some.injEq] at h ⊢
      exact ⟨trivial, trivial, trivial, s, rfl, h.symm⟩

private def H1Inv (c : H1Conn) : Prop :=
  c.pages ≤ 1 ∧
  (c.pages = 1 → c.canWrite = false ∧ ∃ s code m, errorStatus code = some s ∧ c.wire = makeErrorResponse s m) ∧
  (c.pages = 0 → c.relayed = none → c.wire = [])

private theorem h1Inv_step (c : H1Conn) (op : H1Op) (hi : H1Inv c) : H1Inv (h1Step c op) := by
  obtain ⟨h1, h2, h3⟩ := hi
  cases op with
  | relay st hb =>
    refine ⟨h1, ?_, ?_⟩
    · intro hp
      obtain ⟨hc, hw⟩ := h2 hp
      simp only [h1Step, hc, Bool.false_eq_true, if_false]
      exact ⟨trivial, hw⟩
    · intro _ hr; simp [h1Step] at hr
  | body ch =>
    refine ⟨h1, ?_, ?_⟩
    · intro hp
      obtain ⟨hc, hw⟩ := h2 hp
      simp only [h1Step, hc, Bool.false_and, Bool.false_eq_true, if_false]
      exact ⟨trivial, hw⟩
    · intro hp hr
      have hr' : c.relayed = none := hr
      simp only [h1Step, hr', Option.isSome_none, Bool.and_false, Bool.false_eq_true, if_false]
      exact h3 hp hr'
  | error code m =>
    cases hr : (h1ErrorReplyAfter c.canWrite c.relayed code m).1 with
    | none =>
      simp only [H1Inv, h1Step, hr, Option.getD_none, List.append_nil, Option.isSome_none, Bool.false_eq_true, if_false,
        Nat.add_zero]
      refine ⟨h1, ?_, h3⟩
      intro hp
      obtain ⟨hc, hw⟩ := h2 hp
      exact ⟨by simp [hc], hw⟩
    | some b =>
      obtain ⟨hcw, hrel, hcl, s, hs, hb⟩ := h1_reply_some _ _ _ _ _ hr
      have hp0 : c.pages = 0 := by
        rcases Nat.lt_or_ge c.pages 1 with hlt | hge
        · omega
        · have : c.pages = 1 := by omega
          have := (h2 this).1; rw [hcw] at this; cases this
      have hw := h3 hp0 hrel
      simp only [H1Inv, h1Step, hr, Option.getD_some, Option.isSome_some, if_true, hp0, hw, List.nil_append, hcl,
        Bool.not_true, Bool.and_false]
      exact ⟨by omega, fun _ => ⟨trivial, s, code, m, hs, hb⟩, fun h => by omega⟩

/-- **C12 (whole connection).** For EVERY sequence of relayed heads, body chunks and errors on one HTTP/1 client
    connection: at most one error page is ever written, and if one was written the client's wire is exactly that one
    complete, correctly framed response — nothing was relayed before it, nothing is written after it, and the
    connection is closed. -/
theorem h1_history_at_most_one_page (ops : List H1Op) :
    (h1Run ops).pages ≤ 1 ∧
    ((h1Run ops).pages = 1 → (h1Run ops).canWrite = false ∧
      ∃ s code m, errorStatus code = some s ∧ 100 ≤ s ∧ s ≤ 999 ∧ (h1Run ops).wire = makeErrorResponse s m ∧
        refParse (h1Run ops).wire = some (expected s (formatError s m))) := by
  have hinv : ∀ (ops : List H1Op) (c : H1Conn), H1Inv c → H1Inv (ops.foldl h1Step c) := by
    intro ops
    induction ops with
    | nil => intro c h; exact h
    | cons op ops ih => intro c h; exact ih _ (h1Inv_step c op h)
  have h0 : H1Inv ⟨none, true, [], 0⟩ := by
    refine ⟨by decide, ?_, fun _ _ => rfl⟩
    intro h; simp at h
  have hrun : H1Inv (h1Run ops) := hinv ops _ h0
  obtain ⟨h1, h2, _⟩ := hrun
  refine ⟨h1, ?_⟩
  intro hp
  obtain ⟨hc, s, code, m, hs, hw⟩ := h2 hp
  have hd := errorStatus_domain code s hs
  exact ⟨hc, s, code, m, hs, hd.1, hd.2, hw, by rw [hw]; exact page_wellformed s m hd⟩

example : (h1Run [.error 2 [0x3c], .error 2 [0x3c], .relay 200 [0x41]]).pages = 1 ∧
          (h1Run [.relay 101 [0x41], .error 2 [0x3c]]) = ⟨some 101, false, [0x41], 0⟩ ∧
          (h1Run [.relay 200 [0x41], .body [0x42], .error 2 [0x3c], .body [0x43]]).wire = [0x41, 0x42] := by decide +kernel

/-- **C12 (the HTTP/2 send site).** Whatever the stream state, error code and message: if the HTTP/2 error path sends
    a page at all, the stream could still take a response (open for us, no response HEADERS sent yet), the header
    block is `:status` (three digits of a status 100..999) / `server` / `content-type: text/html`, and the body is the
    page for exactly this message (to which all page theorems apply: no markup from the message, every & an entity).
    In every other state it sends RST_STREAM or nothing — never a page after response headers. -/
theorem h2_error_reply_page (closed openForUs headersSent : Bool) (code : Nat) (m : Bytes)
    (hd : List (Bytes × Bytes)) (body : Bytes)
    (h : h2ErrorReply closed openForUs headersSent code m = .page hd body) :
    closed = false ∧ openForUs = true ∧ headersSent = false ∧
    ∃ s, errorStatus code = some s ∧ 100 ≤ s ∧ s ≤ 999 ∧ hd = h2ErrorHeaders s ∧ hd.lookup nCT = some vHtml ∧
      body = formatError s m ∧ body.filter isMarkup = (template s []).filter isMarkup ∧ ampsOk body = true := by
  unfold h2ErrorReply at h
  cases closed with
  | true => simp at h
  | false =>
    simp only [Bool.false_eq_true, if_false] at h
    cases hs : errorStatus code with
    | none => rw [hs] at h; simp at h
    | some s =>
      rw [hs] at h
      simp only at h
      cases openForUs <;> cases headersSent <;> simp at h
      obtain ⟨h1, h2⟩ := h
      subst h1; subst h2
      have hdom := errorStatus_domain code s hs
      exact ⟨rfl, rfl, rfl, s, rfl, hdom.1, hdom.2, rfl, (h2_declares_html s).1, rfl,
        page_markup_independent s m, page_amps_ok s m⟩

example : h2ErrorReply false true false 2 [0x3c] = .page (h2ErrorHeaders 502) (formatError 502 [0x3c]) ∧
          h2ErrorReply false true true 2 [0x3c] = .reset 2 ∧ h2ErrorReply false true false 7 [0x3c] = .reset 2 ∧
          h2ErrorReply false true false 8 [] = .reset 13 ∧ h2ErrorReply false false true 11 [] = .reset 8 ∧
          h2ErrorReply true true false 2 [] = .nothing := by decide +kernel

-- a code without status (KILL = 7) closes without a page; a started response is never written into
example : h1ErrorReply true false 7 [0x3c] = (none, true) ∧ h1ErrorReply true true 1 [0x3c] = (none, true) ∧
          h1ErrorReply false false 1 [0x3c] = (none, false) ∧ (h1ErrorReply true false 3 [0x3c]).1.isSome = true := by
  decide +kernel

/-! ### audit round 6: non-vacuity witnesses (hypotheses instantiated on concrete, non-trivial values) -/

-- `page_wellformed`: a status of the domain and a message made of markup — the reference reader returns the expected response
example : (100 ≤ 502 ∧ 502 ≤ 999) ∧
    refParse (makeErrorResponse 502 [0x3c, 0x27, 0x26]) = some (expected 502 (formatError 502 [0x3c, 0x27, 0x26])) := by
  decide +kernel

-- `h1_error_reply_wellformed` / `error_page_only_before_any_head`: the hypothesis "a page is written" holds for a writable
-- connection without response head and an error code that maps to a status (2 -> 502), with exactly this page
example : (h1ErrorReply true false 2 [0x3c]).1 = some (makeErrorResponse 502 [0x3c]) ∧
    (h1ErrorReplyAfter true none 2 [0x3c]).1 = some (makeErrorResponse 502 [0x3c]) ∧ errorStatus 2 = some 502 := by
  decide +kernel

-- `h1_history_at_most_one_page`: a history in which the page IS written (pages = 1): the wire is that response, closed
example : (h1Run [.error 2 [0x3c], .relay 200 [0x41], .body [0x42], .error 1 [0x3e]]).pages = 1 ∧
    (h1Run [.error 2 [0x3c], .relay 200 [0x41], .body [0x42], .error 1 [0x3e]]).canWrite = false ∧
    (h1Run [.error 2 [0x3c], .relay 200 [0x41], .body [0x42], .error 1 [0x3e]]).wire = makeErrorResponse 502 [0x3c] := by
  decide +kernel

-- `error_status_in_domain` / `errorStatus_domain`: the regenerated map is not empty and does map codes to pages
example : Gen.C12.errorStatus ≠ [] ∧ Gen.C12.errorStatus.any (fun e => e.2 != 0) = true ∧
    Gen.C12.errorStatus.any (fun e => e.2 == 0) = true := by decide +kernel

-- `wire_unchanged_after_101_or_final`: after a relayed 101 the error path adds nothing to the client's wire
example : clientWire [0x41, 0x42] true (some 101) 2 [0x3c] = [0x41, 0x42] ∧ (101 = 101 ∨ 200 ≤ 101) := by decide +kernel

end MitmVerif.Props.C12
