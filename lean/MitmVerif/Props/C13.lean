/-
  C13 — property theorems (model: MitmVerif/Model/C13.lean).

  * `parse_total`             every input gives incomplete | hello | invalid
  * `prefix_stable_hello`, `prefix_stable_invalid`, `prefix_stable`
                              hello / invalid are final under appending bytes
  * `seg_independent`, `seg_independent'`
                              segment-by-segment feeding (recv_buffer) = parsing the concatenation
  * `record_split_invariant`  any two valid record chunkings of the same handshake bytes parse alike (TLS and DTLS)
  * `agrees_with_builder`     parse (records of a well-formed structured hello, any chunking, any trailing bytes) = its view
  * `built_any_split`         … and under any TCP segmentation of that wire image
  * `alpn_of_built`, `sni_of_built`, `extensions_of_built`  the accessors agree with a reader of the structured hello
  * `starts_table_is_function`, `starts_three_bytes_suffice`
                              the probed starts_like_*_record table equals the source expression (transcribed from the
                              AST) on EVERY byte string, and that expression reads three bytes only
  * `parse_records_payload`, `payload_prefix_only`, `payload_only`, `hello_depends_only_on_payload`, `payload_incomplete`
                              the result is a function of the hello message inside the concatenated record payload, for every
                              record cutting, every segmentation, anything after the hello (in the payload or after the records)
  * `validHost_of_labels`, `validHost_too_long`, `validHost_non_ascii`, `sni_outright`
                              is_valid_host transcribed (idna fast path, 255 rule, trailing dot, split, label regex): SNI of
                              LDH/underscore names is reported outright, independent of the idna/ipaddress library answers
  * `validHostT_closed_form`, `validHostT_lib_free`, `sni_lib_free`
                              with `ipaddress.ip_address` = C22.parseIp inside the model, is_valid_host of a name without `xn--` is a
                              closed expression; SNI of any parsed hello without `xn--` candidates needs no library answer
  * `toUnicode_congr`, `decodeIdna_congr`, `validHostN_congr`, `validHostN_lib_free`, `toUnicode_roundtrip`,
    `validHost_alabel_example`  the idna codec (punycode, ToASCII/ToUnicode, Codec.decode) inside the model: nameprep is the only
                              parameter left and is asked only about the punycode-decoded `xn--` labels; an IDN name is valid outright
                              given one nameprep fact
  * `nameprep_bucher`, `validHost_alabel_outright`, `validHostFull_closed_form`, `sni_full`
                              nameprep (map, NFKC of ucd_3_2_0, prohibit, bidi) inside the model on tables regenerated from the interpreter:
                              `validHostFull` has no parameter; an IDN name is valid outright
  * `dtlsFlight_eq_records`, `record_short_header_incomplete`, `validHostN_ascii`, `sni_is_ascii`
                              (owner round 6) the DTLS flight = `records ∘ fragsOf` as op `build` runs them; short headers are incomplete;
                              a valid host is ASCII for every nameprep, hence `ClientHello.sni`'s final decode cannot raise
  * `record_any_size_accepted`, `record_header_prefix_incomplete`
                              records of every length 1…65535 are read (no 2^14 bound in the code; examples at 16384, 16385, 65535);
                              a header announcing any such length with too few bytes after it is incomplete, never invalid
  * `dtls_fragment_invariant_partial` / `_counterexample`
                              DTLS handshake fragmentation (RFC 6347 §4.2.3): full statement `DtlsFragmentInvariant`
                              is FALSE for the current code (finding F-C13a); proved for unfragmented flights only.
-/
import MitmVerif.Model.C13
import MitmVerif.Model.C13_Idna
import MitmVerif.Model.C13_Nameprep
namespace MitmVerif.Props.C13
open MitmVerif MitmVerif.C13 MitmVerif.C13.Build MitmVerif.C13.Idna MitmVerif.C13.Np

private theorem getD_append_left (l q : Bytes) (i : Nat) (h : i < l.length) :
    (l ++ q).getD i 0 = l.getD i 0 := by
  simp [List.getD_eq_getElem?_getD, List.getElem?_append_left h]

private theorem hdrLen_pos (dtls : Bool) : 5 ≤ hdrLen dtls := by
  unfold hdrLen; split <;> omega

/-- a complete record shortens the data -/
private theorem nextRecord_ok_length {dtls : Bool} {d b r : Bytes}
    (h : nextRecord dtls d = .ok (b, r)) : r.length < d.length := by
  unfold nextRecord at h
  have := hdrLen_pos dtls
  simp only at h
  split at h; · cases h
  split at h; · cases h
  split at h; · cases h
  split at h; · cases h
  cases h
  rw [List.length_drop]; omega

private theorem nextRecord_append_ok {dtls : Bool} {d b r : Bytes} (q : Bytes)
    (h : nextRecord dtls d = .ok (b, r)) : nextRecord dtls (d ++ q) = .ok (b, r ++ q) := by
  unfold nextRecord at h ⊢
  simp only at h ⊢
  split at h; · cases h
  rename_i h1
  split at h; · cases h
  rename_i h2
  split at h; · cases h
  rename_i h3
  split at h; · cases h
  rename_i h4
  cases h
  have hn : hdrLen dtls ≤ d.length := by omega
  have htake : List.take (hdrLen dtls) (d ++ q) = List.take (hdrLen dtls) d :=
    List.take_append_of_le_length hn
  rw [htake]
  simp only [List.length_append]
  rw [if_neg (by omega), if_neg h2, if_neg h3, if_neg (by omega)]
  congr 2
  · rw [List.drop_append_of_le_length hn, List.take_append_of_le_length]
    rw [List.length_drop]; omega
  · rw [List.drop_append_of_le_length]; omega

private theorem nextRecord_append_invalid {dtls : Bool} {d : Bytes} (q : Bytes)
    (h : nextRecord dtls d = .invalid) : nextRecord dtls (d ++ q) = .invalid := by
  unfold nextRecord at h ⊢
  simp only at h ⊢
  split at h; · cases h
  rename_i h1
  have hn : hdrLen dtls ≤ d.length := by omega
  have htake : List.take (hdrLen dtls) (d ++ q) = List.take (hdrLen dtls) d :=
    List.take_append_of_le_length hn
  rw [htake]
  simp only [List.length_append]
  rw [if_neg (by omega)]
  split at h
  · rename_i h2; rw [if_pos h2]
  rename_i h2
  rw [if_neg h2]
  split at h
  · rename_i h3; rw [if_pos h3]
  split at h <;> cases h


private theorem getHelloF_fuel (dtls : Bool) : ∀ (f1 f2 : Nat) (acc d : Bytes),
    d.length < f1 → d.length < f2 → getHelloF f1 dtls acc d = getHelloF f2 dtls acc d := by
  intro f1
  induction f1 with
  | zero => intro f2 acc d h; omega
  | succ f1 ih =>
    intro f2 acc d h1 h2
    cases f2 with
    | zero => omega
    | succ f2 =>
      simp only [getHelloF]
      cases hr : nextRecord dtls d with
      | incomplete => rfl
      | invalid => rfl
      | ok p =>
        obtain ⟨b, r⟩ := p
        have := nextRecord_ok_length hr
        simp only
        cases complete? dtls (acc ++ b) with
        | some m => rfl
        | none => exact ih f2 (acc ++ b) r (by omega) (by omega)

/-- one loop iteration of `get_client_hello`, fuel-free -/
private theorem getHello_step (dtls : Bool) (acc d : Bytes) :
    getHello dtls acc d =
      match nextRecord dtls d with
      | .incomplete => .incomplete
      | .invalid => .invalid
      | .ok (b, r) =>
        match complete? dtls (acc ++ b) with
        | some m => .ok m
        | none => getHello dtls (acc ++ b) r := by
  show getHelloF (d.length + 1) dtls acc d = _
  rw [getHelloF]
  cases hr : nextRecord dtls d with
  | incomplete => rfl
  | invalid => rfl
  | ok p =>
    obtain ⟨b, r⟩ := p
    have := nextRecord_ok_length hr
    simp only
    cases complete? dtls (acc ++ b) with
    | some m => rfl
    | none =>
      simp only
      unfold getHello
      exact getHelloF_fuel dtls _ _ _ _ (by omega) (by omega)

private theorem getHello_append_ok (dtls : Bool) (q : Bytes) : ∀ (n : Nat) (acc d m : Bytes),
    d.length ≤ n → getHello dtls acc d = .ok m → getHello dtls acc (d ++ q) = .ok m := by
  intro n
  induction n with
  | zero =>
    intro acc d m hn h
    rw [getHello_step] at h
    have : nextRecord dtls d = .incomplete := by
      unfold nextRecord; have := hdrLen_pos dtls; simp only; rw [if_pos (by omega)]
    rw [this] at h; cases h
  | succ n ih =>
    intro acc d m hn h
    rw [getHello_step] at h
    rw [getHello_step]
    cases hr : nextRecord dtls d with
    | incomplete => rw [hr] at h; cases h
    | invalid => rw [hr] at h; cases h
    | ok p =>
      obtain ⟨b, r⟩ := p
      rw [hr] at h
      rw [nextRecord_append_ok q hr]
      simp only at h ⊢
      cases hc : complete? dtls (acc ++ b) with
      | some m' => rw [hc] at h; simpa using h
      | none =>
        rw [hc] at h
        simp only at h ⊢
        have := nextRecord_ok_length hr
        exact ih (acc ++ b) r m (by omega) h

private theorem getHello_append_invalid (dtls : Bool) (q : Bytes) : ∀ (n : Nat) (acc d : Bytes),
    d.length ≤ n → getHello dtls acc d = .invalid → getHello dtls acc (d ++ q) = .invalid := by
  intro n
  induction n with
  | zero =>
    intro acc d hn h
    rw [getHello_step] at h
    have : nextRecord dtls d = .incomplete := by
      unfold nextRecord; have := hdrLen_pos dtls; simp only; rw [if_pos (by omega)]
    rw [this] at h; cases h
  | succ n ih =>
    intro acc d hn h
    rw [getHello_step] at h
    rw [getHello_step]
    cases hr : nextRecord dtls d with
    | incomplete => rw [hr] at h; cases h
    | invalid => rw [nextRecord_append_invalid q hr]
    | ok p =>
      obtain ⟨b, r⟩ := p
      rw [hr] at h
      rw [nextRecord_append_ok q hr]
      simp only at h ⊢
      cases hc : complete? dtls (acc ++ b) with
      | some m' => rw [hc] at h; cases h
      | none =>
        rw [hc] at h
        simp only at h ⊢
        have := nextRecord_ok_length hr
        exact ih (acc ++ b) r (by omega) h



private theorem be16_w16 (n : Nat) (h : n < 65536) :
    be16 (UInt8.ofNat (n / 256)) (UInt8.ofNat (n % 256)) = n := by
  simp only [be16, UInt8.toNat_ofNat']; omega

private theorem be24_w24 (n : Nat) (h : n < 16777216) :
    be24 (UInt8.ofNat (n / 65536)) (UInt8.ofNat (n / 256 % 256)) (UInt8.ofNat (n % 256)) = n := by
  simp only [be24, UInt8.toNat_ofNat']; omega

private theorem startsLike_append (dtls : Bool) (pre x : Bytes) (h : 3 ≤ pre.length) :
    startsLike dtls (pre ++ x) = startsLike dtls pre := by
  match pre, h with
  | a :: b :: c :: r, _ => simp [startsLike]

/-- the record layer reads back exactly the record that `mkRecord` wrote -/
private theorem nextRecord_mkRecord (dtls : Bool) (ch : Bytes × Bytes) (rest : Bytes)
    (hv : ValidChunk dtls ch) :
    nextRecord dtls (mkRecord ch.1 ch.2 ++ rest) = .ok (ch.2, rest) := by
  obtain ⟨pre, c⟩ := ch
  obtain ⟨hl, hs, hpos, hlt⟩ := hv
  simp only at hl hs hpos hlt
  have h5 := hdrLen_pos dtls
  have hhdr : (pre ++ w16 c.length).length = hdrLen dtls := by simp [w16]; omega
  have hd : mkRecord pre c ++ rest = (pre ++ w16 c.length) ++ (c ++ rest) := by
    simp [mkRecord, List.append_assoc]
  unfold nextRecord
  simp only
  rw [hd, List.take_left' hhdr]
  have hlen : ((pre ++ w16 c.length) ++ (c ++ rest)).length = hdrLen dtls + (c.length + rest.length) := by
    rw [List.length_append, hhdr, List.length_append]
  rw [hlen, if_neg (by omega)]
  rw [startsLike_append dtls pre _ (by omega), hs]
  have hg1 : (pre ++ w16 c.length).getD (hdrLen dtls - 2) 0 = UInt8.ofNat (c.length / 256) := by
    have : hdrLen dtls - 2 = pre.length := by omega
    rw [this]; simp [w16, List.getD_eq_getElem?_getD]
  have hg2 : (pre ++ w16 c.length).getD (hdrLen dtls - 1) 0 = UInt8.ofNat (c.length % 256) := by
    have : hdrLen dtls - 1 = pre.length + 1 := by omega
    rw [this]; simp [w16, List.getD_eq_getElem?_getD]
  rw [hg1, hg2, be16_w16 _ hlt]
  simp only [if_false, Bool.true_eq_false]
  rw [if_neg (by omega), if_neg (by omega)]
  rw [List.drop_left' hhdr]
  congr 2
  · exact List.take_left' rfl
  · have : hdrLen dtls + c.length = ((pre ++ w16 c.length) ++ c).length := by
      rw [List.length_append, hhdr]
    rw [← List.append_assoc, List.drop_left' this.symm]

private theorem helloSize?_append (dtls : Bool) (acc x : Bytes) (n : Nat)
    (h : helloSize? dtls acc = some n) : helloSize? dtls (acc ++ x) = some n := by
  unfold helloSize? at h ⊢
  cases dtls
  · simp only [Bool.false_eq_true, if_false] at h ⊢
    split at h
    · rename_i h4
      rw [if_pos (by rw [List.length_append]; omega)]
      rw [getD_append_left _ _ 1 (by omega), getD_append_left _ _ 2 (by omega), getD_append_left _ _ 3 (by omega)]
      exact h
    · cases h
  · simp only [if_true] at h ⊢
    split at h
    · rename_i h4
      rw [if_pos (by rw [List.length_append]; omega)]
      rw [getD_append_left _ _ 9 (by omega), getD_append_left _ _ 10 (by omega), getD_append_left _ _ 11 (by omega)]
      exact h
    · cases h

/-- once the hello is complete, later record contents do not change it -/
private theorem complete?_append (dtls : Bool) (acc x m : Bytes)
    (h : complete? dtls acc = some m) : complete? dtls (acc ++ x) = some m := by
  unfold complete? at h ⊢
  cases hs : helloSize? dtls acc with
  | none => rw [hs] at h; cases h
  | some n =>
    rw [hs] at h
    rw [helloSize?_append dtls acc x n hs]
    simp only at h ⊢
    split at h
    · rename_i hn
      rw [if_pos (by rw [List.length_append]; omega), List.take_append_of_le_length hn]
      exact h
    · cases h

private theorem getHello_nil (dtls : Bool) (acc : Bytes) : getHello dtls acc [] = .incomplete := by
  cases dtls <;> rfl

/-- reading a sequence of valid records: only the concatenated contents matter -/
private theorem getHello_records (dtls : Bool) : ∀ (chunks : List (Bytes × Bytes)) (acc : Bytes),
    (∀ ch ∈ chunks, ValidChunk dtls ch) → complete? dtls acc = none →
    getHello dtls acc (records chunks) =
      match complete? dtls (acc ++ contents chunks) with
      | some m => .ok m
      | none => .incomplete := by
  intro chunks
  induction chunks with
  | nil =>
    intro acc _ hc
    simp [records, contents, getHello_nil, hc]
  | cons ch cs ih =>
    intro acc hv hc
    have hrec : records (ch :: cs) = mkRecord ch.1 ch.2 ++ records cs := by simp [records]
    have hcon : contents (ch :: cs) = ch.2 ++ contents cs := by simp [contents]
    rw [hrec, getHello_step, nextRecord_mkRecord dtls ch _ (hv ch (by simp)), hcon, ← List.append_assoc]
    simp only
    cases hc2 : complete? dtls (acc ++ ch.2) with
    | some m => simp only; rw [complete?_append dtls _ _ m hc2]
    | none =>
      simp only
      exact ih (acc ++ ch.2) (fun c hc' => hv c (by simp [hc'])) hc2


private theorem takeN_append (x r : Bytes) : takeN x.length (x ++ r) = some (x, r) := by
  unfold takeN
  rw [if_neg (by simp)]
  simp

private theorem takeN_append' (n : Nat) (x r : Bytes) (h : x.length = n) : takeN n (x ++ r) = some (x, r) := by
  subst h; exact takeN_append x r

private theorem u1_w8 (n : Nat) (r : Bytes) (h : n < 256) : u1 (w8 n ++ r) = some (n, r) := by
  simp [u1, w8, UInt8.toNat_ofNat']; omega

private theorem u2_w16 (n : Nat) (r : Bytes) (h : n < 65536) : u2 (w16 n ++ r) = some (n, r) := by
  simp only [w16, List.cons_append, List.nil_append, u2, be16_w16 n h]

private theorem u2s_enc : ∀ (cs : List Nat) (r : Bytes), (∀ c ∈ cs, c < 65536) →
    u2s cs.length (cs.flatMap w16 ++ r) = some (cs, r) := by
  intro cs
  induction cs with
  | nil => intro r _; simp [u2s]
  | cons c cs ih =>
    intro r h
    simp only [List.flatMap_cons, List.length_cons, u2s, List.append_assoc]
    rw [u2_w16 c _ (h c (by simp))]
    simp only
    rw [ih r (fun x hx => h x (by simp [hx]))]

private theorem namesF_enc : ∀ (ns : List (Nat × Bytes)) (f : Nat),
    (∀ n ∈ ns, n.1 < 256 ∧ n.2.length < 65536) → (encNames ns).length ≤ f →
    namesF f (encNames ns) = some ns := by
  intro ns
  induction ns with
  | nil => intro f _ _; cases f <;> simp [encNames, namesF]
  | cons n ns ih =>
    intro f h hf
    obtain ⟨t, nm⟩ := n
    have hw := h (t, nm) (by simp)
    simp only at hw
    have henc : encNames ((t, nm) :: ns) = UInt8.ofNat t :: (w16 nm.length ++ (nm ++ encNames ns)) := by
      simp [encNames, encName, w8, List.append_assoc]
    rw [henc] at hf ⊢
    cases f with
    | zero => simp at hf
    | succ f =>
      simp only [namesF]
      rw [u2_w16 _ _ hw.2]
      simp only
      rw [takeN_append]
      simp only
      rw [ih f (fun x hx => h x (by simp [hx])) (by simp [w16] at hf; omega)]
      simp [UInt8.toNat_ofNat']; omega

private theorem protosF_enc : ∀ (ps : List Bytes) (f : Nat),
    (∀ p ∈ ps, p.length < 256) → (encProtos ps).length ≤ f →
    protosF f (encProtos ps) = some ps := by
  intro ps
  induction ps with
  | nil => intro f _ _; cases f <;> simp [encProtos, protosF]
  | cons p ps ih =>
    intro f h hf
    have hw := h p (by simp)
    have henc : encProtos (p :: ps) = UInt8.ofNat p.length :: (p ++ encProtos ps) := by
      simp [encProtos, encProto, w8]
    rw [henc] at hf ⊢
    cases f with
    | zero => simp at hf
    | succ f =>
      simp only [protosF]
      have : (UInt8.ofNat p.length).toNat = p.length := by simp [UInt8.toNat_ofNat']; omega
      rw [this, takeN_append]
      simp only
      rw [ih f (fun x hx => h x (by simp [hx])) (by simp at hf; omega)]

private theorem mkExt_enc (e : BExt) (h : e.WF) : mkExt e.typ e.raw = some e.view := by
  obtain ⟨_, h2⟩ := h
  cases e with
  | sni ns =>
    simp only [BExt.typ, BExt.raw, BExt.view, mkExt, if_true, parseSni]
    simp only at h2
    have hlen : (w16 (encNames ns).length).length = 2 := rfl
    have : u2 (w16 (encNames ns).length ++ encNames ns) = some (be16 (UInt8.ofNat ((encNames ns).length / 256)) (UInt8.ofNat ((encNames ns).length % 256)), encNames ns) := by
      simp [w16, u2]
    rw [this]
    simp only
    rw [namesF_enc ns _ h2 (Nat.le_refl _)]
  | alpn ps =>
    simp only [BExt.typ, BExt.raw, BExt.view, mkExt, parseAlpn]
    simp only at h2
    have : u2 (w16 (encProtos ps).length ++ encProtos ps) = some (be16 (UInt8.ofNat ((encProtos ps).length / 256)) (UInt8.ofNat ((encProtos ps).length % 256)), encProtos ps) := by
      simp [w16, u2]
    rw [this]
    simp only [if_true, Nat.reduceEqDiff, if_false]
    rw [protosF_enc ps _ h2 (Nat.le_refl _)]
  | other t r =>
    simp only at h2
    simp [BExt.typ, BExt.raw, BExt.view, mkExt, h2.1, h2.2.1]


private theorem extsF_enc : ∀ (es : List BExt) (f : Nat),
    (∀ e ∈ es, e.WF) → (encExts es).length ≤ f →
    extsF f (encExts es) = some (es.map BExt.view) := by
  intro es
  induction es with
  | nil => intro f _ _; cases f <;> simp [encExts, extsF]
  | cons e es ih =>
    intro f h hf
    have hw := h e (by simp)
    have henc : encExts (e :: es) = w16 e.typ ++ (w16 e.raw.length ++ (e.raw ++ encExts es)) := by
      simp [encExts, encExt, List.append_assoc]
    have htyp : e.typ < 65536 := by
      cases e with
      | sni _ => simp [BExt.typ]
      | alpn _ => simp [BExt.typ]
      | other t r => exact hw.2.2.2
    rw [henc] at hf ⊢
    cases f with
    | zero => simp [w16] at hf
    | succ f =>
      have hcons : w16 e.typ ++ (w16 e.raw.length ++ (e.raw ++ encExts es)) =
          UInt8.ofNat (e.typ / 256) :: (UInt8.ofNat (e.typ % 256) :: (w16 e.raw.length ++ (e.raw ++ encExts es))) := by
        simp [w16]
      rw [hcons]
      simp only [extsF]
      rw [← hcons, u2_w16 _ _ htyp]
      simp only
      rw [u2_w16 _ _ hw.1]
      simp only
      rw [takeN_append]
      simp only
      rw [mkExt_enc e hw]
      simp only
      rw [ih f (fun x hx => h x (by simp [hx])) (by simp [w16] at hf; omega)]
      simp

private theorem parseTail_enc (cs : List Nat) (exts : Option (List BExt))
    (h : ∀ es, exts = some es → ∀ e ∈ es, e.WF) :
    parseTail cs (encTail exts) =
      some ⟨cs, viewExts exts⟩ := by
  cases exts with
  | none => simp [parseTail, encTail, viewExts]
  | some es =>
    have hne : (encTail (some es)).isEmpty = false := by simp [encTail, w16]
    unfold parseTail
    rw [hne]
    simp only [Bool.false_eq_true, if_false, encTail]
    have : u2 (w16 (encExts es).length ++ encExts es) = some (be16 (UInt8.ofNat ((encExts es).length / 256)) (UInt8.ofNat ((encExts es).length % 256)), encExts es) := by
      simp [w16, u2]
    rw [this]
    simp only
    rw [extsF_enc es _ (h es rfl) (Nat.le_refl _)]
    rfl

/-- the kaitai grammar reads back what the structured builder wrote -/
private theorem parseBody_enc (dtls : Bool) (h : BHello) (hw : h.WF dtls) :
    parseBody dtls (h.body dtls) = some h.view := by
  obtain ⟨hver, hrnd, hsid, hck, hcl, hcs, hcomp, hexts, _⟩ := hw
  unfold parseBody BHello.body
  rw [takeN_append' 2 h.ver _ hver]
  simp only
  rw [takeN_append' 32 h.random _ hrnd]
  simp only
  rw [u1_w8 _ _ hsid]
  simp only
  rw [takeN_append]
  simp only
  have hcookie : ∀ r, skipCookie dtls ((if dtls then w8 h.cookie.length ++ h.cookie else []) ++ r) = some r := by
    intro r
    cases dtls
    · simp [skipCookie]
    · simp only [skipCookie, if_true, List.append_assoc]
      rw [u1_w8 _ _ hck]
      simp only
      rw [takeN_append]
  rw [hcookie]
  simp only
  rw [u2_w16 _ _ hcl]
  simp only
  have : 2 * h.ciphers.length / 2 = h.ciphers.length := by omega
  rw [this, u2s_enc _ _ hcs]
  simp only
  rw [u1_w8 _ _ hcomp]
  simp only
  rw [takeN_append]
  simp only
  rw [parseTail_enc _ _ hexts]
  rfl


/-! ## the property theorems -/

/-- **parse_total** — for ANY bytes the result is one of the three documented outcomes
    (None / ClientHello / ValueError); by construction of the total model. -/
theorem parse_total (dtls : Bool) (d : Bytes) :
    parse dtls d = .incomplete ∨ (∃ h, parse dtls d = .ok h) ∨ parse dtls d = .invalid := by
  cases h : parse dtls d with
  | incomplete => exact Or.inl rfl
  | ok a => exact Or.inr (Or.inl ⟨a, rfl⟩)
  | invalid => exact Or.inr (Or.inr rfl)

/-- **prefix_stable (hello)** — once a ClientHello is reported, more bytes never change it. -/
theorem prefix_stable_hello (dtls : Bool) (p q : Bytes) (h : Hello)
    (hp : parse dtls p = .ok h) : parse dtls (p ++ q) = .ok h := by
  unfold parse at hp ⊢
  cases hg : getHello dtls [] p with
  | incomplete => rw [hg] at hp; cases hp
  | invalid => rw [hg] at hp; cases hp
  | ok m =>
    rw [hg] at hp
    rw [getHello_append_ok dtls q p.length [] p m (Nat.le_refl _) hg]
    exact hp

/-- **prefix_stable (invalid)** — once the input is rejected, more bytes never rescue it. -/
theorem prefix_stable_invalid (dtls : Bool) (p q : Bytes)
    (hp : parse dtls p = .invalid) : parse dtls (p ++ q) = .invalid := by
  unfold parse at hp ⊢
  cases hg : getHello dtls [] p with
  | incomplete => rw [hg] at hp; cases hp
  | invalid => rw [getHello_append_invalid dtls q p.length [] p (Nat.le_refl _) hg]
  | ok m =>
    rw [hg] at hp
    rw [getHello_append_ok dtls q p.length [] p m (Nat.le_refl _) hg]
    exact hp

/-- both at once: any outcome other than "incomplete" is final -/
theorem prefix_stable (dtls : Bool) (p q : Bytes) (hp : parse dtls p ≠ .incomplete) :
    parse dtls (p ++ q) = parse dtls p := by
  cases h : parse dtls p with
  | incomplete => exact absurd h hp
  | ok a => exact prefix_stable_hello dtls p q a h
  | invalid => exact prefix_stable_invalid dtls p q h

private theorem feedAll_eq (dtls : Bool) : ∀ (segs : List Bytes) (buf : Bytes),
    parse dtls buf = .incomplete → feedAll dtls buf segs = parse dtls (buf ++ segs.flatten) := by
  intro segs
  induction segs with
  | nil => intro buf h; simp [feedAll, h]
  | cons s ss ih =>
    intro buf h
    simp only [feedAll, List.flatten_cons]
    cases hs : parse dtls (buf ++ s) with
    | incomplete =>
      simp only
      rw [ih (buf ++ s) hs, List.append_assoc]
    | ok a =>
      simp only
      rw [← List.append_assoc, prefix_stable_hello dtls (buf ++ s) ss.flatten a hs]
    | invalid =>
      simp only
      rw [← List.append_assoc, prefix_stable_invalid dtls (buf ++ s) ss.flatten hs]

private theorem parse_nil (dtls : Bool) : parse dtls [] = .incomplete := by
  cases dtls <;> rfl

/-- **seg_independent** — what `ClientTLSLayer.receive_handshake_data` concludes after receiving the
    segments one by one (re-parsing its growing buffer) is what parsing the whole stream gives. -/
theorem seg_independent (dtls : Bool) (segs : List Bytes) :
    feedAll dtls [] segs = parse dtls segs.flatten := by
  simpa using feedAll_eq dtls segs [] (parse_nil dtls)

/-- hence any two segmentations of the same byte stream give the same result -/
theorem seg_independent' (dtls : Bool) (a b : List Bytes) (h : a.flatten = b.flatten) :
    feedAll dtls [] a = feedAll dtls [] b := by
  rw [seg_independent, seg_independent, h]


private theorem complete?_nil (dtls : Bool) : complete? dtls [] = none := by
  cases dtls <;> rfl

/-- **record_split_invariant** — how the handshake bytes are cut into (valid, non-empty) records does not
    matter: two record sequences with the same concatenated contents parse alike. TLS and DTLS — for DTLS this is the
    code's own notion (record bodies concatenated as a byte stream, NO per-fragment handshake headers), which is not how DTLS
    splits a message; real DTLS fragmentation is `DtlsFragmentInvariant` / finding F-C13a below. -/
theorem record_split_invariant (dtls : Bool) (a b : List (Bytes × Bytes))
    (ha : ∀ ch ∈ a, ValidChunk dtls ch) (hb : ∀ ch ∈ b, ValidChunk dtls ch)
    (h : contents a = contents b) : parse dtls (records a) = parse dtls (records b) := by
  unfold parse
  rw [getHello_records dtls a [] ha (complete?_nil dtls), getHello_records dtls b [] hb (complete?_nil dtls), h]

private theorem body_length_ge (dtls : Bool) (h : BHello) (hv : h.ver.length = 2) : 2 ≤ (h.body dtls).length := by
  unfold BHello.body; rw [List.length_append]; omega

private theorem complete?_message (dtls : Bool) (seq extra : Bytes) (h : BHello)
    (hw : h.WF dtls) (hseq : seq.length = 2) :
    complete? dtls (h.message dtls seq ++ extra) = some (h.message dtls seq) := by
  have hlt := hw.2.2.2.2.2.2.2.2
  have h2 := body_length_ge dtls h hw.1
  cases dtls
  · have hm : h.message false seq = 1 :: UInt8.ofNat ((h.body false).length / 65536) ::
        UInt8.ofNat ((h.body false).length / 256 % 256) :: UInt8.ofNat ((h.body false).length % 256) :: h.body false := by
      simp [BHello.message, msgHdr, w24]
    rw [hm]
    unfold complete? helloSize?
    simp only [Bool.false_eq_true, if_false, List.cons_append, List.length_cons, List.length_append]
    rw [if_pos (by omega)]
    simp only [List.getD_eq_getElem?_getD, List.getElem?_cons_succ, List.getElem?_cons_zero, Option.getD_some]
    rw [be24_w24 _ hlt]
    rw [if_pos (by omega)]
    congr 1
    have : (h.body false).length + 4 =
        (1 :: UInt8.ofNat ((h.body false).length / 65536) :: UInt8.ofNat ((h.body false).length / 256 % 256) ::
          UInt8.ofNat ((h.body false).length % 256) :: h.body false).length := by simp
    rw [this]
    exact List.take_left' rfl
  · match seq, hseq with
    | [s0, s1], _ =>
      have hm : h.message true [s0, s1] = 1 :: UInt8.ofNat ((h.body true).length / 65536) ::
          UInt8.ofNat ((h.body true).length / 256 % 256) :: UInt8.ofNat ((h.body true).length % 256) ::
          s0 :: s1 :: UInt8.ofNat (0 / 65536) :: UInt8.ofNat (0 / 256 % 256) :: UInt8.ofNat (0 % 256) ::
          UInt8.ofNat ((h.body true).length / 65536) ::
          UInt8.ofNat ((h.body true).length / 256 % 256) :: UInt8.ofNat ((h.body true).length % 256) :: h.body true := by
        simp [BHello.message, msgHdr, w24]
      rw [hm]
      unfold complete? helloSize?
      simp only [if_true, List.cons_append, List.length_cons, List.length_append]
      rw [if_pos (by omega)]
      simp only [List.getD_eq_getElem?_getD, List.getElem?_cons_succ, List.getElem?_cons_zero, Option.getD_some]
      rw [be24_w24 _ hlt]
      rw [if_pos (by omega)]
      congr 1
      have : (h.body true).length + 12 =
          (1 :: UInt8.ofNat ((h.body true).length / 65536) ::
          UInt8.ofNat ((h.body true).length / 256 % 256) :: UInt8.ofNat ((h.body true).length % 256) ::
          s0 :: s1 :: UInt8.ofNat (0 / 65536) :: UInt8.ofNat (0 / 256 % 256) :: UInt8.ofNat (0 % 256) ::
          UInt8.ofNat ((h.body true).length / 65536) ::
          UInt8.ofNat ((h.body true).length / 256 % 256) :: UInt8.ofNat ((h.body true).length % 256) :: h.body true).length := by simp
      rw [this]
      exact List.take_left' rfl

private theorem message_drop (dtls : Bool) (seq : Bytes) (h : BHello) (hseq : seq.length = 2) :
    (h.message dtls seq).drop (msgHdrLen dtls) = h.body dtls := by
  unfold BHello.message
  apply List.drop_left'
  cases dtls <;> simp [msgHdr, w24, msgHdrLen, hseq]

/-- **agrees_with_builder** — for every well-formed structured ClientHello (TLS or DTLS; any version, random,
    session id, cookie, cipher list, compression list; no extension block or any list of server_name / ALPN /
    other extensions), carried by ANY sequence of valid records whose contents start with the handshake message
    (so: any record split, possibly followed by further handshake bytes `extra`), followed by ANY bytes `trail`,
    the parser returns exactly the hello's view. -/
theorem agrees_with_builder (dtls : Bool) (h : BHello) (seq extra trail : Bytes)
    (chunks : List (Bytes × Bytes)) (hw : h.WF dtls) (hseq : seq.length = 2)
    (hv : ∀ ch ∈ chunks, ValidChunk dtls ch)
    (hc : contents chunks = h.message dtls seq ++ extra) :
    parse dtls (records chunks ++ trail) = .ok h.view := by
  apply prefix_stable_hello
  unfold parse
  rw [getHello_records dtls chunks [] hv (complete?_nil dtls), List.nil_append, hc,
    complete?_message dtls seq extra h hw hseq]
  simp only
  rw [message_drop dtls seq h hseq, parseBody_enc dtls h hw]

/-- **built_any_split** — the property's last sentence in one statement: a well-formed hello under ANY record
    chunking, delivered in ANY TCP segmentation (`segs`), possibly followed by more bytes, makes the layer report
    exactly the hello's view. -/
theorem built_any_split (dtls : Bool) (h : BHello) (seq extra trail : Bytes)
    (chunks : List (Bytes × Bytes)) (segs : List Bytes) (hw : h.WF dtls) (hseq : seq.length = 2)
    (hv : ∀ ch ∈ chunks, ValidChunk dtls ch)
    (hc : contents chunks = h.message dtls seq ++ extra)
    (hsegs : segs.flatten = records chunks ++ trail) :
    feedAll dtls [] segs = .ok h.view := by
  rw [seg_independent, hsegs]
  exact agrees_with_builder dtls h seq extra trail chunks hw hseq hv hc

/-- the cipher list read back is the one built (by definition of the view) -/
theorem ciphers_of_built (h : BHello) : h.view.ciphers = h.ciphers := rfl

/-- `ClientHello.extensions` lists (type, raw bytes) of the built extensions in order -/
theorem extensions_of_built (h : BHello) (es : List BExt) (he : h.exts = some es) :
    h.view.extView = es.map (fun e => (e.typ, e.raw)) := by
  simp only [BHello.view, Hello.extView, he, viewExts, List.map_map]
  apply List.map_congr_left
  intro e _
  cases e <;> rfl

private theorem alpn_view (es : List BExt) (hw : ∀ e ∈ es, e.WF) :
    (match (es.map BExt.view).find? (fun e => e.typ == 16) with
      | some e => e.protos
      | none => []) = builtAlpn es := by
  induction es with
  | nil => rfl
  | cons e es ih =>
    have hwe := hw e (by simp)
    have ih' := ih (fun x hx => hw x (by simp [hx]))
    cases e with
    | sni ns => simpa [BExt.view, builtAlpn] using ih'
    | alpn ps => simp [BExt.view, builtAlpn]
    | other t r =>
      have : t ≠ 16 := hwe.2.2.1
      simpa [BExt.view, builtAlpn, this] using ih'

/-- `ClientHello.alpn_protocols` = the protocols of the first ALPN extension built -/
theorem alpn_of_built (h : BHello) (es : List BExt) (he : h.exts = some es) (hw : ∀ e ∈ es, e.WF) :
    h.view.alpn = builtAlpn es := by
  simp only [BHello.view, Hello.alpn, he, viewExts]
  exact alpn_view es hw

private def cand (e : Ext) : Option Bytes :=
  if e.typ = 0 then
    match e.names with
    | [(t, nm)] => if t = 0 then some nm else none
    | _ => none
  else none

private theorem sni_view (valid : Bytes → Bool) (es : List BExt) (hw : ∀ e ∈ es, e.WF) :
    ((es.map BExt.view).filterMap cand).find? valid = builtSni valid es := by
  induction es with
  | nil => rfl
  | cons e es ih =>
    have hwe := hw e (by simp)
    have ih' := ih (fun x hx => hw x (by simp [hx]))
    cases e with
    | sni ns =>
      match ns with
      | [] => simpa [BExt.view, builtSni, cand] using ih'
      | [(t, nm)] =>
        by_cases ht : t = 0
        · by_cases hvld : valid nm = true
          · simp [BExt.view, builtSni, cand, ht, hvld]
          · simpa [BExt.view, builtSni, cand, ht, hvld] using ih'
        · simpa [BExt.view, builtSni, cand, ht] using ih'
      | _ :: _ :: _ => simpa [BExt.view, builtSni, cand] using ih'
    | alpn ps => simpa [BExt.view, builtSni, cand] using ih'
    | other t r =>
      have : t ≠ 0 := hwe.2.1
      simpa [BExt.view, builtSni, cand, this] using ih'

/-- `ClientHello.sni` (for any host validity predicate) = the reader of the structured hello -/
theorem sni_of_built (valid : Bytes → Bool) (h : BHello) (es : List BExt) (he : h.exts = some es)
    (hw : ∀ e ∈ es, e.WF) : h.view.sni valid = builtSni valid es := by
  simp only [BHello.view, Hello.sni, Hello.sniCandidates, he, viewExts]
  exact sni_view valid es hw



/-! ## starts_like_*_record: the probed table IS the transcribed source expression -/

private theorem starts_table_ok (dtls : Bool) :
    startsTab dtls = [((startsPred dtls).2.1, (startsPred dtls).2.2.1,
        (List.range 256).filter (fun c => decide ((startsPred dtls).2.2.2.1 ≤ c) && decide (c ≤ (startsPred dtls).2.2.2.2)))]
    ∧ (startsPred dtls).1 = 2 := by
  cases dtls <;> decide

theorem starts_table_is_function (dtls : Bool) (d : Bytes) : startsLike dtls d = startsP dtls d := by
  obtain ⟨htab, hlen⟩ := starts_table_ok dtls
  unfold startsLike startsP
  match d with
  | [] => simp [hlen]
  | [_] => simp [hlen]
  | [_, _] => simp [hlen]
  | a :: b :: c :: r =>
    have hc := UInt8.toNat_lt c
    have hmem : ((List.range 256).filter (fun c => decide ((startsPred dtls).2.2.2.1 ≤ c) && decide (c ≤ (startsPred dtls).2.2.2.2))).contains c.toNat
        = (decide ((startsPred dtls).2.2.2.1 ≤ c.toNat) && decide (c.toNat ≤ (startsPred dtls).2.2.2.2)) := by
      rw [Bool.eq_iff_iff, List.contains_iff_mem, List.mem_filter, List.mem_range]
      simp only [Bool.and_eq_true, decide_eq_true_eq]
      constructor
      · intro h; exact h.2
      · intro h; exact ⟨hc, h⟩
    generalize (List.range 256).filter (fun c => decide ((startsPred dtls).2.2.2.1 ≤ c) && decide (c ≤ (startsPred dtls).2.2.2.2)) = L at htab hmem
    rw [htab]
    simp only [List.any_cons, List.any_nil, Bool.or_false, hlen, List.length_cons, List.getD_cons_zero,
      List.getD_cons_succ, hmem]
    have h1 : decide (2 < r.length + 1 + 1 + 1) = true := by simp
    rw [h1, Bool.true_and]
    rw [Bool.eq_iff_iff]
    simp only [Bool.and_eq_true, beq_iff_eq, decide_eq_true_eq]
    constructor
    · rintro ⟨⟨h1, h2⟩, h3, h4⟩; exact ⟨⟨⟨h1.symm, h2.symm⟩, h3⟩, h4⟩
    · rintro ⟨⟨⟨h1, h2⟩, h3⟩, h4⟩; exact ⟨⟨h1.symm, h2.symm⟩, h3, h4⟩

theorem starts_three_bytes_suffice (dtls : Bool) (d : Bytes) : startsP dtls d = startsP dtls (d.take 3) := by
  have hlen := (starts_table_ok dtls).2
  unfold startsP
  match d with
  | [] => rfl
  | [_] => rfl
  | [_, _] => rfl
  | a :: b :: c :: r => simp [hlen]


/-! ## the result is a function of the concatenated handshake payload — and of nothing else -/

/-- **parse_records_payload** — for ANY sequence of valid records the parser's answer is the specification
    function `helloOf` of the concatenated record contents (incomplete payload → incomplete). -/
theorem parse_records_payload (dtls : Bool) (chunks : List (Bytes × Bytes))
    (hv : ∀ ch ∈ chunks, ValidChunk dtls ch) :
    parse dtls (records chunks) = helloOf dtls (contents chunks) := by
  unfold parse helloOf
  rw [getHello_records dtls chunks [] hv (complete?_nil dtls), List.nil_append]
  cases complete? dtls (contents chunks) <;> rfl

/-- **payload_prefix_only** — once the payload contains the whole hello, what follows in the payload is never read -/
theorem payload_prefix_only (dtls : Bool) (p x m : Bytes) (h : complete? dtls p = some m) :
    complete? dtls (p ++ x) = some m := complete?_append dtls p x m h

/-- **payload_only** — full strength: let the handshake payload of the records `chunks` contain a complete
    ClientHello message `m` (read off the payload's own length field). Then for EVERY way the payload was cut into
    (valid, non-empty) records, EVERY segmentation `segs` of the byte stream, and ANY bytes `trail` after those records
    (further records of any type, garbage, nothing), the layer reports `helloOfMsg m` — a function of `m` alone. -/
theorem payload_only (dtls : Bool) (chunks : List (Bytes × Bytes)) (trail m : Bytes) (segs : List Bytes)
    (hv : ∀ ch ∈ chunks, ValidChunk dtls ch) (hm : complete? dtls (contents chunks) = some m)
    (hsegs : segs.flatten = records chunks ++ trail) :
    feedAll dtls [] segs = helloOfMsg dtls m := by
  rw [seg_independent, hsegs]
  have hp : parse dtls (records chunks) = helloOfMsg dtls m := by
    rw [parse_records_payload dtls chunks hv]
    unfold helloOf helloOfMsg
    rw [hm]
  have hne : parse dtls (records chunks) ≠ .incomplete := by
    rw [hp]; unfold helloOfMsg; cases parseBody dtls (m.drop (msgHdrLen dtls)) <;> simp
  rw [prefix_stable dtls (records chunks) trail hne, hp]

/-- **hello_depends_only_on_payload** — two deliveries whose record payloads share a prefix `p` that contains the
    complete hello give the same result, whatever the two record cuttings, the two segmentations, the bytes after
    the hello inside the payload (`xa`, `xb`) and the bytes after the records (`trailA`, `trailB`). -/
theorem hello_depends_only_on_payload (dtls : Bool) (a b : List (Bytes × Bytes))
    (p xa xb m trailA trailB : Bytes) (segsA segsB : List Bytes)
    (ha : ∀ ch ∈ a, ValidChunk dtls ch) (hb : ∀ ch ∈ b, ValidChunk dtls ch)
    (hca : contents a = p ++ xa) (hcb : contents b = p ++ xb) (hm : complete? dtls p = some m)
    (hsa : segsA.flatten = records a ++ trailA) (hsb : segsB.flatten = records b ++ trailB) :
    feedAll dtls [] segsA = feedAll dtls [] segsB ∧ feedAll dtls [] segsA = helloOfMsg dtls m := by
  have h1 := payload_only dtls a trailA m segsA ha (by rw [hca]; exact complete?_append dtls p xa m hm) hsa
  have h2 := payload_only dtls b trailB m segsB hb (by rw [hcb]; exact complete?_append dtls p xb m hm) hsb
  exact ⟨h1.trans h2.symm, h1⟩

/-- **payload_incomplete** — and while the payload does not yet contain the whole hello, every cutting and every
    segmentation of the records says "incomplete" -/
theorem payload_incomplete (dtls : Bool) (chunks : List (Bytes × Bytes)) (segs : List Bytes)
    (hv : ∀ ch ∈ chunks, ValidChunk dtls ch) (hm : complete? dtls (contents chunks) = none)
    (hsegs : segs.flatten = records chunks) : feedAll dtls [] segs = .incomplete := by
  rw [seg_independent, hsegs, parse_records_payload dtls chunks hv]
  unfold helloOf
  rw [hm]

/-- non-vacuity of `payload_only`: a hello in two records, then an application-data record and garbage, in 3 segments -/
example : feedAll false []
    [ [0x16, 3, 1, 0, 2, 1, 0], [0x16, 3, 3, 0, 3, 0, 1, 0, 9, 9, 0x17, 3], [3, 0, 1, 0xff, 0xee] ]
    = helloOfMsg false [1, 0, 0, 1, 0] :=
  payload_only false [([0x16, 3, 1], [1, 0]), ([0x16, 3, 3], [0, 1, 0])] [9, 9, 0x17, 3, 3, 0, 1, 0xff, 0xee] [1, 0, 0, 1, 0] _
    (by intro ch hm
        simp only [List.mem_cons, List.mem_nil_iff, or_false] at hm
        rcases hm with rfl | rfl <;> exact ⟨by decide, by decide, by decide, by decide⟩)
    (by decide) (by decide)


/-! ## is_valid_host transcribed: SNI results that do not depend on any library answer -/

private theorem labelChar_facts : ∀ n : Fin 256, labelChar (UInt8.ofNat n.val) = true →
    n.val < 128 ∧ n.val ≠ 0x2e := by decide +kernel

private theorem labelChar_lt (b : UInt8) (h : labelChar b = true) : b.toNat < 128 ∧ b ≠ 0x2e := by
  have := labelChar_facts ⟨b.toNat, UInt8.toNat_lt b⟩
  simp only [UInt8.ofNat_toNat] at this
  have h2 := this h
  refine ⟨h2.1, ?_⟩
  intro hb; subst hb; exact h2.2 rfl

private theorem splitDot_nodot (l : Bytes) (h : ∀ b ∈ l, b ≠ 0x2e) : splitDot l = [l] := by
  induction l with
  | nil => rfl
  | cons b r ih =>
    have hb := h b (by simp)
    simp only [splitDot, if_neg hb, ih (fun x hx => h x (by simp [hx]))]

private theorem splitDot_append_dot (l rest : Bytes) (h : ∀ b ∈ l, b ≠ 0x2e) :
    splitDot (l ++ 0x2e :: rest) = l :: splitDot rest := by
  induction l with
  | nil => simp [splitDot]
  | cons b r ih =>
    have hb := h b (by simp)
    simp only [List.cons_append, splitDot, if_neg hb, ih (fun x hx => h x (by simp [hx]))]

private theorem splitDot_joinDot (labels : List Bytes) (hne : labels ≠ [])
    (h : ∀ l ∈ labels, ∀ b ∈ l, b ≠ 0x2e) : splitDot (joinDot labels) = labels := by
  induction labels with
  | nil => exact absurd rfl hne
  | cons l ls ih =>
    cases ls with
    | nil => simp only [joinDot]; exact splitDot_nodot l (h l (by simp))
    | cons l2 ls =>
      simp only [joinDot]
      rw [splitDot_append_dot l _ (h l (by simp)), ih (by simp) (fun x hx => h x (by simp [hx]))]

private theorem joinDot_all (P : UInt8 → Prop) (hdot : P 0x2e) (labels : List Bytes)
    (h : ∀ l ∈ labels, ∀ b ∈ l, P b) : ∀ b ∈ joinDot labels, P b := by
  induction labels with
  | nil => intro b hb; simp [joinDot] at hb
  | cons l ls ih =>
    cases ls with
    | nil => simpa [joinDot] using h l (by simp)
    | cons l2 ls =>
      intro b hb
      simp only [joinDot, List.mem_append, List.mem_cons] at hb
      rcases hb with hb | hb | hb
      · exact h l (by simp) b hb
      · subst hb; exact hdot
      · exact ih (fun x hx => h x (by simp [hx])) b hb

private theorem joinDot_last (labels : List Bytes) (hne : labels ≠ [])
    (h : ∀ l ∈ labels, l ≠ [] ∧ ∀ b ∈ l, b ≠ 0x2e) : (joinDot labels).getLast? ≠ some 0x2e := by
  induction labels with
  | nil => exact absurd rfl hne
  | cons l ls ih =>
    cases ls with
    | nil =>
      simp only [joinDot]
      intro hl
      have := List.mem_of_getLast? hl
      exact (h l (by simp)).2 _ this rfl
    | cons l2 ls =>
      simp only [joinDot]
      have ih' := ih (by simp) (fun x hx => h x (by simp [hx]))
      have hne2 : joinDot (l2 :: ls) ≠ [] := by
        have := (h l2 (by simp)).1
        cases ls with
        | nil => simpa [joinDot] using this
        | cons l3 ls => simp [joinDot]
      rw [List.getLast?_append, List.getLast?_cons]
      cases hJ : (joinDot (l2 :: ls)).getLast? with
      | none => exact absurd (List.getLast?_eq_none_iff.mp hJ) hne2
      | some x =>
        simp only [Option.getD_some]
        intro hx
        rw [hJ] at ih'
        exact ih' hx


private theorem labelValid_of_chars (l : Bytes) (hne : l ≠ []) (hlen : l.length ≤ 63)
    (h : ∀ b ∈ l, labelChar b = true) : labelValid l = true := by
  have htw : l.takeWhile labelChar = l := by
    induction l with
    | nil => rfl
    | cons b r ih =>
      simp only [List.takeWhile_cons, h b (by simp), if_true]
      congr 1
      cases r with
      | nil => rfl
      | cons c r' => exact ih (by simp) (by simp at hlen ⊢; omega) (fun x hx => h x (by simp [hx]))
  unfold labelValid
  simp only [htw, List.drop_length]
  have : 1 ≤ l.length := by cases l with | nil => exact absurd rfl hne | cons _ _ => simp
  simp [this, hlen]

/-- **validHost_of_labels** — a name made of 1..63-character labels over `[A-Za-z0-9_-]`, at most 255 bytes long and
    without `xn--`, is a valid host whatever the library parameters answer (they are not consulted). -/
theorem validHost_of_labels (lib : HostLib) (labels : List Bytes) (hne : labels ≠ [])
    (hl : ∀ l ∈ labels, l ≠ [] ∧ l.length ≤ 63 ∧ ∀ b ∈ l, labelChar b = true)
    (hlen : (joinDot labels).length ≤ 255) (hace : isInfix acePrefix (joinDot labels) = false) :
    validHost lib (joinDot labels) = true := by
  have hnodot : ∀ l ∈ labels, ∀ b ∈ l, b ≠ 0x2e := fun l hm b hb => (labelChar_lt b ((hl l hm).2.2 b hb)).2
  have hascii : (joinDot labels).all (fun b => decide (b.toNat < 128)) = true := by
    rw [List.all_eq_true]
    intro b hb
    have := joinDot_all (fun b => b.toNat < 128) (by decide) labels
      (fun l hm b hb => (labelChar_lt b ((hl l hm).2.2 b hb)).1) b hb
    simpa using this
  have hstrip : stripDot (joinDot labels) = joinDot labels := by
    unfold stripDot
    rw [if_neg (joinDot_last labels hne (fun l hm => ⟨(hl l hm).1, hnodot l hm⟩))]
  unfold validHost idnaOk
  rw [hace]
  simp only [Bool.false_eq_true, if_false, hascii, Bool.true_eq_false]
  rw [if_neg (by omega), hstrip, splitDot_joinDot labels hne hnodot]
  have : labels.all labelValid = true := by
    rw [List.all_eq_true]
    intro l hm
    exact labelValid_of_chars l (hl l hm).1 (hl l hm).2.1 (hl l hm).2.2
  rw [this]; rfl

/-- **validHost_too_long** — more than 255 bytes is never a valid host, whatever the library answers -/
theorem validHost_too_long (lib : HostLib) (nm : Bytes) (h : 255 < nm.length) : validHost lib nm = false := by
  unfold validHost
  split
  · rfl
  · simp

/-- **validHost_non_ascii** — a byte ≥ 0x80 (and no `xn--`) is never a valid host, whatever the library answers -/
theorem validHost_non_ascii (lib : HostLib) (nm : Bytes) (b : UInt8) (hb : b ∈ nm) (h128 : 128 ≤ b.toNat)
    (hace : isInfix acePrefix nm = false) : validHost lib nm = false := by
  unfold validHost idnaOk
  rw [hace]
  have : nm.all (fun b => decide (b.toNat < 128)) = false := by
    rw [Bool.eq_false_iff]
    intro hall
    rw [List.all_eq_true] at hall
    have := hall b hb
    simp at this
    omega
  simp [this]

private theorem builtSni_skip (valid : Bytes → Bool) (pre post : List BExt) (e : BExt)
    (hpre : ∀ x ∈ pre, ∀ ns, x ≠ .sni ns) : builtSni valid (pre ++ e :: post) = builtSni valid (e :: post) := by
  induction pre with
  | nil => rfl
  | cons x xs ih =>
    have hx := hpre x (by simp)
    have ih' := ih (fun y hy => hpre y (by simp [hy]))
    cases x with
    | sni ns => exact absurd rfl (hx ns)
    | alpn ps => simpa [builtSni] using ih'
    | other t r => simpa [builtSni] using ih'

/-- **sni_outright** — no parameter left: a well-formed built hello whose first server_name extension holds the single
    host_name `joinDot labels` (labels as in `validHost_of_labels`) reports exactly that name as SNI, for every
    behaviour of the idna / ipaddress libraries. -/
theorem sni_outright (lib : HostLib) (h : BHello) (pre post : List BExt) (labels : List Bytes)
    (he : h.exts = some (pre ++ .sni [(0, joinDot labels)] :: post))
    (hw : ∀ e ∈ pre ++ .sni [(0, joinDot labels)] :: post, e.WF)
    (hpre : ∀ x ∈ pre, ∀ ns, x ≠ .sni ns) (hne : labels ≠ [])
    (hl : ∀ l ∈ labels, l ≠ [] ∧ l.length ≤ 63 ∧ ∀ b ∈ l, labelChar b = true)
    (hlen : (joinDot labels).length ≤ 255) (hace : isInfix acePrefix (joinDot labels) = false) :
    h.view.sni (validHost lib) = some (joinDot labels) := by
  rw [sni_of_built (validHost lib) h _ he hw, builtSni_skip (validHost lib) pre post _ hpre]
  simp [builtSni, validHost_of_labels lib labels hne hl hlen hace]

/-- non-vacuity: `example.com` -/
example (lib : HostLib) : validHost lib [0x65, 0x78, 0x61, 0x6d, 0x70, 0x6c, 0x65, 0x2e, 0x63, 0x6f, 0x6d] = true :=
  validHost_of_labels lib [[0x65, 0x78, 0x61, 0x6d, 0x70, 0x6c, 0x65], [0x63, 0x6f, 0x6d]] (by simp)
    (by intro l hm
        simp only [List.mem_cons, List.mem_nil_iff, or_false] at hm
        rcases hm with rfl | rfl <;> exact ⟨by simp, by decide, by decide⟩)
    (by decide) (by decide)
/-- the transcription is not constant, and the library is consulted exactly where the code consults it -/
example : validHost ⟨fun _ => true, fun _ => true⟩ [0x61, 0x20, 0x62] = true ∧
    validHost ⟨fun _ => true, fun _ => false⟩ [0x61, 0x20, 0x62] = false ∧
    validHost ⟨fun _ => false, fun _ => false⟩ [0x61, 0x0a] = true ∧
    validHost ⟨fun _ => false, fun _ => true⟩ [0x78, 0x6e, 0x2d, 0x2d, 0x61] = false := by decide



/-! ## ipaddress inside the model: names without `xn--` need no library at all -/

private theorem isInfix_append (p x y : Bytes) (hp : p ≠ []) (h : isInfix p x = true) :
    isInfix p (x ++ y) = true := by
  induction x with
  | nil => cases p with
    | nil => exact absurd rfl hp
    | cons _ _ => simp [isInfix] at h
  | cons b r ih =>
    simp only [isInfix, Bool.or_eq_true] at h
    simp only [List.cons_append, isInfix, Bool.or_eq_true]
    rcases h with h | h
    · left
      rw [List.isPrefixOf_iff_prefix] at h ⊢
      exact h.trans (List.prefix_append (b :: r) y)
    · right; exact ih h

private theorem isInfix_dropLast (p d : Bytes) (hp : p ≠ []) (h : isInfix p d = false) :
    isInfix p d.dropLast = false := by
  cases hd : isInfix p d.dropLast with
  | false => rfl
  | true =>
    by_cases hne : d = []
    · subst hne; simp at hd; rw [hd] at h; cases h
    · have hdx := List.dropLast_concat_getLast hne
      have := isInfix_append p d.dropLast [d.getLast hne] hp hd
      rw [hdx, h] at this; cases this

private theorem isInfix_stripDot (d : Bytes) (h : isInfix acePrefix d = false) :
    isInfix acePrefix (stripDot d) = false := by
  unfold stripDot
  split
  · exact isInfix_dropLast acePrefix d (by decide) h
  · exact h

/-- **validHostT_closed_form** — for a name without `xn--`, `is_valid_host` is this closed expression: all bytes ASCII,
    at most 255 bytes, and (every dot-separated label of the name without one trailing dot matches the label regex, or
    `ipaddress.ip_address` — the transcription `C22.parseIp` — accepts it). No library parameter occurs. -/
theorem validHostT_closed_form (I : IdnaLib) (nm : Bytes) (hace : isInfix acePrefix nm = false) :
    validHostT I nm =
      (nm.all (fun b => decide (b.toNat < 128)) && decide (nm.length ≤ 255) &&
        ((splitDot (stripDot nm)).all labelValid ||
          ((stripDot nm).all (fun b => decide (b.toNat < 128)) && (C22.parseIp (stripDot nm)).isSome))) := by
  have hs := isInfix_stripDot nm hace
  unfold validHostT validHost idnaOk hostLibOf ipOk idnaText
  simp only [hace, hs, Bool.false_eq_true, if_false]
  by_cases h1 : nm.all (fun b => decide (b.toNat < 128)) = true
  · by_cases h2 : 255 < nm.length
    · have : decide (nm.length ≤ 255) = false := by simp; omega
      simp [h1, h2, this]
    · have : decide (nm.length ≤ 255) = true := by simp; omega
      simp only [h1, h2, this, Bool.true_eq_false, if_false, Bool.true_and]
      by_cases h3 : (splitDot (stripDot nm)).all labelValid = true
      · simp [h3]
      · by_cases h4 : (stripDot nm).all (fun b => decide (b.toNat < 128)) = true
        · simp [h3, h4]
        · simp [h3, h4]
  · simp [h1]

/-- **validHostT_lib_free** — hence for names without `xn--` the remaining library parameter is irrelevant -/
theorem validHostT_lib_free (I J : IdnaLib) (nm : Bytes) (hace : isInfix acePrefix nm = false) :
    validHostT I nm = validHostT J nm := by
  rw [validHostT_closed_form I nm hace, validHostT_closed_form J nm hace]

private theorem find?_congr_mem (p q : Bytes → Bool) (l : List Bytes) (h : ∀ x ∈ l, p x = q x) :
    l.find? p = l.find? q := by
  induction l with
  | nil => rfl
  | cons a r ih =>
    simp only [List.find?_cons, h a (by simp)]
    rw [ih (fun x hx => h x (by simp [hx]))]

/-- **sni_lib_free** — `ClientHello.sni` of ANY parsed hello none of whose host_name candidates contains `xn--` does not
    depend on any library answer: `is_valid_host` is computed entirely by the model (regex, lengths, idna fast path,
    `ipaddress`). -/
theorem sni_lib_free (I J : IdnaLib) (h : Hello)
    (hc : ∀ nm ∈ h.sniCandidates, isInfix acePrefix nm = false) :
    h.sni (validHostT I) = h.sni (validHostT J) := by
  unfold Hello.sni
  exact find?_congr_mem _ _ _ (fun nm hm => validHostT_lib_free I J nm (hc nm hm))

/-- IP literals are valid hosts via the transcribed `ipaddress`; junk is not; a trailing dot is stripped first -/
example : validHostT noIdna [0x3a, 0x3a, 0x31] = true ∧                                  -- "::1"
    validHostT noIdna [0x66, 0x65, 0x38, 0x30, 0x3a, 0x3a, 0x31, 0x25, 0x65] = true ∧       -- "fe80::1%e"
    validHostT noIdna [0x3a, 0x3a, 0x31, 0x2e] = true ∧                                    -- "::1."
    validHostT noIdna [0x3a, 0x3a, 0x67] = false ∧                                         -- "::g"
    validHostT noIdna [0x61, 0x20, 0x62] = false ∧                                         -- "a b"
    validHostT noIdna [0x31, 0x2e, 0x32, 0x2e, 0x33, 0x2e, 0x34] = true := by decide      -- "1.2.3.4" (labels)



/-! ## the idna codec inside the model: only `nameprep` is left, and it is asked only about decoded A-labels -/

/-- **toUnicode_congr** — `ToUnicode(label)` consults nameprep on at most one value: the punycode decoding of the label -/
theorem toUnicode_congr (N M : Nameprep) (label : List Nat)
    (h : ∀ r, aceCps.isPrefixOf label = true → punyDecode (label.drop 4) = some r → N.prep r = M.prep r) :
    toUnicode N label = toUnicode M label := by
  unfold toUnicode
  split
  · rfl
  · split
    · rfl
    · rename_i hace
      have hace' : aceCps.isPrefixOf label = true := by simpa using hace
      cases hp : punyDecode (label.drop 4) with
      | none => rfl
      | some r =>
        have hr := h r hace' hp
        simp only
        unfold toAscii
        rw [hr]

private theorem mapAll_congr {α β : Type} (f g : α → Option β) (l : List α) (h : ∀ a ∈ l, f a = g a) :
    mapAll f l = mapAll g l := by
  induction l with
  | nil => rfl
  | cons a r ih =>
    simp only [mapAll, h a (by simp), ih (fun x hx => h x (by simp [hx]))]

/-- **decodeIdna_congr** — two nameprep functions that agree on the asked values give the same decoded text -/
theorem decodeIdna_congr (N M : Nameprep) (raw : Bytes) (h : ∀ r, Asked raw r → N.prep r = M.prep r) :
    decodeIdna N raw = decodeIdna M raw := by
  have hl : ∀ l ∈ (splitDot raw).map (fun l => l.map UInt8.toNat), toUnicode N l = toUnicode M l := by
    intro l hm
    rw [List.mem_map] at hm
    obtain ⟨b, hb, rfl⟩ := hm
    exact toUnicode_congr N M _ (fun r ha hr => h r ⟨b, hb, ha, hr⟩)
  have hsub : ∀ a ∈ (trimLabels ((splitDot raw).map (fun l => l.map UInt8.toNat))).1,
      a ∈ (splitDot raw).map (fun l => l.map UInt8.toNat) := by
    intro a ha
    unfold trimLabels at ha
    split at ha
    · exact (List.dropLast_sublist _).subset ha
    · exact ha
  unfold decodeIdna
  simp only
  rw [mapAll_congr _ _ _ (fun a ha => hl a (hsub a ha))]

/-- **validHostN_congr** — `is_valid_host` depends on nameprep only through the decoded A-labels of the name (and of the
    name without its trailing dot) -/
theorem validHostN_congr (N M : Nameprep) (nm : Bytes)
    (h1 : ∀ r, Asked nm r → N.prep r = M.prep r) (h2 : ∀ r, Asked (stripDot nm) r → N.prep r = M.prep r) :
    validHostN N nm = validHostN M nm := by
  unfold validHostN validHostT validHost idnaOk hostLibOf ipOk idnaText idnaOf
  simp only [decodeIdna_congr N M nm h1, decodeIdna_congr N M (stripDot nm) h2]

/-- **validHostN_lib_free** — and not at all for names without `xn--` -/
theorem validHostN_lib_free (N M : Nameprep) (nm : Bytes) (hace : isInfix acePrefix nm = false) :
    validHostN N nm = validHostN M nm := validHostT_lib_free _ _ nm hace

/-- **toUnicode_roundtrip** — a decoded A-label re-encodes (ToASCII) to the lower-cased label: what Python's step 7 checks -/
theorem toUnicode_roundtrip (N : Nameprep) (label : List Nat) (r : Cps) (hace : aceCps.isPrefixOf label = true)
    (h : toUnicode N label = some r) : toAscii N r = some (label.map lowerAscii) := by
  unfold toUnicode at h
  split at h
  · cases h
  · simp only [hace, Bool.not_true, Bool.false_eq_true, if_false] at h
    cases hp : punyDecode (label.drop 4) with
    | none => rw [hp] at h; cases h
    | some res =>
      rw [hp] at h
      simp only at h
      cases ha : toAscii N res with
      | none => rw [ha] at h; cases h
      | some l2 =>
        rw [ha] at h
        simp only at h
        split at h
        · rename_i heq
          cases h
          rw [ha, heq]
        · cases h


private def bucher : Cps := [0x62, 0xfc, 0x63, 0x68, 0x65, 0x72]                       -- "bücher"
private def nmBucher : Bytes :=                                                        -- b"xn--bcher-kva.example"
  [0x78, 0x6e, 0x2d, 0x2d, 0x62, 0x63, 0x68, 0x65, 0x72, 0x2d, 0x6b, 0x76, 0x61, 0x2e, 0x65, 0x78, 0x61, 0x6d, 0x70, 0x6c, 0x65]

private theorem asked_bucher (r : Cps) (h : Asked nmBucher r) : r = bucher := by
  obtain ⟨l, hl, hace, hp⟩ := h
  have hs : splitDot nmBucher = [[0x78, 0x6e, 0x2d, 0x2d, 0x62, 0x63, 0x68, 0x65, 0x72, 0x2d, 0x6b, 0x76, 0x61],
      [0x65, 0x78, 0x61, 0x6d, 0x70, 0x6c, 0x65]] := by decide
  rw [hs] at hl
  simp only [List.mem_cons, List.mem_nil_iff, or_false] at hl
  rcases hl with rfl | rfl
  · have : punyDecode ((([0x78, 0x6e, 0x2d, 0x2d, 0x62, 0x63, 0x68, 0x65, 0x72, 0x2d, 0x6b, 0x76, 0x61] : Bytes).map UInt8.toNat).drop 4)
        = some bucher := by decide
    rw [this] at hp; exact (Option.some.inj hp).symm
  · exact absurd hace (by decide)

/-- **validHost_alabel_example** — an IDN name, outright up to ONE fact about the Unicode tables:
    `b"xn--bcher-kva.example"` is a valid host for every nameprep that leaves `"bücher"` unchanged
    (punycode decoding, the ToASCII round trip, the label regex and the length rules are all computed by the model). -/
theorem validHost_alabel_example (N : Nameprep) (h : N.prep bucher = some bucher) : validHostN N nmBucher = true := by
  have hstrip : stripDot nmBucher = nmBucher := by decide
  have hc : validHostN N nmBucher = validHostN ⟨fun _ => some bucher⟩ nmBucher :=
    validHostN_congr N _ nmBucher (fun r hr => by rw [asked_bucher r hr]; exact h)
      (fun r hr => by rw [hstrip] at hr; rw [asked_bucher r hr]; exact h)
  rw [hc]; decide

/-- … and its decoded text is "bücher.example"; a broken A-label is invalid whatever nameprep says -/
example : decodeIdna ⟨fun _ => some bucher⟩ nmBucher
    = some [0x62, 0xfc, 0x63, 0x68, 0x65, 0x72, 0x2e, 0x65, 0x78, 0x61, 0x6d, 0x70, 0x6c, 0x65] := by decide
example (N : Nameprep) : validHostN N [0x78, 0x6e, 0x2d, 0x2d, 0x5f] = false := by                      -- b"xn--_"
  have : validHostN N [0x78, 0x6e, 0x2d, 0x2d, 0x5f] = validHostN ⟨fun _ => none⟩ [0x78, 0x6e, 0x2d, 0x2d, 0x5f] := by
    apply validHostN_congr
    all_goals
      intro r hr
      obtain ⟨l, hl, _, hp⟩ := hr
      have hl' : l = [0x78, 0x6e, 0x2d, 0x2d, 0x5f] := by
        first
          | (have hs : splitDot [0x78, 0x6e, 0x2d, 0x2d, 0x5f] = [[0x78, 0x6e, 0x2d, 0x2d, 0x5f]] := by decide
             rw [hs] at hl; simpa using hl)
          | (have hs : splitDot (stripDot [0x78, 0x6e, 0x2d, 0x2d, 0x5f]) = [[0x78, 0x6e, 0x2d, 0x2d, 0x5f]] := by decide
             rw [hs] at hl; simpa using hl)
      subst hl'
      have hd : punyDecode (List.drop 4 (List.map UInt8.toNat [0x78, 0x6e, 0x2d, 0x2d, 0x5f])) = none := by decide
      rw [hd] at hp; cases hp
  rw [this]; decide



/-! ## nameprep inside the model: `is_valid_host` with no parameter left -/

set_option maxRecDepth 100000 in
/-- the one Unicode fact `validHost_alabel_example` asked for, now computed from the regenerated tables -/
theorem nameprep_bucher : theNameprep.prep bucher = some bucher := by
  decide +kernel

/-- **validHost_alabel_outright** — `b"xn--bcher-kva.example"` is a valid host: no hypothesis, no parameter
    (record of what is computed: split, ACE prefix, punycode decode, nameprep = map + NFKC + prohibit + bidi on the
    interpreter's tables, punycode re-encode, round-trip comparison, label regex, length rules) -/
theorem validHost_alabel_outright : validHostFull nmBucher = true := by
  unfold validHostFull
  exact validHost_alabel_example theNameprep nameprep_bucher

/-- **validHostFull_closed_form** — for names without `xn--` the complete model is the closed expression -/
theorem validHostFull_closed_form (nm : Bytes) (hace : isInfix acePrefix nm = false) :
    validHostFull nm =
      (nm.all (fun b => decide (b.toNat < 128)) && decide (nm.length ≤ 255) &&
        ((splitDot (stripDot nm)).all labelValid ||
          ((stripDot nm).all (fun b => decide (b.toNat < 128)) && (C22.parseIp (stripDot nm)).isSome))) :=
  validHostT_closed_form _ nm hace

/-- **sni_full** — `ClientHello.sni` of any parsed hello, computed with no library answer, agrees with the computation
    under ANY idna library as long as no host_name candidate contains `xn--` (and for those that do, the model computes
    the idna codec and nameprep itself: `validHostFull`) -/
theorem sni_full (I : IdnaLib) (h : Hello) (hc : ∀ nm ∈ h.sniCandidates, isInfix acePrefix nm = false) :
    h.sni validHostFull = h.sni (validHostT I) :=
  sni_lib_free _ I h hc

set_option maxRecDepth 100000 in
/-- NFKC as the interpreter computes it: Hangul jamo compose, A + ring composes, ß folds to ss, U+0080 is prohibited,
    a mixed RTL/LTR label violates the bidi rule -/
example : nfkc [0x1100, 0x1161, 0x11A8] = [0xAC01] ∧ nfkc [0x41, 0x30a] = [0xC5] ∧
    nameprep [0xdf] = some [0x73, 0x73] ∧ nameprep [0x80] = none ∧ nameprep [0x5d0, 0x61] = none ∧
    nameprep [0x5d0, 0x5d1] = some [0x5d0, 0x5d1] := by decide +kernel

set_option maxRecDepth 100000 in
/-- IDN names outright: "中国" (xn--fiqs8s) is valid; xn--a (decodes to U+0080, prohibited) is not -/
example : validHostFull [0x78, 0x6e, 0x2d, 0x2d, 0x66, 0x69, 0x71, 0x73, 0x38, 0x73] = true ∧
    validHostFull [0x78, 0x6e, 0x2d, 0x2d, 0x61] = false := by decide +kernel


/-! ## record sizes: the code has NO bound below the length field's own maximum -/

/-- **record_any_size_accepted** — `handshake_record_contents` accepts a record of EVERY length 1 … 65535 = 2^16-1
    (the code checks only `record_size == 0`); in particular there is no 2^14 limit and nothing changes at
    16383 / 16384 / 16385. A bound, if the code ever gets one, belongs here with its exact value. -/
theorem record_any_size_accepted (dtls : Bool) (pre c rest : Bytes)
    (hpre : pre.length + 2 = hdrLen dtls) (hstart : startsLike dtls pre = true)
    (hpos : 0 < c.length) (hmax : c.length ≤ 65535) :
    nextRecord dtls (mkRecord pre c ++ rest) = .ok (c, rest) :=
  nextRecord_mkRecord dtls (pre, c) rest ⟨hpre, hstart, hpos, Nat.lt_succ_of_le hmax⟩

/-- at the boundary: one record of exactly 2^14 = 16384 bytes, of 2^14 + 1, and of 65535 bytes -/
example (rest : Bytes) : nextRecord false (mkRecord [0x16, 3, 3] (List.replicate 16384 7) ++ rest)
    = .ok (List.replicate 16384 7, rest) :=
  record_any_size_accepted false _ _ rest (by decide) (by decide) (by rw [List.length_replicate]; omega) (by rw [List.length_replicate]; omega)
example (rest : Bytes) : nextRecord false (mkRecord [0x16, 3, 1] (List.replicate 16385 7) ++ rest)
    = .ok (List.replicate 16385 7, rest) :=
  record_any_size_accepted false _ _ rest (by decide) (by decide) (by rw [List.length_replicate]; omega) (by rw [List.length_replicate]; omega)
example (rest : Bytes) : nextRecord true (mkRecord [0x16, 0xfe, 0xfd, 0, 0, 0, 0, 0, 0, 0, 0] (List.replicate 65535 7) ++ rest)
    = .ok (List.replicate 65535 7, rest) :=
  record_any_size_accepted true _ _ rest (by decide) (by decide) (by rw [List.length_replicate]; omega) (by rw [List.length_replicate]; omega)

/-- **record_header_prefix_incomplete** — a complete, plausible header with a non-zero length followed by too few body bytes
    is "incomplete", never "invalid" — whatever the announced length (16384 included). (Fewer bytes than a header:
    `record_short_header_incomplete`.) -/
theorem record_header_prefix_incomplete (dtls : Bool) (pre c : Bytes) (k : Nat)
    (hpre : pre.length + 2 = hdrLen dtls) (hstart : startsLike dtls pre = true)
    (hpos : 0 < c.length) (hmax : c.length ≤ 65535) (hk : k < c.length) :
    nextRecord dtls (pre ++ w16 c.length ++ c.take k) = .incomplete := by
  have h5 := hdrLen_pos dtls
  have hhdr : (pre ++ w16 c.length).length = hdrLen dtls := by simp [w16]; omega
  unfold nextRecord
  simp only
  rw [List.take_left' hhdr]
  have hlen : ((pre ++ w16 c.length) ++ c.take k).length = hdrLen dtls + k := by
    rw [List.length_append, hhdr, List.length_take]; omega
  rw [hlen, if_neg (by omega), startsLike_append dtls pre _ (by omega), hstart]
  have hg1 : (pre ++ w16 c.length).getD (hdrLen dtls - 2) 0 = UInt8.ofNat (c.length / 256) := by
    have : hdrLen dtls - 2 = pre.length := by omega
    rw [this]; simp [w16, List.getD_eq_getElem?_getD]
  have hg2 : (pre ++ w16 c.length).getD (hdrLen dtls - 1) 0 = UInt8.ofNat (c.length % 256) := by
    have : hdrLen dtls - 1 = pre.length + 1 := by omega
    rw [this]; simp [w16, List.getD_eq_getElem?_getD]
  rw [hg1, hg2, be16_w16 _ (by omega)]
  simp only [if_false, Bool.true_eq_false]
  rw [if_neg (by omega), if_pos (by omega)]

example : nextRecord false ([0x16, 3, 3] ++ w16 (List.replicate 16384 (7 : UInt8)).length ++ (List.replicate 16384 7).take 0) = .incomplete :=
  record_header_prefix_incomplete false [0x16, 3, 3] (List.replicate 16384 7) 0 (by decide) (by decide) (by rw [List.length_replicate]; omega) (by rw [List.length_replicate]; omega) (by rw [List.length_replicate]; omega)


/-! ## owner round 6: the builder as the driver runs it, short headers, valid hosts are ASCII -/

/-- **dtlsFlight_eq_records** — the flight the DTLS theorems quantify over is `records` of the `fragsOf` fragments under one record
    prefix: exactly the two functions op `build` executes and compares byte for byte with the harness's fragmenter. -/
theorem dtlsFlight_eq_records (pre seq body : Bytes) (sizes : List Nat) :
    dtlsFlight pre seq body sizes = records ((fragsOf seq body.length 0 body sizes).map (fun f => (pre, f))) := by
  unfold dtlsFlight records
  rw [List.flatMap_map]

/-- **record_short_header_incomplete** — fewer bytes than a record header (5 for TLS, 13 for DTLS) never give a verdict -/
theorem record_short_header_incomplete (dtls : Bool) (d : Bytes) (h : d.length < hdrLen dtls) :
    nextRecord dtls d = .incomplete ∧ parse dtls d = .incomplete := by
  have h1 : nextRecord dtls d = .incomplete := by
    unfold nextRecord; simp only; rw [if_pos h]
  refine ⟨h1, ?_⟩
  unfold parse getHello
  rw [getHelloF, h1]

/-! ### a valid host name is ASCII (so `host_name.decode("ascii")` in `ClientHello.sni` cannot raise) -/

private theorem mapAll_some_mem {α β : Type} (f : α → Option β) : ∀ (l : List α) (rs : List β),
    mapAll f l = some rs → ∀ a ∈ l, ∃ b, f a = some b := by
  intro l
  induction l with
  | nil => intro rs _ a ha; simp at ha
  | cons x xs ih =>
    intro rs h a ha
    simp only [mapAll] at h
    cases hx : f x with
    | none => rw [hx] at h; simp at h
    | some b =>
      cases hxs : mapAll f xs with
      | none => rw [hx, hxs] at h; simp at h
      | some bs =>
        simp only [List.mem_cons] at ha
        rcases ha with rfl | ha
        · exact ⟨b, hx⟩
        · exact ih bs hxs a ha

private theorem punyDecode_ascii (t : List Nat) (r : Cps) (h : punyDecode t = some r) : ∀ c ∈ t, c < 128 := by
  unfold punyDecode at h
  split at h
  · cases h
  · rename_i hany
    intro c hc
    have : ¬ (t.any (fun c => decide (c ≥ 128)) = true) := hany
    rw [List.any_eq_true] at this
    by_cases hlt : c < 128
    · exact hlt
    · exact absurd ⟨c, hc, by simp; omega⟩ this

private theorem toUnicode_ascii (N : Nameprep) (l : List Nat) (r : Cps) (h : toUnicode N l = some r) : ∀ c ∈ l, c < 128 := by
  unfold toUnicode at h
  split at h
  · cases h
  · split at h
    · split at h
      · rename_i hall
        intro c hc
        have := (List.all_eq_true.mp hall) c hc
        simpa using this
      · cases h
    · rename_i hace
      have hp : aceCps.isPrefixOf l = true := by simpa using hace
      cases hd : punyDecode (l.drop 4) with
      | none => rw [hd] at h; cases h
      | some res =>
        have htail := punyDecode_ascii _ _ hd
        rw [List.isPrefixOf_iff_prefix] at hp
        obtain ⟨t, ht⟩ := hp
        intro c hc
        rw [← ht] at hc htail
        have hdrop : (aceCps ++ t).drop 4 = t := by simp [aceCps]
        rw [hdrop] at htail
        rw [List.mem_append] at hc
        rcases hc with hc | hc
        · simp [aceCps] at hc; omega
        · exact htail c hc

private theorem mem_splitDot (raw : Bytes) : ∀ b ∈ raw, b = 0x2e ∨ ∃ l ∈ splitDot raw, b ∈ l := by
  induction raw with
  | nil => intro b hb; simp at hb
  | cons x xs ih =>
    intro b hb
    simp only [List.mem_cons] at hb
    by_cases hx : x = 0x2e
    · rcases hb with rfl | hb
      · exact Or.inl hx
      · rcases ih b hb with h | ⟨l, hl, hbl⟩
        · exact Or.inl h
        · exact Or.inr ⟨l, by simp [splitDot, hx, hl], hbl⟩
    · simp only [splitDot, if_neg hx]
      cases hs : splitDot xs with
      | nil =>
        rcases hb with rfl | hb
        · exact Or.inr ⟨[b], by simp, by simp⟩
        · rcases ih b hb with h | ⟨l, hl, _⟩
          · exact Or.inl h
          · rw [hs] at hl; simp at hl
      | cons l ls =>
        rcases hb with rfl | hb
        · exact Or.inr ⟨b :: l, by simp, by simp⟩
        · rcases ih b hb with h | ⟨l', hl', hbl⟩
          · exact Or.inl h
          · rw [hs] at hl'
            simp only [List.mem_cons] at hl'
            rcases hl' with rfl | hl'
            · exact Or.inr ⟨x :: l', by simp, by simp [hbl]⟩
            · exact Or.inr ⟨l', by simp [hl'], hbl⟩

private theorem decodeIdna_ascii (N : Nameprep) (raw : Bytes) (t : Cps) (h : decodeIdna N raw = some t) :
    ∀ b ∈ raw, b.toNat < 128 := by
  unfold decodeIdna at h
  simp only at h
  cases hm : mapAll (toUnicode N) (trimLabels ((splitDot raw).map (fun l => l.map UInt8.toNat))).1 with
  | none => rw [hm] at h; cases h
  | some rs =>
    have hall := mapAll_some_mem _ _ _ hm
    intro b hb
    rcases mem_splitDot raw b hb with hdot | ⟨l, hl, hbl⟩
    · subst hdot; decide
    · -- the label of `b` is non-empty, so it survives `trimLabels`
      have hlmem : l.map UInt8.toNat ∈ (trimLabels ((splitDot raw).map (fun l => l.map UInt8.toNat))).1 := by
        have hin : l.map UInt8.toNat ∈ (splitDot raw).map (fun l => l.map UInt8.toNat) := List.mem_map.mpr ⟨l, hl, rfl⟩
        unfold trimLabels
        split
        · rename_i hlast
          -- the dropped element is the last one, which is []
          obtain ⟨ys, hys⟩ := List.getLast?_eq_some_iff.mp hlast
          rw [hys, List.dropLast_concat]
          rw [hys, List.mem_append] at hin
          rcases hin with hin | hin
          · exact hin
          · simp only [List.mem_singleton] at hin
            have : l = [] := by simpa using hin
            subst this; simp at hbl
        · exact hin
      obtain ⟨r, hr⟩ := hall _ hlmem
      exact toUnicode_ascii N _ r hr b.toNat (List.mem_map.mpr ⟨b, hbl, rfl⟩)

/-- **validHostN_ascii** — whatever nameprep does: a name `is_valid_host` accepts consists of ASCII bytes only (names without `xn--`
    by the codec's fast path, names with `xn--` because every label is either ASCII or `xn--` + ASCII punycode). -/
theorem validHostN_ascii (N : Nameprep) (nm : Bytes) (h : validHostN N nm = true) : ∀ b ∈ nm, b.toNat < 128 := by
  unfold validHostN validHostT validHost at h
  by_cases hi : idnaOk (hostLibOf (idnaOf N)) nm = false
  · simp [hi] at h
  · have hok : idnaOk (hostLibOf (idnaOf N)) nm = true := by simpa using hi
    unfold idnaOk at hok
    split at hok
    · -- slow path: the transcribed codec decoded the name
      simp only [hostLibOf, idnaOf, Option.isSome_map] at hok
      cases hd : decodeIdna N nm with
      | none => rw [hd] at hok; simp at hok
      | some t => exact decodeIdna_ascii N nm t hd
    · intro b hb
      have := (List.all_eq_true.mp hok) b hb
      simpa using this

/-- **sni_is_ascii** — the accessor cannot raise: whatever `ClientHello.sni` returns (complete model, any parsed hello) is pure ASCII,
    so the final `host_name.decode("ascii")` succeeds. -/
theorem sni_is_ascii (h : Hello) (nm : Bytes) (hs : h.sni validHostFull = some nm) : ∀ b ∈ nm, b.toNat < 128 := by
  unfold Hello.sni at hs
  have := List.find?_some hs
  exact validHostN_ascii theNameprep nm this


/-! ## DTLS handshake fragmentation (finding F-C13a) -/

/-- **dtls_fragment_invariant (partial)** — `DtlsFragmentInvariant` restricted by the guard
    `sizes.length = 1` (the flight is not fragmented): this is all the current code achieves. -/
theorem dtls_fragment_invariant_partial (h : BHello) (pre seq : Bytes) (sizes : List Nat)
    (hw : h.WF true) (hseq : seq.length = 2) (hpre : pre.length + 2 = hdrLen true)
    (hstart : startsLike true pre = true) (hs : ∀ s ∈ sizes, 0 < s ∧ s + 12 < 65536)
    (hsum : sizes.sum = (h.body true).length) (hone : sizes.length = 1) :
    parse true (dtlsFlight pre seq (h.body true) sizes) = .ok h.view := by
  match sizes, hone with
  | [n], _ =>
    have hn : n = (h.body true).length := by simpa using hsum
    have hb := hs n (by simp)
    subst hn
    have hflight : dtlsFlight pre seq (h.body true) [(h.body true).length] =
        records [(pre, h.message true seq)] ++ [] := by
      simp [dtlsFlight, fragsOf, records, BHello.message, msgHdr, List.append_assoc]
    rw [hflight]
    apply agrees_with_builder true h seq [] [] [(pre, h.message true seq)] hw hseq
    · intro ch hch
      simp only [List.mem_singleton] at hch
      subst hch
      refine ⟨hpre, hstart, ?_, ?_⟩
      · simp [BHello.message, msgHdr, w24]
      · simp [BHello.message, msgHdr, w24, hseq]; omega
    · simp [contents]

private def cxHello : BHello :=
  { ver := [0xfe, 0xfd], random := List.replicate 32 0, sid := [], cookie := [], ciphers := [0x1301],
    comp := [0], exts := none }

private def cxPre : Bytes := [0x16, 0xfe, 0xfd, 0, 0, 0, 0, 0, 0, 0, 0]

private theorem cxHello_wf : cxHello.WF true := by
  refine ⟨rfl, rfl, by decide, by decide, by decide, by decide, by decide, ?_, by decide⟩
  intro es he; cases he

/-- **dtls_fragment_invariant (counterexample)** — a 42-byte DTLS ClientHello sent as two fragments of 21 bytes
    is rejected as invalid (the first fragment alone is taken for the whole message), whereas the same hello
    in one fragment is read correctly: the full statement is false for the current code. -/
theorem dtls_fragment_invariant_counterexample : ¬ DtlsFragmentInvariant := by
  intro H
  have h1 := H cxHello cxPre [0, 0] [21, 21] cxHello_wf rfl rfl (by decide) (by decide) (by decide)
  have h2 : parse true (dtlsFlight cxPre [0, 0] (cxHello.body true) [21, 21]) = .invalid := by decide +kernel
  rw [h2] at h1
  cases h1

/-! ## non-vacuity: the hypotheses are satisfiable, the model is not constant -/

private def exHello : BHello :=
  { ver := [3, 3], random := List.replicate 32 7, sid := [1, 2, 3], cookie := [], ciphers := [0x1301, 0xc02f],
    comp := [0],
    exts := some [.other 0xff01 [0], .sni [(0, [0x61, 0x2e, 0x62])], .alpn [[0x68, 0x32], [0x78]], .other 43 [2, 3, 4]] }

private theorem exHello_wf (dtls : Bool) : exHello.WF dtls := by
  refine ⟨rfl, rfl, by decide, by decide, by decide, by decide, by decide, ?_, by cases dtls <;> decide⟩
  intro es he
  cases he
  intro e hm
  simp only [List.mem_cons, List.mem_nil_iff, or_false] at hm
  rcases hm with rfl | rfl | rfl | rfl
  · exact ⟨by decide, by decide, by decide, by decide⟩
  · exact ⟨by decide, by decide⟩
  · exact ⟨by decide, by decide⟩
  · exact ⟨by decide, by decide, by decide, by decide⟩

/-- `agrees_with_builder` instantiated: the hello above, cut into three TLS records (1 + 3 + rest bytes) with
    record versions 3.1 / 3.3, followed by a ChangeCipherSpec record -/
example : parse false
    (records [([0x16, 3, 1], (exHello.message false [0, 0]).take 1),
              ([0x16, 3, 3], ((exHello.message false [0, 0]).drop 1).take 3),
              ([0x16, 3, 3], (exHello.message false [0, 0]).drop 4)] ++ [0x14, 3, 3, 0, 1, 1])
    = .ok exHello.view := by
  apply agrees_with_builder false exHello [0, 0] [] _ _ (exHello_wf false) rfl
  · intro ch hm
    simp only [List.mem_cons, List.mem_nil_iff, or_false] at hm
    rcases hm with rfl | rfl | rfl <;> exact ⟨by decide, by decide, by decide, by decide⟩
  · decide +kernel

/-- what is read back: SNI a.b (for a validity predicate accepting everything), ALPN [h2, x], 4 extensions -/
example : exHello.view.sni (fun _ => true) = some [0x61, 0x2e, 0x62] ∧ exHello.view.alpn = [[0x68, 0x32], [0x78]] ∧
    exHello.view.extView.map (·.1) = [0xff01, 0, 16, 43] := by decide

/-- the same hello as a DTLS flight in one fragment (record version 0xFEFF as OpenSSL sends it) -/
example : parse true (dtlsFlight [0x16, 0xfe, 0xff, 0, 0, 0, 0, 0, 0, 0, 0] [0, 0] (exHello.body true) [(exHello.body true).length])
    = .ok exHello.view :=
  dtls_fragment_invariant_partial exHello _ [0, 0] _ (exHello_wf true) rfl rfl (by decide) (by decide) (by decide) rfl

/-- the model is not constant: incomplete, invalid (bad record header / empty record / short body) all occur -/
example : parse false [0x16, 3, 1, 0] = .incomplete := by decide
example : parse false [0x17, 3, 1, 0, 1, 0] = .invalid := by decide
example : parse false [0x16, 3, 1, 0, 0] = .invalid := by decide
example : parse false [0x16, 3, 4, 0, 1] = .invalid := by decide
example : parse false [0x16, 3, 1, 0, 5, 1, 0, 0, 1, 0] = .invalid := by decide
example : parse false [0x16, 3, 1, 0, 5, 1, 0, 0, 2, 0] = .incomplete := by decide
example : parse true [0x16, 0xfe, 0xfc, 0, 0, 0, 0, 0, 0, 0, 0, 0, 1] = .invalid := by decide
/-- incomplete is NOT stable (so the guard of `prefix_stable` is needed) -/
example : parse false [0x16, 3, 1, 0] = .incomplete ∧ parse false ([0x16, 3, 1, 0] ++ [0]) = .invalid := by decide


/-! ## round-6 cross-audit: further non-vacuity witnesses (instances of theorems that had none) -/

-- `prefix_stable_invalid`: a rejected input stays rejected
example : parse false ([0x17, 3, 1, 0, 1, 0] ++ [1, 2, 3]) = .invalid := prefix_stable_invalid false _ _ (by decide)

-- `record_split_invariant`: the real hello in three records (two record versions) vs. in one record
example : parse false (records [([0x16, 3, 1], (exHello.message false [0, 0]).take 1),
              ([0x16, 3, 3], ((exHello.message false [0, 0]).drop 1).take 3),
              ([0x16, 3, 3], (exHello.message false [0, 0]).drop 4)]) = parse false (records [([0x16, 3, 3], exHello.message false [0, 0])]) := by
  apply record_split_invariant
  · intro ch hm
    simp only [List.mem_cons, List.mem_nil_iff, or_false] at hm
    rcases hm with rfl | rfl | rfl <;> exact ⟨by decide, by decide, by decide, by decide⟩
  · intro ch hm
    simp only [List.mem_cons, List.mem_nil_iff, or_false] at hm
    subst hm; exact ⟨by decide, by decide, by decide, by decide⟩
  · decide +kernel

-- `built_any_split`: that wire image followed by a ChangeCipherSpec record, delivered in two TCP segments cut inside a record header
example : feedAll false []
    [ (records [([0x16, 3, 1], (exHello.message false [0, 0]).take 1),
              ([0x16, 3, 3], ((exHello.message false [0, 0]).drop 1).take 3),
              ([0x16, 3, 3], (exHello.message false [0, 0]).drop 4)]).take 7,
      (records [([0x16, 3, 1], (exHello.message false [0, 0]).take 1),
              ([0x16, 3, 3], ((exHello.message false [0, 0]).drop 1).take 3),
              ([0x16, 3, 3], (exHello.message false [0, 0]).drop 4)]).drop 7 ++ [0x14, 3, 3, 0, 1, 1] ] = .ok exHello.view := by
  apply built_any_split false exHello [0, 0] [] [0x14, 3, 3, 0, 1, 1] [([0x16, 3, 1], (exHello.message false [0, 0]).take 1),
              ([0x16, 3, 3], ((exHello.message false [0, 0]).drop 1).take 3),
              ([0x16, 3, 3], (exHello.message false [0, 0]).drop 4)] _ (exHello_wf false) rfl
  · intro ch hm
    simp only [List.mem_cons, List.mem_nil_iff, or_false] at hm
    rcases hm with rfl | rfl | rfl <;> exact ⟨by decide, by decide, by decide, by decide⟩
  · decide +kernel
  · rw [List.flatten_cons, List.flatten_cons, List.flatten_nil, List.append_nil, ← List.append_assoc, List.take_append_drop]

-- `parse_records_payload` / `payload_only` with a result that is a hello (the example above ends in `.invalid`)
example : parse false (records [([0x16, 3, 3], exHello.message false [0, 0])]) = helloOf false (contents [([0x16, 3, 3], exHello.message false [0, 0])]) := by
  apply parse_records_payload
  intro ch hm
  simp only [List.mem_cons, List.mem_nil_iff, or_false] at hm
  subst hm; exact ⟨by decide, by decide, by decide, by decide⟩
example : helloOfMsg false (exHello.message false [0, 0]) = .ok exHello.view := by decide +kernel

-- `payload_incomplete`: the payload announces 5 body bytes and carries 1
example : feedAll false [] [[0x16, 3, 1, 0, 5], [1, 0, 0, 5, 0]] = .incomplete :=
  payload_incomplete false [([0x16, 3, 1], [1, 0, 0, 5, 0])] _
    (by intro ch hm
        simp only [List.mem_cons, List.mem_nil_iff, or_false] at hm
        subst hm; exact ⟨by decide, by decide, by decide, by decide⟩)
    (by decide) (by decide)

-- accessors: the theorems instantiated on the hello with SNI + ALPN + two other extensions
example : exHello.view.alpn = builtAlpn [.other 0xff01 [0], .sni [(0, [0x61, 0x2e, 0x62])], .alpn [[0x68, 0x32], [0x78]], .other 43 [2, 3, 4]] :=
  alpn_of_built exHello _ rfl ((exHello_wf false).2.2.2.2.2.2.2.1 _ rfl)
example (valid : Bytes → Bool) : exHello.view.sni valid =
    builtSni valid [.other 0xff01 [0], .sni [(0, [0x61, 0x2e, 0x62])], .alpn [[0x68, 0x32], [0x78]], .other 43 [2, 3, 4]] :=
  sni_of_built valid exHello _ rfl ((exHello_wf false).2.2.2.2.2.2.2.1 _ rfl)

-- `sni_outright`: SNI "a.b" reported whatever the idna / ipaddress libraries answer
example (lib : HostLib) : exHello.view.sni (validHost lib) = some [0x61, 0x2e, 0x62] :=
  sni_outright lib exHello [.other 0xff01 [0]] [.alpn [[0x68, 0x32], [0x78]], .other 43 [2, 3, 4]] [[0x61], [0x62]] rfl
    ((exHello_wf false).2.2.2.2.2.2.2.1 _ rfl)
    (by intro x hx ns h; simp only [List.mem_singleton] at hx; subst hx; cases h)
    (by simp) (by decide) (by decide) (by decide)

-- `sni_lib_free` / `sni_full`: no `xn--` candidate, so no library answer matters
example (I J : IdnaLib) : exHello.view.sni (validHostT I) = exHello.view.sni (validHostT J) :=
  sni_lib_free I J _ (by decide)

-- `validHost_too_long` / `validHost_non_ascii`
example (lib : HostLib) : validHost lib (List.replicate 256 0x61) = false := validHost_too_long lib _ (by rw [List.length_replicate]; decide)
example (lib : HostLib) : validHost lib [0x62, 0xfc] = false := validHost_non_ascii lib _ 0xfc (by simp) (by decide) (by decide)

end MitmVerif.Props.C13
