/-
  C14 — property theorems.  Everything here is RELATIVE to `Laws K` (the stream-faithfulness law of the TLS engine,
  hypotheses as structure fields) and to the run-to-completion reading of `Layer.handle_event` (see Model/C14.lean).
-/
import MitmVerif.Model.C14
import MitmVerif.Lemmas.C14
import MitmVerif.Lemmas.C14Hist
import MitmVerif.Lemmas.C14_RefL
namespace MitmVerif.Props.C14
open MitmVerif MitmVerif.C14 MitmVerif.C14.Lemmas MitmVerif.C14.Hist

variable {K : Codec}

/-! ### the theorems -/

/-- **queued_during_handshake_in_order.**  While the tunnel is being established on an already open connection
    (ESTABLISHING, no `command_to_reply_to`) an event for the child is stored and the child sees nothing; when the
    handshake finishes, the stored events are handed to the child in arrival order, each exactly once, before anything
    else, and the store is empty afterwards. -/
theorem queued_during_handshake_in_order (child : Child) (s : St K) (he : s.errored = false) :
    (s.st = .establishing → s.replyTo = false → ∀ e,
        (eventToChild child s e).queue = s.queue ++ [e] ∧ (eventToChild child s e).toChild = s.toChild
        ∧ (eventToChild child s e).routed = s.routed ++ [e])
    ∧ (s.replyTo = false → ∀ err,
        (handshakeFinished child s err).toChild = s.toChild ++ s.queue ∧ (handshakeFinished child s err).queue = []) := by
  constructor
  · intro h1 h2 e
    unfold eventToChild etcCore
    rw [if_neg (by simp [he]), if_pos (by simp [queueing, isEst, h1, h2])]
    simp [enqueue, addRouted]
  · intro h2 err
    have key : ∀ (q : List CEv) (t : St K), direct t → t.errored = false →
        (q.foldl (etcCore child) t).toChild = t.toChild ++ q := by
      intro q
      induction q with
      | nil => intro t _ _; simp
      | cons e q ih =>
        intro t hd hte
        obtain ⟨a, b, _, d⟩ := deliver_spec child t e hd
        simp only [List.foldl_cons]
        rw [etcCore_direct child t e hd hte, ih _ d (by rw [b]; exact hte), a]; simp
    unfold handshakeFinished
    rw [if_neg (by simp [h2])]
    constructor
    · have := key s.queue (setSt s (if err then .closed else .open_))
        (by cases err <;> simp [direct, setSt]) (by simpa [setSt] using he)
      simpa [clearQueue, setSt] using this
    · simp [clearQueue]

/-- what one `receive_data` call does, in terms of the law -/
private theorem receiveData_spec (L : Laws K) (child : Child) (s : St K) (c : K.σ) (d : Bytes)
    (htls : s.tls = some c) (hd : direct s) (he : s.errored = false) :
    ∃ P e, e = (recvLoop K (K.inPending (feedIf c d) + 1) (feedIf c d) []).2.1
      ∧ (receiveData child s d).toChild
          = s.toChild ++ (if P.isEmpty then [] else [.data P]) ++ (if e == .closed then [.closed] else [])
      ∧ (∃ rest, (L.dec (L.fed c ++ d)).1.drop (L.taken c) = P ++ rest)
      ∧ (e = .want → L.taken c + P.length = (L.dec (L.fed c ++ d)).1.length ∧ (L.dec (L.fed c ++ d)).2 = false)
      ∧ (e = .closed → L.taken c + P.length = (L.dec (L.fed c ++ d)).1.length ∧ (L.dec (L.fed c ++ d)).2 = true) := by
  have hfed : L.fed (feedIf c d) = L.fed c ++ d ∧ L.taken (feedIf c d) = L.taken c := by
    unfold feedIf
    by_cases hde : d.isEmpty = true
    · have : d = [] := by simpa using hde
      subst this; simp
    · simp only [hde]; exact ⟨L.feed_fed c d, L.feed_taken c d⟩
  obtain ⟨P, hp1, _, _, _, _, ⟨rest, hp6⟩, _, hp8, hp9⟩ :=
    recvLoop_spec L (K.inPending (feedIf c d) + 1) (feedIf c d) [] (by omega)
  rw [hfed.1, hfed.2] at hp6 hp8 hp9
  simp only [List.nil_append] at hp1
  refine ⟨P, _, rfl, ?_, ⟨rest, hp6⟩, hp8, hp9⟩
  unfold receiveData
  simp only [htls]
  rw [hp1]
  -- the state after the loop, the optional log and tls_interact: the child-facing part is untouched
  generalize hs3 : interact (if ((recvLoop K (K.inPending (feedIf c d) + 1) (feedIf c d) []).2.1 == RecvEnd.err) = true
      then emit (afterRecv s (recvLoop K (K.inPending (feedIf c d) + 1) (feedIf c d) []).2.2
                  (recvLoop K (K.inPending (feedIf c d) + 1) (feedIf c d) []).2.1) [Up.log 1]
      else afterRecv s (recvLoop K (K.inPending (feedIf c d) + 1) (feedIf c d) []).2.2
                  (recvLoop K (K.inPending (feedIf c d) + 1) (feedIf c d) []).2.1) = s3
  have h3 : s3.toChild = s.toChild ∧ s3.errored = false ∧ direct s3 := by
    subst hs3
    split
    · refine ⟨?_, ?_, ?_⟩
      · have := frame_interact (emit (afterRecv s (recvLoop K (K.inPending (feedIf c d) + 1) (feedIf c d) []).2.2
            (recvLoop K (K.inPending (feedIf c d) + 1) (feedIf c d) []).2.1) [Up.log 1])
        simp only [frame, Prod.mk.injEq] at this; rw [this.1]; rfl
      · have := frame_interact (emit (afterRecv s (recvLoop K (K.inPending (feedIf c d) + 1) (feedIf c d) []).2.2
            (recvLoop K (K.inPending (feedIf c d) + 1) (feedIf c d) []).2.1) [Up.log 1])
        simp only [frame, Prod.mk.injEq] at this; rw [this.2.2.2.1]; exact he
      · apply direct_interact; simpa [direct, emit, afterRecv] using hd
    · refine ⟨?_, ?_, ?_⟩
      · have := frame_interact (afterRecv s (recvLoop K (K.inPending (feedIf c d) + 1) (feedIf c d) []).2.2
            (recvLoop K (K.inPending (feedIf c d) + 1) (feedIf c d) []).2.1)
        simp only [frame, Prod.mk.injEq] at this; rw [this.1]; rfl
      · have := frame_interact (afterRecv s (recvLoop K (K.inPending (feedIf c d) + 1) (feedIf c d) []).2.2
            (recvLoop K (K.inPending (feedIf c d) + 1) (feedIf c d) []).2.1)
        simp only [frame, Prod.mk.injEq] at this; rw [this.2.2.2.1]; exact he
      · apply direct_interact; simpa [direct, afterRecv] using hd
  obtain ⟨h3a, h3b, h3c⟩ := h3
  by_cases hP : P.isEmpty = true
  · simp only [hP, if_true, List.append_nil]
    by_cases hc : ((recvLoop K (K.inPending (feedIf c d) + 1) (feedIf c d) []).2.1 == RecvEnd.closed) = true
    · simp only [hc, if_true]
      rw [(eventToChild_direct child s3 .closed h3c h3b).1, h3a]
    · simp only [hc, Bool.false_eq_true, if_false, List.append_nil]; exact h3a
  · simp only [hP, Bool.false_eq_true, if_false]
    obtain ⟨q1, q2, _, q4⟩ := eventToChild_direct child s3 (.data P) h3c h3b
    by_cases hc : ((recvLoop K (K.inPending (feedIf c d) + 1) (feedIf c d) []).2.1 == RecvEnd.closed) = true
    · simp only [hc, if_true]
      rw [(eventToChild_direct child _ .closed q4 q2).1, q1, h3a]
    · simp only [hc, Bool.false_eq_true, if_false, List.append_nil]; rw [q1, h3a]

/-- **child_receives_exactly.**  One `receive_data` call on an open tunnel appends to what the child has seen exactly the
    plaintext `P` that the ciphertext received so far (`fed ++ d`, however it was segmented) newly decodes: a prefix of
    the not-yet-delivered plaintext, once and in order; and when the `recv` loop ends normally (WantRead or close_notify)
    nothing decodable is left behind. -/
theorem child_receives_exactly (L : Laws K) (child : Child) (s : St K) (c : K.σ) (d : Bytes)
    (htls : s.tls = some c) (hd : s.st = .establishing → s.replyTo = true) (he : s.errored = false) :
    ∃ P, plainOf (receiveData child s d).toChild = plainOf s.toChild ++ P
      ∧ (∃ rest, (L.dec (L.fed c ++ d)).1.drop (L.taken c) = P ++ rest)
      ∧ ((recvLoop K (K.inPending (feedIf c d) + 1) (feedIf c d) []).2.1 ≠ .err →
            L.taken c + P.length = (L.dec (L.fed c ++ d)).1.length) := by
  obtain ⟨P, e, he', h1, h2, h3, h4⟩ := receiveData_spec L child s c d htls hd he
  refine ⟨P, ?_, h2, ?_⟩
  · rw [h1, plainOf_append, plainOf_append]
    by_cases hP : P.isEmpty = true
    · have : P = [] := by simpa using hP
      subst this
      cases e <;> simp [plainOf]
    · cases e <;> simp [hP, plainOf]
  · intro hne
    have hfuel := (recvLoop_spec L (K.inPending (feedIf c d) + 1) (feedIf c d) [] (by omega)).choose_spec.2.2.2.2.2.2.1
    rw [← he'] at hne hfuel
    cases e with
    | want => exact (h3 rfl).1
    | closed => exact (h4 rfl).1
    | err => exact absurd rfl hne
    | fuel => exact absurd rfl hfuel

/-- **close_after_data.**  A ConnectionClosed produced by `receive_data` comes from a close_notify (the session's reading
    of the inbound stream says "closed"), it is the last thing the child is given in that call — after the
    DataReceived of the same call — and at that moment every plaintext byte that precedes the close_notify has been
    delivered; without close_notify the call gives the child no ConnectionClosed. -/
theorem close_after_data (L : Laws K) (child : Child) (s : St K) (c : K.σ) (d : Bytes)
    (htls : s.tls = some c) (hd : s.st = .establishing → s.replyTo = true) (he : s.errored = false) :
    ∃ P, (∃ rest, (L.dec (L.fed c ++ d)).1.drop (L.taken c) = P ++ rest) ∧
      (((recvLoop K (K.inPending (feedIf c d) + 1) (feedIf c d) []).2.1 = .closed ∧
          (receiveData child s d).toChild = s.toChild ++ (if P.isEmpty then [] else [.data P]) ++ [.closed]
          ∧ (L.dec (L.fed c ++ d)).2 = true ∧ L.taken c + P.length = (L.dec (L.fed c ++ d)).1.length)
      ∨ ((recvLoop K (K.inPending (feedIf c d) + 1) (feedIf c d) []).2.1 ≠ .closed ∧
          (receiveData child s d).toChild = s.toChild ++ (if P.isEmpty then [] else [.data P]))) := by
  obtain ⟨P, e, he', h1, h2, _, h4⟩ := receiveData_spec L child s c d htls hd he
  refine ⟨P, h2, ?_⟩
  rw [← he']
  by_cases hc : e = .closed
  · left; subst hc
    exact ⟨rfl, by simpa using h1, (h4 rfl).2, (h4 rfl).1⟩
  · right
    refine ⟨hc, ?_⟩
    have : (e == RecvEnd.closed) = false := by simpa using hc
    simpa [this] using h1

/-- **client_receives_exactly.**  After the child's SendData the ciphertext this layer has emitted so far is exactly what
    the TLS engine produced, and the peer's reading of it is exactly the payloads `sendall` accepted so far, in order
    (the invariants "emitted ciphertext = engine output" and "accepted = engine's plaintext" are kept, and after the
    call everything is flushed). -/
theorem client_receives_exactly (L : Laws K) (s : St K) (c : K.σ) (d : Bytes) (htls : s.tls = some c)
    (hup : cipherOf s.up = L.emitted c) (hacc : s.accepted = L.sent c) :
    ∃ c', (handleCmd s (.send d)).tls = some c'
      ∧ cipherOf (handleCmd s (.send d)).up = L.emitted c'
      ∧ (handleCmd s (.send d)).accepted = L.sent c'
      ∧ L.enc (cipherOf (handleCmd s (.send d)).up) = (handleCmd s (.send d)).accepted
      ∧ (handleCmd s (.send d)).accepted = s.accepted ++ (if (K.send c d).1 then d else []) := by
  obtain ⟨hse, hss⟩ := L.send_out c d
  obtain ⟨chunks, q1, q2, q3, _, _, q6⟩ :=
    outLoop_spec L (K.outPending (K.send c d).2 + 1) (K.send c d).2 [] (by omega)
  simp only [List.nil_append] at q1
  refine ⟨(outLoop K (K.outPending (K.send c d).2 + 1) (K.send c d).2 []).2, ?_, ?_, ?_, ?_, ?_⟩
  all_goals simp only [handleCmd, htls, interact, emit]
  · rw [cipherOf_append, cipherOf_sends, q1, q2, hse, hup]
  · rw [q3, hss, hacc]
  · rw [cipherOf_append, cipherOf_sends, q1, hup, ← hse, ← q2, q6, q3, hss, hacc]
  · cases (K.send c d).1 <;> simp

/-! ### whole connections: every event history from Start -/

/-- the state a layer object starts in -/
def init (K : Codec) (sd : Side) : St K := { side := sd }

private theorem reach (L : Laws K) (env : Env K) (child : Child) (hfresh : ∀ c, env.mkTls = some c → Fresh L c)
    (sd : Side) (evs : List Ev) (hc : (run env child (init K sd) evs).crashed = false) :
    QG (run env child (init K sd) evs) ∧ TG L true (dataOf evs) [] (run env child (init K sd) evs) := by
  refine ⟨QG_run env child evs _ (QG_init sd), ?_⟩
  have := TGc_run env child hfresh evs (b := []) (s := init K sd) (Or.inr (TG_init L sd))
  rcases this with h | h
  · rw [hc] at h; cases h
  · simpa using h

/-- **child_stream_exact.**  For every event history from Start (handshake flights cut anywhere, ClientHello buffering,
    events stored while ESTABLISHING, any interleaving of data, child commands, unrelated events and closes), any child
    and any lawful engine whose connection object starts fresh, as long as no exception was raised: the events passed to
    `event_to_child` are the events the child handled, then the stored ones (then, only after a failed client handshake, the
    swallowed ones) — nothing lost, nothing twice, in order; their DataReceived payloads concatenate to a prefix
    (`take (taken c)`) of the plaintext of ALL bytes received on the connection, so what the child has handled is a
    prefix of the peer's plaintext stream; and when nothing is stored or swallowed it is exactly that prefix. -/
theorem child_stream_exact (L : Laws K) (env : Env K) (child : Child) (hfresh : ∀ c, env.mkTls = some c → Fresh L c)
    (sd : Side) (evs : List Ev) (hc : (run env child (init K sd) evs).crashed = false) :
    let s := run env child (init K sd) evs
    (∃ t, s.routed = s.toChild ++ s.queue ++ t ∧ (s.errored = false → t = []))
    ∧ (queueing s = false → s.queue = [])
    ∧ (∃ n rest, plainOf s.toChild ++ rest = (L.dec (dataOf evs)).1.take n)
    ∧ (∀ c, s.tls = some c → L.fed c = dataOf evs ∧ plainOf s.routed = (L.dec (dataOf evs)).1.take (L.taken c))
    ∧ (∀ c, s.tls = some c → s.errored = false → queueing s = false →
          plainOf s.toChild = (L.dec (dataOf evs)).1.take (L.taken c)) := by
  obtain ⟨q, t⟩ := reach L env child hfresh sd evs hc
  obtain ⟨tl, htl, htl0⟩ := q.q1
  refine ⟨q.q1, q.q2, ?_, ?_, ?_⟩
  · cases hs : (run env child (init K sd) evs).tls with
    | none =>
      have := (t.tn hs).2.2.1
      rw [htl, plainOf_append, plainOf_append] at this
      have h0 : plainOf (run env child (init K sd) evs).toChild = [] :=
        (List.append_eq_nil_iff.mp (List.append_eq_nil_iff.mp this).1).1
      exact ⟨0, [], by simp [h0]⟩
    | some c =>
      have := (t.ts c hs).2.1
      rw [htl, plainOf_append, plainOf_append] at this
      exact ⟨L.taken c, _, by simpa [List.append_assoc] using this⟩
  · intro c hs
    have := t.ts c hs
    exact ⟨this.1, by simpa using this.2.1⟩
  · intro c hs he hq
    have h1 := htl0 he
    have h2 := q.q2 hq
    have := (t.ts c hs).2.1
    rw [htl, h1, h2] at this
    simpa using this

/-- **child_stream_complete.**  On a connection whose history raised no exception, a DataReceived that reaches
    `receive_data` with nothing stored or swallowed and whose `recv` loop ends normally leaves the child with the COMPLETE
    plaintext of everything received on the connection so far (history ++ this segment): no byte is held back. -/
theorem child_stream_complete (L : Laws K) (env : Env K) (child : Child) (hfresh : ∀ c, env.mkTls = some c → Fresh L c)
    (sd : Side) (evs : List Ev) (hc : (run env child (init K sd) evs).crashed = false) (c : K.σ) (d : Bytes)
    (hs : (run env child (init K sd) evs).tls = some c) (he : (run env child (init K sd) evs).errored = false)
    (hq : queueing (run env child (init K sd) evs) = false)
    (hok : (recvLoop K (K.inPending (feedIf c d) + 1) (feedIf c d) []).2.1 ≠ .err) :
    plainOf (receiveData child (run env child (init K sd) evs) d).toChild = (L.dec (dataOf evs ++ d)).1 := by
  obtain ⟨_, _, _, h4, h5⟩ := child_stream_exact L env child hfresh sd evs hc
  have hdir : (run env child (init K sd) evs).st = .establishing → (run env child (init K sd) evs).replyTo = true := by
    intro hst
    simp only [queueing, hst, isEst, Bool.true_and, Bool.not_eq_false'] at hq
    exact hq
  obtain ⟨P, hp1, ⟨rest, hp2⟩, hp3⟩ := child_receives_exactly L child _ c d hs hdir he
  have hfed := (h4 c hs).1
  rw [hfed] at hp2 hp3
  rw [hp1, h5 c hs he hq]
  have hlen := hp3 hok
  obtain ⟨tt, htt⟩ := L.dec_mono (dataOf evs) d
  have hle : L.taken c ≤ (L.dec (dataOf evs)).1.length := by
    obtain ⟨_, tg⟩ := reach L env child hfresh sd evs hc
    exact (tg.ts c hs).2.2.1
  have h1 : (L.dec (dataOf evs)).1.take (L.taken c) = (L.dec (dataOf evs ++ d)).1.take (L.taken c) := by
    rw [htt, List.take_append_of_le_length hle]
  rw [h1]
  have := List.take_append_drop (L.taken c) (L.dec (dataOf evs ++ d)).1
  rw [hp2] at this
  have hrest : rest = [] := by
    have hl := congrArg List.length this
    simp at hl
    exact List.eq_nil_of_length_eq_zero (by omega)
  rw [hrest] at this
  simpa using this

/-- **peer_stream_exact.**  For every event history from Start without an exception: the ciphertext this layer has
    emitted on the tunnel connection is exactly what the engine produced, and the peer's reading of it is exactly the
    concatenation of the child's SendData payloads that `sendall` accepted, in order (before a TLS object exists nothing
    is emitted and nothing accepted). -/
theorem peer_stream_exact (L : Laws K) (env : Env K) (child : Child) (hfresh : ∀ c, env.mkTls = some c → Fresh L c)
    (sd : Side) (evs : List Ev) (hc : (run env child (init K sd) evs).crashed = false) :
    let s := run env child (init K sd) evs
    L.enc (cipherOf s.up) = s.accepted
    ∧ (∀ c, s.tls = some c → cipherOf s.up = L.emitted c ∧ s.accepted = L.sent c) := by
  obtain ⟨_, t⟩ := reach L env child hfresh sd evs hc
  refine ⟨?_, ?_⟩
  · cases hs : (run env child (init K sd) evs).tls with
    | none =>
      obtain ⟨_, _, _, _, h5, h6⟩ := t.tn hs
      rw [h5, h6]; exact L.enc_nil
    | some c =>
      obtain ⟨_, _, _, h4, h5, h6, _⟩ := t.ts c hs
      rw [h4, h5]; exact h6 rfl
  · intro c hs
    obtain ⟨_, _, _, h4, h5, _⟩ := t.ts c hs
    exact ⟨h4, h5⟩

/-- **close_last.**  On a connection whose history raised no exception, when a segment makes the peer's close_notify
    visible (the `recv` loop ends with ZeroReturn) and nothing is stored or swallowed: the child is given, in this order,
    the remaining plaintext (at most one DataReceived) and then exactly one ConnectionClosed; at that moment it holds
    the COMPLETE plaintext of the whole connection, and the session's reading of the inbound stream says "closed". -/
theorem close_last (L : Laws K) (env : Env K) (child : Child) (hfresh : ∀ c, env.mkTls = some c → Fresh L c)
    (sd : Side) (evs : List Ev) (hc : (run env child (init K sd) evs).crashed = false) (c : K.σ) (d : Bytes)
    (hs : (run env child (init K sd) evs).tls = some c) (he : (run env child (init K sd) evs).errored = false)
    (hq : queueing (run env child (init K sd) evs) = false)
    (hcl : (recvLoop K (K.inPending (feedIf c d) + 1) (feedIf c d) []).2.1 = .closed) :
    let s := run env child (init K sd) evs
    ∃ P, (receiveData child s d).toChild = s.toChild ++ (if P.isEmpty then [] else [.data P]) ++ [.closed]
      ∧ plainOf (receiveData child s d).toChild = (L.dec (dataOf evs ++ d)).1
      ∧ (L.dec (dataOf evs ++ d)).2 = true := by
  have hdir : (run env child (init K sd) evs).st = .establishing → (run env child (init K sd) evs).replyTo = true := by
    intro hst
    simp only [queueing, hst, isEst, Bool.true_and, Bool.not_eq_false'] at hq
    exact hq
  obtain ⟨_, _, _, h4, _⟩ := child_stream_exact L env child hfresh sd evs hc
  have hfed := (h4 c hs).1
  obtain ⟨P, _, hcase⟩ := close_after_data L child _ c d hs hdir he
  have hcomp := child_stream_complete L env child hfresh sd evs hc c d hs he hq (by rw [hcl]; simp)
  rcases hcase with ⟨_, h2, h3, _⟩ | ⟨h1, _⟩
  · exact ⟨P, h2, hcomp, by rw [← hfed]; exact h3⟩
  · exact absurd hcl h1

private theorem run_snoc (env : Env K) (child : Child) (s : St K) (evs : List Ev) (e : Ev) :
    run env child s (evs ++ [e]) = handle env child (run env child s evs) e := by
  simp [run, List.foldl_append]

private theorem dataOf_snoc_data (evs : List Ev) (d : Bytes) : dataOf (evs ++ [.data d]) = dataOf evs ++ d := by
  simp [dataOf, dataOfEv]

private theorem handle_data_open (env : Env K) (child : Child) (s : St K) (d : Bytes) (h : s.st = .open_) :
    handle env child s (.data d) = receiveData child s d := by
  simp [handle, h]

/-- **child_stream_complete_run** — `child_stream_complete` as a statement about the history itself: if after `evs` the tunnel is OPEN
    (nothing swallowed, no exception) and the next event is a segment whose `recv` loop ends normally, then after `evs ++ [segment]`
    the child holds the COMPLETE plaintext of all bytes of the history. -/
theorem child_stream_complete_run (L : Laws K) (env : Env K) (child : Child) (hfresh : ∀ c, env.mkTls = some c → Fresh L c)
    (sd : Side) (evs : List Ev) (hc : (run env child (init K sd) evs).crashed = false) (c : K.σ) (d : Bytes)
    (hs : (run env child (init K sd) evs).tls = some c) (he : (run env child (init K sd) evs).errored = false)
    (hst : (run env child (init K sd) evs).st = .open_)
    (hok : (recvLoop K (K.inPending (feedIf c d) + 1) (feedIf c d) []).2.1 ≠ .err) :
    plainOf (run env child (init K sd) (evs ++ [.data d])).toChild = (L.dec (dataOf (evs ++ [.data d]))).1 := by
  have hq : queueing (run env child (init K sd) evs) = false := by simp [queueing, hst, isEst]
  rw [run_snoc, handle_data_open _ _ _ _ hst, dataOf_snoc_data]
  exact child_stream_complete L env child hfresh sd evs hc c d hs he hq hok

/-- **close_last_run** — `close_last` about the history itself: when the segment appended to a history that left the tunnel OPEN makes the
    close_notify visible, the history's child events end with (the rest of the data,) exactly one ConnectionClosed, and the child then
    holds the complete plaintext of the whole connection. -/
theorem close_last_run (L : Laws K) (env : Env K) (child : Child) (hfresh : ∀ c, env.mkTls = some c → Fresh L c)
    (sd : Side) (evs : List Ev) (hc : (run env child (init K sd) evs).crashed = false) (c : K.σ) (d : Bytes)
    (hs : (run env child (init K sd) evs).tls = some c) (he : (run env child (init K sd) evs).errored = false)
    (hst : (run env child (init K sd) evs).st = .open_)
    (hcl : (recvLoop K (K.inPending (feedIf c d) + 1) (feedIf c d) []).2.1 = .closed) :
    ∃ P, (run env child (init K sd) (evs ++ [.data d])).toChild
          = (run env child (init K sd) evs).toChild ++ (if P.isEmpty then [] else [.data P]) ++ [.closed]
      ∧ plainOf (run env child (init K sd) (evs ++ [.data d])).toChild = (L.dec (dataOf (evs ++ [.data d]))).1
      ∧ (L.dec (dataOf (evs ++ [.data d]))).2 = true := by
  have hq : queueing (run env child (init K sd) evs) = false := by simp [queueing, hst, isEst]
  rw [run_snoc, handle_data_open _ _ _ _ hst, dataOf_snoc_data]
  exact close_last L env child hfresh sd evs hc c d hs he hq hcl

/-- What the peer's TCP close does to an OPEN tunnel whose child does not react to ConnectionClosed (or which has already seen the
    close_notify): tunnel CLOSED, the TLS object, the emitted ciphertext and the accepted payloads untouched — exactly the state
    `send_after_half_close` starts from. -/
theorem half_close_keeps_engine (env : Env K) (child : Child) (s : St K) (c : K.σ)
    (hst : s.st = .open_) (htls : s.tls = some c) (he : s.errored = false)
    (hquiet : K.gotShutdown c = true ∨ child s.toChild .closed = []) :
    (handle env child s .closeEv).st = .closed ∧ (handle env child s .closeEv).tls = some c
    ∧ (handle env child s .closeEv).errored = false ∧ (handle env child s .closeEv).up = s.up
    ∧ (handle env child s .closeEv).accepted = s.accepted
    ∧ ((handle env child s .closeEv).toChild = s.toChild ∨ (handle env child s .closeEv).toChild = s.toChild ++ [.closed]) := by
  by_cases hg : K.gotShutdown c = true
  · simp [handle, hst, htls, hg, he]
  · have hch : child s.toChild .closed = [] := by
      rcases hquiet with h | h
      · exact absurd h hg
      · exact h
    have hq : queueing (addRouted s .closed) = false := by simp [queueing, hst, isEst]
    simp only [handle, hst, htls, hg, Bool.false_eq_true, if_false, if_true, eventToChild, etcCore]
    rw [if_neg (by simp [he]), hq]
    simp [deliver, hch, handleCmds, he, htls]

/-- **send_after_half_close** (tunnel level).  The peer's TCP close puts the tunnel into CLOSED (first part) — and CLOSED
    does not stop the outbound direction: when the child then answers an event with SendData, `_handle_command` still hands
    the payload to the engine and forwards everything it produces; the peer's reading of the emitted ciphertext is the
    accepted payloads including this one (for whole histories this is `peer_stream_exact`, which quantifies over histories
    with closes anywhere). -/
theorem send_after_half_close (L : Laws K) (env : Env K) (child : Child) (s t : St K) (c : K.σ) (n : Nat) (d : Bytes)
    (hst : t.st = .closed) (he : t.errored = false) (htls : t.tls = some c)
    (hchild : child t.toChild (.other n) = [.send d])
    (hup : cipherOf t.up = L.emitted c) (hacc : t.accepted = L.sent c) :
    (handle env child s .closeEv).st = .closed
    ∧ (handle env child t (.other n)).accepted = t.accepted ++ (if (K.send c d).1 then d else [])
    ∧ L.enc (cipherOf (handle env child t (.other n)).up) = (handle env child t (.other n)).accepted := by
  refine ⟨by simp [handle], ?_⟩
  have hq : queueing (addRouted t (.other n)) = false := by simp [queueing, hst, isEst]
  have hstep : handle env child t (.other n)
      = handleCmd ({ addRouted t (.other n) with toChild := t.toChild ++ [.other n] } : St K) (.send d) := by
    simp only [handle, eventToChild, etcCore]
    rw [if_neg (by simp [he]), hq]
    simp only [Bool.false_eq_true, if_false, deliver, addRouted_toChild, hchild, handleCmds, List.foldl_cons, List.foldl_nil]
  rw [hstep]
  obtain ⟨c', _, _, _, h4, h5⟩ := client_receives_exactly L
    ({ addRouted t (.other n) with toChild := t.toChild ++ [.other n] } : St K) c d htls hup hacc
  exact ⟨h5, h4⟩

/-! ### the driver's framed reference codec is a lawful instance (Lemmas/C14_RefL.lean) -/

/-- the environment the driver runs the model in: the tls_start hook hands over a fresh reference-codec object -/
def refEnv (client : Bool) (parse : Bytes → Hello) (serverFirst : Bool) : Env RefL.refCodec :=
  { mkTls := some (RefL.refInit client), parse := parse, serverFirst := serverFirst }

private theorem refEnv_fresh (client : Bool) (parse : Bytes → Hello) (sf : Bool) :
    ∀ c, (refEnv client parse sf).mkTls = some c → Fresh RefL.refLaws c := by
  intro c hc
  simp only [refEnv] at hc
  injection hc with hc
  subst hc
  exact RefL.refInit_fresh client

/-- **ref_codec_lawful.**  The framed record codec the compiled driver uses in the differential run (records
    `[type][len][payload]`, handshake / application data / close_notify / ignorable, framed byte by byte, over the subtype of
    consistent states) satisfies the stream-faithfulness law, and the object handed over by the hook is fresh — so the
    correspondence run exercises the layer model with a PROVED-lawful engine, not only with the pass-through one. -/
theorem ref_codec_lawful : ∃ L : Laws RefL.refCodec, ∀ client, Fresh L (RefL.refInit client) :=
  ⟨RefL.refLaws, fun client => RefL.refInit_fresh client⟩

/-- `child_stream_exact` for the reference codec: no law hypothesis, no freshness hypothesis left. -/
theorem child_stream_exact_ref (client : Bool) (parse : Bytes → Hello) (sf : Bool) (child : Child) (sd : Side) (evs : List Ev)
    (hc : (run (refEnv client parse sf) child (init RefL.refCodec sd) evs).crashed = false) :
    let s := run (refEnv client parse sf) child (init RefL.refCodec sd) evs
    (∃ t, s.routed = s.toChild ++ s.queue ++ t ∧ (s.errored = false → t = []))
    ∧ (∃ n rest, plainOf s.toChild ++ rest = (RefL.dec (dataOf evs)).1.take n)
    ∧ (∀ c, s.tls = some c → c.1.fed = dataOf evs ∧ plainOf s.routed = (RefL.dec (dataOf evs)).1.take c.1.m.plain.length) := by
  obtain ⟨h1, _, h3, h4, _⟩ := child_stream_exact RefL.refLaws (refEnv client parse sf) child (refEnv_fresh client parse sf) sd evs hc
  exact ⟨h1, h3, h4⟩

/-- `peer_stream_exact` for the reference codec: what the peer reads out of the emitted records (`RefL.enc`: the payloads of the
    application-data records) is exactly what `sendall` accepted, for every history. -/
theorem peer_stream_exact_ref (client : Bool) (parse : Bytes → Hello) (sf : Bool) (child : Child) (sd : Side) (evs : List Ev)
    (hc : (run (refEnv client parse sf) child (init RefL.refCodec sd) evs).crashed = false) :
    RefL.enc (cipherOf (run (refEnv client parse sf) child (init RefL.refCodec sd) evs).up)
      = (run (refEnv client parse sf) child (init RefL.refCodec sd) evs).accepted :=
  (peer_stream_exact RefL.refLaws (refEnv client parse sf) child (refEnv_fresh client parse sf) sd evs hc).1

/-! ### non-vacuity: the law is satisfiable (a pass-through engine), and the theorems apply to it -/

private structure IdS where
  fedB : Bytes := []
  takenN : Nat := 0
  sentB : Bytes := []
  emittedN : Nat := 0

private def idCodec : Codec where
  σ := IdS
  feed := fun s x => { s with fedB := s.fedB ++ x, takenN := min s.takenN s.fedB.length }
  recv := fun s => if s.fedB.length ≤ s.takenN then (.wantRead, s)
                   else (.data (s.fedB.drop s.takenN), { s with takenN := s.fedB.length })
  send := fun s d => (true, { s with sentB := s.sentB ++ d, emittedN := min s.emittedN s.sentB.length })
  out := fun s => if s.sentB.length ≤ s.emittedN then (none, s)
                  else (some (s.sentB.drop s.emittedN), { s with emittedN := s.sentB.length })
  handshake := fun s => (.done, s)
  gotShutdown := fun _ => false
  inPending := fun s => s.fedB.length - s.takenN
  outPending := fun s => s.sentB.length - s.emittedN

private def idLaws : Laws idCodec where
  fed := fun s => s.fedB
  taken := fun s => min s.takenN s.fedB.length
  sent := fun s => s.sentB
  emitted := fun s => s.sentB.take s.emittedN
  dec := fun b => (b, false)
  enc := fun b => b
  dec_mono := fun a b => ⟨b, rfl⟩
  enc_nil := rfl
  feed_fed := fun _ _ => rfl
  feed_taken := by intro s x; simp [idCodec]
  feed_out := fun _ _ => ⟨rfl, rfl⟩
  recv_in := by intro s; simp only [idCodec]; split <;> rfl
  recv_out := by intro s; simp only [idCodec]; split <;> exact ⟨rfl, rfl⟩
  recv_data := by
    intro s d h
    simp only [idCodec] at h ⊢
    split at h
    · cases h
    · rename_i hlt
      simp only [RecvRes.data.injEq] at h
      subst h
      simp only [hlt, if_false, List.length_drop]
      refine ⟨by omega, ⟨[], ?_⟩, by omega⟩
      have : min s.takenN s.fedB.length = s.takenN := by omega
      rw [this]; simp
  recv_nodata := by
    intro s h
    simp only [idCodec] at h ⊢
    split
    · rfl
    · rename_i hlt
      exact absurd (by simp [hlt]) (h (s.fedB.drop s.takenN))
  recv_want := by
    intro s h
    simp only [idCodec] at h ⊢
    split at h
    · rename_i hle; exact ⟨by omega, trivial⟩
    · cases h
  recv_zero := by
    intro s h
    simp only [idCodec] at h
    split at h <;> cases h
  send_in := fun _ _ => ⟨rfl, rfl⟩
  send_out := by
    intro s d
    simp only [idCodec, if_true]
    refine ⟨?_, trivial⟩
    rw [List.take_append_of_le_length (by omega)]
    by_cases h : s.emittedN ≤ s.sentB.length
    · have : min s.emittedN s.sentB.length = s.emittedN := by omega
      rw [this]
    · have : min s.emittedN s.sentB.length = s.sentB.length := by omega
      rw [this, List.take_length, List.take_of_length_le (by omega)]
  out_in := by intro s; simp only [idCodec]; split <;> exact ⟨rfl, rfl⟩
  out_some := by
    intro s c h
    simp only [idCodec] at h ⊢
    split at h
    · cases h
    · rename_i hlt
      simp only [Option.some.injEq] at h
      subst h
      simp only [hlt, if_false, List.take_length]
      exact ⟨(List.take_append_drop _ _).symm, trivial, by omega⟩
  out_none := by
    intro s h
    simp only [idCodec] at h ⊢
    split at h
    · rename_i hle
      simp only [hle, if_true]
      exact ⟨trivial, trivial, List.take_of_length_le hle⟩
    · cases h
  hs_in := fun _ => ⟨rfl, rfl⟩
  hs_out := fun _ => ⟨rfl, rfl⟩

/-- the hypotheses of the theorems hold for an open server-side tunnel over the pass-through engine -/
example : ∃ P, plainOf (receiveData (K := idCodec) (fun _ _ => []) { side := .server, st := .open_, tls := some {} } [1, 2, 3]).toChild
    = plainOf [] ++ P ∧ P = [1, 2, 3] := by
  refine ⟨[1, 2, 3], ?_, rfl⟩
  decide

/-- the whole-history theorems are not vacuous: the pass-through engine's initial object is `Fresh`, so `child_stream_exact`,
    `peer_stream_exact`, … apply to every history of a layer whose tls_start hook hands it over -/
example : ∀ c, (({ mkTls := some {}, parse := fun _ => .complete, serverFirst := false } : Env idCodec).mkTls = some c) → Fresh idLaws c := by
  intro c hc
  injection hc with hc
  subst hc
  exact ⟨rfl, rfl, rfl, rfl⟩

example : (run (K := idCodec) { mkTls := some {}, parse := fun _ => .complete, serverFirst := false } (fun _ _ => []) (init idCodec .server)
    [.start true, .data [1, 2], .data [3]]).crashed = false := by decide

/-- the model is not constant: a handshake-phase event is stored, an open tunnel delivers -/
example : (eventToChild (K := idCodec) (fun _ _ => []) { side := .client, st := .establishing } (.other 7)).toChild = [] := by decide
example : (eventToChild (K := idCodec) (fun _ _ => []) { side := .client, st := .open_ } (.other 7)).toChild = [.other 7] := by decide

/-! ### witnesses proposed by the round-6 cross-audit (notes/audit6/C14.md) -/

/-- W1: reference codec, server side on an open connection: handshake, data cut inside a record, close_notify -/
example :
    let s := run (refEnv true (fun _ => .complete) false) (fun _ _ => []) (init RefL.refCodec .server)
      [.start true, .data [0x16, 0, 1, 1], .data [0x17, 0, 2, 0x61], .data [0x62, 0x15, 0, 0]]
    s.crashed = false ∧ s.toChild = [.start, .data [0x61, 0x62], .closed] ∧ s.st = .open_ ∧ s.queue = [] := by
  decide +kernel

/-- W2: client side (ClientTLSLayer): ClientHello buffered, handshake, child answers an unrelated event with SendData -/
example :
    let s := run (refEnv false (fun b => if b.length < 4 then .incomplete else .complete) false)
      (fun _ e => match e with | .other 5 => [.send [1, 2, 3]] | _ => []) (init RefL.refCodec .client)
      [.start true, .data [0x16, 0], .other 9, .data [1, 1], .other 5, .data [0x17, 0, 1, 7]]
    s.crashed = false ∧ s.errored = false ∧ s.toChild = [.start, .other 9, .other 5, .data [7]]
      ∧ s.accepted = [1, 2, 3] ∧ RefL.enc (cipherOf s.up) = [1, 2, 3] := by
  decide +kernel

/-- W3: the hypotheses of `close_last` / `child_stream_complete` hold together on a reachable reference-codec state:
    after [Start, handshake-done record] the layer is OPEN, nothing stored or swallowed, not crashed, and the segment
    "application record ++ close_notify" makes the recv loop end with ZeroReturn (`.closed`) -/
example :
    let s := run (refEnv true (fun _ => .complete) false) (fun _ _ => []) (init RefL.refCodec .server)
      [.start true, .data [0x16, 0, 1, 1]]
    let d : Bytes := [0x17, 0, 1, 0x41, 0x15, 0, 0]
    s.crashed = false ∧ s.errored = false ∧ queueing s = false ∧
      s.tls.map (fun c => decide ((recvLoop RefL.refCodec (RefL.refCodec.inPending (feedIf c d) + 1) (feedIf c d) []).2.1 = .closed))
        = some true := by
  decide +kernel

/-- W4: … and with a segment that ends inside a record the loop ends with WantRead (`hok` of `child_stream_complete`) -/
example :
    let s := run (refEnv true (fun _ => .complete) false) (fun _ _ => []) (init RefL.refCodec .server)
      [.start true, .data [0x16, 0, 1, 1]]
    let d : Bytes := [0x17, 0, 1, 0x41, 0x17, 0, 5, 1]
    s.tls.map (fun c => decide ((recvLoop RefL.refCodec (RefL.refCodec.inPending (feedIf c d) + 1) (feedIf c d) []).2.1 = .want))
      = some true := by
  decide +kernel

/-- W5: the state `t` of `send_after_half_close` is reachable: after the peer's TCP close the tunnel is CLOSED, the TLS object is
    still there, nothing crashed/errored (hup/hacc then follow from `peer_stream_exact`), and a child that answers `.other 3`
    with SendData gets its payload accepted and readable by the peer -/
example :
    let child : Child := fun _ e => match e with | .other 3 => [.send [9, 8]] | _ => []
    let t := run (refEnv true (fun _ => .complete) false) child (init RefL.refCodec .server)
      [.start true, .data [0x16, 0, 1, 1], .closeEv]
    t.st = .closed ∧ t.tls.isSome = true ∧ t.errored = false ∧ t.crashed = false ∧ child t.toChild (.other 3) = [.send [9, 8]]
      ∧ (handle (refEnv true (fun _ => .complete) false) child t (.other 3)).accepted = [9, 8]
      ∧ RefL.enc (cipherOf (handle (refEnv true (fun _ => .complete) false) child t (.other 3)).up) = [9, 8] := by
  decide +kernel

/-- W6: `queued_during_handshake_in_order` on a non-initial state: two events stored during the handshake come out in order -/
example :
    let s := run (refEnv false (fun b => if b.length < 4 then .incomplete else .complete) false) (fun _ _ => []) (init RefL.refCodec .client)
      [.start true, .other 1, .data [0x16, 0], .other 2]
    s.st = .establishing ∧ s.replyTo = false ∧ s.errored = false ∧ s.queue = [.start, .other 1, .other 2] ∧ s.toChild = []
      ∧ (handshakeFinished (fun _ _ => []) s false).toChild = [.start, .other 1, .other 2] := by
  decide +kernel

/-- W7: a failed client handshake (fatal record): the child is told nothing more (errored), `t ≠ []` branch of `child_stream_exact` -/
example :
    let s := run (refEnv false (fun _ => .complete) false) (fun _ _ => []) (init RefL.refCodec .client)
      [.start true, .data [0x16, 0, 1, 2], .other 4]
    s.crashed = false ∧ s.errored = true ∧ s.st = .closed ∧ s.toChild = [] ∧ s.queue = [] ∧ s.routed = [.start, .other 4] := by
  decide +kernel

end MitmVerif.Props.C14
