/-
  C15 — property theorems.  `matches` is the specification of name matching, `osslMatches` the transcription
  of OpenSSL's check under mitmproxy's host flags, `startServer`/`outcome` the model of `tls_start_server` and
  of the handshake verdict.  Chain validity is the Boolean `chainOk` (OpenSSL's; see level_note).
-/
import MitmVerif.Model.C15
import MitmVerif.Props.C14
import MitmVerif.Model.C15_Classify
import MitmVerif.Model.C14
import MitmVerif.Lemmas.C14
import MitmVerif.Lemmas.C14Hist
import MitmVerif.Gen.C15
namespace MitmVerif.Props.C15
open MitmVerif MitmVerif.C15

/-! ### byte facts -/

private theorem lower_star : asciiLowerB star = star := by decide
private theorem lower_dot : asciiLowerB dot = dot := by decide

private theorem lower_ne_dot_fin : ∀ n : Fin 256,
    (isAlnum (UInt8.ofNat n.val) || UInt8.ofNat n.val = hyphen) = true → asciiLowerB (UInt8.ofNat n.val) ≠ dot := by
  decide +kernel

private theorem lower_ne_dot (c : UInt8) (h : (isAlnum c || c = hyphen) = true) : asciiLowerB c ≠ dot := by
  have := lower_ne_dot_fin ⟨c.toNat, UInt8.toNat_lt c⟩
  simp only [UInt8.ofNat_toNat] at this
  exact this h

private theorem lower_length (b : Bytes) : (asciiLower b).length = b.length := by simp [asciiLower]
private theorem lower_drop (b : Bytes) (n : Nat) : (asciiLower b).drop n = asciiLower (b.drop n) := by
  simp [asciiLower, List.map_drop]
private theorem lower_take (b : Bytes) (n : Nat) : (asciiLower b).take n = asciiLower (b.take n) := by
  simp [asciiLower, List.map_take]

private theorem suffixScan_ne_nil {s : Bytes} {d n : Nat} (h : suffixScan s true false d = some n) : s ≠ [] := by
  intro hs; subst hs; simp [suffixScan] at h

/-! ### the wildcard rules of the specification -/

/-- A name that matches without being equal does so through a pattern whose complete left-most label is `*`:
    `w*.example.com`, `*w.example.com`, `www.*.example.com` match nothing but themselves. -/
theorem no_partial_wildcard (p r : Bytes) (h : specMatchDns p r = true) (hne : asciiLower p ≠ asciiLower r) :
    ∃ s, asciiLower p = star :: dot :: s ∧ s ≠ [] := by
  unfold specMatchDns at h
  have hw : specWild (asciiLower p) (asciiLower r) = true := by
    rcases Bool.or_eq_true _ _ |>.mp h with h1 | h1
    · exact absurd (by simpa using h1) hne
    · exact h1
  unfold specWild at hw
  split at hw
  · rename_i a b s heq
    simp only [Bool.and_eq_true, decide_eq_true_eq] at hw
    obtain ⟨⟨⟨⟨⟨ha, hb⟩, hs⟩, _⟩, _⟩, _⟩ := hw
    refine ⟨s, by rw [heq, ha, hb], ?_⟩
    intro h0; subst h0; simp at hs
  · simp at hw

/-- The `*` stands for exactly one label: non-empty and without a dot; everything after it is equal. -/
theorem wildcard_one_label (p r : Bytes) (h : specMatchDns p r = true) (hne : asciiLower p ≠ asciiLower r) :
    ∃ w s, asciiLower p = star :: dot :: s ∧ asciiLower r = w ++ dot :: s ∧ w ≠ [] ∧ dot ∉ w ∧ s ≠ [] := by
  unfold specMatchDns at h
  have hw : specWild (asciiLower p) (asciiLower r) = true := by
    rcases Bool.or_eq_true _ _ |>.mp h with h1 | h1
    · exact absurd (by simpa using h1) hne
    · exact h1
  unfold specWild at hw
  split at hw
  · rename_i a b s heq
    simp only [Bool.and_eq_true, decide_eq_true_eq] at hw
    obtain ⟨⟨⟨⟨⟨ha, hb⟩, hs⟩, hlen⟩, hdrop⟩, htake⟩ := hw
    refine ⟨(asciiLower r).take ((asciiLower r).length - (s.length + 1)), s, by rw [heq, ha, hb], ?_, ?_, ?_, ?_⟩
    · have := List.take_append_drop ((asciiLower r).length - (s.length + 1)) (asciiLower r)
      have hd : (asciiLower r).drop ((asciiLower r).length - (s.length + 1)) = dot :: s := by simpa using hdrop
      rw [hd] at this; exact this.symm
    · intro h0
      have := congrArg List.length h0
      simp at this; omega
    · simpa using htake
    · intro h0; subst h0; simp at hs
  · simp at hw

/-- non-vacuity: the rules do accept the ordinary wildcard and reject partial / multi-label / bare ones -/
example : specMatchDns (strBytes "*.example.com") (strBytes "WWW.Example.com") = true := by decide +kernel
example : specMatchDns (strBytes "w*.example.com") (strBytes "www.example.com") = false := by decide +kernel
example : specMatchDns (strBytes "*.example.com") (strBytes "a.b.example.com") = false := by decide +kernel
example : specMatchDns (strBytes "*.example.com") (strBytes "example.com") = false := by decide +kernel
example : specMatchDns (strBytes "*") (strBytes "example") = false := by decide +kernel

/-- The subject Common Name plays no part: only subjectAltName entries can name the server. -/
theorem cn_ignored (cn cn' : Option Bytes) (sans : List GName) (r : RefId) :
    accepts ⟨cn, sans⟩ r = accepts ⟨cn', sans⟩ r ∧ accepts ⟨cn, []⟩ r = false := by
  simp [accepts, «matches»]

example : accepts ⟨some (strBytes "example.com"), []⟩ (.host (strBytes "example.com")) = false := by decide +kernel

/-- An IP reference is named only by an equal iPAddress entry — never by a dNSName (wildcard or literal text of
    the address), and an iPAddress entry never names a host. -/
theorem ip_exact (sans : List GName) (a : Bytes) :
    («matches» sans (.addr a) = true ↔ GName.ip a ∈ sans)
    ∧ (∀ p, specMatchOne (.dns p) (.addr a) = false) ∧ (∀ b h, specMatchOne (.ip b) (.host h) = false) := by
  refine ⟨?_, fun _ => rfl, fun _ _ => rfl⟩
  unfold «matches»
  rw [List.any_eq_true]
  constructor
  · rintro ⟨g, hg, hm⟩
    cases g with
    | dns v => simp [specMatchOne] at hm
    | ip v => simp [specMatchOne] at hm; subst hm; exact hg
    | other k v => simp [specMatchOne] at hm
  · intro h; exact ⟨_, h, by simp [specMatchOne]⟩

example : «matches» [.dns (strBytes "192.0.2.1"), .dns (strBytes "*.0.2.1")] (.addr (strBytes "192.0.2.1")) = false := by decide +kernel
example : «matches» [.ip (strBytes "192.0.2.1")] (.addr (strBytes "192.0.2.1")) = true := by decide +kernel

/-! ### OpenSSL's check (as transcribed) is at most as permissive as the specification -/

private theorem ossl_dns_refines (p r : Bytes) (h : osslMatchDns p r = true) : specMatchDns p r = true := by
  unfold osslMatchDns at h
  split at h
  · rename_i hv
    unfold validStar at hv
    split at hv
    · rename_i a b s
      simp only [Bool.and_eq_true, decide_eq_true_eq] at hv
      obtain ⟨⟨ha, hb⟩, hscan⟩ := hv
      subst ha; subst hb
      have hsne : s ≠ [] := by
        split at hscan
        · rename_i dots hd; exact suffixScan_ne_nil hd
        · simp at hscan
      unfold osslWild at h
      simp only [List.drop_succ_cons, List.drop_zero, List.length_cons, Bool.and_eq_true, decide_eq_true_eq,
        Bool.or_eq_true, beq_iff_eq, Bool.not_eq_true'] at h
      obtain ⟨⟨⟨hle, hsuf⟩, hwne⟩, hw⟩ := h
      have hwlen : 0 < (r.take (r.length - (s.length + 1))).length := by
        cases hq : r.take (r.length - (s.length + 1)) with
        | nil => rw [hq] at hwne; simp at hwne
        | cons x xs => simp
      have hlt : s.length + 1 < r.length := by
        rw [List.length_take] at hwlen; omega
      unfold specMatchDns
      apply Bool.or_eq_true _ _ |>.mpr; right
      have hlp : asciiLower (star :: dot :: s) = star :: dot :: asciiLower s := by
        simp [asciiLower, lower_star, lower_dot]
      rw [hlp]
      unfold specWild
      simp only [Bool.and_eq_true, decide_eq_true_eq, Bool.not_eq_true', beq_iff_eq, lower_length, lower_drop, lower_take]
      refine ⟨⟨⟨⟨by simp, ?_⟩, hlt⟩, ?_⟩, ?_⟩
      · cases s with
        | nil => exact absurd rfl hsne
        | cons x xs => simp [asciiLower]
      · rw [hsuf]; simp [asciiLower, lower_dot]
      · rcases hw with hw | hw
        · rw [hw]; decide
        · rw [Bool.eq_false_iff]; intro hc
          rw [List.contains_iff_mem] at hc
          simp only [asciiLower, List.mem_map] at hc
          obtain ⟨c, hc1, hc2⟩ := hc
          have := List.all_eq_true.mp hw c hc1
          exact lower_ne_dot c (by simpa using this) hc2
    · simp at hv
  · simp only [Bool.and_eq_true, beq_iff_eq] at h
    unfold specMatchDns
    simp [h.2]

private theorem ossl_one_refines (g : GName) (r : RefId) (h : osslMatchOne g r = true) : specMatchOne g r = true := by
  cases g <;> cases r <;> simp_all [osslMatchOne, specMatchOne]
  exact ossl_dns_refines _ _ h

/-- Whatever OpenSSL's host check (as transcribed, under NO_PARTIAL_WILDCARDS | NEVER_CHECK_SUBJECT) accepts, the
    specification accepts. -/
theorem ossl_refines_spec (sans : List GName) (r : RefId) (h : osslMatches sans r = true) : «matches» sans r = true := by
  unfold osslMatches at h; unfold «matches»
  rw [List.any_eq_true] at *
  obtain ⟨g, hg, hm⟩ := h
  exact ⟨g, hg, ossl_one_refines g r hm⟩

/-- the transcription is not constant, and is strictly tighter than the specification on `*.tld` -/
example : osslMatchDns (strBytes "*.example.com") (strBytes "www.example.com") = true := by decide +kernel
example : osslMatchDns (strBytes "*.com") (strBytes "example.com") = false := by decide +kernel
example : specMatchDns (strBytes "*.com") (strBytes "example.com") = true := by decide +kernel
example : osslMatchDns (strBytes "*.example.com") (strBytes "foo_bar.example.com") = false := by decide +kernel

/-! ### the decision in `tls_start_server` -/

/-- the flag word mitmproxy passes is exactly "no partial wildcards" + "never look at the subject" -/
theorem hostflags_are_both :
    Gen.C15.defaultHostflags = Gen.C15.noPartialWildcards + Gen.C15.neverCheckSubject
    ∧ Gen.C15.noPartialWildcards ≠ 0 ∧ Gen.C15.neverCheckSubject ≠ 0
    ∧ Gen.C15.noPartialWildcards &&& Gen.C15.neverCheckSubject = 0
    ∧ Gen.C15.insecureSelectsNone = true ∧ Gen.C15.hostflagsArgIsDefault = true
    ∧ Gen.C15.verifyPeer ≠ Gen.C15.verifyNone := by decide

/-- With ssl_insecure off a handshake is only ever established with peer verification on, a reference identifier
    (host or IP — there is no "verify the chain but no name" mode), mitmproxy's host flags, a valid chain, and a
    certificate whose subjectAltName names that identifier according to the specification. -/
theorem insecure_off_requires_verify (classify : Bytes → Option GName) (hf : Nat) (c : Cfg) (chainOk : Bool)
    (sans : List GName) (hins : c.insecure = false)
    (h : outcome classify hf c chainOk sans = .established) :
    chainOk = true ∧ ∃ p r, startServer classify hf c = .plan p ∧ p.verifyPeer = true ∧ p.ref = some r
      ∧ p.hostflags = hf ∧ classify (effSni c) = some (match r with | .host v => .dns v | .addr v => .ip v)
      ∧ «matches» sans r = true := by
  unfold outcome at h
  split at h
  · rename_i p hp
    have hp0 := hp
    unfold startServer at hp
    simp only [hins] at hp
    split at hp
    · simp at hp
    · split at hp
      · rename_i a hc
        injection hp with hp; subst hp
        simp only [handshakeOk, Bool.not_false, if_true] at h
        split at h
        · rename_i hok
          simp only [Bool.and_eq_true] at hok
          exact ⟨hok.1, _, .addr a, hp0, rfl, rfl, rfl, hc, ossl_refines_spec _ _ hok.2⟩
        · simp at h
      · rename_i a hc
        injection hp with hp; subst hp
        simp only [handshakeOk, Bool.not_false, if_true] at h
        split at h
        · rename_i hok
          simp only [Bool.and_eq_true] at hok
          exact ⟨hok.1, _, .host a, hp0, rfl, rfl, rfl, hc, ossl_refines_spec _ _ hok.2⟩
        · simp at h
      · simp at hp
  · simp at h

/-- With ssl_insecure on, whatever the certificate, the handshake is established whenever the hook builds a
    connection object at all. -/
theorem insecure_on_succeeds (classify : Bytes → Option GName) (hf : Nat) (c : Cfg) (chainOk : Bool) (sans : List GName)
    (hins : c.insecure = true) (p : Plan) (hp : startServer classify hf c = .plan p) :
    outcome classify hf c chainOk sans = .established := by
  have hv : p.verifyPeer = false := by
    unfold startServer at hp
    simp only [hins] at hp
    split at hp
    · simp at hp; subst hp; rfl
    · split at hp <;> first | (injection hp with hp; subst hp; rfl) | simp at hp
  simp [outcome, hp, handshakeOk, hv]

/-- Which name is verified: a preset `server.sni` wins (even an empty one); otherwise the client's SNI if it is non-empty;
    otherwise the host of the server address. -/
theorem eff_sni_precedence (c : Cfg) :
    (∀ x, c.serverSni = some x → effSni c = x)
    ∧ (c.serverSni = none → ∀ y, c.clientSni = some y → y ≠ [] → effSni c = y)
    ∧ (c.serverSni = none → (c.clientSni = none ∨ c.clientSni = some []) → effSni c = c.address) := by
  refine ⟨fun x hx => by simp [effSni, hx], fun hs y hy hne => ?_, fun hs hc => ?_⟩
  · cases y with
    | nil => exact absurd rfl hne
    | cons a t => simp [effSni, hs, hy]
  · rcases hc with hc | hc <;> simp [effSni, hs, hc]

/-- Shape of what the hook builds: an IP literal is verified with `set1_ip` and sends NO server_name extension (RFC 6066); a
    host name is sent as SNI and is the very name that is verified; a connection object without reference identifier exists
    only with ssl_insecure on and an empty name; with ssl_insecure off and an empty name the hook refuses (`noSni`). -/
theorem plan_shape (classify : Bytes → Option GName) (hf : Nat) (c : Cfg) :
    (∀ p, startServer classify hf c = .plan p →
        (∀ a, p.ref = some (.addr a) → p.sniExt = none)
        ∧ (∀ h, p.ref = some (.host h) → p.sniExt = some h)
        ∧ (p.ref = none → c.insecure = true ∧ effSni c = [] ∧ p.verifyPeer = false)
        ∧ p.verifyPeer = !c.insecure)
    ∧ (c.insecure = false → effSni c = [] → startServer classify hf c = .noSni) := by
  constructor
  · intro p hp
    unfold startServer at hp
    simp only [] at hp
    split at hp
    · rename_i he
      split at hp
      · rename_i hi
        simp only [StartRes.plan.injEq] at hp; subst hp
        have : effSni c = [] := by simpa using he
        simp [hi, this]
      · cases hp
    · split at hp
      · simp only [StartRes.plan.injEq] at hp; subst hp; simp
      · simp only [StartRes.plan.injEq] at hp; subst hp; simp
      · cases hp
  · intro hi he
    simp [startServer, he, hi]

private theorem quic_plan (classify : Bytes → Option GName) (c : Cfg) :
    ∃ r, startServerQuic classify c = .plan ⟨!c.insecure, some (effSni c), some r, 0⟩ := by
  cases h : classify (effSni c) with
  | none => exact ⟨.host (effSni c), by simp [startServerQuic, h]⟩
  | some g =>
    cases g with
    | dns v => exact ⟨.host v, by simp [startServerQuic, h]⟩
    | ip v => exact ⟨.addr v, by simp [startServerQuic, h]⟩
    | other k v => exact ⟨.host (effSni c), by simp [startServerQuic, h]⟩

/-- **The verified identity does not depend on the transport.**  For a usable, non-empty server name the TCP/TLS path
    (`tls_start_server`) and the QUIC path (`quic_start_server` + `QuicLayer.start_tls`) verify the SAME reference identifier
    (host name as host name, IP literal as IP address) with the same verify mode; and on the QUIC path a plan with verification on
    ALWAYS has a reference identifier (there is no "chain only" mode for IP literals or anything else). -/
theorem verified_identity_transport_independent (classify : Bytes → Option GName) (hf : Nat) (c : Cfg)
    (hne : effSni c ≠ []) (g : GName) (hg : classify (effSni c) = some g) (hk : ∀ k v, g ≠ .other k v) :
    (∃ p q, startServerT .tcp classify hf c = .plan p ∧ startServerT .quic classify hf c = .plan q
        ∧ p.ref = q.ref ∧ p.verifyPeer = q.verifyPeer ∧ q.ref.isSome = true)
    ∧ (∀ q, startServerT .quic classify hf c = .plan q → q.ref.isSome = true ∧ q.verifyPeer = !c.insecure) := by
  have hne' : (effSni c).isEmpty = false := by
    cases h : effSni c with
    | nil => exact absurd h hne
    | cons a t => rfl
  constructor
  · cases g with
    | dns v =>
      exact ⟨⟨!c.insecure, some v, some (.host v), hf⟩, ⟨!c.insecure, some (effSni c), some (.host v), 0⟩,
        by simp [startServerT, startServer, hne', hg], by simp [startServerT, startServerQuic, hg], rfl, rfl, rfl⟩
    | ip v =>
      exact ⟨⟨!c.insecure, none, some (.addr v), hf⟩, ⟨!c.insecure, some (effSni c), some (.addr v), 0⟩,
        by simp [startServerT, startServer, hne', hg], by simp [startServerT, startServerQuic, hg], rfl, rfl, rfl⟩
    | other k v => exact absurd rfl (hk k v)
  · intro q hq
    obtain ⟨r, hr⟩ := quic_plan classify c
    simp only [startServerT, hr, StartRes.plan.injEq] at hq
    subst hq
    exact ⟨rfl, rfl⟩

/-- With ssl_insecure off, on EITHER transport, a handshake is established only if the chain is valid and the certificate's SANs
    name the identifier the plan carries per the specification. -/
theorem insecure_off_requires_verify_any_transport (tr : Transport) (classify : Bytes → Option GName) (hf : Nat) (c : Cfg)
    (chainOk : Bool) (sans : List GName) (hins : c.insecure = false)
    (h : outcomeT tr classify hf c chainOk sans = .established) :
    chainOk = true ∧ ∃ p r, startServerT tr classify hf c = .plan p ∧ p.ref = some r ∧ «matches» sans r = true := by
  cases tr with
  | tcp =>
    have h' : outcome classify hf c chainOk sans = .established := by simpa [outcomeT, outcome, startServerT] using h
    obtain ⟨h1, p, r, hp, _, hr, _, _, hm⟩ := insecure_off_requires_verify classify hf c chainOk sans hins h'
    exact ⟨h1, p, r, by simpa [startServerT] using hp, hr, hm⟩
  | quic =>
    obtain ⟨r, hr⟩ := quic_plan classify c
    simp only [outcomeT, startServerT, hr, handshakeOk, hins, Bool.not_false, if_true] at h ⊢
    split at h
    · rename_i hok
      simp only [Bool.and_eq_true] at hok
      exact ⟨hok.1, _, r, rfl, rfl, ossl_refines_spec _ _ hok.2⟩
    · cases h

/-! ### `_ip_or_dns_name` transcribed (C22.parseIp + the idna codec's ASCII fast path) instead of assumed -/

/-- What the transcribed classifier can answer: an iPAddress exactly when `ipaddress.ip_address` parses the text, otherwise the text
    ITSELF as dNSName (ASCII names are not rewritten, not even lower-cased) provided the codec's label rule holds — never any other
    kind of name. -/
theorem classify_ascii_kinds (s : Bytes) (g : GName) (h : classifyAscii s = some g) :
    (∃ v, g = .ip v ∧ (C22.parseIp s).isSome = true) ∨ (g = .dns s ∧ C22.parseIp s = none ∧ idnaAsciiOk s = true) := by
  unfold classifyAscii at h
  split at h
  · rename_i n hp; simp only [Option.some.injEq] at h; exact Or.inl ⟨_, h.symm, by simp [hp]⟩
  · rename_i n sc hp; simp only [Option.some.injEq] at h; exact Or.inl ⟨_, h.symm, by simp [hp]⟩
  · rename_i hp
    split at h
    · rename_i hok; simp only [Option.some.injEq] at h; exact Or.inr ⟨h.symm, hp, hok⟩
    · cases h

private theorem classifyT_ascii (slow : Bytes → Option GName) (s : Bytes) (ha : isAscii s = true) :
    classifyT slow s = classifyAscii s := by simp [classifyT, ha]

/-- `verified_identity_transport_independent` without its hypotheses about the classifier: for an ASCII, non-empty server name that
    the transcribed `_ip_or_dns_name` accepts, the TCP and the QUIC path verify the same reference identifier. -/
theorem verified_identity_transport_independent_ascii (slow : Bytes → Option GName) (hf : Nat) (c : Cfg)
    (hne : effSni c ≠ []) (ha : isAscii (effSni c) = true) (hok : (classifyAscii (effSni c)).isSome = true) :
    ∃ p q, startServerT .tcp (classifyT slow) hf c = .plan p ∧ startServerT .quic (classifyT slow) hf c = .plan q
      ∧ p.ref = q.ref ∧ p.verifyPeer = q.verifyPeer ∧ q.ref.isSome = true := by
  cases hg : classifyAscii (effSni c) with
  | none => rw [hg] at hok; cases hok
  | some g =>
    have hk : ∀ k v, g ≠ .other k v := by
      intro k v hkv
      rcases classify_ascii_kinds _ _ hg with h1 | h1
      · obtain ⟨v', hv, _⟩ := h1; rw [hkv] at hv; cases hv
      · obtain ⟨hv, _, _⟩ := h1; rw [hkv] at hv; cases hv
    exact (verified_identity_transport_independent (classifyT slow) hf c hne g
      (by rw [classifyT_ascii slow _ ha]; exact hg) hk).1

/-- For an ASCII server name, what `tls_start_server` sends as SNI and what it verifies are the configured name itself, byte for
    byte; an IP literal is never sent as SNI and is verified as an IP address (the packed address `ipaddress` parses it to). -/
theorem server_name_not_rewritten (hostOk : Bytes → Bool) (slow : Bytes → Option GName) (hf : Nat) (c : Cfg) (p : Plan)
    (ha : isAscii (effSni c) = true) (hne : effSni c ≠ [])
    (hp : startServer (classifyServer hostOk slow) hf c = .plan p) :
    (C22.parseIp (effSni c) = none → p.ref = some (.host (effSni c)) ∧ p.sniExt = some (effSni c))
    ∧ ((C22.parseIp (effSni c)).isSome = true → p.sniExt = none ∧ ∃ v, p.ref = some (.addr v)) := by
  have hne' : (effSni c).isEmpty = false := by
    cases h : effSni c with
    | nil => exact absurd h hne
    | cons a t => rfl
  unfold startServer at hp
  simp only [hne', Bool.false_eq_true, if_false] at hp
  cases hcs : classifyServer hostOk slow (effSni c) with
  | none => simp [hcs] at hp
  | some g =>
    have hcs0 := hcs
    unfold classifyServer at hcs
    rw [classifyT_ascii slow _ ha] at hcs
    cases hca : classifyAscii (effSni c) with
    | none => simp [hca] at hcs
    | some g0 =>
      rcases classify_ascii_kinds _ _ hca with h1 | h1
      · obtain ⟨v, hv, hip⟩ := h1
        subst hv
        simp only [hca, Option.some.injEq] at hcs
        subst hcs
        simp only [hcs0, StartRes.plan.injEq] at hp
        subst hp
        exact ⟨fun hn => (by rw [hn] at hip; cases hip), fun _ => ⟨rfl, v, rfl⟩⟩
      · obtain ⟨hv, hnp, _⟩ := h1
        subst hv
        simp only [hca] at hcs
        split at hcs
        · simp only [Option.some.injEq] at hcs
          subst hcs
          simp only [hcs0, StartRes.plan.injEq] at hp
          subst hp
          exact ⟨fun _ => ⟨rfl, rfl⟩, fun hi => (by rw [hnp] at hi; cases hi)⟩
        · cases hcs

example : classifyAscii (strBytes "192.0.2.1") = some (.ip [4, 192, 0, 2, 1]) := by decide +kernel
example : classifyAscii (strBytes "www.Example.com.") = some (.dns (strBytes "www.Example.com.")) := by decide +kernel
example : classifyAscii (strBytes "a..b") = none := by decide +kernel
example : classifyAscii (strBytes "1.2.3") = some (.dns (strBytes "1.2.3")) := by decide +kernel

/-- A SAN pattern that does not begin with `*` is compared literally (ASCII case-insensitively) by the OpenSSL transcription:
    no wildcard semantics can arise from `w*.x`, `www.*.x` or from names without `*`. -/
theorem ossl_literal_unless_leading_star (p r : Bytes) (h : p.head? ≠ some star) :
    osslMatchDns p r = (!p.isEmpty && asciiLower p == asciiLower r) := by
  have hv : validStar p = false := by
    unfold validStar
    split
    · rename_i a b s
      have : a ≠ star := by intro ha; subst ha; simp at h
      simp [this]
    · rfl
  simp [osslMatchDns, hv]

/-- non-vacuity: both outcomes occur with verification on -/
example : outcome (fun b => some (.dns b)) 36 ⟨false, none, some (strBytes "example.com"), strBytes "10.0.0.1"⟩ true
    [.dns (strBytes "example.com")] = .established := by decide +kernel
example : outcome (fun b => some (.dns b)) 36 ⟨false, none, some (strBytes "example.com"), strBytes "10.0.0.1"⟩ true
    [.dns (strBytes "example.org")] = .failed := by decide +kernel
example : outcome (fun b => some (.dns b)) 36 ⟨false, none, some (strBytes "example.com"), strBytes "10.0.0.1"⟩ false
    [.dns (strBytes "example.com")] = .failed := by decide +kernel
example : outcome (fun b => some (.dns b)) 36 ⟨true, none, some (strBytes "example.com"), strBytes "10.0.0.1"⟩ false
    [] = .established := by decide +kernel

/-! ### from the tunnel model (Model/C14.lean): a failed verification never turns into "connection open" -/

section tunnel
open MitmVerif.C14
variable {K : Codec}

/-- When `do_handshake` fails (certificate verify failed → OpenSSL error) while the server TLS layer is answering a
    child's OpenConnection: the child is told the error — it is given `OpenConnectionCompleted(err)` and nothing else, in
    particular never a successful completion —, the failure hook and CloseConnection are emitted and the tunnel is
    CLOSED; and unless the child reacts to the error by issuing commands, nothing was handed to the TLS engine for
    sending (`sendall` is never called: the accepted plaintext is unchanged and the engine state is the one
    `do_handshake` left). -/
theorem fail_sends_no_appdata (env : Env K) (child : Child) (s : St K) (c : K.σ) (d : Bytes)
    (hside : s.side = .server) (htls : s.tls = some c) (hr : s.replyTo = true) (he : s.errored = false)
    (hfail : (K.handshake (feedIf c d)).1 = .error) :
    (hsData env child s d).toChild = s.toChild ++ [.opened true]
    ∧ CEv.opened false ∉ (hsData env child s d).toChild.drop s.toChild.length
    ∧ (child s.toChild (.opened true) = [] →
        (hsData env child s d).st = .closed
        ∧ (hsData env child s d).up = s.up ++ [.log 2, .hook 3, .close]
        ∧ (hsData env child s d).accepted = s.accepted
        ∧ (hsData env child s d).tls = some (K.handshake (feedIf c d)).2) := by
  have hh : K.handshake (feedIf c d) = (.error, (K.handshake (feedIf c d)).2) := by
    rw [← hfail]
  have hstep : hsData env child s d =
      clearReply (deliver child (addRouted (setSt (emit { s with tls := some (K.handshake (feedIf c d)).2 }
        [.log 2, .hook 3, .close]) .closed) (.opened true)) (.opened true)) := by
    unfold hsData recvHandshake hsTls
    simp only [hside, htls]
    rw [hh]
    simp only [onHandshakeError, hside, handshakeFinished, emit, setSt, hr, if_true, Bool.or_true,
      eventToChild, etcCore, queueing, isEst, addRouted, he, Bool.false_eq_true, if_false]
    simp
  rw [hstep]
  have htc : ∀ t : St K, (deliver child t (.opened true)).toChild = t.toChild ++ [.opened true] := by
    intro t
    unfold deliver
    have hf := Lemmas.frame_handleCmds (child t.toChild (.opened true)) ({ t with toChild := t.toChild ++ [.opened true] } : St K)
    simp only [Lemmas.frame, Prod.mk.injEq] at hf
    exact hf.1
  have h1 : (clearReply (deliver child (addRouted (setSt (emit { s with tls := some (K.handshake (feedIf c d)).2 }
        [.log 2, .hook 3, .close]) .closed) (.opened true)) (.opened true))).toChild = s.toChild ++ [.opened true] := by
    show (deliver child _ _).toChild = _
    rw [htc]; rfl
  refine ⟨h1, ?_, ?_⟩
  · rw [h1]; simp
  · intro hchild
    have : deliver child (addRouted (setSt (emit { s with tls := some (K.handshake (feedIf c d)).2 }
        [.log 2, .hook 3, .close]) .closed) (.opened true)) (.opened true)
        = { (addRouted (setSt (emit { s with tls := some (K.handshake (feedIf c d)).2 }
        [.log 2, .hook 3, .close]) .closed) (.opened true)) with toChild := s.toChild ++ [.opened true] } := by
      unfold deliver
      have : child (addRouted (setSt (emit { s with tls := some (K.handshake (feedIf c d)).2 }
        [.log 2, .hook 3, .close]) .closed) (.opened true)).toChild (.opened true) = [] := hchild
      rw [this]; rfl
    rw [this]
    exact ⟨rfl, rfl, rfl, rfl⟩

/-- The same failure when the server TLS layer was started on an ALREADY OPEN connection (no OpenConnection to answer — the
    "eager" start): the failure hook and CloseConnection are emitted right after the handshake error, the tunnel goes to CLOSED, and
    the events that were stored during the handshake (Start, …) are then handed to the child in order — a successful
    `OpenConnectionCompleted` is not among them unless it had been stored; with nothing stored, nothing else happens and nothing was given to
    `sendall`.  (Whether a child that reacts to a stored event with SendData gets bytes onto the wire after the failure depends on
    the engine refusing to write — OpenSSL's behaviour, not one of `Laws`; the differential oracle asks "no application data" of the real code.) -/
theorem fail_closes_tunnel_eager (env : Env K) (child : Child) (s : St K) (c : K.σ) (d : Bytes)
    (hside : s.side = .server) (htls : s.tls = some c) (hr : s.replyTo = false) (he : s.errored = false)
    (hfail : (K.handshake (feedIf c d)).1 = .error) :
    (hsData env child s d).toChild = s.toChild ++ s.queue
    ∧ (hsData env child s d).queue = []
    ∧ (CEv.opened false ∉ s.queue → CEv.opened false ∉ (hsData env child s d).toChild.drop s.toChild.length)
    ∧ (∃ more, (hsData env child s d).up = s.up ++ [.log 2, .hook 3, .close] ++ more)
    ∧ (s.queue = [] → (hsData env child s d).st = .closed ∧ (hsData env child s d).accepted = s.accepted
          ∧ (hsData env child s d).up = s.up ++ [.log 2, .hook 3, .close]) := by
  have hh : K.handshake (feedIf c d) = (.error, (K.handshake (feedIf c d)).2) := by
    rw [← hfail]
  have hstep : hsData env child s d =
      clearQueue (s.queue.foldl (etcCore child) (setSt (emit { s with tls := some (K.handshake (feedIf c d)).2 }
        [.log 2, .hook 3, .close]) .closed)) := by
    unfold hsData recvHandshake hsTls
    simp only [hside, htls]
    rw [hh]
    simp only [onHandshakeError, hside, handshakeFinished, emit, setSt, hr, Bool.or_true, if_true, Bool.false_eq_true, if_false]
    simp
  rw [hstep]
  have hq : queueing (setSt (emit ({ s with tls := some (K.handshake (feedIf c d)).2 } : St K) [.log 2, .hook 3, .close]) .closed) = false := by
    simp [queueing, isEst]
  obtain ⟨f1, _, _⟩ := Hist.foldl_etcCore_deliver child s.queue
    (setSt (emit ({ s with tls := some (K.handshake (feedIf c d)).2 } : St K) [.log 2, .hook 3, .close]) .closed) (by simpa using he) hq
  obtain ⟨more, hmore⟩ := Hist.up_foldl_etcCore child s.queue
    (setSt (emit ({ s with tls := some (K.handshake (feedIf c d)).2 } : St K) [.log 2, .hook 3, .close]) .closed)
  have htc : (clearQueue (s.queue.foldl (etcCore child) (setSt (emit ({ s with tls := some (K.handshake (feedIf c d)).2 } : St K)
      [.log 2, .hook 3, .close]) .closed))).toChild = s.toChild ++ s.queue := by
    simpa using f1
  refine ⟨htc, by simp, ?_, ⟨more, by simpa using hmore⟩, ?_⟩
  · intro hn
    rw [htc]; simpa using hn
  · intro hqn
    rw [hqn]
    simp

end tunnel

/-! ### witnesses proposed by the round-6 cross-audit (notes/audit6/C15.md) -/

/-- W1 (`verified_identity_transport_independent_ascii`, `server_name_not_rewritten`): hypotheses hold for a host name … -/
example :
    let c : Cfg := ⟨false, none, some (strBytes "Example.com"), strBytes "10.0.0.1"⟩
    effSni c ≠ [] ∧ isAscii (effSni c) = true ∧ (classifyAscii (effSni c)).isSome = true ∧ C22.parseIp (effSni c) = none
      ∧ startServer (classifyServer (fun _ => true) (fun _ => none)) 36 c
          = .plan ⟨true, some (strBytes "Example.com"), some (.host (strBytes "Example.com")), 36⟩
      ∧ startServerT .quic (classifyT (fun _ => none)) 36 c
          = .plan ⟨true, some (strBytes "Example.com"), some (.host (strBytes "Example.com")), 0⟩ := by decide +kernel

/-- W2: … and for an IP literal taken from the address (no client SNI): verified as IP, no SNI extension on TCP -/
example :
    let c : Cfg := ⟨false, none, none, strBytes "192.0.2.7"⟩
    effSni c ≠ [] ∧ isAscii (effSni c) = true ∧ (C22.parseIp (effSni c)).isSome = true
      ∧ startServer (classifyServer (fun _ => true) (fun _ => none)) 36 c = .plan ⟨true, none, some (.addr [4, 192, 0, 2, 7]), 36⟩
      ∧ startServerT .quic (classifyT (fun _ => none)) 36 c
          = .plan ⟨true, some (strBytes "192.0.2.7"), some (.addr [4, 192, 0, 2, 7]), 0⟩ := by decide +kernel

/-- W3 (`insecure_off_requires_verify_any_transport`): established on the QUIC path with verification on; failed for a CN-less mismatch -/
example :
    outcomeT .quic classifyAscii 36 ⟨false, none, some (strBytes "a.example.com"), strBytes "10.0.0.1"⟩ true [.dns (strBytes "*.example.com")] = .established
    ∧ outcomeT .quic classifyAscii 36 ⟨false, none, some (strBytes "a.b.example.com"), strBytes "10.0.0.1"⟩ true [.dns (strBytes "*.example.com")] = .failed
    ∧ outcomeT .tcp classifyAscii 36 ⟨false, some [], some (strBytes "x"), strBytes "10.0.0.1"⟩ true [] = .hookRaised := by decide +kernel

/-- W4 (`fail_sends_no_appdata`): its hypotheses hold together on a REACHABLE state of the C14 tunnel model over the proved-lawful
    reference codec: ServerTLSLayer opened by the child's OpenConnection, handshake in progress, then a fatal handshake record -/
example :
    let child : C14.Child := fun _ e => match e with | .start => [.open_] | _ => []
    let env := Props.C14.refEnv true (fun _ => .complete) false
    let s := C14.run env child (Props.C14.init C14.RefL.refCodec .server) [.start false, .openReply false]
    let d : Bytes := [0x16, 0, 1, 2]
    s.side = .server ∧ s.replyTo = true ∧ s.errored = false ∧ s.crashed = false
      ∧ s.tls.map (fun c => decide ((C14.RefL.refCodec.handshake (C14.feedIf c d)).1 = .error)) = some true
      ∧ (C14.hsData env child s d).toChild = s.toChild ++ [.opened true]
      ∧ (C14.hsData env child s d).st = .closed ∧ (C14.hsData env child s d).accepted = [] := by decide +kernel

/-- W5: NOT covered by `fail_sends_no_appdata` (it needs `replyTo = true`): the same failure on a ServerTLSLayer started on an already
    open connection — the stored Start is flushed to the child after the failure, tunnel CLOSED -/
example :
    let env := Props.C14.refEnv true (fun _ => .complete) false
    let s := C14.run env (fun _ _ => []) (Props.C14.init C14.RefL.refCodec .server) [.start true, .data [0x16, 0, 1, 2]]
    s.replyTo = false ∧ s.st = .closed ∧ s.toChild = [.start] ∧ s.up.getLast? = some .close ∧ s.accepted = [] := by decide +kernel

end MitmVerif.Props.C15
