/-
  C16 — property theorems about the model of `TlsConfig.get_cert` + `dummy_cert` (Model/C16.lean), with C15's
  specification `matches` as the strict verifier's name check.  Signing, ASN.1 and chain building are
  `cryptography`'s / the verifier's and enter only through the correspondence run.
-/
import MitmVerif.Model.C16
import MitmVerif.Model.C15_Classify
import MitmVerif.Gen.C16
namespace MitmVerif.Props.C16
open MitmVerif MitmVerif.C15 MitmVerif.C16

/-! ### `dict.fromkeys` -/

private theorem mem_dedup (a : GName) (l : List GName) : a ∈ dedup l ↔ a ∈ l := by
  induction l with
  | nil => simp [dedup]
  | cons x xs ih =>
    simp only [dedup, List.mem_cons, List.mem_filter, ih, bne_iff_ne, ne_eq]
    by_cases h : a = x <;> simp [h]

private theorem nodup_dedup (l : List GName) : (dedup l).Nodup := by
  induction l with
  | nil => simp [dedup]
  | cons x xs ih =>
    simp only [dedup, List.nodup_cons, List.mem_filter, bne_iff_ne, ne_eq]
    exact ⟨fun h => by simp at h, ih.sublist List.filter_sublist⟩

private theorem head_dedup (x : GName) (xs : List GName) : (dedup (x :: xs)).head? = some x := by simp [dedup]

private theorem specMatchOne_refl (g : GName) (r : RefId) (h : refOf g = some r) : specMatchOne g r = true := by
  cases g with
  | dns v => simp [refOf] at h; subst h; simp [specMatchOne, specMatchDns]
  | ip v => simp [refOf] at h; subst h; simp [specMatchOne]
  | other k v => simp [refOf] at h

/-! ### which names the certificate carries -/

private theorem getNames_some {classify : Bytes → Option GName} {r : Req} {n : Names}
    (h : getNames classify r = some n) :
    ∃ g al, classify (requested r) = some g ∧ addrNames classify r = some al
      ∧ n = mkNames (dedup (upList classify r ++ g :: al)) r := by
  unfold getNames at h
  split at h
  · rename_i g al hg hal
    exact ⟨g, al, hg, hal, by simpa using h.symm⟩
  · simp at h

private theorem truthy_some {o : Option Bytes} {b : Bytes} (h : truthy o = some b) : o = some b := by
  unfold truthy at h
  split at h
  · split at h <;> simp_all
  · simp at h

private theorem addr_sub {classify : Bytes → Option GName} {r : Req} {al : List GName}
    (hal : addrNames classify r = some al) (x : GName) (hx : x ∈ al) :
    x ∈ (match r.addr with | some a => (classify a).toList | none => []) := by
  unfold addrNames at hal
  cases ha : r.addr with
  | none => simp [ha] at hal; subst hal; simp at hx
  | some a =>
    simp only [ha] at hal ⊢
    cases hc : classify a with
    | none => simp [hc] at hal
    | some y => simp [hc] at hal; subst hal; simpa using hx

/-- Every subjectAltName entry is one of: the classified SNI (or local address), the classified server address, the
    upstream certificate's CN (classified) or one of its SANs; the Common Name is the text of one of them; the
    organization and the CRL distribution point come from the upstream certificate only. -/
theorem names_subset_sources (classify : Bytes → Option GName) (r : Req) (n : Names)
    (h : getNames classify r = some n) :
    (∀ g ∈ n.sans, g ∈ sources classify r)
    ∧ (∀ c, n.cn = some c → ∃ g ∈ sources classify r, gText g = c)
    ∧ (∀ o, n.org = some o → ∃ u, r.up = some u ∧ u.org = some o)
    ∧ (∀ u', n.crl = some u' → ∃ u, r.up = some u ∧ u.crl = some u') := by
  obtain ⟨g, al, hg, hal, rfl⟩ := getNames_some h
  have hsub : ∀ x ∈ dedup (upList classify r ++ g :: al), x ∈ sources classify r := by
    intro x hx
    rw [mem_dedup] at hx
    unfold sources
    simp only [List.mem_append, List.mem_cons] at hx ⊢
    rcases hx with hx | hx | hx
    · exact Or.inl (Or.inl hx)
    · subst hx; exact Or.inl (Or.inr (by simp [hg]))
    · exact Or.inr (addr_sub hal x hx)
  refine ⟨hsub, ?_, ?_, ?_⟩
  · intro c hc
    simp only [mkNames, Option.map_eq_some_iff] at hc
    obtain ⟨g0, hg0, rfl⟩ := hc
    exact ⟨g0, hsub g0 (List.mem_of_mem_head? hg0), rfl⟩
  · intro o ho
    simp only [mkNames, upOrg] at ho
    cases hu : r.up with
    | none => simp [hu] at ho
    | some u => simp only [hu] at ho; exact ⟨u, rfl, truthy_some ho⟩
  · intro o ho
    simp only [mkNames, upCrl] at ho
    cases hu : r.up with
    | none => simp [hu] at ho
    | some u => simp only [hu] at ho; exact ⟨u, rfl, truthy_some ho⟩

/-- The identity the client asked for (SNI, else the local address) is always one of the subjectAltName entries, as a
    name of its own kind (dNSName for a host name, iPAddress for an IP literal); without upstream names it is the
    first entry and supplies the Common Name. -/
theorem sni_or_local_first_class (classify : Bytes → Option GName) (r : Req) (n : Names)
    (h : getNames classify r = some n) :
    ∃ g, classify (requested r) = some g ∧ g ∈ n.sans
      ∧ (upList classify r = [] → n.sans.head? = some g ∧ n.cn = some (gText g)) := by
  obtain ⟨g, al, hg, hal, rfl⟩ := getNames_some h
  refine ⟨g, hg, ?_, ?_⟩
  · simp only [mkNames]; rw [mem_dedup]; simp
  · intro hnil
    simp only [mkNames, hnil, List.nil_append, head_dedup, Option.map_some, and_self]

/-- The certificate verifies for the requested identity as far as names go: C15's specification `matches` accepts
    the SAN list for the reference identifier derived from the SNI (or local address). -/
theorem matches_requested (classify : Bytes → Option GName) (offset expiry : Int) (caHasSki : Bool) (now : Int)
    (r : Req) (p : C16.Plan) (h : leaf classify offset expiry caHasSki now r = some p)
    (g : GName) (hg : classify (requested r) = some g) (ref : RefId) (href : refOf g = some ref) :
    «matches» p.sans ref = true := by
  unfold leaf at h
  simp only [Option.map_eq_some_iff] at h
  obtain ⟨n, hn, rfl⟩ := h
  obtain ⟨g', hg', hmem, _⟩ := sni_or_local_first_class classify r n hn
  rw [hg] at hg'; injection hg' with hg'; subst hg'
  unfold «matches»
  rw [List.any_eq_true]
  exact ⟨g, by simpa [dummyCert] using hmem, specMatchOne_refl g ref href⟩

private theorem osslMatchDns_refl (v : Bytes) (hv : v ≠ []) : osslMatchDns v v = true := by
  unfold osslMatchDns
  split
  · rename_i hs
    unfold validStar at hs
    split at hs
    · rename_i a b t
      simp only [Bool.and_eq_true, decide_eq_true_eq] at hs
      obtain ⟨⟨ha, _⟩, _⟩ := hs
      subst ha
      simp [osslWild]
    · simp at hs
  · cases v with
    | nil => exact absurd rfl hv
    | cons a t => simp

/-- The same under the transcription of OpenSSL's own host check (`osslMatches`, C15): a client that verifies with
    X509_check_host / X509_check_ip accepts the leaf's SAN list for the non-empty name it asked for — including a
    wildcard-looking SNI, which OpenSSL matches literally. -/
theorem matches_requested_openssl (classify : Bytes → Option GName) (offset expiry : Int) (caHasSki : Bool) (now : Int)
    (r : Req) (p : C16.Plan) (h : leaf classify offset expiry caHasSki now r = some p)
    (g : GName) (hg : classify (requested r) = some g) (ref : RefId) (href : refOf g = some ref) (hne : gText g ≠ []) :
    osslMatches p.sans ref = true := by
  unfold leaf at h
  simp only [Option.map_eq_some_iff] at h
  obtain ⟨n, hn, rfl⟩ := h
  obtain ⟨g', hg', hmem, _⟩ := sni_or_local_first_class classify r n hn
  rw [hg] at hg'; injection hg' with hg'; subst hg'
  unfold osslMatches
  rw [List.any_eq_true]
  refine ⟨g, by simpa [dummyCert] using hmem, ?_⟩
  cases g with
  | dns v => simp [refOf] at href; subst href; simpa [osslMatchOne] using osslMatchDns_refl v (by simpa [gText] using hne)
  | ip v => simp [refOf] at href; subst href; simp [osslMatchOne]
  | other k v => simp [refOf] at href

/-- No exception leaves `get_cert` because of the upstream certificate: if the requested name and the server
    address classify, names are produced whatever the upstream CN / SANs / organization / CRL are. -/
theorem upstream_never_blocks (classify : Bytes → Option GName) (r : Req) (g : GName)
    (hreq : classify (requested r) = some g) (haddr : ∀ a, r.addr = some a → (classify a).isSome = true) :
    (getNames classify r).isSome = true := by
  unfold getNames
  have : ∃ al, addrNames classify r = some al := by
    unfold addrNames
    cases ha : r.addr with
    | none => exact ⟨[], rfl⟩
    | some a =>
      have := haddr a ha
      cases hc : classify a with
      | none => simp [hc] at this
      | some y => exact ⟨[y], by simp [hc]⟩
  obtain ⟨al, hal⟩ := this
  simp [hreq, hal]

/-- Conversely nothing is dropped: every source name — each upstream SAN and CN, the requested identity, the server address — is a
    subjectAltName entry of the leaf (with `names_subset_sources`: the SAN set IS the source set; e.g. a host name below an
    upstream wildcard is kept although the wildcard "covers" it). -/
theorem sources_all_named (classify : Bytes → Option GName) (r : Req) (n : Names)
    (h : getNames classify r = some n) : ∀ g ∈ sources classify r, g ∈ n.sans := by
  obtain ⟨g0, al, hg, hal, rfl⟩ := getNames_some h
  intro g hgm
  simp only [mkNames]
  rw [mem_dedup]
  unfold sources at hgm
  simp only [List.mem_append, List.mem_cons] at hgm ⊢
  rcases hgm with (hgm | hgm) | hgm
  · exact Or.inl hgm
  · rw [hg] at hgm; simp at hgm; exact Or.inr (Or.inl hgm)
  · right; right
    unfold addrNames at hal
    cases ha : r.addr with
    | none => simp [ha] at hgm
    | some a =>
      simp only [ha] at hal hgm
      cases hc : classify a with
      | none => simp [hc] at hal
      | some y => simp [hc] at hal hgm; subst hal; simp [hgm]

/-- `dummy_cert` puts the whole list into the certificate — there is no cap on the number of names: every source name is a SAN of the
    LEAF, however long the upstream certificate's list is (the identity the client asked for comes after the upstream names). -/
theorem leaf_names_all_sources (classify : Bytes → Option GName) (offset expiry : Int) (caHasSki : Bool) (now : Int)
    (r : Req) (p : C16.Plan) (h : leaf classify offset expiry caHasSki now r = some p) :
    (∀ g ∈ sources classify r, g ∈ p.sans) ∧ (∀ n, getNames classify r = some n → p.sans = n.sans ∧ p.sans.length = n.sans.length) := by
  unfold leaf at h
  simp only [Option.map_eq_some_iff] at h
  obtain ⟨n, hn, rfl⟩ := h
  refine ⟨fun g hg => by simpa [dummyCert] using sources_all_named classify r n hn g hg, ?_⟩
  intro n' hn'
  rw [hn] at hn'; injection hn' with hn'; subst hn'
  exact ⟨rfl, rfl⟩

private theorem dedup_sublist (l : List GName) : (dedup l).Sublist l := by
  induction l with
  | nil => simp [dedup]
  | cons x xs ih =>
    simp only [dedup]
    exact (List.Sublist.cons₂ x (List.filter_sublist.trans ih))

/-- Order: the SAN list is the source list (upstream names, then the requested identity, then the server address) with later
    repetitions removed — a subsequence of it, first occurrences kept. -/
theorem sans_in_source_order (classify : Bytes → Option GName) (r : Req) (n : Names)
    (h : getNames classify r = some n) :
    ∃ g al, classify (requested r) = some g ∧ addrNames classify r = some al
      ∧ n.sans.Sublist (upList classify r ++ g :: al) ∧ n.sans.head? = (upList classify r ++ g :: al).head? := by
  obtain ⟨g, al, hg, hal, rfl⟩ := getNames_some h
  refine ⟨g, al, hg, hal, dedup_sublist _, ?_⟩
  simp only [mkNames]
  cases hu : upList classify r ++ g :: al with
  | nil => simp at hu
  | cons x xs => simp [dedup]

private theorem classify_ascii_ip_or_dns (s : Bytes) (g : GName) (h : classifyAscii s = some g) :
    (∃ v, g = .ip v) ∨ (g = .dns s ∧ C22.parseIp s = none) := by
  unfold classifyAscii at h
  split at h
  · simp only [Option.some.injEq] at h; exact Or.inl ⟨_, h.symm⟩
  · simp only [Option.some.injEq] at h; exact Or.inl ⟨_, h.symm⟩
  · rename_i hp
    split at h
    · simp only [Option.some.injEq] at h; exact Or.inr ⟨h.symm, hp⟩
    · cases h

/-! ### with `_ip_or_dns_name` transcribed (C15_Classify: C22.parseIp + the idna codec's ASCII fast path) -/

/-- An ASCII host-name SNI (not an IP literal, labels within the codec's bounds) is carried by the leaf VERBATIM as a dNSName — no
    case folding, no rewriting — and without upstream names it is also the Common Name. -/
theorem requested_host_kept_verbatim (slow : Bytes → Option GName) (r : Req) (n : Names)
    (ha : isAscii (requested r) = true) (hip : C22.parseIp (requested r) = none) (hl : idnaAsciiOk (requested r) = true)
    (h : getNames (classifyT slow) r = some n) :
    GName.dns (requested r) ∈ n.sans
    ∧ (upList (classifyT slow) r = [] → n.sans.head? = some (.dns (requested r)) ∧ n.cn = some (requested r)) := by
  have hc : classifyT slow (requested r) = some (.dns (requested r)) := by
    simp [classifyT, ha, classifyAscii, hip, hl]
  obtain ⟨g, hg, hmem, hfirst⟩ := sni_or_local_first_class (classifyT slow) r n h
  rw [hc] at hg; injection hg with hg; subst hg
  exact ⟨hmem, fun hu => by simpa [gText] using hfirst hu⟩

/-- An IP-literal SNI (or local address) is carried as iPAddress with exactly the packed address `ipaddress` parses it to. -/
theorem requested_ip_kept_packed (slow : Bytes → Option GName) (r : Req) (n : Names)
    (ha : isAscii (requested r) = true) (hip : (C22.parseIp (requested r)).isSome = true)
    (h : getNames (classifyT slow) r = some n) :
    ∃ v, classifyAscii (requested r) = some (.ip v) ∧ GName.ip v ∈ n.sans := by
  obtain ⟨g, hg, hmem, _⟩ := sni_or_local_first_class (classifyT slow) r n h
  simp only [classifyT, ha, if_true] at hg
  rcases classify_ascii_ip_or_dns _ _ hg with ⟨v, hv⟩ | ⟨_, hnp⟩
  · subst hv; exact ⟨v, hg, hmem⟩
  · rw [hnp] at hip; cases hip

/-- `get_cert` cannot raise for an ASCII SNI (or local address) that is an IP literal or satisfies the codec's label rule, whatever
    the upstream certificate carries (no server address, or one of the same kind). -/
theorem get_cert_total_ascii (slow : Bytes → Option GName) (r : Req)
    (ha : isAscii (requested r) = true) (hok : (classifyAscii (requested r)).isSome = true)
    (haddr : ∀ a, r.addr = some a → isAscii a = true ∧ (classifyAscii a).isSome = true) :
    (getNames (classifyT slow) r).isSome = true := by
  cases hg : classifyAscii (requested r) with
  | none => rw [hg] at hok; cases hok
  | some g =>
    exact upstream_never_blocks (classifyT slow) r g (by simp [classifyT, ha, hg])
      (fun a hra => by obtain ⟨h1, h2⟩ := haddr a hra; simpa [classifyT, h1] using h2)

/-! ### the field plan of `dummy_cert` -/

/-- At the moment of issue (and for as long as the expiry says) the certificate is inside its validity window, even though
    `dummy_cert` reads the naive local clock: the window starts `|validityOffset|` = 2 days early, more than any time-zone
    offset.  `skew` = local clock − UTC. -/
theorem valid_at_issue (caHasSki : Bool) (utcNow skew : Int) (n : Names)
    (hskew : -Gen.C16.maxZoneSkew ≤ skew ∧ skew ≤ Gen.C16.maxZoneSkew) :
    let p := dummyCert Gen.C16.validityOffset Gen.C16.certExpiry caHasSki (utcNow + skew) n
    p.notBefore < utcNow ∧ utcNow < p.notAfter ∧ p.notAfter - p.notBefore = Gen.C16.certExpiry := by
  simp only [dummyCert, Gen.C16.validityOffset, Gen.C16.certExpiry, Gen.C16.maxZoneSkew] at *
  omega

/-- The window does not only contain the moment of issue: the certificate stays valid for every instant from issue until
    `certExpiry − 2 days − 14 h` later, whatever the clock's time zone. -/
theorem valid_throughout (caHasSki : Bool) (utcNow skew t : Int) (n : Names)
    (hskew : -Gen.C16.maxZoneSkew ≤ skew ∧ skew ≤ Gen.C16.maxZoneSkew)
    (ht : utcNow ≤ t ∧ t < utcNow + Gen.C16.certExpiry + Gen.C16.validityOffset - Gen.C16.maxZoneSkew) :
    let p := dummyCert Gen.C16.validityOffset Gen.C16.certExpiry caHasSki (utcNow + skew) n
    p.notBefore < t ∧ t < p.notAfter := by
  simp only [dummyCert, Gen.C16.validityOffset, Gen.C16.certExpiry, Gen.C16.maxZoneSkew] at *
  omega

/-- Usable for TLS server authentication; SAN critical exactly when the subject is empty (no CN and no O; RFC 5280 §4.2.1.6); a Common Name is
    present only with 0 < length < 64 (X.520 upper bound) and then equals the first name's text; SAN entries are
    pairwise distinct. -/
theorem plan_wellformed (classify : Bytes → Option GName) (offset expiry : Int) (caHasSki : Bool) (now : Int)
    (r : Req) (p : C16.Plan) (h : leaf classify offset expiry caHasSki now r = some p) :
    p.ekuServerAuth = true
    ∧ (p.sanCritical = true ↔ (p.subjectCn = none ∧ p.subjectOrg = none))
    ∧ (∀ c, p.subjectCn = some c → Gen.C16.cnLenLowerExclusive < cpLen c ∧ cpLen c < Gen.C16.cnLenUpperExclusive
          ∧ ∃ g, p.sans.head? = some g ∧ gText g = c)
    ∧ p.sans.Nodup ∧ p.sans ≠ [] := by
  unfold leaf at h
  simp only [Option.map_eq_some_iff] at h
  obtain ⟨n, hn, rfl⟩ := h
  have hsans : n.sans.Nodup ∧ n.sans ≠ [] ∧ n.cn = n.sans.head?.map gText := by
    obtain ⟨g, al, hg, hal, rfl⟩ := getNames_some hn
    refine ⟨nodup_dedup _, ?_, rfl⟩
    intro h0
    have hm : g ∈ dedup (upList classify r ++ g :: al) := (mem_dedup _ _).mpr (by simp)
    simp only [mkNames] at h0
    rw [h0] at hm; simp at hm
  refine ⟨rfl, ?_, ?_, hsans.1, hsans.2.1⟩
  · simp only [dummyCert]
    cases hc : n.cn with
    | none => cases n.org <;> simp
    | some c =>
      by_cases hv : (decide (Gen.C16.cnLenLowerExclusive < cpLen c) && decide (cpLen c < Gen.C16.cnLenUpperExclusive)) = true <;>
        cases n.org <;> simp [hv]
  · intro c hc
    simp only [dummyCert] at hc
    cases hcn : n.cn with
    | none => simp [hcn] at hc
    | some c' =>
      simp only [hcn] at hc
      by_cases hv : (decide (Gen.C16.cnLenLowerExclusive < cpLen c') && decide (cpLen c' < Gen.C16.cnLenUpperExclusive)) = true
      · simp only [hv, if_true, Option.some.injEq] at hc
        subst hc
        simp only [Bool.and_eq_true, decide_eq_true_eq] at hv
        refine ⟨hv.1, hv.2, ?_⟩
        have := hsans.2.2
        rw [hcn] at this
        simp only [dummyCert]
        cases hh : n.sans.head? with
        | none => simp [hh] at this
        | some g => simp [hh] at this; exact ⟨g, rfl, this.symm⟩
      · simp [hv] at hc

/-! ### non-vacuity -/

private def cls0 (b : Bytes) : Option GName :=
  if b = strBytes "10.0.0.1" then some (.ip b) else if b.length > 63 then none else some (.dns b)
private def req0 : Req :=
  { up := some { cn := some (List.replicate 64 0x61), sans := [.dns (strBytes "example.com"), .dns (strBytes "*.example.com")],
                 org := some (strBytes "Ex"), crl := none }
    sni := some (strBytes "example.com"), localAddr := strBytes "127.0.0.1", addr := some (strBytes "10.0.0.1") }

example : (leaf cls0 (-172800) 17193600 true 0 req0).map (·.sans) =
    some [.dns (strBytes "example.com"), .dns (strBytes "*.example.com"), .ip (strBytes "10.0.0.1")] := by decide +kernel
example : (leaf cls0 (-172800) 17193600 true 0 req0).map (·.subjectCn) = some (some (strBytes "example.com")) := by decide +kernel
example : (leaf cls0 (-172800) 17193600 true 0 { req0 with sni := some (List.replicate 64 0x61) }) = none := by decide +kernel
example : (leaf cls0 (-172800) 17193600 true 0 { req0 with up := none, sni := some (List.replicate 63 0x61 ++ strBytes ".example") }) = none := by
  decide +kernel

/-! ### witnesses proposed by the round-6 cross-audit (notes/audit6/C16.md) -/

private def up1 : Upstream :=
  { cn := some (strBytes "Upstream CN with spaces"), sans := [.dns (strBytes "*.example.com"), .dns (strBytes "example.com"), .ip [4, 10, 0, 0, 1]],
    org := some (strBytes "Org"), crl := some (strBytes "http://crl.example/x.crl") }

/-- W1 (`requested_host_kept_verbatim`, `get_cert_total_ascii`): hypotheses hold with the TRANSCRIBED classifier (slow path never
    asked) for a mixed-case ASCII SNI below an upstream wildcard; the SNI is kept verbatim, after the upstream names -/
example :
    let r : Req := { up := some up1, sni := some (strBytes "WWW.Example.com"), localAddr := strBytes "127.0.0.1", addr := some (strBytes "10.0.0.1") }
    isAscii (requested r) = true ∧ C22.parseIp (requested r) = none ∧ idnaAsciiOk (requested r) = true
      ∧ (classifyAscii (requested r)).isSome = true ∧ isAscii (strBytes "10.0.0.1") = true ∧ (classifyAscii (strBytes "10.0.0.1")).isSome = true
      ∧ (getNames (classifyT (fun _ => none)) r).map (·.sans) =
          some [.dns (strBytes "Upstream CN with spaces"), .dns (strBytes "*.example.com"), .dns (strBytes "example.com"), .ip [4, 10, 0, 0, 1],
                .dns (strBytes "WWW.Example.com")]
      ∧ (getNames (classifyT (fun _ => none)) r).map (·.cn) = some (some (strBytes "Upstream CN with spaces")) := by decide +kernel

/-- W2 (`requested_ip_kept_packed`): no SNI, IPv6 local address: carried as iPAddress with the packed 16 bytes -/
example :
    let r : Req := { up := none, sni := some [], localAddr := strBytes "2001:db8::1", addr := none }
    isAscii (requested r) = true ∧ (C22.parseIp (requested r)).isSome = true
      ∧ (getNames (classifyT (fun _ => none)) r).map (·.sans) = some [.ip [6, 0x20, 0x01, 0x0d, 0xb8, 0, 0, 0, 0, 0, 0, 0, 0, 0, 0, 0, 1]] := by
  decide +kernel

/-- W3 (`matches_requested`, `matches_requested_openssl`, `plan_wellformed`): a leaf exists for a wildcard-looking SNI and both the
    specification and the OpenSSL transcription accept it for that very name -/
example :
    let r : Req := { up := some up1, sni := some (strBytes "*.example.com"), localAddr := strBytes "127.0.0.1", addr := none }
    (leaf classifyAscii Gen.C16.validityOffset Gen.C16.certExpiry true 0 r).isSome = true
      ∧ classifyAscii (requested r) = some (.dns (strBytes "*.example.com")) ∧ gText (.dns (strBytes "*.example.com")) ≠ []
      ∧ (leaf classifyAscii Gen.C16.validityOffset Gen.C16.certExpiry true 0 r).map (fun p => osslMatches p.sans (.host (strBytes "*.example.com"))) = some true
      ∧ (leaf classifyAscii Gen.C16.validityOffset Gen.C16.certExpiry true 0 r).map (fun p => «matches» p.sans (.host (strBytes "*.example.com"))) = some true
      ∧ (leaf classifyAscii Gen.C16.validityOffset Gen.C16.certExpiry true 0 r).map (·.sanCritical) = some false := by decide +kernel

/-- W4 (`valid_at_issue`, `valid_throughout`): the skew hypothesis at both extremes (UTC+14 / UTC-14) -/
example :
    (-Gen.C16.maxZoneSkew ≤ (50400 : Int) ∧ (50400 : Int) ≤ Gen.C16.maxZoneSkew) ∧ (-Gen.C16.maxZoneSkew ≤ (-50400 : Int) ∧ (-50400 : Int) ≤ Gen.C16.maxZoneSkew)
      ∧ (dummyCert Gen.C16.validityOffset Gen.C16.certExpiry true (1000000 + 50400) ⟨none, [], none, none⟩).notBefore < 1000000
      ∧ (1000000 : Int) < (dummyCert Gen.C16.validityOffset Gen.C16.certExpiry true (1000000 - 50400) ⟨none, [], none, none⟩).notAfter := by decide

/-- W5 (`get_cert` raises = `none` branch is real): a 64-byte label makes the codec rule fail → no certificate; an over-long CN (64 code
    points) is dropped from the subject and the SAN extension becomes critical when there is no organization either -/
example :
    (getNames classifyAscii { up := none, sni := some (List.replicate 64 0x61), localAddr := strBytes "127.0.0.1", addr := none }) = none
    ∧ (leaf classifyAscii Gen.C16.validityOffset Gen.C16.certExpiry false 0
        { up := none, sni := some (List.replicate 63 0x61 ++ strBytes "." ++ List.replicate 10 0x62), localAddr := [], addr := none }).map
          (fun p => (p.subjectCn, p.sanCritical, p.akiFromSki)) = some (none, true, false) := by decide +kernel

end MitmVerif.Props.C16
