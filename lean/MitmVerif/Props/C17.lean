/-
  C17 — property theorems about the `CertStore` model (Model/C17.lean), for ALL operation histories and
  every capacity `cap` (the code's `STORE_CAP` is `Gen.C17.storeCap`, regenerated on every run; the
  `_storeCap` corollaries instantiate it).

  * `generated_le_cap`   : after any history the expire queue holds ≤ cap entries, the dict holds ≤ cap generated
                           keys, and every generated entry in the dict is one of the queued ones
  * `returned_is_custom_matching_or_generated_exact` : what get_cert returns is a custom entry registered (by an
                           add_cert of the history) under a name matching the request by the wildcard rule, or a
                           generated entry carrying exactly the requested (cn, sans)
  * `same_request_same_cert_while_cached` : repeating a request after any number of other get_cert calls returns
                           the same entry as long as it is custom or still in the expire queue
  * `fifo_eviction`      : the expire queue is exactly the last `cap` generated entries in creation order, ids are
                           0,1,2,…, and an entry that left the queue is not served under any key any more
  * `refines_abstract_fifo_cache` : for every history the store produces the same results as, and stays related to, an
                           abstract "registration table + FIFO cache of the last cap generated certificates keyed by
                           (cn, sans)"; `cache_bounded_via_refinement`, `dict_is_cache_and_registrations` are corollaries
  * `first_registered_name_wins` : the lookup order — first registered potential name (CN forms, SAN forms in order, `*`)
  * `generated_carries_org_of_generating_request` : organization / crl_url are in the certificate, not in the key — a fresh
                           certificate carries this call's, a cached one those of the get_cert that generated it;
                           `same_request_same_cert_while_cached` now holds for any organization / crl_url of the repeat
  * `same_request_same_cert_unrelated_registrations` : … and with add_cert calls in between, as long as none of their names is a
                           potential key of the request (the form the statement and the oracle use)
  * `mem_asteriskForms_iff` : asterisk_forms yields exactly the names allowed by the wildcard rule
-/
import MitmVerif.Lemmas.C17
import MitmVerif.Lemmas.C17Refine
namespace MitmVerif.Props.C17
open MitmVerif MitmVerif.C17

variable {org crl : Option Bytes}

/-- `n` is a key under which a custom certificate answers the request `(cn, sans)`: a wildcard form of the
    (non-empty) common name or of a DNS SAN, the literal value of a non-DNS SAN, or the catch-all `*`. -/
def MatchesRequest (n : Bytes) (cn : Option Bytes) (sans : List San) : Prop :=
  (∃ c, cn = some c ∧ c ≠ [] ∧ Wild n c) ∨
  (∃ s ∈ sans, (s.kind = 0 ∧ Wild n s.val) ∨ (s.kind ≠ 0 ∧ n = s.val)) ∨
  n = [star]

/-- `CertStore.asterisk_forms` of a DNS name = the wildcard rule. -/
theorem mem_asteriskForms_iff (n c : Bytes) :
    n ∈ formsStr c ↔ (n = c ∨ ∃ p suf, c = p ++ dot :: suf ∧ n = star :: dot :: suf) :=
  mem_formsStr_iff n c

example : [star, dot, 0x63] ∈ formsStr [0x61, dot, 0x62, dot, 0x63] := by decide
example : ¬ [star] ∈ formsStr [0x61, dot, 0x62] := by decide

private theorem mem_potentialNames {n : Bytes} {cn : Option Bytes} {sans : List San}
    (h : n ∈ potentialNames cn sans) : MatchesRequest n cn sans := by
  simp only [potentialNames, List.mem_append, List.mem_flatMap, List.mem_singleton] at h
  rcases h with (h | ⟨s, hs, h⟩) | h
  · left
    cases cn with
    | none => simp [cnForms] at h
    | some c =>
      cases c with
      | nil => simp [cnForms, truthy] at h
      | cons x xs =>
        simp only [cnForms, truthy, if_true] at h
        exact ⟨x :: xs, rfl, by simp, (mem_formsStr_iff _ _).mp h⟩
  · right; left
    refine ⟨s, hs, ?_⟩
    simp only [formsSan] at h
    split at h
    · rename_i hk; left; exact ⟨hk, (mem_formsStr_iff _ _).mp h⟩
    · rename_i hk; right; exact ⟨hk, by simpa using h⟩
  · right; right; exact h

/-- **Bound.** After any history: `len(expire_queue) ≤ cap`, at most `cap` generated keys in `certs`, and every
    generated entry still in `certs` is one of the queued ones. -/
theorem generated_le_cap (cap : Nat) (ops : List Op) :
    (run cap Store.empty ops).queue.length ≤ cap ∧
    genKeyCount (run cap Store.empty ops) ≤ cap ∧
    ∀ k e, (k, e) ∈ (run cap Store.empty ops).certs → e.custom = false → e ∈ (run cap Store.empty ops).queue := by
  have h := inv_run (inv_empty cap) ops
  refine ⟨h.2, Nat.le_trans h.1.count h.2, ?_⟩
  intro k e hm hc
  have := h.1.certs_ok k e hm
  cases k with
  | name n => simp only at this; rw [this] at hc; cases hc
  | gen cn sans => exact this.2.2.2

theorem generated_le_cap_storeCap (ops : List Op) :
    (run Gen.C17.storeCap Store.empty ops).queue.length ≤ Gen.C17.storeCap ∧
    genKeyCount (run Gen.C17.storeCap Store.empty ops) ≤ Gen.C17.storeCap :=
  ⟨(generated_le_cap _ ops).1, (generated_le_cap _ ops).2.1⟩

/-- **Names.** Whatever `get_cert(cn, sans)` returns after any history is either a custom certificate that an
    `add_cert` of that history registered under a name matching the request, or a generated certificate for
    exactly `(cn, sans)`. -/
theorem returned_is_custom_matching_or_generated_exact (cap : Nat) (ops : List Op) (ok : Bool)
    (cn : Option Bytes) (sans : List San) (e : Entry)
    (h : (getCert cap ok (run cap Store.empty ops) cn sans org crl).2.entry? = some e) :
    (e.custom = true ∧ ∃ n, MatchesRequest n cn sans ∧ Registered ops n e) ∨
    (e.custom = false ∧ e.cn = cn ∧ e.sans = sans) := by
  have hinv := inv_run (inv_empty cap) ops
  rcases getCert_cases cap ok (run cap Store.empty ops) cn sans org crl with
    ⟨e', hf, hg⟩ | ⟨_, _, hg⟩ | ⟨_, _, d, rest, _, ⟨_, hg⟩ | ⟨_, hg⟩⟩
  · rw [hg] at h; simp [Res.entry?] at h; subst h
    obtain ⟨k, hk, hl⟩ := firstHit_some hf
    have hm := lookup_mem hl
    have hc := hinv.1.certs_ok k e' hm
    simp only [potentialKeys, List.mem_append, List.mem_map, List.mem_singleton] at hk
    rcases hk with ⟨n, hn, hk⟩ | hk
    · subst hk
      left
      refine ⟨hc, n, mem_potentialNames hn, ?_⟩
      rcases reg_run cap ops Store.empty (fun _ _ => False) (by simp [Store.empty]) n e' hm with h1 | h1
      · exact h1.elim
      · exact h1
    · subst hk
      right; exact ⟨hc.1, hc.2.1, hc.2.2.1⟩
  · rw [hg] at h; simp [Res.entry?] at h
  · rw [hg] at h; simp [Res.entry?] at h; subst h; right; simp [freshEntry]
  · rw [hg] at h; simp [Res.entry?] at h; subst h; right; simp [freshEntry]

/-- **Stability.** If `get_cert(cn, sans)` returned `e` and afterwards only further `get_cert` calls happened,
    then — as long as `e` is custom or still in the expire queue — the same request returns `e` again (and as a
    plain hit: nothing is generated) — whatever organization / crl_url the repeated request asks for: they are
    not part of the key. -/
theorem same_request_same_cert_while_cached (cap : Nat) (ops mid : List Op) (ok ok' : Bool)
    (cn : Option Bytes) (sans : List San) (org' crl' : Option Bytes) (e : Entry)
    (hmid : ∀ op ∈ mid, op.isGet = true)
    (h1 : (getCert cap ok (run cap Store.empty ops) cn sans org crl).2.entry? = some e)
    (hc : e.custom = true ∨
          e ∈ (run cap (getCert cap ok (run cap Store.empty ops) cn sans org crl).1 mid).queue) :
    (getCert cap ok' (run cap (getCert cap ok (run cap Store.empty ops) cn sans org crl).1 mid) cn sans org' crl').2 = .hit e := by
  have hinv := inv_run (inv_empty cap) ops
  have hinv1 := inv_getCert (org := org) (crl := crl) hinv ok cn sans
  have hinv2 := inv_run hinv1 mid
  generalize hs : run cap Store.empty ops = s at *
  generalize hs2 : run cap (getCert cap ok s cn sans org crl).1 mid = s2 at *
  -- name keys are the same in s, s1 and s2
  have hnames : ∀ n, lookup (.name n) s2.certs = lookup (.name n) s.certs := by
    intro n
    rw [← hs2, lookup_name_run mid hmid hinv1, lookup_name_getCert hinv]
  have hfn : firstHit s2.certs ((potentialNames cn sans).map Key.name) =
      firstHit s.certs ((potentialNames cn sans).map Key.name) := by
    apply firstHit_congr
    intro k hk
    simp only [List.mem_map] at hk
    obtain ⟨n, _, hk⟩ := hk
    subst hk; exact hnames n
  -- it suffices to find `e` as the first hit in s2
  suffices hfirst : firstHit s2.certs (potentialKeys cn sans) = some e by
    rcases getCert_cases cap ok' s2 cn sans org' crl' with ⟨e', hf, hg⟩ | ⟨hf, _, _⟩ | ⟨hf, _, _⟩
    · rw [hg]; rw [hfirst] at hf; simp at hf; rw [hf]
    · rw [hfirst] at hf; cases hf
    · rw [hfirst] at hf; cases hf
  simp only [potentialKeys, firstHit_append] at *
  rw [hfn]
  cases hname : firstHit s.certs ((potentialNames cn sans).map Key.name) with
  | some e0 =>
    -- served from a name key: the same key still answers
    rcases getCert_cases cap ok s cn sans org crl with ⟨e', hf, hg⟩ | ⟨hf, _, _⟩ | ⟨hf, _, _⟩
    · simp only [potentialKeys, firstHit_append, hname] at hf
      rw [hg] at h1; simp [Res.entry?] at h1
      simp at hf; rw [← h1, ← hf]
    · simp [potentialKeys, firstHit_append, hname] at hf
    · simp [potentialKeys, firstHit_append, hname] at hf
  | none =>
    -- served from (or generated for) the key (cn, sans): `e` is generated and carries exactly these names
    simp only [firstHit]
    have hgen : e.custom = false ∧ e.cn = cn ∧ e.sans = sans := by
      rcases getCert_cases cap ok s cn sans org crl with ⟨e', hf, hg⟩ | ⟨_, _, hg⟩ | ⟨_, _, d, rest, _, ⟨_, hg⟩ | ⟨_, hg⟩⟩
      · simp only [potentialKeys, firstHit_append, hname, firstHit] at hf
        rw [hg] at h1; simp [Res.entry?] at h1; subst h1
        split at hf
        · rename_i e2 hl
          simp at hf; subst hf
          have := hinv.1.certs_ok _ _ (lookup_mem hl)
          exact ⟨this.1, this.2.1, this.2.2.1⟩
        · cases hf
      · rw [hg] at h1; simp [Res.entry?] at h1
      · rw [hg] at h1; simp [Res.entry?] at h1; subst h1; simp [freshEntry]
      · rw [hg] at h1; simp [Res.entry?] at h1; subst h1; simp [freshEntry]
    have hq : e ∈ s2.queue := by
      rcases hc with hc | hc
      · rw [hgen.1] at hc; cases hc
      · exact hc
    have := (hinv2.1.queue_ok e hq).2.2
    rw [hgen.2.1, hgen.2.2] at this
    simp [this]

/-- **Stability under unrelated registrations.** The same with registrations in between: `mid` may contain, besides
    `get_cert` calls, any `add_cert` none of whose registered names (CN, SAN values, extra names) is a potential key of the
    request (its CN / SAN names, their wildcard forms, `*`).  Such registrations cannot take the request over, and they do
    not disturb a custom or still-cached answer.  (`same_request_same_cert_while_cached` is the special case without
    registrations; a registration under a MATCHING name may legitimately change the answer — `first_registered_name_wins`.) -/
theorem same_request_same_cert_unrelated_registrations (cap : Nat) (ops mid : List Op) (ok ok' : Bool)
    (cn : Option Bytes) (sans : List San) (org' crl' : Option Bytes) (e : Entry)
    (hmid : ∀ op ∈ mid, Op.undisturbing cn sans op)
    (h1 : (getCert cap ok (run cap Store.empty ops) cn sans org crl).2.entry? = some e)
    (hc : e.custom = true ∨
          e ∈ (run cap (getCert cap ok (run cap Store.empty ops) cn sans org crl).1 mid).queue) :
    (getCert cap ok' (run cap (getCert cap ok (run cap Store.empty ops) cn sans org crl).1 mid) cn sans org' crl').2 = .hit e := by
  have hinv := inv_run (inv_empty cap) ops
  have hinv1 := inv_getCert (org := org) (crl := crl) hinv ok cn sans
  have hinv2 := inv_run hinv1 mid
  generalize hs : run cap Store.empty ops = s at *
  generalize hs2 : run cap (getCert cap ok s cn sans org crl).1 mid = s2 at *
  -- the potential name keys of the request hold the same entries in s, s1 and s2
  have hnames : ∀ n ∈ potentialNames cn sans, lookup (.name n) s2.certs = lookup (.name n) s.certs := by
    intro n hn
    rw [← hs2, lookup_potential_run mid hmid hinv1 n hn, lookup_name_getCert hinv]
  have hfn : firstHit s2.certs ((potentialNames cn sans).map Key.name) =
      firstHit s.certs ((potentialNames cn sans).map Key.name) := by
    apply firstHit_congr
    intro k hk
    simp only [List.mem_map] at hk
    obtain ⟨n, hn, hk⟩ := hk
    subst hk; exact hnames n hn
  suffices hfirst : firstHit s2.certs (potentialKeys cn sans) = some e by
    rcases getCert_cases cap ok' s2 cn sans org' crl' with ⟨e', hf, hg⟩ | ⟨hf, _, _⟩ | ⟨hf, _, _⟩
    · rw [hg]; rw [hfirst] at hf; simp at hf; rw [hf]
    · rw [hfirst] at hf; cases hf
    · rw [hfirst] at hf; cases hf
  simp only [potentialKeys, firstHit_append] at *
  rw [hfn]
  cases hname : firstHit s.certs ((potentialNames cn sans).map Key.name) with
  | some e0 =>
    rcases getCert_cases cap ok s cn sans org crl with ⟨e', hf, hg⟩ | ⟨hf, _, _⟩ | ⟨hf, _, _⟩
    · simp only [potentialKeys, firstHit_append, hname] at hf
      rw [hg] at h1; simp [Res.entry?] at h1
      simp at hf; rw [← h1, ← hf]
    · simp [potentialKeys, firstHit_append, hname] at hf
    · simp [potentialKeys, firstHit_append, hname] at hf
  | none =>
    simp only [firstHit]
    have hgen : e.custom = false ∧ e.cn = cn ∧ e.sans = sans := by
      rcases getCert_cases cap ok s cn sans org crl with ⟨e', hf, hg⟩ | ⟨_, _, hg⟩ | ⟨_, _, d, rest, _, ⟨_, hg⟩ | ⟨_, hg⟩⟩
      · simp only [potentialKeys, firstHit_append, hname, firstHit] at hf
        rw [hg] at h1; simp [Res.entry?] at h1; subst h1
        split at hf
        · rename_i e2 hl
          simp at hf; subst hf
          have := hinv.1.certs_ok _ _ (lookup_mem hl)
          exact ⟨this.1, this.2.1, this.2.2.1⟩
        · cases hf
      · rw [hg] at h1; simp [Res.entry?] at h1
      · rw [hg] at h1; simp [Res.entry?] at h1; subst h1; simp [freshEntry]
      · rw [hg] at h1; simp [Res.entry?] at h1; subst h1; simp [freshEntry]
    have hq : e ∈ s2.queue := by
      rcases hc with hc | hc
      · rw [hgen.1] at hc; cases hc
      · exact hc
    have := (hinv2.1.queue_ok e hq).2.2
    rw [hgen.2.1, hgen.2.2] at this
    simp [this]

/-- **FIFO.** After any history the expire queue is exactly the last `cap` generated entries, in creation
    order; generated ids count up from 0; and a generated entry that is no longer in the queue is not stored
    under any key any more (so the next request for its names generates a new certificate). -/
theorem fifo_eviction (cap : Nat) (ops : List Op) :
    (run cap Store.empty ops).queue =
      (gens cap Store.empty ops).drop ((gens cap Store.empty ops).length - cap) ∧
    (gens cap Store.empty ops).map (·.id) = List.range (gens cap Store.empty ops).length ∧
    ∀ e ∈ gens cap Store.empty ops, e ∉ (run cap Store.empty ops).queue →
      ∀ k, (k, e) ∉ (run cap Store.empty ops).certs := by
  have hinv := inv_run (inv_empty cap) ops
  have hf := fifo_run ops (inv_empty cap) (fifo_empty cap)
  simp only [List.nil_append] at hf
  obtain ⟨ev, hev, hor⟩ := hf.split
  refine ⟨?_, ?_, ?_⟩
  · rcases hor with h | h
    · subst h
      simp only [List.nil_append] at hev
      have := hinv.2
      rw [hev]
      have h0 : (run cap Store.empty ops).queue.length - cap = 0 := by omega
      rw [h0]; simp
    · rw [hev]
      have : (ev ++ (run cap Store.empty ops).queue).length - cap = ev.length := by simp; omega
      rw [this]; simp
  · have := hf.ids
    have hlen : (gens cap Store.empty ops).length = (run cap Store.empty ops).next := by
      have := congrArg List.length this
      simpa using this
    rw [hlen]; exact this
  · intro e he hnq k hm
    have hc := hinv.1.certs_ok k e hm
    have hg := hf.gen e he
    cases k with
    | name n => simp only at hc; rw [hc] at hg; cases hg
    | gen cn sans => exact hnq hc.2.2.2

/-! ### organization and crl_url: in the certificate, not in the key -/

/-- **Organization / CRL.** What `get_cert(cn, sans, organization, crl_url)` returns after any history, if it is a
    generated certificate: one generated by THIS call carries exactly this call's organization and crl_url; a cached
    one carries the organization and crl_url of the `get_cert` of the history that generated it (same cn and sans —
    possibly a different organization: they are not part of the key). -/
theorem generated_carries_org_of_generating_request (cap : Nat) (ops : List Op) (ok : Bool)
    (cn : Option Bytes) (sans : List San) (org crl : Option Bytes) (e : Entry) :
    ((getCert cap ok (run cap Store.empty ops) cn sans org crl).2 = .fresh e → e.org = org ∧ e.crl = crl) ∧
    ((getCert cap ok (run cap Store.empty ops) cn sans org crl).2 = .hit e → e.custom = false →
      e.cn = cn ∧ e.sans = sans ∧ GeneratedBy ops e) := by
  have hinv := inv_run (inv_empty cap) ops
  rcases getCert_cases cap ok (run cap Store.empty ops) cn sans org crl with
    ⟨e', hf, hg⟩ | ⟨_, _, hg⟩ | ⟨_, _, d, rest, _, ⟨_, hg⟩ | ⟨_, hg⟩⟩
  · rw [hg]
    refine ⟨fun h => by simp at h, ?_⟩
    intro h hc
    simp at h; subst h
    obtain ⟨k, hk, hl⟩ := firstHit_some hf
    have hc' := hinv.1.certs_ok k e' (lookup_mem hl)
    simp only [potentialKeys, List.mem_append, List.mem_map, List.mem_singleton] at hk
    rcases hk with ⟨n, _, hk⟩ | hk
    · subst hk; simp only at hc'; rw [hc'] at hc; cases hc
    · subst hk
      refine ⟨hc'.2.1, hc'.2.2.1, ?_⟩
      rcases gen_run cap ops Store.empty (fun _ => False) (by simp [Store.empty]) e' hc'.2.2.2 with h1 | h1
      · exact h1.elim
      · exact h1
  · rw [hg]; exact ⟨fun h => by simp at h, fun h => by simp at h⟩
  · rw [hg]; refine ⟨?_, fun h => by simp at h⟩
    intro h; simp at h; subst h; simp [freshEntry]
  · rw [hg]; refine ⟨?_, fun h => by simp at h⟩
    intro h; simp at h; subst h; simp [freshEntry]

/-! ### refinement: the store IS a registration table plus a bounded FIFO cache keyed by (cn, sans) -/

/-- **Refinement.** For every capacity and every history, the real store (dict + expire queue, `expire` rebuilding
    the dict by value) and the abstract store (`Abs`: a function name ↦ registered certificate, and the list of
    generated certificates in creation order, cut to the last `cap`) produce the same result for every operation,
    and stay related: same registrations under every name, abstract cache = expire queue, same id counter. -/
theorem refines_abstract_fifo_cache (cap : Nat) (ops : List Op) :
    trace cap Store.empty ops = absTrace cap Abs.empty ops ∧
    Refines cap (run cap Store.empty ops) (absRun cap Abs.empty ops) :=
  refines_trace ops (refines_empty cap)

/-- corollary (through the abstract machine): the bound -/
theorem cache_bounded_via_refinement (cap : Nat) (ops : List Op) :
    (run cap Store.empty ops).queue.length ≤ cap := by
  rw [← (refines_abstract_fifo_cache cap ops).2.cache]
  exact abs_cache_le cap ops Abs.empty (by simp [Abs.empty])

/-- corollary: after any history, what the dict holds under a generated key is exactly what the abstract cache
    finds for that key, and what it holds under a name is exactly the abstract registration -/
theorem dict_is_cache_and_registrations (cap : Nat) (ops : List Op) (cn : Option Bytes) (sans : List San) (n : Bytes) :
    lookup (.gen cn sans) (run cap Store.empty ops).certs = cacheFind cn sans (absRun cap Abs.empty ops).cache ∧
    lookup (.name n) (run cap Store.empty ops).certs = (absRun cap Abs.empty ops).custom n := by
  have h := (refines_abstract_fifo_cache cap ops).2
  exact ⟨by rw [h.cache]; exact lookup_gen_eq_cacheFind h.inv cn sans, h.names n⟩

/-- **Lookup order.** In any store: if `n` is the first potential key of the request (CN forms, then each SAN's
    forms in order, then `*`) that is registered, its certificate is returned — exact names beat wildcards, names
    earlier in the request beat later ones, every registration beats the generated-certificate cache. -/
theorem first_registered_name_wins (cap : Nat) (ok : Bool) (s : Store) (cn : Option Bytes) (sans : List San)
    (pre post : List Bytes) (n : Bytes) (e : Entry)
    (hsplit : potentialNames cn sans = pre ++ n :: post)
    (hpre : ∀ m ∈ pre, lookup (.name m) s.certs = none)
    (hn : lookup (.name n) s.certs = some e) :
    getCert cap ok s cn sans org crl = (s, .hit e) := by
  have hfirst : firstHit s.certs (potentialKeys cn sans) = some e := by
    simp only [potentialKeys, hsplit, List.map_append, List.map_cons, List.append_assoc, firstHit_append]
    have hp : firstHit s.certs (pre.map Key.name) = none := by
      clear hsplit
      induction pre with
      | nil => rfl
      | cons m ms ih =>
        simp only [List.map_cons, firstHit, hpre m (by simp)]
        exact ih (fun x hx => hpre x (List.mem_cons_of_mem _ hx))
    simp only [hp, List.cons_append, firstHit, hn]
  rcases getCert_cases cap ok s cn sans org crl with ⟨e', hf, hg⟩ | ⟨hf, _, _⟩ | ⟨hf, _, _⟩
  · rw [hfirst] at hf; simp at hf; rw [hg, hf]
  · rw [hfirst] at hf; cases hf
  · rw [hfirst] at hf; cases hf

/-! ### non-vacuity: the hypotheses are satisfiable and the model is not constant -/

private def sanA : San := ⟨0, [0x61, dot, 0x62]⟩          -- DNS:a.b
private def reqA : Op := .get true none [sanA] (some [0x4f]) none     -- organization "O"
private def reqB : Op := .get true (some [0x63]) [] none none
private def reg : Op := .add 7 none [] [[star, dot, 0x62]]   -- custom cert 7 registered as "*.b"

-- capacity 1: the second generation evicts the first
example : (run 1 Store.empty [reqA, reqB]).queue.map (·.id) = [1] := by decide
example : (gens 1 Store.empty [reqA, reqB, reqA]).map (·.id) = [0, 1, 2] := by decide
-- a cached request is a hit, a custom registration under "*.b" takes over for a.b
example : (getCert 2 true (run 2 Store.empty [reqA, reqB]) none [sanA] none none).2 = .hit ⟨false, 0, none, [sanA], some [0x4f], none⟩ := by decide
example : (getCert 2 true (run 2 Store.empty [reqA, reg]) none [sanA] none none).2 = .hit ⟨true, 7, none, [], none, none⟩ := by decide
example : Registered [reqA, reg] [star, dot, 0x62] ⟨true, 7, none, [], none, none⟩ :=
  ⟨7, none, [], [[star, dot, 0x62]], by simp [reg], rfl, by simp [addKeys]⟩
example : MatchesRequest [star, dot, 0x62] none [sanA] :=
  Or.inr (Or.inl ⟨sanA, by simp, Or.inl ⟨rfl, Or.inr ⟨[0x61], [0x62], rfl, rfl⟩⟩⟩)
-- lookup order: exact name before its wildcard before "*" (potential names of SAN a.b: a.b, *.b, *)
example : potentialNames none [sanA] = [[0x61, dot, 0x62], [star, dot, 0x62], [star]] := by decide
example : (getCert 2 true (run 2 Store.empty [.add 1 none [] [[star]], .add 2 none [] [[star, dot, 0x62]], .add 3 none [] [[0x61, dot, 0x62]]])
    none [sanA] none none).2 = .hit ⟨true, 3, none, [], none, none⟩ := by decide
example : (getCert 2 true (run 2 Store.empty [.add 1 none [] [[star]], .add 2 none [] [[star, dot, 0x62]]]) none [sanA] none none).2
    = .hit ⟨true, 2, none, [], none, none⟩ := by decide
-- the abstract and the real machine agree on a concrete history (and it is not a constant trace)
example : trace 1 Store.empty [reqA, reqB, reqA, reg, reqA] =
    [some (.fresh ⟨false, 0, none, [sanA], some [0x4f], none⟩), some (.fresh ⟨false, 1, some [0x63], [], none, none⟩),
     some (.fresh ⟨false, 2, none, [sanA], some [0x4f], none⟩), none, some (.hit ⟨true, 7, none, [], none, none⟩)] := by decide
-- organization is not part of the key: asking again with another organization returns the cached "O" certificate
example : (getCert 2 true (run 2 Store.empty [reqA]) none [sanA] (some [0x58]) (some [0x75])).2
    = .hit ⟨false, 0, none, [sanA], some [0x4f], none⟩ := by decide
example : GeneratedBy [reqA] ⟨false, 0, none, [sanA], some [0x4f], none⟩ := ⟨true, by simp [reqA]⟩
-- `same_request_same_cert_unrelated_registrations`: a registration under the unrelated name "c" between the two requests
-- does not disturb the cached answer for a.b; a registration under "*.b" (a potential key of a.b) is NOT undisturbing
private def regC : Op := .add 9 none [] [[0x63]]
example : (getCert 2 true (run 2 (getCert 2 true (run 2 Store.empty []) none [sanA] (some [0x4f]) none).1 [regC, reqB])
      none [sanA] none none).2 = .hit ⟨false, 0, none, [sanA], some [0x4f], none⟩ :=
  same_request_same_cert_unrelated_registrations (org := some [0x4f]) (crl := none) 2 [] [regC, reqB] true true none [sanA] none none _
    (by intro op hop
        simp only [List.mem_cons, List.mem_singleton, List.not_mem_nil, or_false] at hop
        rcases hop with rfl | rfl
        · simp only [regC, Op.undisturbing]; decide
        · simp [reqB, Op.undisturbing])
    (by decide) (Or.inr (by decide))
example : ¬ Op.undisturbing none [sanA] reg := by simp only [reg, Op.undisturbing]; decide
example : (getCert 2 true (run 2 (getCert 2 true Store.empty none [sanA] none none).1 [reg]) none [sanA] none none).2
    = .hit ⟨true, 7, none, [], none, none⟩ := by decide
-- dummy_cert failing leaves the store unchanged
example : (getCert 2 false Store.empty (some []) [] none none).2 = .err := by decide

end MitmVerif.Props.C17

/-! ### round-6 cross-audit: further non-vacuity witnesses (appended by the auditor, no statement changed) -/
namespace MitmVerif.Props.C17
open MitmVerif MitmVerif.C17

-- `same_request_same_cert_while_cached` instantiated with a non-empty `mid`: a.b is generated, another name is
-- requested in between (capacity 2, so a.b is still queued), the repeat — with another organization — is a hit on it
example : (getCert 2 true (run 2 (getCert 2 true (run 2 Store.empty []) none [sanA] (some [0x4f]) none).1 [reqB])
      none [sanA] (some [0x58]) none).2 = .hit ⟨false, 0, none, [sanA], some [0x4f], none⟩ :=
  same_request_same_cert_while_cached (org := some [0x4f]) (crl := none) 2 [] [reqB] true true none [sanA] (some [0x58]) none _
    (by simp [reqB, Op.isGet]) (by decide) (Or.inr (by decide))
-- … and its premise `hc` matters: with capacity 1 the entry has been evicted by the request in between and the repeat
-- generates a new certificate
example : (getCert 1 true (run 1 (getCert 1 true (run 1 Store.empty []) none [sanA] (some [0x4f]) none).1 [reqB])
      none [sanA] none none).2 = .fresh ⟨false, 2, none, [sanA], none, none⟩ := by decide
-- the hypothesis of `returned_is_custom_matching_or_generated_exact` on a history with a registration, both disjuncts
example : (getCert 2 true (run 2 Store.empty [reqA, reg]) none [sanA] none none).2.entry? = some ⟨true, 7, none, [], none, none⟩ := by decide
example : (getCert 2 true (run 2 Store.empty [reqA, reg]) (some [0x63]) [] none none).2.entry? = some ⟨false, 1, some [0x63], [], none, none⟩ := by decide
-- `first_registered_name_wins` instantiated: a.b itself is not registered, "*.b" is, "*" comes later
example : getCert 2 true (run 2 Store.empty [.add 1 none [] [[star]], reg]) none [sanA] none none =
    (run 2 Store.empty [.add 1 none [] [[star]], reg], .hit ⟨true, 7, none, [], none, none⟩) :=
  first_registered_name_wins (org := none) (crl := none) 2 true _ none [sanA] [[0x61, dot, 0x62]] [[star]] [star, dot, 0x62] _
    (by decide) (by decide) (by decide)

end MitmVerif.Props.C17
