/-
  C19 — property theorems (model: MitmVerif/Model/C19.lean, lemmas: MitmVerif/Lemmas/C19.lean).

  * `allow_semantics`, `ignore_semantics`, `verdict_rule`   the verdict is the documented rule over the candidate names
  * `candidates_cover_destinations`                          server address, Host header and SNI are candidates
  * `host_header_agrees_mixed`                               regex scanner = RFC 9112 field syntax on every well-formed head, each line
                                                             ended by CRLF or bare LF in any mixture; `host_header_agrees_with_spec`
                                                             (CRLF), `host_header_eol_partial` (uniform), `host_header_bare_lf` are instances
  * `host_header_any_method_partial` / `_counterexample`     any token method: `HostHeaderAgreesAnyMethod` is FALSE (F-C19c)
  * `host_header_prefix_stable`, `decision_prefix_stable`    an answer on a prefix is final (TCP)
  * `decision_seg_independent_partial` / `_counterexample`   full statement `DecisionSegIndependent` is FALSE for the current
                                                             code (finding F-C19b); proved outside that class
  * `datagram_decision_local`, `dtls_decision_prefix_stable`, `dtls_decision_seg_independent`   datagram transports
  * `ignored_is_passthrough`                                 verdict ignore ⇒ single relay layer, no hooks, byte streams exact
  * `relay_sends_only_what_was_received`                     every history, no assumption: sent is a prefix of received
  * `ignored_is_passthrough_to_the_end`, `half_close_propagation`   … through the closing events, for admissible histories
  * `not_excluded_is_intercepted`, `passthrough_only_if_excluded`
  * `decision_seg_independent_total`                         … without assuming that a verdict is reached
  * `session_decides_where_next_layer_answers`, `ignored_flight_any_segmentation`, `not_excluded_flight_any_segmentation`
                                                             verdict + segmentation + connection, whole history
  * `verdict_uses_options_in_force`, `verdict_history_independent`   one addon instance, options changed between connections
  * `tls_ignore_passthrough`                                 ClientTLSLayer `ignore_connection` branch
-/
import MitmVerif.Lemmas.C19
set_option linter.unusedSimpArgs false
namespace MitmVerif.Props.C19
open MitmVerif MitmVerif.C19

/-! ## the verdict -/

private theorem verdict_rule_bool {Pat : Type} (E : Env Pat) (c : Cfg Pat) (dc ds : Bytes) (hs : List Bytes)
    (hc : candidates E c dc ds = .ok hs) :
    ignoreConnection E c dc ds = .ok true ↔
      (exempt c = false ∧ hs ≠ [] ∧
        ((c.allowPats ≠ [] ∧ anyMatch E c.allowPats hs = false) ∨
         (c.ignorePats ≠ [] ∧ anyMatch E c.ignorePats hs = true))) := by
  have e1 : (c.allowPats ≠ []) ↔ c.allowPats.isEmpty = false := by cases c.allowPats <;> simp
  have e2 : (c.ignorePats ≠ []) ↔ c.ignorePats.isEmpty = false := by cases c.ignorePats <;> simp
  have e3 : (hs ≠ []) ↔ hs.isEmpty = false := by cases hs <;> simp
  rw [e1, e2, e3]
  unfold ignoreConnection
  rw [hc]
  unfold verdict
  cases hA : anyMatch E c.allowPats hs <;> cases hI : anyMatch E c.ignorePats hs <;>
    cases hi : c.ignorePats.isEmpty <;> cases ha : c.allowPats.isEmpty <;> cases hx : exempt c <;>
    cases he : hs.isEmpty <;> simp_all

/-- **verdict_rule** — whenever `_ignore_connection` answers, the answer is the documented rule over the candidate
    host names: excluded iff there are candidates, the wireguard DNS exemption does not apply, and (allow_hosts is set
    and none matches, or ignore_hosts is set and one matches). -/
theorem verdict_rule {Pat : Type} (E : Env Pat) (c : Cfg Pat) (dc ds : Bytes) (hs : List Bytes)
    (hc : candidates E c dc ds = .ok hs) :
    ignoreConnection E c dc ds = .ok true ↔
      (exempt c = false ∧ hs ≠ [] ∧
        ((c.allowPats ≠ [] ∧ ¬ ∃ h ∈ hs, ∃ r ∈ c.allowPats, E.rx r h = true) ∨
         (c.ignorePats ≠ [] ∧ ∃ h ∈ hs, ∃ r ∈ c.ignorePats, E.rx r h = true))) := by
  have hany : ∀ pats : List Pat, anyMatch E pats hs = true ↔ ∃ h ∈ hs, ∃ r ∈ pats, E.rx r h = true := by
    intro pats; simp [anyMatch, List.any_eq_true]
  rw [verdict_rule_bool E c dc ds hs hc, ← hany c.allowPats, ← hany c.ignorePats]
  simp

/-- **allow_semantics** — with `allow_hosts` set (and no `ignore_hosts`), a connection with a known destination is passed
    through exactly when NO candidate host name matches any allow pattern. -/
theorem allow_semantics {Pat : Type} (E : Env Pat) (c : Cfg Pat) (dc ds : Bytes) (hs : List Bytes)
    (hc : candidates E c dc ds = .ok hs) (hne : hs ≠ []) (hal : c.allowPats ≠ []) (hig : c.ignorePats = [])
    (hex : exempt c = false) :
    ignoreConnection E c dc ds = .ok true ↔ ¬ ∃ h ∈ hs, ∃ r ∈ c.allowPats, E.rx r h = true := by
  rw [verdict_rule E c dc ds hs hc]
  simp [hex, hne, hal, hig]

/-- **ignore_semantics** — with only `ignore_hosts` set, a connection is passed through exactly when SOME candidate host
    name matches some ignore pattern. -/
theorem ignore_semantics {Pat : Type} (E : Env Pat) (c : Cfg Pat) (dc ds : Bytes) (hs : List Bytes)
    (hc : candidates E c dc ds = .ok hs) (hal : c.allowPats = []) (hig : c.ignorePats ≠ [])
    (hex : exempt c = false) :
    ignoreConnection E c dc ds = .ok true ↔ ∃ h ∈ hs, ∃ r ∈ c.ignorePats, E.rx r h = true := by
  rw [verdict_rule E c dc ds hs hc]
  simp only [hex, hal, hig, ne_eq, not_true_eq_false, false_and, false_or, not_false_eq_true, true_and]
  constructor
  · exact fun h => h.2
  · intro h
    refine ⟨?_, h⟩
    obtain ⟨x, hx, _⟩ := h
    intro e; rw [e] at hx; cases hx

/-- **candidates_cover_destinations** — every destination form the property names is among the candidates: the server
    address, the Host header value (with the connection's port unless it carries one) and the ClientHello's SNI. -/
theorem candidates_cover_destinations {Pat : Type} (E : Env Pat) (c : Cfg Pat) (dc ds : Bytes) (hs : List Bytes)
    (h : Bytes) (p : Nat) (ha : c.address = some (h, p)) (hc : candidates E c dc ds = .ok hs) :
    hostPort h p ∈ hs ∧
    (∀ v, hostHeader c.tcp dc ds = .ok (some v) → withPort v p ∈ hs) ∧
    (∀ s, clientHello E c.tcp (some p) dc = .ok (some s) → hostPort s p ∈ hs) ∧
    (∀ a, c.peername = some a → hostPort a.1 a.2 ∈ hs) := by
  unfold candidates at hc
  simp only [ha] at hc
  cases hh : hostHeader c.tcp dc ds with
  | needMore => simp [hh] at hc
  | ok hv =>
    cases hch : clientHello E c.tcp (some p) dc with
    | needMore => simp [hh, hch] at hc
    | ok sni =>
      simp only [hh, hch, Res.ok.injEq] at hc
      subst hc
      refine ⟨by simp, ?_, ?_, ?_⟩
      · intro v hv'; cases hv'; simp [optList]
      · intro s hs'; cases hs'; simp [optList]
      · intro a hp; simp [hp, optList]

/-! ## the Host header: implementation scanner = specification -/

/-- **host_header_agrees_mixed** — the general statement.  For EVERY request head in RFC 9112 field syntax — a request
    line the first regex recognises, any number of field lines `name ":" OWS value OWS` with token names, SP/HTAB in any
    amount on both sides of the value, the Host field at any position, in any letter case, possibly empty or repeated —
    where EACH line (request line, every field line, the blank line) is ended by CRLF or by a bare LF in any mixture
    (RFC 9112 §2.2), followed by ANY bytes, `_get_host_header` returns the value of the FIRST Host field (none if absent or
    empty). -/
theorem host_header_agrees_mixed (reqLine : Bytes) (rlLf : Bool) (fs : List (Field × Bool)) (endLf : Bool)
    (rest : Bytes) (hrl : expected reqLine = true) (hlf : LF ∉ reqLine) (hw : ∀ p ∈ fs, p.1.WF) :
    hostHeader true (renderHeadMixed reqLine rlLf fs endLf ++ rest) [] = .ok (specHost (fs.map (·.1))) := by
  have he : expected (renderHeadMixed reqLine rlLf fs endLf ++ rest) = true := by
    have := expected_append_true reqLine
      (eol rlLf ++ (fs.flatMap (fun p => p.1.body ++ eol p.2) ++ eol endLf) ++ rest) hrl
    simpa [renderHeadMixed, List.append_assoc] using this
  unfold hostHeader
  simp only [Bool.not_true, List.isEmpty_nil, Bool.or_self, Bool.false_eq_true, if_false, he, if_true]
  have hform : renderHeadMixed reqLine rlLf fs endLf ++ rest
      = reqLine ++ (eol rlLf ++ (fs.flatMap (fun p => p.1.body ++ eol p.2) ++ (eol endLf ++ rest))) := by
    simp [renderHeadMixed, List.append_assoc]
  rw [hform, scan_skip_eol rlLf reqLine _ hlf]
  exact atLine_fields fs hw endLf rest

private theorem flatMap_tag (lf : Bool) (fs : List Field) :
    (fs.map (fun f => (f, lf))).flatMap (fun p => p.1.body ++ eol p.2) = fs.flatMap (fun f => f.body ++ eol lf) := by
  induction fs with
  | nil => rfl
  | cons f fs ih => simp [ih]

private theorem map_tag (lf : Bool) (fs : List Field) : (fs.map (fun f => (f, lf))).map (·.1) = fs := by
  induction fs with
  | nil => rfl
  | cons f fs ih => simp only [List.map_cons, ih]

/-- **host_header_eol_partial** — (name kept from the round in which only the CRLF instance held) the statement for heads
    whose lines all end the same way, CRLF (`lf = false`) or bare LF (`lf = true`). -/
theorem host_header_eol_partial (lf : Bool) (reqLine : Bytes) (fs : List Field) (rest : Bytes)
    (hrl : expected reqLine = true) (hlf : LF ∉ reqLine) (hw : ∀ f ∈ fs, f.WF) :
    hostHeader true (renderHeadEol lf reqLine fs ++ rest) [] = .ok (specHost fs) := by
  have h := host_header_agrees_mixed reqLine lf (fs.map (fun f => (f, lf))) lf rest hrl hlf
    (by intro p hp; obtain ⟨f, hf, rfl⟩ := List.mem_map.mp hp; exact hw f hf)
  rw [map_tag] at h
  have : renderHeadMixed reqLine lf (fs.map (fun f => (f, lf))) lf = renderHeadEol lf reqLine fs := by
    simp [renderHeadMixed, renderHeadEol, flatMap_tag, List.append_assoc]
  rw [this] at h
  exact h

/-- **host_header_agrees_with_spec** — the CRLF instance: for EVERY well-formed head with CRLF line ends followed by ANY
    bytes, `_get_host_header` returns the value of the first Host field (none if absent or empty). -/
theorem host_header_agrees_with_spec (reqLine : Bytes) (fs : List Field) (rest : Bytes)
    (hrl : expected reqLine = true) (hlf : LF ∉ reqLine) (hw : ∀ f ∈ fs, f.WF) :
    hostHeader true (renderHead reqLine fs ++ rest) [] = .ok (specHost fs) := by
  have : renderHead reqLine fs = renderHeadEol false reqLine fs := by
    have hr : (fun f : Field => f.body ++ [CR, LF]) = Field.render := rfl
    simp [renderHeadEol, renderHead, eol, hr]
  rw [this]
  exact host_header_eol_partial false reqLine fs rest hrl hlf hw

example : expected [0x47, 0x45, 0x54, 0x20, 0x2f, 0x20, 0x48, 0x54, 0x54, 0x50, 0x2f, 0x31, 0x2e, 0x31] = true := by decide
/-- `hOsT:` TAB `a.b` SP after another field: the hypotheses are satisfiable and the result is the value -/
example : hostHeader true (renderHead [0x47, 0x45, 0x54, 0x20, 0x2f, 0x20, 0x48, 0x54, 0x54, 0x50, 0x2f, 0x31]
      [⟨[0x58], [0x20], [0x79], []⟩, ⟨[0x68, 0x4f, 0x73, 0x54], [0x09], [0x61, 0x2e, 0x62], [0x20]⟩]) []
    = .ok (some [0x61, 0x2e, 0x62]) := by decide
/-- the scanner is not constant: no Host field, no value -/
example : hostHeader true (renderHead [0x47, 0x45, 0x54, 0x20, 0x2f, 0x20, 0x48, 0x54, 0x54, 0x50, 0x2f, 0x31]
      [⟨[0x58], [0x20], [0x79], []⟩]) [] = .ok none := by decide

/-! ### the wider readings of "as HTTP defines it": any token method, bare-LF line ends -/

/-- `Host: a` -/
private theorem hostFieldWF : (⟨[0x48, 0x6f, 0x73, 0x74], [0x20], [0x61], []⟩ : Field).WF := by
  refine ⟨by decide, by decide, by decide, by decide, by decide, ?_, ?_⟩
  · intro b hb; simp at hb; subst hb; decide
  · intro b hb; simp at hb; subst hb; decide

/-- The statement for ANY method token (RFC 9110 §9.1: `method = token`).  FALSE for the current code (F-C19c): the first
    regex wants three letters at the start, see `_counterexample`. -/
def HostHeaderAgreesAnyMethod : Prop :=
  ∀ (method target : Bytes) (fs : List Field) (rest : Bytes),
    method ≠ [] → (∀ x ∈ method, isTchar x = true) → target ≠ [] → (∀ x ∈ target, x ≠ CR ∧ x ≠ LF ∧ x ≠ 0x20) →
    (∀ f ∈ fs, f.WF) →
    hostHeader true (renderHead (requestLine method target) fs ++ rest) [] = .ok (specHost fs)

/-- **host_header_any_method (partial)** — the statement for every token method whose first three characters are letters
    (all IANA-registered methods, e.g. GET, BASELINE-CONTROL), any request target, any field lines. -/
theorem host_header_any_method_partial (a b c : UInt8) (m target : Bytes) (fs : List Field) (rest : Bytes)
    (ha : isAlpha a = true) (hb : isAlpha b = true) (hc : isAlpha c = true)
    (hm : ∀ x ∈ m, isTchar x = true) (ht : ∀ x ∈ target, x ≠ CR ∧ x ≠ LF ∧ x ≠ 0x20) (hw : ∀ f ∈ fs, f.WF) :
    hostHeader true (renderHead (requestLine (a :: b :: c :: m) target) fs ++ rest) [] = .ok (specHost fs) := by
  have ht' : ∀ x ∈ target, x ≠ CR ∧ x ≠ LF := fun x hx => ⟨(ht x hx).1, (ht x hx).2.1⟩
  have hal : ∀ y : UInt8, isAlpha y = true → isTchar y = true := fun y hy => by simp [isTchar, hy]
  apply host_header_agrees_with_spec _ fs rest
  · simpa using expected_of_request_line a b c m target [] ha hb hc hm ht'
  · apply requestLine_no_lf _ _ _ ht'
    intro x hx
    simp only [List.mem_cons] at hx
    rcases hx with e | e | e | e
    · rw [e]; exact hal a ha
    · rw [e]; exact hal b hb
    · rw [e]; exact hal c hc
    · exact hm x e
  · exact hw

/-- **host_header_any_method (counterexample)** — F-C19c: `M-SEARCH * HTTP/1.1 CRLF Host: a CRLF CRLF` (method token
    `M-SEARCH`): HTTP defines Host = `a`, `_get_host_header` reports no Host header. -/
theorem host_header_any_method_counterexample : ¬ HostHeaderAgreesAnyMethod := by
  intro h
  have := h [0x4d, 0x2d, 0x53, 0x45, 0x41, 0x52, 0x43, 0x48] [0x2a] [⟨[0x48, 0x6f, 0x73, 0x74], [0x20], [0x61], []⟩] []
    (by decide) (by decide) (by decide) (by decide)
    (by intro f hf; simp only [List.mem_cons, List.mem_nil_iff, or_false] at hf; subst hf; exact hostFieldWF)
  revert this
  decide

/-- The statement for heads whose lines end in a bare LF (RFC 9112 §2.2 "MAY recognize a single LF as a line terminator";
    mitmproxy's own HTTP/1 reader does).  It was FALSE before fix 801640255 (F-C19d: the scan only knew CRLF and asked for
    more data for ever); it is proved now. -/
def HostHeaderAgreesBareLf : Prop :=
  ∀ (reqLine : Bytes) (fs : List Field) (rest : Bytes),
    expected reqLine = true → CR ∉ reqLine → LF ∉ reqLine → (∀ f ∈ fs, f.WF) →
    hostHeader true (renderHeadEol true reqLine fs ++ rest) [] = .ok (specHost fs)

/-- **host_header_bare_lf** — the bare-LF statement holds for the repaired scan -/
theorem host_header_bare_lf : HostHeaderAgreesBareLf :=
  fun reqLine fs rest hrl _ hlf hw => host_header_eol_partial true reqLine fs rest hrl hlf hw

/-- mixed line ends read the FIRST Host field: `GET / HTTP/1.1 LF Host: a LF X: b CRLF Host: c CRLF CRLF` gives `a` -/
example : hostHeader true (renderHeadMixed [0x47, 0x45, 0x54, 0x20, 0x2f, 0x20, 0x48, 0x54, 0x54, 0x50, 0x2f, 0x31] true
      [(⟨[0x48, 0x6f, 0x73, 0x74], [0x20], [0x61], []⟩, true), (⟨[0x58], [0x20], [0x62], []⟩, false),
       (⟨[0x48, 0x6f, 0x73, 0x74], [0x20], [0x63], []⟩, false)] false) [] = .ok (some [0x61]) := by decide

/-- **host_header_prefix_stable** — an answer of `_get_host_header` on a prefix that does not end inside the request
    line is its answer on every extension. -/
theorem host_header_prefix_stable (tcp : Bool) (p q ds : Bytes) (r : Option Bytes) (hp : reqLinePending p = false)
    (h : hostHeader tcp p ds = .ok r) : hostHeader tcp (p ++ q) ds = .ok r :=
  hostHeader_append tcp p q ds r hp h

/-- **decision_prefix_stable** — TCP: once `_ignore_connection` answers on at least three bytes that do not end inside
    the request line, more bytes never change the verdict (Host header and ClientHello/SNI included). -/
theorem decision_prefix_stable {Pat : Type} (E : Env Pat) (c : Cfg Pat) (p q ds : Bytes) (b : Bool)
    (htcp : c.tcp = true) (h3 : 3 ≤ p.length) (hp : reqLinePending p = false)
    (h : ignoreConnection E c p ds = .ok b) : ignoreConnection E c (p ++ q) ds = .ok b := by
  apply ignoreConnection_append_tcp E c p q ds b htcp _ h
  simp [earlyPrefix, hp]; omega

/-- The full statement: for every segmentation of the first flight, the verdict taken at the first segment at which
    `_ignore_connection` answers equals the verdict on the whole flight — the only exemption being the documented minimum
    of three bytes needed to recognise TLS.  FALSE for the current code (F-C19b), see `_counterexample`. -/
def DecisionSegIndependent : Prop :=
  ∀ (E : Env Bytes) (c : Cfg Bytes) (ds : Bytes) (segs : List Bytes) (p : Bytes),
    c.tcp = true → decidingPrefix (fun d => ignoreConnection E c d ds) [] segs = some p → 3 ≤ p.length →
    askSegs (fun d => ignoreConnection E c d ds) [] segs = ignoreConnection E c segs.flatten ds

/-- **decision_seg_independent (partial)** — the statement above for every pattern type, under the decidable guard that
    the deciding prefix does not end inside the request line (`reqLinePending`): EVERY segmentation of the first flight
    gives the verdict of the whole flight. -/
theorem decision_seg_independent_partial {Pat : Type} (E : Env Pat) (c : Cfg Pat) (ds : Bytes) (segs : List Bytes)
    (p : Bytes) (htcp : c.tcp = true)
    (hd : decidingPrefix (fun d => ignoreConnection E c d ds) [] segs = some p)
    (h3 : 3 ≤ p.length) (hguard : reqLinePending p = false) :
    askSegs (fun d => ignoreConnection E c d ds) [] segs = ignoreConnection E c segs.flatten ds := by
  obtain ⟨h1, q, h2⟩ := askSegs_eq (fun d => ignoreConnection E c d ds) [] segs p hd
  simp only [List.nil_append] at h2
  rw [h1, h2]
  cases hv : ignoreConnection E c p ds with
  | needMore =>
    -- the deciding prefix is by definition not a needMore point
    exfalso
    clear h1 h2
    generalize hacc : ([] : Bytes) = acc at hd
    clear hacc
    induction segs generalizing acc with
    | nil => simp [decidingPrefix] at hd
    | cons s ss ih =>
      simp only [decidingPrefix] at hd
      cases hf : ignoreConnection E c (acc ++ s) ds with
      | needMore => simp only [hf] at hd; exact ih _ hd
      | ok b => simp only [hf] at hd; cases hd; rw [hf] at hv; cases hv
  | ok b => exact (decision_prefix_stable E c p q ds b htcp h3 hguard hv).symm

/-- **decision_seg_independent_total** — the same without the hypothesis that a verdict is reached: for EVERY non-empty
    segmentation (TCP) such that, IF some accumulated prefix gets a verdict, that prefix has three bytes and does not end
    inside the request line, asking segment by segment gives exactly what asking on the whole flight gives — the verdict,
    or "need more data" when the flight is still incomplete. -/
theorem decision_seg_independent_total {Pat : Type} (E : Env Pat) (c : Cfg Pat) (ds : Bytes) (segs : List Bytes)
    (htcp : c.tcp = true) (hne : segs ≠ [])
    (hguard : ∀ p, decidingPrefix (fun d => ignoreConnection E c d ds) [] segs = some p →
        3 ≤ p.length ∧ reqLinePending p = false) :
    askSegs (fun d => ignoreConnection E c d ds) [] segs = ignoreConnection E c segs.flatten ds := by
  cases hd : decidingPrefix (fun d => ignoreConnection E c d ds) [] segs with
  | some p => exact decision_seg_independent_partial E c ds segs p htcp hd (hguard p hd).1 (hguard p hd).2
  | none =>
    have h := decidingPrefix_none _ [] segs hd
    rw [h]
    have := askSegs_needMore (fun d => ignoreConnection E c d ds) [] segs hne h
    simpa using this.symm

private def cxEnv : Env Bytes := { rx := fun r h => r.isPrefixOf h, validHost := fun _ => false, quic := fun _ => .invalid }
private def cxCfg : Cfg Bytes :=
  { tcp := true, ignorePats := [[0x61]], allowPats := [], wireguard := false, peername := none,
    address := some ([0x31], 80), clientSni := none }
/-- `GET / HT` -/
private def cxSeg1 : Bytes := [0x47, 0x45, 0x54, 0x20, 0x2f, 0x20, 0x48, 0x54]
/-- `TP/1.1 CRLF Host:a CRLF CRLF` -/
private def cxSeg2 : Bytes := [0x54, 0x50, 0x2f, 0x31, 0x2e, 0x31, 0x0d, 0x0a, 0x48, 0x6f, 0x73, 0x74, 0x3a, 0x61, 0x0d, 0x0a, 0x0d, 0x0a]

/-- **decision_seg_independent (counterexample)** — F-C19b: `ignore_hosts = a`, destination `1:80`, first flight
    `GET / HTTP/1.1 CRLF Host:a CRLF CRLF` cut after `GET / HT` (8 bytes ≥ 3): the first segment already gives the verdict
    "not excluded" (no Host header seen), the whole flight is excluded. -/
theorem decision_seg_independent_counterexample : ¬ DecisionSegIndependent := by
  intro h
  have := h cxEnv cxCfg [] [cxSeg1, cxSeg2] cxSeg1 rfl (by decide) (by decide)
  revert this
  decide

/-! ## datagram transports (UDP: DTLS, QUIC)

  The property's segmentation clause speaks about how the network cuts a byte stream.  A datagram transport does not
  re-segment: datagram boundaries are chosen by the sender and preserved, so two different datagram sequences are two
  different inputs (and `_starts_like_quic` is documented to look at the size of what has arrived: at least 18 bytes).
  What the clause leaves for datagrams is proved below: the verdict is a function of the datagrams up to the deciding one
  (`datagram_decision_local`), and for a DTLS ClientHello spread over several datagrams/records the verdict taken when
  the hello is complete is the verdict of everything sent (`dtls_decision_prefix_stable`,
  `dtls_decision_seg_independent`).  The `example` after them shows that the TCP statement itself is false for
  non-DTLS datagrams — by design: 10 bytes are "not QUIC", the same bytes followed by 10 more are. -/

/-- **datagram_decision_local** — for any transport: once a verdict is given on the first k datagrams (segments), whatever
    arrives later is never consulted; the verdict is a function of the deciding prefix alone. -/
theorem datagram_decision_local {Pat : Type} (E : Env Pat) (c : Cfg Pat) (ds : Bytes) (dgs more : List Bytes) (p : Bytes)
    (hd : decidingPrefix (fun d => ignoreConnection E c d ds) [] dgs = some p) :
    askSegs (fun d => ignoreConnection E c d ds) [] (dgs ++ more) = ignoreConnection E c p ds :=
  askSegs_append _ [] dgs more p hd

/-- **dtls_decision_prefix_stable** — UDP: a verdict given on data that starts like a DTLS record (ClientHello complete,
    or recognisably invalid) is unchanged by any further datagrams; QUIC detection cannot interfere. -/
theorem dtls_decision_prefix_stable {Pat : Type} (E : Env Pat) (c : Cfg Pat) (p q ds : Bytes) (b : Bool)
    (hudp : c.tcp = false) (hd : C13.startsLike true p = true)
    (h : ignoreConnection E c p ds = .ok b) : ignoreConnection E c (p ++ q) ds = .ok b :=
  ignoreConnection_append_dtls E c p q ds b hudp hd h

/-- **dtls_decision_seg_independent** — UDP/DTLS: however the client spreads its DTLS first flight over datagrams, the
    verdict taken at the first datagram at which `_ignore_connection` answers is the verdict on everything it sent. -/
theorem dtls_decision_seg_independent {Pat : Type} (E : Env Pat) (c : Cfg Pat) (ds : Bytes) (dgs : List Bytes)
    (p : Bytes) (hudp : c.tcp = false)
    (hd : decidingPrefix (fun d => ignoreConnection E c d ds) [] dgs = some p)
    (hdtls : C13.startsLike true p = true) :
    askSegs (fun d => ignoreConnection E c d ds) [] dgs = ignoreConnection E c dgs.flatten ds := by
  obtain ⟨h1, q, h2⟩ := askSegs_eq (fun d => ignoreConnection E c d ds) [] dgs p hd
  simp only [List.nil_append] at h2
  rw [h1, h2]
  cases hv : ignoreConnection E c p ds with
  | needMore =>
    exfalso
    clear h1 h2
    generalize hacc : ([] : Bytes) = acc at hd
    clear hacc
    induction dgs generalizing acc with
    | nil => simp [decidingPrefix] at hd
    | cons s ss ih =>
      simp only [decidingPrefix] at hd
      cases hf : ignoreConnection E c (acc ++ s) ds with
      | needMore => simp only [hf] at hd; exact ih _ hd
      | ok b => simp only [hf] at hd; cases hd; rw [hf] at hv; cases hv
  | ok b => exact (dtls_decision_prefix_stable E c p q ds b hudp hdtls hv).symm

private def udpEnv : Env Bytes := { rx := fun r h => r.isPrefixOf h, validHost := fun _ => false, quic := fun _ => .ok (some [0x61]) }
private def udpCfg : Cfg Bytes :=
  { tcp := false, ignorePats := [[0x61]], allowPats := [], wireguard := false, peername := none,
    address := some ([0x31], 443), clientSni := none }
/-- why the TCP statement is not claimed for datagrams: ten bytes to port 443 are not QUIC (fewer than 18 bytes), the same
    ten bytes followed by ten more are handed to the QUIC parser, whose SNI then matches — datagram sizes are input -/
example : ignoreConnection udpEnv udpCfg (List.replicate 10 0) [] = .ok false
    ∧ ignoreConnection udpEnv udpCfg (List.replicate 10 0 ++ List.replicate 10 0) [] = .ok true := by decide

/-! ## passthrough -/

/-- **ignored_is_passthrough** — (a) whenever the verdict is "ignore" the instantiated stack is the single relay layer
    (`TCPLayer`/`UDPLayer` with `ignore = not show_ignored_hosts`): no layer that terminates TLS/QUIC or parses HTTP/DNS;
    (b) for EVERY event history (any segmentation of the first flight, data and closes from both sides at any time, the
    server connection already open or opened after the decision, connect success or failure): while the relay is active
    the bytes sent to each peer are exactly the concatenation of all bytes received from the other — including those
    buffered before the decision and while connecting; before that nothing is sent and everything received is still
    queued in order; the stack is the relay layer alone and, unless `show_ignored_hosts`, no hook ever runs. -/
theorem ignored_is_passthrough {Pat : Type} (E : Env Pat) (c : NCfg Pat) (connected : Bool) (evs : List Ev) :
    (∀ dc ds, ignoreConnection E c.toCfg dc ds = .ok true →
        nextLayer E c dc ds = .ok [relayLayer c.tcp (!c.showIgnored)] ∧
        (relayLayer c.tcp (!c.showIgnored)).terminates = false) ∧
    (let s := run E c (Sess.init c.tcp connected) evs
     (s.phase = .relay → ∀ b, sentTo b s.out = recvFrom b evs) ∧
     ((s.phase = .undecided ∨ s.phase = .connecting) →
        ∀ b, sentTo b s.out = [] ∧ recvFrom b s.queue = recvFrom b evs) ∧
     ((s.phase = .connecting ∨ s.phase = .relay ∨ s.phase = .done ∨ s.phase = .failed) →
        (∃ ig, (s.stack = [LK.tcp ig] ∨ s.stack = [LK.udp ig]) ∧ s.flow = !ig) ∧
        (s.flow = false → hooks s.out = []))) := by
  refine ⟨?_, ?_⟩
  · intro dc ds h
    refine ⟨by simp [nextLayer, h], ?_⟩
    cases c.tcp <;> rfl
  · have hI := run_inv E c (Sess.init c.tcp connected) [] evs (init_inv c.tcp connected)
    simp only [List.nil_append] at hI
    refine ⟨?_, ?_, ?_⟩
    · intro hp
      unfold MitmVerif.C19.Inv at hI; rw [hp] at hI
      exact hI.2.2
    · intro hp
      rcases hp with hp | hp
      · unfold MitmVerif.C19.Inv at hI; rw [hp] at hI
        intro b
        exact ⟨by rw [hI.1]; rfl, hI.2.2.1 b⟩
      · unfold MitmVerif.C19.Inv at hI; rw [hp] at hI
        exact hI.2.2
    · intro hp
      rcases hp with hp | hp | hp | hp <;> (unfold MitmVerif.C19.Inv at hI; rw [hp] at hI)
      · exact ⟨hI.1, hI.2.1⟩
      · exact ⟨hI.1, hI.2.1⟩
      · exact ⟨hI.1, hI.2⟩
      · exact ⟨hI.1, hI.2.1⟩

/-- **ignored_is_passthrough_to_the_end** — the stream equality through the closing events.  For EVERY admissible history
    (`AdmRun`: the environment delivers data and EOF only from a connection that is still readable and a connect result
    only while one is awaited; for UDP the association does not end before the relay is active) that ends with the relay
    finished (`done`): every byte received from either side — before the verdict, while connecting, after the other side's
    half-close — was delivered to the other side, in order, exactly once, and both connections are unreadable, so nothing
    can arrive that would be swallowed.  Together with `ignored_is_passthrough` this covers every phase a passed-through
    connection can end in (undecided/connecting: queued; relay/done: delivered; failed/aborted: no server to relay to). -/
theorem ignored_is_passthrough_to_the_end {Pat : Type} (E : Env Pat) (c : NCfg Pat) (connected : Bool) (evs : List Ev)
    (hadm : AdmRun E c (Sess.init c.tcp connected) evs) :
    let s := run E c (Sess.init c.tcp connected) evs
    (s.phase = .done → (∀ b, sentTo b s.out = recvFrom b evs) ∧ s.client.canRead = false ∧ s.server.canRead = false) ∧
    ((s.phase = .relay ∨ s.phase = .done) → ∀ b, sentTo b s.out = recvFrom b evs) := by
  obtain ⟨hI, h2⟩ := run_inv2 E c (Sess.init c.tcp connected) [] evs (init_inv c.tcp connected)
    (init_inv2 c.tcp connected) hadm
  simp only [List.nil_append] at hI h2
  have hdone : (run E c (Sess.init c.tcp connected) evs).phase = .done →
      (∀ b, sentTo b (run E c (Sess.init c.tcp connected) evs).out = recvFrom b evs) ∧
      (run E c (Sess.init c.tcp connected) evs).client.canRead = false ∧
      (run E c (Sess.init c.tcp connected) evs).server.canRead = false := by
    intro hp
    unfold Inv2 at h2; rw [hp] at h2
    exact ⟨h2.2.2, h2.1, h2.2.1⟩
  refine ⟨hdone, ?_⟩
  intro hp
  rcases hp with hp | hp
  · unfold MitmVerif.C19.Inv at hI; rw [hp] at hI
    exact hI.2.2
  · exact (hdone hp).1

/-- **relay_sends_only_what_was_received** — for EVERY event history, with NO assumption on the environment (admissible or
    not, any phase the connection ends in: undecided, aborted, intercepted, connecting, relaying, finished, failed): the
    bytes the model has sent to either peer are a prefix of the bytes received from the other — nothing is invented,
    altered, reordered or duplicated.  (`ignored_is_passthrough` / `_to_the_end` add that the prefix is everything.) -/
theorem relay_sends_only_what_was_received {Pat : Type} (E : Env Pat) (c : NCfg Pat) (connected : Bool) (evs : List Ev) :
    ∀ b, ∃ t, sentTo b (run E c (Sess.init c.tcp connected) evs).out ++ t = recvFrom b evs := by
  have h := run_inv3 E c (Sess.init c.tcp connected) [] evs (init_inv c.tcp connected)
    (inv3_of_nil _ _ (fun b => by simp [Sess.init, sentTo]))
  simp only [List.nil_append] at h
  exact h

/-- **half_close_propagation** — TCPLayer.relay_messages on EOF: while the other side can still be read the EOF is passed on
    as a half-close of the other side (once: only if that side is still writable) and the relay goes on, so the other
    direction keeps flowing; when neither side can be read any more both connections that are not yet closed are closed
    and the relay is finished. -/
theorem half_close_propagation {Pat : Type} (E : Env Pat) (c : NCfg Pat) (s : Sess)
    (hp : s.phase = .relay) (ht : s.tcp = true) (hf : s.flow = false) :
    (s.server.canRead = true →
      (step E c s .closeC).phase = .relay ∧
      (step E c s .closeC).out = s.out ++ (if s.server.canWrite then [Out.close true true] else []) ∧
      (step E c s .closeC).server = ⟨true, false⟩) ∧
    (s.client.canRead = true →
      (step E c s .closeS).phase = .relay ∧
      (step E c s .closeS).out = s.out ++ (if s.client.canWrite then [Out.close false true] else []) ∧
      (step E c s .closeS).client = ⟨true, false⟩) ∧
    (s.server.canRead = false →
      (step E c s .closeC).phase = .done ∧
      (step E c s .closeC).out = s.out ++ (if s.server.closed then [] else [Out.close true false])
          ++ (if s.client.canWrite then [Out.close false false] else [])) := by
  refine ⟨?_, ?_, ?_⟩
  · intro hs
    simp [step, noteEv, hp, ht, relayEv, hs, Sess.emit, applyClose]
  · intro hc
    simp [step, noteEv, hp, ht, relayEv, hc, Sess.emit, applyClose]
  · intro hs
    simp [step, noteEv, hp, ht, hf, relayEv, hs, Sess.emit, Conn.closed]
    cases s.client.canWrite <;> simp

/-- **not_excluded_is_intercepted** — a verdict "not excluded" never yields a passthrough layer: the instantiated stack is
    non-empty and every layer in it makes the connection visible to addons (TLS/QUIC/HTTP/DNS layers, or a TCP/UDP layer
    created with a flow). -/
theorem not_excluded_is_intercepted {Pat : Type} (E : Env Pat) (c : NCfg Pat) (dc ds : Bytes)
    (h : ignoreConnection E c.toCfg dc ds = .ok false) :
    ∃ st, nextLayer E c dc ds = .ok st ∧ st ≠ [] ∧ ∀ l ∈ st, l.intercepts = true := by
  refine ⟨intercept E c dc ds, by simp [nextLayer, h], ?_⟩
  unfold intercept
  cases c.top with
  | reverse s =>
    cases s <;> simp only [reverseStack] <;>
      cases c.tcp <;> cases C13.startsLike false dc <;> cases C13.startsLike true dc <;> simp [LK.intercepts]
  | httpProxy => simp only [explicitStack]; cases c.tcp <;> cases C13.startsLike false dc <;> simp [LK.intercepts]
  | upstream => simp only [explicitStack]; cases c.tcp <;> cases C13.startsLike false dc <;> simp [LK.intercepts]
  | other =>
    simp only
    repeat' split
    all_goals simp [LK.intercepts]

/-- and the relay phase of the connection model is only ever entered with an ignore-layer if the verdict was "ignore" -/
theorem passthrough_only_if_excluded {Pat : Type} (E : Env Pat) (c : NCfg Pat) (dc ds : Bytes) (st : List LK)
    (h : nextLayer E c dc ds = .ok st) (hig : LK.tcp true ∈ st ∨ LK.udp true ∈ st) :
    ignoreConnection E c.toCfg dc ds = .ok true := by
  cases hv : ignoreConnection E c.toCfg dc ds with
  | needMore => simp [nextLayer, hv] at h
  | ok b =>
    cases b with
    | true => rfl
    | false =>
      obtain ⟨st', h1, _, h3⟩ := not_excluded_is_intercepted E c dc ds hv
      rw [h] at h1; cases h1
      rcases hig with hig | hig
      · have := h3 _ hig; simp [LK.intercepts] at this
      · have := h3 _ hig; simp [LK.intercepts] at this

/-! ## the verdict and the connection: whole-history forms -/

/-- **session_decides_where_next_layer_answers** — the connection model, fed the first flight segment by segment, stays
    undecided exactly as long as `_next_layer` says NeedsMoreData on the accumulated bytes and then instantiates exactly the
    stack `_next_layer` returns at that point (`askSegs` is therefore what the NextLayer really does). -/
theorem session_decides_where_next_layer_answers {Pat : Type} (E : Env Pat) (c : NCfg Pat) (connected : Bool)
    (segs : List Bytes) :
    match askSegs (fun d => nextLayer E c d []) [] segs with
    | .needMore => (run E c (Sess.init c.tcp connected) (segs.map Ev.dataC)).phase = .undecided
    | .ok st => (run E c (Sess.init c.tcp connected) (segs.map Ev.dataC)).stack = st ∧
        ((run E c (Sess.init c.tcp connected) (segs.map Ev.dataC)).phase = .relay ∨
         (run E c (Sess.init c.tcp connected) (segs.map Ev.dataC)).phase = .connecting ∨
         (run E c (Sess.init c.tcp connected) (segs.map Ev.dataC)).phase = .intercepted) := by
  have := session_asks E c (Sess.init c.tcp connected) segs rfl rfl (by intro e he; simp [Sess.init] at he)
  simp only [Sess.init] at this ⊢
  cases h : askSegs (fun d => nextLayer E c d []) [] segs with
  | needMore => rw [h] at this; exact this.1
  | ok st => rw [h] at this; exact this

/-- **ignored_flight_any_segmentation** — verdict, segmentation and relay in one statement (TCP).  If the whole first flight
    is excluded by the rules, then for EVERY segmentation of it whose deciding prefix has at least three bytes and does not
    end inside the request line (F-C19b), the connection ends up with the single pass-through layer as its stack — never a
    TLS or HTTP layer — and every byte of the flight, including the segments buffered before the verdict, has been sent to
    the server in order (server already connected) or is queued in order behind the pending connect. -/
theorem ignored_flight_any_segmentation {Pat : Type} (E : Env Pat) (c : NCfg Pat) (connected : Bool)
    (segs : List Bytes) (p : Bytes) (htcp : c.tcp = true)
    (hd : decidingPrefix (fun d => ignoreConnection E c.toCfg d []) [] segs = some p)
    (h3 : 3 ≤ p.length) (hguard : reqLinePending p = false)
    (hv : ignoreConnection E c.toCfg segs.flatten [] = .ok true) :
    let s := run E c (Sess.init c.tcp connected) (segs.map Ev.dataC)
    s.stack = [relayLayer c.tcp (!c.showIgnored)] ∧ (s.phase = .relay ∨ s.phase = .connecting) ∧
    (s.phase = .relay → sentTo true s.out = segs.flatten) ∧
    (s.phase = .connecting → sentTo true s.out = [] ∧ recvFrom true s.queue = segs.flatten) := by
  have hask : askSegs (fun d => ignoreConnection E c.toCfg d []) [] segs = .ok true := by
    rw [decision_seg_independent_partial E c.toCfg [] segs p htcp hd h3 hguard]; exact hv
  have hrel := askSegs_ignore_relay E c [] segs hask
  have hs := session_decides_where_next_layer_answers E c connected segs
  rw [hrel] at hs
  obtain ⟨hstack, hphase⟩ := hs
  have hrecv : ∀ l : List Bytes, recvFrom true (l.map Ev.dataC) = l.flatten := by
    intro l; induction l with
    | nil => rfl
    | cons x xs ih => simp [recvFrom, ih]
  obtain ⟨_, h1, h2, h3'⟩ := ignored_is_passthrough E c connected (segs.map Ev.dataC)
  have hnotint : (run E c (Sess.init c.tcp connected) (segs.map Ev.dataC)).phase ≠ .intercepted := by
    intro hp
    have hI := run_inv E c (Sess.init c.tcp connected) [] (segs.map Ev.dataC) (init_inv c.tcp connected)
    unfold MitmVerif.C19.Inv at hI; rw [hp] at hI
    have := hI (!c.showIgnored)
    rw [hstack] at this
    cases c.tcp <;> simp [relayLayer] at this
  refine ⟨hstack, ?_, ?_, ?_⟩
  · rcases hphase with h | h | h
    · exact Or.inl h
    · exact Or.inr h
    · exact absurd h hnotint
  · intro hp; rw [h1 hp true, hrecv]
  · intro hp
    have := h2 (Or.inr hp) true
    exact ⟨this.1, by rw [this.2, hrecv]⟩

/-- **not_excluded_flight_any_segmentation** — the counterpart (TCP): if the whole first flight is NOT excluded by the rules,
    then for every segmentation whose deciding prefix has three bytes and does not end inside the request line the
    connection is never handed to a pass-through layer: a stack is instantiated, it is non-empty, and every layer in it
    makes the connection visible to addons. -/
theorem not_excluded_flight_any_segmentation {Pat : Type} (E : Env Pat) (c : NCfg Pat) (connected : Bool)
    (segs : List Bytes) (p : Bytes) (htcp : c.tcp = true)
    (hd : decidingPrefix (fun d => ignoreConnection E c.toCfg d []) [] segs = some p)
    (h3 : 3 ≤ p.length) (hguard : reqLinePending p = false)
    (hv : ignoreConnection E c.toCfg segs.flatten [] = .ok false) :
    let s := run E c (Sess.init c.tcp connected) (segs.map Ev.dataC)
    s.phase ≠ .undecided ∧ s.stack ≠ [] ∧ ∀ l ∈ s.stack, l.intercepts = true := by
  have hask : askSegs (fun d => ignoreConnection E c.toCfg d []) [] segs = .ok false := by
    rw [decision_seg_independent_partial E c.toCfg [] segs p htcp hd h3 hguard]; exact hv
  obtain ⟨q, hq⟩ := askSegs_notignore E c [] segs hask
  have hs := session_decides_where_next_layer_answers E c connected segs
  rw [hq] at hs
  obtain ⟨hstack, hphase⟩ := hs
  have hint : ∀ dc, intercept E c dc [] ≠ [] ∧ ∀ l ∈ intercept E c dc [], l.intercepts = true := by
    intro dc
    -- `intercept` never builds a pass-through layer, whatever the verdict was
    unfold intercept
    cases c.top with
    | reverse sc =>
      cases sc <;> simp only [reverseStack] <;>
        cases c.tcp <;> cases C13.startsLike false dc <;> cases C13.startsLike true dc <;> simp [LK.intercepts]
    | httpProxy => simp only [explicitStack]; cases c.tcp <;> cases C13.startsLike false dc <;> simp [LK.intercepts]
    | upstream => simp only [explicitStack]; cases c.tcp <;> cases C13.startsLike false dc <;> simp [LK.intercepts]
    | other =>
      simp only
      repeat' split
      all_goals simp [LK.intercepts]
  refine ⟨?_, ?_, ?_⟩
  · rcases hphase with h | h | h <;> simp [h]
  · rw [hstack]; exact (hint q).1
  · rw [hstack]; exact (hint q).2

/-! ## histories on one addon instance -/

private theorem hrun_state {Pat : Type} (E : Env Pat) (a : Addon Pat) (pre : List (HStep Pat)) :
    (hrun E a pre).1 = optionsAfter a pre := by
  induction pre generalizing a with
  | nil => rfl
  | cons st rest ih => cases st <;> simp [hrun, hstep, optionsAfter, ih]

private theorem hrun_append {Pat : Type} (E : Env Pat) (a : Addon Pat) (pre post : List (HStep Pat)) :
    (hrun E a (pre ++ post)).2 = (hrun E a pre).2 ++ (hrun E (optionsAfter a pre) post).2 := by
  induction pre generalizing a with
  | nil => rfl
  | cons st rest ih => cases st <;> simp [hrun, hstep, optionsAfter, ih]

/-- **verdict_uses_options_in_force** — on ONE addon instance, after ANY history of option updates (ignore_hosts and/or
    allow_hosts set, changed, unset, in any order) and earlier connections (to the same or to other destinations), the
    decision for a connection is the decision under the options in force at that moment: nothing else is carried over. -/
theorem verdict_uses_options_in_force {Pat : Type} (E : Env Pat) (a : Addon Pat) (pre : List (HStep Pat))
    (c : NCfg Pat) (dc ds : Bytes) :
    (hrun E a (pre ++ [.conn c dc ds])).2 = (hrun E a pre).2 ++
      [(ignoreConnection E ((optionsAfter a pre).cfg c).toCfg dc ds, nextLayer E ((optionsAfter a pre).cfg c) dc ds)] := by
  rw [hrun_append]
  simp [hrun, hstep]

/-- hence two histories that end with the same options give the same decision for the same connection -/
theorem verdict_history_independent {Pat : Type} (E : Env Pat) (a b : Addon Pat) (h1 h2 : List (HStep Pat))
    (c : NCfg Pat) (dc ds : Bytes)
    (hi : (optionsAfter a h1).ignorePats = (optionsAfter b h2).ignorePats)
    (ha : (optionsAfter a h1).allowPats = (optionsAfter b h2).allowPats) :
    (hrun E a (h1 ++ [.conn c dc ds])).2.getLast? = (hrun E b (h2 ++ [.conn c dc ds])).2.getLast? := by
  rw [verdict_uses_options_in_force, verdict_uses_options_in_force]
  simp [Addon.cfg, hi, ha]

/-! ## ClientTLSLayer, `tls_clienthello` answering `ignore_connection` -/

private theorem tls_inv (dtls : Bool) (segs : List Bytes) (s : TlsSess) (fed : Bytes)
    (hI : s.failed = false → (s.parsed = true → s.toServer.flatten = fed) ∧
                              (s.parsed = false → s.buf = fed ∧ s.toServer = [])) :
    let t := segs.foldl (tlsStep dtls) s
    t.failed = false → (t.parsed = true → t.toServer.flatten = fed ++ segs.flatten) ∧
                       (t.parsed = false → t.buf = fed ++ segs.flatten ∧ t.toServer = []) := by
  induction segs generalizing s fed with
  | nil => simpa using hI
  | cons d ds ih =>
    simp only [List.foldl_cons, List.flatten_cons]
    rw [← List.append_assoc]
    apply ih
    unfold tlsStep
    cases hf : s.failed with
    | true => simp [hf]
    | false =>
      obtain ⟨h1, h2⟩ := hI hf
      cases hp : s.parsed with
      | true => simp [hf, hp, h1 hp]
      | false =>
        obtain ⟨hb, ht⟩ := h2 hp
        simp only [hp, Bool.false_eq_true, if_false]
        cases C13.parse dtls (s.buf ++ d) <;> simp [hf, hp, hb, ht]

/-- **tls_ignore_passthrough** — ClientTLSLayer whose `tls_clienthello` hook sets `ignore_connection`: for EVERY
    segmentation, once the ClientHello is complete everything received so far — the buffered handshake bytes first — has
    been handed to the relay in order; until then everything is still in `recv_buffer`. -/
theorem tls_ignore_passthrough (dtls : Bool) (segs : List Bytes) :
    let t := segs.foldl (tlsStep dtls) TlsSess.init
    t.failed = false → (t.parsed = true → t.toServer.flatten = segs.flatten) ∧
                       (t.parsed = false → t.buf = segs.flatten ∧ t.toServer = []) := by
  have := tls_inv dtls segs TlsSess.init [] (by simp [TlsSess.init])
  simpa using this

/-! ## non-vacuity: concrete instances of the hypotheses (all by evaluation) -/

private def cxN (showI : Bool) : NCfg Bytes :=
  { cxCfg with top := .other, showIgnored := showI, rawtcp := true, tcpHosts := [], udpHosts := [],
               alpnSet := false, alpnHttp := false, quicV1 := false }
/-- `GET / HTTP/1.1 CRLF Host:` -/
private def exSeg1 : Bytes := [0x47, 0x45, 0x54, 0x20, 0x2f, 0x20, 0x48, 0x54, 0x54, 0x50, 0x2f, 0x31, 0x2e, 0x31, 0x0d, 0x0a, 0x48, 0x6f, 0x73, 0x74, 0x3a]
/-- `a CRLF CRLF` -/
private def exSeg2 : Bytes := [0x61, 0x0d, 0x0a, 0x0d, 0x0a]

/-- a guarded segmentation: first segment needs more data, the second decides "ignore" = verdict of the whole flight -/
example : decidingPrefix (fun d => ignoreConnection cxEnv cxCfg d []) [] [exSeg1, exSeg2] = some (exSeg1 ++ exSeg2)
    ∧ reqLinePending (exSeg1 ++ exSeg2) = false
    ∧ askSegs (fun d => ignoreConnection cxEnv cxCfg d []) [] [exSeg1, exSeg2] = .ok true := by decide
/-- the verdict is not constant: the same flight to the same address without the Host header is not excluded -/
example : ignoreConnection cxEnv cxCfg exSeg1 [] = .needMore ∧ ignoreConnection cxEnv cxCfg cxSeg1 [] = .ok false := by decide
/-- a history that reaches the relay: two buffered segments, connect after the decision, data both ways, half-close -/
example :
    let s := run cxEnv (cxN false) (Sess.init true false)
      [.dataC exSeg1, .dataC exSeg2, .connOk, .dataS [0x68, 0x69], .closeC, .dataS [0x21]]
    s.phase = .relay ∧ s.stack = [LK.tcp true] ∧ sentTo true s.out = exSeg1 ++ exSeg2
      ∧ sentTo false s.out = [0x68, 0x69, 0x21] ∧ hooks s.out = [] := by decide
/-- with show_ignored_hosts the same history runs the tcp hooks -/
example :
    hooks (run cxEnv (cxN true) (Sess.init true true) [.dataC exSeg1, .dataC exSeg2]).out = [0, 1, 1] := by decide
/-- not excluded: the same flight with another Host value is handed to the HTTP layer -/
example : nextLayer cxEnv (cxN false) (exSeg1 ++ [0x62, 0x0d, 0x0a, 0x0d, 0x0a]) [] = .ok [LK.http .transparent] := by decide
/-- the TLS branch keeps waiting on an incomplete record and fails on garbage -/
example : (([[0x16, 0x03], [0x01]] : List Bytes).foldl (tlsStep false) TlsSess.init).buf = [0x16, 0x03, 0x01]
    ∧ (([[0x47, 0x45, 0x54, 0x20, 0x2f]] : List Bytes).foldl (tlsStep false) TlsSess.init).failed = true := by decide

/-- an admissible history through both EOFs: data before the verdict, connect afterwards, client EOF, server data after
    the half-close, server EOF — everything delivered, relay finished -/
example :
    let evs : List Ev := [.dataC exSeg1, .dataC exSeg2, .connOk, .dataS [0x68, 0x69], .closeC, .dataS [0x21], .closeS]
    AdmRun cxEnv (cxN false) (Sess.init true false) evs ∧
    (run cxEnv (cxN false) (Sess.init true false) evs).phase = .done ∧
    sentTo false (run cxEnv (cxN false) (Sess.init true false) evs).out = [0x68, 0x69, 0x21] := by
  refine ⟨?_, by decide, by decide⟩
  simp only [AdmRun, Adm]
  decide

/-! ## audit round 6: further non-vacuity witnesses (hypotheses of the theorems instantiated on concrete values) -/

private def auAllow : Cfg Bytes := { cxCfg with ignorePats := [], allowPats := [[0x62]] }
/-- `allow_semantics`: candidates exist, allow_hosts = `b`, no candidate matches → passed through; with Host `b` it is not -/
example : candidates cxEnv auAllow (exSeg1 ++ exSeg2) [] = .ok [[0x31, 0x3a, 0x38, 0x30], [0x61, 0x3a, 0x38, 0x30]]
    ∧ ignoreConnection cxEnv auAllow (exSeg1 ++ exSeg2) [] = .ok true
    ∧ ignoreConnection cxEnv auAllow (exSeg1 ++ [0x62, 0x0d, 0x0a, 0x0d, 0x0a]) [] = .ok false := by decide
example := allow_semantics cxEnv auAllow (exSeg1 ++ exSeg2) [] [[0x31, 0x3a, 0x38, 0x30], [0x61, 0x3a, 0x38, 0x30]] (by decide)
  (by decide) (by decide) rfl rfl
/-- `candidates_cover_destinations` / `ignore_semantics` / `verdict_rule` on the same flight: address and Host header are candidates -/
example := candidates_cover_destinations cxEnv cxCfg (exSeg1 ++ exSeg2) [] _ [0x31] 80 rfl
  (by decide : candidates cxEnv cxCfg (exSeg1 ++ exSeg2) [] = .ok [[0x31, 0x3a, 0x38, 0x30], [0x61, 0x3a, 0x38, 0x30]])
example : hostHeader cxCfg.tcp (exSeg1 ++ exSeg2) [] = .ok (some [0x61]) := by decide
/-- `decision_seg_independent_total`: its guard holds for the two-segment flight -/
example := decision_seg_independent_total cxEnv cxCfg [] [exSeg1, exSeg2] rfl (by simp)
  (by intro p hp
      have : decidingPrefix (fun d => ignoreConnection cxEnv cxCfg d []) [] [exSeg1, exSeg2] = some (exSeg1 ++ exSeg2) := by decide
      rw [this] at hp; cases hp; decide)
/-- `ignored_flight_any_segmentation` and `not_excluded_flight_any_segmentation` instantiated (all hypotheses by evaluation) -/
example := ignored_flight_any_segmentation cxEnv (cxN false) false [exSeg1, exSeg2] (exSeg1 ++ exSeg2) rfl
  (by decide) (by decide) (by decide) (by decide)
private def exSeg2b : Bytes := [0x62, 0x0d, 0x0a, 0x0d, 0x0a]
example := not_excluded_flight_any_segmentation cxEnv (cxN false) true [exSeg1, exSeg2b] (exSeg1 ++ exSeg2b) rfl
  (by decide) (by decide) (by decide) (by decide)
/-- `passthrough_only_if_excluded` / `not_excluded_is_intercepted`: both verdicts occur with a stack -/
example : nextLayer cxEnv (cxN false) (exSeg1 ++ exSeg2) [] = .ok [LK.tcp true]
    ∧ ignoreConnection cxEnv (cxN false).toCfg (exSeg1 ++ exSeg2b) [] = .ok false := by decide
/-- `dtls_decision_prefix_stable` / `dtls_decision_seg_independent`: a DTLS-looking record (here recognisably invalid: size 0)
    gets a verdict on UDP, spread over two datagrams, and a later datagram does not change it -/
private def auUdp : Cfg Bytes := { udpCfg with ignorePats := [[0x31]] }
private def auRec : Bytes := [0x16, 0xfe, 0xfd, 0, 0, 0, 0, 0, 0, 0, 0, 0, 0]
example : C13.startsLike true auRec = true ∧ ignoreConnection cxEnv auUdp auRec [] = .ok true
    ∧ ignoreConnection cxEnv auUdp (auRec.take 5) [] = .needMore
    ∧ decidingPrefix (fun d => ignoreConnection cxEnv auUdp d []) [] [auRec.take 5, auRec.drop 5, [1, 2]] = some auRec := by decide
example := dtls_decision_seg_independent cxEnv auUdp [] [auRec.take 5, auRec.drop 5, [1, 2]] auRec rfl (by decide) (by decide)
/-- `verdict_history_independent`: two different option histories ending in the same options -/
example := verdict_history_independent cxEnv (⟨[], []⟩ : Addon Bytes) ⟨[[0x7a]], []⟩
  [.setOpts (some [[0x61]]) none] [.setOpts none (some [[0x62]]), .setOpts (some [[0x61]]) (some [])]
  (cxN false) (exSeg1 ++ exSeg2) [] (by decide) (by decide)

end MitmVerif.Props.C19
