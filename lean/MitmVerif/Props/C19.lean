import MitmVerif.Model.C19
namespace MitmVerif.Props.C19
open MitmVerif MitmVerif.C19

theorem placeholder : scan [] = .needMore := rfl

end MitmVerif.Props.C19
