/-
  C20 — property theorems (all over ALL histories: any number of client connections, any interleaving of events).

  * `unauthenticated_never_forwarded` : with a validator configured, whenever an event of connection `cid` causes
      upstream traffic (request forwarded, CONNECT tunnel, SOCKS5 connect) that connection has — at that event or
      earlier — presented credentials the validator accepts, on its own path.
  * `auth_required_answer`            : a connection that has presented no accepted credentials gets 407 (regular /
      upstream), 401 (reverse / transparent), SOCKS `05 FF`+close (method not offered) or `01 01`+close (bad pair),
      and never reaches a tunnel / relay phase.
  * `validator_accepts_implies_path_accepts` : a pair the validator accepts, presented as `Basic <token>` whose
      decoding is `user:password` (the password may contain ':'), is accepted on every HTTP path and on SOCKS5.
  * `credential_header_removed`       : the request on which authentication happens is forwarded without any field
      of the credential header's name, and otherwise unchanged; no hook ever adds or alters a field.
-/
import MitmVerif.Model.C20
namespace MitmVerif.Props.C20
open MitmVerif MitmVerif.C20

/-! ### one step, summarised -/

private theorem step_summary (L : Lib) (v : Validator) (m : Mode) (σ : State) (cid : Nat) (e : Ev) :
    let r := step L (some v) m σ cid e
    (r.1.authd = σ.authd ∨ (r.1.authd = cid :: σ.authd ∧ presentsAccepted L v m e = true)) ∧
    (∀ c, c ≠ cid → r.1.phase c = σ.phase c) ∧
    ((r.1.phase cid = .http true ∨ r.1.phase cid = .sConnect) →
        (σ.phase cid = .http true ∨ σ.phase cid = .sConnect) ∨ presentsAccepted L v m e = true) ∧
    (r.2.forwards = true →
        cid ∈ σ.authd ∨ presentsAccepted L v m e = true ∨ σ.phase cid = .sConnect) := by
  intro r
  have hr : r = step L (some v) m σ cid e := rfl
  cases hp : σ.phase cid with
  | closed =>
    have : r = (σ, .ignored) := by rw [hr]; unfold step; simp [hp]
    simp [this, Out.forwards, hp]
  | http t =>
    cases e with
    | req connect big hs =>
      cases connect with
      | true =>
        by_cases hpl : (m.isHttpProxy && !t) = true
        · by_cases hc : credsOk L v m hs = true
          · have : r = (({ σ with authd := cid :: σ.authd } : State).setPhase cid (.http true), .tunnel) := by
              rw [hr]; unfold step; simp [hp, hpl, httpConnectHook, authenticateHttp, hc]
            simp [this, State.setPhase, presentsAccepted, hc]
            intro c hne; simp [hne]
          · have : r = (σ, .deny (authCode m)) := by
              rw [hr]; unfold step; simp [hp, hpl, httpConnectHook, authenticateHttp, hc]
            simp [this, Out.forwards, hp]
            cases t <;> simp_all
        · have : r = (σ.setPhase cid .closed, .invalid) := by
            rw [hr]; unfold step; simp [hp, hpl]
          simp [this, State.setPhase, Out.forwards]
          intro c hne; simp [hne]
      | false =>
        cases big with
        | true =>
          have : r = (σ.setPhase cid .closed, .tooLarge) := by rw [hr]; unfold step; simp [hp]
          simp [this, State.setPhase, Out.forwards]; intro c hne; simp [hne]
        | false =>
          by_cases ha : cid ∈ σ.authd
          · have : r = (σ, .fwd hs) := by
              rw [hr]; unfold step; simp [hp, requestheadersHook, ha]
            simp [this, ha, hp]
            intro h; cases t <;> simp_all
          · by_cases hc : credsOk L v m hs = true
            · have : r = (σ, .fwd (hdrDel hs (authName m))) := by
                rw [hr]; unfold step; simp [hp, requestheadersHook, ha, authenticateHttp, hc]
              simp [this, presentsAccepted, hc]
            · have : r = (σ, .deny (authCode m)) := by
                rw [hr]; unfold step; simp [hp, requestheadersHook, ha, authenticateHttp, hc]
              simp [this, Out.forwards, hp]
              intro h; cases t <;> simp_all
    | sGreet ms =>
      have : r = (σ.setPhase cid .closed, .unmodelled) := by rw [hr]; unfold step; simp [hp]
      simp [this, State.setPhase, Out.forwards]; intro c hne; simp [hne]
    | sAuth u p =>
      have : r = (σ.setPhase cid .closed, .unmodelled) := by rw [hr]; unfold step; simp [hp]
      simp [this, State.setPhase, Out.forwards]; intro c hne; simp [hne]
    | sConnect =>
      have : r = (σ.setPhase cid .closed, .unmodelled) := by rw [hr]; unfold step; simp [hp]
      simp [this, State.setPhase, Out.forwards]; intro c hne; simp [hne]
  | sGreet =>
    cases e with
    | sGreet ms =>
      by_cases hm : (2 : UInt8) ∈ ms
      · have : r = (σ.setPhase cid .sAuth, .sMethod 2) := by rw [hr]; unfold step; simp [hp, hm]
        simp [this, State.setPhase, Out.forwards]; intro c hne; simp [hne]
      · have : r = (σ.setPhase cid .closed, .sNoMethod) := by rw [hr]; unfold step; simp [hp, hm]
        simp [this, State.setPhase, Out.forwards]; intro c hne; simp [hne]
    | req connect big hs =>
      have : r = (σ.setPhase cid .closed, .unmodelled) := by rw [hr]; unfold step; simp [hp]
      simp [this, State.setPhase, Out.forwards]; intro c hne; simp [hne]
    | sAuth u p =>
      have : r = (σ.setPhase cid .closed, .unmodelled) := by rw [hr]; unfold step; simp [hp]
      simp [this, State.setPhase, Out.forwards]; intro c hne; simp [hne]
    | sConnect =>
      have : r = (σ.setPhase cid .closed, .unmodelled) := by rw [hr]; unfold step; simp [hp]
      simp [this, State.setPhase, Out.forwards]; intro c hne; simp [hne]
  | sAuth =>
    cases e with
    | sAuth u p =>
      by_cases hc : v.accepts L (L.sockDecode u) (L.sockDecode p) = true
      · have : r = (({ σ with authd := cid :: σ.authd } : State).setPhase cid .sConnect, .sAuthOk) := by
          rw [hr]; unfold step; simp [hp, socks5AuthHook, hc]
        simp [this, State.setPhase, Out.forwards, presentsAccepted, hc]; intro c hne; simp [hne]
      · have : r = (σ.setPhase cid .closed, .sAuthFail) := by
          rw [hr]; unfold step; simp [hp, socks5AuthHook, hc]
        simp [this, State.setPhase, Out.forwards]; intro c hne; simp [hne]
    | req connect big hs =>
      have : r = (σ.setPhase cid .closed, .unmodelled) := by rw [hr]; unfold step; simp [hp]
      simp [this, State.setPhase, Out.forwards]; intro c hne; simp [hne]
    | sGreet ms =>
      have : r = (σ.setPhase cid .closed, .unmodelled) := by rw [hr]; unfold step; simp [hp]
      simp [this, State.setPhase, Out.forwards]; intro c hne; simp [hne]
    | sConnect =>
      have : r = (σ.setPhase cid .closed, .unmodelled) := by rw [hr]; unfold step; simp [hp]
      simp [this, State.setPhase, Out.forwards]; intro c hne; simp [hne]
  | sConnect =>
    cases e with
    | sConnect =>
      have : r = (σ.setPhase cid (.http true), .sConnected) := by rw [hr]; unfold step; simp [hp]
      simp [this, State.setPhase]; intro c hne; simp [hne]
    | req connect big hs =>
      have : r = (σ.setPhase cid .closed, .unmodelled) := by rw [hr]; unfold step; simp [hp]
      simp [this, State.setPhase, Out.forwards]; intro c hne; simp [hne]
    | sGreet ms =>
      have : r = (σ.setPhase cid .closed, .unmodelled) := by rw [hr]; unfold step; simp [hp]
      simp [this, State.setPhase, Out.forwards]; intro c hne; simp [hne]
    | sAuth u p =>
      have : r = (σ.setPhase cid .closed, .unmodelled) := by rw [hr]; unfold step; simp [hp]
      simp [this, State.setPhase, Out.forwards]; intro c hne; simp [hne]

/-- the authentication invariant: being in `authenticated`, or in a tunnel / SOCKS relay phase, implies `P`
    ("this connection has presented accepted credentials") -/
private def Inv (P : Nat → Prop) (σ : State) : Prop :=
  (∀ c, c ∈ σ.authd → P c) ∧
  (∀ c, (σ.phase c = .http true ∨ σ.phase c = .sConnect) → P c)

private theorem inv_init (modes : Nat → Mode) (P : Nat → Prop) : Inv P (State.init modes) := by
  constructor
  · intro c h; simp [State.init] at h
  · intro c h
    simp only [State.init, initPhase] at h
    split at h <;> simp at h

private theorem step_inv (L : Lib) (v : Validator) (m : Mode) (σ : State) (cid : Nat) (e : Ev)
    (P : Nat → Prop) (h : Inv P σ) :
    Inv (fun c => P c ∨ (c = cid ∧ presentsAccepted L v m e = true)) (step L (some v) m σ cid e).1 := by
  obtain ⟨ha, hphase, htun, _⟩ := step_summary L v m σ cid e
  constructor
  · intro c hc
    rcases ha with ha | ⟨ha, hacc⟩
    · rw [ha] at hc; exact Or.inl (h.1 c hc)
    · rw [ha] at hc
      simp only [List.mem_cons] at hc
      rcases hc with hc | hc
      · exact Or.inr ⟨hc, hacc⟩
      · exact Or.inl (h.1 c hc)
  · intro c hc
    by_cases hne : c = cid
    · subst hne
      rcases htun hc with h' | h'
      · exact Or.inl (h.2 c h')
      · exact Or.inr ⟨rfl, h'⟩
    · rw [hphase c hne] at hc; exact Or.inl (h.2 c hc)

private theorem step_forwards (L : Lib) (v : Validator) (m : Mode) (σ : State) (cid : Nat) (e : Ev)
    (P : Nat → Prop) (h : Inv P σ) (hf : (step L (some v) m σ cid e).2.forwards = true) :
    P cid ∨ presentsAccepted L v m e = true := by
  obtain ⟨_, _, _, hfw⟩ := step_summary L v m σ cid e
  rcases hfw hf with h' | h' | h'
  · exact Or.inl (h.1 cid h')
  · exact Or.inr h'
  · exact Or.inl (h.2 cid (Or.inr h'))

private theorem never_forwarded_gen (L : Lib) (v : Validator) (modes : Nat → Mode) (cid : Nat) (e : Ev) (o : Out) :
    ∀ (es : List (Nat × Ev)) (σ : State) (P : Nat → Prop) (i : Nat), Inv P σ →
      es[i]? = some (cid, e) → (run L (some v) modes σ es)[i]? = some o → o.forwards = true →
      P cid ∨ ∃ j e', j ≤ i ∧ es[j]? = some (cid, e') ∧ presentsAccepted L v (modes cid) e' = true := by
  intro es
  induction es with
  | nil => intro σ P i _ he; simp at he
  | cons x rest ih =>
    intro σ P i hinv he ho hf
    obtain ⟨c0, e0⟩ := x
    cases i with
    | zero =>
      simp only [List.getElem?_cons_zero, Option.some.injEq, Prod.mk.injEq] at he
      obtain ⟨rfl, rfl⟩ := he
      simp only [run, List.getElem?_cons_zero, Option.some.injEq] at ho
      subst ho
      rcases step_forwards L v (modes c0) σ c0 e0 P hinv hf with h | h
      · exact Or.inl h
      · exact Or.inr ⟨0, e0, Nat.le_refl _, by simp, h⟩
    | succ i =>
      simp only [List.getElem?_cons_succ] at he
      simp only [run, List.getElem?_cons_succ] at ho
      have hinv' := step_inv L v (modes c0) σ c0 e0 P hinv
      rcases ih _ _ i hinv' he ho hf with h | ⟨j, e', hj, hej, hacc⟩
      · rcases h with h | ⟨hc, hacc⟩
        · exact Or.inl h
        · subst hc
          exact Or.inr ⟨0, e0, Nat.zero_le _, by simp, hacc⟩
      · exact Or.inr ⟨j + 1, e', Nat.succ_le_succ hj, by simpa using hej, hacc⟩

/-- **C20 (no unauthenticated request is forwarded).**  With `proxyauth` configured, over every history on any
    number of connections (regular / upstream / reverse / transparent / SOCKS5, in any interleaving): if the `i`-th
    event — arriving on connection `cid` — makes the proxy forward a request, establish a CONNECT tunnel or connect a
    SOCKS5 destination, then `cid` itself has presented, at that event or before, credentials the validator accepts. -/
theorem unauthenticated_never_forwarded (L : Lib) (v : Validator) (modes : Nat → Mode)
    (es : List (Nat × Ev)) (i cid : Nat) (e : Ev) (o : Out)
    (he : es[i]? = some (cid, e))
    (ho : (run L (some v) modes (State.init modes) es)[i]? = some o)
    (hf : o.forwards = true) :
    ∃ j e', j ≤ i ∧ es[j]? = some (cid, e') ∧ presentsAccepted L v (modes cid) e' = true := by
  rcases never_forwarded_gen L v modes cid e o es (State.init modes) (fun _ => False) i
      (inv_init modes _) he ho hf with h | h
  · exact h.elim
  · exact h

/-! ### the answer an unauthenticated client gets -/

/-- reachable states: connection `cid` is authenticated / tunnelled / relayed only if it presented accepted
    credentials somewhere in the history `pre` -/
private theorem reach_inv (L : Lib) (v : Validator) (modes : Nat → Mode) :
    ∀ (pre : List (Nat × Ev)) (σ : State) (P : Nat → Prop), Inv P σ →
      Inv (fun c => P c ∨ ∃ e', (c, e') ∈ pre ∧ presentsAccepted L v (modes c) e' = true)
        (finalState L (some v) modes σ pre) := by
  intro pre
  induction pre with
  | nil => intro σ P h; simpa [finalState, Inv] using h
  | cons x rest ih =>
    intro σ P h
    obtain ⟨c0, e0⟩ := x
    have h1 := step_inv L v (modes c0) σ c0 e0 P h
    have h2 := ih _ _ h1
    simp only [finalState]
    constructor
    · intro c hc
      rcases h2.1 c hc with (hp | ⟨rfl, hacc⟩) | ⟨e', hmem, hacc⟩
      · exact Or.inl hp
      · exact Or.inr ⟨e0, by simp, hacc⟩
      · exact Or.inr ⟨e', by simp [hmem], hacc⟩
    · intro c hc
      rcases h2.2 c hc with (hp | ⟨rfl, hacc⟩) | ⟨e', hmem, hacc⟩
      · exact Or.inl hp
      · exact Or.inr ⟨e0, by simp, hacc⟩
      · exact Or.inr ⟨e', by simp [hmem], hacc⟩

/-- what "an authentication-required answer instead" means, by phase and event -/
def AuthRequiredAnswer (m : Mode) (phase : Phase) (e : Ev) (phase' : Phase) (o : Out) : Prop :=
  match phase, e with
  | .http false, .req connect big _ =>
      if !connect && big then o = .tooLarge ∧ phase' = .closed                -- 413 + close before any authentication
      else if connect && !m.isHttpProxy then o = .invalid ∧ phase' = .closed      -- CONNECT where none is allowed: 400 + close
      else o = .deny (if m.isHttpProxy then 407 else 401) ∧ phase' = .http false
  | .sGreet, .sGreet ms =>
      if ms.contains 2 then o = .sMethod 2 ∧ phase' = .sAuth                 -- "use user/password"
      else o = .sNoMethod ∧ phase' = .closed                                  -- 05 FF + close
  | .sAuth, .sAuth _ _ => o = .sAuthFail ∧ phase' = .closed                  -- 01 01 + close
  | .http true, _ => False                                                    -- unreachable without credentials
  | .sConnect, _ => False
  | _, _ => o.forwards = false ∧ phase' = .closed                             -- closed already / malformed handshake

/-- **C20 (authentication-required answer).**  A connection that has presented no accepted credentials — neither
    earlier (`pre`) nor with the current event — is never in a tunnel / relay phase, and its event is answered by
    407 (regular, upstream) / 401 (reverse, transparent) with the connection left usable for a retry, by SOCKS5
    `05 02` (asking for user/password) or `05 FF` + close, or by `01 01` + close; the `authenticated` map is unchanged. -/
theorem auth_required_answer (L : Lib) (v : Validator) (modes : Nat → Mode)
    (pre : List (Nat × Ev)) (cid : Nat) (e : Ev)
    (hnone : ∀ e', (cid, e') ∈ pre ++ [(cid, e)] → presentsAccepted L v (modes cid) e' = false) :
    let σ := finalState L (some v) modes (State.init modes) pre
    let r := step L (some v) (modes cid) σ cid e
    AuthRequiredAnswer (modes cid) (σ.phase cid) e (r.1.phase cid) r.2 ∧ r.1.authd = σ.authd := by
  intro σ r
  have hinv := reach_inv L v modes pre (State.init modes) (fun _ => False) (inv_init modes _)
  have hnot : ∀ P : Prop, (False ∨ ∃ e', (cid, e') ∈ pre ∧ presentsAccepted L v (modes cid) e' = true) → P := by
    intro P h
    rcases h with h | ⟨e', hmem, hacc⟩
    · exact h.elim
    · have := hnone e' (by simp [hmem]); rw [this] at hacc; cases hacc
  have hnauth : cid ∉ σ.authd := fun hc => hnot _ (hinv.1 cid hc)
  have hacc_e : presentsAccepted L v (modes cid) e = false := hnone e (by simp)
  have hr : r = step L (some v) (modes cid) σ cid e := rfl
  cases hp : σ.phase cid with
  | closed =>
    have : r = (σ, .ignored) := by rw [hr]; unfold step; simp [hp]
    simp [this, AuthRequiredAnswer, Out.forwards, hp]
  | http t =>
    cases t with
    | true => exact hnot _ (hinv.2 cid (Or.inl hp))
    | false =>
      cases e with
      | req connect big hs =>
        have hc : credsOk L v (modes cid) hs = false := by simpa [presentsAccepted] using hacc_e
        cases connect with
        | true =>
          by_cases hpl : (modes cid).isHttpProxy = true
          · have : r = (σ, .deny (authCode (modes cid))) := by
              rw [hr]; unfold step; simp [hp, hpl, httpConnectHook, authenticateHttp, hc]
            simp [this, AuthRequiredAnswer, hpl, authCode, hp]
          · have : r = (σ.setPhase cid .closed, .invalid) := by
              rw [hr]; unfold step; simp [hp, hpl]
            simp [this, AuthRequiredAnswer, hpl, State.setPhase]
        | false =>
          cases big with
          | true =>
            have : r = (σ.setPhase cid .closed, .tooLarge) := by rw [hr]; unfold step; simp [hp]
            simp [this, AuthRequiredAnswer, State.setPhase]
          | false =>
            have : r = (σ, .deny (authCode (modes cid))) := by
              rw [hr]; unfold step; simp [hp, requestheadersHook, hnauth, authenticateHttp, hc]
            simp [this, AuthRequiredAnswer, authCode, hp]
      | sGreet ms =>
        have : r = (σ.setPhase cid .closed, .unmodelled) := by rw [hr]; unfold step; simp [hp]
        simp [this, AuthRequiredAnswer, State.setPhase, Out.forwards]
      | sAuth u p =>
        have : r = (σ.setPhase cid .closed, .unmodelled) := by rw [hr]; unfold step; simp [hp]
        simp [this, AuthRequiredAnswer, State.setPhase, Out.forwards]
      | sConnect =>
        have : r = (σ.setPhase cid .closed, .unmodelled) := by rw [hr]; unfold step; simp [hp]
        simp [this, AuthRequiredAnswer, State.setPhase, Out.forwards]
  | sGreet =>
    cases e with
    | sGreet ms =>
      by_cases hm : (2 : UInt8) ∈ ms
      · have : r = (σ.setPhase cid .sAuth, .sMethod 2) := by rw [hr]; unfold step; simp [hp, hm]
        simp [this, AuthRequiredAnswer, State.setPhase, hm]
      · have : r = (σ.setPhase cid .closed, .sNoMethod) := by rw [hr]; unfold step; simp [hp, hm]
        simp [this, AuthRequiredAnswer, State.setPhase, hm]
    | req connect big hs =>
      have : r = (σ.setPhase cid .closed, .unmodelled) := by rw [hr]; unfold step; simp [hp]
      simp [this, AuthRequiredAnswer, State.setPhase, Out.forwards]
    | sAuth u p =>
      have : r = (σ.setPhase cid .closed, .unmodelled) := by rw [hr]; unfold step; simp [hp]
      simp [this, AuthRequiredAnswer, State.setPhase, Out.forwards]
    | sConnect =>
      have : r = (σ.setPhase cid .closed, .unmodelled) := by rw [hr]; unfold step; simp [hp]
      simp [this, AuthRequiredAnswer, State.setPhase, Out.forwards]
  | sAuth =>
    cases e with
    | sAuth u p =>
      have hc : v.accepts L (L.sockDecode u) (L.sockDecode p) = false := by simpa [presentsAccepted] using hacc_e
      have : r = (σ.setPhase cid .closed, .sAuthFail) := by
        rw [hr]; unfold step; simp [hp, socks5AuthHook, hc]
      simp [this, AuthRequiredAnswer, State.setPhase]
    | req connect big hs =>
      have : r = (σ.setPhase cid .closed, .unmodelled) := by rw [hr]; unfold step; simp [hp]
      simp [this, AuthRequiredAnswer, State.setPhase, Out.forwards]
    | sGreet ms =>
      have : r = (σ.setPhase cid .closed, .unmodelled) := by rw [hr]; unfold step; simp [hp]
      simp [this, AuthRequiredAnswer, State.setPhase, Out.forwards]
    | sConnect =>
      have : r = (σ.setPhase cid .closed, .unmodelled) := by rw [hr]; unfold step; simp [hp]
      simp [this, AuthRequiredAnswer, State.setPhase, Out.forwards]
  | sConnect => exact hnot _ (hinv.2 cid (Or.inr hp))

/-! ### accepted pairs are accepted on every path -/

private theorem splitWsAux_word (sp : Nat → Bool) (w : Text) (hw : ∀ c ∈ w, sp c = false) :
    ∀ (rest cur : Text), splitWsAux sp (w ++ rest) cur = splitWsAux sp rest (w.reverse ++ cur) := by
  induction w with
  | nil => intro rest cur; simp
  | cons c cs ih =>
    intro rest cur
    have hc : sp c = false := hw c (by simp)
    have hcs : ∀ x ∈ cs, sp x = false := fun x hx => hw x (by simp [hx])
    simp only [List.cons_append, splitWsAux, hc, Bool.false_eq_true, if_false]
    rw [ih hcs]
    simp

private theorem splitWs_two (sp : Nat → Bool) (a b : Text) (ha : ∀ c ∈ a, sp c = false)
    (hb : ∀ c ∈ b, sp c = false) (hane : a ≠ []) (hbne : b ≠ []) (hsp : sp 32 = true) :
    splitWs sp (a ++ 32 :: b) = [a, b] := by
  unfold splitWs
  rw [splitWsAux_word sp a ha]
  have h1 : (a.reverse ++ ([] : Text)).isEmpty = false := by
    cases a with
    | nil => exact absurd rfl hane
    | cons x xs => simp
  simp only [splitWsAux, hsp, if_true, h1, Bool.false_eq_true, if_false]
  have := splitWsAux_word sp b hb [] []
  simp only [List.append_nil] at this
  rw [this]
  have h2 : b.reverse.isEmpty = false := by
    cases b with
    | nil => exact absurd rfl hbne
    | cons x xs => simp
  simp [splitWsAux, h2]

private theorem splitColon1_first (u p : Text) (hu : ∀ c ∈ u, c ≠ 58) :
    splitColon1 (u ++ 58 :: p) = some (u, p) := by
  induction u with
  | nil => simp [splitColon1]
  | cons c cs ih =>
    have hc : c ≠ 58 := hu c (by simp)
    have hcs : ∀ x ∈ cs, x ≠ 58 := fun x hx => hu x (by simp [hx])
    simp [splitColon1, hc, ih hcs]

/-- a well-formed Basic credential for the pair `(u, p)`: `<scheme> SP <token>` where the scheme lower-cases to
    "basic", the token is a non-empty run without whitespace or lone surrogates, and the library decodes the token to
    `u ++ ":" ++ p` (the law a standard base64 encoding of the UTF-8 text `u:p` satisfies) -/
def WellFormedCred (L : Lib) (value u p : Text) : Prop :=
  ∃ scheme token : Text,
    value = scheme ++ 32 :: token ∧
    L.isSpace 32 = true ∧
    scheme.map L.lower = basicWord ∧
    (∀ c ∈ scheme, L.isSpace c = false) ∧
    (∀ c ∈ token, L.isSpace c = false) ∧
    token ≠ [] ∧
    token.any isSurrogate = false ∧
    L.decodeCred token = some (u ++ 58 :: p) ∧
    (∀ c ∈ u, c ≠ 58)

private theorem parse_wellformed (L : Lib) (value u p : Text) (h : WellFormedCred L value u p) :
    parseBasic L value = some (u, p) := by
  obtain ⟨scheme, token, shape, space, sok, snows, tnows, tne, tenc, dec, unc⟩ := h
  have sne : scheme ≠ [] := by
    intro h0; subst h0; simp [basicWord] at sok
  subst shape
  unfold parseBasic parseBasicWith
  rw [splitWs_two L.isSpace scheme token snows tnows sne tne space]
  simp [sok, tenc, dec, splitColon1_first u p unc]

/-- **C20 (every accepted pair is accepted on each path, including passwords containing ':').**
    If the validator accepts `(u, p)` — `p` arbitrary, in particular with colons — then
    (1) a request whose credential header (by the path's name: `Proxy-Authorization` in regular/upstream mode,
        `Authorization` in reverse/transparent mode) is a well-formed Basic credential for `(u, p)` is forwarded on
        a plain request and establishes the tunnel on a CONNECT (regular/upstream), from any state of any live
        connection, and the connection is remembered as authenticated after a CONNECT;
    (2) a SOCKS5 user/password message decoding to `(u, p)` is answered `01 00` and the handshake continues. -/
theorem validator_accepts_implies_path_accepts (L : Lib) (v : Validator) (m : Mode) (σ : State) (cid : Nat)
    (u p : Text) (hacc : v.accepts L u p = true) :
    (∀ hs t big, WellFormedCred L (hdrGet hs (authName m)) u p → σ.phase cid = .http t →
        (∃ hs', (step L (some v) m σ cid (.req false false hs)).2 = .fwd hs') ∧
        (m.isHttpProxy = true → t = false →
          (step L (some v) m σ cid (.req true big hs)).2 = .tunnel ∧
          cid ∈ (step L (some v) m σ cid (.req true big hs)).1.authd ∧
          (step L (some v) m σ cid (.req true big hs)).1.phase cid = .http true)) ∧
    (∀ ub pb, L.sockDecode ub = u → L.sockDecode pb = p → σ.phase cid = .sAuth →
        (step L (some v) m σ cid (.sAuth ub pb)).2 = .sAuthOk ∧
        (step L (some v) m σ cid (.sAuth ub pb)).1.phase cid = .sConnect) := by
  constructor
  · intro hs t big hw hp
    have hc : credsOk L v m hs = true := by
      unfold credsOk; rw [parse_wellformed L _ u p hw]; exact hacc
    constructor
    · by_cases ha : cid ∈ σ.authd
      · exact ⟨hs, by unfold step; simp [hp, requestheadersHook, ha]⟩
      · exact ⟨hdrDel hs (authName m), by unfold step; simp [hp, requestheadersHook, ha, authenticateHttp, hc]⟩
    · intro hm ht
      subst ht
      have : step L (some v) m σ cid (.req true big hs) =
          (({ σ with authd := cid :: σ.authd } : State).setPhase cid (.http true), .tunnel) := by
        unfold step; simp [hp, hm, httpConnectHook, authenticateHttp, hc]
      simp [this, State.setPhase]
  · intro ub pb hu hpw hp
    have hc : v.accepts L (L.sockDecode ub) (L.sockDecode pb) = true := by rw [hu, hpw]; exact hacc
    have : step L (some v) m σ cid (.sAuth ub pb) =
        (({ σ with authd := cid :: σ.authd } : State).setPhase cid .sConnect, .sAuthOk) := by
      unfold step; simp [hp, socks5AuthHook, hc]
    simp [this, State.setPhase]

/-! ### the credential header is removed -/

private theorem hdrDel_none (hs : List Hdr) (n : Bytes) : ∀ h ∈ hdrDel hs n, nameIs n h = false := by
  intro h hh
  simp only [hdrDel, List.mem_filter, Bool.not_eq_eq_eq_not, Bool.not_true] at hh
  exact hh.2

private theorem hdrGet_del (hs : List Hdr) (n : Bytes) : hdrGet (hdrDel hs n) n = [] := by
  have : (hdrDel hs n).filter (nameIs n) = [] := by
    rw [List.filter_eq_nil_iff]
    intro h hh; simp [hdrDel_none hs n h hh]
  simp [hdrGet, this, joinComma]

/-- **C20 (credential header removed).**  Over every history: when a request of connection `cid` is forwarded and
    `cid` had not presented accepted credentials before (so authentication happens on this very request), what is
    forwarded is exactly the received field list without every field named like the path's credential header — no
    such field remains, every other field is kept in order; and in *every* case a forwarded field list is the
    received one or that filtered one (the hooks never add or alter a field). -/
theorem credential_header_removed (L : Lib) (v : Validator) (modes : Nat → Mode)
    (pre : List (Nat × Ev)) (cid : Nat) (connect big : Bool) (hs hs' : List Hdr)
    (hout : (step L (some v) (modes cid) (finalState L (some v) modes (State.init modes) pre) cid
              (.req connect big hs)).2 = .fwd hs') :
    (hs' = hs ∨ hs' = hdrDel hs (authName (modes cid))) ∧
    ((∀ e', (cid, e') ∈ pre → presentsAccepted L v (modes cid) e' = false) →
      hs' = hdrDel hs (authName (modes cid)) ∧
      (∀ h ∈ hs', nameIs (authName (modes cid)) h = false) ∧
      hdrGet hs' (authName (modes cid)) = []) := by
  generalize hσ : finalState L (some v) modes (State.init modes) pre = σ at hout
  have hinv := reach_inv L v modes pre (State.init modes) (fun _ => False) (inv_init modes _)
  rw [hσ] at hinv
  -- the only way to `fwd` is the non-CONNECT branch of a live HTTP phase
  cases hp : σ.phase cid with
  | closed => unfold step at hout; simp [hp] at hout
  | sGreet => unfold step at hout; simp [hp] at hout
  | sAuth => unfold step at hout; simp [hp] at hout
  | sConnect => unfold step at hout; simp [hp] at hout
  | http t =>
    cases connect with
    | true =>
      by_cases hpl : ((modes cid).isHttpProxy && !t) = true
      · by_cases hc : credsOk L v (modes cid) hs = true
        · have : step L (some v) (modes cid) σ cid (.req true big hs) =
              (({ σ with authd := cid :: σ.authd } : State).setPhase cid (.http true), .tunnel) := by
            unfold step; simp [hp, hpl, httpConnectHook, authenticateHttp, hc]
          rw [this] at hout; simp at hout
        · have : step L (some v) (modes cid) σ cid (.req true big hs) = (σ, .deny (authCode (modes cid))) := by
            unfold step; simp [hp, hpl, httpConnectHook, authenticateHttp, hc]
          rw [this] at hout; simp at hout
      · have : step L (some v) (modes cid) σ cid (.req true big hs) = (σ.setPhase cid .closed, .invalid) := by
          unfold step; simp [hp, hpl]
        rw [this] at hout; simp at hout
    | false =>
      cases big with
      | true =>
        have : step L (some v) (modes cid) σ cid (.req false true hs) = (σ.setPhase cid .closed, .tooLarge) := by
          unfold step; simp [hp]
        rw [this] at hout; simp at hout
      | false =>
        by_cases ha : cid ∈ σ.authd
        · have : step L (some v) (modes cid) σ cid (.req false false hs) = (σ, .fwd hs) := by
            unfold step; simp [hp, requestheadersHook, ha]
          rw [this] at hout
          simp only [Out.fwd.injEq] at hout
          subst hout
          refine ⟨Or.inl rfl, ?_⟩
          intro hnone
          rcases hinv.1 cid ha with h | ⟨e', hmem, hacc⟩
          · exact h.elim
          · rw [hnone e' hmem] at hacc; cases hacc
        · by_cases hc : credsOk L v (modes cid) hs = true
          · have : step L (some v) (modes cid) σ cid (.req false false hs) =
                (σ, .fwd (hdrDel hs (authName (modes cid)))) := by
              unfold step; simp [hp, requestheadersHook, ha, authenticateHttp, hc]
            rw [this] at hout
            simp only [Out.fwd.injEq] at hout
            subst hout
            exact ⟨Or.inr rfl, fun _ => ⟨rfl, hdrDel_none hs _, hdrGet_del hs _⟩⟩
          · have : step L (some v) (modes cid) σ cid (.req false false hs) = (σ, .deny (authCode (modes cid))) := by
              unfold step; simp [hp, requestheadersHook, ha, authenticateHttp, hc]
            rw [this] at hout; simp at hout

/-! ### non-vacuity and sanity (computed by the kernel) -/

/-- a concrete library: ASCII whitespace, ASCII lower-casing, a "decoder" that knows two tokens -/
private def L0 : Lib where
  isSpace := genIsSpace
  lower := genLower
  decodeCred := fun t =>
    if t = [100, 88, 78, 108] then some [117, 58, 112, 97, 58, 115, 115]     -- "dXNl" ↦ "u:pa:ss" (toy table)
    else if t = [65] then none else some [120]
  sockDecode := fun b => b.map (·.toNat)
  hashOk := fun h p => h == p

private def cred0 : Text := [66, 97, 115, 105, 99, 32, 100, 88, 78, 108]       -- "Basic dXNl"
private def pa : Bytes := strBytes "Proxy-Authorization"
private def single0 : Validator := .single [117] [112, 97, 58, 115, 115]          -- u / pa:ss

-- the repaired parser accepts a password with colons; the code before the repair (F-C20a) rejected it
example : parseBasic L0 cred0 = some ([117], [112, 97, 58, 115, 115]) := by decide +kernel
example : parseBasicOld L0 cred0 = none := by decide +kernel
-- the parser does reject: wrong scheme, one token, three tokens, binascii.Error
example : parseBasic L0 [66, 97, 115, 105, 32, 100, 88, 78, 108] = none := by decide +kernel
example : parseBasic L0 [66, 97, 115, 105, 99] = none := by decide +kernel
example : parseBasic L0 (cred0 ++ [32, 120]) = none := by decide +kernel
example : parseBasic L0 [66, 97, 115, 105, 99, 32, 65] = none := by decide +kernel
-- U+00A0 and U+3000 split like blanks (table regenerated from the interpreter)
example : splitWs genIsSpace [0xa0, 66, 0x3000, 67, 32] = [[66], [67]] := by decide +kernel

-- hypotheses of the theorems are satisfiable: a two-connection history in which connection 0 (regular) is refused,
-- then authenticates on a CONNECT, and connection 1 (reverse) stays unauthenticated
private def modes0 : Nat → Mode := fun c => if c = 0 then .regular else .reverse
private def hist0 : List (Nat × Ev) :=
  [(0, .req false false []), (1, .req false false [⟨pa, cred0⟩]), (0, .req true false [⟨pa, cred0⟩]), (0, .req false false []), (1, .req false false [])]

example : run L0 (some single0) modes0 (State.init modes0) hist0 =
    [.deny 407, .deny 401, .tunnel, .fwd [], .deny 401] := by decide +kernel
example : ∃ (i cid : Nat) (e : Ev) (o : Out), hist0[i]? = some (cid, e) ∧
    (run L0 (some single0) modes0 (State.init modes0) hist0)[i]? = some o ∧ o.forwards = true :=
  ⟨2, 0, .req true false [⟨pa, cred0⟩], Out.tunnel, rfl, by decide +kernel, rfl⟩
example : WellFormedCred L0 (hdrGet [⟨pa, cred0⟩] (authName .regular)) [117] [112, 97, 58, 115, 115] :=
  ⟨[66, 97, 115, 105, 99], [100, 88, 78, 108], by decide +kernel, by decide +kernel, by decide +kernel,
   by decide +kernel, by decide +kernel, by decide, by decide +kernel, by decide +kernel, by decide⟩
example : single0.accepts L0 [117] [112, 97, 58, 115, 115] = true := by decide +kernel
-- header removal on the authenticating request; other fields kept
example : (step L0 (some single0) .reverse (State.init modes0) 1
    (.req false false [⟨strBytes "X-A", [49]⟩, ⟨strBytes "AUTHORIZATION", cred0⟩, ⟨pa, [50]⟩])).2 =
    .fwd [⟨strBytes "X-A", [49]⟩, ⟨pa, [50]⟩] := by decide +kernel
-- SOCKS5: wrong pair -> 01 01, right pair -> 01 00
example : (step L0 (some single0) .socks5 ((State.init (fun _ => .socks5)).setPhase 0 .sAuth) 0
    (.sAuth [117] [112])).2 = .sAuthFail := by decide +kernel
example : (step L0 (some single0) .socks5 ((State.init (fun _ => .socks5)).setPhase 0 .sAuth) 0
    (.sAuth [117] (strBytes "pa:ss"))).2 = .sAuthOk := by decide +kernel

end MitmVerif.Props.C20
