/-
  C20 — property theorems (all over ALL histories: any number of client connections, any interleaving of events).

  * `unauthenticated_never_forwarded` : with a validator configured, whenever an event of connection `cid` causes
      upstream traffic (request forwarded, CONNECT tunnel, SOCKS5 connect) that connection has — at that event or
      earlier — presented credentials the validator accepts, on its own path.
  * `auth_required_answer`            : a connection that has presented no accepted credentials gets 407 (regular /
      upstream), 401 (reverse / transparent), SOCKS `05 FF`+close (method not offered) or `01 01`+close (bad pair),
      and never reaches a tunnel / relay phase.
  * `validator_accepts_implies_path_accepts` : a pair the validator accepts, presented as `Basic <token>` whose
      decoding is `user:password` (the password may contain ':'), is accepted on every HTTP path and on SOCKS5.
  * `credential_header_removed`       : the request on which authentication happens is forwarded without any field
      of the credential header's name, and otherwise unchanged; no hook ever adds or alters a field.
-/
import MitmVerif.Model.C20
import MitmVerif.Model.C20_B64
import MitmVerif.Model.C20_Ht
namespace MitmVerif.Props.C20
open MitmVerif MitmVerif.C20

/-! ### one step, summarised -/

private theorem step_summary (L : Lib) (v : Validator) (m : Mode) (σ : State) (cid : Nat) (e : Ev) :
    let r := step L (some v) m σ cid e
    (r.1.authd = σ.authd ∨ (r.1.authd = cid :: σ.authd ∧ presentsAccepted L v m e = true)) ∧
    (∀ c, c ≠ cid → r.1.phase c = σ.phase c) ∧
    ((r.1.phase cid = .http true ∨ r.1.phase cid = .sConnect) →
        (σ.phase cid = .http true ∨ σ.phase cid = .sConnect) ∨ presentsAccepted L v m e = true) ∧
    (r.2.forwards = true →
        cid ∈ σ.authd ∨ presentsAccepted L v m e = true ∨ σ.phase cid = .sConnect) ∧
    ((r.1.phase cid = .http true ∨ r.1.phase cid = .sConnect) →
        (σ.phase cid = .http true ∨ σ.phase cid = .sConnect) ∨ cid ∈ r.1.authd) := by
  intro r
  have hr : r = step L (some v) m σ cid e := rfl
  cases hp : σ.phase cid with
  | closed =>
    have : r = (σ, .ignored) := by rw [hr]; unfold step; simp [hp]
    simp [this, Out.forwards, hp]
  | http t =>
    cases e with
    | req connect big hs =>
      cases connect with
      | true =>
        by_cases hpl : (m.isHttpProxy && !t) = true
        · by_cases hc : credsOk L v m hs = true
          · have : r = (({ σ with authd := cid :: σ.authd } : State).setPhase cid (.http true), .tunnel) := by
              rw [hr]; unfold step; simp [hp, hpl, httpConnectHook, authenticateHttp, hc]
            simp [this, State.setPhase, presentsAccepted, hc]
            intro c hne; simp [hne]
          · have : r = (σ, .deny (authCode m)) := by
              rw [hr]; unfold step; simp [hp, hpl, httpConnectHook, authenticateHttp, hc]
            simp [this, Out.forwards, hp]
            cases t <;> simp_all
        · have : r = (σ.setPhase cid .closed, .invalid) := by
            rw [hr]; unfold step; simp [hp, hpl]
          simp [this, State.setPhase, Out.forwards]
          intro c hne; simp [hne]
      | false =>
        cases big with
        | true =>
          have : r = (σ.setPhase cid .closed, .tooLarge) := by rw [hr]; unfold step; simp [hp]
          simp [this, State.setPhase, Out.forwards]; intro c hne; simp [hne]
        | false =>
          by_cases ha : cid ∈ σ.authd
          · have : r = (σ, .fwd hs) := by
              rw [hr]; unfold step; simp [hp, requestheadersHook, ha]
            simp [this, ha, hp]
            intro h; cases t <;> simp_all
          · by_cases hc : credsOk L v m hs = true
            · have : r = (σ, .fwd (hdrDel hs (authName m))) := by
                rw [hr]; unfold step; simp [hp, requestheadersHook, ha, authenticateHttp, hc]
              simp [this, presentsAccepted, hc, hp]
              intro h; cases t <;> simp_all
            · have : r = (σ, .deny (authCode m)) := by
                rw [hr]; unfold step; simp [hp, requestheadersHook, ha, authenticateHttp, hc]
              simp [this, Out.forwards, hp]
              cases t <;> simp_all
    | sGreet ms =>
      have : r = (σ.setPhase cid .closed, .unmodelled) := by rw [hr]; unfold step; simp [hp]
      simp [this, State.setPhase, Out.forwards]; intro c hne; simp [hne]
    | sAuth u p =>
      have : r = (σ.setPhase cid .closed, .unmodelled) := by rw [hr]; unfold step; simp [hp]
      simp [this, State.setPhase, Out.forwards]; intro c hne; simp [hne]
    | sConnect =>
      have : r = (σ.setPhase cid .closed, .unmodelled) := by rw [hr]; unfold step; simp [hp]
      simp [this, State.setPhase, Out.forwards]; intro c hne; simp [hne]
  | sGreet =>
    cases e with
    | sGreet ms =>
      by_cases hm : (2 : UInt8) ∈ ms
      · have : r = (σ.setPhase cid .sAuth, .sMethod 2) := by rw [hr]; unfold step; simp [hp, hm]
        simp [this, State.setPhase, Out.forwards]; intro c hne; simp [hne]
      · have : r = (σ.setPhase cid .closed, .sNoMethod) := by rw [hr]; unfold step; simp [hp, hm]
        simp [this, State.setPhase, Out.forwards]; intro c hne; simp [hne]
    | req connect big hs =>
      have : r = (σ.setPhase cid .closed, .unmodelled) := by rw [hr]; unfold step; simp [hp]
      simp [this, State.setPhase, Out.forwards]; intro c hne; simp [hne]
    | sAuth u p =>
      have : r = (σ.setPhase cid .closed, .unmodelled) := by rw [hr]; unfold step; simp [hp]
      simp [this, State.setPhase, Out.forwards]; intro c hne; simp [hne]
    | sConnect =>
      have : r = (σ.setPhase cid .closed, .unmodelled) := by rw [hr]; unfold step; simp [hp]
      simp [this, State.setPhase, Out.forwards]; intro c hne; simp [hne]
  | sAuth =>
    cases e with
    | sAuth u p =>
      by_cases hc : v.accepts L (L.sockDecode u) (L.sockDecode p) = true
      · have : r = (({ σ with authd := cid :: σ.authd } : State).setPhase cid .sConnect, .sAuthOk) := by
          rw [hr]; unfold step; simp [hp, socks5AuthHook, hc]
        simp [this, State.setPhase, Out.forwards, presentsAccepted, hc]; intro c hne; simp [hne]
      · have : r = (σ.setPhase cid .closed, .sAuthFail) := by
          rw [hr]; unfold step; simp [hp, socks5AuthHook, hc]
        simp [this, State.setPhase, Out.forwards]; intro c hne; simp [hne]
    | req connect big hs =>
      have : r = (σ.setPhase cid .closed, .unmodelled) := by rw [hr]; unfold step; simp [hp]
      simp [this, State.setPhase, Out.forwards]; intro c hne; simp [hne]
    | sGreet ms =>
      have : r = (σ.setPhase cid .closed, .unmodelled) := by rw [hr]; unfold step; simp [hp]
      simp [this, State.setPhase, Out.forwards]; intro c hne; simp [hne]
    | sConnect =>
      have : r = (σ.setPhase cid .closed, .unmodelled) := by rw [hr]; unfold step; simp [hp]
      simp [this, State.setPhase, Out.forwards]; intro c hne; simp [hne]
  | sConnect =>
    cases e with
    | sConnect =>
      have : r = (σ.setPhase cid (.http true), .sConnected) := by rw [hr]; unfold step; simp [hp]
      simp [this, State.setPhase]; intro c hne; simp [hne]
    | req connect big hs =>
      have : r = (σ.setPhase cid .closed, .unmodelled) := by rw [hr]; unfold step; simp [hp]
      simp [this, State.setPhase, Out.forwards]; intro c hne; simp [hne]
    | sGreet ms =>
      have : r = (σ.setPhase cid .closed, .unmodelled) := by rw [hr]; unfold step; simp [hp]
      simp [this, State.setPhase, Out.forwards]; intro c hne; simp [hne]
    | sAuth u p =>
      have : r = (σ.setPhase cid .closed, .unmodelled) := by rw [hr]; unfold step; simp [hp]
      simp [this, State.setPhase, Out.forwards]; intro c hne; simp [hne]

/-- the authentication invariant: being in `authenticated`, or in a tunnel / SOCKS relay phase, implies `P`
    ("this connection has presented accepted credentials") -/
private def Inv (P : Nat → Prop) (σ : State) : Prop :=
  (∀ c, c ∈ σ.authd → P c) ∧
  (∀ c, (σ.phase c = .http true ∨ σ.phase c = .sConnect) → P c)

private theorem inv_init (modes : Nat → Mode) (P : Nat → Prop) : Inv P (State.init modes) := by
  constructor
  · intro c h; simp [State.init] at h
  · intro c h
    simp only [State.init, initPhase] at h
    split at h <;> simp at h

private theorem step_inv (L : Lib) (v : Validator) (m : Mode) (σ : State) (cid : Nat) (e : Ev)
    (P : Nat → Prop) (h : Inv P σ) :
    Inv (fun c => P c ∨ (c = cid ∧ presentsAccepted L v m e = true)) (step L (some v) m σ cid e).1 := by
  obtain ⟨ha, hphase, htun, _, _⟩ := step_summary L v m σ cid e
  constructor
  · intro c hc
    rcases ha with ha | ⟨ha, hacc⟩
    · rw [ha] at hc; exact Or.inl (h.1 c hc)
    · rw [ha] at hc
      simp only [List.mem_cons] at hc
      rcases hc with hc | hc
      · exact Or.inr ⟨hc, hacc⟩
      · exact Or.inl (h.1 c hc)
  · intro c hc
    by_cases hne : c = cid
    · subst hne
      rcases htun hc with h' | h'
      · exact Or.inl (h.2 c h')
      · exact Or.inr ⟨rfl, h'⟩
    · rw [hphase c hne] at hc; exact Or.inl (h.2 c hc)

private theorem step_forwards (L : Lib) (v : Validator) (m : Mode) (σ : State) (cid : Nat) (e : Ev)
    (P : Nat → Prop) (h : Inv P σ) (hf : (step L (some v) m σ cid e).2.forwards = true) :
    P cid ∨ presentsAccepted L v m e = true := by
  obtain ⟨_, _, _, hfw, _⟩ := step_summary L v m σ cid e
  rcases hfw hf with h' | h' | h'
  · exact Or.inl (h.1 cid h')
  · exact Or.inr h'
  · exact Or.inl (h.2 cid (Or.inr h'))

private theorem never_forwarded_gen (L : Lib) (v : Validator) (modes : Nat → Mode) (cid : Nat) (e : Ev) (o : Out) :
    ∀ (es : List (Nat × Ev)) (σ : State) (P : Nat → Prop) (i : Nat), Inv P σ →
      es[i]? = some (cid, e) → (run L (some v) modes σ es)[i]? = some o → o.forwards = true →
      P cid ∨ ∃ j e', j ≤ i ∧ es[j]? = some (cid, e') ∧ presentsAccepted L v (modes cid) e' = true := by
  intro es
  induction es with
  | nil => intro σ P i _ he; simp at he
  | cons x rest ih =>
    intro σ P i hinv he ho hf
    obtain ⟨c0, e0⟩ := x
    cases i with
    | zero =>
      simp only [List.getElem?_cons_zero, Option.some.injEq, Prod.mk.injEq] at he
      obtain ⟨rfl, rfl⟩ := he
      simp only [run, List.getElem?_cons_zero, Option.some.injEq] at ho
      subst ho
      rcases step_forwards L v (modes c0) σ c0 e0 P hinv hf with h | h
      · exact Or.inl h
      · exact Or.inr ⟨0, e0, Nat.le_refl _, by simp, h⟩
    | succ i =>
      simp only [List.getElem?_cons_succ] at he
      simp only [run, List.getElem?_cons_succ] at ho
      have hinv' := step_inv L v (modes c0) σ c0 e0 P hinv
      rcases ih _ _ i hinv' he ho hf with h | ⟨j, e', hj, hej, hacc⟩
      · rcases h with h | ⟨hc, hacc⟩
        · exact Or.inl h
        · subst hc
          exact Or.inr ⟨0, e0, Nat.zero_le _, by simp, hacc⟩
      · exact Or.inr ⟨j + 1, e', Nat.succ_le_succ hj, by simpa using hej, hacc⟩

/-- **C20 (no unauthenticated request is forwarded).**  With `proxyauth` configured, over every history on any
    number of connections (regular / upstream / reverse / transparent / SOCKS5, in any interleaving): if the `i`-th
    event — arriving on connection `cid` — makes the proxy forward a request, establish a CONNECT tunnel or connect a
    SOCKS5 destination, then `cid` itself has presented, at that event or before, credentials the validator accepts. -/
theorem unauthenticated_never_forwarded (L : Lib) (v : Validator) (modes : Nat → Mode)
    (es : List (Nat × Ev)) (i cid : Nat) (e : Ev) (o : Out)
    (he : es[i]? = some (cid, e))
    (ho : (run L (some v) modes (State.init modes) es)[i]? = some o)
    (hf : o.forwards = true) :
    ∃ j e', j ≤ i ∧ es[j]? = some (cid, e') ∧ presentsAccepted L v (modes cid) e' = true := by
  rcases never_forwarded_gen L v modes cid e o es (State.init modes) (fun _ => False) i
      (inv_init modes _) he ho hf with h | h
  · exact h.elim
  · exact h

/-! ### the answer an unauthenticated client gets -/

/-- reachable states: connection `cid` is authenticated / tunnelled / relayed only if it presented accepted
    credentials somewhere in the history `pre` -/
private theorem reach_inv (L : Lib) (v : Validator) (modes : Nat → Mode) :
    ∀ (pre : List (Nat × Ev)) (σ : State) (P : Nat → Prop), Inv P σ →
      Inv (fun c => P c ∨ ∃ e', (c, e') ∈ pre ∧ presentsAccepted L v (modes c) e' = true)
        (finalState L (some v) modes σ pre) := by
  intro pre
  induction pre with
  | nil => intro σ P h; simpa [finalState, Inv] using h
  | cons x rest ih =>
    intro σ P h
    obtain ⟨c0, e0⟩ := x
    have h1 := step_inv L v (modes c0) σ c0 e0 P h
    have h2 := ih _ _ h1
    simp only [finalState]
    constructor
    · intro c hc
      rcases h2.1 c hc with (hp | ⟨rfl, hacc⟩) | ⟨e', hmem, hacc⟩
      · exact Or.inl hp
      · exact Or.inr ⟨e0, by simp, hacc⟩
      · exact Or.inr ⟨e', by simp [hmem], hacc⟩
    · intro c hc
      rcases h2.2 c hc with (hp | ⟨rfl, hacc⟩) | ⟨e', hmem, hacc⟩
      · exact Or.inl hp
      · exact Or.inr ⟨e0, by simp, hacc⟩
      · exact Or.inr ⟨e', by simp [hmem], hacc⟩

/-- what "an authentication-required answer instead" means, by phase and event -/
def AuthRequiredAnswer (m : Mode) (phase : Phase) (e : Ev) (phase' : Phase) (o : Out) : Prop :=
  match phase, e with
  | .http false, .req connect big _ =>
      if !connect && big then o = .tooLarge ∧ phase' = .closed                -- 413 + close before any authentication
      else if connect && !m.isHttpProxy then o = .invalid ∧ phase' = .closed      -- CONNECT where none is allowed: 400 + close
      else o = .deny (if m.isHttpProxy then 407 else 401) ∧ phase' = .http false
  | .sGreet, .sGreet ms =>
      if ms.contains 2 then o = .sMethod 2 ∧ phase' = .sAuth                 -- "use user/password"
      else o = .sNoMethod ∧ phase' = .closed                                  -- 05 FF + close
  | .sAuth, .sAuth _ _ => o = .sAuthFail ∧ phase' = .closed                  -- 01 01 + close
  | .http true, _ => False                                                    -- unreachable without credentials
  | .sConnect, _ => False
  | _, _ => o.forwards = false ∧ phase' = .closed                             -- closed already / malformed handshake

/-- **C20 (authentication-required answer).**  A connection that has presented no accepted credentials — neither
    earlier (`pre`) nor with the current event — is never in a tunnel / relay phase, and its event is answered by
    407 (regular, upstream) / 401 (reverse, transparent) with the connection left usable for a retry, by SOCKS5
    `05 02` (asking for user/password) or `05 FF` + close, or by `01 01` + close; the `authenticated` map is unchanged. -/
theorem auth_required_answer (L : Lib) (v : Validator) (modes : Nat → Mode)
    (pre : List (Nat × Ev)) (cid : Nat) (e : Ev)
    (hnone : ∀ e', (cid, e') ∈ pre ++ [(cid, e)] → presentsAccepted L v (modes cid) e' = false) :
    let σ := finalState L (some v) modes (State.init modes) pre
    let r := step L (some v) (modes cid) σ cid e
    AuthRequiredAnswer (modes cid) (σ.phase cid) e (r.1.phase cid) r.2 ∧ r.1.authd = σ.authd := by
  intro σ r
  have hinv := reach_inv L v modes pre (State.init modes) (fun _ => False) (inv_init modes _)
  have hnot : ∀ P : Prop, (False ∨ ∃ e', (cid, e') ∈ pre ∧ presentsAccepted L v (modes cid) e' = true) → P := by
    intro P h
    rcases h with h | ⟨e', hmem, hacc⟩
    · exact h.elim
    · have := hnone e' (by simp [hmem]); rw [this] at hacc; cases hacc
  have hnauth : cid ∉ σ.authd := fun hc => hnot _ (hinv.1 cid hc)
  have hacc_e : presentsAccepted L v (modes cid) e = false := hnone e (by simp)
  have hr : r = step L (some v) (modes cid) σ cid e := rfl
  cases hp : σ.phase cid with
  | closed =>
    have : r = (σ, .ignored) := by rw [hr]; unfold step; simp [hp]
    simp [this, AuthRequiredAnswer, Out.forwards, hp]
  | http t =>
    cases t with
    | true => exact hnot _ (hinv.2 cid (Or.inl hp))
    | false =>
      cases e with
      | req connect big hs =>
        have hc : credsOk L v (modes cid) hs = false := by simpa [presentsAccepted] using hacc_e
        cases connect with
        | true =>
          by_cases hpl : (modes cid).isHttpProxy = true
          · have : r = (σ, .deny (authCode (modes cid))) := by
              rw [hr]; unfold step; simp [hp, hpl, httpConnectHook, authenticateHttp, hc]
            simp [this, AuthRequiredAnswer, hpl, authCode, hp]
          · have : r = (σ.setPhase cid .closed, .invalid) := by
              rw [hr]; unfold step; simp [hp, hpl]
            simp [this, AuthRequiredAnswer, hpl, State.setPhase]
        | false =>
          cases big with
          | true =>
            have : r = (σ.setPhase cid .closed, .tooLarge) := by rw [hr]; unfold step; simp [hp]
            simp [this, AuthRequiredAnswer, State.setPhase]
          | false =>
            have : r = (σ, .deny (authCode (modes cid))) := by
              rw [hr]; unfold step; simp [hp, requestheadersHook, hnauth, authenticateHttp, hc]
            simp [this, AuthRequiredAnswer, authCode, hp]
      | sGreet ms =>
        have : r = (σ.setPhase cid .closed, .unmodelled) := by rw [hr]; unfold step; simp [hp]
        simp [this, AuthRequiredAnswer, State.setPhase, Out.forwards]
      | sAuth u p =>
        have : r = (σ.setPhase cid .closed, .unmodelled) := by rw [hr]; unfold step; simp [hp]
        simp [this, AuthRequiredAnswer, State.setPhase, Out.forwards]
      | sConnect =>
        have : r = (σ.setPhase cid .closed, .unmodelled) := by rw [hr]; unfold step; simp [hp]
        simp [this, AuthRequiredAnswer, State.setPhase, Out.forwards]
  | sGreet =>
    cases e with
    | sGreet ms =>
      by_cases hm : (2 : UInt8) ∈ ms
      · have : r = (σ.setPhase cid .sAuth, .sMethod 2) := by rw [hr]; unfold step; simp [hp, hm]
        simp [this, AuthRequiredAnswer, State.setPhase, hm]
      · have : r = (σ.setPhase cid .closed, .sNoMethod) := by rw [hr]; unfold step; simp [hp, hm]
        simp [this, AuthRequiredAnswer, State.setPhase, hm]
    | req connect big hs =>
      have : r = (σ.setPhase cid .closed, .unmodelled) := by rw [hr]; unfold step; simp [hp]
      simp [this, AuthRequiredAnswer, State.setPhase, Out.forwards]
    | sAuth u p =>
      have : r = (σ.setPhase cid .closed, .unmodelled) := by rw [hr]; unfold step; simp [hp]
      simp [this, AuthRequiredAnswer, State.setPhase, Out.forwards]
    | sConnect =>
      have : r = (σ.setPhase cid .closed, .unmodelled) := by rw [hr]; unfold step; simp [hp]
      simp [this, AuthRequiredAnswer, State.setPhase, Out.forwards]
  | sAuth =>
    cases e with
    | sAuth u p =>
      have hc : v.accepts L (L.sockDecode u) (L.sockDecode p) = false := by simpa [presentsAccepted] using hacc_e
      have : r = (σ.setPhase cid .closed, .sAuthFail) := by
        rw [hr]; unfold step; simp [hp, socks5AuthHook, hc]
      simp [this, AuthRequiredAnswer, State.setPhase]
    | req connect big hs =>
      have : r = (σ.setPhase cid .closed, .unmodelled) := by rw [hr]; unfold step; simp [hp]
      simp [this, AuthRequiredAnswer, State.setPhase, Out.forwards]
    | sGreet ms =>
      have : r = (σ.setPhase cid .closed, .unmodelled) := by rw [hr]; unfold step; simp [hp]
      simp [this, AuthRequiredAnswer, State.setPhase, Out.forwards]
    | sConnect =>
      have : r = (σ.setPhase cid .closed, .unmodelled) := by rw [hr]; unfold step; simp [hp]
      simp [this, AuthRequiredAnswer, State.setPhase, Out.forwards]
  | sConnect => exact hnot _ (hinv.2 cid (Or.inr hp))

/-! ### accepted pairs are accepted on every path -/

private theorem splitWsAux_word (sp : Nat → Bool) (w : Text) (hw : ∀ c ∈ w, sp c = false) :
    ∀ (rest cur : Text), splitWsAux sp (w ++ rest) cur = splitWsAux sp rest (w.reverse ++ cur) := by
  induction w with
  | nil => intro rest cur; simp
  | cons c cs ih =>
    intro rest cur
    have hc : sp c = false := hw c (by simp)
    have hcs : ∀ x ∈ cs, sp x = false := fun x hx => hw x (by simp [hx])
    simp only [List.cons_append, splitWsAux, hc, Bool.false_eq_true, if_false]
    rw [ih hcs]
    simp

private theorem splitWs_two (sp : Nat → Bool) (a b : Text) (ha : ∀ c ∈ a, sp c = false)
    (hb : ∀ c ∈ b, sp c = false) (hane : a ≠ []) (hbne : b ≠ []) (hsp : sp 32 = true) :
    splitWs sp (a ++ 32 :: b) = [a, b] := by
  unfold splitWs
  rw [splitWsAux_word sp a ha]
  have h1 : (a.reverse ++ ([] : Text)).isEmpty = false := by
    cases a with
    | nil => exact absurd rfl hane
    | cons x xs => simp
  simp only [splitWsAux, hsp, if_true, h1, Bool.false_eq_true, if_false]
  have := splitWsAux_word sp b hb [] []
  simp only [List.append_nil] at this
  rw [this]
  have h2 : b.reverse.isEmpty = false := by
    cases b with
    | nil => exact absurd rfl hbne
    | cons x xs => simp
  simp [splitWsAux, h2]

private theorem splitColon1_first (u p : Text) (hu : ∀ c ∈ u, c ≠ 58) :
    splitColon1 (u ++ 58 :: p) = some (u, p) := by
  induction u with
  | nil => simp [splitColon1]
  | cons c cs ih =>
    have hc : c ≠ 58 := hu c (by simp)
    have hcs : ∀ x ∈ cs, x ≠ 58 := fun x hx => hu x (by simp [hx])
    simp [splitColon1, hc, ih hcs]

/-- a well-formed Basic credential for the pair `(u, p)`: `<scheme> SP <token>` where the scheme lower-cases to
    "basic", the token is a non-empty run without whitespace or lone surrogates, and the library decodes the token to
    `u ++ ":" ++ p` (the law a standard base64 encoding of the UTF-8 text `u:p` satisfies) -/
def WellFormedCred (L : Lib) (value u p : Text) : Prop :=
  ∃ scheme token : Text,
    value = scheme ++ 32 :: token ∧
    L.isSpace 32 = true ∧
    scheme.map L.lower = basicWord ∧
    (∀ c ∈ scheme, L.isSpace c = false) ∧
    (∀ c ∈ token, L.isSpace c = false) ∧
    token ≠ [] ∧
    token.any isSurrogate = false ∧
    L.decodeCred token = some (u ++ 58 :: p) ∧
    (∀ c ∈ u, c ≠ 58)

private theorem parse_wellformed (L : Lib) (value u p : Text) (h : WellFormedCred L value u p) :
    parseBasic L value = some (u, p) := by
  obtain ⟨scheme, token, shape, space, sok, snows, tnows, tne, tenc, dec, unc⟩ := h
  have sne : scheme ≠ [] := by
    intro h0; subst h0; simp [basicWord] at sok
  subst shape
  unfold parseBasic parseBasicWith
  rw [splitWs_two L.isSpace scheme token snows tnows sne tne space]
  simp [sok, tenc, dec, splitColon1_first u p unc]

/-- **C20 (every accepted pair is accepted on each path, including passwords containing ':').**
    If the validator accepts `(u, p)` — `p` arbitrary, in particular with colons — then
    (1) a request whose credential header (by the path's name: `Proxy-Authorization` in regular/upstream mode,
        `Authorization` in reverse/transparent mode) is a well-formed Basic credential for `(u, p)` is forwarded on
        a plain request and establishes the tunnel on a CONNECT (regular/upstream), from any state of any live
        connection, and the connection is remembered as authenticated after a CONNECT;
    (2) a SOCKS5 user/password message decoding to `(u, p)` is answered `01 00` and the handshake continues. -/
theorem validator_accepts_implies_path_accepts (L : Lib) (v : Validator) (m : Mode) (σ : State) (cid : Nat)
    (u p : Text) (hacc : v.accepts L u p = true) :
    (∀ hs t big, WellFormedCred L (hdrGet hs (authName m)) u p → σ.phase cid = .http t →
        (∃ hs', (step L (some v) m σ cid (.req false false hs)).2 = .fwd hs') ∧
        (m.isHttpProxy = true → t = false →
          (step L (some v) m σ cid (.req true big hs)).2 = .tunnel ∧
          cid ∈ (step L (some v) m σ cid (.req true big hs)).1.authd ∧
          (step L (some v) m σ cid (.req true big hs)).1.phase cid = .http true)) ∧
    (∀ ub pb, L.sockDecode ub = u → L.sockDecode pb = p → σ.phase cid = .sAuth →
        (step L (some v) m σ cid (.sAuth ub pb)).2 = .sAuthOk ∧
        (step L (some v) m σ cid (.sAuth ub pb)).1.phase cid = .sConnect) := by
  constructor
  · intro hs t big hw hp
    have hc : credsOk L v m hs = true := by
      unfold credsOk; rw [parse_wellformed L _ u p hw]; exact hacc
    constructor
    · by_cases ha : cid ∈ σ.authd
      · exact ⟨hs, by unfold step; simp [hp, requestheadersHook, ha]⟩
      · exact ⟨hdrDel hs (authName m), by unfold step; simp [hp, requestheadersHook, ha, authenticateHttp, hc]⟩
    · intro hm ht
      subst ht
      have : step L (some v) m σ cid (.req true big hs) =
          (({ σ with authd := cid :: σ.authd } : State).setPhase cid (.http true), .tunnel) := by
        unfold step; simp [hp, hm, httpConnectHook, authenticateHttp, hc]
      simp [this, State.setPhase]
  · intro ub pb hu hpw hp
    have hc : v.accepts L (L.sockDecode ub) (L.sockDecode pb) = true := by rw [hu, hpw]; exact hacc
    have : step L (some v) m σ cid (.sAuth ub pb) =
        (({ σ with authd := cid :: σ.authd } : State).setPhase cid .sConnect, .sAuthOk) := by
      unfold step; simp [hp, socks5AuthHook, hc]
    simp [this, State.setPhase]

/-! ### the credential header is removed -/

private theorem hdrDel_none (hs : List Hdr) (n : Bytes) : ∀ h ∈ hdrDel hs n, nameIs n h = false := by
  intro h hh
  simp only [hdrDel, List.mem_filter, Bool.not_eq_eq_eq_not, Bool.not_true] at hh
  exact hh.2

private theorem hdrGet_del (hs : List Hdr) (n : Bytes) : hdrGet (hdrDel hs n) n = [] := by
  have : (hdrDel hs n).filter (nameIs n) = [] := by
    rw [List.filter_eq_nil_iff]
    intro h hh; simp [hdrDel_none hs n h hh]
  simp [hdrGet, this, joinComma]

/-- **C20 (credential header removed).**  Over every history: when a request of connection `cid` is forwarded and
    `cid` had not presented accepted credentials before (so authentication happens on this very request), what is
    forwarded is exactly the received field list without every field named like the path's credential header — no
    such field remains, every other field is kept in order; and in *every* case a forwarded field list is the
    received one or that filtered one (the hooks never add or alter a field). -/
theorem credential_header_removed (L : Lib) (v : Validator) (modes : Nat → Mode)
    (pre : List (Nat × Ev)) (cid : Nat) (connect big : Bool) (hs hs' : List Hdr)
    (hout : (step L (some v) (modes cid) (finalState L (some v) modes (State.init modes) pre) cid
              (.req connect big hs)).2 = .fwd hs') :
    (hs' = hs ∨ hs' = hdrDel hs (authName (modes cid))) ∧
    ((∀ e', (cid, e') ∈ pre → presentsAccepted L v (modes cid) e' = false) →
      hs' = hdrDel hs (authName (modes cid)) ∧
      (∀ h ∈ hs', nameIs (authName (modes cid)) h = false) ∧
      hdrGet hs' (authName (modes cid)) = []) := by
  generalize hσ : finalState L (some v) modes (State.init modes) pre = σ at hout
  have hinv := reach_inv L v modes pre (State.init modes) (fun _ => False) (inv_init modes _)
  rw [hσ] at hinv
  -- the only way to `fwd` is the non-CONNECT branch of a live HTTP phase
  cases hp : σ.phase cid with
  | closed => unfold step at hout; simp [hp] at hout
  | sGreet => unfold step at hout; simp [hp] at hout
  | sAuth => unfold step at hout; simp [hp] at hout
  | sConnect => unfold step at hout; simp [hp] at hout
  | http t =>
    cases connect with
    | true =>
      by_cases hpl : ((modes cid).isHttpProxy && !t) = true
      · by_cases hc : credsOk L v (modes cid) hs = true
        · have : step L (some v) (modes cid) σ cid (.req true big hs) =
              (({ σ with authd := cid :: σ.authd } : State).setPhase cid (.http true), .tunnel) := by
            unfold step; simp [hp, hpl, httpConnectHook, authenticateHttp, hc]
          rw [this] at hout; simp at hout
        · have : step L (some v) (modes cid) σ cid (.req true big hs) = (σ, .deny (authCode (modes cid))) := by
            unfold step; simp [hp, hpl, httpConnectHook, authenticateHttp, hc]
          rw [this] at hout; simp at hout
      · have : step L (some v) (modes cid) σ cid (.req true big hs) = (σ.setPhase cid .closed, .invalid) := by
          unfold step; simp [hp, hpl]
        rw [this] at hout; simp at hout
    | false =>
      cases big with
      | true =>
        have : step L (some v) (modes cid) σ cid (.req false true hs) = (σ.setPhase cid .closed, .tooLarge) := by
          unfold step; simp [hp]
        rw [this] at hout; simp at hout
      | false =>
        by_cases ha : cid ∈ σ.authd
        · have : step L (some v) (modes cid) σ cid (.req false false hs) = (σ, .fwd hs) := by
            unfold step; simp [hp, requestheadersHook, ha]
          rw [this] at hout
          simp only [Out.fwd.injEq] at hout
          subst hout
          refine ⟨Or.inl rfl, ?_⟩
          intro hnone
          rcases hinv.1 cid ha with h | ⟨e', hmem, hacc⟩
          · exact h.elim
          · rw [hnone e' hmem] at hacc; cases hacc
        · by_cases hc : credsOk L v (modes cid) hs = true
          · have : step L (some v) (modes cid) σ cid (.req false false hs) =
                (σ, .fwd (hdrDel hs (authName (modes cid)))) := by
              unfold step; simp [hp, requestheadersHook, ha, authenticateHttp, hc]
            rw [this] at hout
            simp only [Out.fwd.injEq] at hout
            subst hout
            exact ⟨Or.inr rfl, fun _ => ⟨rfl, hdrDel_none hs _, hdrGet_del hs _⟩⟩
          · have : step L (some v) (modes cid) σ cid (.req false false hs) = (σ, .deny (authCode (modes cid))) := by
              unfold step; simp [hp, requestheadersHook, ha, authenticateHttp, hc]
            rw [this] at hout; simp at hout

/-- **credential header removed — the CONNECT path (hook level).**  When `http_connect` accepts, the flow's request (what
    every later hook and the rest of the proxy core see) is the received field list without every field named like the
    path's credential header; when it refuses, a 407/401 is set and the fields are irrelevant.  `httpConnectHook` is the
    function the `hook` driver op runs. -/
theorem connect_hook_removes_credential_header (L : Lib) (v : Validator) (authd : List Nat) (cid : Nat) (m : Mode)
    (hs hs' : List Hdr) (h : (httpConnectHook L (some v) authd cid m hs).2 = .pass hs') :
    hs' = hdrDel hs (authName m) ∧ (∀ f ∈ hs', nameIs (authName m) f = false) ∧ hdrGet hs' (authName m) = [] ∧
    (httpConnectHook L (some v) authd cid m hs).1 = cid :: authd := by
  unfold httpConnectHook authenticateHttp at h ⊢
  by_cases hc : credsOk L v m hs = true
  · simp only [hc, if_true, HookOut.pass.injEq] at h ⊢
    subst h
    exact ⟨rfl, hdrDel_none hs _, hdrGet_del hs _, trivial⟩
  · simp [hc] at h

/-- **credential header removed — the CONNECT path (connection level).**  Whenever a client's CONNECT establishes a
    tunnel with `proxyauth` configured (regular or upstream mode, any state): the hook has removed the credential header
    from the flow's request, and the CONNECT head that mitmproxy writes to the upstream proxy in upstream mode carries no
    field of the client's at all (`upstreamConnectFields`; the end-to-end tie requires that head to consist of the
    request line and `Host` only, and the oracle scans it for the credential header). -/
theorem credential_header_removed_connect (L : Lib) (v : Validator) (m : Mode) (σ : State) (cid : Nat) (big : Bool)
    (hs : List Hdr) (h : (step L (some v) m σ cid (.req true big hs)).2 = .tunnel) :
    (httpConnectHook L (some v) σ.authd cid m hs).2 = .pass (hdrDel hs (authName m)) ∧
    (∀ f ∈ hdrDel hs (authName m), nameIs (authName m) f = false) ∧
    (∀ f ∈ upstreamConnectFields (hdrDel hs (authName m)), nameIs (authName m) f = false) := by
  refine ⟨?_, hdrDel_none hs _, by simp [upstreamConnectFields]⟩
  cases hp : σ.phase cid with
  | closed => unfold step at h; simp [hp] at h
  | sGreet => unfold step at h; simp [hp] at h
  | sAuth => unfold step at h; simp [hp] at h
  | sConnect => unfold step at h; simp [hp] at h
  | http t =>
    by_cases hpl : (m.isHttpProxy && !t) = true
    · by_cases hc : credsOk L v m hs = true
      · simp [httpConnectHook, authenticateHttp, hc]
      · have : step L (some v) m σ cid (.req true big hs) = (σ, .deny (authCode m)) := by
          unfold step; simp [hp, hpl, httpConnectHook, authenticateHttp, hc]
        rw [this] at h; simp at h
    · have : step L (some v) m σ cid (.req true big hs) = (σ.setPhase cid .closed, .invalid) := by
        unfold step; simp [hp, hpl]
      rw [this] at h; simp at h

/-! ### non-vacuity and sanity (computed by the kernel) -/

/-- a concrete library: ASCII whitespace, ASCII lower-casing, a "decoder" that knows two tokens -/
private def L0 : Lib where
  isSpace := genIsSpace
  lower := genLower
  decodeCred := fun t =>
    if t = [100, 88, 78, 108] then some [117, 58, 112, 97, 58, 115, 115]     -- "dXNl" ↦ "u:pa:ss" (toy table)
    else if t = [65] then none else some [120]
  sockDecode := fun b => b.map (·.toNat)
  hashOk := fun h p => h == p

private def cred0 : Text := [66, 97, 115, 105, 99, 32, 100, 88, 78, 108]       -- "Basic dXNl"
private def pa : Bytes := strBytes "Proxy-Authorization"
private def single0 : Validator := .single [117] [112, 97, 58, 115, 115]          -- u / pa:ss

-- the repaired parser accepts a password with colons; the code before the repair (F-C20a) rejected it
example : parseBasic L0 cred0 = some ([117], [112, 97, 58, 115, 115]) := by decide +kernel
example : parseBasicOld L0 cred0 = none := by decide +kernel
-- the parser does reject: wrong scheme, one token, three tokens, binascii.Error
example : parseBasic L0 [66, 97, 115, 105, 32, 100, 88, 78, 108] = none := by decide +kernel
example : parseBasic L0 [66, 97, 115, 105, 99] = none := by decide +kernel
example : parseBasic L0 (cred0 ++ [32, 120]) = none := by decide +kernel
example : parseBasic L0 [66, 97, 115, 105, 99, 32, 65] = none := by decide +kernel
-- U+00A0 and U+3000 split like blanks (table regenerated from the interpreter)
example : splitWs genIsSpace [0xa0, 66, 0x3000, 67, 32] = [[66], [67]] := by decide +kernel

-- hypotheses of the theorems are satisfiable: a two-connection history in which connection 0 (regular) is refused,
-- then authenticates on a CONNECT, and connection 1 (reverse) stays unauthenticated
private def modes0 : Nat → Mode := fun c => if c = 0 then .regular else .reverse
private def hist0 : List (Nat × Ev) :=
  [(0, .req false false []), (1, .req false false [⟨pa, cred0⟩]), (0, .req true false [⟨pa, cred0⟩]), (0, .req false false []), (1, .req false false [])]

example : run L0 (some single0) modes0 (State.init modes0) hist0 =
    [.deny 407, .deny 401, .tunnel, .fwd [], .deny 401] := by decide +kernel
example : ∃ (i cid : Nat) (e : Ev) (o : Out), hist0[i]? = some (cid, e) ∧
    (run L0 (some single0) modes0 (State.init modes0) hist0)[i]? = some o ∧ o.forwards = true :=
  ⟨2, 0, .req true false [⟨pa, cred0⟩], Out.tunnel, rfl, by decide +kernel, rfl⟩
example : WellFormedCred L0 (hdrGet [⟨pa, cred0⟩] (authName .regular)) [117] [112, 97, 58, 115, 115] :=
  ⟨[66, 97, 115, 105, 99], [100, 88, 78, 108], by decide +kernel, by decide +kernel, by decide +kernel,
   by decide +kernel, by decide +kernel, by decide, by decide +kernel, by decide +kernel, by decide⟩
example : single0.accepts L0 [117] [112, 97, 58, 115, 115] = true := by decide +kernel
-- header removal on the authenticating request; other fields kept
example : (step L0 (some single0) .reverse (State.init modes0) 1
    (.req false false [⟨strBytes "X-A", [49]⟩, ⟨strBytes "AUTHORIZATION", cred0⟩, ⟨pa, [50]⟩])).2 =
    .fwd [⟨strBytes "X-A", [49]⟩, ⟨pa, [50]⟩] := by decide +kernel
-- SOCKS5: wrong pair -> 01 01, right pair -> 01 00
example : (step L0 (some single0) .socks5 ((State.init (fun _ => .socks5)).setPhase 0 .sAuth) 0
    (.sAuth [117] [112])).2 = .sAuthFail := by decide +kernel
example : (step L0 (some single0) .socks5 ((State.init (fun _ => .socks5)).setPhase 0 .sAuth) 0
    (.sAuth [117] (strBytes "pa:ss"))).2 = .sAuthOk := by decide +kernel


/-! ## Round 3: the transcribed library part (base64, str.encode, mkauth), the 401/407 page, decisions and memo -/

section B64
open MitmVerif.C20.B64

private theorem a2bVal_b2aChar : ∀ n : Fin 64, a2bVal (b2aChar n.val) = some n.val := by decide +kernel
private theorem b2aChar_ne_pad : ∀ n : Fin 64, b2aChar n.val ≠ 61 := by decide +kernel

private theorem loop_char0 (n : Nat) (hn : n < 64) (cs : NBytes) (l p : Nat) (out : NBytes) :
    a2bLoop (b2aChar n :: cs) ⟨0, l, p, out⟩ = a2bLoop cs ⟨1, n, 0, out⟩ := by
  have h1 := a2bVal_b2aChar ⟨n, hn⟩
  have h2 := b2aChar_ne_pad ⟨n, hn⟩
  simp only at h1 h2
  rw [a2bLoop]; simp [h2, h1]

private theorem loop_char1 (n : Nat) (hn : n < 64) (cs : NBytes) (l p : Nat) (out : NBytes) :
    a2bLoop (b2aChar n :: cs) ⟨1, l, p, out⟩ = a2bLoop cs ⟨2, n % 16, 0, (l * 4 + n / 16) :: out⟩ := by
  have h1 := a2bVal_b2aChar ⟨n, hn⟩
  have h2 := b2aChar_ne_pad ⟨n, hn⟩
  simp only at h1 h2
  rw [a2bLoop]; simp [h2, h1]

private theorem loop_char2 (n : Nat) (hn : n < 64) (cs : NBytes) (l p : Nat) (out : NBytes) :
    a2bLoop (b2aChar n :: cs) ⟨2, l, p, out⟩ = a2bLoop cs ⟨3, n % 4, 0, (l * 16 + n / 4) :: out⟩ := by
  have h1 := a2bVal_b2aChar ⟨n, hn⟩
  have h2 := b2aChar_ne_pad ⟨n, hn⟩
  simp only at h1 h2
  rw [a2bLoop]; simp [h2, h1]

private theorem loop_char3 (n : Nat) (hn : n < 64) (cs : NBytes) (l p : Nat) (out : NBytes) :
    a2bLoop (b2aChar n :: cs) ⟨3, l, p, out⟩ = a2bLoop cs ⟨0, 0, 0, (l * 64 + n) :: out⟩ := by
  have h1 := a2bVal_b2aChar ⟨n, hn⟩
  have h2 := b2aChar_ne_pad ⟨n, hn⟩
  simp only at h1 h2
  rw [a2bLoop]; simp [h2, h1]

private theorem a2b_b2a_gen : ∀ (bs : NBytes) (out : NBytes), (∀ b ∈ bs, b < 256) →
    a2bLoop (b2a bs) { quad := 0, left := 0, pads := 0, out := out } = some (out.reverse ++ bs) := by
  intro bs
  induction bs using b2a.induct with
  | case1 a b c rest ih =>
    intro out h
    have ha : a < 256 := h a (by simp)
    have hb : b < 256 := h b (by simp)
    have hc : c < 256 := h c (by simp)
    have hrest : ∀ x ∈ rest, x < 256 := fun x hx => h x (by simp [hx])
    rw [b2a]
    rw [loop_char0 _ (by omega), loop_char1 _ (by omega), loop_char2 _ (by omega), loop_char3 _ (by omega)]
    have e1 : a / 4 * 4 + (a % 4 * 16 + b / 16) / 16 = a := by omega
    have e2 : (a % 4 * 16 + b / 16) % 16 * 16 + (b % 16 * 4 + c / 64) / 4 = b := by omega
    have e3 : (b % 16 * 4 + c / 64) % 4 * 64 + c % 64 = c := by omega
    rw [e1, e2, e3, ih _ hrest]
    simp
  | case2 a b =>
    intro out h
    have ha : a < 256 := h a (by simp)
    have hb : b < 256 := h b (by simp)
    rw [b2a]
    rw [loop_char0 _ (by omega), loop_char1 _ (by omega), loop_char2 _ (by omega)]
    have e1 : a / 4 * 4 + (a % 4 * 16 + b / 16) / 16 = a := by omega
    have e2 : (a % 4 * 16 + b / 16) % 16 * 16 + (b % 16 * 4) / 4 = b := by omega
    rw [e1, e2]
    simp [a2bLoop]
  | case3 a =>
    intro out h
    have ha : a < 256 := h a (by simp)
    rw [b2a]
    rw [loop_char0 _ (by omega), loop_char1 _ (by omega)]
    have e1 : a / 4 * 4 + (a % 4 * 16) / 16 = a := by omega
    rw [e1]
    simp [a2bLoop]
  | case4 =>
    intro out _
    simp [b2a, a2bLoop]

/-- **base64 round trip.**  The transcription of CPython's lenient `a2b_base64` inverts `b2a_base64` on every byte
    string (induction over 3-byte groups; the two padded tails end through the `quad_pos + pads ≥ 4` exit). -/
theorem b64_roundtrip (bs : NBytes) (h : ∀ b ∈ bs, b < 256) : a2b (b2a bs) = some bs := by
  have := a2b_b2a_gen bs [] h
  simpa [a2b] using this


private theorem utf8encChar_lt (c : Nat) (hc : c < 0x110000) : ∀ b ∈ utf8encChar c, b < 256 := by
  intro b hb
  unfold utf8encChar at hb
  split at hb
  · simp at hb; omega
  · split at hb
    · simp at hb; omega
    · split at hb
      · simp at hb; omega
      · simp at hb; omega

private theorem utf8enc_lt (t : Text) (h : ∀ c ∈ t, c < 0x110000) : ∀ b ∈ utf8enc t, b < 256 := by
  intro b hb
  simp only [utf8enc, List.mem_flatMap] at hb
  obtain ⟨c, hc, hbc⟩ := hb
  exact utf8encChar_lt c (h c hc) b hbc

private theorem utf8enc_ascii (t : Text) (h : ∀ c ∈ t, c < 128) : utf8enc t = t := by
  induction t with
  | nil => rfl
  | cons c cs ih =>
    have hc : c < 128 := h c (by simp)
    have : utf8encChar c = [c] := by simp [utf8encChar, hc]
    simp only [utf8enc, List.flatMap_cons, this]
    have := ih (fun x hx => h x (by simp [hx]))
    simp only [utf8enc] at this
    simp [this]

/-- a byte of the base64 alphabet or the pad character -/
private def isB64 (c : Nat) : Bool := (a2bVal c).isSome || c == 61

private theorem b2aChar_isB64 : ∀ n : Fin 64, isB64 (b2aChar n.val) = true := by decide +kernel

private theorem b2a_chars : ∀ (bs : NBytes), (∀ b ∈ bs, b < 256) → ∀ c ∈ b2a bs, isB64 c = true := by
  intro bs
  induction bs using b2a.induct with
  | case1 a b c rest ih =>
    intro h x hx
    have ha : a < 256 := h a (by simp)
    have hb : b < 256 := h b (by simp)
    have hc : c < 256 := h c (by simp)
    rw [b2a] at hx
    simp only [List.mem_cons] at hx
    rcases hx with rfl | rfl | rfl | rfl | hx
    · exact b2aChar_isB64 ⟨_, by omega⟩
    · exact b2aChar_isB64 ⟨_, by omega⟩
    · exact b2aChar_isB64 ⟨_, by omega⟩
    · exact b2aChar_isB64 ⟨_, by omega⟩
    · exact ih (fun y hy => h y (by simp [hy])) x hx
  | case2 a b =>
    intro h x hx
    have ha : a < 256 := h a (by simp)
    have hb : b < 256 := h b (by simp)
    rw [b2a] at hx
    simp only [List.mem_cons, List.not_mem_nil, or_false] at hx
    rcases hx with rfl | rfl | rfl | rfl
    · exact b2aChar_isB64 ⟨_, by omega⟩
    · exact b2aChar_isB64 ⟨_, by omega⟩
    · exact b2aChar_isB64 ⟨_, by omega⟩
    · decide
  | case3 a =>
    intro h x hx
    have ha : a < 256 := h a (by simp)
    rw [b2a] at hx
    simp only [List.mem_cons, List.not_mem_nil, or_false] at hx
    rcases hx with rfl | rfl | rfl | rfl
    · exact b2aChar_isB64 ⟨_, by omega⟩
    · exact b2aChar_isB64 ⟨_, by omega⟩
    · decide
    · decide
  | case4 => intro _ x hx; simp [b2a] at hx

private theorem isB64_lt (c : Nat) (h : isB64 c = true) : c < 128 := by
  unfold isB64 a2bVal at h
  by_cases h1 : 65 ≤ c ∧ c ≤ 90
  · omega
  by_cases h2 : 97 ≤ c ∧ c ≤ 122
  · omega
  by_cases h3 : 48 ≤ c ∧ c ≤ 57
  · omega
  by_cases h4 : c = 43
  · omega
  by_cases h5 : c = 47
  · omega
  simp [h1, h2, h3, h4, h5] at h
  omega

private theorem isB64_nospace_fin : ∀ c : Fin 128, isB64 c.val = true → genIsSpace c.val = false := by decide +kernel

private theorem isB64_nospace (c : Nat) (h : isB64 c = true) : genIsSpace c = false :=
  isB64_nospace_fin ⟨c, isB64_lt c h⟩ h

private theorem b2a_ne_nil (bs : NBytes) (h : bs ≠ []) : b2a bs ≠ [] := by
  match bs, h with
  | [a], _ => simp [b2a]
  | [a, b], _ => simp [b2a]
  | a :: b :: c :: rest, _ => simp [b2a]

private theorem splitWs_two_nl (sp : Nat → Bool) (a b : Text) (ha : ∀ c ∈ a, sp c = false)
    (hb : ∀ c ∈ b, sp c = false) (hane : a ≠ []) (hbne : b ≠ []) (hsp : sp 32 = true) (hnl : sp 10 = true) :
    splitWs sp (a ++ 32 :: (b ++ [10])) = [a, b] := by
  unfold splitWs
  rw [splitWsAux_word sp a ha]
  have h1 : (a.reverse ++ ([] : Text)).isEmpty = false := by
    cases a with
    | nil => exact absurd rfl hane
    | cons x xs => simp
  simp only [splitWsAux, hsp, if_true, h1, Bool.false_eq_true, if_false]
  rw [splitWsAux_word sp b hb]
  have h2 : (b.reverse ++ ([] : Text)).isEmpty = false := by
    cases b with
    | nil => exact absurd rfl hbne
    | cons x xs => simp
  simp [splitWsAux, hnl, hbne]

/-- a Unicode scalar value (what a Python `str` that can be UTF-8-encoded consists of) -/
def Scalar (c : Nat) : Prop := c < 0x110000 ∧ ¬ (0xD800 ≤ c ∧ c ≤ 0xDFFF)

private theorem decFR_char (c : Nat) (hc : Scalar c) (rest : NBytes) (f : Nat)
    (hf : (utf8encChar c ++ rest).length ≤ f) :
    ∃ f', rest.length ≤ f' ∧ decFR f (utf8encChar c ++ rest) = c :: decFR f' rest := by
  obtain ⟨hlt, hns⟩ := hc
  unfold utf8encChar at hf ⊢
  by_cases h1 : c < 0x80
  · simp only [h1, if_true] at hf ⊢
    cases f with
    | zero => simp at hf
    | succ f =>
      refine ⟨f, by simp at hf; omega, ?_⟩
      simp [decFR, decStepR, h1]
  · simp only [h1, if_false] at hf ⊢
    by_cases h2 : c < 0x800
    · simp only [h2, if_true] at hf ⊢
      cases f with
      | zero => simp at hf
      | succ f =>
        refine ⟨f, by simp at hf; omega, ?_⟩
        have a1 : ¬ (0xC0 + c / 64 < 0x80) := by omega
        have a2 : 0xC2 ≤ 0xC0 + c / 64 ∧ 0xC0 + c / 64 ≤ 0xDF := by omega
        have a3 : isCont (0x80 + c % 64) = true := by simp [isCont]; omega
        have a4 : (0xC0 + c / 64 - 0xC0) * 64 + (0x80 + c % 64 - 0x80) = c := by omega
        simp only [List.cons_append, List.nil_append, decFR, decStepR, a1, if_false, a2, and_self, if_true, a3, a4]
        simp
    · simp only [h2, if_false] at hf ⊢
      by_cases h3 : c < 0x10000
      · simp only [h3, if_true] at hf ⊢
        cases f with
        | zero => simp at hf
        | succ f =>
          refine ⟨f, by simp at hf; omega, ?_⟩
          have a1 : ¬ (0xE0 + c / 4096 < 0x80) := by omega
          have a2 : ¬ (0xC2 ≤ 0xE0 + c / 4096 ∧ 0xE0 + c / 4096 ≤ 0xDF) := by omega
          have a3 : 0xE0 ≤ 0xE0 + c / 4096 ∧ 0xE0 + c / 4096 ≤ 0xEF := by omega
          have a4 : ok3 (0xE0 + c / 4096) (0x80 + c / 64 % 64) = true := by
            simp only [ok3, isCont, Bool.and_eq_true, Bool.or_eq_true, decide_eq_true_eq, bne_iff_ne, ne_eq]
            refine ⟨⟨⟨by omega, by omega⟩, ?_⟩, ?_⟩
            · by_cases he : 0xE0 + c / 4096 = 0xE0
              · right; omega
              · left; exact he
            · by_cases he : 0xE0 + c / 4096 = 0xED
              · right; omega
              · left; exact he
          have a5 : isCont (0x80 + c % 64) = true := by simp [isCont]; omega
          have a6 : (0xE0 + c / 4096 - 0xE0) * 4096 + (0x80 + c / 64 % 64 - 0x80) * 64 + (0x80 + c % 64 - 0x80) = c := by
            omega
          simp only [List.cons_append, List.nil_append, decFR, decStepR, a1, if_false, a2, a3, and_self, if_true, a4,
            Bool.not_true, Bool.false_eq_true, a5, a6]
          simp
      · simp only [h3, if_false] at hf ⊢
        cases f with
        | zero => simp at hf
        | succ f =>
          refine ⟨f, by simp at hf; omega, ?_⟩
          have a1 : ¬ (0xF0 + c / 262144 < 0x80) := by omega
          have a2 : ¬ (0xC2 ≤ 0xF0 + c / 262144 ∧ 0xF0 + c / 262144 ≤ 0xDF) := by omega
          have a3 : ¬ (0xE0 ≤ 0xF0 + c / 262144 ∧ 0xF0 + c / 262144 ≤ 0xEF) := by omega
          have a3' : 0xF0 ≤ 0xF0 + c / 262144 ∧ 0xF0 + c / 262144 ≤ 0xF4 := by omega
          have a4 : ok4 (0xF0 + c / 262144) (0x80 + c / 4096 % 64) = true := by
            simp only [ok4, isCont, Bool.and_eq_true, Bool.or_eq_true, decide_eq_true_eq, bne_iff_ne, ne_eq]
            refine ⟨⟨⟨by omega, by omega⟩, ?_⟩, ?_⟩
            · by_cases he : 0xF0 + c / 262144 = 0xF0
              · right; omega
              · left; exact he
            · by_cases he : 0xF0 + c / 262144 = 0xF4
              · right; omega
              · left; exact he
          have a5 : isCont (0x80 + c / 64 % 64) = true := by simp [isCont]; omega
          have a5' : isCont (0x80 + c % 64) = true := by simp [isCont]; omega
          have a6 : (0xF0 + c / 262144 - 0xF0) * 262144 + (0x80 + c / 4096 % 64 - 0x80) * 4096 +
              (0x80 + c / 64 % 64 - 0x80) * 64 + (0x80 + c % 64 - 0x80) = c := by omega
          simp only [List.cons_append, List.nil_append, decFR, decStepR, a1, if_false, a2, a3, a3', and_self, if_true, a4,
            Bool.not_true, Bool.false_eq_true, a5, a5', a6]
          simp

private theorem decFR_enc (t : Text) (ht : ∀ c ∈ t, Scalar c) :
    ∀ f, (utf8enc t).length ≤ f → decFR f (utf8enc t) = t := by
  induction t with
  | nil => intro f _; cases f <;> simp [utf8enc, decFR]
  | cons c cs ih =>
    intro f hf
    have henc : utf8enc (c :: cs) = utf8encChar c ++ utf8enc cs := by simp [utf8enc]
    rw [henc] at hf ⊢
    obtain ⟨f', hf', heq⟩ := decFR_char c (ht c (by simp)) (utf8enc cs) f hf
    rw [heq, ih (fun x hx => ht x (by simp [hx])) f' hf']

/-- **UTF-8 round trip** for the transcribed `bytes.decode("utf8", "replace")`: decoding inverts `str.encode` on every
    text of Unicode scalar values (no U+FFFD is ever produced for well-formed input). -/
theorem utf8_roundtrip (t : Text) (ht : ∀ c ∈ t, Scalar c) : utf8decR (utf8enc t) = t :=
  decFR_enc t ht _ (Nat.le_refl _)

private theorem decFB_char (c : Nat) (hc : Scalar c) (rest : NBytes) (f : Nat)
    (hf : (utf8encChar c ++ rest).length ≤ f) :
    ∃ f', rest.length ≤ f' ∧ decFB f (utf8encChar c ++ rest) = c :: decFB f' rest := by
  obtain ⟨hlt, hns⟩ := hc
  unfold utf8encChar at hf ⊢
  by_cases h1 : c < 0x80
  · simp only [h1, if_true] at hf ⊢
    cases f with
    | zero => simp at hf
    | succ f =>
      refine ⟨f, by simp at hf; omega, ?_⟩
      simp [decFB, decStepE, h1]
  · simp only [h1, if_false] at hf ⊢
    by_cases h2 : c < 0x800
    · simp only [h2, if_true] at hf ⊢
      cases f with
      | zero => simp at hf
      | succ f =>
        refine ⟨f, by simp at hf; omega, ?_⟩
        have a1 : ¬ (0xC0 + c / 64 < 0x80) := by omega
        have a2 : 0xC2 ≤ 0xC0 + c / 64 ∧ 0xC0 + c / 64 ≤ 0xDF := by omega
        have a3 : isCont (0x80 + c % 64) = true := by simp [isCont]; omega
        have a4 : (0xC0 + c / 64 - 0xC0) * 64 + (0x80 + c % 64 - 0x80) = c := by omega
        simp only [List.cons_append, List.nil_append, decFB, decStepE, a1, if_false, a2, and_self, if_true, a3, a4]
        simp
    · simp only [h2, if_false] at hf ⊢
      by_cases h3 : c < 0x10000
      · simp only [h3, if_true] at hf ⊢
        cases f with
        | zero => simp at hf
        | succ f =>
          refine ⟨f, by simp at hf; omega, ?_⟩
          have a1 : ¬ (0xE0 + c / 4096 < 0x80) := by omega
          have a2 : ¬ (0xC2 ≤ 0xE0 + c / 4096 ∧ 0xE0 + c / 4096 ≤ 0xDF) := by omega
          have a3 : 0xE0 ≤ 0xE0 + c / 4096 ∧ 0xE0 + c / 4096 ≤ 0xEF := by omega
          have a4 : ok3 (0xE0 + c / 4096) (0x80 + c / 64 % 64) = true := by
            simp only [ok3, isCont, Bool.and_eq_true, Bool.or_eq_true, decide_eq_true_eq, bne_iff_ne, ne_eq]
            refine ⟨⟨⟨by omega, by omega⟩, ?_⟩, ?_⟩
            · by_cases he : 0xE0 + c / 4096 = 0xE0
              · right; omega
              · left; exact he
            · by_cases he : 0xE0 + c / 4096 = 0xED
              · right; omega
              · left; exact he
          have a5 : isCont (0x80 + c % 64) = true := by simp [isCont]; omega
          have a6 : (0xE0 + c / 4096 - 0xE0) * 4096 + (0x80 + c / 64 % 64 - 0x80) * 64 + (0x80 + c % 64 - 0x80) = c := by
            omega
          simp only [List.cons_append, List.nil_append, decFB, decStepE, a1, if_false, a2, a3, and_self, if_true, a4,
            Bool.not_true, Bool.false_eq_true, a5, a6]
          simp
      · simp only [h3, if_false] at hf ⊢
        cases f with
        | zero => simp at hf
        | succ f =>
          refine ⟨f, by simp at hf; omega, ?_⟩
          have a1 : ¬ (0xF0 + c / 262144 < 0x80) := by omega
          have a2 : ¬ (0xC2 ≤ 0xF0 + c / 262144 ∧ 0xF0 + c / 262144 ≤ 0xDF) := by omega
          have a3 : ¬ (0xE0 ≤ 0xF0 + c / 262144 ∧ 0xF0 + c / 262144 ≤ 0xEF) := by omega
          have a3' : 0xF0 ≤ 0xF0 + c / 262144 ∧ 0xF0 + c / 262144 ≤ 0xF4 := by omega
          have a4 : ok4 (0xF0 + c / 262144) (0x80 + c / 4096 % 64) = true := by
            simp only [ok4, isCont, Bool.and_eq_true, Bool.or_eq_true, decide_eq_true_eq, bne_iff_ne, ne_eq]
            refine ⟨⟨⟨by omega, by omega⟩, ?_⟩, ?_⟩
            · by_cases he : 0xF0 + c / 262144 = 0xF0
              · right; omega
              · left; exact he
            · by_cases he : 0xF0 + c / 262144 = 0xF4
              · right; omega
              · left; exact he
          have a5 : isCont (0x80 + c / 64 % 64) = true := by simp [isCont]; omega
          have a5' : isCont (0x80 + c % 64) = true := by simp [isCont]; omega
          have a6 : (0xF0 + c / 262144 - 0xF0) * 262144 + (0x80 + c / 4096 % 64 - 0x80) * 4096 +
              (0x80 + c / 64 % 64 - 0x80) * 64 + (0x80 + c % 64 - 0x80) = c := by omega
          simp only [List.cons_append, List.nil_append, decFB, decStepE, a1, if_false, a2, a3, a3', and_self, if_true, a4,
            Bool.not_true, Bool.false_eq_true, a5, a5', a6]
          simp

private theorem decFB_enc (t : Text) (ht : ∀ c ∈ t, Scalar c) :
    ∀ f, (utf8enc t).length ≤ f → decFB f (utf8enc t) = t := by
  induction t with
  | nil => intro f _; cases f <;> simp [utf8enc, decFB]
  | cons c cs ih =>
    intro f hf
    have henc : utf8enc (c :: cs) = utf8encChar c ++ utf8enc cs := by simp [utf8enc]
    rw [henc] at hf ⊢
    obtain ⟨f', hf', heq⟩ := decFB_char c (ht c (by simp)) (utf8enc cs) f hf
    rw [heq, ih (fun x hx => ht x (by simp [hx])) f' hf']

/-- **UTF-8 round trip for `bytes.decode("utf-8", "backslashreplace")`** (SOCKS5 credentials): no escape is ever
    produced for well-formed input -/
theorem utf8_roundtrip_backslashreplace (t : Text) (ht : ∀ c ∈ t, Scalar c) : utf8decBS (utf8enc t) = t :=
  decFB_enc t ht _ (Nat.le_refl _)

/-! ### what the decoders hand to the validator is always encodable text -/

private theorem decStepE_scalar (bs : NBytes) (hb : ∀ b ∈ bs, b < 256) (c : Nat)
    (h : (decStepE bs).1 = some c) : Scalar c := by
  unfold decStepE at h
  cases bs with
  | nil => simp at h
  | cons n0 t =>
    simp only at h
    have h0 : n0 < 256 := hb n0 (by simp)
    split at h
    · simp at h; subst h; exact ⟨by omega, by omega⟩
    · split at h
      · cases t with
        | nil => simp at h
        | cons n1 t1 =>
          simp only at h
          split at h
          · rename_i hc1
            simp [isCont] at hc1
            simp at h; subst h; exact ⟨by omega, by omega⟩
          · simp at h
      · split at h
        · cases t with
          | nil => simp at h
          | cons n1 t1 =>
            simp only at h
            split at h
            · simp at h
            · rename_i hok
              cases t1 with
              | nil => simp at h
              | cons n2 t2 =>
                simp only at h
                split at h
                · rename_i hc2
                  simp [isCont] at hc2
                  simp [ok3, isCont] at hok
                  simp at h; subst h
                  refine ⟨by omega, ?_⟩
                  rcases hok with ⟨⟨_, he0⟩, hed⟩
                  by_cases hE : n0 = 0xED
                  · have := hed hE; omega
                  · omega
                · simp at h
        · split at h
          · cases t with
            | nil => simp at h
            | cons n1 t1 =>
              simp only at h
              split at h
              · simp at h
              · rename_i hok
                cases t1 with
                | nil => simp at h
                | cons n2 t2 =>
                  simp only at h
                  split at h
                  · simp at h
                  · rename_i hc2
                    cases t2 with
                    | nil => simp at h
                    | cons n3 t3 =>
                      simp only at h
                      split at h
                      · rename_i hc3
                        simp [isCont] at hc2 hc3
                        simp [ok4, isCont] at hok
                        simp at h; subst h
                        rcases hok with ⟨⟨_, hf0⟩, hf4⟩
                        constructor
                        · by_cases hF : n0 = 0xF4
                          · have := hf4 hF; omega
                          · omega
                        · by_cases hF : n0 = 0xF0
                          · have := hf0 hF; omega
                          · omega
                      · simp at h
          · simp at h

private theorem bsEscape_scalar (b : Nat) (hb : b < 256) : ∀ c ∈ bsEscape b, Scalar c := by
  intro c hc
  have h1 : b / 16 < 16 := by omega
  have h2 : b % 16 < 16 := by omega
  simp only [bsEscape, List.mem_cons, List.not_mem_nil, or_false] at hc
  have hd : ∀ n, n < 16 → hexDigitN n < 128 := by
    intro n hn; unfold hexDigitN; split <;> omega
  rcases hc with rfl | rfl | rfl | rfl
  · exact ⟨by omega, by omega⟩
  · exact ⟨by omega, by omega⟩
  · have := hd _ h1; exact ⟨by omega, by omega⟩
  · have := hd _ h2; exact ⟨by omega, by omega⟩

private theorem decFB_scalar : ∀ (f : Nat) (bs : NBytes), (∀ b ∈ bs, b < 256) → ∀ c ∈ decFB f bs, Scalar c := by
  intro f
  induction f with
  | zero => intro bs _ c hc; cases bs <;> simp [decFB] at hc
  | succ f ih =>
    intro bs hb c hc
    cases bs with
    | nil => simp [decFB] at hc
    | cons b t =>
      simp only [decFB, List.mem_append] at hc
      rcases hc with hc | hc
      · cases hs : (decStepE (b :: t)).1 with
        | some x =>
          simp only [hs, List.mem_singleton] at hc
          subst hc
          exact decStepE_scalar (b :: t) hb _ hs
        | none =>
          simp only [hs, List.mem_flatMap] at hc
          obtain ⟨y, hy, hcy⟩ := hc
          exact bsEscape_scalar y (hb y (List.mem_of_mem_take hy)) c hcy
      · exact ih _ (fun y hy => hb y (List.mem_of_mem_drop hy)) c hc

/-- **the SOCKS5 user / password handed to the validator are texts of Unicode scalar values** for EVERY byte string the
    client sends (a decoded code point is never a surrogate or above U+10FFFF; a malformed range becomes ASCII
    `\xNN` escapes) — so the validator's own `password.encode("utf-8")` cannot fail on them. -/
theorem socks_decoded_text_is_scalar (b : Bytes) : ∀ c ∈ utf8decBS (b.map (·.toNat)), Scalar c := by
  apply decFB_scalar
  intro x hx
  simp only [List.mem_map] at hx
  obtain ⟨y, _, rfl⟩ := hx
  exact UInt8.toNat_lt y

private theorem decStepR_eq (n0 : Nat) (t : NBytes) :
    decStepR (n0 :: t) = (((decStepE (n0 :: t)).1).getD 0xFFFD, (decStepE (n0 :: t)).2) := by
  unfold decStepR decStepE
  · simp only
    split
    · rfl
    · split
      · cases t with
        | nil => rfl
        | cons n1 t1 => simp only; split <;> rfl
      · split
        · cases t with
          | nil => rfl
          | cons n1 t1 =>
            simp only
            split
            · rfl
            · cases t1 with
              | nil => rfl
              | cons n2 t2 => simp only; split <;> rfl
        · split
          · cases t with
            | nil => rfl
            | cons n1 t1 =>
              simp only
              split
              · rfl
              · cases t1 with
                | nil => rfl
                | cons n2 t2 =>
                  simp only
                  split
                  · rfl
                  · cases t2 with
                    | nil => rfl
                    | cons n3 t3 => simp only; split <;> rfl
          · rfl

private theorem decFR_scalar : ∀ (f : Nat) (bs : NBytes), (∀ b ∈ bs, b < 256) → ∀ c ∈ decFR f bs, Scalar c := by
  intro f
  induction f with
  | zero => intro bs _ c hc; cases bs <;> simp [decFR] at hc
  | succ f ih =>
    intro bs hb c hc
    cases bs with
    | nil => simp [decFR] at hc
    | cons b t =>
      simp only [decFR, List.mem_cons] at hc
      rcases hc with rfl | hc
      · rw [decStepR_eq]
        cases hs : (decStepE (b :: t)).1 with
        | some x => simpa using decStepE_scalar (b :: t) hb _ hs
        | none => exact ⟨by simp, by simp⟩
      · exact ih _ (fun y hy => hb y (List.mem_of_mem_drop hy)) c hc

private theorem a2bVal_lt (c v : Nat) (h : a2bVal c = some v) : v < 64 := by
  unfold a2bVal at h
  split at h
  · simp at h; omega
  · split at h
    · simp at h; omega
    · split at h
      · simp at h; omega
      · split at h
        · simp at h; omega
        · split at h
          · simp at h; omega
          · simp at h

/-- the left-over bits fit the quad position -/
private def StOk (s : St) : Prop :=
  (s.quad = 1 → s.left < 64) ∧ (s.quad = 2 → s.left < 16) ∧ (s.quad = 3 → s.left < 4) ∧ s.quad < 4 ∧
  ∀ b ∈ s.out, b < 256

private theorem a2bLoop_bytes : ∀ (data : NBytes) (s : St), StOk s → ∀ r, a2bLoop data s = some r → ∀ b ∈ r, b < 256 := by
  intro data
  induction data with
  | nil =>
    intro s hs r h b hb
    simp only [a2bLoop] at h
    split at h
    · cases h
    · simp only [Option.some.injEq] at h; subst h
      exact hs.2.2.2.2 b (by simpa using hb)
  | cons c cs ih =>
    intro s hs r h
    rw [a2bLoop] at h
    split at h
    · split at h
      · simp only [Option.some.injEq] at h; subst h
        intro b hb; exact hs.2.2.2.2 b (by simpa using hb)
      · refine ih _ ?_ r h
        split
        · exact hs
        · exact hs
    · cases hv : a2bVal c with
      | none => simp only [hv] at h; exact ih s hs r h
      | some v =>
        have hv64 := a2bVal_lt c v hv
        simp only [hv] at h
        obtain ⟨h1, h2, h3, h4, hout⟩ := hs
        by_cases q0 : s.quad = 0
        · have h' : a2bLoop cs ⟨1, v, 0, s.out⟩ = some r := by simpa [q0] using h
          exact ih ⟨1, v, 0, s.out⟩ ⟨fun _ => hv64, by simp, by simp, by simp, hout⟩ r h'
        by_cases q1 : s.quad = 1
        · have h' : a2bLoop cs ⟨2, v % 16, 0, (s.left * 4 + v / 16) :: s.out⟩ = some r := by simpa [q1] using h
          refine ih ⟨2, v % 16, 0, (s.left * 4 + v / 16) :: s.out⟩
            ⟨by simp, fun _ => by show v % 16 < 16; omega, by simp, by simp, ?_⟩ r h'
          intro b hb
          simp only [List.mem_cons] at hb
          rcases hb with rfl | hb
          · have := h1 q1; omega
          · exact hout b hb
        by_cases q2 : s.quad = 2
        · have h' : a2bLoop cs ⟨3, v % 4, 0, (s.left * 16 + v / 4) :: s.out⟩ = some r := by simpa [q2] using h
          refine ih ⟨3, v % 4, 0, (s.left * 16 + v / 4) :: s.out⟩
            ⟨by simp, by simp, fun _ => by show v % 4 < 4; omega, by simp, ?_⟩ r h'
          intro b hb
          simp only [List.mem_cons] at hb
          rcases hb with rfl | hb
          · have := h2 q2; omega
          · exact hout b hb
        · have q3 : s.quad = 3 := by omega
          have h' : a2bLoop cs ⟨0, 0, 0, (s.left * 64 + v) :: s.out⟩ = some r := by simpa [q3] using h
          refine ih ⟨0, 0, 0, (s.left * 64 + v) :: s.out⟩ ⟨by simp, by simp, by simp, by simp, ?_⟩ r h'
          intro b hb
          simp only [List.mem_cons] at hb
          rcases hb with rfl | hb
          · have := h3 q3; omega
          · exact hout b hb

/-- `a2b_base64` yields bytes -/
theorem a2b_bytes (data r : NBytes) (h : a2b data = some r) : ∀ b ∈ r, b < 256 :=
  a2bLoop_bytes data {} ⟨by simp, by simp, by simp, by simp, by simp⟩ r h

/-- **whatever token a client presents, the user / password text that reaches the validator consists of Unicode
    scalar values** (`bytes.decode("utf8", "replace")` never yields a surrogate): together with
    `socks_decoded_text_is_scalar`, the validator's `password.encode("utf-8")` cannot raise on any path. -/
theorem basic_decoded_text_is_scalar (tok txt : Text) (h : decodeCredStd tok = some txt) : ∀ c ∈ txt, Scalar c := by
  have hb : ∀ raw, a2b (utf8enc tok) = some raw → ∀ b ∈ raw, b < 256 := fun raw hr => a2b_bytes _ raw hr
  unfold decodeCredStd at h
  cases hr : a2b (utf8enc tok) with
  | none => simp [hr] at h
  | some raw =>
    simp only [hr, Option.map_some, Option.some.injEq] at h
    subst h
    exact decFR_scalar _ raw (hb raw hr)

/-- the standard library of the running interpreter: the regenerated `str.isspace` / `str.lower` tables, and
    `a2b_base64` / `str.encode` as transcribed; the UTF-8 "replace" decoder `dec` is the remaining parameter -/
structure StdLib (L : Lib) (dec : NBytes → Text) : Prop where
  space : L.isSpace = genIsSpace
  lower : L.lower = genLower
  decode : L.decodeCred = decodeCredWith dec

private theorem std_token (L : Lib) (dec : NBytes → Text) (hL : StdLib L dec) (u p : Text)
    (hrange : ∀ c ∈ u ++ 58 :: p, c < 0x110000) (hdec : dec (utf8enc (u ++ 58 :: p)) = u ++ 58 :: p) :
    let tok := b2a (utf8enc (u ++ 58 :: p))
    (∀ c ∈ tok, L.isSpace c = false) ∧ tok ≠ [] ∧ tok.any isSurrogate = false ∧
      L.decodeCred tok = some (u ++ 58 :: p) := by
  intro tok
  have hb : ∀ b ∈ utf8enc (u ++ 58 :: p), b < 256 := utf8enc_lt _ hrange
  have hchars := b2a_chars _ hb
  have hne : utf8enc (u ++ 58 :: p) ≠ [] := by
    have : (58 : Nat) ∈ utf8enc (u ++ 58 :: p) := by
      simp only [utf8enc, List.mem_flatMap]
      exact ⟨58, by simp, by simp [utf8encChar]⟩
    intro h0; rw [h0] at this; simp at this
  refine ⟨?_, b2a_ne_nil _ hne, ?_, ?_⟩
  · intro c hc; rw [hL.space]; exact isB64_nospace c (hchars c hc)
  · rw [List.any_eq_false]
    intro c hc
    have := isB64_lt c (hchars c hc)
    simp [isSurrogate]; omega
  · rw [hL.decode]
    unfold decodeCredWith
    rw [utf8enc_ascii tok (fun c hc => isB64_lt c (hchars c hc))]
    show (a2b (b2a (utf8enc (u ++ 58 :: p)))).map dec = _
    rw [b64_roundtrip _ hb]
    simp [hdec]

/-- **`mkauth` output parses back** (the transcribed `b2a_base64`, `str.encode`, `str.split`, `a2b_base64`, first-colon
    split compose to the identity): for every user without ':' and every password — colons allowed — provided UTF-8
    decoding inverts encoding on the text `u:p`. -/
theorem mkauth_parses (L : Lib) (dec : NBytes → Text) (hL : StdLib L dec) (u p : Text)
    (hrange : ∀ c ∈ u ++ 58 :: p, c < 0x110000) (hdec : dec (utf8enc (u ++ 58 :: p)) = u ++ 58 :: p)
    (hu : ∀ c ∈ u, c ≠ 58) :
    parseBasic L (mkauth u p) = some (u, p) := by
  obtain ⟨hnows, hne, hsur, hdc⟩ := std_token L dec hL u p hrange hdec
  have hshape : mkauth u p = basicWord ++ 32 :: (b2a (utf8enc (u ++ 58 :: p)) ++ [10]) := by
    simp [mkauth, basicWord]
  have hbw : ∀ c ∈ basicWord, L.isSpace c = false := by
    rw [hL.space]; decide +kernel
  have hsplit := splitWs_two_nl L.isSpace basicWord _ hbw hnows (by decide) hne
    (by rw [hL.space]; decide +kernel) (by rw [hL.space]; decide +kernel)
  unfold parseBasic parseBasicWith
  rw [hshape, hsplit]
  have hlow : basicWord.map L.lower = basicWord := by rw [hL.lower]; decide +kernel
  simp [hlow, hsur, hdc, splitColon1_first u p hu]

/-- a standard `Basic <base64(utf8(u:p))>` credential (scheme in any of the usual spellings) is well-formed -/
theorem standard_credential_wellformed (L : Lib) (dec : NBytes → Text) (hL : StdLib L dec) (scheme u p : Text)
    (hscheme : scheme = strText "Basic" ∨ scheme = strText "basic" ∨ scheme = strText "BASIC")
    (hrange : ∀ c ∈ u ++ 58 :: p, c < 0x110000) (hdec : dec (utf8enc (u ++ 58 :: p)) = u ++ 58 :: p)
    (hu : ∀ c ∈ u, c ≠ 58) :
    WellFormedCred L (scheme ++ 32 :: b2a (utf8enc (u ++ 58 :: p))) u p := by
  obtain ⟨hnows, hne, hsur, hdc⟩ := std_token L dec hL u p hrange hdec
  refine ⟨scheme, _, rfl, by rw [hL.space]; decide +kernel, ?_, ?_, hnows, hne, hsur, hdc, hu⟩
  · rw [hL.lower]; rcases hscheme with rfl | rfl | rfl <;> decide +kernel
  · rw [hL.space]; rcases hscheme with rfl | rfl | rfl <;> decide +kernel

/-- **C20 (standard credentials are accepted on every HTTP path).**  No hypothesis about the token is left: if the
    validator accepts `(u, p)` and the path's credential header is `Basic base64(utf8(u:p))`, a plain request is
    forwarded and a CONNECT establishes the tunnel and memoises the connection — `p` may contain ':'. -/
theorem standard_credentials_accepted_on_every_path (L : Lib) (dec : NBytes → Text) (hL : StdLib L dec)
    (v : Validator) (m : Mode) (σ : State) (cid : Nat) (u p : Text) (hacc : v.accepts L u p = true)
    (hrange : ∀ c ∈ u ++ 58 :: p, c < 0x110000) (hdec : dec (utf8enc (u ++ 58 :: p)) = u ++ 58 :: p)
    (hu : ∀ c ∈ u, c ≠ 58) (hs : List Hdr) (t big : Bool)
    (hval : hdrGet hs (authName m) = strText "Basic" ++ 32 :: b2a (utf8enc (u ++ 58 :: p)))
    (hp : σ.phase cid = .http t) :
    (∃ hs', (step L (some v) m σ cid (.req false false hs)).2 = .fwd hs') ∧
    (m.isHttpProxy = true → t = false →
      (step L (some v) m σ cid (.req true big hs)).2 = .tunnel ∧
      cid ∈ (step L (some v) m σ cid (.req true big hs)).1.authd) := by
  have hw : WellFormedCred L (hdrGet hs (authName m)) u p := by
    rw [hval]; exact standard_credential_wellformed L dec hL _ u p (Or.inl rfl) hrange hdec hu
  have := (validator_accepts_implies_path_accepts L v m σ cid u p hacc).1 hs t big hw hp
  exact ⟨this.1, fun hm ht => ⟨(this.2 hm ht).1, (this.2 hm ht).2.1⟩⟩

/-! ### nothing left as a parameter on the token path -/

/-- the interpreter's library on the token path, every part transcribed: `str.isspace` / `str.lower` tables
    (regenerated), `str.encode`, `binascii.a2b_base64`, `bytes.decode("utf8", "replace")` -/
structure StdLibFull (L : Lib) : Prop where
  space : L.isSpace = genIsSpace
  lower : L.lower = genLower
  decode : L.decodeCred = decodeCredStd

theorem StdLibFull.toStd {L : Lib} (h : StdLibFull L) : StdLib L utf8decR :=
  ⟨h.space, h.lower, by rw [h.decode]; rfl⟩

private theorem scalar_facts (t : Text) (h : ∀ c ∈ t, Scalar c) :
    (∀ c ∈ t, c < 0x110000) ∧ utf8decR (utf8enc t) = t :=
  ⟨fun c hc => (h c hc).1, utf8_roundtrip t h⟩

/-- **`mkauth` output parses back — no hypothesis about any library function**: for every user without ':' and every
    password (colons allowed) made of Unicode scalar values. -/
theorem mkauth_parses_closed (L : Lib) (hL : StdLibFull L) (u p : Text)
    (hsc : ∀ c ∈ u ++ 58 :: p, Scalar c) (hu : ∀ c ∈ u, c ≠ 58) :
    parseBasic L (mkauth u p) = some (u, p) :=
  mkauth_parses L utf8decR hL.toStd u p (scalar_facts _ hsc).1 (scalar_facts _ hsc).2 hu

/-- **C20 (every accepted pair is accepted on each HTTP path), closed form**: the validator accepts `(u, p)`, the
    path's credential header is `Basic base64(utf8(u:p))` — then a plain request is forwarded and a CONNECT establishes
    the tunnel and memoises the connection.  Hypotheses: `u` has no ':' and `u`, `p` are texts of Unicode scalar values;
    nothing about base64, UTF-8, whitespace or case folding is assumed any more. -/
theorem standard_credentials_accepted_on_every_path_closed (L : Lib) (hL : StdLibFull L)
    (v : Validator) (m : Mode) (σ : State) (cid : Nat) (u p : Text) (hacc : v.accepts L u p = true)
    (hsc : ∀ c ∈ u ++ 58 :: p, Scalar c) (hu : ∀ c ∈ u, c ≠ 58) (hs : List Hdr) (t big : Bool)
    (hval : hdrGet hs (authName m) = strText "Basic" ++ 32 :: b2a (utf8enc (u ++ 58 :: p)))
    (hp : σ.phase cid = .http t) :
    (∃ hs', (step L (some v) m σ cid (.req false false hs)).2 = .fwd hs') ∧
    (m.isHttpProxy = true → t = false →
      (step L (some v) m σ cid (.req true big hs)).2 = .tunnel ∧
      cid ∈ (step L (some v) m σ cid (.req true big hs)).1.authd) :=
  standard_credentials_accepted_on_every_path L utf8decR hL.toStd v m σ cid u p hacc
    (scalar_facts _ hsc).1 (scalar_facts _ hsc).2 hu hs t big hval hp

private theorem map_ofNat_toNat (l : NBytes) (h : ∀ b ∈ l, b < 256) :
    (l.map UInt8.ofNat).map (·.toNat) = l := by
  induction l with
  | nil => rfl
  | cons b bs ih =>
    have hb : b < 256 := h b (by simp)
    have : (UInt8.ofNat b).toNat = b := by
      simp [UInt8.toNat_ofNat']; omega
    simp [this, ih (fun x hx => h x (by simp [hx]))]

/-- **C20 (accepted pairs are accepted on SOCKS5), closed form**: the RFC 1929 message carries the UTF-8 bytes of a
    user and a password the validator accepts (any Unicode scalar values, colons and all) — the answer is `01 00` and
    the handshake continues; `bytes.decode("utf-8", "backslashreplace")` is the transcription, not a parameter. -/
theorem socks_standard_credentials_accepted (L : Lib)
    (hsd : L.sockDecode = fun b => utf8decBS (b.map (·.toNat)))
    (v : Validator) (m : Mode) (σ : State) (cid : Nat) (u p : Text) (hacc : v.accepts L u p = true)
    (hu : ∀ c ∈ u, Scalar c) (hpw : ∀ c ∈ p, Scalar c) (hp : σ.phase cid = .sAuth) :
    (step L (some v) m σ cid (.sAuth ((utf8enc u).map UInt8.ofNat) ((utf8enc p).map UInt8.ofNat))).2 = .sAuthOk ∧
    (step L (some v) m σ cid (.sAuth ((utf8enc u).map UInt8.ofNat) ((utf8enc p).map UInt8.ofNat))).1.phase cid = .sConnect := by
  have hdec : ∀ t : Text, (∀ c ∈ t, Scalar c) → L.sockDecode ((utf8enc t).map UInt8.ofNat) = t := by
    intro t ht
    rw [hsd]
    simp only
    rw [map_ofNat_toNat _ (utf8enc_lt t (fun c hc => (ht c hc).1))]
    exact utf8_roundtrip_backslashreplace t ht
  exact (validator_accepts_implies_path_accepts L v m σ cid u p hacc).2 _ _ (hdec u hu) (hdec p hpw) hp

-- backslashreplace writes one `\\xNN` per byte of a malformed range
example : utf8decBS [0xE2, 0x82, 0x41] = [92, 120, 101, 50, 92, 120, 56, 50, 0x41] := by decide +kernel

/-- the fully transcribed token decoder inverts "base64 of the UTF-8 bytes" on every text of scalar values -/
theorem decodeCredStd_b2a (t : Text) (ht : ∀ c ∈ t, Scalar c) : decodeCredStd (b2a (utf8enc t)) = some t := by
  have hb : ∀ b ∈ utf8enc t, b < 256 := utf8enc_lt t (fun c hc => (ht c hc).1)
  have hchars := b2a_chars _ hb
  unfold decodeCredStd
  rw [utf8enc_ascii _ (fun c hc => isB64_lt c (hchars c hc)), b64_roundtrip _ hb]
  simp [utf8_roundtrip t ht]

-- the decoder does replace: a truncated 3-byte sequence is ONE U+FFFD, a stray continuation byte another one
example : utf8decR [0xE2, 0x82, 0x41, 0x80] = [0xFFFD, 0x41, 0xFFFD] ∧ utf8decR (utf8enc [0x20AC, 0x1D11E]) = [0x20AC, 0x1D11E] := by
  decide +kernel

/-! ### the 401 / 407 page -/

/-- **the authentication-required answer is a constant of the path**: status 407 + `Proxy-Authenticate` for explicit
    proxies, 401 + `WWW-Authenticate` otherwise, challenge `Basic realm="mitmproxy"`, and a page that contains nothing
    but the status text (no request data can appear in it: it is a function of `isProxy` alone). -/
theorem auth_response_shape :
    authRequiredResponse true = ⟨407, "Proxy-Authenticate", "Basic realm=\"mitmproxy\"",
      "<html><head><title>407 Proxy Authentication Required</title></head><body><h1>407 Proxy Authentication Required</h1></body></html>"⟩ ∧
    authRequiredResponse false = ⟨401, "WWW-Authenticate", "Basic realm=\"mitmproxy\"",
      "<html><head><title>401 Unauthorized</title></head><body><h1>401 Unauthorized</h1></body></html>"⟩ := by
  constructor <;> decide +kernel

/-- the status the connection machine answers with is the status of that page -/
theorem deny_code_is_response_status (m : Mode) : authCode m = (authRequiredResponse m.isHttpProxy).status := by
  cases m <;> rfl

end B64

/-! ### the decision for every header list and mode; the "authenticated once" memo over whole histories -/

/-- `s.split(":", 1)` unpacked into two parts is exactly "cut at the first colon" -/
theorem splitColon1_spec (s u p : Text) :
    splitColon1 s = some (u, p) ↔ (s = u ++ 58 :: p ∧ ∀ c ∈ u, c ≠ 58) := by
  constructor
  · intro h
    induction s generalizing u with
    | nil => simp [splitColon1] at h
    | cons c cs ih =>
      by_cases hc : c = 58
      · subst hc
        simp [splitColon1] at h
        obtain ⟨rfl, rfl⟩ := h
        simp
      · simp only [splitColon1, hc, if_false, Option.map_eq_some_iff] at h
        obtain ⟨⟨u', p'⟩, hrec, heq⟩ := h
        simp only [Prod.mk.injEq] at heq
        obtain ⟨rfl, rfl⟩ := heq
        obtain ⟨rfl, hnc⟩ := ih u' hrec
        refine ⟨by simp, ?_⟩
        intro x hx
        simp only [List.mem_cons] at hx
        rcases hx with rfl | hx
        · exact hc
        · exact hnc x hx
  · rintro ⟨rfl, hu⟩
    exact splitColon1_first u p hu

/-- **the decision, for every header list and every mode** (regular, upstream, reverse, transparent, socks5 relay):
    a request of a connection that is not memoised is forwarded — without the credential fields — exactly when the
    joined value of the path's credential header parses and the validator accepts the pair; otherwise 407 / 401. -/
theorem decision_for_every_header_list (L : Lib) (v : Validator) (m : Mode) (σ : State) (cid : Nat)
    (hs : List Hdr) (t : Bool) (hp : σ.phase cid = .http t) (hna : cid ∉ σ.authd) :
    step L (some v) m σ cid (.req false false hs) =
      (σ, if credsOk L v m hs then .fwd (hdrDel hs (authName m))
          else .deny (if m.isHttpProxy then 407 else 401)) := by
  by_cases hc : credsOk L v m hs = true
  · unfold step; simp [hp, requestheadersHook, hna, authenticateHttp, hc]
  · unfold step; simp [hp, requestheadersHook, hna, authenticateHttp, hc, authCode]

/-- CONNECT at an explicit proxy: tunnel + memo exactly when the credentials are accepted, else 407 and no change -/
theorem connect_decision (L : Lib) (v : Validator) (m : Mode) (σ : State) (cid : Nat) (hs : List Hdr) (big : Bool)
    (hp : σ.phase cid = .http false) (hm : m.isHttpProxy = true) :
    step L (some v) m σ cid (.req true big hs) =
      if credsOk L v m hs
      then (({ σ with authd := cid :: σ.authd } : State).setPhase cid (.http true), .tunnel)
      else (σ, .deny 407) := by
  by_cases hc : credsOk L v m hs = true
  · unfold step; simp [hp, hm, httpConnectHook, authenticateHttp, hc]
  · unfold step; simp [hp, hm, httpConnectHook, authenticateHttp, hc, authCode]

/-- what `credsOk` means, spelled out: the joined header value is `<scheme> <token>` (split at Unicode whitespace),
    the scheme lower-cases to "basic", the token is encodable, decodes, contains a colon, and the validator accepts
    (user = text before the FIRST colon, password = everything after it) -/
theorem credsOk_iff (L : Lib) (v : Validator) (m : Mode) (hs : List Hdr) :
    credsOk L v m hs = true ↔
      ∃ scheme tok txt u p, splitWs L.isSpace (hdrGet hs (authName m)) = [scheme, tok] ∧
        scheme.map L.lower = basicWord ∧ tok.any isSurrogate = false ∧ L.decodeCred tok = some txt ∧
        txt = u ++ 58 :: p ∧ (∀ c ∈ u, c ≠ 58) ∧ v.accepts L u p = true := by
  unfold credsOk parseBasic parseBasicWith
  constructor
  · intro h
    cases hsw : splitWs L.isSpace (hdrGet hs (authName m)) with
    | nil => simp [hsw] at h
    | cons scheme l1 =>
      cases l1 with
      | nil => simp [hsw] at h
      | cons tok l2 =>
        cases l2 with
        | cons x l3 => simp [hsw] at h
        | nil =>
          simp only [hsw] at h
          by_cases h1 : scheme.map L.lower = basicWord
          · by_cases h2 : tok.any isSurrogate = true
            · simp [h1, h2] at h
            · cases hd : L.decodeCred tok with
              | none => simp [h1, h2, hd] at h
              | some txt =>
                cases hcol : splitColon1 txt with
                | none => simp [h1, h2, hd, hcol] at h
                | some up =>
                  obtain ⟨u, p⟩ := up
                  simp [h1, h2, hd, hcol] at h
                  obtain ⟨rfl, hnc⟩ := (splitColon1_spec txt u p).1 hcol
                  exact ⟨scheme, tok, _, u, p, rfl, h1, by simpa using h2, hd, rfl, hnc, h⟩
          · simp [h1] at h
  · rintro ⟨scheme, tok, txt, u, p, hsplit, h1, h2, hd, rfl, hnc, hacc⟩
    rw [hsplit]
    simp [h1, h2, hd, splitColon1_first u p hnc, hacc]

/-- a memoised connection ("authenticated once"): every later plain request passes verbatim, whatever it carries -/
theorem authenticated_connection_passes (L : Lib) (v : Validator) (m : Mode) (σ : State) (cid : Nat)
    (hs : List Hdr) (t : Bool) (hp : σ.phase cid = .http t) (ha : cid ∈ σ.authd) :
    step L (some v) m σ cid (.req false false hs) = (σ, .fwd hs) := by
  unfold step; simp [hp, requestheadersHook, ha]

/-- without `proxyauth` nothing is checked and nothing is removed -/
theorem no_validator_forwards_everything (L : Lib) (m : Mode) (σ : State) (cid : Nat) (hs : List Hdr) (t : Bool)
    (hp : σ.phase cid = .http t) :
    step L none m σ cid (.req false false hs) = (σ, .fwd hs) := by
  unfold step; simp [hp, requestheadersHook]

/-- the memo only grows, over every history -/
theorem authenticated_memo_persists (L : Lib) (v : Validator) (modes : Nat → Mode) (cid : Nat) :
    ∀ (es : List (Nat × Ev)) (σ : State), cid ∈ σ.authd → cid ∈ (finalState L (some v) modes σ es).authd := by
  intro es
  induction es with
  | nil => intro σ h; simpa [finalState] using h
  | cons x rest ih =>
    intro σ h
    obtain ⟨c0, e0⟩ := x
    simp only [finalState]
    apply ih
    obtain ⟨ha, _⟩ := step_summary L v (modes c0) σ c0 e0
    rcases ha with ha | ⟨ha, _⟩ <;> rw [ha] <;> simp [h]

/-- **no cross-connection effect**: a history without events of `cid` changes neither `cid`'s phase nor whether it
    is memoised — authentication of one client never authenticates another -/
theorem other_connections_unaffected (L : Lib) (v : Validator) (modes : Nat → Mode) (cid : Nat) :
    ∀ (es : List (Nat × Ev)) (σ : State), (∀ x ∈ es, x.1 ≠ cid) →
      (finalState L (some v) modes σ es).phase cid = σ.phase cid ∧
      (cid ∈ (finalState L (some v) modes σ es).authd ↔ cid ∈ σ.authd) := by
  intro es
  induction es with
  | nil => intro σ _; simp [finalState]
  | cons x rest ih =>
    intro σ h
    obtain ⟨c0, e0⟩ := x
    have hne : c0 ≠ cid := h (c0, e0) (by simp)
    have hrest : ∀ x ∈ rest, x.1 ≠ cid := fun x hx => h x (by simp [hx])
    simp only [finalState]
    obtain ⟨ha, hphase, _⟩ := step_summary L v (modes c0) σ c0 e0
    obtain ⟨h1, h2⟩ := ih (step L (some v) (modes c0) σ c0 e0).1 hrest
    refine ⟨by rw [h1, hphase cid (Ne.symm hne)], ?_⟩
    rw [h2]
    rcases ha with ha | ⟨ha, _⟩ <;> rw [ha]
    simp only [List.mem_cons]
    constructor
    · rintro (h' | h')
      · exact absurd h'.symm hne
      · exact h'
    · exact Or.inr

/-- tunnel / relay phases are reached only by memoised connections (reachable-state invariant) -/
private theorem tunnel_implies_memo (L : Lib) (v : Validator) (modes : Nat → Mode) :
    ∀ (es : List (Nat × Ev)) (σ : State),
      (∀ c, (σ.phase c = .http true ∨ σ.phase c = .sConnect) → c ∈ σ.authd) →
      ∀ c, ((finalState L (some v) modes σ es).phase c = .http true ∨
            (finalState L (some v) modes σ es).phase c = .sConnect) →
        c ∈ (finalState L (some v) modes σ es).authd := by
  intro es
  induction es with
  | nil => intro σ h; simpa [finalState] using h
  | cons x rest ih =>
    intro σ h
    obtain ⟨c0, e0⟩ := x
    simp only [finalState]
    apply ih
    intro c hc
    obtain ⟨ha, hphase, _, _, hmemo⟩ := step_summary L v (modes c0) σ c0 e0
    have hmono : ∀ y, y ∈ σ.authd → y ∈ (step L (some v) (modes c0) σ c0 e0).1.authd := by
      intro y hy
      rcases ha with ha | ⟨ha, _⟩ <;> rw [ha] <;> simp [hy]
    by_cases hcc : c = c0
    · subst hcc
      rcases hmemo hc with h' | h'
      · exact hmono _ (h c h')
      · exact h'
    · rw [hphase c hcc] at hc
      exact hmono _ (h c hc)

/-- **"authenticated once" over whole histories**: in every reachable state, a request arriving inside a CONNECT
    tunnel or SOCKS5 relay is forwarded verbatim and leaves the state unchanged — the connection was authenticated
    when the tunnel was requested, and is not asked again. -/
theorem tunnel_requests_forwarded_verbatim (L : Lib) (v : Validator) (modes : Nat → Mode)
    (pre : List (Nat × Ev)) (cid : Nat) (hs : List Hdr)
    (hp : (finalState L (some v) modes (State.init modes) pre).phase cid = .http true) :
    step L (some v) (modes cid) (finalState L (some v) modes (State.init modes) pre) cid (.req false false hs) =
      (finalState L (some v) modes (State.init modes) pre, .fwd hs) := by
  have hinit : ∀ c, ((State.init modes).phase c = .http true ∨ (State.init modes).phase c = .sConnect) →
      c ∈ (State.init modes).authd := by
    intro c hc
    simp only [State.init, initPhase] at hc
    split at hc <;> simp at hc
  have ha := tunnel_implies_memo L v modes pre (State.init modes) hinit cid (Or.inl hp)
  exact authenticated_connection_passes L v (modes cid) _ cid hs true hp ha

/-! ### a validator that raises -/

/-- the hooks accept a pair exactly when the validator *returns* True -/
theorem accepts_iff_check_ok (L : Lib) (v : Validator) (u p : Text) :
    v.accepts L u p = true ↔ v.check L u p = .ok true := by
  unfold Validator.accepts
  cases h : v.check L u p with
  | error e => simp
  | ok b => cases b <;> simp

/-- **fail closed under a raising validator** (bcrypt.checkpw on a password longer than 72 bytes, an LDAP error, any
    validator object whose `__call__` raises): the pair is not accepted — a plain request and a CONNECT get 407 / 401
    and nothing changes; the trace theorems above (`unauthenticated_never_forwarded`, …) therefore cover such
    validators, since `presentsAccepted` is stated with `accepts`. -/
theorem raising_validator_fails_closed (L : Lib) (v : Validator) (m : Mode) (σ : State) (cid : Nat)
    (hs : List Hdr) (t : Bool) (u p : Text)
    (hparse : parseBasic L (hdrGet hs (authName m)) = some (u, p)) (hraise : v.check L u p = .error ())
    (hp : σ.phase cid = .http t) (hna : cid ∉ σ.authd) :
    step L (some v) m σ cid (.req false false hs) = (σ, .deny (if m.isHttpProxy then 407 else 401)) ∧
    (m.isHttpProxy = true → t = false → ∀ big, step L (some v) m σ cid (.req true big hs) = (σ, .deny 407)) := by
  have hc : credsOk L v m hs = false := by
    unfold credsOk; rw [hparse]; simp [Validator.accepts, hraise]
  constructor
  · rw [decision_for_every_header_list L v m σ cid hs t hp hna]; simp [hc]
  · intro hm ht big
    subst ht
    rw [connect_decision L v m σ cid hs big hp hm]; simp [hc]

/-- … and on SOCKS5: `01 01` + close -/
theorem raising_validator_fails_closed_socks (L : Lib) (v : Validator) (m : Mode) (σ : State) (cid : Nat)
    (ub pb : Bytes) (hraise : v.check L (L.sockDecode ub) (L.sockDecode pb) = .error ())
    (hp : σ.phase cid = .sAuth) :
    step L (some v) m σ cid (.sAuth ub pb) = (σ.setPhase cid .closed, .sAuthFail) := by
  have hc : v.accepts L (L.sockDecode ub) (L.sockDecode pb) = false := by simp [Validator.accepts, hraise]
  unfold step; simp [hp, socks5AuthHook, hc]

-- a validator that raises on (u, pa:ss) and accepts everything else: the raising pair is refused, another one passes
example : (step L0 (some (.raising [([117], [112, 97, 58, 115, 115])] .any)) .regular (State.init modes0) 0
    (.req false false [⟨pa, cred0⟩])).2 = .deny 407 := by decide +kernel
example : (Validator.raising [([117], [112])] .any).check L0 [117] [112] = .error () ∧
    (Validator.raising [([117], [112])] .any).check L0 [117] [113] = .ok true := ⟨rfl, rfl⟩

-- non-vacuity: the tunnel phase is reachable (hist0 above), and the decision takes both branches
example : (finalState L0 (some single0) modes0 (State.init modes0) hist0).phase 0 = .http true := by decide +kernel
example : credsOk L0 single0 .regular [⟨pa, cred0⟩] = true ∧ credsOk L0 single0 .reverse [⟨pa, cred0⟩] = false := by
  decide +kernel
-- the transcribed base64: lenient decoding as CPython does it ("QQ=x=" ↦ b"A\x0c", "Q" is an error), mkauth("u","pa:ss")
example : B64.a2b [81, 81, 61, 120, 61] = some [65, 12] ∧ B64.a2b [81] = none ∧ B64.a2b [33, 81, 33, 81, 61, 33, 61] = some [65] := by
  decide +kernel
example : B64.mkauth [117] [112, 97, 58, 115, 115] = B64.strText "basic dTpwYTpzcw==\n" := by decide +kernel


/-! ## Round 4: the htpasswd file parser (`HtpasswdFile.__init__`) -/

section Htpasswd
open MitmVerif.C20.Ht

/-- hash formats the parser lets through -/
def KnownHash (h : Text) : Prop :=
  startsWith shaPrefix h = true ∨ bcryptPrefixes.any (fun p => startsWith p h) = true

private theorem parseLine_entry (raw u h : Text) (hl : parseLine raw = .entry u h) :
    strip raw = u ++ 58 :: h ∧ u ≠ [] ∧ (∀ c ∈ u, c ≠ 58) ∧ KnownHash h := by
  unfold parseLine at hl
  simp only at hl
  split at hl
  · cases hl
  · cases hsc : splitColon1 (strip raw) with
    | none => simp [hsc] at hl
    | some up =>
      obtain ⟨u', h'⟩ := up
      simp only [hsc] at hl
      split at hl
      · cases hl
      · rename_i hne
        split at hl
        · rename_i hk
          simp only [LineRes.entry.injEq] at hl
          obtain ⟨rfl, rfl⟩ := hl
          obtain ⟨heq, hnc⟩ := (splitColon1_spec _ _ _).1 hsc
          refine ⟨heq, ?_, hnc, ?_⟩
          · intro h0; subst h0; simp at hne
          · simpa [KnownHash, Bool.or_eq_true] using hk
        · cases hl

/-- **every entry the parser produces is well-formed**: it comes from a stripped line `user:hash` whose user is
    non-empty and free of ':' (split at the FIRST colon) and whose hash has one of the supported prefixes — for every
    file content. -/
theorem htparse_entries_wellformed :
    ∀ (ls : List Text) (es : List (Text × Text)), parseLines ls = some es →
      ∀ x ∈ es, x.1 ≠ [] ∧ (∀ c ∈ x.1, c ≠ 58) ∧ KnownHash x.2 ∧ ∃ raw ∈ ls, strip raw = x.1 ++ 58 :: x.2 := by
  intro ls
  induction ls with
  | nil => intro es h x hx; simp [parseLines] at h; subst h; simp at hx
  | cons l ls ih =>
    intro es h x hx
    simp only [parseLines] at h
    cases hl : parseLine l with
    | bad => simp [hl] at h
    | skip =>
      simp only [hl] at h
      obtain ⟨a, b, c, raw, hr, hs⟩ := ih es h x hx
      exact ⟨a, b, c, raw, by simp [hr], hs⟩
    | entry u hh =>
      simp only [hl, Option.map_eq_some_iff] at h
      obtain ⟨es', hes', rfl⟩ := h
      simp only [List.mem_cons] at hx
      rcases hx with rfl | hx
      · obtain ⟨h1, h2, h3, h4⟩ := parseLine_entry l u hh hl
        exact ⟨h2, h3, h4, l, by simp, h1⟩
      · obtain ⟨a, b, c, raw, hr, hs⟩ := ih es' hes' x hx
        exact ⟨a, b, c, raw, by simp [hr], hs⟩

/-- a malformed line anywhere makes the whole file unusable (ValueError → OptionsError at configuration time): the
    validator is never built from a partially read file -/
theorem htparse_bad_line_rejects (pre post : List Text) (l : Text) (hl : parseLine l = .bad)
    (hpre : ∀ x ∈ pre, parseLine x ≠ .bad) : parseLines (pre ++ l :: post) = none := by
  induction pre with
  | nil => simp [parseLines, hl]
  | cons a as ih =>
    have ha := hpre a (by simp)
    have ih' := ih (fun x hx => hpre x (by simp [hx]))
    simp only [List.cons_append, parseLines]
    cases hpa : parseLine a with
    | bad => exact absurd hpa ha
    | skip => simpa using ih'
    | entry u h => simp [ih']

-- "user:{SHA}x", a comment, an indented bcrypt line with CRLF, a later line for the same user wins; a plain-text hash is refused
example : (Ht.parse (B64.strText "user:{SHA}x\n# c\n  v:$2b$y  \r\nuser:{SHA}z\n")).map Ht.users =
    some [(B64.strText "user", B64.strText "{SHA}z"), (B64.strText "v", B64.strText "$2b$y")] := by decide +kernel
example : Ht.parse (B64.strText "user:plain\n") = none ∧ Ht.parse (B64.strText ":{SHA}x") = none ∧
    Ht.parse (B64.strText "nocolon") = none := by decide +kernel

end Htpasswd

/-! ### `ProxyAuth.configure` -/

/-- **which `proxyauth` values select the single-user validator**: exactly one ':' in the whole value — user and
    password are the two sides, neither contains a ':' (a password with ':' cannot be configured this way; such pairs
    are served by the htpasswd validator, for which `standard_credentials_accepted_on_every_path_closed` applies). -/
theorem configure_single_spec (a u p : Text) (h : configureSpec (some a) = .single u p) :
    a = u ++ 58 :: p ∧ (∀ c ∈ u, c ≠ 58) ∧ (∀ c ∈ p, c ≠ 58) := by
  unfold configureSpec at h
  simp only at h
  split at h
  · cases h
  · split at h
    · cases h
    · split at h
      · cases h
      · split at h
        · cases h
        · split at h
          · cases hs : splitColonAll a with
            | none => simp [hs] at h
            | some up =>
              obtain ⟨u', p'⟩ := up
              simp only [hs, Conf.single.injEq] at h
              obtain ⟨rfl, rfl⟩ := h
              unfold splitColonAll at hs
              cases hc : splitColon1 a with
              | none => simp [hc] at hs
              | some up2 =>
                obtain ⟨u2, p2⟩ := up2
                simp only [hc] at hs
                split at hs
                · cases hs
                · rename_i hnc
                  simp only [Option.some.injEq, Prod.mk.injEq] at hs
                  obtain ⟨rfl, rfl⟩ := hs
                  obtain ⟨heq, hu⟩ := (splitColon1_spec _ _ _).1 hc
                  refine ⟨heq, hu, ?_⟩
                  intro c hcm hc58
                  subst hc58
                  exact hnc (by simpa using hcm)
          · cases h

example : configureSpec (some (B64.strText "user:pa:ss")) = .invalid ∧
    configureSpec (some (B64.strText "user:pass")) = .single (B64.strText "user") (B64.strText "pass") ∧
    configureSpec (some (B64.strText "any")) = .any ∧ configureSpec (some []) = .off ∧
    configureSpec (some (B64.strText "@/etc/ht")) = .htpasswd (B64.strText "/etc/ht") ∧
    configureSpec (some (B64.strText "nocolon")) = .invalid := by decide +kernel

/-! ### the order of the default addon chain -/

/-- position of an addon in `mitmproxy.addons.default_addons()` (regenerated from the source on every run) -/
def addonIdx (name : String) : Option Nat :=
  let l := MitmVerif.Gen.C20.addonOrder
  if l.contains name then some (l.idxOf name) else none

/-- both addons are in the chain and the first runs before the second -/
def addonBefore (a b : String) : Bool :=
  match addonIdx a, addonIdx b with
  | some i, some j => decide (i < j)
  | _, _ => false

/-- **the order the models assume is the order in the source**: hooks run in list order, and the models compose the
    addons as ProxyAuth → (ScriptLoader, MapRemote, ModifyHeaders: user rewrites) → UpstreamAuth. ProxyAuth must see the
    CLIENT's credential header before UpstreamAuth writes mitmproxy's own into the same field; UpstreamAuth's `request`
    hook must run after every rewrite it is meant to react to. -/
theorem addon_order_as_assumed :
    addonBefore "ProxyAuth" "UpstreamAuth" = true ∧ addonBefore "ScriptLoader" "UpstreamAuth" = true ∧
    addonBefore "MapRemote" "UpstreamAuth" = true ∧ addonBefore "ModifyHeaders" "UpstreamAuth" = true ∧
    addonBefore "ProxyAuth" "NextLayer" = true := by
  decide +kernel

/-! ## audit round 6 (cross-audit): further non-vacuity witnesses, evaluated by the kernel -/

-- `auth_required_answer`: its hypothesis `hnone` holds after a NON-empty history (connection 1 of `hist0`, reverse mode,
-- presented a Proxy-Authorization field — the wrong field for its path — and then nothing)
example : ∀ e', (1, e') ∈ hist0.take 4 ++ [(1, Ev.req false false [])] →
    presentsAccepted L0 single0 (modes0 1) e' = false := by
  intro e' h
  simp [hist0] at h
  rcases h with h | h <;> subst h <;> decide +kernel

-- `credential_header_removed`, branch `hs' = hs`: after a non-empty history in which connection 0 authenticated on its
-- CONNECT, a later request is forwarded verbatim (the theorem's first conjunct; its second does not apply: `pre`
-- contains an accepted presentation)
example : (step L0 (some single0) (modes0 0) (finalState L0 (some single0) modes0 (State.init modes0) (hist0.take 3)) 0
    (.req false false [⟨pa, [50]⟩])).2 = .fwd [⟨pa, [50]⟩] := by decide +kernel
-- … and branch `hs' = hdrDel …` after a non-empty history without accepted credentials of that connection
example : (step L0 (some single0) (modes0 1) (finalState L0 (some single0) modes0 (State.init modes0) (hist0.take 2)) 1
    (.req false false [⟨strBytes "X-A", [49]⟩, ⟨strBytes "Authorization", cred0⟩])).2 = .fwd [⟨strBytes "X-A", [49]⟩] := by
  decide +kernel

-- the closed-form theorems (`mkauth_parses_closed`, `standard_credentials_accepted_on_every_path_closed`,
-- `socks_standard_credentials_accepted`) quantify over libraries with `StdLibFull L` / a fixed `sockDecode`: such a
-- library exists, and on it the conclusions are what the kernel computes
private def Lfull : Lib where
  isSpace := genIsSpace
  lower := genLower
  decodeCred := B64.decodeCredStd
  sockDecode := fun b => B64.utf8decBS (b.map (·.toNat))
  hashOk := fun h p => h == p

example : StdLibFull Lfull := ⟨rfl, rfl, rfl⟩
example : Lfull.sockDecode = fun b => B64.utf8decBS (b.map (·.toNat)) := rfl
example : parseBasic Lfull (B64.mkauth [117] [112, 97, 58, 115, 115]) = some ([117], [112, 97, 58, 115, 115]) := by
  decide +kernel
-- a non-ASCII password (U+20AC) with a colon, presented as `Basic base64(utf8(u:p))` on the reverse path
example : (step Lfull (some (.single [117] [0x20AC, 58, 120])) .reverse (State.init modes0) 1
    (.req false false [⟨strBytes "authorization",
      B64.strText "Basic" ++ 32 :: B64.b2a (B64.utf8enc ([117] ++ 58 :: [0x20AC, 58, 120]))⟩])).2 = .fwd [] := by
  decide +kernel
example : (step Lfull (some (.single [117] [0x20AC, 58, 120])) .socks5 ((State.init (fun _ => .socks5)).setPhase 0 .sAuth) 0
    (.sAuth ((B64.utf8enc [117]).map UInt8.ofNat) ((B64.utf8enc [0x20AC, 58, 120]).map UInt8.ofNat))).2 = .sAuthOk := by
  decide +kernel

-- a CONNECT carrying the credential twice (one of them) next to another field: both are gone from the flow's request
example : (httpConnectHook L0 (some single0) [] 0 .upstream
    [⟨strBytes "X-A", [49]⟩, ⟨pa, cred0⟩, ⟨strBytes "Host", [50]⟩]).2 =
    .pass [⟨strBytes "X-A", [49]⟩, ⟨strBytes "Host", [50]⟩] := by decide +kernel


end MitmVerif.Props.C20
