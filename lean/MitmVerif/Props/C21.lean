/-
  C21 — property theorems (SOCKS5 handshakes are parsed exactly, independent of segmentation and of the timing of
  hook / connect completions, and relay subsequent data).  Model: `MitmVerif.Model.C21`; helper lemmas:
  `MitmVerif.Lemmas.C21`.

  * `lawful`, `seg_independent`, `seg_independent_any`   — the synchronous machine is a lawful `Incremental`
  * `schedule_independent`, `schedule_and_segmentation_independent` — deferred completions change nothing
  * `connects_exactly_requested`, `requested_is_connected`            — destination = the requested one (both directions)
  * `reply_wellformed`, `success_reply_iff_accepted`                  — replies
  * `reject_codes`, `reject_closes`                                   — RFC 1928 error codes, closing
  * `after_request_relayed_once_in_order`, `relayed_only_after_request` — relay of the bytes after the request
  * `feed_nil_reachable`                                               — the empty-segment guard of the model is unobservable
  * `constants_match_code`  — the literals of the model are the SOCKS5_* constants regenerated from modes.py (Gen/C21.lean)
-/
import MitmVerif.Lemmas.C21
import MitmVerif.Lemmas.C21V6
import MitmVerif.Lemmas.C21V6Back
import MitmVerif.Lemmas.C21V6Py
import MitmVerif.Gen.C21
namespace MitmVerif.Props.C21
open MitmVerif MitmVerif.C21

/-- **C21 (lawful consumer).** Feeding `a ++ b` equals feeding `a` then `b` — from every state, for all bytes. -/
theorem lawful (env : Env) : (inc env).Lawful := feed_lawful env

/-- **C21 (segmentation independence).** For every state, every byte string and every way of cutting it into
    segments: same final state (phase + unparsed buffer) and same emitted commands (replies, hook, destination,
    connect, close, bytes given to the child) as delivering it whole. -/
theorem seg_independent (env : Env) (s : SState) (segs : List Bytes) :
    (inc env).feedAll s segs = feed env s segs.flatten :=
  Incremental.seg_independent (inc env) (lawful env) s segs

/-- any two segmentations of the same stream are indistinguishable -/
theorem seg_independent_any (env : Env) (s : SState) (a b : List Bytes) (h : a.flatten = b.flatten) :
    (inc env).feedAll s a = (inc env).feedAll s b :=
  Incremental.seg_independent' (inc env) (lawful env) s a b h

/-! ### the property theorems (synchronous machine) -/

/-- **exactness (soundness)**: whatever bytes arrive, if the server address is set to (a, ad, p) then the stream is
    `greeting [auth] request(a, ad, p) trailing` — the destination is exactly the requested one, and it is set once. -/
theorem connects_exactly_requested (env : Env) (input : Bytes) (a : UInt8) (ad : Bytes) (p : Nat)
    (h : (a, ad, p) ∈ setAddrs (feed env init input).2) :
    ∃ pre t, input = pre ++ encodeReq a ad p ++ t ∧ ValidPre env pre ∧ ValidDest a ad p ∧
      setAddrs (feed env init input).2 = [(a, ad, p)] ∧
      (Out.openServer ∈ (feed env init input).2 ↔ env.eager = true) := by
  rcases run_shape env input with hA | ⟨pre, a', ad', p', t, o, hin, hpre, hvd, hr, ho1, _, _, _, ho5⟩
  · rw [hA.2.1] at h; cases h
  · have hs : setAddrs (feed env init input).2 = [(a', ad', p')] := by
      rw [hr]; simp [ho1, (connResult_obs env a' ad' p' t).1]
    rw [hs] at h
    simp only [List.mem_singleton, Prod.mk.injEq] at h
    obtain ⟨rfl, rfl, rfl⟩ := h
    refine ⟨pre, t, hin, hpre, hvd, hs, ?_⟩
    rw [hr]
    simp only [List.mem_append, ho5, false_or]
    unfold connResult
    by_cases he : env.eager = true <;> by_cases hc : env.connOk = true <;> simp [he, hc, relayStart]

/-- **exactness (completeness)**: a well-formed handshake for (a, ad, p) sets exactly that destination, whatever follows -/
theorem requested_is_connected (env : Env) (pre : Bytes) (a : UInt8) (ad : Bytes) (p : Nat) (t : Bytes)
    (hpre : ValidPre env pre) (hvd : ValidDest a ad p) :
    ∃ o, feed env init (pre ++ encodeReq a ad p ++ t) = ((connResult env a ad p t).1, o ++ (connResult env a ad p t).2) ∧
      setAddrs o = [] ∧ childBytes o = [] ∧ sends o = preSends env := by
  obtain ⟨ms, hl, hc, h⟩ := hpre
  rcases h with ⟨ha, rfl⟩ | ⟨ha, v, u, pw, hu, hp, hv, rfl⟩
  · refine ⟨[.send [5, 0]], ?_, by simp [setAddrs], by simp [childBytes], by simp [sends, preSends, ha]⟩
    have hne : (5 :: UInt8.ofNat ms.length :: ms) ++ encodeReq a ad p ++ t ≠ [] := by simp
    rw [feed_init env _ hne]
    have := syncGreet_fwd env ms (encodeReq a ad p ++ t) hl hc
    simp only [greetMsg, List.append_assoc] at this ⊢
    rw [this, syncConnect_fwd env a ad p t hvd]
    simp [ha]
  · refine ⟨[.send [5, 2], .authHook u pw, .send [1, 0]], ?_, by simp [setAddrs], by simp [childBytes],
      by simp [sends, preSends, ha]⟩
    have hne : (5 :: UInt8.ofNat ms.length :: ms ++ (v :: UInt8.ofNat u.length :: u ++ UInt8.ofNat pw.length :: pw)) ++
        encodeReq a ad p ++ t ≠ [] := by simp
    rw [feed_init env _ hne]
    have := syncGreet_fwd env ms (authMsg v u pw ++ (encodeReq a ad p ++ t)) hl hc
    have h2 := syncAuth_fwd env v u pw (encodeReq a ad p ++ t) hu hp hv
    simp only [greetMsg, authMsg, List.append_assoc, List.cons_append] at this h2 ⊢
    rw [this, h2, syncConnect_fwd env a ad p t hvd]
    simp [ha]

private theorem connect_sends (env : Env) (buf : Bytes) : ∀ b ∈ sends (syncConnect env buf).2, WellFormedReply b := by
  intro b hb
  rcases syncConnect_cases env buf with ⟨_, h⟩ | ⟨c, hc, _, h⟩ | ⟨a, ad, p, t, _, _, h⟩
  · rw [h] at hb; simp [sends] at hb
  · rw [h] at hb; simp only [sends, List.mem_singleton] at hb
    subst hb
    rcases hc with rfl | rfl <;> exact Or.inr (Or.inr (Or.inr (Or.inr ⟨_, by simp, rfl⟩)))
  · rw [h] at hb
    rcases (connResult_obs env a ad p t).2 with ⟨_, _, _, hs⟩ | ⟨_, _, _, _, hs, _⟩
    · rw [hs] at hb; simp only [List.mem_singleton] at hb; subst hb
      exact Or.inr (Or.inr (Or.inr (Or.inr ⟨0, by simp, rfl⟩)))
    · rw [hs] at hb; simp only [List.mem_singleton] at hb; subst hb
      exact Or.inr (Or.inr (Or.inr (Or.inr ⟨4, by simp, rfl⟩)))

private theorem auth_sends (env : Env) (buf : Bytes) : ∀ b ∈ sends (syncAuth env buf).2, WellFormedReply b := by
  intro b hb
  rcases syncAuth_cases env buf with ⟨_, h⟩ | ⟨v, u, p, rest, _, _, _, ⟨_, h⟩ | ⟨_, h⟩⟩
  · rw [h] at hb; simp [sends] at hb
  · rw [h] at hb
    simp only [sends_append, sends, List.mem_append, List.mem_singleton] at hb
    rcases hb with rfl | hb
    · exact Or.inr (Or.inr (Or.inl rfl))
    · exact connect_sends env rest b hb
  · rw [h] at hb; simp only [sends, List.mem_singleton] at hb; subst hb
    exact Or.inr (Or.inr (Or.inr (Or.inl rfl)))

private theorem greet_sends (env : Env) (buf : Bytes) : ∀ b ∈ sends (syncGreet env buf).2, WellFormedReply b := by
  intro b hb
  rcases syncGreet_cases env buf with ⟨_, h⟩ | ⟨_, h⟩ | ⟨_, h⟩ | ⟨ms, rest, _, _, _, ⟨_, h⟩ | ⟨_, h⟩⟩
  · rw [h] at hb; simp [sends] at hb
  · rw [h] at hb; simp [sends] at hb
  · rw [h] at hb; simp only [sends, List.mem_singleton] at hb; subst hb
    exact Or.inr (Or.inr (Or.inr (Or.inr ⟨0xFF, by simp, rfl⟩)))
  · rw [h] at hb
    simp only [sends, List.mem_cons] at hb
    rcases hb with rfl | hb
    · exact Or.inr (Or.inl rfl)
    · exact auth_sends env rest b hb
  · rw [h] at hb
    simp only [sends, List.mem_cons] at hb
    rcases hb with rfl | hb
    · exact Or.inl rfl
    · exact connect_sends env rest b hb

/-- **well-formed replies**: from every state and for every segment, whatever is sent to the client is a method
    selection (`05 00`/`05 02`), an RFC 1929 status (`01 00`/`01 01`) or a 10-byte reply `05 REP 00 01 BND(6)` with
    REP ∈ {00, 04, 07, 08, FF}. -/
theorem reply_wellformed (env : Env) (s : SState) (d : Bytes) :
    ∀ b ∈ sends (feed env s d).2, WellFormedReply b := by
  intro b hb
  by_cases hd : d = []
  · subst hd; simp [feed, sends] at hb
  cases s with
  | greet buf => rw [feed_greet_ne _ _ _ hd] at hb; exact greet_sends env _ b hb
  | auth buf => rw [feed_auth_ne _ _ _ hd] at hb; exact auth_sends env _ b hb
  | connect buf => rw [feed_connect_ne _ _ _ hd] at hb; exact connect_sends env _ b hb
  | relay => rw [feed_relay] at hb; simp at hb
  | done => rw [feed_done] at hb; simp [sends] at hb

/-- the success reply `05 00 00 01 0…` is sent iff the connection is accepted; then the replies are exactly
    method selection, (auth status,) success reply — for every segmentation of the stream -/
theorem success_reply_iff_accepted (env : Env) (segs : List Bytes) :
    let r := (inc env).feedAll init segs
    (reply 0 ∈ sends r.2 ↔ r.1 = .relay) ∧ (r.1 = .relay → sends r.2 = preSends env ++ [reply 0]) := by
  intro r
  have hr : r = feed env init segs.flatten := Incremental.seg_independent (inc env) (feed_lawful env) init segs
  rw [hr]
  rcases run_shape env segs.flatten with hA | ⟨pre, a, ad, p, t, o, _, _, _, h, _, _, ho3, _, _⟩
  · exact ⟨⟨fun h => absurd h hA.2.2.2.2.2.1, fun h => absurd h hA.1⟩, fun h => absurd h hA.1⟩
  · rw [h]
    rcases (connResult_obs env a ad p t).2 with ⟨h1, _, _, hs⟩ | ⟨h1, _, _, _, hs, _⟩
    · simp [h1, hs, ho3]
    · simp only [h1, sends_append, hs, ho3]
      refine ⟨⟨fun hm => ?_, fun hm => by cases hm⟩, fun hm => by cases hm⟩
      simp only [List.mem_append, List.mem_singleton] at hm
      rcases hm with hm | hm
      · unfold preSends at hm; split at hm <;> simp [reply] at hm
      · simp [reply] at hm

/-- **reject codes** (RFC 1928): no acceptable method → `05 FF…`; CMD/RSV/VER of the request wrong → REP 07;
    unknown ATYP → REP 08; connection failure → REP 04; each followed by closing the client and nothing else. -/
theorem reject_codes (env : Env) :
    -- no acceptable method
    (∀ ms rest : Bytes, ms.length < 256 → ms.contains (needed env) = false →
      syncGreet env (greetMsg ms ++ rest) = (.done, [.send (reply 0xFF), .close])) ∧
    -- request header (5 bytes available) with VER CMD RSV ≠ 05 01 00
    (∀ (v c r a x : UInt8) (tl : Bytes), ¬ (v = 5 ∧ c = 1 ∧ r = 0) →
      syncConnect env (v :: c :: r :: a :: x :: tl) = (.done, [.send (reply 7), .close])) ∧
    -- unknown address type
    (∀ (a x : UInt8) (tl : Bytes), a ≠ 1 → a ≠ 4 → a ≠ 3 →
      syncConnect env (5 :: 1 :: 0 :: a :: x :: tl) = (.done, [.send (reply 8), .close])) ∧
    -- the (eager) connection attempt fails
    (∀ (a : UInt8) (ad : Bytes) (p : Nat) (t : Bytes), ValidDest a ad p → env.eager = true → env.connOk = false →
      syncConnect env (encodeReq a ad p ++ t) =
        (.done, [.setAddr a ad p, .openServer, .send (reply 4), .close])) := by
  refine ⟨?_, ?_, ?_, ?_⟩
  · intro ms rest hl hc
    have h1 : ¬ (ms.length + rest.length < ms.length) := by omega
    have hc' : ¬ needed env ∈ ms := by simpa using hc
    simp [syncGreet, greetMsg, parseGreet, UInt8.toNat_ofNat_of_lt' hl, h1, hc']
  · intro v c r a x tl h
    simp [syncConnect, parseConnect, h]
  · intro a x tl h1 h4 h3
    simp [syncConnect, parseConnect, h1, h4, h3]
  · intro a ad p t hv he hc
    rw [syncConnect_fwd env a ad p t hv]; simp [connResult, he, hc]

/-- every rejection closes the client connection last, and nothing ever reached the next layer -/
theorem reject_closes (env : Env) (segs : List Bytes)
    (h : ((inc env).feedAll init segs).1 = .done) :
    ((inc env).feedAll init segs).2.getLast? = some .close ∧
    childBytes ((inc env).feedAll init segs).2 = [] ∧ Out.childStart ∉ ((inc env).feedAll init segs).2 := by
  have hr : (inc env).feedAll init segs = feed env init segs.flatten :=
    Incremental.seg_independent (inc env) (feed_lawful env) init segs
  rw [hr] at h ⊢
  rcases run_shape env segs.flatten with hA | ⟨pre, a, ad, p, t, o, _, _, _, hh, _, ho2, _, ho4, _⟩
  · exact ⟨hA.2.2.2.2.2.2 h, hA.2.2.1, hA.2.2.2.1⟩
  · rw [hh] at h ⊢
    rcases (connResult_obs env a ad p t).2 with ⟨h1, _⟩ | ⟨_, _, _, hcb, _, hl, hcs⟩
    · rw [h1] at h; cases h
    · refine ⟨?_, by simp [ho2, hcb], by simp [ho4, hcs]⟩
      simp [List.getLast?_append, hl]

/-- **relay exactly once, in order**: for every segmentation of `greeting [auth] request trailing` (connection
    possible) the machine ends relaying, the bytes given to the child are exactly `trailing`, the destination is the
    requested one; and from then on every segment goes to the child unchanged. -/
theorem after_request_relayed_once_in_order (env : Env) (segs : List Bytes) (pre : Bytes) (a : UInt8) (ad : Bytes)
    (p : Nat) (t : Bytes) (hflat : segs.flatten = pre ++ encodeReq a ad p ++ t)
    (hpre : ValidPre env pre) (hvd : ValidDest a ad p) (hc : env.eager = true → env.connOk = true) :
    ((inc env).feedAll init segs).1 = .relay ∧
    childBytes ((inc env).feedAll init segs).2 = t ∧
    setAddrs ((inc env).feedAll init segs).2 = [(a, ad, p)] ∧
    (∀ more : List Bytes, ((inc env).feedAll init (segs ++ more)).1 = .relay ∧
        childBytes ((inc env).feedAll init (segs ++ more)).2 = t ++ more.flatten) := by
  have key : ∀ t' : Bytes, (feed env init (pre ++ encodeReq a ad p ++ t')).1 = .relay ∧
      childBytes (feed env init (pre ++ encodeReq a ad p ++ t')).2 = t' ∧
      setAddrs (feed env init (pre ++ encodeReq a ad p ++ t')).2 = [(a, ad, p)] := by
    intro t'
    obtain ⟨o, ho, h1, h2, _⟩ := requested_is_connected env pre a ad p t' hpre hvd
    rw [ho]
    rcases (connResult_obs env a ad p t') with ⟨hs, ⟨hr, _, hcb, _⟩ | ⟨_, he, hco, _⟩⟩
    · exact ⟨hr, by simp [h2, hcb], by simp [h1, hs]⟩
    · rw [hc he] at hco; cases hco
  have hr : ∀ l, (inc env).feedAll init l = feed env init l.flatten :=
    fun l => Incremental.seg_independent (inc env) (feed_lawful env) init l
  refine ⟨?_, ?_, ?_, fun more => ?_⟩
  · rw [hr, hflat]; exact (key t).1
  · rw [hr, hflat]; exact (key t).2.1
  · rw [hr, hflat]; exact (key t).2.2
  · rw [hr, List.flatten_append, hflat, List.append_assoc]
    exact ⟨(key _).1, (key _).2.1⟩

/-- conversely: whenever the machine relays (any stream, any segmentation), the stream *is* a well-formed
    handshake and the child has received exactly the bytes after the request, once and in order -/
theorem relayed_only_after_request (env : Env) (segs : List Bytes)
    (h : ((inc env).feedAll init segs).1 = .relay ∨ childBytes ((inc env).feedAll init segs).2 ≠ []) :
    ∃ pre a ad p t, segs.flatten = pre ++ encodeReq a ad p ++ t ∧ ValidPre env pre ∧ ValidDest a ad p ∧
      ((inc env).feedAll init segs).1 = .relay ∧ childBytes ((inc env).feedAll init segs).2 = t ∧
      setAddrs ((inc env).feedAll init segs).2 = [(a, ad, p)] := by
  have hr : (inc env).feedAll init segs = feed env init segs.flatten :=
    Incremental.seg_independent (inc env) (feed_lawful env) init segs
  rw [hr] at h ⊢
  rcases run_shape env segs.flatten with hA | ⟨pre, a, ad, p, t, o, hin, hpre, hvd, hh, ho1, ho2, _, _, _⟩
  · rcases h with h | h
    · exact absurd h hA.1
    · exact absurd hA.2.2.1 h
  · refine ⟨pre, a, ad, p, t, hin, hpre, hvd, ?_⟩
    rw [hh] at h ⊢
    rcases (connResult_obs env a ad p t) with ⟨hs, ⟨hrl, _, hcb, _⟩ | ⟨hd, _, _, hcb, _⟩⟩
    · exact ⟨hrl, by simp [ho2, hcb], by simp [ho1, hs]⟩
    · rcases h with h | h
      · rw [hd] at h; cases h
      · simp [ho2, hcb] at h



/-! ### deferred completions (socks5_auth hook, OpenConnection) -/

/-- **C21 (schedule independence).** Take any schedule: client events (data segments, EOF) interleaved with
    completions of whatever command is pending, in any order and number.  Once everything pending has completed,
    the state and the whole command sequence are those of the synchronous machine on the same client events. -/
theorem schedule_independent (env : Env) (acts : List Act) :
    let r := actAll env (.settled init) acts
    let r' := settle env r.1
    r'.1 = .settled (syncAll env init (insOf acts)).1 ∧ r.2 ++ r'.2 = (syncAll env init (insOf acts)).2 := by
  have h := actAll_settle_init env acts
  simp only [andThen, lift, Prod.ext_iff] at h
  exact h

private theorem syncAll_data (env : Env) (s : SState) (segs : List Bytes) :
    syncAll env s (segs.map .data) = (inc env).feedAll s segs := by
  induction segs generalizing s with
  | nil => rfl
  | cons d ds ih => simp [syncAll, syncStep, Incremental.feedAll, ih, inc]

private theorem syncAll_append (env : Env) (s : SState) (a b : List In) :
    syncAll env s (a ++ b) =
      ((syncAll env (syncAll env s a).1 b).1, (syncAll env s a).2 ++ (syncAll env (syncAll env s a).1 b).2) := by
  induction a generalizing s with
  | nil => simp [syncAll]
  | cons e es ih => simp [syncAll, ih, List.append_assoc]

/-- schedule *and* segmentation: whatever the cuts and whenever hook / connect complete, the result is that of the
    whole stream delivered at once with immediate completions (followed by the client's EOF handling if it closes) -/
theorem schedule_and_segmentation_independent (env : Env) (acts : List Act) (segs : List Bytes) (eof : Bool)
    (h : insOf acts = segs.map .data ++ (if eof then [.close] else [])) :
    let r := actAll env (.settled init) acts
    let r' := settle env r.1
    let w := feed env init segs.flatten
    r'.1 = .settled w.1 ∧ r.2 ++ r'.2 = w.2 ++ (if eof then onClose w.1 else []) := by
  intro r r' w
  have hs := schedule_independent env acts
  rw [h, syncAll_append, syncAll_data, seg_independent] at hs
  cases eof <;> simpa [syncAll, syncStep] using hs

/-! ### the empty-segment guard of `feed` is unobservable -/

private def Stuck (env : Env) : SState → Prop
  | .greet b => parseGreet (needed env) b = .more
  | .auth b => parseAuth b = .more
  | .connect b => parseConnect b = .more
  | _ => True

private theorem connResult_stuck (env : Env) (a : UInt8) (ad : Bytes) (p : Nat) (t : Bytes) :
    Stuck env (connResult env a ad p t).1 := by
  unfold connResult; split
  · split <;> trivial
  · trivial

private theorem syncConnect_stuck (env : Env) (b : Bytes) : Stuck env (syncConnect env b).1 := by
  rcases syncConnect_cases env b with ⟨hm, h⟩ | ⟨c, _, _, h⟩ | ⟨a, ad, p, t, _, _, h⟩
  · rw [h]; exact hm
  · rw [h]; trivial
  · rw [h]; exact connResult_stuck env a ad p t

private theorem syncAuth_stuck (env : Env) (b : Bytes) : Stuck env (syncAuth env b).1 := by
  rcases syncAuth_cases env b with ⟨hm, h⟩ | ⟨v, u, p, rest, _, _, _, ⟨_, h⟩ | ⟨_, h⟩⟩
  · rw [h]; exact hm
  · rw [h]; exact syncConnect_stuck env rest
  · rw [h]; trivial

private theorem syncGreet_stuck (env : Env) (b : Bytes) : Stuck env (syncGreet env b).1 := by
  rcases syncGreet_cases env b with ⟨hm, h⟩ | ⟨_, h⟩ | ⟨_, h⟩ | ⟨ms, rest, _, _, _, ⟨_, h⟩ | ⟨_, h⟩⟩
  · rw [h]; exact hm
  · rw [h]; trivial
  · rw [h]; trivial
  · rw [h]; exact syncAuth_stuck env rest
  · rw [h]; exact syncConnect_stuck env rest

/-- On every state reachable from the initial one (any stream, any segmentation) the code's reaction to an empty
    segment (`buf += b""; state()`) is to do nothing — so `feed`'s guard `d = [] ↦ no-op` does not change behaviour. -/
theorem feed_nil_reachable (env : Env) (segs : List Bytes) :
    feedRaw env ((inc env).feedAll init segs).1 [] = (((inc env).feedAll init segs).1, []) := by
  rw [seg_independent]
  have hst : Stuck env (feed env init segs.flatten).1 := by
    by_cases hin : segs.flatten = []
    · rw [hin]; simp [feed, init, Stuck, parseGreet]
    · rw [feed_init env _ hin]; exact syncGreet_stuck env _
  generalize (feed env init segs.flatten).1 = s at hst
  cases s with
  | greet b => simp only [Stuck] at hst; simp [feedRaw, syncGreet, hst]
  | auth b => simp only [Stuck] at hst; simp [feedRaw, syncAuth, hst]
  | connect b => simp only [Stuck] at hst; simp [feedRaw, syncConnect, hst]
  | relay => rfl
  | done => rfl

/-- and `feed` is `feedRaw` on every non-empty segment -/
theorem feed_eq_feedRaw (env : Env) (s : SState) (d : Bytes) (h : d ≠ []) : feed env s d = feedRaw env s d := by
  cases s <;> simp [feed, feedRaw, h]

/-! ### non-vacuity: concrete runs computed by the kernel -/

private def envT : Env := ⟨false, fun _ _ => true, true, true⟩
private def envA : Env := ⟨true, fun u p => u == [0x61] && p == [0x62], true, false⟩

-- 05 01 00 | 05 01 00 01 7f000001 1f90 | "hi"   → 127.0.0.1:8080, "hi" relayed
example : feed envT init [5,1,0, 5,1,0,1,127,0,0,1,0x1f,0x90, 0x68,0x69] =
    (.relay, [.send [5,0], .setAddr 1 [127,0,0,1] 8080, .openServer, .childStart, .send (reply 0),
              .child 0x68, .child 0x69]) := by decide +kernel
-- the same stream cut into three segments
example : (inc envT).feedAll init [[5], [1,0,5,1,0,1,127], [0,0,1,0x1f,0x90,0x68,0x69]] =
    feed envT init [5,1,0, 5,1,0,1,127,0,0,1,0x1f,0x90, 0x68,0x69] := by decide +kernel
-- ValidPre / ValidDest are satisfiable
example : ValidPre envT [5,1,0] := ⟨[0], by decide, by decide, Or.inl ⟨rfl, rfl⟩⟩
example : ValidDest 3 [0x61, 0x2e, 0x62] 443 := ⟨Or.inr (Or.inr ⟨rfl, by decide⟩), by decide⟩
-- the machine does reject: HTTP request, missing method, BIND command, ATYP 5, wrong password, connect failure
example : feed envT init [0x47, 0x45, 0x54] = (.done, [.close]) := by decide +kernel
example : feed envT init [5,1,2] = (.done, [.send (reply 0xFF), .close]) := by decide +kernel
example : feed envT init [5,1,0, 5,2,0,1,0] = (.done, [.send [5,0], .send (reply 7), .close]) := by decide +kernel
example : feed envT init [5,1,0, 5,1,0,5,0] = (.done, [.send [5,0], .send (reply 8), .close]) := by decide +kernel
example : feed envA init [5,1,2, 1,1,0x61,1,0x63] =
    (.done, [.send [5,2], .authHook [0x61] [0x63], .send [1,1], .close]) := by decide +kernel
example : feed envA init [5,1,2, 1,1,0x61,1,0x62, 5,1,0,3,1,0x78,0,80] =
    (.done, [.send [5,2], .authHook [0x61] [0x62], .send [1,0], .setAddr 3 [0x78] 80, .openServer,
             .send (reply 4), .close]) := by decide +kernel
-- a deferred schedule: data arrives while the hook is pending, EOF while the connect is pending
example : actAll envT (.settled init) [.ev (.data [5,1,0,5,1,0,1,1,2,3,4,0,80]), .ev (.data [9]), .ev .close, .complete] =
    (.settled .relay, [.send [5,0], .setAddr 1 [1,2,3,4] 80, .openServer, .childStart, .send (reply 0),
                       .child 9, .childClose]) := by decide +kernel

/-! ### round 3: the address text, method selection for every offered list, BIND / UDP ASSOCIATE, buffered replay -/

/-- after an accepted greeting (+ auth) the machine continues with the connect stage on whatever follows -/
theorem pre_then_connect (env : Env) (pre rest : Bytes) (hpre : ValidPre env pre) :
    ∃ o, feed env init (pre ++ rest) = ((syncConnect env rest).1, o ++ (syncConnect env rest).2) ∧
      sends o = preSends env ∧ setAddrs o = [] ∧ childBytes o = [] ∧ Out.openServer ∉ o ∧ Out.childStart ∉ o ∧
      Out.close ∉ o := by
  obtain ⟨ms, hl, hc, h⟩ := hpre
  rcases h with ⟨ha, rfl⟩ | ⟨ha, v, u, pw, hu, hp, hv, rfl⟩
  · refine ⟨[.send [5, 0]], ?_, by simp [sends, preSends, ha], by simp [setAddrs], by simp [childBytes], by simp, by simp, by simp⟩
    have hne : (5 :: UInt8.ofNat ms.length :: ms) ++ rest ≠ [] := by simp
    rw [feed_init env _ hne]
    have := syncGreet_fwd env ms rest hl hc
    simp only [greetMsg] at this
    rw [this]; simp [ha]
  · refine ⟨[.send [5, 2], .authHook u pw, .send [1, 0]], ?_, by simp [sends, preSends, ha], by simp [setAddrs],
      by simp [childBytes], by simp, by simp, by simp⟩
    have hne : (5 :: UInt8.ofNat ms.length :: ms ++ (v :: UInt8.ofNat u.length :: u ++ UInt8.ofNat pw.length :: pw)) ++ rest ≠ [] := by simp
    rw [feed_init env _ hne]
    have := syncGreet_fwd env ms (authMsg v u pw ++ rest) hl hc
    have h2 := syncAuth_fwd env v u pw rest hu hp hv
    simp only [greetMsg, authMsg, List.append_assoc, List.cons_append] at this h2 ⊢
    rw [this, h2]; simp [ha]

/-- **BIND, UDP ASSOCIATE and every other command** are refused: after any accepted greeting (+ auth), a request
    whose CMD is not CONNECT (5 bytes of it available), cut in any way, is answered with REP 07 and the client is
    closed; no destination is set, nothing is opened, nothing reaches the next layer. -/
theorem other_commands_rejected (env : Env) (segs : List Bytes) (pre : Bytes) (cmd rsv a x : UInt8) (tl : Bytes)
    (hflat : segs.flatten = pre ++ (5 :: cmd :: rsv :: a :: x :: tl)) (hpre : ValidPre env pre) (hcmd : cmd ≠ 1) :
    let r := (inc env).feedAll init segs
    r.1 = .done ∧ sends r.2 = preSends env ++ [reply 7] ∧ r.2.getLast? = some .close ∧
      setAddrs r.2 = [] ∧ Out.openServer ∉ r.2 ∧ childBytes r.2 = [] ∧ Out.childStart ∉ r.2 := by
  intro r
  have hr : r = feed env init segs.flatten := seg_independent env init segs
  obtain ⟨o, ho, h1, h2, h3, h4, h5, _⟩ := pre_then_connect env pre (5 :: cmd :: rsv :: a :: x :: tl) hpre
  have hrej := (reject_codes env).2.1 5 cmd rsv a x tl (by simp [hcmd])
  rw [hr, hflat, ho, hrej]
  simp [h1, h2, h3, h4, h5, sends, setAddrs, childBytes, List.getLast?_append]

/-- BIND (CMD 02) and UDP ASSOCIATE (CMD 03) in particular -/
theorem bind_and_udp_associate_rejected (env : Env) (segs : List Bytes) (pre : Bytes) (rsv a x : UInt8) (tl : Bytes)
    (cmd : UInt8) (hc : cmd = 2 ∨ cmd = 3)
    (hflat : segs.flatten = pre ++ (5 :: cmd :: rsv :: a :: x :: tl)) (hpre : ValidPre env pre) :
    ((inc env).feedAll init segs).1 = .done ∧
      sends ((inc env).feedAll init segs).2 = preSends env ++ [reply 7] ∧
      setAddrs ((inc env).feedAll init segs).2 = [] ∧ childBytes ((inc env).feedAll init segs).2 = [] := by
  have hne : cmd ≠ 1 := by rcases hc with rfl | rfl <;> decide
  have := other_commands_rejected env segs pre cmd rsv a x tl hflat hpre hne
  exact ⟨this.1, this.2.1, this.2.2.2.1, this.2.2.2.2.2.1⟩

/-- **method selection for every offered-method list**: whatever list `ms` of at most 255 methods the client offers,
    whatever follows and however the stream is cut: if the required method (00, or 02 with proxyauth) is in the list
    the first reply is `05 <required>`, otherwise the only reply is `05 FF…`, the client is closed and nothing else
    happens. -/
theorem method_selection (env : Env) (ms rest : Bytes) (segs : List Bytes) (hl : ms.length < 256)
    (hflat : segs.flatten = greetMsg ms ++ rest) :
    (ms.contains (needed env) = true → (sends ((inc env).feedAll init segs).2).head? = some [5, needed env]) ∧
    (ms.contains (needed env) = false →
        (inc env).feedAll init segs = (.done, [.send (reply 0xFF), .close])) := by
  have hr : (inc env).feedAll init segs = feed env init segs.flatten := seg_independent env init segs
  have hne : greetMsg ms ++ rest ≠ [] := by simp [greetMsg]
  rw [hr, hflat, feed_init env _ hne]
  refine ⟨fun hc => ?_, fun hc => (reject_codes env).1 ms rest hl hc⟩
  rw [syncGreet_fwd env ms rest hl hc]
  by_cases ha : env.authOn = true <;> simp [ha, sends, needed]

/-- an incomplete method list is never answered -/
theorem greeting_incomplete_silent (env : Env) (ms : Bytes) (k : Nat) (segs : List Bytes) (hl : ms.length < 256)
    (hk : k < ms.length + 2) (hflat : segs.flatten = (greetMsg ms).take k) :
    (inc env).feedAll init segs = (.greet ((greetMsg ms).take k), []) := by
  have hr : (inc env).feedAll init segs = feed env init segs.flatten := seg_independent env init segs
  rw [hr, hflat]
  by_cases hne : (greetMsg ms).take k = []
  · rw [hne]; simp [feed, init]
  rw [feed_init env _ hne]
  match k, hk with
  | 0, _ => simp at hne
  | 1, _ => simp [greetMsg, syncGreet, parseGreet]
  | k + 2, hk =>
    have hlt : (ms.take k).length < ms.length := by simp only [List.length_take]; omega
    simp [greetMsg, syncGreet, parseGreet, UInt8.toNat_ofNat_of_lt' hl]
    have hm : min k ms.length < ms.length := by omega
    simp [hm]

/-! ### deferred completions: what was buffered is replayed to the handler in force at that moment -/

private theorem handleAll_relay_data (env : Env) (ds : List Bytes) :
    handleAll env (.settled .relay) (ds.map .data) = (.settled .relay, ds.flatten.map .child) := by
  induction ds with
  | nil => rfl
  | cons d ds ih =>
    have hd : handle env (.settled .relay) (.data d) = (.settled .relay, d.map .child) := by
      simp only [handle]; split
      · rename_i h; subst h; rfl
      · rfl
    simp [handleAll, hd, ih]

/-- **buffered request and data (the hook is pending, lazy strategy).**  The CONNECT request and later application
    data arrive as separate segments while the socks5_auth hook is still pending.  When the hook completes with a
    positive verdict the request is parsed by the SOCKS5 state machine, and every *later* buffered segment goes to the
    child layer — the handler is looked up per replayed event — exactly once and in order. -/
theorem buffered_request_then_data_relayed (env : Env) (u p : Bytes) (a : UInt8) (ad : Bytes) (pt : Nat) (t : Bytes)
    (ds : List Bytes) (hv : env.valid u p = true) (hlazy : env.eager = false) (hvd : ValidDest a ad pt) :
    complete env (.authWait u p [] (.data (encodeReq a ad pt ++ t) :: ds.map .data)) =
      (.settled .relay,
        [.send [1, 0], .setAddr a ad pt] ++ relayStart t ++ ds.flatten.map .child) := by
  have hne : encodeReq a ad pt ++ t ≠ [] := by
    unfold encodeReq; split <;> simp
  have hc : aConnect env [] = (.settled (.connect []), []) := by simp [aConnect, parseConnect]
  have hreq : handle env (.settled (.connect [])) (.data (encodeReq a ad pt ++ t)) =
      (.settled .relay, [.setAddr a ad pt] ++ relayStart t) := by
    simp only [handle, hne, if_false, List.nil_append]
    simp [aConnect, parseConnect_fwd a ad pt t hvd, hlazy]
  simp only [complete, hv, if_true, hc, handleAll, hreq, handleAll_relay_data]
  simp

/-- **deferred handshake relays**: any schedule (cuts + timing of hook / connect completions) of a well-formed
    handshake followed by `t` ends, once everything has completed, relaying, with exactly `t` given to the child and the
    requested destination set once. -/
theorem deferred_handshake_relays (env : Env) (acts : List Act) (segs : List Bytes) (pre : Bytes) (a : UInt8)
    (ad : Bytes) (p : Nat) (t : Bytes) (hins : insOf acts = segs.map .data)
    (hflat : segs.flatten = pre ++ encodeReq a ad p ++ t)
    (hpre : ValidPre env pre) (hvd : ValidDest a ad p) (hc : env.eager = true → env.connOk = true) :
    let r := actAll env (.settled init) acts
    let r' := settle env r.1
    r'.1 = .settled .relay ∧ childBytes (r.2 ++ r'.2) = t ∧ setAddrs (r.2 ++ r'.2) = [(a, ad, p)] := by
  intro r r'
  have h := schedule_and_segmentation_independent env acts segs false (by simpa using hins)
  have h2 := after_request_relayed_once_in_order env segs pre a ad p t hflat hpre hvd hc
  rw [seg_independent] at h2
  simp only [Bool.false_eq_true, if_false, List.append_nil] at h
  exact ⟨by rw [h.1, h2.1], by rw [h.2]; exact h2.2.1, by rw [h.2]; exact h2.2.2.1⟩

/-! ### the address text -/

private theorem digit_facts : ∀ d : Fin 10, isDigit (digitChar d.val) = true ∧ (digitChar d.val).toNat - 48 = d.val := by
  decide

private theorem takeDec_digit (d : Nat) (hd : d < 10) (r : List Char) (acc : Nat) :
    takeDec (digitChar d :: r) acc = takeDec r (acc * 10 + d) := by
  have := digit_facts ⟨d, hd⟩
  simp only [takeDec, this.1, if_true, this.2]

private theorem takeDec_stop (r : List Char) (acc : Nat) : takeDec ('.' :: r) acc = (acc, '.' :: r) := by
  simp [takeDec, isDigit]

/-- reading back one rendered byte, up to the next dot or the end -/
private theorem takeDec_decByte (n : Nat) (hn : n < 256) (r : List Char) (hr : r = [] ∨ ∃ r', r = '.' :: r') :
    takeDec (decByte n ++ r) 0 = (n, r) := by
  have stop : ∀ acc, takeDec r acc = (acc, r) := by
    intro acc; rcases hr with rfl | ⟨r', rfl⟩
    · rfl
    · exact takeDec_stop r' acc
  unfold decByte
  split
  · rename_i h; simp only [List.cons_append, List.nil_append]
    rw [takeDec_digit n h, stop]; simp
  · split
    · rename_i h1 h2
      simp only [List.cons_append, List.nil_append]
      rw [takeDec_digit _ (by omega), takeDec_digit _ (by omega), stop]
      congr 1; omega
    · rename_i h1 h2
      simp only [List.cons_append, List.nil_append]
      rw [takeDec_digit _ (by omega), takeDec_digit _ (by omega), takeDec_digit _ (by omega), stop]
      congr 1; omega

/-- **IPv4 text is exact**: the dotted quad the server stores reads back to the four requested bytes -/
theorem textV4_roundtrip (a b c d : UInt8) : parseV4 (textV4 [a, b, c, d]) = some [a, b, c, d] := by
  have ha := a.toNat_lt; have hb := b.toNat_lt; have hc := c.toNat_lt; have hd := d.toNat_lt
  simp only [textV4, parseV4, List.append_assoc, List.cons_append]
  rw [takeDec_decByte a.toNat ha _ (Or.inr ⟨_, rfl⟩)]
  simp only
  rw [takeDec_decByte b.toNat hb _ (Or.inr ⟨_, rfl⟩)]
  simp only
  rw [takeDec_decByte c.toNat hc _ (Or.inr ⟨_, rfl⟩)]
  simp only
  have := takeDec_decByte d.toNat hd [] (Or.inl rfl)
  rw [List.append_nil] at this
  rw [this]
  simp

theorem textV4_injective (x y : Bytes) (hx : x.length = 4) (hy : y.length = 4) (h : textV4 x = textV4 y) : x = y := by
  match x, hx, y, hy with
  | [a, b, c, d], _, [a', b', c', d'], _ =>
    have h1 := textV4_roundtrip a b c d
    rw [h, textV4_roundtrip] at h1
    exact (Option.some.inj h1).symm

private theorem ascii_char : ∀ n : Fin 128, UInt8.ofNat (Char.ofNat n.val).toNat = UInt8.ofNat n.val := by decide +kernel

/-- **ASCII names are exact**: for a name without non-ASCII bytes the stored host is the name, byte for byte -/
theorem textDomain_ascii (ad : Bytes) (h : ∀ b ∈ ad, b.toNat < 128) : asciiBytes (textDomain ad) = ad := by
  induction ad with
  | nil => rfl
  | cons b r ih =>
    have hb := h b (by simp)
    have := ascii_char ⟨b.toNat, hb⟩
    simp only [asciiBytes, textDomain, List.map_cons, hb, if_true] at this ⊢
    rw [this, UInt8.ofNat_toNat]
    congr 1
    exact ih (fun x hx => h x (by simp [hx]))

/-- in general the stored host has one character per byte (non-ASCII bytes become U+FFFD) -/
theorem textDomain_length (ad : Bytes) : (textDomain ad).length = ad.length := by simp [textDomain]

/-- **connects exactly where requested, as text**: for every segmentation of a well-formed handshake the one
    `(host, port)` assigned to `context.server.address` is `hostText` of the requested address and the requested port;
    for IPv4 that text reads back to the requested bytes, for an ASCII name it is the name. -/
theorem connects_to_requested_text (env : Env) (segs : List Bytes) (pre : Bytes) (a : UInt8) (ad : Bytes) (p : Nat)
    (t : Bytes) (hflat : segs.flatten = pre ++ encodeReq a ad p ++ t) (hpre : ValidPre env pre) (hvd : ValidDest a ad p) :
    addrTexts ((inc env).feedAll init segs).2 = [(hostText a ad, p)] ∧
    (a = 1 → parseV4 (hostText a ad) = some ad) ∧
    (a = 3 → (∀ b ∈ ad, b.toNat < 128) → asciiBytes (hostText a ad) = ad) := by
  refine ⟨?_, ?_, ?_⟩
  · obtain ⟨o, ho, h1, _, _⟩ := requested_is_connected env pre a ad p t hpre hvd
    rw [seg_independent, hflat, ho]
    simp [addrTexts, h1, (connResult_obs env a ad p t).1]
  · intro ha; subst ha
    rcases hvd.1 with ⟨_, hl⟩ | ⟨h4, _⟩ | ⟨h3, _⟩
    · match ad, hl with
      | [x, y, z, w], _ => simpa [hostText] using textV4_roundtrip x y z w
    · cases h4
    · cases h3
  · intro ha hasc; subst ha
    simpa [hostText] using textDomain_ascii ad hasc

/-- **IPv6 text, RFC 5952 §4.2.2 / §4.2.3**: for every 16-byte address the run that `hostText` replaces by "::" is
    the leftmost longest run of at least two zero words; without such a run nothing is compressed. -/
theorem textV6_compresses_leftmost_longest_zero_run (ad : Bytes) (h : ad.length = 16) :
    bestRunSpec ((words16 ad).map (· == 0)) (bestRun (words16 ad)) = true :=
  bestRun_spec (words16 ad) (words16_length ad h)

-- the text forms, computed by the kernel (what inet_ntop / decode give for the same bytes)
example : String.ofList (hostText 1 [127, 0, 0, 1]) = "127.0.0.1" := by decide +kernel
example : String.ofList (hostText 4 [0x20,1,0xd,0xb8,0,0,0,0,0,1,0,0,0,0,0,1]) = "2001:db8::1:0:0:1" := by decide +kernel
example : String.ofList (hostText 4 [0,0,0,0,0,0,0,0,0,0,0xff,0xff,1,2,3,4]) = "::ffff:1.2.3.4" := by decide +kernel
example : String.ofList (hostText 4 [0,1,0,0,0,2,0,0,0,3,0,0,0,4,0,0]) = "1:0:2:0:3:0:4:0" := by decide +kernel
example : hostText 3 [0x61, 0xe4] = ['a', Char.ofNat 0xFFFD] := by decide +kernel
-- BIND after a valid greeting, cut in two
example : (inc envT).feedAll init [[5,1,0,5], [2,0,1,0]] = (.done, [.send [5,0], .send (reply 7), .close]) := by decide +kernel
-- c21-3: request and data buffered while the hook is pending, lazy strategy
example : actAll ⟨true, fun _ _ => true, false, true⟩ (.settled init)
      [.ev (.data [5,1,2,1,0,0]), .ev (.data [5,1,0,1,1,2,3,4,0,80]), .ev (.data [7]), .ev (.data [8]), .complete] =
    (.settled .relay, [.send [5,2], .authHook [] [], .send [1,0], .setAddr 1 [1,2,3,4] 80, .childStart, .send (reply 0),
                       .child 7, .child 8]) := by decide +kernel

/-! ### round 4: the IPv6 text reads back (reader = C22's transcription of CPython `ipaddress.ip_address`) -/

/-- **IPv6 text is exact**: for every 16-byte address, `ipaddress.ip_address` (C22.parseIp) applied to the text the
    server stores (`textV6`: RFC 5952 compression, embedded-IPv4 forms) returns the IPv6 address whose integer is
    exactly the 16 requested bytes, big-endian, without scope — never an IPv4 address, never an error. -/
theorem textV6_reads_back (ad : Bytes) (h : ad.length = 16) :
    C22.parseIp (asciiBytes (textV6 ad)) = some (.v6 (beNat ad) none) := by
  rw [parseIp_textV6 ad h, wordsVal_words16 ad h]

/-- hence the IPv6 text determines the address -/
theorem textV6_injective (x y : Bytes) (hx : x.length = 16) (hy : y.length = 16) (h : textV6 x = textV6 y) : x = y := by
  have h1 := parseIp_textV6 x hx
  rw [h, parseIp_textV6 y hy] at h1
  have hv : wordsVal (words16 y) = wordsVal (words16 x) := by
    injection h1 with h1; injection h1
  have hl : (words16 x).length = (words16 y).length := words16_len x y (by omega) 16 hx
  have := fw_inj (words16 x) (words16 y) 0 0 hl (words16_lt x) (words16_lt y) hv.symm
  exact words16_inj x y (by omega) (by omega) this.2

/-- the IPv4 text under the same reader -/
theorem textV4_reads_back_ipaddress (a b c d : UInt8) :
    C22.parseIp (asciiBytes (textV4 [a, b, c, d])) =
      some (.v4 (((a.toNat * 256 + b.toNat) * 256 + c.toNat) * 256 + d.toNat)) := by
  have := parseV4_dotted a b c d
  simp only [textV4, asciiBytes_append, asciiBytes_cons, dot_byte, List.append_assoc, List.cons_append]
  change C22.parseIp (D a.toNat ++ 46 :: (D b.toNat ++ 46 :: (D c.toNat ++ 46 :: D d.toNat))) = _
  simp [C22.parseIp, this]

/-- **connects exactly where requested (IP literals, as `ipaddress` reads them)**: for every segmentation of a
    well-formed handshake for an IPv4 / IPv6 destination, the host text assigned to `context.server.address` parses —
    with CPython's `ipaddress.ip_address` — to exactly the requested address. -/
theorem connects_to_requested_ip (env : Env) (segs : List Bytes) (pre : Bytes) (a : UInt8) (ad : Bytes) (p : Nat)
    (t : Bytes) (hflat : segs.flatten = pre ++ encodeReq a ad p ++ t) (hpre : ValidPre env pre) (hvd : ValidDest a ad p) :
    addrTexts ((inc env).feedAll init segs).2 = [(hostText a ad, p)] ∧
    (a = 4 → C22.parseIp (asciiBytes (hostText a ad)) = some (.v6 (beNat ad) none)) ∧
    (a = 1 → C22.parseIp (asciiBytes (hostText a ad)) = some (.v4 (beNat ad))) := by
  refine ⟨(connects_to_requested_text env segs pre a ad p t hflat hpre hvd).1, ?_, ?_⟩
  · intro ha; subst ha
    rcases hvd.1 with ⟨h1, _⟩ | ⟨_, hl⟩ | ⟨h3, _⟩
    · cases h1
    · simpa [hostText] using textV6_reads_back ad hl
    · cases h3
  · intro ha; subst ha
    rcases hvd.1 with ⟨_, hl⟩ | ⟨h4, _⟩ | ⟨h3, _⟩
    · match ad, hl with
      | [x, y, z, w], _ =>
        have := textV4_reads_back_ipaddress x y z w
        simpa [hostText, beNat] using this
    · cases h4
    · cases h3

-- non-vacuity: the reader on concrete texts (kernel computation)
example : C22.parseIp (asciiBytes (textV6 [0x20,1,0xd,0xb8,0,0,0,0,0,1,0,0,0,0,0,1])) =
    some (.v6 (beNat [0x20,1,0xd,0xb8,0,0,0,0,0,1,0,0,0,0,0,1]) none) := by decide +kernel
example : C22.parseIp (asciiBytes (textV6 [0,0,0,0,0,0,0,0,0,0,0xff,0xff,1,2,3,4])) =
    some (.v6 0xffff01020304 none) := by decide +kernel

/-! ### round 5: whole-history forms of the remaining reject clauses, and the outcome trichotomy -/

/-- **unknown address type** (whole history): after any accepted greeting (+ auth), a CONNECT request with an ATYP
    other than 1, 3, 4 (5 bytes of it available), cut in any way: REP 08, client closed, no destination, nothing opened,
    nothing relayed. -/
theorem unknown_atyp_rejected (env : Env) (segs : List Bytes) (pre : Bytes) (a x : UInt8) (tl : Bytes)
    (hflat : segs.flatten = pre ++ (5 :: 1 :: 0 :: a :: x :: tl)) (hpre : ValidPre env pre)
    (h1 : a ≠ 1) (h4 : a ≠ 4) (h3 : a ≠ 3) :
    let r := (inc env).feedAll init segs
    r.1 = .done ∧ sends r.2 = preSends env ++ [reply 8] ∧ r.2.getLast? = some .close ∧
      setAddrs r.2 = [] ∧ Out.openServer ∉ r.2 ∧ childBytes r.2 = [] ∧ Out.childStart ∉ r.2 := by
  intro r
  have hr : r = feed env init segs.flatten := seg_independent env init segs
  obtain ⟨o, ho, s1, s2, s3, s4, s5, _⟩ := pre_then_connect env pre (5 :: 1 :: 0 :: a :: x :: tl) hpre
  have hrej := (reject_codes env).2.2.1 a x tl h1 h4 h3
  rw [hr, hflat, ho, hrej]
  simp [s1, s2, s3, s4, s5, sends, setAddrs, childBytes, List.getLast?_append]

/-- **destination unreachable** (whole history): a well-formed handshake whose eager connection attempt fails, cut
    in any way: the requested destination is set and tried once, REP 04, client closed, nothing relayed. -/
theorem unreachable_rejected (env : Env) (segs : List Bytes) (pre : Bytes) (a : UInt8) (ad : Bytes) (p : Nat) (t : Bytes)
    (hflat : segs.flatten = pre ++ encodeReq a ad p ++ t) (hpre : ValidPre env pre) (hvd : ValidDest a ad p)
    (he : env.eager = true) (hc : env.connOk = false) :
    let r := (inc env).feedAll init segs
    r.1 = .done ∧ sends r.2 = preSends env ++ [reply 4] ∧ r.2.getLast? = some .close ∧
      setAddrs r.2 = [(a, ad, p)] ∧ childBytes r.2 = [] ∧ Out.childStart ∉ r.2 := by
  intro r
  have hr : r = feed env init segs.flatten := seg_independent env init segs
  obtain ⟨o, ho, s1, s2, s3, s4, s5, _⟩ := pre_then_connect env pre (encodeReq a ad p ++ t) hpre
  have hrej := (reject_codes env).2.2.2 a ad p t hvd he hc
  rw [hr, hflat, List.append_assoc, ho, hrej]
  simp [s1, s2, s3, s4, s5, sends, setAddrs, childBytes, List.getLast?_append]

private theorem pending_quiet (env : Env) (segs : List Bytes)
    (h1 : ((inc env).feedAll init segs).1 ≠ .relay) (h2 : ((inc env).feedAll init segs).1 ≠ .done) :
    setAddrs ((inc env).feedAll init segs).2 = [] ∧ childBytes ((inc env).feedAll init segs).2 = [] ∧
      Out.openServer ∉ ((inc env).feedAll init segs).2 ∧ reply 0 ∉ sends ((inc env).feedAll init segs).2 := by
  rw [seg_independent] at h1 h2 ⊢
  rcases run_shape env segs.flatten with hA | ⟨pre, a, ad, p, t, o, _, _, _, hh, _⟩
  · exact ⟨hA.2.1, hA.2.2.1, hA.2.2.2.2.1, hA.2.2.2.2.2.1⟩
  · exfalso
    rw [hh] at h1 h2
    rcases (connResult_obs env a ad p t).2 with ⟨hr, _⟩ | ⟨hd, _⟩
    · exact h1 hr
    · exact h2 hd

/-- **"either rejects … or connects …"**: for every byte stream and every segmentation the machine is in exactly one
    of three situations — still waiting for handshake bytes (nothing set, opened, relayed or closed beyond the replies
    so far), rejected (client closed last, nothing relayed, no success reply), or connected (the stream is
    `greeting [auth] request(a, ad, p) trailing`, that destination is the one set, the success reply was sent and exactly
    `trailing` reached the next layer). -/
theorem outcome_trichotomy (env : Env) (segs : List Bytes) :
    let r := (inc env).feedAll init segs
    ((∃ buf, r.1 = .greet buf ∨ r.1 = .auth buf ∨ r.1 = .connect buf) ∧
        setAddrs r.2 = [] ∧ childBytes r.2 = [] ∧ Out.openServer ∉ r.2 ∧ reply 0 ∉ sends r.2) ∨
    (r.1 = .done ∧ r.2.getLast? = some .close ∧ childBytes r.2 = [] ∧ Out.childStart ∉ r.2 ∧ reply 0 ∉ sends r.2) ∨
    (r.1 = .relay ∧ ∃ pre a ad p t, segs.flatten = pre ++ encodeReq a ad p ++ t ∧ ValidPre env pre ∧ ValidDest a ad p ∧
        setAddrs r.2 = [(a, ad, p)] ∧ childBytes r.2 = t ∧ sends r.2 = preSends env ++ [reply 0]) := by
  intro r
  have hs := success_reply_iff_accepted env segs
  simp only at hs
  cases hst : r.1 with
  | relay =>
    right; right
    obtain ⟨pre, a, ad, p, t, h1, h2, h3, _, h5, h6⟩ := relayed_only_after_request env segs (Or.inl hst)
    exact ⟨rfl, pre, a, ad, p, t, h1, h2, h3, h6, h5, hs.2 hst⟩
  | done =>
    right; left
    obtain ⟨h1, h2, h3⟩ := reject_closes env segs hst
    refine ⟨rfl, h1, h2, h3, fun hm => ?_⟩
    have := hs.1.mp hm
    rw [hst] at this; cases this
  | greet buf => left; exact ⟨⟨buf, Or.inl rfl⟩, pending_quiet env segs (by rw [hst]; simp) (by rw [hst]; simp)⟩
  | auth buf => left; exact ⟨⟨buf, Or.inr (Or.inl rfl)⟩, pending_quiet env segs (by rw [hst]; simp) (by rw [hst]; simp)⟩
  | connect buf => left; exact ⟨⟨buf, Or.inr (Or.inr rfl)⟩, pending_quiet env segs (by rw [hst]; simp) (by rw [hst]; simp)⟩

/-! ### round 5: CPython's IPv6 writer (`str(ipaddress.IPv6Address)`, used elsewhere in mitmproxy, e.g. for AAAA data) -/

/-- the text CPython writes for an IPv6 address reads back — with the transcription of CPython's reader — to exactly
    the 16 bytes, for every address -/
theorem textV6Py_reads_back (ad : Bytes) (h : ad.length = 16) :
    C22.parseIp (asciiBytes (textV6Py ad)) = some (.v6 (beNat ad) none) := by
  rw [parseIp_textV6Py ad h, wordsVal_words16 ad h]

/-- CPython's writer and inet_ntop6 (the text Socks5Proxy stores) give the same text unless inet_ntop6 embeds an IPv4
    suffix (`::a.b.c.d`, `::ffff:a.b.c.d`) -/
theorem textV6Py_eq_inet_ntop_unless_embedded (ad : Bytes)
    (h : ¬ Embedded (bestRun (words16 ad)) ((words16 ad).getD 5 0)) : textV6Py ad = textV6 ad :=
  textV6Py_eq_textV6 ad h

example : String.ofList (textV6Py [0,0,0,0,0,0,0,0,0,0,0xff,0xff,1,2,3,4]) = "::ffff:102:304" := by decide +kernel
example : String.ofList (textV6Py [0x20,1,0xd,0xb8,0,0,0,0,0,1,0,0,0,0,0,1]) = "2001:db8::1:0:0:1" := by decide +kernel
example : bestRun (words16 [0,0,0,0,0,0,0,0,0,0,0xff,0xff,1,2,3,4]) = some ⟨0, 5⟩ := by decide +kernel
example : ¬ Embedded (bestRun (words16 [0x20,1,0xd,0xb8,0,0,0,0,0,1,0,0,0,0,0,1])) 1 := by
  have : bestRun (words16 [0x20,1,0xd,0xb8,0,0,0,0,0,1,0,0,0,0,0,1]) = some ⟨2, 2⟩ := by decide +kernel
  simp [this, Embedded]

/-! ### (T) the model's literals are the constants of the code (Gen/C21.lean is regenerated on every run) -/

open MitmVerif.Gen.C21 in
/-- version, method numbers, address types and reply codes used by the model are modes.py's `SOCKS5_*` constants -/
theorem constants_match_code :
    needed envT = UInt8.ofNat SOCKS5_METHOD_NO_AUTHENTICATION_REQUIRED ∧
    needed envA = UInt8.ofNat SOCKS5_METHOD_USER_PASSWORD_AUTHENTICATION ∧
    syncGreet envT [UInt8.ofNat SOCKS5_VERSION, 0] =
      (.done, [.send (reply (UInt8.ofNat SOCKS5_METHOD_NO_ACCEPTABLE_METHODS)), .close]) ∧
    syncConnect envA [UInt8.ofNat SOCKS5_VERSION, 1, 0, UInt8.ofNat SOCKS5_ATYP_IPV4_ADDRESS, 1, 2, 3, 4, 0, 80] =
      (.done, [.setAddr 1 [1, 2, 3, 4] 80, .openServer, .send (reply (UInt8.ofNat SOCKS5_REP_HOST_UNREACHABLE)), .close]) ∧
    syncConnect envA [UInt8.ofNat SOCKS5_VERSION, 1, 0, UInt8.ofNat SOCKS5_ATYP_DOMAINNAME, 1, 0x78, 0, 80] =
      (.done, [.setAddr 3 [0x78] 80, .openServer, .send (reply (UInt8.ofNat SOCKS5_REP_HOST_UNREACHABLE)), .close]) ∧
    syncConnect envA [UInt8.ofNat SOCKS5_VERSION, 1, 0, UInt8.ofNat SOCKS5_ATYP_IPV6_ADDRESS,
        0, 0, 0, 0, 0, 0, 0, 0, 0, 0, 0, 0, 0, 0, 0, 1, 0, 80] =
      (.done, [.setAddr 4 [0, 0, 0, 0, 0, 0, 0, 0, 0, 0, 0, 0, 0, 0, 0, 1] 80, .openServer,
               .send (reply (UInt8.ofNat SOCKS5_REP_HOST_UNREACHABLE)), .close]) ∧
    syncConnect envT [UInt8.ofNat SOCKS5_VERSION, 2, 0, 1, 0] =
      (.done, [.send (reply (UInt8.ofNat SOCKS5_REP_COMMAND_NOT_SUPPORTED)), .close]) ∧
    syncConnect envT [UInt8.ofNat SOCKS5_VERSION, 1, 0, 9, 0] =
      (.done, [.send (reply (UInt8.ofNat SOCKS5_REP_ADDRESS_TYPE_NOT_SUPPORTED)), .close]) := by
  decide +kernel

/-! ### audit round 6: further non-vacuity witnesses (the hypotheses of the whole-history theorems instantiated) -/

private def auPre : Bytes := [5, 1, 0]                                   -- greeting offering "no authentication"
private def auPreA : Bytes := [5, 2, 0, 2, 1, 1, 0x61, 1, 0x62]           -- greeting offering 00,02 + user "a" / password "b"
private theorem auValidPre : ValidPre envT auPre := ⟨[0], by decide, by decide, Or.inl ⟨rfl, rfl⟩⟩
private theorem auValidPreA : ValidPre envA auPreA :=
  ⟨[0, 2], by decide, by decide, Or.inr ⟨rfl, 1, [0x61], [0x62], by decide, by decide, by decide, rfl⟩⟩
private theorem auDest4 : ValidDest 1 [10, 0, 0, 1] 443 := ⟨Or.inl ⟨rfl, rfl⟩, by decide⟩
private theorem auDest6 : ValidDest 4 [0x20,1,0xd,0xb8,0,0,0,0,0,0,0,0,0,0,0,1] 80 := ⟨Or.inr (Or.inl ⟨rfl, rfl⟩), by decide⟩

/-- `after_request_relayed_once_in_order`, `connects_to_requested_ip` (IPv6), `relayed_only_after_request`: a handshake cut in
    three odd places, with two trailing bytes -/
example := after_request_relayed_once_in_order envT [[5], [1, 0, 5, 1, 0, 1, 10, 0], [0, 1, 1, 0xbb, 7, 8]] auPre 1 [10, 0, 0, 1] 443 [7, 8]
  (by decide) auValidPre auDest4 (fun _ => rfl)
example := connects_to_requested_ip envT [[5, 1, 0, 5, 1, 0, 4, 0x20,1,0xd,0xb8,0,0,0,0], [0,0,0,0,0,0,0,1, 0, 80]] auPre 4
  [0x20,1,0xd,0xb8,0,0,0,0,0,0,0,0,0,0,0,1] 80 [] (by decide) auValidPre auDest6
example : ((inc envT).feedAll init [[5], [1, 0, 5, 1, 0, 1, 10, 0], [0, 1, 1, 0xbb, 7, 8]]).1 = .relay := by decide +kernel
/-- `unreachable_rejected` (eager connect fails, with authentication), `other_commands_rejected`, `unknown_atyp_rejected` -/
example := unreachable_rejected envA [auPreA, [5, 1, 0, 1, 10, 0, 0, 1, 1, 0xbb]] auPreA 1 [10, 0, 0, 1] 443 []
  (by decide) auValidPreA auDest4 rfl rfl
example := other_commands_rejected envT [[5, 1], [0, 5, 3, 0, 1, 0, 9]] auPre 3 0 1 0 [9] (by decide) auValidPre (by decide)
example := unknown_atyp_rejected envA [auPreA ++ [5, 1, 0, 2, 0]] auPreA 2 0 [] (by decide) auValidPreA (by decide) (by decide) (by decide)
/-- `method_selection` (both branches) and `greeting_incomplete_silent` -/
example := (method_selection envA [0, 1] [9] [[5, 2, 0], [1, 9]] (by decide) (by decide)).2 (by decide)
example := (method_selection envA [0, 2] [] [[5, 2, 0], [2]] (by decide) (by decide)).1 (by decide)
example := greeting_incomplete_silent envT [0, 1, 2] 3 [[5], [3, 0]] (by decide) (by decide) (by decide)
/-- `schedule_and_segmentation_independent`, `deferred_handshake_relays`: data, then the hook and the connect complete late, EOF last -/
private def auEnvL : Env := ⟨true, fun _ _ => true, true, true⟩
private theorem auValidPreL : ValidPre auEnvL auPreA :=
  ⟨[0, 2], by decide, by decide, Or.inr ⟨rfl, 1, [0x61], [0x62], by decide, by decide, rfl, rfl⟩⟩
example := deferred_handshake_relays auEnvL
  [.ev (.data auPreA), .ev (.data [5, 1, 0, 1, 10, 0]), .complete, .ev (.data [0, 1, 1, 0xbb, 7]), .ev (.data [8]), .complete]
  [auPreA, [5, 1, 0, 1, 10, 0], [0, 1, 1, 0xbb, 7], [8]] auPreA 1 [10, 0, 0, 1] 443 [7, 8]
  (by decide) (by decide) auValidPreL auDest4 (fun _ => rfl)
example := schedule_and_segmentation_independent auEnvL
  [.ev (.data auPreA), .complete, .ev (.data [5, 1, 0, 1, 10, 0, 0, 1, 1, 0xbb]), .ev .close] [auPreA, [5, 1, 0, 1, 10, 0, 0, 1, 1, 0xbb]] true
  (by decide)
/-- `buffered_request_then_data_relayed`: its start state is reached by the schedule "greeting + credentials, then request, then data" -/
example : (actAll ⟨true, fun _ _ => true, false, true⟩ (.settled init)
    [.ev (.data [5, 1, 2, 1, 0, 0]), .ev (.data (encodeReq 1 [1, 2, 3, 4] 80 ++ [7])), .ev (.data [8])]).1 =
    .authWait [] [] [] [.data (encodeReq 1 [1, 2, 3, 4] 80 ++ [7]), .data [8]] := by decide +kernel

end MitmVerif.Props.C21
